/-
C19 — model of the typed accessors of `midgard.config.config.ConfigurationEntry` that take arguments or
go through other modules:

  * `as_list / as_tuple (split_re, maxsplit)`, `as_dict (item_split_re, key_value_split_re, maxsplit)`:
    `re.split` with a *character class* as pattern (`[\s,]`, `[:]`, `[^_\w]`, … — every pattern the
    library uses is one), §Classes and §Splitting
  * `float` / `as_float`: the grammar of `float(str)` (blanks around, sign, digits with single
    underscores, point, exponent, `inf` / `infinity` / `nan`), exact value as a rational, §Float
  * `date` / `datetime` (`as_date`, `as_datetime` with the default formats `%Y-%m-%d` and
    `%Y-%m-%d %H:%M:%S`): `datetime.strptime` over the calendar of `Model/TimeText.lean`, §Dates
  * `path` / `as_path`: `os.path.expanduser` for `~` and `~/…` and the normalisation `pathlib.Path`
    applies (POSIX), §Paths
  * `as_enum (name)`: `enums.get_value(name, value)` over the regenerated table of registered
    enumerations, §Enums

ASCII only, like `Model/Config.lean`.
-/
import Midgard.Model.Config
import Midgard.Model.TimeText

namespace Midgard.Config

/-! ### Classes: the `[...]` patterns -/

inductive ClassItem
  | ch (c : Char)
  | range (a b : Char)
  | space          -- `\s`
  | word           -- `\w`
  | digit          -- `\d`
  | notSpace       -- `\S`
  | notWord        -- `\W`
  | notDigit       -- `\D`
  deriving Repr, DecidableEq

structure CharClass where
  neg : Bool
  items : List ClassItem
  deriving Repr, DecidableEq

def ClassItem.has (c : Char) : ClassItem → Bool
  | .ch x => x = c
  | .range a b => a ≤ c && c ≤ b
  | .space => isBlank c
  | .word => isWord c
  | .digit => c.isDigit
  | .notSpace => !isBlank c
  | .notWord => !isWord c
  | .notDigit => !c.isDigit

/-- does the class match the character -/
def CharClass.has (cc : CharClass) (c : Char) : Bool := (cc.items.any (·.has c)) != cc.neg

/-- one atom of a class body: an escape or a plain character; `none` = outside the modelled syntax -/
def classAtom : List Char → Option (ClassItem × List Char)
  | '\\' :: 's' :: r => some (.space, r)
  | '\\' :: 'w' :: r => some (.word, r)
  | '\\' :: 'd' :: r => some (.digit, r)
  | '\\' :: 'S' :: r => some (.notSpace, r)
  | '\\' :: 'W' :: r => some (.notWord, r)
  | '\\' :: 'D' :: r => some (.notDigit, r)
  | '\\' :: c :: r => if c.isAlphanum then none else some (.ch c, r)   -- an escaped punctuation character
  | ['\\'] => none
  | '[' :: _ => none                                                    -- nested set / POSIX class: not modelled
  | c :: r => some (.ch c, r)
  | [] => none

/-- the body of a class up to the closing bracket (fuel = length of the text) -/
def classBody : Nat → List Char → List ClassItem → Option (List ClassItem × List Char)
  | 0, _, _ => none
  | _, [], _ => none
  | n + 1, ']' :: r, acc => if acc.isEmpty then
      (classBody n r [.ch ']'])                                         -- a leading `]` is a literal
    else some (acc.reverse, r)
  | n + 1, s, acc =>
    match classAtom s with
    | none => none
    | some (.ch a, '-' :: r) =>
      -- `a-b` is a range unless the `-` is the last character of the class
      match r with
      | ']' :: _ => classBody n ('-' :: r) (.ch a :: acc)
      | _ =>
        match classAtom r with
        | some (.ch b, r') => if a ≤ b then classBody n r' (.range a b :: acc) else none
        | _ => none
    | some (it, '-' :: r) =>
      -- `\s-x`: "bad character range" unless the `-` closes the class
      match r with
      | ']' :: _ => classBody n ('-' :: r) (it :: acc)
      | _ => none
    | some (it, r) => classBody n r (it :: acc)

/-- a pattern that is exactly one character class: `[...]` or `[^...]` -/
def parseClass? (pat : String) : Option CharClass :=
  match pat.toList with
  | '[' :: '^' :: r =>
    match classBody (r.length + 1) r [] with
    | some (items, []) => some ⟨true, items⟩
    | _ => none
  | '[' :: r =>
    match classBody (r.length + 1) r [] with
    | some (items, []) => some ⟨false, items⟩
    | _ => none
  | _ => none

/-! ### Splitting: `re.split(class, text, maxsplit)` -/

/-- `re.split` for a pattern that matches single characters: the pieces between the matching characters, empty
ones included; `lim = some n`: only the first `n` matching characters split (`maxsplit = n > 0`), the rest of the
text is the last piece -/
def reSplit (isSep : Char → Bool) : Option Nat → List Char → List Char → List (List Char)
  | _, [], cur => [cur.reverse]
  | lim, c :: t, cur =>
    if isSep c && lim != some 0 then cur.reverse :: reSplit isSep (lim.map (· - 1)) t []
    else reSplit isSep lim t (c :: cur)

def limOf (maxsplit : Nat) : Option Nat := if maxsplit = 0 then none else some maxsplit

/-- `entry.as_list(split_re, maxsplit=…)` / `as_tuple`: `[s for s in re.split(split_re, value, maxsplit) if s]` -/
def asListRe (cc : CharClass) (maxsplit : Nat) (v : String) : List String :=
  ((reSplit cc.has (limOf maxsplit) v.toList []).filter (fun p => !p.isEmpty)).map String.ofList

/-- the default pattern `[\s,]` -/
def classSpaceComma : CharClass := ⟨false, [.space, .ch ',']⟩
/-- the default key/value pattern `[:]` -/
def classColon : CharClass := ⟨false, [.ch ':']⟩

/-- `entry.as_dict(item_split_re, key_value_split_re, maxsplit=…)`: every item is split once at the first
key/value separator; an item without one makes the unpacking `for k, v in key_values` raise ValueError -/
def asDictRe (itemCc kvCc : CharClass) (maxsplit : Nat) (v : String) : Except Err (List (String × String)) :=
  (asListRe itemCc maxsplit v).foldl (fun acc it =>
    match acc with
    | .error e => .error e
    | .ok d =>
      match reSplit kvCc.has (some 1) it.toList [] with
      | [k, x] => .ok (dset d (String.ofList k) (String.ofList x))
      | _ => .error .value) (.ok [])

/-! ### Float: `float(value)` -/

inductive FloatVal
  | finite (q : Rat)       -- the exact value of the decimal literal (Python rounds it to the nearest double)
  | inf (neg : Bool)
  | nan
  deriving Repr, DecidableEq

/-- underscores are allowed between two digits only; returns the text without them -/
def dropUnderscores : Option Char → List Char → Option (List Char)
  | _, [] => some []
  | prev, '_' :: t =>
    match prev, t with
    | some p, n :: _ => if p.isDigit && n.isDigit then dropUnderscores (some '_') t else none
    | _, _ => none
  | _, c :: t => (dropUnderscores (some c) t).map (c :: ·)

def lowerList (s : List Char) : List Char := s.map lowerChar

/-- `entry.float` = `float(self._value)` -/
def asFloat (v : String) : Except Err FloatVal :=
  let s := stripBlanks v.toList
  let sp := splitSign s
  let name := lowerList sp.2
  if name = "inf".toList || name = "infinity".toList then .ok (.inf sp.1)
  else if name = "nan".toList then .ok .nan
  else
    match dropUnderscores none s with
    | none => .error .value
    | some t =>
      -- a blank inside the text is refused by the digit checks of the decimal parser
      if t.any isBlank then .error .value else
      match Midgard.Decimal.parseFloat t with
      | some q => .ok (.finite q)
      | none => .error .value

/-! ### Dates: `datetime.strptime(value, "%Y-%m-%d")` and `"%Y-%m-%d %H:%M:%S"` -/

open Midgard.TimeFormat in
/-- `%d`: `3[0-1]|[1-2]\d|0[1-9]|[1-9]| [1-9]` — one or two digits 1 … 31, or a blank and one digit -/
def dayDir (s : List Char) : Option (Int × List Char) :=
  match numDir 1 2 1 31 s with
  | some r => some r
  | none =>
    match s with
    | ' ' :: c :: r => if '1' ≤ c ∧ c ≤ '9' then some (((c.toNat - 48 : Nat) : Int), r) else none
    | _ => none

open Midgard.TimeFormat in
/-- `%Y-%m-%d` → (year, month, day, rest) -/
def ymdDirB (s : List Char) : Option (Int × Int × Int × List Char) :=
  (numDir 4 4 0 9999 s).bind fun y =>
  (litDir '-' y.2).bind fun s1 =>
  (numDir 1 2 1 12 s1).bind fun m =>
  (litDir '-' m.2).bind fun s2 =>
  (dayDir s2).bind fun d =>
  some (y.1, m.1, d.1, d.2)

open Midgard.TimeFormat in
/-- `entry.date` = `datetime.strptime(value, "%Y-%m-%d").date()`: the instant of the day's midnight in microseconds
since 2000-01-01 (the `DateTime` of `Model/TimeFormat.lean`) -/
def asDate (v : String) : Except Err Int :=
  match (ymdDirB v.toList).bind (fun a =>
      if a.2.2.2.isEmpty then mkDateTime a.1 a.2.1 a.2.2.1 0 0 0 0 else none) with
  | some dt => .ok dt
  | none => .error .value

open Midgard.TimeFormat in
/-- `entry.datetime` = `datetime.strptime(value, "%Y-%m-%d %H:%M:%S")` -/
def asDatetime (v : String) : Except Err Int :=
  match (ymdDirB v.toList).bind (fun a =>
      (wsDir a.2.2.2).bind fun s1 =>
      (hmsDir s1).bind fun b =>
      if b.2.2.2.isEmpty then mkDateTime a.1 a.2.1 a.2.2.1 b.1 b.2.1 b.2.2.1 0 else none) with
  | some dt => .ok dt
  | none => .error .value

/-! ### Paths: `pathlib.Path(os.path.expanduser(value) if "~" in value else value)` -/

def splitOnChar (sep : Char) : List Char → List Char → List (List Char)
  | [], cur => [cur.reverse]
  | c :: t, cur => if c = sep then cur.reverse :: splitOnChar sep t [] else splitOnChar sep t (c :: cur)

/-- `posixpath.expanduser(path)` with `$HOME = home`; `none` for `~user…` (looked up in the password database) -/
def expandUser (home : List Char) (p : List Char) : Option (List Char) :=
  match p with
  | '~' :: r =>
    match r with
    | [] | '/' :: _ =>
      let h := (home.reverse.dropWhile (· = '/')).reverse          -- `userhome.rstrip("/")`
      let out := h ++ r
      some (if out.isEmpty then ['/'] else out)
    | _ => none
  | _ => some p

/-- `str(pathlib.PurePosixPath(p))`: empty and `.` components are dropped, exactly two leading slashes are kept,
the empty path is `.` -/
def normPath (p : List Char) : List Char :=
  let lead := (p.takeWhile (· = '/')).length
  let root : List Char := if lead = 0 then [] else if lead = 2 then ['/', '/'] else ['/']
  let parts := (splitOnChar '/' p []).filter (fun x => !x.isEmpty && x != ['.'])
  let body := joinWith ['/'] parts
  if root.isEmpty && body.isEmpty then ['.'] else root ++ body

/-- `str(entry.path)` -/
def asPath (home : String) (v : String) : Option String :=
  let p := v.toList
  (if p.contains '~' then expandUser home.toList p else some p).map (fun q => String.ofList (normPath q))

/-! ### Enums: `enums.get_value(name, value)` -/

inductive EnumErr | unknownEnum | value
  deriving Repr, DecidableEq

/-- `table`: registered enumeration → its `__members__` as (name, name of the member it stands for) — an alias
stands for the member defined first with that value -/
def asEnum (table : List (String × List (String × String))) (enum v : String) : Except EnumErr String :=
  match dget? table enum with
  | none => .error .unknownEnum
  | some members =>
    match dget? members v with
    | some canonical => .ok canonical
    | none => .error .value

end Midgard.Config
