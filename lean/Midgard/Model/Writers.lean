/-
C17 — the writers, line by line (model).  Cells and `str.format` semantics are in
`Model/WriterCells.lean`; the line layouts themselves are *regenerated from the source* into
`Generated/WriterLayouts.lean` — the functions below only supply the control flow around them
(which stations are skipped, ordering, counters, which columns exist).

  rowOf w            the (first) formatted line of writer `w` (`rowAt w line` for a specific one)
  renderNamed        `"...".format(name=value, …)`: cells pick their value by name
  crdBody            writers/bernese_crd.py   data lines
  velBody            writers/bernese_vel.py   data lines
  cluBody            writers/bernese_clu.py   data lines
  tmsColumns / tmsHeader / tmsData      writers/sinex_tms.py TIMESERIES/DATA: existing columns, the
                     `* _NAME___` header line, the data lines (cells adjacent, no separator)
  tmsBlocks          order of the blocks `sinex_tms()` writes
  csvLine / csvBody  writers/csv_.py through `np.savetxt(fmt=…, delimiter=",")`
-/
import Midgard.Generated.WriterLayouts

namespace Midgard.Writers
open Midgard.Text Midgard.Decimal Midgard.FixedCol Midgard.WriterCells Midgard.Generated.WriterLayouts

abbrev Env := List (String × Value)

/-- `"...".format(**env)` over the cells of a line -/
def renderNamed : List Cell → Env → Option Str
  | [], _ => some []
  | .lit t :: cs, env => (renderNamed cs env).map (t.toList ++ ·)
  | .fld n spec :: cs, env =>
    match env.lookup n with
    | some v => if v.okFor spec then (renderNamed cs env).map (fmtValue spec v ++ ·) else none
    | none => none
  | .other _ :: _, _ => none

def rowAt (w : String) (line : Nat) : List Cell :=
  match rows.find? (fun r => r.writer = w && r.line = line) with
  | some r => r.cells
  | none => []

/-- the data line of a writer that has exactly one formatted line -/
def rowOf (w : String) : List Cell :=
  match rows.find? (fun r => r.writer = w) with
  | some r => r.cells
  | none => []

/-- the formatted line of writer `w` that has a cell named `field` -/
def rowWith (w field : String) : List Cell :=
  match rows.find? (fun r => r.writer = w && r.cells.any fun c =>
      match c with | .fld n _ => n = field | _ => false) with
  | some r => r.cells
  | none => []

/-! ### sorting (`sorted(site_info.keys())`: Python compares `str` by code point) -/

def strLe (a b : Str) : Bool := !(b < a)

def insertBy {α} (le : α → α → Bool) (x : α) : List α → List α
  | [] => [x]
  | y :: r => if le x y then x :: y :: r else y :: insertBy le x r

/-- stable insertion sort -/
def sortBy {α} (le : α → α → Bool) (l : List α) : List α := l.foldr (insertBy le) []

/-! ### Bernese CRD / VEL / CLU -/

structure Station where
  key : Str
  /-- `site_info[sta]["site_coord"].get("last")`: `none` = no coordinate entry -/
  xyz : Option (Value × Value × Value)
  domes : Option Str
  plate : Option Str := none
  deriving Repr

def enumerate {α} (l : List α) : List (Nat × α) := l.zipIdx.map fun (a, i) => (i, a)

def sortedStations (sts : List Station) : List (Nat × Station) :=
  enumerate (sortBy (fun a b => strLe a.key b.key) sts)

/-- one station the CRD / VEL writers emit: running number (`counter + 1`), the station, its three numbers -/
abbrev XyzEntry := Nat × Station × Value × Value × Value

/-- the loop over `enumerate(sorted(site_info.keys()))` of writers/bernese_crd.py and bernese_vel.py: stations
without a coordinate entry are skipped, and so are — unless `write_nan…` — those whose first number is NaN; the
counter runs over *all* stations -/
def xyzEntries (writeNan : Bool) (sts : List Station) : List XyzEntry :=
  (sortedStations sts).filterMap fun p =>
    match p.2.xyz with
    | none => none
    | some (x, y, z) => if !writeNan && x = .nan then none else some (p.1 + 1, p.2, x, y, z)

/-- the keyword arguments of the CRD line's `.format(...)` -/
def crdEnv (e : XyzEntry) : Env :=
  [("number", .int (e.1 : Nat)), ("station", .str (upper e.2.1.key)), ("domes", .str (e.2.1.domes.getD [])),
   ("x", e.2.2.1), ("y", e.2.2.2.1), ("z", e.2.2.2.2), ("flag", .str ['A'])]

/-- writers/bernese_crd.py: the data lines; `none` when a line cannot be formatted (the writer raises) -/
def crdBody (writeNan : Bool) (sts : List Station) : Option (List Str) :=
  (xyzEntries writeNan sts).mapM fun e => renderNamed (rowOf "bernese_crd") (crdEnv e)

def lowerStr (s : Str) : String := String.ofList (lower s)

/-- `"" if idn.tectonic_plate is None else plate_def[idn.tectonic_plate.lower()]` (`none`: KeyError) -/
def velPlate (st : Station) : Option Str :=
  match st.plate with
  | none => some []
  | some pl => (velPlateDef.lookup (lowerStr pl)).map String.toList

/-- writers/bernese_vel.py -/
def velBody (writeNan : Bool) (sts : List Station) : Option (List Str) :=
  (xyzEntries writeNan sts).mapM fun e =>
    match velPlate e.2.1 with
    | none => none
    | some plate => renderNamed (rowOf "bernese_vel") (crdEnv e ++ [("plate", .str plate)])

/-- writers/bernese_clu.py -/
def cluBody (keys : List Str) : Option (List Str) :=
  (sortBy strLe keys).mapM fun k =>
    renderNamed (rowOf "bernese_clu") [("station", .str (upper k)), ("cluster", .int 1)]

/-! ### SINEX TMS: TIMESERIES/DATA -/

/-- `_get_existing_data_fields`: a column exists when the dataset has the field it is taken from —
`obs.<field>` for collection fields (first two dotted parts), else the first part -/
def tmsColumns (dsetFields : List String) : List String :=
  (dataFieldTypes.filter fun (_, field) =>
    let parts := field.splitOn "."
    if field.startsWith "obs." then
      dsetFields.contains (".".intercalate (parts.take 2))
    else dsetFields.contains (parts.headD "")).map (·.1)

def specOf (name : String) : Option Spec := dataTypes.lookup name

/-- the `* _NAME______` line: per column `" _" ++ name.ljust(width - 2, "_")` (never truncated) -/
def tmsHeader (cols : List String) : Option Str :=
  (cols.mapM fun c => (specOf c).map fun sp =>
      " _".toList ++ c.toList ++ List.replicate ((sp.width - 2) - c.length) '_').map
    fun (parts : List Str) => '*' :: parts.flatten

/-- one data line: a blank, then the cells one after the other without separator -/
def tmsLine (cols : List String) (vals : Env) : Option Str :=
  (cols.mapM fun c => do
      let sp ← specOf c
      let v ← vals.lookup c
      if v.okFor sp then pure (fmtValue sp v) else none).map fun (parts : List Str) => ' ' :: parts.flatten

/-- the data lines: epochs in ascending order; for an epoch that occurs several times the writer
prints the *first* matching row each time (`…[idx][0]`) -/
def tmsData (cols : List String) (epochs : List (Int × Env)) : Option (List Str) :=
  let order := sortBy (fun (a b : Int) => decide (a ≤ b)) (epochs.map (·.1))
  order.mapM fun t =>
    match epochs.find? (fun e => e.1 = t) with
    | some e => tmsLine cols e.2
    | none => none

/-- blocks written by `sinex_tms()`, in order (`+NAME` … `-NAME` each) -/
def tmsBlocks (hasEstimates hasSolutionDescription hasEast : Bool) : List String :=
  ["FILE/REFERENCE"] ++
  (if hasEstimates then (if hasSolutionDescription then ["SOLUTION/DESCRIPTION"] else []) ++ ["SOLUTION/ESTIMATE"] else []) ++
  (if hasEast then ["TIMESERIES/REF_COORDINATE"] else []) ++
  ["TIMESERIES/COLUMNS", "TIMESERIES/DATA"]

/-- the marker lines those blocks produce -/
def tmsMarkers (bs : List String) : List String := bs.flatMap fun b => ["+" ++ b, "-" ++ b]

/-- begin/end markers are balanced and not nested: a stack machine over the marker lines -/
def balanced : Option String → List String → Bool
  | none, [] => true
  | some _, [] => false
  | none, l :: r => if l.startsWith "+" then balanced (some (l.drop 1).toString) r else false
  | some b, l :: r => if l = "-" ++ b then balanced none r else false

/-! ### CSV (np.savetxt) -/

inductive CsvFmt where
  | s | d | f (prec : Nat)
  deriving DecidableEq, Repr

/-- `fmt % value` for the formats the writer produces (`%s`, `%d`, `%.nf`) -/
def csvCell : CsvFmt → Value → Option Str
  | .s, .str t => some t
  | .d, .int i => some (fmtInt i)
  | .f p, .num q => some (fmtFixedCore q p)
  | .f _, .nan => some "nan".toList
  | .f p, .negz => some ('-' :: fmtFixedCore 0 p)
  | _, _ => none

def joinWith (sep : Char) : List Str → Str
  | [] => []
  | [x] => x
  | x :: r => x ++ sep :: joinWith sep r

def csvLine (fmts : List CsvFmt) (vals : List Value) : Option Str :=
  if fmts.length ≠ vals.length then none else
  ((fmts.zip vals).mapM fun (f, v) => csvCell f v).map (joinWith ',')

/-- rows grouped by ascending `date` text, original order inside a date (`np.where` per sorted
unique date) -/
def csvBody (fmts : List CsvFmt) (rowsIn : List (Str × List Value)) : Option (List Str) :=
  (sortBy (fun (a b : Str × List Value) => strLe a.1 b.1) rowsIn).mapM fun r => csvLine fmts r.2

end Midgard.Writers
