/-
C05 — arithmetic between position objects (`midgard.data._position`): which operand the result takes its
attributes — above all `ellipsoid` resp. `ref_pos` — from.

`pos ± delta`, `delta ± pos`, `delta ± delta`, `pos − pos` are implemented by the binary operators
`__add__/__sub__/__radd__/__rsub__` of `PositionArray`, `PosVelArray`, `PositionDeltaArray`,
`PosVelDeltaArray`; each is an `isinstance(other, …)` chain whose arms call one of the factories
`from_position` / `from_position_delta` with `other=<one of the operands>`.  The chain and the factories are
read off the source by `translator/extract_c05.py` into `Generated/EllipsoidArith.lean`; the functions below
evaluate an operation over those tables exactly as Python does (method lookup along the class hierarchy,
first matching `isinstance` arm, `NotImplemented` → reflected method → `TypeError`).
-/
import Midgard.Model.Geodetic

namespace Midgard.Geo

/-- the four classes that take part in position arithmetic -/
inductive ACls | position | posvel | posDelta | posvelDelta
  deriving Repr, DecidableEq

/-- `PosVelArray(PositionArray)`, `PosVelDeltaArray(PositionDeltaArray)` -/
def ACls.parent : ACls → Option ACls
  | .posvel => some .position
  | .posvelDelta => some .posDelta
  | _ => none

/-- `isinstance(x, d)` for an object of class `c` -/
def ACls.isa (c d : ACls) : Bool := c == d || c.parent == some d

def ACls.isDelta : ACls → Bool
  | .posDelta | .posvelDelta => true
  | _ => false

/-- the difference class of a position class (`_SYSTEMS["PositionDeltaArray"]`, `_SYSTEMS["PosVelDeltaArray"]`) -/
def ACls.deltaOf : ACls → ACls
  | .position => .posDelta
  | .posvel => .posvelDelta
  | c => c

/-- 3-column or 6-column family -/
def ACls.isPosVelFamily : ACls → Bool
  | .posvel | .posvelDelta => true
  | _ => false

inductive AMeth | add | sub | radd | rsub
  deriving Repr, DecidableEq

/-- the argument handed to a factory as `other=` -/
inductive Sel | self | other | selfRef | otherRef | unknown
  deriving Repr, DecidableEq

/-- the object a factory is called on (its class is the class of the result) -/
inductive Recv | ofSelf | ofOther | named (c : ACls) | unknownRecv
  deriving Repr, DecidableEq

inductive Factory | fromPosition | fromPositionDelta
  deriving Repr, DecidableEq

/-- `val=` of the factory call: `self.val ± other.val` or `other.val ± self.val` -/
inductive ValExpr | selfOther (plus : Bool) | otherSelf (plus : Bool) | opaqueVal
  deriving Repr, DecidableEq

/-- what a `return` statement of an operator returns -/
inductive Ret
  | notImplemented
  | none
  | build (r : Recv) (f : Factory) (s : Sel) (v : ValExpr)
  | opaque
  deriving Repr, DecidableEq

/-- one `return` of an operator method: the `isinstance(other, test)` arm it stands in (`none`: after the chain),
whether `if self.system != other.system: return NotImplemented` precedes it -/
structure Branch where
  cls : ACls
  meth : AMeth
  test : Option ACls
  guarded : Bool
  ret : Ret
  deriving Repr, DecidableEq

/-- what the constructor call inside a factory hands on -/
inductive FwdKind
  | ellipsoidOfArgCls            -- `_SYSTEMS[cls.cls_name][other.system](val, ellipsoid=other.ellipsoid, **attrs)`
  | ellipsoidOfArg (fam : ACls)  -- same with a literal family
  | refIsArg                     -- `_SYSTEMS[cls.cls_name][other.system](val, ref_pos=other, **attrs)`
  | refIsArgRef                  -- `… ref_pos=other.ref_pos …`
  | opaqueFwd
  deriving Repr, DecidableEq

structure FactorySite where
  cls : ACls
  fac : Factory
  fwd : FwdKind
  deriving Repr, DecidableEq

/-- a position object as far as the ellipsoid is concerned: class (`position`/`posvel`) and ellipsoid tag -/
structure PosPart where
  cls : ACls
  ell : Option Nat
  deriving Repr, DecidableEq

/-- an operand: a position, or a difference with its `ref_pos` (a difference has no `ellipsoid` of its own) -/
inductive Operand
  | pos (p : PosPart)
  | delta (c : ACls) (ref : PosPart)
  deriving Repr, DecidableEq

def Operand.cls : Operand → ACls
  | .pos p => p.cls
  | .delta c _ => c

/-- value of the result in terms of the operands of the *operation* (left, right) -/
inductive ValLR | lr (plus : Bool) | rl (plus : Bool) | opaqueVal
  deriving Repr, DecidableEq

inductive Outcome
  | value (o : Operand) (v : ValLR)
  | notImplemented      -- of a single method call
  | typeError           -- both methods returned NotImplemented
  | none                -- the method fell off its end
  | error               -- AttributeError inside a factory (e.g. `.ellipsoid` of a difference)
  | opaque              -- something the translator does not understand / an undefined method
  deriving Repr, DecidableEq

/-- branches of a method as Python's attribute lookup finds them: own class first, then the parent -/
def lookupMeth (tbl : List Branch) (c : ACls) (m : AMeth) : List Branch :=
  let own := tbl.filter (fun b => b.cls == c && b.meth == m)
  if own.isEmpty then
    match c.parent with
    | some p => tbl.filter (fun b => b.cls == p && b.meth == m)
    | none => []
  else own

def lookupFactory (fs : List FactorySite) (c : ACls) (f : Factory) : Option FwdKind :=
  match fs.find? (fun s => s.cls == c && s.fac == f) with
  | some s => some s.fwd
  | none =>
    match c.parent with
    | some p => (fs.find? (fun s => s.cls == p && s.fac == f)).map (·.fwd)
    | none => none

/-- the object selected by `other=<sel>`: an operand, the `ref_pos` of a difference, or an AttributeError -/
def selArg (s : Sel) (self other : Operand) : Option Operand :=
  match s with
  | .self => some self
  | .other => some other
  | .selfRef => match self with | .delta _ r => some (.pos r) | _ => none
  | .otherRef => match other with | .delta _ r => some (.pos r) | _ => none
  | .unknown => none

/-- the factory call `recv.fac(val=…, other=arg)` -/
def buildResult (fs : List FactorySite) (rc : ACls) (f : Factory) (arg : Operand) : Option Operand :=
  match lookupFactory fs rc f with
  | some .ellipsoidOfArgCls =>
    match arg with
    | .pos p => some (.pos ⟨rc, p.ell⟩)          -- `other.ellipsoid`
    | .delta _ _ => none                          -- a difference has no `.ellipsoid`
  | some (.ellipsoidOfArg fam) =>
    match arg with
    | .pos p => some (.pos ⟨fam, p.ell⟩)
    | .delta _ _ => none
  | some .refIsArg =>
    match arg with
    | .pos p => some (.delta rc p)
    | .delta c r => some (.delta rc ⟨c, r.ell⟩)   -- (a difference as `ref_pos`: not a position)
  | some .refIsArgRef =>
    match arg with
    | .delta _ r => some (.delta rc r)
    | .pos _ => none                              -- a position has no `.ref_pos`
  | _ => none

def valOf (v : ValExpr) (reflected : Bool) : ValLR :=
  match v, reflected with
  | .selfOther p, false => .lr p
  | .otherSelf p, false => .rl p
  | .selfOther p, true => .rl p
  | .otherSelf p, true => .lr p
  | .opaqueVal, _ => .opaqueVal

/-- one method call `self.<m>(other)` -/
def callMeth (tbl : List Branch) (fs : List FactorySite) (m : AMeth) (reflected sameSystem : Bool)
    (self other : Operand) : Outcome :=
  match lookupMeth tbl self.cls m with
  | [] => .opaque
  | bs =>
    match bs.find? (fun b => match b.test with | none => true | some t => other.cls.isa t) with
    | none => .none
    | some b =>
      if b.guarded && !sameSystem then .notImplemented else
      match b.ret with
      | .notImplemented => .notImplemented
      | .none => .none
      | .opaque => .opaque
      | .build r f s v =>
        let rc? : Option ACls := match r with
          | .ofSelf => some self.cls | .ofOther => some other.cls | .named c => some c | .unknownRecv => none
        match rc?, selArg s self other with
        | some rc, some arg =>
          match buildResult fs rc f arg with
          | some o => .value o (valOf v reflected)
          | none => .error
        | none, _ => .opaque
        | _, none => .error

/-- `left + right` (`plus`) / `left - right`: the operator protocol -/
def binop (tbl : List Branch) (fs : List FactorySite) (plus sameSystem : Bool) (l r : Operand) : Outcome :=
  match callMeth tbl fs (if plus then .add else .sub) false sameSystem l r with
  | .notImplemented =>
    match callMeth tbl fs (if plus then .radd else .rsub) true sameSystem r l with
    | .notImplemented => .typeError
    | o => o
  | o => o

/-- what the property asks of arithmetic (stated without the tables): a sum/difference that is a position is on
the ellipsoid of the *position operand*, whichever side it stands on; a difference of two positions refers to the left
position; a sum/difference of differences refers to what the left one referred to; positions cannot be added -/
def specBinop (plus : Bool) (l r : Operand) : Outcome :=
  match l, r with
  | .pos p, .delta _ _ => .value (.pos p) (.lr plus)
  | .delta _ _, .pos q => .value (.pos q) (.lr plus)
  | .delta _ ref, .delta d _ => .value (.delta d ref) (.lr plus)
  | .pos p, .pos _ => if plus then .typeError else .value (.delta p.cls.deltaOf p) (.lr false)

/-- operands of one family (3 columns or 6 columns) whose classes are what they say -/
def wellTyped (l r : Operand) : Bool :=
  let ok (o : Operand) : Bool := match o with
    | .pos p => !p.cls.isDelta
    | .delta c ref => c.isDelta && !ref.cls.isDelta && ref.cls.isPosVelFamily == c.isPosVelFamily
  ok l && ok r && l.cls.isPosVelFamily == r.cls.isPosVelFamily

/-- a constructor call outside `_position.py`: forwards the source's ellipsoid / builds from raw numbers / loses it -/
inductive ExtFwd | keep | fresh | drop | bad
  deriving Repr, DecidableEq

/-! ### histories: unary operations and arithmetic with arbitrary other operands -/

def PCls.toA : PCls → ACls
  | .position => .position
  | .posvel => .posvel

/-- an operation in the life of a position object: one of the unary operations of `Op`, or arithmetic with a
difference that refers to *some other* position (on any ellipsoid), on either side -/
inductive HOp
  | un (o : Op)
  | withDelta (plus : Bool) (deltaLeft : Bool) (ref : Option Nat)
  | retag (e : Option Nat)   -- `pos.ellipsoid = E'` (after conversions may already have been evaluated and cached)
  | poke                     -- `pos[...] = …` item assignment (values change, attributes stay)
  deriving Repr, DecidableEq

/-- one step of a history (`none`: the operation raised / returned no position) -/
def hstep (sites : List Site) (tbl : List Branch) (fs : List FactorySite) (p : PosTag) : HOp → Option PosTag
  | .un o => some (step sites p o)
  | .withDelta plus deltaLeft ref =>
    let me : Operand := .pos ⟨p.cls.toA, p.ell⟩
    let d : Operand := .delta p.cls.toA.deltaOf ⟨p.cls.toA, ref⟩
    match (if deltaLeft then binop tbl fs plus true d me else binop tbl fs plus true me d) with
    | .value (.pos q) _ => some ⟨p.cls, q.ell⟩
    | _ => none
  | .retag e => some ⟨p.cls, e⟩
  | .poke => some p

def hrun (sites : List Site) (tbl : List Branch) (fs : List FactorySite) (p : PosTag) : List HOp → Option PosTag
  | [] => some p
  | o :: os => match hstep sites tbl fs p o with
    | some q => hrun sites tbl fs q os
    | none => none

/-- the tag a position carries after a history according to the property: the ellipsoid it was created with, or the one
assigned last by `pos.ellipsoid = E'` -/
def tagAfter (e : Option Nat) : List HOp → Option Nat
  | [] => e
  | .retag e' :: os => tagAfter e' os
  | _ :: os => tagAfter e os

/-- the cached conversion of the current object: the ellipsoid it was evaluated on and whether the values it was
computed from are still the values of the object (`none`: nothing cached) -/
abbrev CacheTag := Option (Option Nat × Bool)

/-- an answer of `convert`: the ellipsoid the returned coordinates were evaluated on, the tag of the object at that
moment, and whether they were computed from the object's current values -/
structure Answer where
  on : Option Nat
  tag : Option Nat
  current : Bool
  deriving Repr, DecidableEq

/-- the conversions of a history as they are *answered*, cache included.  `convert` is answered from the cache when
there is one, otherwise evaluated on the current tag from the current values; its result is a new object (empty cache).
`retag e` stands for: a conversion is evaluated (and cached), then `pos.ellipsoid = e`; `poke`: a conversion is
evaluated (and cached), then `pos[...] = …`.  The assignments clear the cache iff `__setattr__` / `__setitem__` do
(`clrA`, `clrI`, read off the source).  Every other operation returns a new object with an empty cache. -/
def hanswered (sites : List Site) (tbl : List Branch) (fs : List FactorySite) (clrA clrI : Bool) (p : PosTag) (cache : CacheTag) :
    List HOp → List Answer
  | [] => []
  | o :: os =>
    match hstep sites tbl fs p o with
    | none => []
    | some p' =>
      match o with
      | .un .convert =>
        let a : Answer := match cache with
          | some (e, cur) => ⟨e, p.ell, cur⟩
          | none => ⟨p.ell, p.ell, true⟩
        a :: hanswered sites tbl fs clrA clrI p' none os
      | .retag _ =>
        let filled : CacheTag := match cache with | some c => some c | none => some (p.ell, true)
        hanswered sites tbl fs clrA clrI p' (if clrA then none else filled) os
      | .poke =>
        let filled : CacheTag := match cache with | some c => some c | none => some (p.ell, true)
        hanswered sites tbl fs clrA clrI p' (if clrI then none else filled.map (fun c => (c.1, false))) os
      | _ => hanswered sites tbl fs clrA clrI p' none os

end Midgard.Geo
