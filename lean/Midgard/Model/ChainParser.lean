/-
C11/C15 — model of `midgard.parsers._parser_chain.ChainParser` (`read_data` / `parse_line`).

A concrete parser is a chain `[first] ++ repeat(rest)` of `ParserDef`s (this is what every
ChainParser subclass modelled here returns from `setup_parser`).  A `ParserDef` has an end
marker, an optional skip test, a label function and a `parser_def` dictionary
label ↦ (fields, strip option, handler); the dictionaries are the *generated* tables
(`Midgard/Generated/*Cols.lean`), the handlers are supplied by the concrete parser model.

`S` is the whole mutable state a handler can touch: the parser object (`self.data`, `self.meta`,
…) together with the per-group `cache` dictionary.
-/
import Midgard.Core.Text
import Midgard.Core.FixedCol

namespace Midgard.ChainParser
open Midgard.Text Midgard.FixedCol

/-- the `strip` entry of a `parser_def` item: absent (`str.strip()`), `"\n"`, or other characters -/
inductive StripOpt
  | whitespace
  | newline
  | other (chars : String)
  deriving Repr, DecidableEq

/-- `s.strip(chars)` for an explicit character set -/
def stripChars (cs : List Char) (s : Str) : Str :=
  ((s.dropWhile (cs.contains ·)).reverse.dropWhile (cs.contains ·)).reverse

def StripOpt.apply : StripOpt → Str → Str
  | .whitespace, s => strip s
  | .newline, s => stripChars ['\n'] s
  | .other cs, s => stripChars cs.toList s

/-- one item of a `parser_def` dictionary -/
structure LabelDef where
  label : String
  handler : String
  strip : StripOpt
  /-- `{name: (start, stop)}` in dictionary order -/
  fields : Layout
  /-- `{name: (start, None)}` -/
  openFields : List (String × Nat)
  deriving Repr, DecidableEq

/-- the `values` dictionary handed to a handler -/
abbrev Values := List (String × Str)

def Values.get (v : Values) (k : String) : Option Str := (v.find? (·.1 == k)).map (·.2)

/-- `values[field] = line[slice(*idx)].strip(strip)` for every field -/
def LabelDef.values (d : LabelDef) (line : Str) : Values :=
  d.fields.map (fun f => (f.name, d.strip.apply (sliceRaw f line))) ++
  d.openFields.map (fun (n, a) => (n, d.strip.apply (sliceFrom a line)))

inductive Err
  /-- `exceptions.ParserError` raised by a uniqueness check -/
  | notUnique
  /-- any other exception (KeyError, ValueError, IndexError, UnboundLocalError, …) -/
  | other
  deriving Repr, DecidableEq

structure ParserDef (S : Type) where
  /-- `end_marker(line.rstrip(), line_num, next_line)`; `next_line` still carries its newline -/
  endMarker : Str → Nat → Str → Bool
  /-- `skip_line(line)` (`fun _ => false` when absent) -/
  skipLine : Str → Bool
  /-- `label(line.rstrip(), line_num)`, rendered as text (`"True"`/`"False"` for booleans) -/
  label : Str → Nat → String
  defs : List LabelDef
  /-- dispatch on the handler's `__name__` -/
  handle : String → Values → S → Except Err S

/-- `ChainParser.parse_line(line, cache, parser)`; `line` is already right-stripped by `read_data` -/
def parseLine {S} (p : ParserDef S) (line : Str) (lineNum : Nat) (s : S) : Except Err S :=
  if p.skipLine line then pure s else
  match p.defs.find? (·.label == p.label (rstrip line) lineNum) with
  | none => pure s
  | some d => p.handle d.handler (d.values line) s

/-- `ChainParser.read_data` for the chain `[first] ++ repeat(rest)`.  `reset` is
`cache = dict(line_num=0)`; `n` is `cache["line_num"]`.  Lines come without their newline. -/
def readData {S} (first rest : ParserDef S) (reset : S → S) :
    List Str → Bool → Nat → S → Except Err S
  | [], _, _, s => pure s
  | line :: more, inFirst, n, s =>
    let p := if inFirst then first else rest
    let l := rstrip line
    match parseLine p l (n + 1) s with
    | .error e => .error e
    | .ok s' =>
      match more with
      | [] => pure (reset s')
      | next :: _ =>
        if p.endMarker l (n + 1) (next ++ ['\n']) then readData first rest reset more false 0 (reset s')
        else readData first rest reset more inFirst (n + 1) s'

/-- the file text as the lines Python's text-mode iteration yields (newline removed; a final
line without newline is a line; `"a\n"` is one line) -/
def fileLines (text : Str) : List Str :=
  let ls := splitOn '\n' text
  match ls.getLast? with
  | some [] => ls.dropLast
  | _ => ls

end Midgard.ChainParser
