/-
C10 — the text layer of the attribute codec: what `encode_h5attr` stores is a text `"<tag> " + str(data)` (or `"str " + data`),
and `decode_h5attr` splits it at the first blank (`attr.partition(" ")`) and dispatches on the tag; an empty rest or the
spelling `<tag>()` is an empty container; a text whose first word is no tag is returned as it is.  `str()` on containers and
`ast.parse` are parameters (`render`, `parse`): CPython, trusted to be inverse on literals — stated as the hypothesis
`Printer` of the theorem.
-/
import Midgard.Model.H5Attr

namespace Midgard.H5Attr

/-- `attr.partition(" ")`: the text before the first blank and the text after it (no blank: everything, nothing) -/
def partitionBlank : List Char → List Char × List Char
  | [] => ([], [])
  | c :: r => if c = ' ' then ([], r) else ((partitionBlank r).1.cons c, (partitionBlank r).2)

/-- what `decode_h5attr` does with a text -/
inductive TextOut
  | str (s : List Char)        -- a string: the rest after `str `, or the whole text when its first word is no tag
  | empty (tag : String)       -- the empty container of that type (`if not attr or attr == "<tag>()"`)
  | eval (text : List Char)    -- `_literal_eval(text)`
  deriving DecidableEq, Repr

def containerTags : List String := ["list", "tuple", "set", "dict"]

/-- `attr_type, _, text = attr.partition(" "); globals()[f"_h5attr2{attr_type}"](text)`, `KeyError` → the text itself -/
def dispatchText (cs : List Char) : TextOut :=
  let tag := String.ofList (partitionBlank cs).1
  let rest := (partitionBlank cs).2
  if containerTags.contains tag then
    if rest = [] ∨ rest = (tag ++ "()").toList then .empty tag else .eval rest
  else if tag = "str" then .str rest
  else .str cs

/-- what is stored in the file -/
inductive TAttr
  | text (cs : List Char)
  | native (a : Atom)
  deriving Repr

/-- `encode_h5attr` down to the text (`render` is `str()` of a container, as the parser sees it) -/
def encodeText (render : Ast → List Char) : Meta → Option TAttr
  | .list xs => some (.text ("list ".toList ++ render (toAst (.list xs))))
  | .tuple xs => some (.text ("tuple ".toList ++ render (toAst (.tuple xs))))
  | .set xs => some (.text ("set ".toList ++ render (toAst (.set xs))))
  | .dict kvs => some (.text ("dict ".toList ++ render (toAst (.dict kvs))))
  | .atom (.str s) => some (.text ("str ".toList ++ s.toList))
  | .atom .none => none
  | .atom a => some (.native a)

def emptyOf (tag : String) : Meta :=
  if tag = "list" then .list [] else if tag = "tuple" then .tuple [] else if tag = "set" then .set [] else .dict []

/-- `decode_h5attr` from the text (`parse` is `ast.parse` after `lstrip`; `none` = it raised) -/
def decodeText (parse : List Char → Option Ast) : TAttr → Option Meta
  | .native a => some (.atom a)
  | .text cs =>
    match dispatchText cs with
    | .str s => some (.atom (.str (String.ofList s)))
    | .empty tag => some (emptyOf tag)
    | .eval t => (parse t).bind evalAst

end Midgard.H5Attr
