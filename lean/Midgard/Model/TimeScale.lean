/-
C01 — model of the time-scale conversions of `midgard.data._time`
(`delta_tai_utc`, `delta_tai_tt`, `delta_tcg_tt`, `delta_gps_tai`, the eight registered hop
functions, `_find_conversion_hops`, `TimeBase.to_scale`), exact twin over `Rat`.

The table rows, the constants and the registered hop set are *parameters* here; the check
instantiates them with `Midgard/Generated/TimeScaleTables.lean`, regenerated from `/repo` on
every run.
-/
import Midgard.Model.TimeArith

namespace Midgard.TimeScale
open Midgard.TimeArith (JD Scale)

/-- one row of `_taiutc.txt`: `start end offset ref_epoch factor` -/
structure Row where
  start : Rat
  stop : Rat
  offset : Rat
  refMjd : Rat
  rate : Rat
  deriving Repr, DecidableEq, Inhabited

def mjd0 : Rat := 4800001 / 2   -- 2400000.5
def secPerDay : Rat := 86400

/-- `time.mjd` of a two-part date: `jd1 - 2400000.5 + jd2` -/
def mjdOf (j : JD) : Rat := j.jd1 - mjd0 + j.jd2

/-- TAI−UTC in seconds from row `r` at UTC epoch `mjd` : `offset + (mjd - ref_epoch) * factor` -/
def Row.deltaAt (r : Row) (mjd : Rat) : Rat := r.offset + (mjd - r.refMjd) * r.rate

/-- TAI−UTC (days) in force at the very start of the row: the row's start expressed in TAI is
`start + startDelta`. -/
def Row.startDelta (r : Row) : Rat := r.deltaAt (r.start - mjd0) / secPerDay

/-- number of rows that have started at the two-part UTC date `j`
(`np.sum((jd1 - start) + jd2 - 0 + tol >= 0)`): the comparison is on the *difference* to each
start; dates closer than `tol` before a start count as on it. -/
def startedUtc (tbl : List Row) (tol : Rat) (j : JD) : Nat :=
  tbl.countP (fun r => decide (0 ≤ (j.jd1 - r.start) + j.jd2 + tol))

/-- the same with the row starts expressed in TAI -/
def startedTai (tbl : List Row) (tol : Rat) (j : JD) : Nat :=
  tbl.countP (fun r => decide (0 ≤ (j.jd1 - r.start) + j.jd2 - r.startDelta + tol))

/-- row in force: the last row that has started, the first row for dates before the table -/
def rowAt (tbl : List Row) (n : Nat) : Row := tbl.getD (n - 1) (tbl.headD default)

/-- `delta_tai_utc` for `time.scale == "utc"`, in days -/
def deltaUtc (tbl : List Row) (tol : Rat) (j : JD) : Rat :=
  ((rowAt tbl (startedUtc tbl tol j)).deltaAt (mjdOf j)) / secPerDay

/-- `delta_tai_utc` for `time.scale == "tai"`, in days (negative).  The UTC epoch solves
`utc = tai - Δ(utc)`; with `Δ` linear in the row this is the closed form below. -/
def deltaTai (tbl : List Row) (tol : Rat) (j : JD) : Rat :=
  let r := rowAt tbl (startedTai tbl tol j)
  let Δ := (r.offset + (mjdOf j - r.refMjd) * r.rate) / (1 + r.rate / secPerDay)
  (0 - Δ) / secPerDay

structure Consts where
  lG : Rat
  t0jd1 : Rat
  t0jd2 : Rat
  /-- `_TAIUTC_TOLERANCE` in days -/
  tol : Rat
  deriving Repr, DecidableEq

def ttTaiDays : Rat := (32184 / 1000) / secPerDay
def gpsTaiDays : Rat := 19 / secPerDay

/-- `delta_tcg_tt`: `dt = jd1 - T0_jd1 + jd2 - T0_jd2` -/
def tcgDt (c : Consts) (j : JD) : Rat := j.jd1 - c.t0jd1 + j.jd2 - c.t0jd2

/-- the eight registered hop functions; each returns `(jd1, jd2 + delta)` -/
def utc2tai (tbl : List Row) (tol : Rat) (j : JD) : JD := ⟨j.jd1, j.jd2 + deltaUtc tbl tol j⟩
def tai2utc (tbl : List Row) (tol : Rat) (j : JD) : JD := ⟨j.jd1, j.jd2 + deltaTai tbl tol j⟩
def tai2tt (j : JD) : JD := ⟨j.jd1, j.jd2 + ttTaiDays⟩
def tt2tai (j : JD) : JD := ⟨j.jd1, j.jd2 - ttTaiDays⟩
def tt2tcg (c : Consts) (j : JD) : JD := ⟨j.jd1, j.jd2 + c.lG / (1 - c.lG) * tcgDt c j⟩
def tcg2tt (c : Consts) (j : JD) : JD := ⟨j.jd1, j.jd2 - c.lG * tcgDt c j⟩
def gps2tai (j : JD) : JD := ⟨j.jd1, j.jd2 + gpsTaiDays⟩
def tai2gps (j : JD) : JD := ⟨j.jd1, j.jd2 - gpsTaiDays⟩

abbrev Hop := Scale × Scale

/-- the function registered for a hop (`none`: nothing registered under that key) -/
def hopFn (tbl : List Row) (c : Consts) : Hop → Option (JD → JD)
  | (.utc, .tai) => some (utc2tai tbl c.tol)
  | (.tai, .utc) => some (tai2utc tbl c.tol)
  | (.tai, .tt) => some tai2tt
  | (.tt, .tai) => some tt2tai
  | (.tt, .tcg) => some (tt2tcg c)
  | (.tcg, .tt) => some (tcg2tt c)
  | (.gps, .tai) => some gps2tai
  | (.tai, .gps) => some tai2gps
  | _ => none

/-- `_find_conversion_hops`: breadth-first search over the registered hop list `g` (in
registration order), with the code's `visited` set of hops. `fuel` bounds the queue steps. -/
def bfs (g : List Hop) (target : Scale) : Nat → List (Scale × List Hop) → List Hop → Option (List Hop)
  | 0, _, _ => none
  | _, [], _ => none
  | fuel + 1, (fromS, hops) :: queue, visited =>
    let succs := (g.filter (fun h => h.1 = fromS)).map (·.2)
    match succs.find? (· = target) with
    | some _ =>
      -- the code returns at the first successor equal to the target; successors scanned before it
      -- were queued but that no longer matters
      some (hops ++ [(fromS, target)])
    | none =>
      let step := succs.foldl
        (fun (acc : List (Scale × List Hop) × List Hop) t =>
          let h : Hop := (fromS, t)
          if acc.2.contains h then acc else (acc.1 ++ [(t, hops ++ [h])], acc.2 ++ [h]))
        (queue, visited)
      bfs g target fuel step.1 step.2

/-- the hop list `to_scale` follows (a direct hop if registered, otherwise the BFS route);
`[]` when source and target coincide (`to_scale` returns `self`). -/
def route (g : List Hop) (a b : Scale) : Option (List Hop) :=
  if a = b then some []
  else if g.contains (a, b) then some [(a, b)]
  else bfs g b 64 [(a, [])] []

/-- `to_scale`: fold the hop functions along the route -/
def convert (tbl : List Row) (c : Consts) (g : List Hop) (a b : Scale) (j : JD) : Option JD := do
  let r ← route g a b
  r.foldlM (fun acc h => (hopFn tbl c h).map (· acc)) j

/-- arrays convert element by element -/
def convertArr (tbl : List Row) (c : Consts) (g : List Hop) (a b : Scale) (js : List JD) : Option (List JD) :=
  js.mapM (convert tbl c g a b)

end Midgard.TimeScale
