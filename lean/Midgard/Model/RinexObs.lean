/-
C11 — what `midgard.parsers.rinex2_obs` and `rinex3_obs` have in common: the `meta` dictionary,
the column store `data`, `_float`, the epoch string, the post-processors' helpers, the
`as_dataset()` time column.  Numbers are exact rationals of the decimal texts (DESIGN.md §3).
-/
import Midgard.Model.ChainParser
import Midgard.Core.Decimal

namespace Midgard.RinexObs
open Midgard.Text Midgard.FixedCol Midgard.ChainParser Midgard.Decimal

def req {α} : Option α → Except Err α
  | some a => pure a
  | none => throw .other

def key (s : String) : Str := s.toList

/-! ### `sorted([f for f in line if f.startswith(prefix)])` -/

/-- lexicographic `a ≤ b` on code points (Python's `str` order) -/
def leChars : List Char → List Char → Bool
  | [], _ => true
  | _ :: _, [] => false
  | a :: as, b :: bs => if a.toNat < b.toNat then true else if b.toNat < a.toNat then false else leChars as bs

def insertField (x : String × Str) : List (String × Str) → List (String × Str)
  | [] => [x]
  | y :: ys => if leChars x.1.toList y.1.toList then x :: y :: ys else y :: insertField x ys

/-- insertion sort by field name -/
def sortFields (l : List (String × Str)) : List (String × Str) := l.foldr insertField []

/-- the fields whose name starts with `pre`, sorted by name -/
def fieldsWithPrefix (v : Values) (pre : String) : List (String × Str) :=
  sortFields (v.filter fun (k, _) => pre.toList.isPrefixOf k.toList)

/-! ### `self.meta`: a (possibly nested) dictionary, kept flat as path ↦ leaf -/

inductive Leaf
  | text (s : Str)
  | num (q : Rat)
  | int (i : Int)
  | list (l : List Str)
  /-- `{}` -/
  | empty
  deriving Repr, DecidableEq

abbrev Meta := List (List Str × Leaf)

def isPrefix (p q : List Str) : Bool := p.isPrefixOf q

/-- `path in meta` for a top-level or nested key -/
def Meta.has (m : Meta) (p : List Str) : Bool := m.any fun (q, _) => isPrefix p q

def Meta.get (m : Meta) (p : List Str) : Option Leaf := (m.find? (·.1 == p)).map (·.2)

/-- `meta[...][k] = leaf`: replaces in place (dictionary order is kept), otherwise appends; an
`{}` marker of an ancestor disappears -/
def Meta.set (m : Meta) (p : List Str) (v : Leaf) : Meta :=
  let m := m.filter fun (q, l) => !(l == Leaf.empty && isPrefix q p && q != p)
  if m.any (·.1 == p) then m.map fun (q, l) => if q == p then (q, v) else (q, l)
  else m ++ [(p, v)]

/-- `meta.setdefault(k, {})` -/
def Meta.setdefaultDict (m : Meta) (p : List Str) : Meta :=
  if m.has p then m else m ++ [(p, Leaf.empty)]

/-- `del meta[...][k]` -/
def Meta.del (m : Meta) (p : List Str) : Meta := m.filter fun (q, _) => !isPrefix p q

/-- keys of the dictionary at `p`, in insertion order -/
def Meta.keysAt (m : Meta) (p : List Str) : List Str :=
  (m.filterMap fun (q, _) =>
    if isPrefix p q then (q.drop p.length).head? else none).eraseDups

/-! ### `self.data` -/

abbrev Col := List (Option Rat)

structure Data where
  /-- `data["obs"]`, `data["cycle_slip"]`, `data["signal_strength"]` exist -/
  hasObs : Bool := false
  obs : List (Str × Col) := []
  lli : List (Str × Col) := []
  snr : List (Str × Col) := []
  time : List Str := []
  /-- `as_dataset()` epochs: microseconds since 0001-01-01 -/
  timeMicros : List Int := []
  epochFlag : List Int := []
  clk : Col := []
  station : List Str := []
  system : List Str := []
  satellite : List Str := []
  satnum : List Str := []
  pos : Option (List Rat) := none
  deriving Repr, DecidableEq

def colSetEmpty (d : List (Str × Col)) (t : Str) : List (Str × Col) :=
  if d.any (·.1 == t) then d.map fun (k, c) => if k == t then (k, []) else (k, c) else d ++ [(t, [])]

/-- `data[grp][t].append(v)`; `none` (KeyError) when the column does not exist -/
def colAppend (d : List (Str × Col)) (t : Str) (v : Option Rat) : Option (List (Str × Col)) :=
  if d.any (·.1 == t) then some (d.map fun (k, c) => if k == t then (k, c ++ [v]) else (k, c)) else none

/-- `self.data[...][t] = list()` for the three groups -/
def Data.declareType (d : Data) (t : Str) : Data :=
  { d with hasObs := true, obs := colSetEmpty d.obs t, lli := colSetEmpty d.lli t, snr := colSetEmpty d.snr t }

def Data.appendObs (d : Data) (t : Str) (v l s : Option Rat) : Except Err Data := do
  let o ← req (colAppend d.obs t v)
  let l' ← req (colAppend d.lli t l)
  let s' ← req (colAppend d.snr t s)
  pure { d with obs := o, lli := l', snr := s' }

/-- one `data[grp][t].append(…)` for the three groups per entry of `ts`, in order -/
def appendAll (d : Data) (ts : List (Str × Option Rat × Option Rat × Option Rat)) : Except Err Data :=
  ts.foldlM (fun d (x : Str × Option Rat × Option Rat × Option Rat) => d.appendObs x.1 x.2.1 x.2.2.1 x.2.2.2) d

def Data.dropType (d : Data) (t : Str) : Data :=
  { d with obs := d.obs.filter (·.1 != t), lli := d.lli.filter (·.1 != t), snr := d.snr.filter (·.1 != t) }

/-! ### `_float` and friends -/

/-- `_float(value)`: blank, empty or zero ↦ NaN (`none`) -/
def floatOpt (s : Str) : Except Err (Option Rat) :=
  if isBlank s then pure none
  else match parseFloat s with
    | some q => pure (if q = 0 then none else some q)
    | none => throw .other

def pyFloat (s : Str) : Except Err Rat := req (parseFloat s)
def pyInt (s : Str) : Except Err Int := req (parseInt? s)

/-- `'{:02d}'.format(i)` -/
def fmt02 (i : Int) : Str := zfill 2 (fmtInt i)

/-- `'{:010.7f}'.format(q)` -/
def fmtSec (q : Rat) : Str := zfill 10 (fmtFixedCore q 7)

/-- `"{year}-{month:02d}-{day:02d}T{hour:02d}:{minute:02d}:{second:010.7f}"` -/
def isoTime (y mo d h mi : Int) (sec : Rat) : Str :=
  fmtInt y ++ ['-'] ++ fmt02 mo ++ ['-'] ++ fmt02 d ++ ['T'] ++ fmt02 h ++ [':'] ++ fmt02 mi ++ [':'] ++ fmtSec sec

/-! ### Calendar (for the `as_dataset()` time column) -/

def isLeap (y : Nat) : Bool := y % 4 == 0 && (y % 100 != 0 || y % 400 == 0)

def daysInMonth (y m : Nat) : Nat :=
  if m = 2 then (if isLeap y then 29 else 28)
  else if m = 4 || m = 6 || m = 9 || m = 11 then 30 else 31

def daysBeforeYear (y : Nat) : Nat :=
  let p := y - 1
  p * 365 + p / 4 - p / 100 + p / 400

def daysBeforeMonth (y m : Nat) : Nat :=
  ((List.range (m - 1)).map fun i => daysInMonth y (i + 1)).sum

def datetimeMinutes? (y m d h mi : Int) : Option Int :=
  if 1 ≤ y ∧ y ≤ 9999 ∧ 1 ≤ m ∧ m ≤ 12 ∧ 1 ≤ d ∧ d ≤ daysInMonth y.toNat m.toNat ∧ 0 ≤ h ∧ h < 24 ∧ 0 ≤ mi ∧ mi < 60 then
    let days : Nat := daysBeforeYear y.toNat + daysBeforeMonth y.toNat m.toNat + (d.toNat - 1)
    some (((days : Int) * 24 + h) * 60 + mi)
  else none

/-- `as_dataset()`: `strptime(val) + timedelta(milliseconds=int(secfrac)/10000)` of the epoch string,
in microseconds since 0001-01-01; `none` for a date `strptime` refuses.  `n7` is the number of
10⁻⁷ s units the string shows (`'{:010.7f}'` rounding), whole seconds and the 7-digit fraction
are split as the string is split at its `"."`. -/
def datasetMicros (y mo d h mi : Int) (sec : Rat) : Option Int :=
  match datetimeMinutes? y mo d h mi with
  | none => none
  | some mins =>
    let n7 : Int := roundHalfEven (sec * 10000000)
    let whole := n7 / 10000000
    let frac7 := n7 % 10000000
    some ((mins * 60 + whole) * 1000000 + roundHalfEven ((frac7 : Rat) / 10))

/-- distance of the epoch from the nearest point of the sampling grid:
`abs(obs_sec - round(obs_sec / rate) * rate)` -/
def gridDist (obsSec rate : Rat) : Rat :=
  let g := ((roundHalfEven (obsSec / rate) : Int) : Rat) * rate
  if obsSec - g < 0 then g - obsSec else obsSec - g

/-- `abs(obs_sec - grid_sec) >= 5e-8`: the epoch is dropped (doubles in the code, exact here; the
double error of ~1e-11 s is far below the margin for epochs and rates printed with 7 decimals) -/
def offGrid (obsSec rate : Rat) : Bool := decide (gridDist obsSec rate ≥ 5 / 100000000)

/-- one epoch's worth of per-row bookkeeping -/
structure EpochInfo where
  obsTime : Str
  micros : Int
  /-- `cache["obs_sec"]`; `none` = epoch dropped by the sampling rate -/
  obsSec : Option Rat
  epochFlag : Int
  clk : Option Rat
  deriving Repr, DecidableEq

/-- the row-level fields appended once per (epoch, satellite) record -/
def Data.appendRow (d : Data) (e : EpochInfo) (station sys sat satnum : Str) : Data :=
  { d with time := d.time ++ [e.obsTime], timeMicros := d.timeMicros ++ [e.micros],
           epochFlag := d.epochFlag ++ [e.epochFlag], clk := d.clk ++ [e.clk],
           station := d.station ++ [station], system := d.system ++ [sys],
           satellite := d.satellite ++ [sat], satnum := d.satnum ++ [satnum] }

/-- `np.all(np.isnan(col)[idx])` for the rows of one system -/
def allNanFor (col : Col) (system : List Str) (sys : Str) : Bool :=
  (col.zip system).all fun (v, s) => s != sys || v.isNone

def allNan (col : Col) : Bool := col.all (·.isNone)

/-- `list.remove(x)` if present -/
def removeFirst (l : List Str) (x : Str) : List Str := l.erase x

end Midgard.RinexObs
