/-
C01 — control-flow vocabulary for the *regenerated* transcription of `_find_conversion_hops`, `_taiutc_idx` and the
route selection of `TimeBase._to_scale` (`Generated/SourceTimeFlow.lean`, written by `translator/extract_time.py`
from the Python `ast` on every run).

Nothing here is specific to the time scales: a `for` loop whose body may `return`, a `while` loop over a state with a
bound on the iterations (Lean functions are total; the bound is a parameter of every statement), and the two ways a
Python list is used as a queue.  The generated definitions are built from these and from `List` operations only; the
theorems `source_row_selection`, `source_route_search`, `source_to_scale_route` (Props/C01) say that they are equal to
the hand-written `rowAt ∘ startedUtc/startedTai`, `bfs` and `route` of `Model/TimeScale.lean` for every table, every
registry, every pair of scales and every bound.
-/
import Midgard.Model.TimeScale

namespace Midgard.TimeScale.Flow

/-- outcome of a loop body: `return r` or carry on with the new state -/
inductive Step (ρ σ : Type) where
  | ret (r : ρ)
  | next (s : σ)

/-- `for x in xs: body` where the body may `return` -/
def forReturn {α ρ σ : Type} (body : α → σ → Step ρ σ) : List α → σ → Step ρ σ
  | [], st => .next st
  | x :: rest, st =>
    match body x st with
    | .ret r => .ret r
    | .next st' => forReturn body rest st'

/-- `while cond(state): body` where the body may `return`; at most `fuel` iterations.  `none`: the loop ended without
a `return` (the statement after the loop runs — in `_find_conversion_hops` a `raise`) or the bound was reached. -/
def whileReturn {ρ σ : Type} (cond : σ → Bool) (body : σ → Step ρ σ) : Nat → σ → Option ρ
  | 0, _ => none
  | fuel + 1, st =>
    if cond st then
      match body st with
      | .ret r => some r
      | .next st' => whileReturn cond body fuel st'
    else none

/-- `x = q.pop(0)` : the first element and the rest -/
def popFront {α : Type} : List α → Option (α × List α)
  | [] => none
  | x :: rest => some (x, rest)

/-- `x = q.pop()` : the last element and the rest -/
def popBack {α : Type} (l : List α) : Option (α × List α) :=
  match l.getLast? with
  | none => none
  | some x => some (x, l.dropLast)

/-- `np.sum(flags, axis=-1)` of one epoch's row flags -/
def countTrue (flags : List Bool) : Int := ((flags.count true : Nat) : Int)

/-- `table[column][idx]` for an index array element `idx` (NumPy: a negative index counts from the end; the
generated index is clamped at 0 by `np.maximum(…, 0)`, so only `idx ≥ 0` occurs) -/
def rowOf {α : Type} [Inhabited α] (tbl : List α) (idx : Int) : α :=
  tbl.getD idx.toNat (tbl.headD default)

end Midgard.TimeScale.Flow
