/-
C10 — numbers as bit patterns.

The cells of the shared `Scalar` type carry numbers as exact rationals (`.num q`) or `.nan`: the sign of a zero and the
payload of a NaN are not values of that type.  `Dataset.write` / `Dataset.read` never compute with a number, they copy
it; for C10 a float is therefore carried as an opaque 64-bit word — the IEEE-754 bit pattern of the double —, which
the model's write / read copy verbatim like any other cell.  The word is embedded in a `.num` cell as its integer value
(the `Scalar` type belongs to the C09 model and has no word constructor); the embedding is injective
(`cellBits_bitsCell`), so "the same cells" is "the same bit patterns".
-/
import Midgard.Model.H5Dataset

namespace Midgard.H5
open Midgard.Dataset

/-- a double, as its 64-bit pattern -/
def bitsCell (w : UInt64) : Scalar := .num (w.toNat : Int)

/-- the word of a cell made by `bitsCell` (`none` for every other cell) -/
def cellBits : Scalar → Option UInt64
  | .num q => if q.den = 1 ∧ 0 ≤ q.num ∧ q.num < 18446744073709551616 then some (UInt64.ofNat q.num.toNat) else none
  | _ => none

/-- the rows of an array given as bit patterns -/
def bitsRows (ws : List (List UInt64)) : List Row := ws.map (fun r => r.map bitsCell)

/-- the bit patterns of the rows of an array (`none` in a row with a cell that is no word: text, booleans) -/
def rowsBits (rows : List Row) : List (Option (List UInt64)) := rows.map (fun r => r.mapM cellBits)

end Midgard.H5
