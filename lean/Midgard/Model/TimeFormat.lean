/-
C02 — model of the time formats of `midgard.data._time` (the `TimeFormat` subclasses:
`_to_jds` / `_from_jds` of jd, mjd, datetime, gps_ws, gps_seconds, jyear, decimalyear,
yydddsssss, yyyydddsssss, isot, iso, yday, date) and of `TimeArray.jd_int / jd_frac`,
exact twin over `Rat` / `Int` (DESIGN.md §3).

A `datetime` is the integer number of microseconds since 2000-01-01T00:00:00 (which is exactly
what CPython stores); calendar fields come from the proleptic Gregorian algorithms below.
-/
import Midgard.Model.TimeScale

namespace Midgard.TimeFormat
open Midgard.TimeArith (JD Scale roundHalfEven)
open Midgard.TimeScale (Row Consts)

/-! ### Calendar (proleptic Gregorian, days counted from 2000-01-01) -/

/-- day of the 400-year era (counted from March 1 of year-of-era 0) of year-of-era `yoe` (March
based), month `m`, day `d` -/
def doeOfCivil (yoe m d : Int) : Int :=
  let mp := if m > 2 then m - 3 else m + 9
  let doy := (153 * mp + 2) / 5 + d - 1
  yoe * 365 + yoe / 4 - yoe / 100 + doy

/-- days from 1970-01-01 of a civil date (Hinnant, `days_from_civil`); all divisors are positive
literals, for which `Int` division `/` is the floor division -/
def daysFromCivil1970 (y m d : Int) : Int :=
  let y := if m ≤ 2 then y - 1 else y
  let era := y / 400
  let yoe := y - era * 400
  era * 146097 + doeOfCivil yoe m d - 719468

/-- (year-of-era with January/February counted to the next year, month, day) of a day of the era -/
def civilOfDoe (doe : Int) : Int × Int × Int :=
  let yoe := (doe - doe / 1460 + doe / 36524 - doe / 146096) / 365
  let doy := doe - (365 * yoe + yoe / 4 - yoe / 100)
  let mp := (5 * doy + 2) / 153
  let d := doy - (153 * mp + 2) / 5 + 1
  let m := if mp < 10 then mp + 3 else mp - 9
  (if m ≤ 2 then yoe + 1 else yoe, m, d)

/-- civil date of a day number from 1970-01-01 (Hinnant, `civil_from_days`) -/
def civilFromDays1970 (z : Int) : Int × Int × Int :=
  let z := z + 719468
  let era := z / 146097
  let c := civilOfDoe (z - era * 146097)
  (c.1 + era * 400, c.2.1, c.2.2)

def epoch2000 : Int := 10957   -- 2000-01-01 as days from 1970-01-01

/-- days from 2000-01-01 -/
def daysFromCivil (y m d : Int) : Int := daysFromCivil1970 y m d - epoch2000
def civilFromDays (n : Int) : Int × Int × Int := civilFromDays1970 (n + epoch2000)

def usPerDay : Int := 86400000000
def usPerSec : Int := 1000000

/-- a `datetime`: microseconds since 2000-01-01T00:00:00 -/
abbrev DateTime := Int

structure Fields where
  year : Int
  month : Int
  day : Int
  hour : Int
  minute : Int
  second : Int
  micro : Int
  deriving Repr, DecidableEq

def fieldsOf (dt : DateTime) : Fields :=
  let days := (dt / usPerDay)
  let rem := dt - days * usPerDay
  let c := civilFromDays days
  let secs := (rem / usPerSec)
  ⟨c.1, c.2.1, c.2.2, (secs / 3600), ((secs / 60)) % 60, secs % 60, rem - secs * usPerSec⟩

def ofFields (f : Fields) : DateTime :=
  daysFromCivil f.year f.month f.day * usPerDay
    + ((f.hour * 60 + f.minute) * 60 + f.second) * usPerSec + f.micro

/-- day of year, 1-based (`%j`) -/
def dayOfYear (y m d : Int) : Int := daysFromCivil y m d - daysFromCivil y 1 1 + 1

/-! ### Constants of the format classes (regenerated values are compared with these in Props) -/

def jd2000dt : Rat := 4903089 / 2     -- TimeDateTime._jd2000 = 2451544.5
def mjd0 : Rat := 4800001 / 2         -- TimeMJD._mjd0 = 2400000.5
def jdGps0 : Rat := 4888489 / 2       -- _jd19800106 = 2444244.5
def jd2000noon : Rat := 2451545       -- TimeJulianYear._jd2000
def julianYear : Rat := 1461 / 4      -- Unit.julian_year2day

/-! ### jd / mjd -/

/-- `TimeJD._to_jds(val, val2)` (`val2 = 0` when not given) -/
def jdToJds (v v2 : Rat) : JD :=
  let δ := v - (((v + v2 - 1 / 2).floor : Rat) + 1 / 2)
  ⟨v - δ, v2 + δ⟩

def jdFromJds (j : JD) : Rat := j.jd1 + j.jd2

/-- `TimeMJD._to_jds` -/
def mjdToJds (v v2 : Rat) : JD :=
  let δ := v - (((v + v2 - 1 / 2).floor : Rat) + 1 / 2)
  ⟨mjd0 + v - δ, v2 + δ⟩

def mjdFromJds (j : JD) : Rat := j.jd1 - mjd0 + j.jd2

/-! ### `jd_int`, `jd_frac` (after the `fix:` commit: whole days are found on the day part and the
small rest separately) -/

def jdDelta (j : JD) : Rat :=
  let day : Rat := ((j.jd1 - 1 / 2).floor : Rat)
  let rest := (j.jd1 - 1 / 2 - day) + j.jd2
  j.jd1 - (day + (rest.floor : Rat) + 1 / 2)

def jdInt (j : JD) : Rat := j.jd1 - jdDelta j
def jdFrac (j : JD) : Rat := j.jd2 + jdDelta j

/-! ### datetime -/

/-- `TimeDateTime._dt2jd` -/
def dtToJds (dt : DateTime) : JD :=
  let days := (dt / usPerDay)
  let rem := dt - days * usPerDay
  ⟨jd2000dt + (days : Rat), (rem : Rat) / (usPerDay : Rat)⟩

/-- `TimeDateTime._jd2dt`: `dt2000 + timedelta(days=jd1 - jd2000) + timedelta(days=jd2)`; each
`timedelta` rounds half-even to microseconds -/
def dtFromJds (j : JD) : DateTime :=
  roundHalfEven ((j.jd1 - jd2000dt) * (usPerDay : Rat)) + roundHalfEven (j.jd2 * (usPerDay : Rat))

/-! ### GPS week / seconds -/

structure WeekSec where
  week : Rat
  seconds : Rat
  day : Rat
  deriving Repr, DecidableEq

/-- `TimeGPSWeekSec._to_jds(week, sec)` -/
def wsToJds (week sec : Rat) : JD :=
  let wd : Rat := (((sec + 43200) / 86400).floor : Rat)
  let fracSec := sec + 43200 - wd * 86400
  ⟨week * 7 + wd + jdGps0 - 1 / 2, fracSec / 86400⟩

/-- `TimeGPSWeekSec._from_jds` (`none`: the ValueError before 1980-01-06); after the `fix:` commit the whole days are
found as in `_jd_delta` (day part and small rest separately) -/
def wsFromJds (j : JD) : Option WeekSec :=
  if j.jd1 + j.jd2 < jdGps0 then none else
  let δ := jdDelta j
  let jdI := j.jd1 - δ
  let jdF := j.jd2 + δ
  let w : Rat := (((jdI - jdGps0) / 7).floor : Rat)
  let wd : Rat := ((jdI - jdGps0 - w * 7).floor : Rat)
  some ⟨w, (jdF + wd) * 86400, wd⟩

/-- `TimeGPSSec._to_jds` -/
def gsToJds (v : Rat) : JD :=
  let days := v / 86400
  ⟨jdGps0 + (days.floor : Rat), days - (days.floor : Rat)⟩

def gsFromJds (j : JD) : Option Rat :=
  if j.jd1 + j.jd2 < jdGps0 then none else
  let δ := j.jd1 - (((j.jd1 + j.jd2 - 1 / 2).floor : Rat) + 1 / 2)
  some (((j.jd1 - δ - jdGps0) + (j.jd2 + δ)) * 86400)

/-! ### Julian year -/

/-- `TimeJulianYear._to_jds`: `divmod((val - 2000) * 365.25, 1)` -/
def jyToJds (v : Rat) : JD :=
  let x := (v - 2000) * julianYear
  ⟨jd2000noon + (x.floor : Rat), x - (x.floor : Rat)⟩

def jyFromJds (j : JD) : Rat := 2000 + ((j.jd1 - jd2000noon) + j.jd2) / julianYear

/-! ### Decimal year (variable year length, leap seconds counted for UTC) -/

/-- `jd1` of `Time(datetime(year, 1, 1))` -/
def yearStartJd1 (year : Int) : Rat := jd2000dt + (daysFromCivil year 1 1 : Rat)

/-- `TimeDecimalYear._year2days` -/
def year2days (tbl : List Row) (tol : Rat) (year : Int) (scale : Scale) : Rat :=
  if year = 9999 then 365 else
  let s : JD := ⟨yearStartJd1 year, 0⟩
  let e : JD := ⟨yearStartJd1 (year + 1), 0⟩
  match scale with
  | .utc =>
    let s' := TimeScale.utc2tai tbl tol s
    let e' := TimeScale.utc2tai tbl tol e
    (e'.jd1 - s'.jd1) + (e'.jd2 - s'.jd2)
  | _ => (e.jd1 - s.jd1) + (e.jd2 - s.jd2)

/-- `TimeDecimalYear._dy2jd`: `int()` truncates (towards zero) -/
def truncRat (q : Rat) : Int := if 0 ≤ q then q.floor else -((-q).floor)

def dyToJds (tbl : List Row) (tol : Rat) (scale : Scale) (v : Rat) : JD :=
  let yearInt := truncRat v
  let frac := v - (yearInt : Rat)
  let jd := yearStartJd1 yearInt + frac * year2days tbl tol yearInt scale
  let jd1 : Rat := (truncRat jd : Rat)
  ⟨jd1, jd - jd1⟩

/-- `TimeDecimalYear._to_jds` with the refusal of `datetime(year_int, 1, 1)` (years 1 … 9999; `none`: ValueError) -/
def dyToJdsG (tbl : List Row) (tol : Rat) (scale : Scale) (v : Rat) : Option JD :=
  if 1 ≤ truncRat v ∧ truncRat v ≤ 9999 then some (dyToJds tbl tol scale v) else none

/-- the year a decimal year is counted in: the year of the (microsecond-rounded) datetime of the epoch -/
def dyYear (j : JD) : Int := (fieldsOf (dtFromJds j)).year

/-- Gregorian leap year -/
def isLeap (y : Int) : Bool := decide (y % 4 = 0 ∧ (y % 100 ≠ 0 ∨ y % 400 = 0))

/-- calendar length of a year in days -/
def yearLen (y : Int) : Int := daysFromCivil (y + 1) 1 1 - daysFromCivil y 1 1

/-- `TimeDecimalYear._jd2dy` -/
def dyFromJds (tbl : List Row) (tol : Rat) (scale : Scale) (j : JD) : Rat :=
  let year := (fieldsOf (dtFromJds j)).year
  let days := j.jd1 - yearStartJd1 year + j.jd2
  (year : Rat) + days / year2days tbl tol year scale

/-! ### Text formats: see `Model/TimeText.lean` (render / parse on `List Char`) -/

end Midgard.TimeFormat
