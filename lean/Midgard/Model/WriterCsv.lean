/-
C17 — parsers/csv_.py: `pd.read_csv(path, comment="#", engine="python", index_col=False, sep="[\;,\,]", na_values="nan",
skip_blank_lines=True, skipinitialspace=True)`, `dropna(axis="columns", how="all")`, `np.array` per column (model).

pandas is not proved; the model states the behaviours the parser relies on as an enumerated list, each of them probed against
the real `pandas.read_csv` on every run (harness/c17.py `CSV_PROBES`, disagreement = "pandas assumption Pk"):

  P1  the separator class cuts a line at every `,` and every `;` (quotes mean nothing to a regular-expression separator)
  P2  a column all of whose tokens are `[+-]digits` is an integer column (leading zeros allowed; |value| < 2^63)
  P3  a column of decimal numbers and NA tokens (not all integers, or with an NA token) is a float column, NA → NaN; the
      conversion is *not* correctly rounded (known finding csv_:readback-last-digit; the model holds the exact decimal)
  P4  any other column is a text column; NA tokens in it become the text `nan` (through `np.array`)
  P5  NA tokens: the empty token and pandas' default list (`nan`, `NaN`, `NA`, `N/A`, `n/a`, `NULL`, `null`, `#N/A`, `#NA`,
      `-NaN`, `-nan`, `1.#IND`, `-1.#IND`, `1.#QNAN`, `-1.#QNAN`, `<NA>`, `None`)
  P6  a column whose tokens are all NA is dropped (also every column of a file without data lines)
  P7  `skipinitialspace`: blanks after a separator (and at the start of the line) are dropped, blanks before a separator
      stay in a text token and do not matter for a number
  P8  `#` cuts the rest of the line; a line that is empty or blank then is skipped
  P9  a line with fewer tokens than the header is padded with NA, one with more is cut to the header's length
  P10 line ends `\n`, `\r\n`; a missing final newline is fine
  outside the model (probed as such): a column of `True`/`False` becomes bool, `inf`, integers beyond 64 bits, duplicate
      header names (`a`, `a.1`)

Mathlib-free; executed by the driver (`c17 csvparse`).
-/
import Midgard.Model.WriterFiles

namespace Midgard.WriterCsv
open Midgard.Text Midgard.Decimal Midgard.WriterFiles

def naTokens : List Str :=
  ["", "nan", "NaN", "NA", "N/A", "n/a", "NULL", "null", "#N/A", "#NA", "-NaN", "-nan", "1.#IND", "-1.#IND", "1.#QNAN",
   "-1.#QNAN", "<NA>", "None"].map String.toList

def isNA (t : Str) : Bool := naTokens.contains t

/-- `[+-]digits` (P2) -/
def isIntTok (t : Str) : Bool :=
  let r := (takeSign (strip t)).2
  !r.isEmpty && allDigits r

def isFloatTok (t : Str) : Bool := (parseFloat t).isSome

def isBoolTok (t : Str) : Bool := t = "True".toList || t = "False".toList

inductive Col where
  | ints (l : List Int)
  | floats (l : List (Option Rat))
  | strs (l : List Str)
  /-- a kind of column the model does not cover (bool) -/
  | other
  deriving DecidableEq, Repr

/-- dtype inference of one column (P2–P6); `none` = the column is dropped -/
def inferCol (toks : List Str) : Option Col :=
  if toks.all isNA then none
  else if toks.all (fun t => isNA t || isIntTok t) then
    (if toks.any isNA then some (.floats (toks.map fun t => if isNA t then none else (parseInt? t).map fun i => (i : Rat)))
     else some (.ints (toks.map fun t => (parseInt? t).getD 0)))
  else if toks.all (fun t => isNA t || isFloatTok t) then
    some (.floats (toks.map fun t => if isNA t then none else parseFloat t))
  else if toks.all isBoolTok then some .other
  else some (.strs (toks.map fun t => if isNA t then "nan".toList else t))

def dropLeadingBlanks (t : Str) : Str := t.dropWhile (· = ' ')

/-- the token rows of a file: comment cut, blank lines skipped, cut at the separators, initial blanks dropped (P1, P7, P8, P10) -/
def csvRows (file : Str) : List (List Str) :=
  (((fileLines (universalNewlines file)).map fun l => (rstripNl l).takeWhile (· ≠ '#')).map
      fun l => (splitSep l).map dropLeadingBlanks).filter
    fun r => !(r.length == 1 && isBlank (r.headD []))

/-- the token of column `j` in a row: NA when the row is too short (P9) -/
def tokenAt (j : Nat) (row : List Str) : Str := row.getD j []

/-- parsers/csv_.py `self.data`: (name, column) in header order, dropped columns left out -/
def csvParse (file : Str) : List (String × Col) :=
  match csvRows file with
  | [] => []
  | header :: data =>
    (header.zipIdx.filterMap fun (name, j) => (inferCol (data.map (tokenAt j))).map fun c => (String.ofList name, c))

end Midgard.WriterCsv
