/-
C06 — model of `midgard.math.rotation`, of the local-frame conversions in
`midgard.math.transformation` (`delta_trs2enu` … `delta_acr2trs_posvel`) and of the frame
properties of `midgard.data._position` (`enu_east/north/up`, `azimuth_to`, `elevation_to`,
`trs2acr`, `acr2trs`).

Every matrix is first written from an explicit `(c, s) = (cos a, sin a)` pair (`…CS`): that part
is pure ring arithmetic, runs exactly over `Rat`, and is what the algebraic theorems of
`Props/C06.lean` are about (for any commutative ring and any pair with `c² + s² = 1`).  The
angle versions feed `Trig.cos/sin` into the same terms.
-/
import Midgard.Model.Vec3

namespace Midgard.Geo

section Ring
variable {α : Type} [Add α] [Sub α] [Mul α] [Neg α] [Zero α] [One α]

/-- `rotation.R1`: `[[1, 0, 0], [0, cosA, sinA], [0, -sinA, cosA]]` -/
def R1cs (c s : α) : M3 α := ⟨⟨1, 0, 0⟩, ⟨0, c, s⟩, ⟨0, -s, c⟩⟩
/-- `rotation.R2`: `[[cosA, 0, -sinA], [0, 1, 0], [sinA, 0, cosA]]` -/
def R2cs (c s : α) : M3 α := ⟨⟨c, 0, -s⟩, ⟨0, 1, 0⟩, ⟨s, 0, c⟩⟩
/-- `rotation.R3`: `[[cosA, sinA, 0], [-sinA, cosA, 0], [0, 0, 1]]` -/
def R3cs (c s : α) : M3 α := ⟨⟨c, s, 0⟩, ⟨-s, c, 0⟩, ⟨0, 0, 1⟩⟩

/-- `rotation.dR1`: `[[0, 0, 0], [0, -sinA, cosA], [0, -cosA, -sinA]]` -/
def dR1cs (c s : α) : M3 α := ⟨⟨0, 0, 0⟩, ⟨0, -s, c⟩, ⟨0, -c, -s⟩⟩
/-- `rotation.dR2`: `[[-sinA, 0, -cosA], [0, 0, 0], [cosA, 0, -sinA]]` -/
def dR2cs (c s : α) : M3 α := ⟨⟨-s, 0, -c⟩, ⟨0, 0, 0⟩, ⟨c, 0, -s⟩⟩
/-- `rotation.dR3`: `[[-sinA, cosA, 0], [-cosA, -sinA, 0], [0, 0, 0]]` -/
def dR3cs (c s : α) : M3 α := ⟨⟨-s, c, 0⟩, ⟨-c, -s, 0⟩, ⟨0, 0, 0⟩⟩

/-- `rotation.enu2trs(lat, lon)` from `(coslat, sinlat, coslon, sinlon)` -/
def enu2trsCS (cl sl co so : α) : M3 α :=
  ⟨⟨-so, -co * sl, co * cl⟩,
   ⟨co, -so * sl, so * cl⟩,
   ⟨0, cl, sl⟩⟩

/-- `rotation.trs2enu(lat, lon)` from `(coslat, sinlat, coslon, sinlon)` -/
def trs2enuCS (cl sl co so : α) : M3 α :=
  ⟨⟨-so, co, 0⟩,
   ⟨-sl * co, -sl * so, cl⟩,
   ⟨cl * co, cl * so, sl⟩⟩

/-- the outward unit normal of the ellipsoid at geodetic `(lat, lon)`:
`(cos lat cos lon, cos lat sin lon, sin lat)` (the direction `llh2trs` moves along when the
height grows — see `Model/Geodetic.lean` and `Props/C05.lean`) -/
def normalCS (cl sl co so : α) : V3 α := ⟨cl * co, cl * so, sl⟩

/-- `PositionArray.enu_east`: `nputil.take(enu2trs, 0)` — column 0 of `enu2trs` -/
def enuEastCS (cl sl co so : α) : V3 α := (enu2trsCS cl sl co so).col1
/-- `PositionArray.enu_north`: column 1 of `enu2trs` -/
def enuNorthCS (cl sl co so : α) : V3 α := (enu2trsCS cl sl co so).col2
/-- `PositionArray.enu_up`: column 2 of `enu2trs` -/
def enuUpCS (cl sl co so : α) : V3 α := (enu2trsCS cl sl co so).col3

/-- `transformation.delta_trs2enu`: `ref_pos.trs2enu @ trs.mat` -/
def deltaTrs2EnuCS (cl sl co so : α) (d : V3 α) : V3 α := (trs2enuCS cl sl co so).mulVec d
/-- `transformation.delta_enu2trs`: `ref_pos.enu2trs @ enu.mat` -/
def deltaEnu2TrsCS (cl sl co so : α) (d : V3 α) : V3 α := (enu2trsCS cl sl co so).mulVec d

/-- `transformation.delta_trs2enu_posvel`: `np.block([[t2e, 0], [0, t2e]]) @ trs.mat` -/
def deltaTrs2EnuPosVelCS (cl sl co so : α) (w : V6 α) : V6 α :=
  (M6.blockDiag (trs2enuCS cl sl co so)).mulVec w
/-- `transformation.delta_enu2trs_posvel` -/
def deltaEnu2TrsPosVelCS (cl sl co so : α) (w : V6 α) : V6 α :=
  (M6.blockDiag (enu2trsCS cl sl co so)).mulVec w

end Ring

section Angles
variable {α : Type} [Add α] [Sub α] [Mul α] [Neg α] [Zero α] [One α] [Trig α]

def R1 (a : α) : M3 α := R1cs (Trig.cos a) (Trig.sin a)
def R2 (a : α) : M3 α := R2cs (Trig.cos a) (Trig.sin a)
def R3 (a : α) : M3 α := R3cs (Trig.cos a) (Trig.sin a)
def dR1 (a : α) : M3 α := dR1cs (Trig.cos a) (Trig.sin a)
def dR2 (a : α) : M3 α := dR2cs (Trig.cos a) (Trig.sin a)
def dR3 (a : α) : M3 α := dR3cs (Trig.cos a) (Trig.sin a)

/-- `rotation.enu2trs(lat, lon)` -/
def enu2trs (lat lon : α) : M3 α :=
  enu2trsCS (Trig.cos lat) (Trig.sin lat) (Trig.cos lon) (Trig.sin lon)
/-- `rotation.trs2enu(lat, lon)` -/
def trs2enu (lat lon : α) : M3 α :=
  trs2enuCS (Trig.cos lat) (Trig.sin lat) (Trig.cos lon) (Trig.sin lon)

end Angles

section Acr
variable {α : Type} [Add α] [Sub α] [Mul α] [Div α] [Neg α] [Zero α] [One α] [Trig α]

/-- `PosVelArray.trs2acr` (after the `fix:` commit: the three unit vectors are the *rows* for a
single state as well as for an array of states):
`r_unit = unit(r)`, `v_unit = unit(v)`, `c_unit = unit(r_unit × v_unit)`,
`a_unit = unit(c_unit × r_unit)`, rows `(a_unit, c_unit, r_unit)`. -/
def trs2acr (r v : V3 α) : M3 α :=
  let ru := r.unit
  let vu := v.unit
  let cu := (V3.cross ru vu).unit
  let au := (V3.cross cu ru).unit
  ⟨au, cu, ru⟩

/-- `PosVelArray.acr2trs`: the transpose -/
def acr2trs (r v : V3 α) : M3 α := (trs2acr r v).transpose

/-- `transformation.delta_trs2acr_posvel` -/
def deltaTrs2AcrPosVel (r v : V3 α) (w : V6 α) : V6 α := (M6.blockDiag (trs2acr r v)).mulVec w
/-- `transformation.delta_acr2trs_posvel` -/
def deltaAcr2TrsPosVel (r v : V3 α) (w : V6 α) : V6 α := (M6.blockDiag (acr2trs r v)).mulVec w

/-- `PositionArray.direction_to`: `vector_to(other) / distance_to(other)` in TRS -/
def directionTo (p q : V3 α) : V3 α := (V3.sub q p).unit

/-- `PositionArray.azimuth_to`: `arctan2(dir · east, dir · north)` -/
def azimuthCS (cl sl co so : α) (dir : V3 α) : α :=
  Trig.atan2 (V3.dot dir (enuEastCS cl sl co so)) (V3.dot dir (enuNorthCS cl sl co so))

/-- `PositionArray.elevation_to`: `arcsin(dir · up)` -/
def elevationCS (cl sl co so : α) (dir : V3 α) : α :=
  Trig.asin (V3.dot dir (enuUpCS cl sl co so))

/-- `PositionArray.zenith_distance_to`: `pi/2 - elevation` -/
def zenithDistanceCS (cl sl co so : α) (dir : V3 α) : α :=
  Trig.pi / (1 + 1) - elevationCS cl sl co so dir

end Acr

end Midgard.Geo
