/-
C05 — model of `midgard.math.ellipsoid.Ellipsoid`, of `transformation.trs2llh/_trs2llh`
(one-step Halley scheme, SOFA GC2GDE) and `transformation.llh2trs/_llh2trs` (SOFA GD2GCE),
exactly as coded (branch by branch, same operation order), polymorphic in the number type
(see `Model/Vec3.lean`), and of the *ellipsoid attribute flow* of
`midgard.data._position.PositionArray/PosVelArray` (second half of the property).
-/
import Midgard.Model.Vec3

namespace Midgard.Geo

/-- `ellipsoid.Ellipsoid(name, a, f_inv, …)`; `f_inv = math.inf` (the sphere) is `none`. -/
structure Ellipsoid (α : Type) where
  a : α
  fInv : Option α
  deriving Repr, DecidableEq

section Ell
variable {α : Type} [Add α] [Sub α] [Mul α] [Div α] [Zero α] [One α]

/-- `Ellipsoid.f`: `1 / self.f_inv` (`1 / inf = 0`) -/
def Ellipsoid.f (E : Ellipsoid α) : α :=
  match E.fInv with
  | none => 0
  | some v => 1 / v

/-- `Ellipsoid.b`: `self.a * (1 - self.f)` -/
def Ellipsoid.b (E : Ellipsoid α) : α := E.a * (1 - E.f)

/-- `Ellipsoid.e2`: `1 - self.b ** 2 / self.a ** 2` -/
def Ellipsoid.e2 (E : Ellipsoid α) : α := 1 - (E.b * E.b) / (E.a * E.a)

/-- `Ellipsoid.eps`: `self.e2 / (1 - self.e2)` -/
def Ellipsoid.eps (E : Ellipsoid α) : α := E.e2 / (1 - E.e2)

end Ell

/-- geodetic coordinates, one row of an `(n, 3)` llh array -/
structure LLH (α : Type) where
  lat : α
  lon : α
  h : α
  deriving Repr, DecidableEq

section Llh2Trs
variable {α : Type} [Add α] [Sub α] [Mul α] [Div α] [Neg α] [Zero α] [One α] [Trig α]

/-- `_llh2trs` from the sine/cosine values of latitude and longitude:
```
w  = (1 - f) ** 2
ac = a / sqrt(coslat ** 2 + w * sinlat ** 2)
r  = (ac + height) * coslat
x, y, z = r * coslon, r * sinlon, (w * ac + height) * sinlat
``` -/
def llh2trsCS (E : Ellipsoid α) (cl sl co so h : α) : V3 α :=
  let w := (1 - E.f) * (1 - E.f)
  let ac := E.a / Trig.sqrt (cl * cl + w * (sl * sl))
  let r := (ac + h) * cl
  ⟨r * co, r * so, (w * ac + h) * sl⟩

/-- `transformation.llh2trs` (one row) -/
def llh2trs (E : Ellipsoid α) (g : LLH α) : V3 α :=
  llh2trsCS E (Trig.cos g.lat) (Trig.sin g.lat) (Trig.cos g.lon) (Trig.sin g.lon) g.h

end Llh2Trs

section Trs2Llh
variable {α : Type} [Add α] [Sub α] [Mul α] [Div α] [Neg α] [Zero α] [One α]
  [OfScientific α] [LT α] [LE α] [DecidableRel (α := α) (· < ·)] [DecidableRel (α := α) (· ≤ ·)]
  [Trig α]

/-- numerator and denominator `(s1, cc)` of the tangent of the latitude after the single
Halley step of `_trs2llh`, from `p = sqrt(x² + y²)` and `|z|`:
```
s0 = absz / a ; pn = p / a ; zc = ec * s0
c0 = ec * pn ; a0 = sqrt(c0**2 + s0**2)
d0 = zc * a0**3 + e2 * s0**3 ; f0 = pn * a0**3 - e2 * c0**3
b0 = e4t * s0**2 * c0**2 * pn * (a0 - ec)
s1 = d0 * f0 - b0 * s0 ; cc = ec * (f0**2 - b0 * c0)
``` -/
def halley (E : Ellipsoid α) (p absz : α) : α × α :=
  let e2 := E.e2
  let e4t := e2 * e2 * 1.5
  let ec2 := 1 - e2
  let ec := Trig.sqrt ec2
  let s0 := absz / E.a
  let pn := p / E.a
  let zc := ec * s0
  let c0 := ec * pn
  let a0 := Trig.sqrt (c0 * c0 + s0 * s0)
  let d0 := zc * cube a0 + e2 * cube s0
  let f0 := pn * cube a0 - e2 * cube c0
  let b0 := e4t * (s0 * s0) * (c0 * c0) * pn * (a0 - ec)
  let s1 := d0 * f0 - b0 * s0
  let cc := ec * (f0 * f0 - b0 * c0)
  (s1, cc)

/-- `tmp_height` of `_trs2llh`:
`(p*cc + absz*s1 - a*sqrt(ec2*s1**2 + cc**2)) / sqrt(s1**2 + cc**2)` -/
def halleyHeight (E : Ellipsoid α) (p absz s1 cc : α) : α :=
  (p * cc + absz * s1 - E.a * Trig.sqrt ((1 - E.e2) * (s1 * s1) + cc * cc)) / Trig.sqrt (s1 * s1 + cc * cc)

/-- latitude (before the sign is restored) and height from `p2 = x² + y²` and `|z|`,
including the pole branch `p2 <= a**2 * 1e-32` -/
def latHeightOf (E : Ellipsoid α) (p2 absz : α) : α × α :=
  if p2 ≤ E.a * E.a * 1e-32 then
    (Trig.pi / (1 + 1), absz - E.b)
  else
    let p := Trig.sqrt p2
    let sc := halley E p absz
    (Trig.atan (sc.1 / sc.2), halleyHeight E p absz sc.1 sc.2)

/-- `transformation.trs2llh` (one row): `lon = arctan2(y, x)`, latitude/height from
`latHeightOf`, then `lat *= sign(z)`. -/
def trs2llh (E : Ellipsoid α) (v : V3 α) : LLH α :=
  let lh := latHeightOf E (v.x * v.x + v.y * v.y) (absOf v.z)
  ⟨lh.1 * signOf v.z, Trig.atan2 v.y v.x, lh.2⟩

end Trs2Llh

/-! ### The ellipsoid attribute flow of `PositionArray` / `PosVelArray`

A position object carries an `ellipsoid` attribute.  Every public operation that returns a new
position object builds it either through NumPy's view machinery (`__array_finalize__`, which
copies `obj.ellipsoid`) or through an explicit constructor call inside a method of
`_position.py`.  Whether such a call forwards the ellipsoid is read off the source by
`translator/extract_ellflow.py` into `Generated/EllipsoidFlow.lean`; the machine below replays an
operation sequence against that table. -/

/-- what a constructor call passes on as `ellipsoid` -/
inductive Fwd
  | keep   -- `ellipsoid=<source object>.ellipsoid` (keyword or second positional argument)
  | drop   -- nothing: the constructor's default (GRS80) applies
  | bad    -- something that is not an ellipsoid of the source object
  deriving Repr, DecidableEq

/-- one constructor call found in a method of `PositionArray` / `PosVelArray` -/
structure Site where
  cls : String
  method : String
  fwd : Fwd
  deriving Repr, DecidableEq

/-- operations on a position object that return a position object -/
inductive Op
  | convert      -- `.llh`, `.trs`, `.kepler`, `to_system`          → `convert_to`
  | sliceRow     -- `p[i]`, `p[a:b]`                                   → `__getitem__`
  | fancy        -- `p[[…]]`, `p[mask]`, `p.view()`, `p.copy()`, `copy.copy`, ufuncs → `__array_finalize__`
  | subset       -- `p.subset(idx, memo)`                              → `subset`
  | addDelta     -- `p + δ`, `p - δ`, `δ + p`, `δ - p`                 → `from_position`
  | deepcopy     -- `copy.deepcopy(p)`                                 → `__deepcopy__`
  | posOf        -- `pv.pos` (PosVelArray only; result is a PositionArray) → `pos`
  | emptyFrom    -- `cls.empty_from(p)`                                → `empty_from`
  | insert       -- `cls.insert(p, k, q, memo)` (ellipsoid of `p`)     → `insert`
  deriving Repr, DecidableEq

/-- the kind of position object -/
inductive PCls | position | posvel
  deriving Repr, DecidableEq

def PCls.name : PCls → String
  | .position => "PositionArray"
  | .posvel => "PosVelArray"

/-- the method whose constructor call produces the result of an operation
(`none`: no explicit constructor call — `__array_finalize__` copies the attribute) -/
def Op.method : Op → Option String
  | .convert => some "convert_to"
  | .sliceRow => some "__getitem__"
  | .fancy => none
  | .subset => some "subset"
  | .addDelta => some "from_position"
  | .deepcopy => some "__deepcopy__"
  | .posOf => some "pos"
  | .emptyFrom => some "empty_from"
  | .insert => some "insert"

/-- sites of a method *defined in* a class -/
def sitesOf (tbl : List Site) (cls m : String) : List Site :=
  tbl.filter (fun s => s.cls == cls && s.method == m)

/-- Python attribute lookup: `PosVelArray` inherits from `PositionArray` -/
def resolve (tbl : List Site) (c : PCls) (m : String) : List Site :=
  match c with
  | .position => sitesOf tbl "PositionArray" m
  | .posvel =>
    let own := sitesOf tbl "PosVelArray" m
    if own.isEmpty then sitesOf tbl "PositionArray" m else own

/-- a position object as far as this half of the property is concerned:
its class and the ellipsoid it is tagged with (`none` = something that is not an ellipsoid) -/
structure PosTag where
  cls : PCls
  ell : Option Nat
  deriving Repr, DecidableEq

/-- index of the default ellipsoid `GRS80` in the ellipsoid table (set by the constructor when
no `ellipsoid=` is passed) -/
def defaultEll : Nat := 0

/-- does the operation exist on this class -/
def Op.applies (o : Op) (c : PCls) : Bool :=
  match o, c with
  | .posOf, .position => false
  | _, _ => true

/-- one step: the tag of the result -/
def step (tbl : List Site) (p : PosTag) (o : Op) : PosTag :=
  if !o.applies p.cls then p else
  let cls' := if o == .posOf then PCls.position else p.cls
  match o.method with
  | none => ⟨cls', p.ell⟩
  | some m =>
    let ss := resolve tbl p.cls m
    if ss.all (fun s => s.fwd == .keep) then ⟨cls', p.ell⟩
    else if ss.any (fun s => s.fwd == .bad) then ⟨cls', none⟩
    else ⟨cls', some defaultEll⟩

/-- replay a sequence -/
def run (tbl : List Site) (p : PosTag) : List Op → PosTag
  | [] => p
  | o :: os => run tbl (step tbl p o) os

/-- the ellipsoids on which the conversions of a sequence are *evaluated*
(`trs2llh`/`llh2trs` read `ellipsoid` off their argument) -/
def convertedOn (tbl : List Site) (p : PosTag) : List Op → List (Option Nat)
  | [] => []
  | o :: os =>
    (if o == .convert then [p.ell] else []) ++ convertedOn tbl (step tbl p o) os

end Midgard.Geo
