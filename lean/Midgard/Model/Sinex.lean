/-
Executable model of midgard's SINEX parsing (`midgard/parsers/_parser_sinex.py` and the concrete
parsers `sinex_site`, `sinex_discontinuities`, `sinex_events`, `sinex_tro`, `sinex_tms`).

Fully table driven: the `FieldDef`/`BlockDef` tables are regenerated from the source
(`Generated/SinexBlocks.lean`); this file says what the code *does* with such a table.

`np.genfromtxt(lines, delimiter=widths, autostrip=True, usecols=…, converters=…, dtype=…,
comments=None)` is modelled, not verified.  What the model assumes of it (each item is probed against
the real function in every run of `./check C14`, see `harness/c14_tms.py` `GFT`):

* G1  `delimiter = diff([0] + starts + [total])` cuts `line[s_i : s_{i+1}]`, the last field `line[s_last : total]`;
      the 0th piece is dropped (`usecols`)                                   — `layoutOf`, `cutLine`
* G2  a line that ends before a field starts gives the empty text there; nothing shifts
* G3  characters at or beyond `total` are ignored
* G4  `autostrip`: every piece loses leading/trailing ASCII whitespace, inner whitespace stays — `FixedCol.slice`
* G5  `comments=None`: `#` is an ordinary character                          — `dropComment`
* G6  the empty text: `U` ↦ `''`, `i8` ↦ −1, `f8` ↦ nan, converter ↦ its `ValueError` ↦ `None`/nan
* G7  a conversion raising `ValueError` gives the column default (`StringConverter._loose_call`); nothing is raised
* G8  `Uk` keeps the first `k` characters                                    — `convertCell`
* G9  `i8` is `int(text)`, `f8` is `float(text)` (decimal literals; inf/nan/`_`/hex numerals are outside the model)
* G10 one record per non-empty line, in order; no line: an empty array       — `parseLines`
* G11 names go through `NameValidator`                                       — `validName`
* G12 (`sinex_tms`) `total` < last start: the last field is empty, the others unaffected
* W1–W4 (`sinex_tms`, `delimiter=None, dtype=None`): cut at whitespace runs, token-less lines skipped, a line with
      another number of tokens raises, non-numeric columns stay text and decimal tokens read as `float(token)` — `wsRows`
-/
import Midgard.Core.Text
import Midgard.Core.Decimal
import Midgard.Core.FixedCol

namespace Midgard.Sinex
open Midgard.Text Midgard.Decimal Midgard.FixedCol

/-! ### tables -/

inductive DType | u (k : Nat) | i8 | f8 | obj | skip
  deriving Repr, DecidableEq, Inhabited

inductive Conv | none | epoch | exponent | dms2deg | dms2rad | utf8 | tuple | list | yyyydddsssss
  deriving Repr, DecidableEq, Inhabited

/-- `SinexField(name, start_col, dtype, converter)` -/
structure FieldDef where
  name : String
  start : Nat
  dtype : DType
  conv : Conv
  deriving Repr, DecidableEq, Inhabited

inductive ParserKind
  | dflt                          -- `parsing_factory()`
  | matrix (sizeMarker : String)  -- `parsing_matrix_factory(marker, size_marker)`
  | custom (qualname : String)    -- a method of the concrete parser
  deriving Repr, DecidableEq, Inhabited

/-- `SinexBlock(marker, fields, parser)` -/
structure BlockDef where
  marker : String
  fields : List FieldDef
  kind : ParserKind
  deriving Repr, DecidableEq, Inhabited

/-! ### converted values -/

/-- one converted field -/
inductive Cell
  | str (s : Str)
  | int (i : Int)
  | flt (q : Option Rat)            -- `none` = NaN
  | none                            -- Python `None`
  | dt (ord : Int) (sec : Int)      -- `datetime`: proleptic ordinal day, second of day
  | tup (l : List Str)              -- tuple / list of strings
  deriving Repr, DecidableEq, Inhabited

/-! ### fixed-width cutting (`np.genfromtxt` with a list of widths, `autostrip=True`) -/

/-- the layout `delimiter = np.diff([0] + starts + [total])` cuts, *without* the 0th column -/
def layoutOf (fields : List FieldDef) (total : Nat) : Layout :=
  ofStarts (fields.map (·.name)) (fields.map (·.start)) total

/-- genfromtxt is called with `comments=None`: nothing is cut off a record -/
def dropComment (line : Str) : Str := line

/-- the stripped text of every declared field of one line -/
def cutLine (fields : List FieldDef) (total : Nat) (line : Str) : List Str :=
  (layoutOf fields total).map fun f => FixedCol.slice f (dropComment line)

/-! ### converters -/

/-- ordinal (Python `date.toordinal()`) of 1 January of year `y ≥ 1` -/
def jan1 (y : Int) : Int :=
  let p := y - 1
  365 * p + p / 4 - p / 100 + p / 400 + 1

/-- the `%j` directive of `strptime`: 1–3 digits, value 1…366 -/
def parseDoy? (s : Str) : Option Nat :=
  if s.length = 0 ∨ 3 < s.length ∨ !allDigits s then Option.none
  else
    let v := digitsVal s
    if 1 ≤ v ∧ v ≤ 366 then some v else Option.none

/-- `datetime.strptime(s, "%Y:%j")` → ordinal of the date -/
def strptimeYj? (s : Str) : Option Int :=
  let y := s.take 4
  if y.length ≠ 4 ∨ !allDigits y then Option.none
  else match s.drop 4 with
    | ':' :: rest =>
      match parseDoy? rest with
      | some d =>
        let yr : Int := digitsVal y
        if yr < 1 then Option.none else some (jan1 yr + d - 1)
      | Option.none => Option.none
    | _ => Option.none

/-- `date + timedelta(seconds = s)` -/
def addSeconds (ord : Int) (s : Int) : Cell := .dt (ord + s / 86400) (s % 86400)

/-- `SinexParser._convert_epoch` (a `ValueError` is `none`, which genfromtxt turns into `None`) -/
def convertEpoch? (f : Str) : Option Cell :=
  match parseInt? (f.take 2) with
  | Option.none => Option.none
  | some yy =>
    let ce : Str := if yy > 50 then ['1', '9'] else ['2', '0']
    let yearDoy : Str :=
      if f ≠ "00:000:00000".toList ∧ Text.slice 3 6 f = ['0', '0', '0'] then f.take 2 ++ ":001".toList
      else f.take 6
    match strptimeYj? (ce ++ yearDoy) with
    | Option.none => Option.none
    | some ord =>
      match parseInt? (f.drop 7) with
      | Option.none => Option.none
      | some s => some (addSeconds ord s)

/-- `SinexTmsParser._convert_yyyydddsssss` (the ISO text it returns is the same instant) -/
def convertYyyy? (f0 : Str) : Option Cell :=
  let f := if f0 = "0000:000:00000".toList then "9999:364:99999".toList else f0
  match strptimeYj? (f.take 8) with
  | Option.none => Option.none
  | some ord =>
    match parseInt? (f.drop 9) with
    | Option.none => Option.none
    | some s => some (addSeconds ord s)

/-- `float(field.replace("D", "E"))` -/
def convertExponent (f : Str) : Option Rat := parseFloat (replaceChar 'D' 'E' f)

/-- `Unit.dms_to_rad(d, m, s) * radians2degrees` on exact numbers:
`copysign(1, d) · (|d| + m/60 + s/3600)`; the sign is the IEEE sign of `float(d)`, i.e. whether the
degree text carries a `-` (also for `-0`). -/
def dmsValue (negD : Bool) (d m s : Rat) : Rat :=
  let a := (if d < 0 then -d else d) + m / 60 + s / 3600
  if negD then -a else a

def convertDms2deg (f : Str) : Option Rat :=
  match split f with
  | [d, m, s] =>
    match parseFloat d, parseFloat m, parseFloat s with
    | some dv, some mv, some sv => some (dmsValue ((takeSign d).1) dv mv sv)
    | _, _, _ => Option.none
  | _ => Option.none

/-- Python `int(text)` for a column of dtype `i8` (failure ↦ −1) -/
def toInt (t : Str) : Cell := .int ((parseInt? t).getD (-1))

/-- the value genfromtxt stores for one stripped field text -/
def convertCell (fd : FieldDef) (t : Str) : Cell :=
  match fd.conv with
  | .epoch => (convertEpoch? t).getD .none
  | .yyyydddsssss => (convertYyyy? t).getD .none
  | .exponent => .flt (convertExponent t)
  | .dms2deg => .flt (convertDms2deg t)
  | .dms2rad => .flt Option.none          -- needs π; no block uses it (checked on the table)
  | .tuple => .tup (split t)
  | .list => .tup (split t)
  | .utf8 | .none =>
    match fd.dtype with
    | .u k => .str (t.take k)
    | .i8 => toInt t
    | .f8 => .flt (parseFloat t)
    | .obj => .str t
    | .skip => .none

/-- fields with a dtype (genfromtxt `usecols`) -/
def kept (fields : List FieldDef) : List FieldDef := fields.filter (·.dtype ≠ .skip)

/-- NumPy's `NameValidator.deletechars` ``~!@#$%^&*()-=+~\|]}[{';: /?.>,<`` as code points (the
kernel compares `Nat` literals fast, `Char`s slowly) -/
def deleteCodes : List Nat :=
  [126, 33, 64, 35, 36, 37, 94, 38, 42, 40, 41, 45, 61, 43, 92, 124, 93, 125, 91, 123, 39, 59, 58, 32, 47, 63,
   46, 62, 44, 60]

def nameCodes (n : String) : List Nat := n.toList.map Char.toNat

/-- NumPy's `NameValidator` on the code points of a field name: blanks become `_`, punctuation is
deleted -/
def validCodes (cs : List Nat) : List Nat :=
  (cs.map fun k => if k = 32 then 95 else k).filter fun k => !deleteCodes.contains k

def validName (n : String) : String := String.ofList ((validCodes (nameCodes n)).map Char.ofNat)

abbrev Row := List (String × Cell)

/-- one line ↦ one record `name ↦ value` -/
def parseLine (fields : List FieldDef) (total : Nat) (line : Str) : Row :=
  ((fields.zip (cutLine fields total line)).filter (·.1.dtype ≠ .skip)).map
    fun (fd, t) => (validName fd.name, convertCell fd t)

/-- `SinexParser.parse_lines` (`total = 81`) -/
def parseLines (fields : List FieldDef) (total : Nat) (lines : List Str) : List Row :=
  (lines.filter fun l => !(dropComment l).isEmpty).map (parseLine fields total)

/-- `SinexTmsParser.parse_lines`: the last field ends at the longest line's length
(`len(line)` counts the terminator the harness re-attaches: `+ 1`) -/
def maxChar (lines : List Str) : Nat := lines.foldl (fun m l => max m (l.length + 1)) 0

/-! ### blocks (`SinexParser.parse_blocks`) -/

structure RawBlock where
  marker : String
  params : List Str
  lines : List Str
  deriving Repr, DecidableEq, Inhabited

inductive Mode
  | search
  | collect (marker : String) (params : List Str) (acc : List Str)   -- `acc` reversed

/-- `none` = the code raises (a `+` line without a marker) -/
def scan : List Str → List String → Mode → Option (List RawBlock)
  | [], _, .search => some []
  | [], _, .collect m p acc => some [⟨m, p, acc.reverse⟩]
  | l :: rest, wanted, .search =>
    if wanted.isEmpty then some []
    else if startsWith ['+'] l then
      match split (strip (l.drop 1)) with
      | [] => Option.none
      | mk :: params =>
        let m := asString mk
        if wanted.contains m then scan rest wanted (.collect m params [])
        else scan rest wanted .search
    else scan rest wanted .search
  | l :: rest, wanted, .collect m p acc =>
    if startsWith ['-'] l then
      (scan rest (wanted.erase m) .search).map (⟨m, p, acc.reverse⟩ :: ·)
    else if startsWith [' '] l then scan rest wanted (.collect m p (l :: acc))
    else scan rest wanted (.collect m p acc)

/-- the raw blocks of a file body (after the header line), first occurrence of each wanted marker -/
def findBlocks (wanted : List String) (body : List Str) : Option (List RawBlock) :=
  scan body wanted .search

/-! ### matrices (`parsing_matrix_factory`) -/

abbrev Matrix := List (List Rat)

def zeros (n : Nat) : Matrix := List.replicate n (List.replicate n 0)

def Matrix.get (M : Matrix) (i j : Nat) : Rat := (M.getD i []).getD j 0

/-- `matrix[r-1:r, c-1:c-1+len(vals)] = vals` on an `n × n` array: NumPy clips the slices and then
broadcasts `vals` into the (possibly empty) target; `none` = "could not broadcast". -/
def writeLine (M : Matrix) (r c : Nat) (vals : List Rat) : Option Matrix :=
  let n := M.length
  if vals.isEmpty then some M
  else if r = 0 ∨ c = 0 then Option.none     -- negative slice starts: outside the model
  else
    let k := min (c - 1 + vals.length) n - min (c - 1) n
    if k = vals.length then
      (if r ≤ n then some (M.set (r - 1) (((M.getD (r - 1) []).take (c - 1)) ++ vals ++
          (M.getD (r - 1) []).drop (c - 1 + vals.length))) else some M)
    else if vals.length = 1 then some M
    else Option.none

structure MatLine where
  row : Int
  col : Int
  vals : List (Option Rat)     -- value_0..2, `none` = NaN
  deriving Repr, DecidableEq, Inhabited

/-- all lines written in file order (later lines overwrite) -/
def fillMatrix (n : Nat) (lines : List MatLine) : Option Matrix :=
  lines.foldlM (fun M l =>
    if l.row < 0 ∨ l.col < 0 then Option.none
    else writeLine M l.row.toNat l.col.toNat (l.vals.filterMap id)) (zeros n)

inductive Tri | lower | upper | unspecified
  deriving Repr, DecidableEq, Inhabited

def triOf (p : Str) : Tri :=
  if upper p = ['L'] then .lower else if upper p = ['U'] then .upper else .unspecified

/-- `tril(M) + tril(M,-1).T`, `triu(M) + triu(M,1).T`, `M + M.T - diag(diag(M))` -/
def symmetrize (t : Tri) (n : Nat) (M : Matrix) : Matrix :=
  (List.range n).map fun i => (List.range n).map fun j =>
    match t with
    | .lower => if j ≤ i then M.get i j else M.get j i
    | .upper => if i ≤ j then M.get i j else M.get j i
    | .unspecified => if i = j then M.get i i else M.get i j + M.get j i

/-- size of the matrix: rows of the size block if that block was read, else the largest row or
column index a line mentions (`max(row_idx.max(), (column_idx + #values - 1).max())`, 0 if none) -/
def matrixSize (sizeRows : Option Nat) (lines : List MatLine) : Nat :=
  match sizeRows with
  | some n => n
  | Option.none =>
    (lines.foldl (fun (m : Int) (l : MatLine) =>
      max m (max l.row (l.col + ((l.vals.filterMap id).length : Int) - 1))) 0).toNat

def matrixOf (t : Tri) (sizeRows : Option Nat) (lines : List MatLine) : Option Matrix :=
  let n := matrixSize sizeRows lines
  (fillMatrix n lines).map (symmetrize t n)

def cellInt : Cell → Int
  | .int i => i
  | _ => -1

def cellFlt : Cell → Option Rat
  | .flt q => q
  | _ => Option.none

def lookup (r : Row) (k : String) : Cell := ((r.find? (·.1 = k)).map (·.2)).getD .none

def matLineOf (r : Row) : MatLine :=
  ⟨cellInt (lookup r "row_idx"), cellInt (lookup r "column_idx"),
   [cellFlt (lookup r "value_0"), cellFlt (lookup r "value_1"), cellFlt (lookup r "value_2")]⟩

/-! ### results -/

inductive Val
  | cell (c : Cell)
  | col (cs : List Cell)
  | mat (m : Matrix)
  | list (vs : List Val)
  | dict (kvs : List (String × Val))
  deriving Inhabited

def rowVal (r : Row) : Val := .dict (r.map fun (k, c) => (k, .cell c))

/-- Python `dict.__setitem__` on an insertion-ordered association list: the (first) entry of the key
is replaced in place, a new key goes to the end.  (Lists built from `[]` by `dset` have distinct keys.) -/
def dset {α} : List (String × α) → String → α → List (String × α)
  | [], k, v => [(k, v)]
  | (k', v') :: rest, k, v => if k' = k then (k', v) :: rest else (k', v') :: dset rest k v

/-- `dict.get(k)` -/
def dget? {α} : List (String × α) → String → Option α
  | [], _ => Option.none
  | (k', v') :: rest, k => if k' = k then some v' else dget? rest k

/-- the default block parser: `{name: data[name]}` — one column per kept field -/
def columns (fields : List FieldDef) (rows : List Row) : List (String × Val) :=
  (kept fields).map fun fd =>
    let k := validName fd.name
    (k, .col (rows.map fun r => lookup r k))

/-! ### per-site regrouping (`sinex_site`, `sinex_discontinuities`, `sinex_events`) -/

def cellStr : Cell → Str
  | .str s => s
  | _ => []

/-- `d["site_code"].lower()` -/
def siteKey (r : Row) : String := asString (lower (cellStr (lookup r "site_code")))

/-- sites ↦ (entry name ↦ rows); `single = true` models `data[site][entry] = row` (SITE/ID),
`false` models `.append(row)` -/
abbrev SiteTable := List (String × List (String × List Row))

def addRow (single : Bool) (entry : String) (T : SiteTable) (key : String) (r : Row) : SiteTable :=
  let site := (dget? T key).getD []
  let old := (dget? site entry).getD []
  dset T key (dset site entry (if single then [r] else old ++ [r]))

def regroup (single : Bool) (entry : String) (keyOf : Row → String) (f : Row → Row)
    (T : SiteTable) (rows : List Row) : SiteTable :=
  rows.foldl (fun T r => addRow single entry T (keyOf r) (f r)) T

/-- `str.rsplit(maxsplit=1)` (whitespace separator) into exactly two parts (`none`: the unpacking
raises) -/
def rsplit1 (s0 : Str) : Option (Str × Str) :=
  let r := (rstrip s0).reverse
  let tail := r.takeWhile (fun c => !isSpace c)
  match r.dropWhile (fun c => !isSpace c) with
  | [] => Option.none
  | rest =>
    let head := (rest.dropWhile isSpace).reverse
    if head.isEmpty then Option.none else some (head, tail.reverse)

end Midgard.Sinex
