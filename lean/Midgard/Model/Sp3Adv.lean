/-
Text-level entry of the SP3 model for files with any line ends (adversarial files of `harness/c13_adv.py`).
Kept apart from `Model/Sp3.lean` so that nothing the C12/C13 proofs import changes.
-/
import Midgard.Model.Sp3

namespace Midgard.Sp3
open Midgard.Text Midgard.FixedCol

/-- what `open(path, mode="rt")` (universal newlines, `newline=None`) hands to `ChainParser.read_data`:
`\r\n` and a lone `\r` are both read as `\n`.  `afterCR`: the previous character was a `\r`. -/
def universalNewlinesAux : Bool → Str → Str
  | _, [] => []
  | afterCR, c :: rest =>
    if c = '\r' then '\n' :: universalNewlinesAux true rest
    else if c = '\n' then (if afterCR then universalNewlinesAux false rest else '\n' :: universalNewlinesAux false rest)
    else c :: universalNewlinesAux false rest

def universalNewlines (s : Str) : Str := universalNewlinesAux false s

/-- a whole SP3 file as it stands on disk (any line ends): `parseFile` after the text-mode translation
of the line ends.  On a text without `\r` this is `parseFile` itself. -/
def parseFileText (F : Factors) (defs : List HeaderDef) (epochFields : List (Option String)) (recP : Layout)
    (raw : Str) : Option Parsed :=
  parseFile F defs epochFields recP (universalNewlines raw)

example : universalNewlines "a\r\nb\rc\n\r\r\nd".toList = "a\nb\nc\n\n\nd".toList := by decide

end Midgard.Sp3
