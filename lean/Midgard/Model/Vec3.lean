/-
Shared numeric vocabulary of the analytic models (C05, C06, C07); DESIGN.md §3.

Every model function below is written ONCE, polymorphically over a number type `α` that only
has to provide the core-Lean operator classes (`Add`, `Sub`, `Mul`, `Div`, `Neg`, `Zero`, `One`,
`LE` …) and, for the transcendental parts, the small class `Trig`.  The compiled drivers
instantiate `α := Float` (libm) and `α := Rat` (exact, algebraic parts only); the proof files
instantiate `α := ℝ` (noncomputably) or any commutative ring / field.  The *term* a theorem is
about is therefore the term the driver runs.

No Mathlib import (the drivers link this file).
-/
namespace Midgard.Geo

/-- transcendental primitives: libm on `Float`, `Real.*` in the proof files.
`atan2 y x` has NumPy's argument order. -/
class Trig (α : Type) where
  sin : α → α
  cos : α → α
  sqrt : α → α
  atan : α → α
  asin : α → α
  atan2 : α → α → α
  pi : α

instance : Trig Float where
  sin := Float.sin
  cos := Float.cos
  sqrt := Float.sqrt
  atan := Float.atan
  asin := Float.asin
  atan2 := Float.atan2
  pi := 3.141592653589793

/-- a 3-vector (one row of a `(n, 3)` position array) -/
structure V3 (α : Type) where
  x : α
  y : α
  z : α
  deriving Repr, DecidableEq

/-- a 3×3 matrix, stored by rows (NumPy `mat[i]` is `ri`) -/
structure M3 (α : Type) where
  r1 : V3 α
  r2 : V3 α
  r3 : V3 α
  deriving Repr, DecidableEq

/-- a 6-vector `(pos | vel)`: one row of a `(n, 6)` PosVel array -/
structure V6 (α : Type) where
  p : V3 α
  v : V3 α
  deriving Repr, DecidableEq

/-- a 6×6 matrix in 3×3 blocks, `np.block([[a, b], [c, d]])` -/
structure M6 (α : Type) where
  a : M3 α
  b : M3 α
  c : M3 α
  d : M3 α
  deriving Repr, DecidableEq

section Ring
variable {α : Type} [Add α] [Sub α] [Mul α] [Neg α] [Zero α] [One α]

def sq (x : α) : α := x * x
/-- `x ** 3` (NumPy evaluates it with `pow`; over ℝ it is this product) -/
def cube (x : α) : α := x * x * x

namespace V3
def add (u v : V3 α) : V3 α := ⟨u.x + v.x, u.y + v.y, u.z + v.z⟩
def sub (u v : V3 α) : V3 α := ⟨u.x - v.x, u.y - v.y, u.z - v.z⟩
def neg (u : V3 α) : V3 α := ⟨-u.x, -u.y, -u.z⟩
def smul (k : α) (u : V3 α) : V3 α := ⟨k * u.x, k * u.y, k * u.z⟩
def zero : V3 α := ⟨0, 0, 0⟩
/-- `np.einsum("i,i", u, v)` / `row(u) @ col(v)` -/
def dot (u v : V3 α) : α := u.x * v.x + u.y * v.y + u.z * v.z
/-- `np.cross(u, v)` -/
def cross (u v : V3 α) : V3 α :=
  ⟨u.y * v.z - u.z * v.y, u.z * v.x - u.x * v.z, u.x * v.y - u.y * v.x⟩
/-- squared Euclidean length -/
def norm2 (u : V3 α) : α := dot u u
end V3

namespace M3
def one : M3 α := ⟨⟨1, 0, 0⟩, ⟨0, 1, 0⟩, ⟨0, 0, 1⟩⟩
def zero : M3 α := ⟨V3.zero, V3.zero, V3.zero⟩
def col1 (m : M3 α) : V3 α := ⟨m.r1.x, m.r2.x, m.r3.x⟩
def col2 (m : M3 α) : V3 α := ⟨m.r1.y, m.r2.y, m.r3.y⟩
def col3 (m : M3 α) : V3 α := ⟨m.r1.z, m.r2.z, m.r3.z⟩
/-- `m.T` (for a stack of matrices `m.transpose(0, 2, 1)`) -/
def transpose (m : M3 α) : M3 α := ⟨m.col1, m.col2, m.col3⟩
/-- `m @ col(v)` -/
def mulVec (m : M3 α) (v : V3 α) : V3 α := ⟨V3.dot m.r1 v, V3.dot m.r2 v, V3.dot m.r3 v⟩
/-- `m @ n` -/
def mul (m n : M3 α) : M3 α :=
  ⟨⟨V3.dot m.r1 n.col1, V3.dot m.r1 n.col2, V3.dot m.r1 n.col3⟩,
   ⟨V3.dot m.r2 n.col1, V3.dot m.r2 n.col2, V3.dot m.r2 n.col3⟩,
   ⟨V3.dot m.r3 n.col1, V3.dot m.r3 n.col2, V3.dot m.r3 n.col3⟩⟩
/-- determinant as the triple product `r1 · (r2 × r3)` -/
def det (m : M3 α) : α := V3.dot m.r1 (V3.cross m.r2 m.r3)
end M3

namespace V6
def add (u v : V6 α) : V6 α := ⟨V3.add u.p v.p, V3.add u.v v.v⟩
end V6

namespace M6
/-- `np.block([[m, 0], [0, m]])` — the posvel variants of the delta conversions -/
def blockDiag (m : M3 α) : M6 α := ⟨m, M3.zero, M3.zero, m⟩
/-- `M @ col(w)` for a 6×6 block matrix -/
def mulVec (m : M6 α) (w : V6 α) : V6 α :=
  ⟨V3.add (m.a.mulVec w.p) (m.b.mulVec w.v), V3.add (m.c.mulVec w.p) (m.d.mulVec w.v)⟩
def transpose (m : M6 α) : M6 α := ⟨m.a.transpose, m.c.transpose, m.b.transpose, m.d.transpose⟩
def mul (m n : M6 α) : M6 α :=
  let addM (x y : M3 α) : M3 α := ⟨V3.add x.r1 y.r1, V3.add x.r2 y.r2, V3.add x.r3 y.r3⟩
  ⟨addM (m.a.mul n.a) (m.b.mul n.c), addM (m.a.mul n.b) (m.b.mul n.d),
   addM (m.c.mul n.a) (m.d.mul n.c), addM (m.c.mul n.b) (m.d.mul n.d)⟩
def one : M6 α := ⟨M3.one, M3.zero, M3.zero, M3.one⟩
end M6

end Ring

section Field
variable {α : Type} [Add α] [Mul α] [Div α] [Trig α]

/-- `v / k` elementwise -/
def V3.sdiv (u : V3 α) (k : α) : V3 α := ⟨u.x / k, u.y / k, u.z / k⟩

/-- `nputil.norm` / `np.linalg.norm(v, axis=-1)` -/
def V3.norm (u : V3 α) : α := Trig.sqrt (u.x * u.x + u.y * u.y + u.z * u.z)

/-- `nputil.unit_vector`: `v / np.linalg.norm(v)` -/
def V3.unit (u : V3 α) : V3 α := u.sdiv u.norm

end Field

/-- |x| and sign(x) through the order (`np.abs`, `np.sign`) -/
def absOf {α : Type} [Neg α] [Zero α] [LT α] [DecidableRel (α := α) (· < ·)] (x : α) : α :=
  if x < 0 then -x else x

def signOf {α : Type} [Neg α] [Zero α] [One α] [LT α] [DecidableRel (α := α) (· < ·)] (x : α) : α :=
  if x < 0 then -1 else if 0 < x then 1 else 0

end Midgard.Geo
