/-
C10 — model of `Dataset.write` / `Dataset.read` over an abstract HDF5 store.

The file is a tree of groups; a group has the attributes the dataset code writes, at most one array
payload (the HDF5 datasets `<fieldname>` (+ `sigma`) / `jd1`+`jd2` of the group, kept as the rows of
one `Obj`) and named sub-groups.  `write` follows `Dataset.write`, `FieldType.write`,
`CollectionField.write` and the `_write` of the array classes with the memo `id(object) ↦ field
name`; `read` follows `Dataset.read`, `FieldType.read`, `CollectionField.read` and the `_read`s with the
memo `field name ↦ object`.  h5py/HDF5 themselves (that a group gives back what was put into it) are
the modelled-not-verified part; the attribute texts go through `Model/H5Attr.lean`.
-/
import Midgard.Model.DatasetOps
import Midgard.Model.H5Attr

namespace Midgard.H5
open Midgard.Dataset

/-- the attributes of a group that matter for the round trip.  Field names are kept as their dot
separated components (`"c.p1"` is `["c", "p1"]`): the code joins and splits them with `"."`, which is
injective as long as no component contains a dot (field names cannot: a dot makes a collection). -/
structure GAttrs where
  fieldname : Path := []
  unit : Option (List String) := none        -- `unit` (`""` for None, else the encoded tuple)
  level : Nat := 3                           -- `write_level`
  ref : Option Path := none                  -- the `other` / `ref_pos` attribute: a reference by field name
  members : List (String × Option Kind) := []  -- the `fields` dict of a collection (none = collection)
  sameAs : Option Path := none               -- `same_as`: the array of this field is stored in the group of that field
  tref : Option Path := none                 -- the `time` attribute (registered by users of the library) as a reference by name
  src : Nat := 0                             -- *ghost*: the heap id of the array written here (never read)
  deriving Repr, Inhabited

inductive Grp
  | mk (a : GAttrs) (payload : Option Obj) (subs : List (String × Grp))
  deriving Repr, Inhabited

def Grp.attrs : Grp → GAttrs | .mk a _ _ => a
def Grp.payload : Grp → Option Obj | .mk _ p _ => p
def Grp.subs : Grp → List (String × Grp) | .mk _ _ s => s

structure File where
  numObs : Nat := 0
  members : List (String × Option Kind) := []
  groups : List (String × Grp) := []
  deriving Repr, Inhabited

abbrev WMemo := List (Nat × Path)

/-- the one attribute an array class writes: `other` for `PositionArray` / `PosVelArray`
(`_attributes()`), `ref_pos` for the delta classes, nothing for the others -/
def attrName (k : Kind) : Option String :=
  if k.hasOther then some "other" else if k.isDelta then some "ref_pos" else none

def _root_.Midgard.Dataset.Obj.ref (ob : Obj) : Option Nat :=
  if ob.kind.hasOther then ob.other else if ob.kind.isDelta then ob.refPos else none

def _root_.Midgard.Dataset.Obj.strip (ob : Obj) : Obj := { ob with other := none, refPos := none }

def _root_.Midgard.Dataset.Obj.withRef (ob : Obj) (r : Option Nat) : Obj :=
  if ob.kind.hasOther then { ob with other := r } else { ob with refPos := r }

/-! ### write -/

/-- `<array>._write(h5_group, memo)` into a group whose `fieldname` attribute is `p`.
The attribute is written as a reference by name when the object is known to the memo, else as an
embedded sub-group whose `fieldname` is the full name `p + [attr]` (after the `fix:`; it is the name
the memo gets *before* the recursive `_write`); finally `memo[id(self)] = fieldname`. -/
def writeArr (h : Heap) (u : Option (List String)) (l : Nat) : Nat → Nat → Path → WMemo → M (Grp × WMemo)
  | 0, _, _, _ => .error .fuel
  | fuel + 1, o, p, memo =>
    match h[o]? with
    | none => .error .dangling
    | some ob =>
      -- (`unit` and `write_level` are the attributes `FieldType.write` puts on the group of a field;
      -- an embedded group has neither: `none` / 3 stand for "absent")
      let a : GAttrs := { fieldname := p, src := o, unit := u, level := l }
      match attrName ob.kind with
      | none => .ok (.mk a (some ob.strip) [], memo)
      | some nm =>
        match ob.ref with
        | none => .ok (.mk a (some ob.strip) [], (o, p) :: memo)
        | some x =>
          match memo.lookup x with
          | some name => .ok (.mk { a with ref := some name } (some ob.strip) [], (o, p) :: memo)
          | none =>
            match writeArr h none 3 fuel x (p ++ [nm]) ((x, p ++ [nm]) :: memo) with
            | .error e => .error e
            | .ok (g, memo') => .ok (.mk a (some ob.strip) [(nm, g)], (o, p) :: memo')

def Field.level : Field → Nat
  | .leaf _ _ _ _ _ l => l
  | .coll _ _ l _ => l

/-- `same_as = memo.get(id(self.data))`, taken when it is `not None and != fieldname` (`FieldType.write`, after the
`fix:`): the memo of `_construct_memo` names, for an array held by several written fields, the last of them -/
def aliasOf (memo : WMemo) (o : Nat) (p : Path) : Option Path :=
  match memo.lookup o with
  | some name => if name == p then none else some name
  | none => none

/-- `FieldType.write` / `CollectionField.write` of one field into the group `pre + [name]` -/
def writeField (h : Heap) (lvl : Nat) : Field → Path → WMemo → M (Grp × WMemo)
  | .leaf nm _ o _ u l, pre, memo =>
    match aliasOf memo o (pre ++ [nm]) with
    | some name =>
      -- the array is (also) the array of the written field `name`: stored there, this group only says so
      .ok (.mk { fieldname := pre ++ [nm], src := o, unit := u, level := l, sameAs := some name } none [], memo)
    | none =>
    match writeArr h u l (h.length + 1) o (pre ++ [nm]) memo with
    | .error e => .error e
    | .ok (g, memo') =>
      -- `if id(self.data) not in memo: memo[id(self.data)] = fieldname`
      .ok (g, if (memo'.lookup o).isNone then (o, pre ++ [nm]) :: memo' else memo')
  | .coll nm _ l fs, pre, memo =>
    match writeFields fs (pre ++ [nm]) memo with
    | .error e => .error e
    | .ok (subs, mem, memo') => .ok (.mk { fieldname := [nm], level := l, members := mem } none subs, memo')
where
  /-- the loop over the fields of a collection: only `write_level >= lvl` -/
  writeFields : List Field → Path → WMemo → M (List (String × Grp) × List (String × Option Kind) × WMemo)
    | [], _, memo => .ok ([], [], memo)
    | f :: fs, pre, memo =>
      if Field.level f < lvl then writeFields fs pre memo else
      match writeField h lvl f pre memo with
      | .error e => .error e
      | .ok (g, memo1) =>
        match writeFields fs pre memo1 with
        | .error e => .error e
        | .ok (subs, mem, memo2) =>
          let ty : Option Kind := match f with
            | .leaf _ k _ _ _ _ => some k
            | .coll .. => none
          .ok ((f.name, g) :: subs, (f.name, ty) :: mem, memo2)

/-- `Dataset._construct_memo` (after the `fix:`: only the fields that will be written, with their full
names, collections recursively); a later field of the same object wins -/
def constructMemo (lvl : Nat) : List Field → Path → WMemo → WMemo
  | [], _, memo => memo
  | f :: fs, pre, memo =>
    if Field.level f < lvl then constructMemo lvl fs pre memo else
    match f with
    | .leaf nm _ o _ _ _ => constructMemo lvl fs pre ((o, pre ++ [nm]) :: memo)
    | .coll nm _ _ sub => constructMemo lvl fs pre (constructMemo lvl sub (pre ++ [nm]) memo)

/-- `Dataset.write(path, write_level)` -/
def writeDS (h : Heap) (d : DS) (lvl : Nat) : M File :=
  match writeField.writeFields h lvl d.fields [] (constructMemo lvl d.fields [] []) with
  | .error e => .error e
  | .ok (groups, mem, _) => .ok { numObs := d.numObs, members := mem, groups := groups }

/-! ### read -/

structure RSt where
  heap : Heap := []
  memo : List (Path × Nat) := []
  /-- the `time` attribute of the objects made so far (`Model/H5Time.lean`; the functions of this file never look at it) -/
  tm : List (Option Nat) := []
  deriving Repr, Inhabited

def RSt.alloc (s : RSt) (o : Obj) : Nat × RSt := (s.heap.length, { s with heap := s.heap ++ [o], tm := s.tm ++ [none] })
def RSt.set (s : RSt) (k : Path) (v : Nat) : RSt := { s with memo := (k, v) :: s.memo }

/-- `h5_file["a/b/c"]` -/
def lookupGrp : List (String × Grp) → Path → Option Grp
  | _, [] => none
  | gs, n :: rest =>
    match gs.lookup n with
    | none => none
    | some g => if rest.isEmpty then some g else lookupGrp g.subs rest

/-- kinds whose `_read` registers the array it has made in the memo under the group's `fieldname`
(`TimeBase._read`, `PositionArray._read`, `PositionDeltaArray._read`; the plain kinds and sigma do not) -/
def _root_.Midgard.Dataset.Kind.registers (k : Kind) : Bool :=
  k == .time || k == .timeDelta || (attrName k).isSome

/-- where `_read` finds the attribute `nm` of a group: a reference by name (the group of that name,
looked up from the top of the file) or the embedded sub-group `nm`, whose memo name is
`fieldname + [nm]` -/
def refTarget (file : File) (a : GAttrs) (subs : List (String × Grp)) (nm : String) : Option (Path × Option Grp) :=
  match a.ref with
  | some name => some (name, lookupGrp file.groups name)
  | none => match subs.lookup nm with
    | some g => some (a.fieldname ++ [nm], some g)
    | none => none

/-- `if name in memo: memo[name] else: obj = <Array>._read(group, memo); memo[name] = obj` -/
def readRef (rd : Grp → RSt → M (Nat × RSt)) (target : Option (Path × Option Grp)) (s : RSt) : M (Option Nat × RSt) :=
  match target with
  | none => .ok (none, s)
  | some (name, og) =>
    match s.memo.lookup name with
    | some o => .ok (some o, s)
    | none =>
      match og with
      | none => .error .attribute          -- KeyError
      | some g =>
        match rd g s with
        | .error e => .error e
        | .ok (o, s') => .ok (some o, s'.set name o)

/-- `<Array>._read(h5_group, memo)`.  The attribute is a reference by name (looked up from the top of
the file when the memo does not know it yet) or an embedded sub-group (read unless the memo already
knows `fieldname + [attr]`); the array itself is registered under its `fieldname`. -/
def readArr (file : File) : Nat → Grp → RSt → M (Nat × RSt)
  | 0, _, _ => .error .fuel
  | fuel + 1, .mk a payload subs, s =>
    match payload with
    | none => .error .dangling
    | some ob =>
      match attrName ob.kind with
      | none =>
        let (o, s1) := s.alloc ob
        -- `TimeBase._read` registers the object under its field name; the plain kinds do not
        .ok (o, if ob.kind == .time || ob.kind == .timeDelta then s1.set a.fieldname o else s1)
      | some nm =>
        match readRef (readArr file fuel) (refTarget file a subs nm) s with
        | .error e => .error e
        | .ok (r, s1) =>
          if ob.kind.isDelta && r.isNone then .error .unsupported else   -- a delta needs its ref_pos
          let (o, s2) := s1.alloc (ob.withRef r)
          .ok (o, s2.set a.fieldname o)

/-- `unit`: `""` and tuples of empty strings read back as None (`if not any(field._unit)`) -/
def readUnit : Option (List String) → Option (List String)
  | none => none
  | some us => if us.any (fun u => !u.isEmpty) then some us else none

/-- `name.split(".")[-1]` -/
def lastName (p : Path) : String := p.getLastD ""

/-- the loop of `CollectionField.read` over the `fields` attribute: `h5_group[fieldname]` each -/
def readMembers (rd : Option Kind → Grp → RSt → M (Field × RSt)) :
    List (String × Option Kind) → List (String × Grp) → RSt → M (List Field × RSt)
  | [], _, s => .ok ([], s)
  | (nm, ty) :: rest, subs, s =>
    match subs.lookup nm with
    | none => .error .attribute
    | some g =>
      match rd ty g s with
      | .error e => .error e
      | .ok (f, s1) =>
        match readMembers rd rest subs s1 with
        | .error e => .error e
        | .ok (fs, s2) => .ok (f :: fs, s2)

/-- `<FieldType>._read(h5_group, memo).data`: `if name in memo: memo[name] else <Array>._read(h5_group, memo)` -/
def fieldRead (file : File) (fa : Nat) (g : Grp) (s : RSt) : M (Nat × RSt) :=
  match s.memo.lookup g.attrs.fieldname with
  | some o => .ok (o, s)
  | none => readArr file fa g s

/-- the `same_as` part of `FieldType.read` (after the `fix:`): the field named there is read first unless the memo
knows it (`memo[same_as] = <its type>._read(file[same_as], memo).data`), then `memo[fieldname] = memo[same_as]` -/
def resolveAlias (file : File) (fa : Nat) (a : GAttrs) (s : RSt) : M RSt :=
  match a.sameAs with
  | none => .ok s
  | some name =>
    match s.memo.lookup name with
    | some o => .ok (s.set a.fieldname o)
    | none =>
      match lookupGrp file.groups name with
      | none => .error .attribute
      | some g =>
        match fieldRead file fa g s with
        | .error e => .error e
        | .ok (o, s') => .ok ((s'.set name o).set a.fieldname o)

/-- `FieldType.read` / `CollectionField.read`; `fa` bounds the length of reference chains, the second
argument the nesting depth of collections -/
def readField (file : File) (fa : Nat) : Nat → Option Kind → Grp → RSt → M (Field × RSt)
  | 0, _, _, _ => .error .fuel
  | _ + 1, some k, .mk a p subs, s0 =>
    match resolveAlias file fa a s0 with
    | .error e => .error e
    | .ok s =>
    -- `if name in memo: val = memo[name] else: val = <Array>._read(h5_group, memo)`
    let r : M (Nat × RSt) := match s.memo.lookup a.fieldname with
      | some o => .ok (o, s)
      | none => readArr file fa (.mk a p subs) s
    match r with
    | .error e => .error e
    | .ok (o, s') => .ok (.leaf (lastName a.fieldname) k o (objLen s'.heap o) (readUnit a.unit) a.level, s')
  | depth + 1, none, .mk a _ subs, s =>
    match readMembers (readField file fa depth) a.members subs s with
    | .error e => .error e
    | .ok (fs, s') => .ok (.coll (lastName a.fieldname) file.numObs a.level fs, s')

/-- after a top-level field: `memo[fieldname] = field.data` -/
def regTop (nm : String) (f : Field) (s : RSt) : RSt :=
  match f with
  | .leaf _ _ o _ _ _ => s.set [nm] o
  | .coll .. => s

/-- `Dataset.read(path)`: the fields in the order of the `fields` attribute -/
def readTop (file : File) (fa fd : Nat) : List (String × Option Kind) → RSt → M (List Field × RSt)
  | [], s => .ok ([], s)
  | (nm, ty) :: rest, s =>
    match file.groups.lookup nm with
    | none => .error .attribute
    | some g =>
      match readField file fa fd ty g s with
      | .error e => .error e
      | .ok (f, s1) =>
        match readTop file fa fd rest (regTop nm f s1) with
        | .error e => .error e
        | .ok (fs, s3) => .ok (f :: fs, s3)

/-- `Dataset.read`; the two bounds only have to be large enough (`read_write`) -/
def readDS (fa fd : Nat) (file : File) : M (Heap × DS) :=
  match readTop file fa fd file.members {} with
  | .error e => .error e
  | .ok (fs, s) => .ok (s.heap, { numObs := file.numObs, fields := fs })

/-- the dataset one expects back: the fields (recursively) whose write level is at least `lvl` -/
def restrictFields (lvl : Nat) : List Field → List Field
  | [] => []
  | f :: fs =>
    if Field.level f < lvl then restrictFields lvl fs else
    match f with
    | .leaf .. => f :: restrictFields lvl fs
    | .coll nm no l sub => .coll nm no l (restrictFields lvl sub) :: restrictFields lvl fs

/-! ### the round trip as the driver runs it, and which datasets "can be written" -/

/-- nesting depth of a field list (a leaf counts 1, a collection 1 + its contents) -/
def fieldsDepth : List Field → Nat
  | [] => 0
  | .leaf .. :: fs => max 1 (fieldsDepth fs)
  | .coll _ _ _ sub :: fs => max (fieldsDepth sub + 1) (fieldsDepth fs)

/-- `Dataset.read` of the file written for `d` out of heap `h`: the two recursion bounds of the model are
the number of objects (no reference chain is longer) and the nesting depth of the collections -/
def readBack (h : Heap) (d : DS) (file : File) : M (Heap × DS) :=
  readDS (h.length + 1) (fieldsDepth d.fields + 1) file

def _root_.Midgard.Dataset.Obj.normal (ob : Obj) : Bool :=
  (ob.kind.hasOther || ob.other.isNone) && (ob.kind.isDelta || ob.refPos.isNone)

/-- one array object: only the attribute of its class is set; a delta has its `ref_pos`; the attached
object is older (objects are immutable: it existed when this one was made) and of a class that
registers itself on `_read` (time, position, posvel and the deltas) -/
def objOK (h : Heap) (o : Nat) (ob : Obj) : Bool :=
  ob.normal && (!ob.kind.isDelta || ob.ref.isSome) &&
  match ob.ref with
  | none => true
  | some x => decide (x < o) && match h[x]? with
    | some t => t.kind.registers
    | none => false

def heapOK (h : Heap) : Bool :=
  (List.range h.length).all (fun o => match h[o]? with
    | some ob => objOK h o ob
    | none => true)

/-- a unit is absent or has a non-empty component (`("", "")` is read back as no unit) -/
def unitOK : Option (List String) → Bool
  | none => true
  | some us => us.any (fun u => !u.isEmpty)

/-- every field has its array, `num_obs` rows as it declares; a collection declares the `num_obs` of the
dataset -/
def fieldsOK (h : Heap) (n : Nat) : List Field → Bool
  | [] => true
  | .leaf _ _ o no u _ :: fs => decide (o < h.length) && no == objLen h o && unitOK u && fieldsOK h n fs
  | .coll _ no _ sub :: fs => no == n && fieldsOK h n sub && fieldsOK h n fs

/-- field names are unique in the dataset and in every collection (they are dict keys) -/
def namesOK : List Field → Bool
  | [] => true
  | .leaf nm .. :: fs => !(names fs).contains nm && namesOK fs
  | .coll nm _ _ sub :: fs => !(names fs).contains nm && namesOK sub && namesOK fs

/-- the array objects of the fields, collections flattened, in field order -/
def leafObjs : List Field → List Nat
  | [] => []
  | .leaf _ _ o _ _ _ :: fs => o :: leafObjs fs
  | .coll _ _ _ sub :: fs => leafObjs sub ++ leafObjs fs

def nodupB : List Nat → Bool
  | [] => true
  | x :: xs => !xs.contains x && nodupB xs

/-- **"a dataset that can be written"** at level `lvl`, as a decidable predicate of the model: the heap is
well formed (`heapOK`), and the fields that will be written are well formed (`fieldsOK`), have unique
names and are pairwise different array objects (one array object held by two fields is written twice
and read back as two objects: that sharing is outside the statement) -/
def writableB (h : Heap) (d : DS) (lvl : Nat) : Bool :=
  heapOK h && fieldsOK h d.numObs (restrictFields lvl d.fields) && namesOK (restrictFields lvl d.fields) &&
    nodupB (leafObjs (restrictFields lvl d.fields))

def Writable (h : Heap) (d : DS) (lvl : Nat) : Prop := writableB h d lvl = true

/-- **"a dataset that can be written"**, arrays shared between fields included: as `writableB` without the clause
"pairwise different array objects" (since the `fix:` an array held by several fields is stored once) -/
def writableSB (h : Heap) (d : DS) (lvl : Nat) : Bool :=
  heapOK h && fieldsOK h d.numObs (restrictFields lvl d.fields) && namesOK (restrictFields lvl d.fields)

def WritableS (h : Heap) (d : DS) (lvl : Nat) : Prop := writableSB h d lvl = true

instance (h : Heap) (d : DS) (lvl : Nat) : Decidable (WritableS h d lvl) :=
  inferInstanceAs (Decidable (writableSB h d lvl = true))

instance (h : Heap) (d : DS) (lvl : Nat) : Decidable (Writable h d lvl) :=
  inferInstanceAs (Decidable (writableB h d lvl = true))

end Midgard.H5
