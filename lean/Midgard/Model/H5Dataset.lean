/-
C10 — model of `Dataset.write` / `Dataset.read` over an abstract HDF5 store.

The file is a tree of groups; a group has the attributes the dataset code writes, at most one array
payload (the HDF5 datasets `<fieldname>` (+ `sigma`) / `jd1`+`jd2` of the group, kept as the rows of
one `Obj`) and named sub-groups.  `write` follows `Dataset.write`, `FieldType.write`,
`CollectionField.write` and the `_write` of the array classes with the memo `id(object) ↦ field
name`; `read` follows `Dataset.read`, `FieldType.read`, `CollectionField.read` and the `_read`s with the
memo `field name ↦ object`.  h5py/HDF5 themselves (that a group gives back what was put into it) are
the modelled-not-verified part; the attribute texts go through `Model/H5Attr.lean`.
-/
import Midgard.Model.DatasetOps
import Midgard.Model.H5Attr

namespace Midgard.H5
open Midgard.Dataset

/-- the attributes of a group that matter for the round trip -/
structure GAttrs where
  fieldname : String := ""
  unit : Option (List String) := none        -- `unit` (`""` for None, else the encoded tuple)
  level : Nat := 3                           -- `write_level`
  other : Option String := none              -- reference to another field's data by name
  refPos : Option String := none
  members : List (String × Option Kind) := []  -- the `fields` dict of a collection (none = collection)
  deriving Repr, Inhabited

inductive Grp
  | mk (a : GAttrs) (payload : Option Obj) (subs : List (String × Grp))
  deriving Repr, Inhabited

def Grp.attrs : Grp → GAttrs | .mk a _ _ => a
def Grp.payload : Grp → Option Obj | .mk _ p _ => p
def Grp.subs : Grp → List (String × Grp) | .mk _ _ s => s

structure File where
  numObs : Nat := 0
  members : List (String × Option Kind) := []
  groups : List (String × Grp) := []
  deriving Repr, Inhabited

abbrev WMemo := List (Nat × String)

def dotted (pre nm : String) : String := if pre.isEmpty then nm else pre ++ "." ++ nm

/-! ### write -/

/-- one attribute (`other` / `ref_pos`) of `PositionArray._write` & co.: a reference by name when the
object is known to the memo, else an embedded sub-group `a` whose `fieldname` is the full dotted name
`"<fieldname>.<a>"` (after the `fix:`; it is also the name the memo gets *before* the recursive
`_write`, and the name the array inside the sub-group is stored under). -/
def writeAttr (rec : Nat → String → WMemo → M (Grp × WMemo)) (fieldname nm : String) (r : Option Nat)
    (memo : WMemo) : M (Option String × List (String × Grp) × WMemo) :=
  match r with
  | none => .ok (none, [], memo)
  | some a =>
    match memo.lookup a with
    | some name => .ok (some name, [], memo)
    | none =>
      match rec a (dotted fieldname nm) ((a, dotted fieldname nm) :: memo) with
      | .error e => .error e
      | .ok (g, memo') => .ok (none, [(nm, g)], memo')

/-- `<array>._write(h5_group, memo)` into a group whose `fieldname` attribute is `fieldname` -/
def writeArr (h : Heap) : Nat → Nat → String → WMemo → M (Grp × WMemo)
  | 0, _, _, _ => .error .fuel
  | fuel + 1, o, fieldname, memo =>
    match h[o]? with
    | none => .error .dangling
    | some ob =>
      let payload : Obj := { ob with other := none, refPos := none }
      if !(ob.kind.hasOther || ob.kind.isDelta) then
        .ok (.mk { fieldname := fieldname } (some payload) [], memo)
      else
        match (if ob.kind.hasOther then writeAttr (writeArr h fuel) fieldname "other" ob.other memo
               else .ok (none, [], memo)) with
        | .error e => .error e
        | .ok (oth, subs1, memo1) =>
          match (if ob.kind.isDelta then writeAttr (writeArr h fuel) fieldname "ref_pos" ob.refPos memo1
                 else .ok (none, [], memo1)) with
          | .error e => .error e
          | .ok (rp, subs2, memo2) =>
            -- `memo[id(self)] = h5_group.attrs["fieldname"]`
            .ok (.mk { fieldname := fieldname, other := oth, refPos := rp } (some payload) (subs1 ++ subs2),
                 (o, fieldname) :: memo2)

def Field.level : Field → Nat
  | .leaf _ _ _ _ _ l => l
  | .coll _ _ l _ => l

/-- `FieldType.write` / `CollectionField.write` of one field into the group `pre.name` -/
def writeField (h : Heap) (lvl : Nat) : Field → String → WMemo → M (Grp × WMemo)
  | .leaf nm _ o _ u l, pre, memo =>
    let fieldname := dotted pre nm
    match writeArr h (h.length + 1) o fieldname memo with
    | .error e => .error e
    | .ok (.mk a p subs, memo') =>
      let memo'' := if (memo'.lookup o).isNone then (o, fieldname) :: memo' else memo'
      .ok (.mk { a with unit := u, level := l } p subs, memo'')
  | .coll nm _ l fs, pre, memo =>
    match writeFields fs (dotted pre nm) memo with
    | .error e => .error e
    | .ok (subs, mem, memo') => .ok (.mk { fieldname := nm, level := l, members := mem } none subs, memo')
where
  /-- the loop over the fields of a collection: only `write_level >= lvl` -/
  writeFields : List Field → String → WMemo → M (List (String × Grp) × List (String × Option Kind) × WMemo)
    | [], _, memo => .ok ([], [], memo)
    | f :: fs, pre, memo =>
      if Field.level f < lvl then writeFields fs pre memo else
      match writeField h lvl f pre memo with
      | .error e => .error e
      | .ok (g, memo1) =>
        match writeFields fs pre memo1 with
        | .error e => .error e
        | .ok (subs, mem, memo2) =>
          let ty : Option Kind := match f with
            | .leaf _ k _ _ _ _ => some k
            | .coll .. => none
          .ok ((f.name, g) :: subs, (f.name, ty) :: mem, memo2)

/-- `Dataset._construct_memo` (after the `fix:`: only the fields that will be written, with their full
dotted names, collections recursively); a later field of the same object wins -/
def constructMemo (lvl : Nat) : List Field → String → WMemo → WMemo
  | [], _, memo => memo
  | f :: fs, pre, memo =>
    if Field.level f < lvl then constructMemo lvl fs pre memo else
    match f with
    | .leaf nm _ o _ _ _ => constructMemo lvl fs pre ((o, dotted pre nm) :: memo)
    | .coll nm _ _ sub => constructMemo lvl fs pre (constructMemo lvl sub (dotted pre nm) memo)

/-- `Dataset.write(path, write_level)` -/
def writeDS (h : Heap) (d : DS) (lvl : Nat) : M File :=
  match writeField.writeFields h lvl d.fields "" (constructMemo lvl d.fields "" []) with
  | .error e => .error e
  | .ok (groups, mem, _) => .ok { numObs := d.numObs, members := mem, groups := groups }

/-! ### read -/

structure RSt where
  heap : Heap := []
  memo : List (String × Nat) := []
  deriving Repr, Inhabited

def RSt.alloc (s : RSt) (o : Obj) : Nat × RSt := (s.heap.length, { s with heap := s.heap ++ [o] })
def RSt.set (s : RSt) (k : String) (v : Nat) : RSt := { s with memo := (k, v) :: s.memo }

/-- `h5_file["a/b/c"]` -/
def lookupGrp : List (String × Grp) → List String → Option Grp
  | _, [] => none
  | gs, [n] => gs.lookup n
  | gs, n :: rest =>
    match gs.lookup n with
    | some (.mk _ _ subs) => lookupGrp subs rest
    | none => none

/-- one attribute of `PositionArray._read` & co. (after the `fix:` the named field is looked up from
the top of the file) -/
def readAttr (file : File) (rec : Grp → RSt → M (Nat × RSt)) (fieldname nm : String) (ref : Option String)
    (subs : List (String × Grp)) (s : RSt) : M (Option Nat × RSt) :=
  match ref with
  | some name =>
    match s.memo.lookup name with
    | some o => .ok (some o, s)
    | none =>
      match lookupGrp file.groups (name.splitOn ".") with
      | none => .error .attribute          -- KeyError
      | some g =>
        match rec g s with
        | .error e => .error e
        | .ok (o, s') => .ok (some o, s'.set name o)
  | none =>
    match subs.lookup nm with
    | some g =>
      match rec g s with
      | .error e => .error e
      | .ok (o, s') => .ok (some o, s'.set (dotted fieldname nm) o)
    | none => .ok (none, s)

/-- `<Array>._read(h5_group, memo)` -/
def readArr (file : File) : Nat → Grp → RSt → M (Nat × RSt)
  | 0, _, _ => .error .fuel
  | fuel + 1, .mk a payload subs, s =>
    match payload with
    | none => .error .dangling
    | some ob =>
      if ob.kind.hasOther || ob.kind.isDelta then
        match (if ob.kind.hasOther then readAttr file (readArr file fuel) a.fieldname "other" a.other subs s
               else .ok (none, s)) with
        | .error e => .error e
        | .ok (oth, s1) =>
          match (if ob.kind.isDelta then readAttr file (readArr file fuel) a.fieldname "ref_pos" a.refPos subs s1
                 else .ok (none, s1)) with
          | .error e => .error e
          | .ok (rp, s2) =>
            if ob.kind.isDelta && rp.isNone then .error .unsupported else   -- a delta needs its ref_pos
            let (o, s3) := s2.alloc { ob with other := oth, refPos := rp }
            .ok (o, s3.set a.fieldname o)
      else
        let (o, s1) := s.alloc ob
        -- `TimeBase._read` registers the object under its field name; the plain kinds do not
        .ok (o, if ob.kind == .time || ob.kind == .timeDelta then s1.set a.fieldname o else s1)

/-- `unit`: `""` and tuples of empty strings read back as None (`if not any(field._unit)`) -/
def readUnit : Option (List String) → Option (List String)
  | none => none
  | some us => if us.any (fun u => !u.isEmpty) then some us else none

def lastName (s : String) : String := (s.splitOn ".").getLastD s

def lookupSub : List (String × Grp) → String → Option Grp
  | [], _ => none
  | (n, g) :: r, nm => if n == nm then some g else lookupSub r nm

/-- the loop of `CollectionField.read` over the `fields` attribute: `h5_group[fieldname]` each -/
def readMembers (rd : Option Kind → Grp → RSt → M (Field × RSt)) :
    List (String × Option Kind) → List (String × Grp) → RSt → M (List Field × RSt)
  | [], _, s => .ok ([], s)
  | (nm, ty) :: rest, subs, s =>
    match lookupSub subs nm with
    | none => .error .attribute
    | some g =>
      match rd ty g s with
      | .error e => .error e
      | .ok (f, s1) =>
        match readMembers rd rest subs s1 with
        | .error e => .error e
        | .ok (fs, s2) => .ok (f :: fs, s2)

/-- `FieldType.read` / `CollectionField.read` (the first argument bounds the nesting depth) -/
def readField (file : File) : Nat → Option Kind → Grp → RSt → M (Field × RSt)
  | 0, _, _, _ => .error .fuel
  | _ + 1, some k, .mk a p subs, s =>
    -- `if name in memo: val = memo[name] else: val = <Array>._read(h5_group, memo)`
    let r : M (Nat × RSt) := match s.memo.lookup a.fieldname with
      | some o => .ok (o, s)
      | none => readArr file (file.groups.length + 1 + 64) (.mk a p subs) s
    match r with
    | .error e => .error e
    | .ok (o, s') => .ok (.leaf (lastName a.fieldname) k o (objLen s'.heap o) (readUnit a.unit) a.level, s')
  | depth + 1, none, .mk a _ subs, s =>
    match readMembers (readField file depth) a.members subs s with
    | .error e => .error e
    | .ok (fs, s') => .ok (.coll a.fieldname file.numObs a.level fs, s')

/-- `Dataset.read(path)`: the fields in the order of the `fields` attribute; after each one
`memo[fieldname] = field.data` -/
def readTop (file : File) : List (String × Option Kind) → RSt → M (List Field × RSt)
  | [], s => .ok ([], s)
  | (nm, ty) :: rest, s =>
    match file.groups.lookup nm with
    | none => .error .attribute
    | some g =>
      match readField file 64 ty g s with
      | .error e => .error e
      | .ok (f, s1) =>
        let s2 := match f with
          | .leaf _ _ o _ _ _ => s1.set nm o
          | .coll .. => s1
        match readTop file rest s2 with
        | .error e => .error e
        | .ok (fs, s3) => .ok (f :: fs, s3)

def readDS (file : File) : M (Heap × DS) :=
  match readTop file file.members {} with
  | .error e => .error e
  | .ok (fs, s) => .ok (s.heap, { numObs := file.numObs, fields := fs })

/-- the dataset one expects back: the fields (recursively) whose write level is at least `lvl` -/
def restrictFields (lvl : Nat) : List Field → List Field
  | [] => []
  | f :: fs =>
    if Field.level f < lvl then restrictFields lvl fs else
    match f with
    | .leaf .. => f :: restrictFields lvl fs
    | .coll nm no l sub => .coll nm no l (restrictFields lvl sub) :: restrictFields lvl fs

end Midgard.H5
