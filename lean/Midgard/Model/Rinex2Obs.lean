/-
C11 — model of `midgard.parsers.rinex2_obs.Rinex2Parser` (on `Model/ChainParser.lean`).

Header handlers, the label heuristics of the observation block, the epoch record with its
satellite-list continuation lines and the 2-digit year resolution, the observation records with
their per-epoch cache (five observations per line, a satellite is complete after
`ceil(n/5)` lines), the post-processors.  The model mirrors the code *after* the `fix:` commits of
this property: a satellite-list continuation line may end after a single blank-system satellite; the
sampling test compares with the nearest grid point; an all-blank line inside an epoch whose satellite list is not yet used up is an
observation line whose five observations are missing.
-/
import Midgard.Model.RinexObs
import Midgard.Generated.Rinex2ObsCols

namespace Midgard.Rinex2Obs
open Midgard.Text Midgard.FixedCol Midgard.ChainParser Midgard.Decimal Midgard.RinexObs

structure Cache where
  /-- `cache["sat_list"]`: satellites of the epoch not yet consumed -/
  satList : Option (List Str) := none
  epoch : Option EpochInfo := none
  numSat : Option Int := none
  lenSatList : Option Nat := none
  /-- `cache["obs_values"]`, `["cycle_slip"]`, `["signal_strength"]` of the satellite being read -/
  obsValues : Option Col := none
  cycleSlip : Option Col := none
  signalStrength : Option Col := none
  deriving Repr, DecidableEq

structure State where
  metaD : Meta := []
  data : Data := {}
  timeScale : String := "gps"
  rate : Option Rat := none
  cache : Cache := {}
  deriving Repr, DecidableEq

def getv (v : Values) (k : String) : Except Err Str := req (v.get k)

/-! ### Header handlers -/

def parseString (v : Values) (s : State) : State :=
  { s with metaD := v.foldl (fun m (k, t) => m.set [key k] (.text t)) s.metaD }

/-- `_parse_rinex_version_type`: a blank satellite system means GPS -/
def parseVersionType (v : Values) (s : State) : State :=
  let s1 := parseString v s
  match s1.metaD.get [key "sat_sys"] with
  | some (.text []) => { s1 with metaD := s1.metaD.set [key "sat_sys"] (.text ['G']) }
  | _ => s1

def parseFloatFields (v : Values) (s : State) : Except Err State := do
  let nums ← v.mapM fun (k, t) => do
    let q ← pyFloat t
    pure (k, q)
  pure { s with metaD := nums.foldl (fun m (k, q) => m.set [key k] (.num q)) s.metaD }

def parseIntegerFields (v : Values) (s : State) : Except Err State := do
  let nums ← v.mapM fun (k, t) => do
    let i ← pyInt t
    pure (k, i)
  pure { s with metaD := nums.foldl (fun m (k, i) => m.set [key k] (.int i)) s.metaD }

def parseComment (v : Values) (s : State) : Except Err State := do
  let t ← getv v "comment"
  let old := match s.metaD.get [key "comment"] with
    | some (.list l) => l
    | _ => []
  pure { s with metaD := s.metaD.set [key "comment"] (.list (old ++ [t])) }

def parseApproxPosition (v : Values) (s : State) : Except Err State := do
  let x ← pyFloat (← getv v "pos_x")
  let y ← pyFloat (← getv v "pos_y")
  let z ← pyFloat (← getv v "pos_z")
  parseFloatFields v { s with data := { s.data with pos := some [x, y, z] } }

def parseLeapSeconds (v : Values) (s : State) : State :=
  { s with metaD := v.foldl (fun m (k, t) => m.set [key "leap_seconds", key k] (.text t)) s.metaD }

def timeString (v : Values) : Except Err Str := do
  let y ← pyInt (← getv v "year")
  let mo ← pyInt (← getv v "month")
  let d ← pyInt (← getv v "day")
  let h ← pyInt (← getv v "hour")
  let mi ← pyInt (← getv v "minute")
  let sec ← pyFloat (← getv v "second")
  pure (isoTime y mo d h mi sec)

/-- `_parse_time_of_first_obs` / `_parse_time_of_last_obs` -/
def parseTimeOf (which : String) (v : Values) (s : State) : Except Err State := do
  let ts ← getv v "time_sys"
  let m := if ts ≠ [] then s.metaD.set [key "time_sys"] (.text ts) else s.metaD
  let y ← getv v "year"
  if y ≠ [] then do
    let t ← timeString v
    pure { s with metaD := m.set [key which] (.text t) }
  else pure { s with metaD := m }

/-- `_parse_types_of_observ` -/
def parseTypesOfObserv (v : Values) (s : State) : Except Err State := do
  let n ← getv v "num_obstypes"
  let m0 ← if n ≠ [] then do
      let i ← pyInt n
      pure ((s.metaD.set [key "num_obstypes"] (.int i)).set [key "obstypes"] (.list []))
    else pure s.metaD
  let step (acc : Except Err State) (f : String × Str) : Except Err State := do
    let st ← acc
    if f.2 = [] then pure st else
      match st.metaD.get [key "obstypes"] with
      | some (.list l) =>
        pure { st with metaD := st.metaD.set [key "obstypes"] (.list (l ++ [f.2])), data := st.data.declareType f.2 }
      | _ => throw .other
  (fieldsWithPrefix v "type_").foldl step (pure { s with metaD := m0, data := { s.data with hasObs := true } })

/-- `_parse_wavelength_fact` -/
def parseWavelengthFact (v : Values) (s : State) : Except Err State := do
  let n ← getv v "num_satellite"
  let l1 ← getv v "l1_wave_fact"
  let l2 ← getv v "l2_wave_fact"
  let m0 :=
    if n ≠ [] then
      ((s.metaD.set [key "l1_wave_fact_prn"] (.text l1)).set [key "l2_wave_fact_prn"] (.text l2)).set [key "wave_fact_prn"] (.list [])
    else (s.metaD.set [key "l1_wave_fact_default"] (.text l1)).set [key "l2_wave_fact_default"] (.text l2)
  let step (acc : Except Err Meta) (f : String × Str) : Except Err Meta := do
    let m ← acc
    if f.2 = [] then pure m else
      match m.get [key "wave_fact_prn"] with
      | some (.list l) => pure (m.set [key "wave_fact_prn"] (.list (l ++ [f.2])))
      | _ => throw .other
  let m ← (fieldsWithPrefix v "prn_").foldl step (pure m0)
  pure { s with metaD := m }

/-! ### Observation records -/

def isNumeric (s : Str) : Bool := !s.isEmpty && s.all isDigit

/-- one 16-character field of an observation line: `_float` of value, LLI and signal strength -/
def obsStep (acc : Except Err (Col × Col × Col)) (f : String × Str) : Except Err (Col × Col × Col) := do
  let (o, c, g) ← acc
  let w := ljust 16 f.2
  let val ← floatOpt (Text.slice 0 14 w)
  let lli ← floatOpt (Text.slice 14 15 w)
  let snr ← floatOpt (Text.slice 15 16 w)
  pure (o ++ [val], c ++ [lli], g ++ [snr])

/-- `_parse_observation` after the fields of the line are read: the satellite is complete when at least
`num_obstypes` values are collected, otherwise they are kept in the cache -/
def afterLine (e : EpochInfo) (o c g : Col) (s : State) : Except Err State := do
  let n ← match s.metaD.get [key "num_obstypes"] with
    | some (.int i) => pure i
    | _ => throw .other
  if (o.length : Int) ≥ n then do
    let sats ← req s.cache.satList
    match sats with
    | [] => throw .other
    | sat :: rest =>
      let sy ← req (sat.head?.map fun ch => [ch])
      let num ← pyInt (sat.drop 1)
      let types ← match s.metaD.get [key "obstypes"] with
        | some (.list l) => pure l
        | _ => throw .other
      let d1 ← appendAll s.data ((types.zip (o.zip (c.zip g))).map fun (t, (a, (b, z))) => (t, a, b, z))
      let station ← match s.metaD.get [key "marker_name"] with
        | some (.text t) => pure (lower t)
        | _ => throw .other
      pure { s with data := d1.appendRow e station sy sat (fmtInt num),
                    cache := { s.cache with satList := some rest, obsValues := none, cycleSlip := none, signalStrength := none } }
  else pure { s with cache := { s.cache with obsValues := some o, cycleSlip := some c, signalStrength := some g } }

/-- `_parse_observation` -/
def parseObservation (v : Values) (s : State) : Except Err State := do
  let e ← req s.cache.epoch
  match e.obsSec with
  | none => pure s
  | some _ =>
    let (o, c, g) ← (fieldsWithPrefix v "obs_").foldl obsStep
      (pure (s.cache.obsValues.getD [], s.cache.cycleSlip.getD [], s.cache.signalStrength.getD []))
    afterLine e o c g s

def blankObsValues : Values := [("obs_1", []), ("obs_2", []), ("obs_3", []), ("obs_4", []), ("obs_5", [])]

/-- the satellite as the parser names it: `sat[0].replace(" ","G") + sat[1].replace(" ","0") + sat[2]` -/
def normSat3 (a b c : Char) : Str := [if a = ' ' then 'G' else a, if b = ' ' then '0' else b, c]

/-- `for i in range(0, len(sat_list), 3): sat = sat_list[i:i+3].rstrip(); …`, three columns at a time -/
def satsOfAux : Nat → Str → List Str → Except Err (List Str)
  | 0, _, acc => pure acc
  | fuel + 1, s, acc =>
    if s.isEmpty then pure acc else
    match rstrip (s.take 3) with
    | [] => satsOfAux fuel (s.drop 3) acc
    | [a, b, c] => satsOfAux fuel (s.drop 3) (acc ++ [normSat3 a b c])
    | _ => throw .other

/-- satellite identifiers of a 36-column list -/
def satsOf (satList : Str) : Except Err (List Str) := satsOfAux satList.length satList []

/-- `_parse_observation_epoch` (every line of the observation block that is not labelled an observation line) -/
def parseObservationEpoch (v : Values) (s : State) : Except Err State := do
  let year := strip (← getv v "year")
  let satList ← getv v "sat_list"
  if !isNumeric year && satList.isEmpty then
    -- an all-blank line while satellites of the epoch are outstanding: five missing observations
    if (s.cache.satList.getD []) ≠ [] && v.all (fun (_, t) => isBlank t) then parseObservation blankObsValues s
    else pure s
  else do
  if ((Text.slice 28 29 satList).head?.map Char.isAlpha).getD false then pure s else do
  let c1 ← if year ≠ [] then do
      let first ← match s.metaD.get [key "time_first_obs"] with
        | some (.text t) => pure t
        | _ => throw .other
      let y ← pyInt (first.take 2 ++ zfill 2 year)
      let mo ← pyInt (← getv v "month")
      let d ← pyInt (← getv v "day")
      let h ← pyInt (← getv v "hour")
      let mi ← pyInt (← getv v "minute")
      let sec ← pyFloat (← getv v "second")
      let obsSec : Rat := (h : Rat) * 3600 + (mi : Rat) * 60 + sec
      let flag ← pyInt (← getv v "epoch_flag")
      let clk ← floatOpt (← getv v "rcv_clk_offset")
      let kept : Option Rat := match s.rate with
        | some r => if r ≠ 0 ∧ offGrid obsSec r then none else some obsSec
        | none => some obsSec
      let ns ← pyInt (← getv v "num_sat")
      let us := (datasetMicros y mo d h mi sec).getD 0
      pure { s.cache with satList := some [], epoch := some ⟨isoTime y mo d h mi sec, us, kept, flag, clk⟩, numSat := some ns }
    else pure s.cache
  let more ← satsOf satList
  let old ← if more = [] then pure (c1.satList.getD []) else req c1.satList
  let all := old ++ more
  pure { s with cache := { c1 with satList := if more = [] then c1.satList else some all, lenSatList := some all.length } }

def handle (name : String) (v : Values) (s : State) : Except Err State :=
  if name = "_parse_string" then pure (parseString v s)
  else if name = "_parse_rinex_version_type" then pure (parseVersionType v s)
  else if name = "_parse_comment" then parseComment v s
  else if name = "_parse_float" then parseFloatFields v s
  else if name = "_parse_integer" then parseIntegerFields v s
  else if name = "_parse_approx_position" then parseApproxPosition v s
  else if name = "_parse_leap_seconds" then pure (parseLeapSeconds v s)
  else if name = "_parse_time_of_first_obs" then parseTimeOf "time_first_obs" v s
  else if name = "_parse_time_of_last_obs" then parseTimeOf "time_last_obs" v s
  else if name = "_parse_types_of_observ" then parseTypesOfObserv v s
  else if name = "_parse_wavelength_fact" then parseWavelengthFact v s
  else if name = "_parse_observation_epoch" then parseObservationEpoch v s
  else if name = "_parse_observation" then parseObservation v s
  else throw .other

/-! ### The two `ParserDef`s -/

def headerParser : ParserDef State where
  endMarker := fun line _ _ => Text.slice 60 73 line = "END OF HEADER".toList
  skipLine := fun _ => false
  label := fun line _ => asString (strip (sliceFrom 60 line))
  defs := Midgard.Generated.Rinex2ObsCols.header
  handle := handle

def charAt (line : Str) (i : Nat) : Option Char := (Text.slice i (i + 1) line).head?

def alphaAt (line : Str) (i : Nat) : Bool := ((charAt line i).map Char.isAlpha).getD false
def digitAt (line : Str) (i : Nat) : Bool := ((charAt line i).map isDigit).getD false
def spaceAt (line : Str) (i : Nat) : Bool := ((charAt line i).map isSpace).getD false

/-- `not line[i:i+1].strip()`: a blank or the end of the line -/
def blankOrEndAt (line : Str) (i : Nat) : Bool := isBlank (Text.slice i (i + 1) line)

/-- Python `s.isspace()`: non-empty and all whitespace -/
def pyIsSpace (s : Str) : Bool := !s.isEmpty && isBlank s

/-- the label heuristic: `True` = observation line -/
def obsLabel (line : Str) : String :=
  if (charAt line 10 = some '.' || pyIsSpace (Text.slice 0 16 line))
      && !alphaAt line 32
      && !(digitAt line 34 && blankOrEndAt line 35)
      && !alphaAt line 60 then "True" else "False"

def obsParser : ParserDef State where
  endMarker := fun _ _ next => digitAt next 2 && spaceAt next 3
  skipLine := fun _ => false
  label := fun line _ => obsLabel line
  defs := Midgard.Generated.Rinex2ObsCols.records
  handle := handle

def resetCache (s : State) : State := { s with cache := {} }

/-! ### Post-processors -/

/-- `_remove_empty_obstype_fields` -/
def removeEmptyObstypeFields (s : State) : State :=
  let dead := (s.data.obs.filter fun (_, col) => col.isEmpty || allNan col).map (·.1)
  let types := match s.metaD.get [key "obstypes"] with
    | some (.list l) => l
    | _ => []
  { s with data := dead.foldl (fun d t => d.dropType t) s.data,
           metaD := s.metaD.set [key "obstypes"] (.list (dead.foldl removeFirst types)) }

/-- `_get_obstypes_dict`: every remaining type for every system that has rows (the test
`not np.all(obs == 0.0)` is always true: missing values are NaN, not zero) -/
def getObstypesDict (s : State) : State :=
  let types := match s.metaD.get [key "obstypes"] with
    | some (.list l) => l
    | _ => []
  let systems := s.data.system.eraseDups
  let m0 := (s.metaD.del [key "obstypes"]).del [key "num_obstypes"]
  let m1 := if systems.isEmpty || types.isEmpty then m0.set [key "obstypes"] .empty
            else systems.foldl (fun m sy => m.set [key "obstypes", sy] (.list types)) m0
  { s with metaD := m1 }

def timeSystemCorrection (s : State) : Except Err State :=
  match s.metaD.get [key "time_sys"] with
  | some (.text t) => pure (if t = "GLO".toList then { s with timeScale := "utc" } else s)
  | _ => throw .other

inductive Outcome
  | ok (s : State)
  | noRows
  | error (e : Err)

/-- what `parse()` does after `read_data`: the `KeyError`s of an observation-free file, then the post-processors
`_remove_empty_obstype_fields`, `_get_obstypes_dict`, `_time_system_correction` -/
def finish (s : State) : Outcome :=
  if !s.data.hasObs then .error .other
  else if s.data.time.isEmpty then .noRows
  else
    match timeSystemCorrection (getObstypesDict (removeEmptyObstypeFields s)) with
    | .ok s' => .ok s'
    | .error e => .error e

/-- `Rinex2Parser(file, sampling_rate=rate).parse()` -/
def parseLines (rate : Option Rat) (lines : List Str) : Outcome :=
  match readData headerParser obsParser resetCache lines true 0 { rate := rate } with
  | .error e => .error e
  | .ok s => finish s

def parseText (rate : Option Rat) (text : Str) : Outcome := parseLines rate (fileLines text)

end Midgard.Rinex2Obs
