/-
C20 — executable model of midgard's numeric helpers (exact twin over `Rat`, Mathlib-free;
DESIGN.md §3 and §5/C20).

* `midgard/math/unit.py`            — `Unit.<a>2<b>` over the regenerated factor table; `rad_to_dms`,
                                       `dms_to_rad`, `deg_to_dms`, `dms_to_deg`, `hms_to_rad`
* `midgard/math/interpolation.py`   — `lagrange` (checks, sort, window selection, scaled product
                                       formula, `r.T @ y_wd`), `linear` (SciPy `interp1d`, modelled)
* `midgard/gnss/compute_dops.py`    — design matrix, `Q = (HᵀH)⁻¹`, the five traces
* `midgard/math/plate_motion.py`    — `get_velocity` (`ω × r` with the pole converted to rad/yr)
* `midgard/math/linear_regression.py` — ordinary least squares with the RMS outlier rejection loop

Irrational quantities the code obtains from libm enter as *parameters*: `p` stands for the value of π
(the driver is handed the double `math.pi` as an exact rational), `s` for `x.std()`, and the DOP
model receives the four numbers `cos el, sin el, cos az, sin az` per satellite.  The theorems hold
for every value of these parameters (with the side conditions they state).
-/
import Midgard.Generated.C20Tables

namespace Midgard.Numeric
open Midgard.Generated.C20

/-! ## Units (`_convert_units.__call__` / `__getattr__`) -/

/-- factor of a unit to its root unit, for the value `p` of π -/
def unitFactor (u : UnitRow) (p : Rat) : Rat := if u.pi then u.q * p else u.q

/-- `Unit(a, b)` for two table rows: pint raises `DimensionalityError` (→ `UnitError`) across dimensions -/
def convRow (a b : UnitRow) (p : Rat) : Option Rat :=
  if a.dim = b.dim then some (unitFactor a p / unitFactor b p) else none

def findUnit (tbl : List UnitRow) (n : String) : Option UnitRow := tbl.find? (·.name == n)

/-- `Unit.<a>2<b>` / `Unit(a, b)` by name over the regenerated table -/
def conv (a b : String) (p : Rat) : Option (Option Rat) := do
  let ua ← findUnit units a
  let ub ← findUnit units b
  pure (convRow ua ub p)

/-! ## Degrees, minutes, seconds -/

/-- a floating-point number as sign bit and magnitude (so that `-0.0` exists) -/
structure SF where
  neg : Bool
  mag : Rat
  deriving DecidableEq, Repr

def SF.val (x : SF) : Rat := if x.neg then -x.mag else x.mag

/-- the float with value `q`; `negZero` is the sign bit used when `q = 0` -/
def SF.ofRat (q : Rat) (negZero : Bool) : SF :=
  if q < 0 then ⟨true, -q⟩ else if q = 0 then ⟨negZero, 0⟩ else ⟨false, q⟩

/-- Python `x % 1` for a non-negative float -/
def frac1 (x : Rat) : Rat := x - (x.floor : Rat)

/-- `Unit.degrees2radians` -/
def d2r (p : Rat) : Rat := p / 180
/-- `Unit.radians2degrees` -/
def r2d (p : Rat) : Rat := 180 / p

/-- `Unit.rad_to_dms`: `sign = np.sign(radians)` (−1, 0, +1; `np.sign(±0.0) = +0.0`),
`degrees = abs(radians) * radians2degrees`, `minutes = (degrees % 1) * hour2minutes`,
`seconds = (minutes % 1) * minute2seconds`; returns `(sign * floor(degrees), floor(minutes), seconds)`.
The product `sign * floor(degrees)` is `-0.0` for a negative angle below one degree and `+0.0`
for the input `-0.0`. -/
def radToDms (p : Rat) (r : SF) : SF × Rat × Rat :=
  let degrees := r.mag * r2d p
  let minutes := frac1 degrees * 60
  let seconds := frac1 minutes * 60
  (⟨r.neg && r.mag != 0, (degrees.floor : Rat)⟩, (minutes.floor : Rat), seconds)

/-- `Unit.deg_to_dms(x) = rad_to_dms(x * degrees2radians)` -/
def degToDms (p : Rat) (x : SF) : SF × Rat × Rat := radToDms p ⟨x.neg, x.mag * d2r p⟩

/-- `Unit.dms_to_rad`: `sign = np.copysign(1, degrees)`;
`sign * (abs(degrees) + minutes * minutes2hours + seconds * seconds2hours) * degrees2radians` -/
def dmsToRad (p : Rat) (d : SF) (m s : Rat) : SF :=
  let t := d.mag + m * (1 / 60) + s * (1 / 3600)
  let sign : Rat := if d.neg then -1 else 1
  SF.ofRat (sign * t * d2r p) d.neg

/-- `Unit.dms_to_deg = dms_to_rad(...) * radians2degrees` -/
def dmsToDeg (p : Rat) (d : SF) (m s : Rat) : SF :=
  let r := dmsToRad p d m s
  ⟨r.neg, r.mag * r2d p⟩

/-- `Unit.hms_to_rad`: refuses negative hours, otherwise `15 * dms_to_rad` -/
def hmsToRad (p : Rat) (h : SF) (m s : Rat) : Option SF :=
  if h.val < 0 then none else
  let r := dmsToRad p h m s
  some ⟨r.neg, 15 * r.mag⟩

/-! ## Lagrange interpolation (`interpolation.lagrange`) -/

inductive Err
  | shape      -- len(y) != len(x)
  | window     -- window < 3
  | short      -- window > len(x)
  | unsorted   -- "expected x to be a sorted array with unique values"
  | below | above
  | solver     -- (spline model only) the elimination did not return moments satisfying the defining equations
  deriving DecidableEq, Repr

/-- insert a sample into a list sorted by abscissa (before the first larger abscissa) -/
def insertBy {α} (a : Rat × α) : List (Rat × α) → List (Rat × α)
  | [] => [a]
  | b :: l => if a.1 ≤ b.1 then a :: b :: l else b :: insertBy a l

/-- `sort_idxs = np.argsort(x); x, y = x[sort_idxs], y[sort_idxs]` (abscissae are then required
to be distinct, so the order of the sort algorithm on ties is never observable) -/
def sortBy {α} : List (Rat × α) → List (Rat × α)
  | [] => []
  | a :: l => insertBy a (sortBy l)

/-- `all(np.diff(x) > 0)` -/
def strictInc : List Rat → Bool
  | a :: b :: l => a < b && strictInc (b :: l)
  | _ => true

def absR (q : Rat) : Rat := if q < 0 then -q else q

/-- `np.abs(x - x_new).argmin()`: index of the first minimum -/
def argminAbs : List Rat → Rat → Nat
  | [], _ => 0
  | [_], _ => 0
  | a :: b :: l, x =>
    let k := argminAbs (b :: l) x
    if absR ((b :: l).getD k 0 - x) < absR (a - x) then k + 1 else 0

/-- `start = argmin - window // 2`, negative → 0, above `len(x) - window` → `len(x) - window` -/
def startIdx (xs : List Rat) (w : Nat) (x : Rat) : Nat :=
  min (argminAbs xs x - w / 2) (xs.length - w)

/-- `np.prod((x - x_wd[idxs]) / diff_x[idxs, i])`: the i-th Lagrange basis value on the window -/
def basis (xw : List Rat) (i : Nat) (x : Rat) : Rat :=
  (((List.range xw.length).filter (· != i)).map
      (fun j => (x - xw.getD j 0) / (xw.getD i 0 - xw.getD j 0))).prod

def weights (xw : List Rat) (x : Rat) : List Rat :=
  (List.range xw.length).map (fun i => basis xw i x)

def dot (r col : List Rat) : Rat := (List.zipWith (· * ·) r col).sum

/-- `r.T @ y_wd` for one new abscissa: entry `c` is `Σ_i r_i · y_wd[i, c]` (trailing axes of `y`
flattened to `dim` components) -/
def combine (r : List Rat) (rows : List (List Rat)) (dim : Nat) : List Rat :=
  (List.range dim).map (fun c => dot r (rows.map (·.getD c 0)))

def mean (xs : List Rat) : Rat := xs.sum / (xs.length : Rat)

/-- value of the interpolant at one abscissa; `xs`/`rows` sorted, `m`, `s` the scaling
(`x_scaled = (x - _xm) / _xs`) -/
def lagrangeAt (xs : List Rat) (rows : List (List Rat)) (dim w : Nat) (m s x : Rat) : List Rat :=
  let st := startIdx xs w x
  let xw := ((xs.drop st).take w).map (fun v => (v - m) / s)
  let yw := (rows.drop st).take w
  combine (weights xw ((x - m) / s)) yw dim

def minL : List Rat → Rat
  | [] => 0
  | a :: l => l.foldl (fun acc b => if b < acc then b else acc) a
def maxL : List Rat → Rat
  | [] => 0
  | a :: l => l.foldl (fun acc b => if acc < b then b else acc) a

/-- `interpolate(x, y, x_new, kind="lagrange", window=w, bounds_error=…, assume_sorted=…)`;
`s` is the value the code obtained for `x.std()` -/
def lagrange (xs : List Rat) (rows : List (List Rat)) (dim w : Nat) (boundsError assumeSorted : Bool)
    (s : Rat) (xnew : List Rat) : Except Err (List (List Rat)) :=
  if rows.length != xs.length then .error .shape
  else if w < 3 then .error .window
  else if w > xs.length then .error .short
  else
    let pairs := if assumeSorted then xs.zip rows else sortBy (xs.zip rows)
    let sx := pairs.map (·.1)
    let sy := pairs.map (·.2)
    if !strictInc sx then .error .unsorted
    else if boundsError && minL xnew < minL sx then .error .below
    else if boundsError && maxL xnew > maxL sx then .error .above
    else .ok (xnew.map (fun x => lagrangeAt sx sy dim w (mean sx) s x))

/-- `(f(x_new + dx) - f(x_new - dx)) / (2 * dx)`, componentwise -/
def centralDiff (hi lo : List (List Rat)) (dx : Rat) : List (List Rat) :=
  List.zipWith (fun a b => List.zipWith (fun u v => (u - v) / (2 * dx)) a b) hi lo

/-- `interpolate_with_derivative(x, y, x_new, kind="lagrange", dx=dx, window=w, …)`: the interpolator is
built once (argument checks, sort) and called for `x_new`, `x_new + dx`, `x_new - dx` in this order (each
call checks its own bounds); the derivative is the central difference of the interpolant -/
def lagrangeDeriv (xs : List Rat) (rows : List (List Rat)) (dim w : Nat) (boundsError assumeSorted : Bool)
    (s : Rat) (xnew : List Rat) (dx : Rat) : Except Err (List (List Rat) × List (List Rat)) :=
  match lagrange xs rows dim w boundsError assumeSorted s xnew with
  | .error e => .error e
  | .ok v =>
    match lagrange xs rows dim w boundsError assumeSorted s (xnew.map (· + dx)) with
    | .error e => .error e
    | .ok hi =>
      match lagrange xs rows dim w boundsError assumeSorted s (xnew.map (· - dx)) with
      | .error e => .error e
      | .ok lo => .ok (v, centralDiff hi lo dx)

/-- `interpolate(x, y, x_new, kind="barycentric_interpolator")` — specification: SciPy's
`BarycentricInterpolator` evaluates *the* interpolating polynomial through all samples (given in any order,
no bounds check): the Lagrange interpolant whose window is the whole sample set.  Equal abscissae have no
interpolating polynomial (SciPy divides by zero there). -/
def barycentric (xs : List Rat) (rows : List (List Rat)) (dim : Nat) (xnew : List Rat) :
    Except Err (List (List Rat)) :=
  if rows.length != xs.length then .error .shape
  else if xs.length = 0 then .error .short
  else
    let pairs := sortBy (xs.zip rows)
    let sx := pairs.map (·.1)
    let sy := pairs.map (·.2)
    if !strictInc sx then .error .unsorted
    else .ok (xnew.map (fun x => lagrangeAt sx sy dim sx.length (mean sx) 1 x))

/-! ## Piecewise linear interpolation (`interpolation.linear` = SciPy `interp1d(kind="linear")`, modelled) -/

/-- `np.searchsorted(x, v)` (side left): number of abscissae `< v` -/
def searchLeft (xs : List Rat) (v : Rat) : Nat := (xs.filter (· < v)).length

/-- `idx = searchsorted(x, x_new).clip(1, n-1)`; `lo = idx-1`, `hi = idx`;
`y_lo + (y_hi - y_lo) / (x_hi - x_lo) * (x_new - x_lo)` componentwise -/
def linearAt (xs : List Rat) (rows : List (List Rat)) (dim : Nat) (x : Rat) : List Rat :=
  let idx := max 1 (min (searchLeft xs x) (xs.length - 1))
  let xlo := xs.getD (idx - 1) 0
  let xhi := xs.getD idx 0
  let ylo := rows.getD (idx - 1) []
  let yhi := rows.getD idx []
  (List.range dim).map (fun c =>
    (yhi.getD c 0 - ylo.getD c 0) / (xhi - xlo) * (x - xlo) + ylo.getD c 0)

/-- `interpolate(x, y, x_new, kind="linear")`: sorts (`assume_sorted=False`), refuses extrapolation -/
def linear (xs : List Rat) (rows : List (List Rat)) (dim : Nat) (xnew : List Rat) :
    Except Err (List (List Rat)) :=
  if rows.length != xs.length then .error .shape
  else if xs.length < 2 then .error .short
  else
    let pairs := sortBy (xs.zip rows)
    let sx := pairs.map (·.1)
    let sy := pairs.map (·.2)
    if minL xnew < minL sx then .error .below
    else if maxL xnew > maxL sx then .error .above
    else .ok (xnew.map (fun x => linearAt sx sy dim x))

/-! ## Bilinear interpolation on a rectangular grid (`spatial_interpolation.regular_grid_interpolator` = SciPy
`RegularGridInterpolator`, method "linear", after the flips that make both axes increasing) -/

/-- value at `(x, y)`: `grid[k][i]` is the value at `(xs[i], ys[k])`; linear in `x` along every grid row, then
linear in `y` across the rows -/
def bilinearAt (xs ys : List Rat) (grid : List (List Rat)) (x y : Rat) : Rat :=
  (linearAt ys (grid.map (fun row => linearAt xs (row.map (fun v => [v])) 1 x)) 1 y).getD 0 0

/-- `spatial_interpolation.interpolate(grid_x, grid_y, values, x, y, kind="regular_grid_interpolator")` for a list of
positions: a position outside the grid is refused (`interpolate` checks the boundaries itself) -/
def regularGrid (xs ys : List Rat) (grid : List (List Rat)) (pts : List (Rat × Rat)) : Except Err (List Rat) :=
  if grid.length != ys.length || grid.any (fun r => r.length != xs.length) then .error .shape
  else if xs.length < 2 || ys.length < 2 then .error .short
  else if !(strictInc xs && strictInc ys) then .error .unsorted
  else if pts.any (fun p => p.1 < minL xs || p.2 < minL ys) then .error .below
  else if pts.any (fun p => p.1 > maxL xs || p.2 > maxL ys) then .error .above
  else .ok (pts.map (fun p => bilinearAt xs ys grid p.1 p.2))

/-! ## Low-precision solar ephemeris (`planetary_motion.gsdtime_sun`): the two angles that are rational in the
date — the mean longitude `vl` and the Greenwich sidereal angle `gstr`; the constants are read from the source -/

/-- `np.mod(q, 360)` -/
def fmod360 (q : Rat) : Rat := q - 360 * ((q / 360).floor : Rat)

/-- `vl = np.mod(c0 + rate * jd, 360)` -/
def sunMeanLongitude (c0 rate jd : Rat) : Rat := fmod360 (c0 + rate * jd)

/-- `gstr = np.mod(c0 + rate * jd + 360 * frac + 180, 360)` (`jd` whole days since the epoch − 0.5, `frac` the
fraction of the day) -/
def gmstAngle (c0 rate jd frac : Rat) : Rat := fmod360 (c0 + rate * jd + 360 * frac + 180)

/-! ## Not-a-knot cubic spline (`interpolation.cubic` = SciPy `interp1d(kind="cubic")`, and
`interpolation.interpolated_univariate_spline` = FITPACK's interpolating spline of degree 3) — specification

Both SciPy routines return the C² piecewise cubic through the samples whose third derivative is continuous
at the second and at the second-to-last node.  In terms of the second derivatives `m i = s''(x i)` ("moments")
the defining equations are `NakEqs`; `pieceEval` is the cubic on one interval with given end values and end
second derivatives.  The model solves the equations by exact Gaussian elimination and the driver reports, per
case, that the solution it evaluates satisfies `NakEqs` (decidable). -/

/-- the defining equations of the not-a-knot cubic spline through `(x i, y i)`, `i < n`, for the moments `m`:
C¹ at every interior node, and third-derivative continuity at node `1` and node `n - 2` -/
def NakEqs (n : Nat) (x y m : Nat → Rat) : Prop :=
  (∀ i, i < n → 1 ≤ i → i + 1 < n →
      (x i - x (i - 1)) * m (i - 1) + 2 * (x (i + 1) - x (i - 1)) * m i + (x (i + 1) - x i) * m (i + 1)
        = 6 * ((y (i + 1) - y i) / (x (i + 1) - x i) - (y i - y (i - 1)) / (x i - x (i - 1)))) ∧
  (m 1 - m 0) * (x 2 - x 1) = (m 2 - m 1) * (x 1 - x 0) ∧
  (m (n - 2) - m (n - 3)) * (x (n - 1) - x (n - 2)) = (m (n - 1) - m (n - 2)) * (x (n - 2) - x (n - 3))

instance (n : Nat) (x y m : Nat → Rat) : Decidable (NakEqs n x y m) := by
  unfold NakEqs; infer_instance

/-- the cubic on `[x0, x1]` with values `y0, y1` and second derivatives `m0, m1` at the ends -/
def pieceEval (x0 x1 y0 y1 m0 m1 x : Rat) : Rat :=
  let h := x1 - x0
  m0 * (x1 - x) * (x1 - x) * (x1 - x) / (6 * h) + m1 * (x - x0) * (x - x0) * (x - x0) / (6 * h)
    + (y0 / h - m0 * h / 6) * (x1 - x) + (y1 / h - m1 * h / 6) * (x - x0)

/-- Gaussian elimination on an augmented matrix (`n` unknowns, rows `a₀ … a_{n-1} | b`), exact over `Rat`;
`none` when the matrix is singular -/
def gaussSolve : Nat → List (List Rat) → Option (List Rat)
  | 0, _ => some []
  | n + 1, rows =>
    match rows.find? (fun r => r.headD 0 != 0) with
    | none => none
    | some p =>
      let pn := p.tail.map (· / p.headD 0)
      let rest := (rows.erase p).map (fun r => List.zipWith (fun a b => a - r.headD 0 * b) r.tail pn)
      match gaussSolve n rest with
      | none => none
      | some sol => some ((pn.getLastD 0 - (List.zipWith (· * ·) pn sol).sum) :: sol)

/-- the augmented matrix of `NakEqs` for sorted abscissae `xs` (length ≥ 4) and ordinates `ys` -/
def nakSystem (xs ys : List Rat) : List (List Rat) :=
  let n := xs.length
  let x := fun i => xs.getD i 0
  let y := fun i => ys.getD i 0
  let row := fun (f : Nat → Rat) (b : Rat) => (List.range n).map f ++ [b]
  let first := row (fun j => if j = 0 then -(x 2 - x 1) else if j = 1 then (x 2 - x 1) + (x 1 - x 0)
      else if j = 2 then -(x 1 - x 0) else 0) 0
  let last := row (fun j => if j = n - 3 then -(x (n - 1) - x (n - 2))
      else if j = n - 2 then (x (n - 1) - x (n - 2)) + (x (n - 2) - x (n - 3))
      else if j = n - 1 then -(x (n - 2) - x (n - 3)) else 0) 0
  let mid := (List.range (n - 2)).map (fun k =>
    let i := k + 1
    row (fun j => if j = i - 1 then x i - x (i - 1) else if j = i then 2 * (x (i + 1) - x (i - 1))
        else if j = i + 1 then x (i + 1) - x i else 0)
      (6 * ((y (i + 1) - y i) / (x (i + 1) - x i) - (y i - y (i - 1)) / (x i - x (i - 1)))))
  first :: mid ++ [last]

/-- value of the spline with moments `ms` at `x` (interval chosen as SciPy's `searchsorted` does; inside the range) -/
def nakAt (xs ys ms : List Rat) (x : Rat) : Rat :=
  let idx := max 1 (min (searchLeft xs x) (xs.length - 1))
  pieceEval (xs.getD (idx - 1) 0) (xs.getD idx 0) (ys.getD (idx - 1) 0) (ys.getD idx 0)
    (ms.getD (idx - 1) 0) (ms.getD idx 0) x

/-- moments of one component: the result of the elimination, accepted only when it satisfies the defining
equations (a decidable check, so every value the model returns is a value of *the* not-a-knot spline) -/
def nakMoments (sx col : List Rat) : Option (List Rat) :=
  match gaussSolve sx.length (nakSystem sx col) with
  | none => none
  | some ms =>
    if NakEqs sx.length (fun i => sx.getD i 0) (fun i => col.getD i 0) (fun i => ms.getD i 0) then some ms else none

/-- `interpolate(x, y, x_new, kind="cubic")` / `kind="interpolated_univariate_spline"` inside the sample range -/
def nakSpline (xs : List Rat) (rows : List (List Rat)) (dim : Nat) (xnew : List Rat) :
    Except Err (List (List Rat)) :=
  if rows.length != xs.length then .error .shape
  else if xs.length < 4 then .error .short
  else
    let pairs := sortBy (xs.zip rows)
    let sx := pairs.map (·.1)
    let sy := pairs.map (·.2)
    if !strictInc sx then .error .unsorted
    else if minL xnew < minL sx then .error .below
    else if maxL xnew > maxL sx then .error .above
    else
      let cols := (List.range dim).map (fun c => sy.map (·.getD c 0))
      if cols.any (fun col => (nakMoments sx col).isNone) then .error .solver
      else .ok (xnew.map (fun x => cols.map (fun col => nakAt sx col ((nakMoments sx col).getD []) x)))

/-- the not-a-knot spline through `(sx i, col i)` (sorted) at one abscissa -/
def nakValue (sx col : List Rat) (x : Rat) : Option Rat :=
  (nakMoments sx col).map (fun ms => nakAt sx col ms x)

/-- `spatial_interpolation.rect_bivariate_spline` = SciPy `RectBivariateSpline` (degree 3 × 3, interpolating) —
specification: the tensor product of not-a-knot splines: along `x` on every grid row, then along `y` through the
row values.  `grid[k][i]` is the value at `(xs[i], ys[k])`, both axes increasing. -/
def bicubicAt (xs ys : List Rat) (grid : List (List Rat)) (x y : Rat) : Option Rat :=
  let vals := grid.map (fun row => nakValue xs row x)
  if vals.any (·.isNone) then none else nakValue ys (vals.map (·.getD 0)) y

/-- `interpolate_with_derivative(x, y, x_new, kind=…, dx=dx)` for any interpolator `f` (the function of `x_new`
the registered interpolator returns): values `f(x_new)`, derivative `(f(x_new + dx) - f(x_new - dx)) / (2 dx)`,
evaluated in this order -/
def interpDeriv (f : List Rat → Except Err (List (List Rat))) (xnew : List Rat) (dx : Rat) :
    Except Err (List (List Rat) × List (List Rat)) :=
  match f xnew with
  | .error e => .error e
  | .ok v =>
    match f (xnew.map (· + dx)) with
    | .error e => .error e
    | .ok hi =>
      match f (xnew.map (· - dx)) with
      | .error e => .error e
      | .ok lo => .ok (v, centralDiff hi lo dx)

/-! ## `midgard.math.nputil`: `norm`, `unit_vector`, `take` along the last axis -/

/-- `norm(v) ** 2` for one vector (the square root itself is a parameter of `unitVector`) -/
def normSq (v : List Rat) : Rat := (v.map (fun a => a * a)).sum

/-- `unit_vector(v) = v / np.linalg.norm(v)`; `n` is the value the code obtained for the norm -/
def unitVector (v : List Rat) (n : Rat) : List Rat := v.map (· / n)

/-- `take(v, i)` on a 2-dimensional array: component `i` of every row (1-dimensional: `List.getD`) -/
def takeLast (rows : List (List Rat)) (i : Nat) : List Rat := rows.map (·.getD i 0)

/-! ## Dilution of precision (`compute_dops`) -/

/-- the four trigonometric values of one satellite as the code obtained them -/
structure Sat where
  ce : Rat   -- cos(el)
  se : Rat   -- sin(el)
  ca : Rat   -- cos(az)
  sa : Rat   -- sin(az)
  deriving DecidableEq, Repr

abbrev Mat4 := Fin 4 → Fin 4 → Rat

/-- row of `H`: `(-cos(el)cos(az), -cos(el)sin(az), -sin(el), 1)` -/
def Sat.row (s : Sat) (i : Fin 4) : Rat :=
  match i with
  | 0 => -s.ce * s.ca
  | 1 => -s.ce * s.sa
  | 2 => -s.se
  | 3 => 1

/-- `Q = H.T @ H` -/
def normal (sats : List Sat) : Mat4 := fun i j => (sats.map (fun s => s.row i * s.row j)).sum

/-- the sixteen entries as data (evaluated once) -/
def table (m : Mat4) : List (List Rat) :=
  (List.finRange 4).map (fun i => (List.finRange 4).map (fun j => m i j))

/-- back to a matrix: `ofTable (table m) = m` (`ofTable_table`) -/
def ofTable (v : List (List Rat)) : Mat4 := fun i j => (v.getD i.val []).getD j.val 0

/-- index of the k-th remaining row/column after deleting `r` -/
def skip (r : Fin 4) (k : Fin 3) : Fin 4 :=
  if k.val < r.val then ⟨k.val, by omega⟩ else ⟨k.val + 1, by omega⟩

def det3 (a : Fin 3 → Fin 3 → Rat) : Rat :=
  a 0 0 * (a 1 1 * a 2 2 - a 1 2 * a 2 1)
  - a 0 1 * (a 1 0 * a 2 2 - a 1 2 * a 2 0)
  + a 0 2 * (a 1 0 * a 2 1 - a 1 1 * a 2 0)

/-- minor: determinant after deleting row `r` and column `c` -/
def minor (m : Mat4) (r c : Fin 4) : Rat := det3 (fun a b => m (skip r a) (skip c b))

def sgn (i j : Fin 4) : Rat := if (i.val + j.val) % 2 = 0 then 1 else -1

def det4 (m : Mat4) : Rat :=
  m 0 0 * minor m 0 0 - m 0 1 * minor m 0 1 + m 0 2 * minor m 0 2 - m 0 3 * minor m 0 3

/-- `np.linalg.inv(Q)` (as the classical adjugate over the determinant) -/
def inv4 (m : Mat4) : Mat4 := fun i j => sgn i j * minor m j i / det4 m

structure Dops where
  gdop2 : Rat
  pdop2 : Rat
  tdop2 : Rat
  hdop2 : Rat
  vdop2 : Rat
  deriving DecidableEq, Repr

/-- squares of the five values: `trace(Q)`, `trace(Q[0:3])`, `Q[3,3]`, `trace(Q[0:2])`, `Q[2,2]` -/
def dopsOf (q : Mat4) : Dops :=
  { gdop2 := q 0 0 + q 1 1 + q 2 2 + q 3 3
    pdop2 := q 0 0 + q 1 1 + q 2 2
    tdop2 := q 3 3
    hdop2 := q 0 0 + q 1 1
    vdop2 := q 2 2 }

/-- `compute_dops`; `none` when `HᵀH` is singular (the code then returns five `None`s) -/
def computeDops (sats : List Sat) : Option Dops :=
  let v := table (normal sats)
  let q := ofTable v
  if det4 q = 0 then none else some (dopsOf (inv4 q))

/-- `compute_dops` with the guard as the source writes it: `lim` is the limit the source puts on the condition
number of `HᵀH` (`Generated.C20.dopCondLimit`, read from the source: `none` = no finite limit), `cond` the value the
code obtained for `np.linalg.cond(Q)` (a parameter) -/
def computeDopsGuarded (lim : Option Rat) (cond : Rat) (sats : List Sat) : Option Dops :=
  match lim with
  | some l => if cond > l then none else computeDops sats
  | none => computeDops sats

/-! ## Plate motion (`PlateMotion.get_velocity`, system "trs") -/

structure V3 where
  x : Rat
  y : Rat
  z : Rat
  deriving DecidableEq, Repr

/-- `np.cross(a, b)` -/
def cross (a b : V3) : V3 := ⟨a.y * b.z - a.z * b.y, a.z * b.x - a.x * b.z, a.x * b.y - a.y * b.x⟩
def dot3 (a b : V3) : Rat := a.x * b.x + a.y * b.y + a.z * b.z

/-- `model.get_pole(plate, unit="radian per year")`: every component times the unit factor -/
def poleOmega (r : PoleRow) (p : Rat) : V3 :=
  let f := if r.upi then r.uq * p else r.uq
  ⟨r.wx * f, r.wy * f, r.wz * f⟩

def findPole (tbl : List PoleRow) (model plate : String) : Option PoleRow :=
  tbl.find? (fun r => r.model == model && r.plate == plate)

/-- `PlateMotion(plate, model).get_velocity(pos)` -/
def plateVelocity (model plate : String) (p : Rat) (pos : V3) : Option V3 :=
  (findPole poles model plate).map (fun r => cross (poleOmega r p) pos)

/-- `PlateMotion.to_cartesian([lat°, lon°, ω °/Myr])` in mas/yr: `cl, sl, co, so` are the values the code obtained
for cos/sin of the latitude and longitude (parameters, like the satellite directions of `compute_dops`); the unit
factors `degree→radian`, `/ 10⁶`, `radian→milliarcsecond` multiply to `3600000 / 10⁶` (π cancels) -/
def toCartesianQ (cl sl co so w : Rat) : V3 :=
  let k : Rat := 3600000 / 1000000
  ⟨w * cl * co * k, w * cl * so * k, w * sl * k⟩

/-- the square of the rotation rate `to_spherical` returns for a Cartesian pole in mas/yr (°/Myr; the square root
is not modelled) -/
def omegaSq (p : V3) : Rat := dot3 p p * (1000000 / 3600000) * (1000000 / 3600000)

/-! ## Linear regression (`LinearRegression`, statsmodels OLS on `[1, x]`) -/

structure Fit where
  icpt : Rat
  slope : Rat
  deriving DecidableEq, Repr

/-- least squares line through the samples (normal equations); `none` when all `x` coincide -/
def ols (xs ys : List Rat) : Option Fit :=
  let n : Rat := (xs.length : Rat)
  let sx := xs.sum
  let sy := ys.sum
  let sxx := (xs.map (fun x => x * x)).sum
  let sxy := (List.zipWith (· * ·) xs ys).sum
  let den := n * sxx - sx * sx
  if den = 0 then none else
  let b := (n * sxy - sx * sy) / den
  some ⟨(sy - b * sx) / n, b⟩

/-- `result.resid` (observed − modelled) -/
def resid (f : Fit) (xs ys : List Rat) : List Rat :=
  List.zipWith (fun x y => y - (f.icpt + f.slope * x)) xs ys

/-- the statistics `LinearRegression` reports for the fit `f` of the samples kept, as squares where the code takes
a square root: `rms²` = Σe²/n, `r_square` = 1 − Σe²/Σ(y−ȳ)² (statsmodels `rsquared`, centred), `slope_sigma²` and
`interception_sigma²` = the diagonal of `scale · (XᵀX)⁻¹` with `scale` = Σe²/(n−2) (statsmodels `bse`²) -/
structure FitStats where
  rms2 : Rat
  rSquare : Rat
  slopeVar : Rat
  icptVar : Rat
  deriving DecidableEq, Repr

/-- residual sum of squares of the line `f` -/
def ssr (f : Fit) (xs ys : List Rat) : Rat := normSq (resid f xs ys)

/-- centred total sum of squares Σ(y−ȳ)² -/
def sst (ys : List Rat) : Rat := normSq (ys.map (· - mean ys))

def fitStats (f : Fit) (xs ys : List Rat) : FitStats :=
  let n : Rat := (xs.length : Rat)
  let e2 := ssr f xs ys
  let den := n * (xs.map (fun x => x * x)).sum - xs.sum * xs.sum
  let scale := e2 / (n - 2)
  ⟨e2 / n, 1 - e2 / sst ys, scale * n / den, scale * (xs.map (fun x => x * x)).sum / den⟩

/-- one pass of `_generate_result_and_reject_outlier`: keep the samples with
`|resid| < factor · rms`, i.e. `resid² · n < factor² · Σ resid²` (`factor ≥ 0`) -/
def rejectOnce (factor : Rat) (xs ys : List Rat) : Option (List Rat × List Rat) :=
  (ols xs ys).map fun f =>
    let r := resid f xs ys
    let ss := (r.map (fun e => e * e)).sum
    let n : Rat := (r.length : Rat)
    let keep := r.map (fun e => decide (e * e * n < factor * factor * ss))
    let sel := fun (l : List Rat) => ((l.zip keep).filter (·.2)).map (·.1)
    (sel xs, sel ys)

def rejectLoop (factor : Rat) : Nat → List Rat → List Rat → Option (List Rat × List Rat)
  | 0, xs, ys => some (xs, ys)
  | k + 1, xs, ys => (rejectOnce factor xs ys).bind fun (a, b) => rejectLoop factor k a b

/-- `LinearRegression(x, y, reject_outlier, outlier_limit_factor, outlier_iteration)` →
the fit and the samples it was computed from -/
def linreg (xs ys : List Rat) (reject : Bool) (factor : Rat) (iter : Nat) :
    Option (Fit × List Rat × List Rat) :=
  if reject then
    (rejectLoop factor iter xs ys).bind fun (a, b) => (ols a b).map fun f => (f, a, b)
  else (ols xs ys).map fun f => (f, xs, ys)

end Midgard.Numeric
