/-
C07 — model of the object side of `PosVel(...).kepler` / `.trs` (`midgard/data/_position.py`):
`PosBase.to_system` with its `_cache`, `PosVelArray.convert_to`, `PositionArray.__getitem__`
(`_share_memory_with`: rows obtained by basic indexing are views), `PosBase.__setitem__` with
`_clear_dependent_caches`, for the two `PosVelArray` systems `trs` and `kepler` (one registered
conversion each way, so `_cache` holds at most one system entry: the other system).

The store is polymorphic in the type `A` of array values (`Arr A`: conversion, basic-index read,
in-place write as a function); the driver runs it on symbolic terms (`Term`), the theorems of
`Props/C07.lean` hold for every `A`.  No Mathlib import (the driver links this file).
-/

namespace Midgard.Geo.PosCache

/-- the systems registered for `PosVelArray` (`position.py`: `TrsPosVel`, `KeplerPosVel`) -/
inductive Sys where
  | trs
  | kepler
  deriving DecidableEq, Repr

/-- the only system `_CONVERSIONS['PosVelArray']` converts a system to -/
def Sys.other : Sys → Sys
  | .trs => .kepler
  | .kepler => .trs

/-- array values: `conv s a` = the registered converter *to* system `s` applied to `a`
(`trs2kepler` for `s = kepler`, `kepler2trs` for `s = trs`), `get k a` = `a[k]`,
`put k v a` = `a` after `a[k] = v` -/
class Arr (A : Type) where
  conv : Sys → A → A
  get : String → A → A
  put : String → A → A → A

/-- one `PosVelArray` object: its system, the memory block it lives in and the chain of basic indices
that cuts its rows out of the block, `_cache[<other system>]` (an object id) and `_dependent_objs` (as a set: the
code may register the same object more than once) -/
structure Obj where
  sys : Sys
  buf : Nat
  path : List String
  cache : Option Nat
  deps : List Nat
  /-- the object that owns the memory block (`.base` of a view; the object itself otherwise) -/
  root : Nat
  deriving Repr

/-- all objects created so far (ids = order of creation) and the memory blocks -/
structure Store (A : Type) where
  nbuf : Nat
  mem : Nat → A
  n : Nat
  obj : Nat → Obj

variable {A : Type} [Arr A]

def getPath : List String → A → A
  | [], a => a
  | k :: ks, a => getPath ks (Arr.get k a)

/-- the block after the part addressed by the path was replaced by `x` -/
def putPath : List String → A → A → A
  | [], x, _ => x
  | k :: ks, x, a => Arr.put k (putPath ks x (Arr.get k a)) a

/-- `np.asarray(obj)`: what the object holds now -/
def contents (st : Store A) (i : Nat) : A := getPath (st.obj i).path (st.mem (st.obj i).buf)

def empty (a : A) : Store A := ⟨0, fun _ => a, 0, fun _ => ⟨.trs, 0, [], none, [], 0⟩⟩

/-- a new object owning a new memory block (`np.asarray(val, dtype=float).view(cls)` of a new array) -/
def alloc (st : Store A) (s : Sys) (a : A) (deps : List Nat) : Store A × Nat :=
  ({ nbuf := st.nbuf + 1
     mem := fun b => if b = st.nbuf then a else st.mem b
     n := st.n + 1
     obj := fun j => if j = st.n then ⟨s, st.nbuf, [], none, deps, st.n⟩ else st.obj j }, st.n)

/-- `self._cache[<other system>] = c` -/
def setCache (st : Store A) (o : Nat) (c : Option Nat) : Store A :=
  { st with obj := fun j => if j = o then { st.obj o with cache := c } else st.obj j }

/-- `PosBase.to_system(system)`:
```
if system == self.system: return self
if system in self._cache: return self._cache[system]
self._cache[system] = _SYSTEMS[...][system].convert_to(self, _CONVERSIONS[...][hop]) ; return it
```
with `PosVelArray.convert_to`: a new array from `converter(pos)` which registers `pos` as depending on it
(`converted.add_dependency(pos)`, fix 3693fe8). -/
def toSystem (st : Store A) (o : Nat) (s : Sys) : Store A × Nat :=
  if s = (st.obj o).sys then (st, o)
  else match (st.obj o).cache with
    | some c => (st, c)
    | none =>
      let r := alloc st s (Arr.conv s (contents st o)) [o]
      (setCache r.1 o (some r.2), r.2)

/-- `PositionArray.__getitem__` with an `int` or `slice`: a new object on the same memory;
`_share_memory_with`: `rows.add_dependency(self); self.add_dependency(rows)`, and (fix eb25352,
`_link_shared_memory` in `__new__`) the same with the array that owns the memory, which is `.base` of every view -/
def view (st : Store A) (o : Nat) (k : String) : Store A × Nat :=
  let p := st.obj o
  ({ st with
     n := st.n + 1
     obj := fun j => if j = st.n then ⟨p.sys, p.buf, p.path ++ [k], none, [p.root, o], p.root⟩
                     else if j = o ∨ j = p.root then { st.obj j with deps := (st.obj j).deps ++ [st.n] }
                     else st.obj j }, st.n)

/-- `PositionArray.__getitem__` with a list of rows: a copy, nothing shared -/
def take (st : Store A) (o : Nat) (k : String) : Store A × Nat :=
  alloc st (st.obj o).sys (Arr.get k (contents st o)) []

/-- the dependents of the objects in `S` that are not in `S` yet -/
def newDeps (st : Store A) (S : List Nat) : List Nat :=
  (S.flatMap fun i => (st.obj i).deps).filter fun j => !S.contains j

/-- `_clear_dependent_caches`: the set of objects reached from `S` through `_dependent_objs`
(the code walks it depth first with a `seen` set; the set reached is the same) -/
def sat (st : Store A) : Nat → List Nat → List Nat
  | 0, S => S
  | f + 1, S => if (newDeps st S).isEmpty then S else sat st f (S ++ newDeps st S)

def clearSet (st : Store A) (o : Nat) : List Nat := sat st st.n [o]

/-- `PosBase.__setitem__(key, item)`: clear the cache of this object and of everything that depends on it,
then write into the memory (which every view of the block sees) -/
def setItem (st : Store A) (o : Nat) (k : String) (v : A) : Store A :=
  let S := clearSet st o
  let p := st.obj o
  let whole := st.mem p.buf
  { st with
    mem := fun b => if b = p.buf then putPath p.path (Arr.put k v (getPath p.path whole)) whole else st.mem b
    obj := fun j => if S.contains j then { st.obj j with cache := none } else st.obj j }

/-- the operations of a history -/
inductive Op (A : Type) where
  | new (s : Sys) (a : A)
  | toSys (o : Nat) (s : Sys)
  | view (o : Nat) (k : String)
  | take (o : Nat) (k : String)
  | set (o : Nat) (k : String) (v : A)

/-- one operation; the second component is the id of the object handed out.  Operations on ids that do not
exist are ignored. -/
def step (st : Store A) : Op A → Store A × Option Nat
  | .new s a => let r := alloc st s a []; (r.1, some r.2)
  | .toSys o s => if o < st.n then let r := toSystem st o s; (r.1, some r.2) else (st, none)
  | .view o k => if o < st.n then let r := view st o k; (r.1, some r.2) else (st, none)
  | .take o k => if o < st.n then let r := take st o k; (r.1, some r.2) else (st, none)
  | .set o k v => if o < st.n then (setItem st o k v, none) else (st, none)

def run (st : Store A) (ops : List (Op A)) : Store A := ops.foldl (fun s op => (step s op).1) st

/-! ### symbolic array values (what the driver computes with) -/

inductive Term where
  | lit (n : Nat)
  | conv (s : Sys) (t : Term)
  | get (k : String) (t : Term)
  | put (k : String) (v : Term) (t : Term)
  deriving Repr, Inhabited

instance : Arr Term := ⟨Term.conv, Term.get, Term.put⟩

def Sys.tok : Sys → String
  | .trs => "t"
  | .kepler => "k"

def Term.render : Term → String
  | .lit n => s!"L{n}"
  | .conv s t => s!"C({s.tok},{t.render})"
  | .get k t => s!"G({k},{t.render})"
  | .put k v t => s!"P({k},{v.render},{t.render})"

end Midgard.Geo.PosCache
