/-
C03 — the switch of the heap model's constructors (`ctorH writes`), read off the regenerated table of in-place operations
of `_time.py` (`Generated/TimePurity.lean`).  Used by the theorems (Props/C03 `ops_pure`) and by the compiled driver.
-/
import Midgard.Model.TimeArrays
import Midgard.Generated.TimePurity

namespace Midgard.TimeArith
open Midgard.Generated.TimePurity

/-- does the tree under test contain an in-place operation (`x += …`, `x[…] = …`, `out=x`, a mutating method, an attribute
assignment) on something a function received from its caller — outside the `memo` dictionaries of `subset` / `insert` /
`__deepcopy__` / `_read` and the HDF5 attributes written by `_write` -/
def srcWrites : Bool :=
  inplace.any (fun e => (e.kind == "aug" || e.kind == "store" || e.kind == "out" || e.kind == "call" || e.kind == "attr")
    && e.root != "memo" && e.fn != "TimeBase._write")

/-- does a `_to_jds` / `to_jds` of the tree under test return one of its arguments (or a view of it) un-copied -/
def srcAliases : Bool := inplace.any (fun e => e.kind == "return" && e.detail == "to_jds")

end Midgard.TimeArith
