/-
C03 — the switch of the heap model's constructors (`ctorH writes`), read off the regenerated table of in-place operations
of `_time.py` (`Generated/TimePurity.lean`).  Used by the theorems (Props/C03 `ops_pure`) and by the compiled driver.
-/
import Midgard.Model.TimeArrays
import Midgard.Generated.TimePurity

namespace Midgard.TimeArith
open Midgard.Generated.TimePurity

/-- does the tree under test contain an in-place operation (`x += …`, `x[…] = …`, `out=x`, a mutating method, an attribute
assignment) on something a function received from its caller — outside the `memo` dictionaries of `subset` / `insert` /
`__deepcopy__` / `_read` and the HDF5 attributes written by `_write` -/
def srcWrites : Bool :=
  inplace.any (fun e => (e.kind == "aug" || e.kind == "store" || e.kind == "out" || e.kind == "call" || e.kind == "attr")
    && e.root != "memo" && e.fn != "TimeBase._write")

/-- does a `_to_jds` / `to_jds` of the tree under test return one of its arguments (or a view of it) un-copied -/
def srcAliases : Bool := inplace.any (fun e => e.kind == "return" && e.detail == "to_jds")

/-- are all reflected / in-place operator methods of the tree under test stubs that return `NotImplemented`, is `+`/`-` only
defined by the two base classes, and does no class take NumPy's ufunc dispatch into its own hands -/
def srcReflRefuses : Bool :=
  operators.all (fun o =>
    (o.1 == "TimeArray" || o.1 == "TimeDeltaArray") &&
    (if o.2.1 == "__add__" || o.2.1 == "__sub__" then o.2.2 == "computes"
     else (o.2.1 == "__radd__" || o.2.1 == "__rsub__" || o.2.1 == "__iadd__" || o.2.1 == "__isub__") && o.2.2 == "refuses"))

end Midgard.TimeArith
