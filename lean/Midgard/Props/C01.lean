/-
C01 — Time-scale conversions agree with the defined offsets and are invertible.

Property theorems only.  `T`, `C`, `G` are the tables regenerated from `/repo` on every run
(`Generated/TimeScaleTables.lean`): the TAI−UTC rows, the TT/TCG constants and the registered
hop set.  All statements are exact over `Rat` for every epoch; floating-point error of the
implementation is measured by the correspondence (harness/c01.py), not proved.
-/
import Midgard.Proofs.TimeScale
import Midgard.Generated.TimeScaleTables
import Midgard.Spec.TaiUtcPublished
import Midgard.Generated.SourceExprsTime
import Midgard.Proofs.TimeSearch
import Mathlib.Tactic.NormNum

set_option linter.unusedSimpArgs false

namespace Midgard.Props.C01
open Midgard.TimeScale Midgard.TimeArith

abbrev T : List Row := Generated.TimeScale.taiutc
abbrev C : Consts := Generated.TimeScale.consts
abbrev G : List Hop := Generated.TimeScale.hops

/-! ### The tables are the published / defined ones -/

/-- the repository's TAI−UTC table is, row for row, the IERS history (typed independently by
calendar date in `Spec/TaiUtcPublished.lean`) -/
theorem taiutc_eq_published : T = Spec.TaiUtc.rows := by decide +kernel

/-- every data line of `_taiutc.txt` has exactly the five columns -/
theorem taiutc_rows_complete : Generated.TimeScale.rowWidths.all (· == 5) = true := by decide +kernel

/-- sorted, contiguous, non-empty rows, drift ≥ 0, and the row starts are also ascending on the
TAI side -/
theorem taiutc_wf : WF T = true := by decide +kernel

/-- the table covers 1961-01-01 … 9999-12-31 without a gap -/
theorem taiutc_span : (T.head?.map (·.start)) = some (Spec.TaiUtc.jd0h 1961 1 1) ∧
    (T.getLast?.map (·.stop)) = some (Spec.TaiUtc.jd0h 9999 12 31) := by decide +kernel

/-- the defined constants: L_G = 6.969290134e-10, T₀ = 2443144.5003725 (split 2443144 + 0.5003725);
the boundary rounding tolerance is 1e-14 day (0.86 ns) -/
theorem constants_defined : C = ⟨6969290134 / 10^19, 2443144, 5003725 / 10^7, 1 / 10^14⟩ := by decide +kernel

/-- exactly the eight hops of the model are registered, each under the function of that name -/
theorem hops_registered :
    Generated.TimeScale.hopNames =
      [("utc", "tai", "_utc2tai"), ("tai", "utc", "_tai2utc"), ("tai", "tt", "_tai2tt"),
       ("tai", "gps", "_tai2gps"), ("tcg", "tt", "_tcg2tt"), ("gps", "tai", "_gps2tai"),
       ("tt", "tai", "_tt2tai"), ("tt", "tcg", "_tt2tcg")] ∧
    G = [(.utc, .tai), (.tai, .utc), (.tai, .tt), (.tai, .gps), (.tcg, .tt), (.gps, .tai),
         (.tt, .tai), (.tt, .tcg)] := by decide +kernel

/-- `Unit.seconds2day` is the double nearest to 1/86400 and `day2seconds` is 86400 (the model
divides by 86400 exactly) -/
theorem unit_factors : Generated.TimeScale.unit_day2seconds = 86400 ∧
    Generated.TimeScale.unit_seconds2day = Generated.TimeScale.unit_second2day ∧
    (Generated.TimeScale.unit_seconds2day - 1 / 86400) * 2 ^ 69 < 1 ∧
    (1 / 86400 - Generated.TimeScale.unit_seconds2day) * 2 ^ 69 < 1 := by decide +kernel

/-! ### The defining relations -/

/-- TAI−UTC equals the published value in force at that UTC instant: for every two-part date
whose instant lies in row `i`, the conversion adds `offset + (MJD − ref)·rate` seconds of that
row.  Boundaries are `start ≤ u < stop`; the last `tol` = 0.86 ns before `stop` are excluded here
because the code deliberately counts them as on the boundary (rounding guard). -/
theorem utc2tai_defining (j : JD) (i : Nat) (hi : i < T.length)
    (h1 : T[i].start ≤ j.inst) (h2 : j.inst + C.tol < T[i].stop) :
    (utc2tai T C.tol j).inst = j.inst + (T[i].offset + (j.inst - mjd0 - T[i].refMjd) * T[i].rate) / 86400 := by
  have ht : (0 : Rat) ≤ C.tol := by decide +kernel
  rw [utc2tai_inst_row T C.tol j _ (rowAt_utc taiutc_wf C.tol j i hi (by linarith) h2)]
  rfl

/-- TAI − GPS = 19 s -/
theorem gps_tai (j : JD) : (gps2tai j).inst = j.inst + 19 / 86400 ∧ (tai2gps j).inst = j.inst - 19 / 86400 := by
  simp only [gps2tai, tai2gps, JD.inst, gpsTaiDays, secPerDay]; constructor <;> ring

/-- TT − TAI = 32.184 s -/
theorem tt_tai (j : JD) :
    (tai2tt j).inst = j.inst + (32184 / 1000) / 86400 ∧ (tt2tai j).inst = j.inst - (32184 / 1000) / 86400 := by
  simp only [tai2tt, tt2tai, JD.inst, ttTaiDays, secPerDay]; constructor <;> ring

/-- TCG − TT = L_G/(1−L_G) · (TT − T₀) -/
theorem tcg_tt (c : Consts) (j : JD) :
    (tt2tcg c j).inst - j.inst = c.lG / (1 - c.lG) * (j.inst - (c.t0jd1 + c.t0jd2)) := by
  simp only [tt2tcg, tcgDt, JD.inst]; ring

/-- every hop keeps `jd1` and shifts `jd2` (so element i of the result belongs to input i and
the whole-day part is never touched) -/
theorem hop_keeps_jd1 (h : Hop) (f : JD → JD) (hf : hopFn T C h = some f) (j : JD) : (f j).jd1 = j.jd1 :=
  (hop_inst T C h f hf j).1

/-! ### Invertibility A → B → A -/

theorem gps_tai_inverse (j : JD) : tai2gps (gps2tai j) = j ∧ gps2tai (tai2gps j) = j := by
  cases j; simp only [gps2tai, tai2gps, JD.mk.injEq, true_and]; constructor <;> ring

theorem tt_tai_inverse (j : JD) : tt2tai (tai2tt j) = j ∧ tai2tt (tt2tai j) = j := by
  cases j; simp only [tai2tt, tt2tai, JD.mk.injEq, true_and]; constructor <;> ring

theorem tcg_tt_inverse (c : Consts) (hc : c.lG ≠ 1) (j : JD) :
    (tcg2tt c (tt2tcg c j)).inst = j.inst ∧ (tt2tcg c (tcg2tt c j)).inst = j.inst := by
  have h : (1 - c.lG) ≠ 0 := sub_ne_zero.mpr (Ne.symm hc)
  simp only [tt2tcg, tcg2tt, tcgDt, JD.inst]
  constructor <;> field_simp <;> ring

/-- UTC → TAI → UTC returns the same instant, exactly, for every UTC label of the table that
really occurred (`UtcOK`: all labels except the 0.05 s / 0.1 s skipped by the two negative steps
of 1961-08-01 and 1968-02-01). -/
theorem tai2utc_utc2tai (j : JD) (hok : UtcOK T C.tol j.inst) :
    (tai2utc T C.tol (utc2tai T C.tol j)).inst = j.inst :=
  tai2utc_utc2tai_inst taiutc_wf (by decide +kernel) j hok

/-- TAI → UTC → TAI returns the same instant, exactly, for every TAI instant of the table that
does not fall inside an inserted step (the exclusion the property grants) nor within the 0.86 ns rounding guard before a boundary. -/
theorem utc2tai_tai2utc (j : JD) (hok : TaiOK T C.tol j.inst) :
    (utc2tai T C.tol (tai2utc T C.tol j)).inst = j.inst :=
  utc2tai_tai2utc_inst taiutc_wf (by decide +kernel) j hok

/-- only the rows ending 1961-08-01 and 1968-02-01 are followed by a negative step -/
theorem negative_steps :
    (List.range (T.length - 1)).filter
      (fun i => !decide ((T.getD i default).stop + (T.getD i default).deltaDays (T.getD i default).stop
                  ≤ taiStart (T.getD (i + 1) default))) = [0, 11] := by decide +kernel

/-! ### Routes and path independence -/

/-- the route through the tree of registered hops (hub `tai`, with `tcg` hanging off `tt`) -/
def toTai : Scale → List Hop
  | .utc => [(.utc, .tai)] | .tai => [] | .gps => [(.gps, .tai)] | .tt => [(.tt, .tai)]
  | .tcg => [(.tcg, .tt), (.tt, .tai)]
def fromTai : Scale → List Hop
  | .utc => [(.tai, .utc)] | .tai => [] | .gps => [(.tai, .gps)] | .tt => [(.tai, .tt)]
  | .tcg => [(.tai, .tt), (.tt, .tcg)]
def expectedRoute : Scale → Scale → List Hop
  | .tt, .tcg => [(.tt, .tcg)]
  | .tcg, .tt => [(.tcg, .tt)]
  | a, b => if a = b then [] else toTai a ++ fromTai b

/-- every ordered pair of scales has a route, and it is the tree path (breadth-first search over
the regenerated hop set, evaluated by the kernel for all 25 pairs) -/
theorem route_total (a b : Scale) : route G a b = some (expectedRoute a b) := by
  cases a <;> cases b <;> decide +kernel

theorem route_hops_registered (a b : Scale) : ∀ h ∈ expectedRoute a b, (hopFn T C h).isSome = true := by
  cases a <;> cases b <;> decide +kernel

/-- conversion is defined for every pair and epoch, keeps `jd1`, and acts on the instant as the
composition of the hop relations along the route -/
theorem convert_spec (a b : Scale) (j : JD) :
    ∃ j', convert T C G a b j = some j' ∧ j'.jd1 = j.jd1 ∧ j'.inst = routeI T C (expectedRoute a b) j.inst := by
  obtain ⟨j', h1, h2, h3⟩ := foldlM_route T C (expectedRoute a b) (route_hops_registered a b) j
  exact ⟨j', by simp only [convert, route_total, Option.bind_eq_bind, Option.bind_some]; exact h1, h2, h3⟩

/-- arrays: element `i` of the result is the conversion of element `i` -/
theorem convertArr_get (a b : Scale) (js : List JD) :
    ∃ out, convertArr T C G a b js = some out ∧ out.length = js.length ∧
      ∀ i (h : i < js.length) (h' : i < out.length), convert T C G a b js[i] = some out[i] := by
  induction js with
  | nil => exact ⟨[], rfl, rfl, fun i h => by simp at h⟩
  | cons j rest ih =>
    obtain ⟨out, h1, h2, h3⟩ := ih
    obtain ⟨j', hj, _, _⟩ := convert_spec a b j
    refine ⟨j' :: out, ?_, by simp [h2], ?_⟩
    · simp only [convertArr, List.mapM_cons, hj, Option.bind_eq_bind, Option.bind_some] at h1 ⊢
      rw [h1]; rfl
    · intro i h h'
      cases i with
      | zero => simpa using hj
      | succ k => simpa using h3 k (by simpa using h) (by simpa using h')

/-- instant-level inverse pairs used by path independence -/
theorem hopI_gps (x : Rat) : hopI T C (.tai, .gps) (hopI T C (.gps, .tai) x) = x ∧
    hopI T C (.gps, .tai) (hopI T C (.tai, .gps) x) = x := by
  simp only [hopI, hopFn, gps2tai, tai2gps, JD.inst]; constructor <;> ring

theorem hopI_tt (x : Rat) : hopI T C (.tai, .tt) (hopI T C (.tt, .tai) x) = x ∧
    hopI T C (.tt, .tai) (hopI T C (.tai, .tt) x) = x := by
  simp only [hopI, hopFn, tai2tt, tt2tai, JD.inst]; constructor <;> ring

theorem lG_ne_one : C.lG ≠ 1 := by decide +kernel

theorem hopI_tcg (x : Rat) : hopI T C (.tcg, .tt) (hopI T C (.tt, .tcg) x) = x ∧
    hopI T C (.tt, .tcg) (hopI T C (.tcg, .tt) x) = x := by
  have h := tcg_tt_inverse C lG_ne_one ⟨x, 0⟩
  have e1 := hop_inst T C (.tt, .tcg) _ rfl ⟨x, 0⟩
  have e2 := hop_inst T C (.tcg, .tt) _ rfl (tt2tcg C ⟨x, 0⟩)
  have e3 := hop_inst T C (.tcg, .tt) _ rfl ⟨x, 0⟩
  have e4 := hop_inst T C (.tt, .tcg) _ rfl (tcg2tt C ⟨x, 0⟩)
  have hx : (⟨x, 0⟩ : JD).inst = x := by simp [JD.inst]
  constructor
  · rw [← hx, ← e1.2, ← e2.2, h.1]
  · rw [← hx, ← e3.2, ← e4.2, h.2]

theorem hopI_utc_of_ok (x : Rat) (hok : UtcOK T C.tol x) : hopI T C (.tai, .utc) (hopI T C (.utc, .tai) x) = x := by
  have hx : (⟨x, 0⟩ : JD).inst = x := by simp [JD.inst]
  have e1 := hop_inst T C (.utc, .tai) _ rfl ⟨x, 0⟩
  have e2 := hop_inst T C (.tai, .utc) _ rfl (utc2tai T C.tol ⟨x, 0⟩)
  have := tai2utc_utc2tai ⟨x, 0⟩ (by rw [hx]; exact hok)
  rw [← hx, ← e1.2, ← e2.2, this]

theorem hopI_tai_of_ok (x : Rat) (hok : TaiOK T C.tol x) : hopI T C (.utc, .tai) (hopI T C (.tai, .utc) x) = x := by
  have hx : (⟨x, 0⟩ : JD).inst = x := by simp [JD.inst]
  have e1 := hop_inst T C (.tai, .utc) _ rfl ⟨x, 0⟩
  have e2 := hop_inst T C (.utc, .tai) _ rfl (tai2utc T C.tol ⟨x, 0⟩)
  have := utc2tai_tai2utc ⟨x, 0⟩ (by rw [hx]; exact hok)
  rw [← hx, ← e1.2, ← e2.2, this]

/-- **Path independence and invertibility**, all 125 two-hop routes: going A → B → C gives
exactly the instant of A → C (with C = A: the identity).  Hypotheses only where the route passes
through UTC and back: the UTC label must be one that occurred (`h1`), resp. the TAI instant must
not lie inside an inserted step (`h2`). -/
theorem path_independent (a b c : Scale) (x : Rat)
    (h1 : a = .utc → c = .utc → b ≠ .utc → UtcOK T C.tol x)
    (h2 : b = .utc → a ≠ .utc → c ≠ .utc → TaiOK T C.tol (routeI T C (toTai a) x)) :
    routeI T C (expectedRoute b c) (routeI T C (expectedRoute a b) x) = routeI T C (expectedRoute a c) x := by
  have g1 := fun y => (hopI_gps y).1
  have g2 := fun y => (hopI_gps y).2
  have t1 := fun y => (hopI_tt y).1
  have t2 := fun y => (hopI_tt y).2
  have c1 := fun y => (hopI_tcg y).1
  have c2 := fun y => (hopI_tcg y).2
  cases a <;> cases b <;> cases c <;>
    simp only [expectedRoute, toTai, fromTai, routeI, List.nil_append, List.cons_append, reduceCtorEq,
      ↓reduceIte, g1, g2, t1, t2, c1, c2] <;>
    first
    | rfl
    | (exact hopI_utc_of_ok x (h1 rfl rfl (by decide)))
    | (have hh := h2 rfl (by decide) (by decide)
       simp only [toTai, routeI] at hh
       rw [hopI_tai_of_ok _ hh]
       try simp only [g1, g2, t1, t2, c1, c2])

/-! ### Non-vacuity: the hypotheses are met by concrete epochs -/

/-- 2017-01-01 0h UTC (the instant of the last leap second boundary) is a real label … -/
example : UtcOK T C.tol (4915509 / 2) :=
  ⟨40, by decide +kernel, by decide +kernel, by decide +kernel, fun h => absurd h (by decide +kernel)⟩
/-- … and so is the last microsecond before it (row 39, offset 36 s) -/
example : UtcOK T C.tol (4915509 / 2 - 1 / 86400000000) :=
  ⟨39, by decide +kernel, by decide +kernel, by decide +kernel, by decide +kernel⟩
/-- TAI 2017-01-01 00:00:37 (the first instant after the inserted second) is not inside a step -/
example : TaiOK T C.tol (4915509 / 2 + 37 / 86400) :=
  ⟨40, by decide +kernel, by decide +kernel, by decide +kernel, fun h => absurd h (by decide +kernel)⟩
example : (utc2tai T C.tol ⟨4915509 / 2, 0⟩).inst - 4915509 / 2 = 37 / 86400 := by decide +kernel
example : (utc2tai T C.tol ⟨4915507 / 2, 86399999999 / 86400000000⟩).inst
    - (4915507 / 2 + 86399999999 / 86400000000) = 36 / 86400 := by decide +kernel


/-! ### The model is the source (regenerated on every run)

`Generated/SourceExprsTime.lean` is written by `translator/extract_exprs.py` from the Python `ast` of `_time.py` in
the tree under test: the arithmetic of `delta_tai_utc` (both branches), of the row starts expressed in TAI, of the
"row has started" test of `_taiutc_idx`, of `delta_tai_tt`, `delta_gps_tai`, `delta_tcg_tt` (both branches each) and
of the eight registered hop functions, statement by statement.  The theorems of this section say that the model
definitions every other theorem of this file is about are *equal* (over ℚ) to those regenerated definitions, with
`Unit.seconds2day = 1/86400`.  The control flow around that arithmetic — the NumPy row selection (`np.sum(… >= 0) - 1`,
`np.maximum`), the route search and `to_scale`'s folding of the hops — is regenerated as well (`Generated/SourceTimeFlow.lean`,
second half of this section).  Still hand-modelled and tied by the correspondence only: NumPy's broadcasting of the row test
over arrays of epochs (modelled as `map`; the translator checks the axis pattern `[..., None]` / `axis=-1`), the memoisation of
routes in `_CONVERSION_HOPS` and of results in `lru_cache` (C08). -/
section Source
open Midgard.Generated
set_option linter.unusedTactic false
set_option linter.unreachableTactic false
set_option linter.unnecessarySeqFocus false
set_option linter.unusedSimpArgs false

open Lean.Parser.Tactic in
macro "src_tie_q" "[" ds:simpLemma,* "]" : tactic =>
  `(tactic| first
    | rfl
    | (simp only [$ds,*, Prod.mk.injEq, JD.mk.injEq]
       <;> (repeat' constructor)
       <;> ((try norm_num1) <;> (first | rfl | ring_nf | (field_simp; ring_nf)))))

/-- `Unit.seconds2day` is the reciprocal of the day length the model divides by -/
def s2d : Rat := 1 / secPerDay

theorem source_delta_tai_utc (r : Row) (mjd : Rat) :
    SrcTime.deltaTaiUtcOfUtcSrc r.offset r.refMjd r.rate mjd s2d = r.deltaAt mjd / secPerDay ∧
    SrcTime.deltaTaiUtcOfTaiSrc r.offset r.refMjd r.rate mjd s2d
      = (0 - (r.offset + (mjd - r.refMjd) * r.rate) / (1 + r.rate / secPerDay)) / secPerDay ∧
    SrcTime.rowStartDeltaSrc r.start r.offset r.refMjd r.rate s2d = r.startDelta := by
  refine ⟨?_, ?_, ?_⟩ <;>
    src_tie_q [SrcTime.deltaTaiUtcOfUtcSrc, SrcTime.deltaTaiUtcOfTaiSrc, SrcTime.rowStartDeltaSrc, Row.deltaAt, Row.startDelta, s2d, secPerDay, mjd0]

theorem source_row_started (r : Row) (tol : Rat) (j : JD) :
    (SrcTime.rowStartedSrc j.jd1 j.jd2 r.start 0 tol = decide (0 ≤ (j.jd1 - r.start) + j.jd2 + tol)) ∧
    (SrcTime.rowStartedSrc j.jd1 j.jd2 r.start r.startDelta tol = decide (0 ≤ (j.jd1 - r.start) + j.jd2 - r.startDelta + tol)) := by
  constructor <;> (simp only [SrcTime.rowStartedSrc, ge_iff_le, decide_eq_decide]; try ring_nf)

theorem source_constant_offsets :
    SrcTime.deltaTaiTtOfTaiSrc s2d = ttTaiDays ∧ SrcTime.deltaTaiTtOfTtSrc s2d = -ttTaiDays ∧
    SrcTime.deltaGpsTaiOfGpsSrc s2d = gpsTaiDays ∧ SrcTime.deltaGpsTaiOfTaiSrc s2d = -gpsTaiDays := by
  refine ⟨?_, ?_, ?_, ?_⟩ <;>
    (simp only [SrcTime.deltaTaiTtOfTaiSrc, SrcTime.deltaTaiTtOfTtSrc, SrcTime.deltaGpsTaiOfGpsSrc, SrcTime.deltaGpsTaiOfTaiSrc, ttTaiDays, gpsTaiDays, s2d, secPerDay]; norm_num)

theorem source_delta_tcg_tt (c : Consts) (j : JD) :
    SrcTime.deltaTcgTtOfTtSrc j.jd1 j.jd2 c.t0jd1 c.t0jd2 c.lG = c.lG / (1 - c.lG) * tcgDt c j ∧
    SrcTime.deltaTcgTtOfTcgSrc j.jd1 j.jd2 c.t0jd1 c.t0jd2 c.lG = -(c.lG * tcgDt c j) := by
  refine ⟨?_, ?_⟩ <;> src_tie_q [SrcTime.deltaTcgTtOfTtSrc, SrcTime.deltaTcgTtOfTcgSrc, tcgDt]

/-- the eight registered hops: each keeps `jd1` and adds to `jd2` the delta function the source calls -/
theorem source_hops (tbl : List Row) (c : Consts) (j : JD) (x1 x2 x3 x4 : Rat) :
    (let r := utc2tai tbl c.tol j; SrcTime.utc2taiSrc j.jd1 j.jd2 (deltaUtc tbl c.tol j) x2 x3 x4 = (r.jd1, r.jd2)) ∧
    (let r := tai2utc tbl c.tol j; SrcTime.tai2utcSrc j.jd1 j.jd2 (deltaTai tbl c.tol j) x2 x3 x4 = (r.jd1, r.jd2)) ∧
    (let r := tai2tt j; SrcTime.tai2ttSrc j.jd1 j.jd2 x1 (SrcTime.deltaTaiTtOfTaiSrc s2d) x3 x4 = (r.jd1, r.jd2)) ∧
    (let r := tt2tai j; SrcTime.tt2taiSrc j.jd1 j.jd2 x1 (SrcTime.deltaTaiTtOfTtSrc s2d) x3 x4 = (r.jd1, r.jd2)) ∧
    (let r := tt2tcg c j; SrcTime.tt2tcgSrc j.jd1 j.jd2 x1 x2 (SrcTime.deltaTcgTtOfTtSrc j.jd1 j.jd2 c.t0jd1 c.t0jd2 c.lG) x4 = (r.jd1, r.jd2)) ∧
    (let r := tcg2tt c j; SrcTime.tcg2ttSrc j.jd1 j.jd2 x1 x2 (SrcTime.deltaTcgTtOfTcgSrc j.jd1 j.jd2 c.t0jd1 c.t0jd2 c.lG) x4 = (r.jd1, r.jd2)) ∧
    (let r := gps2tai j; SrcTime.gps2taiSrc j.jd1 j.jd2 x1 x2 x3 (SrcTime.deltaGpsTaiOfGpsSrc s2d) = (r.jd1, r.jd2)) ∧
    (let r := tai2gps j; SrcTime.tai2gpsSrc j.jd1 j.jd2 x1 x2 x3 (SrcTime.deltaGpsTaiOfTaiSrc s2d) = (r.jd1, r.jd2)) := by
  have h := source_constant_offsets
  have g := source_delta_tcg_tt c j
  refine ⟨?_, ?_, ?_, ?_, ?_, ?_, ?_, ?_⟩ <;>
    (simp only [SrcTime.utc2taiSrc, SrcTime.tai2utcSrc, SrcTime.tai2ttSrc, SrcTime.tt2taiSrc, SrcTime.tt2tcgSrc, SrcTime.tcg2ttSrc,
       SrcTime.gps2taiSrc, SrcTime.tai2gpsSrc, utc2tai, tai2utc, tai2tt, tt2tai, tt2tcg, tcg2tt, gps2tai, tai2gps, h.1, h.2.1, h.2.2.1, h.2.2.2, g.1, g.2,
       Prod.mk.injEq, true_and] <;> (first | rfl | ring_nf))

/-! #### Control flow (regenerated on every run by `translator/extract_timeflow.py` → `Generated/SourceTimeFlow.lean`)

The row selection of `_taiutc_idx` (`np.maximum(np.sum(<row has started>, axis=-1) - 1, 0)`, with the arguments each branch of
`delta_tai_utc` passes), the breadth-first search of `_find_conversion_hops` statement by statement, and `to_scale` /
`_to_scale` (own scale, registered direct hop, searched route, fold of the hop functions).  For every table, registry, pair
of scales and iteration bound the regenerated definitions are the model's `rowAt ∘ startedUtc/startedTai`, `bfs`, `route`,
`convert`. -/

/-- the four table columns `_taiutc_idx` / `delta_tai_utc` read: start, offset, ref_epoch, factor -/
def rowCols (r : Row) : Rat × Rat × Rat × Rat := (r.start, r.offset, r.refMjd, r.rate)

/-- **row selection**: the row the model looks up (`rowAt` of the number of started rows) is `table[idx]` for the index the
source computes, in both branches of `delta_tai_utc` -/
theorem source_row_selection (tbl : List Row) (tol : Rat) (j : JD) :
    rowAt tbl (startedUtc tbl tol j) = Flow.rowOf tbl (SrcFlow.rowIndexOfUtcSrc (tbl.map rowCols) tol s2d j.jd1 j.jd2) ∧
    rowAt tbl (startedTai tbl tol j) = Flow.rowOf tbl (SrcFlow.rowIndexOfTaiSrc (tbl.map rowCols) tol s2d j.jd1 j.jd2) := by
  have hU : ∀ r : Row, SrcTime.rowStartedSrc j.jd1 j.jd2 r.start (0.0 : Rat) tol
      = decide (0 ≤ (j.jd1 - r.start) + j.jd2 + tol) := by
    intro r
    have h0 : (0.0 : Rat) = 0 := by norm_num
    rw [h0]; exact (source_row_started r tol j).1
  have hT : ∀ r : Row, SrcTime.rowStartedSrc j.jd1 j.jd2 r.start (SrcTime.rowStartDeltaSrc r.start r.offset r.refMjd r.rate s2d) tol
      = decide (0 ≤ (j.jd1 - r.start) + j.jd2 - r.startDelta + tol) := by
    intro r
    rw [(source_delta_tai_utc r 0).2.2]; exact (source_row_started r tol j).2
  constructor
  · simp only [SrcFlow.rowIndexOfUtcSrc, SrcFlow.taiutcIdxSrc, List.map_map, countTrue_map, rowOf_idx, rowAt, startedUtc,
      Function.comp_def, rowCols, hU]
  · simp only [SrcFlow.rowIndexOfTaiSrc, SrcFlow.taiutcIdxSrc, List.map_map, countTrue_map, rowOf_idx, rowAt, startedTai,
      Function.comp_def, rowCols, hT]

/-- **route search**: `_find_conversion_hops` as written in the source is the model's breadth-first search, for every
registry (any set of hops in any registration order), every pair of scales and every bound on the loop iterations -/
theorem source_route_search (g : List Hop) (a b : Scale) (fuel : Nat) :
    SrcFlow.findHopsSrc g a b fuel = if a = b then some [(a, b)] else bfs g b fuel [(a, [])] [] :=
  findHopsSrc_eq g a b fuel

/-- **`to_scale`**: the route it takes is the model's `route`, and what it returns is the model's `convert` (the fold of the
registered hop functions along that route) -/
theorem source_to_scale (tbl : List Row) (c : Consts) (g : List Hop) (a b : Scale) (j : JD) :
    SrcFlow.toScaleRouteSrc g a b 64 = route g a b ∧
    SrcFlow.toScaleSrc g (hopFn tbl c) a b 64 j = convert tbl c g a b j :=
  ⟨toScaleRouteSrc_eq g a b, toScaleSrc_eq tbl c g a b j⟩

/-- the bound of 64 loop iterations is never reached on the registered hop set: with 8 hops the search ends after at most
9 iterations for every pair (the route found with bound 9 is the route found with bound 64) -/
theorem route_bound_suffices (a b : Scale) : SrcFlow.toScaleRouteSrc G a b 9 = SrcFlow.toScaleRouteSrc G a b 64 := by
  cases a <;> cases b <;> decide +kernel

/-! #### The registry: nothing registered lies outside the theorems above

`Generated.SrcFlow.registerSites` lists every `@register_scale(…)` of the package (`ast` of midgard/**/*.py);
`Generated.TimeScale.scaleNames/hopNames` is what the imported module holds. -/

/-- the decorators of the source tree register exactly the five `TimeArray` scales with the eight hops of `hops_registered`,
and the five `TimeDeltaArray` scales with no conversion at all (a duration is never converted between scales: outside the
property); no other module registers a scale (there is no UT1, TDB, … in this tree) -/
theorem registry_complete :
    (SrcFlow.registerSites.filter (fun s => s.2.2.1 == "TimeArray")).map (fun s => (s.2.2.2.1, s.2.2.2.2))
      = [("utc", [("utc", "tai", "_utc2tai")]),
         ("tai", [("tai", "utc", "_tai2utc"), ("tai", "tt", "_tai2tt"), ("tai", "gps", "_tai2gps")]),
         ("tcg", [("tcg", "tt", "_tcg2tt")]), ("gps", [("gps", "tai", "_gps2tai")]),
         ("tt", [("tt", "tai", "_tt2tai"), ("tt", "tcg", "_tt2tcg")])] ∧
    (SrcFlow.registerSites.filter (fun s => s.2.2.1 != "TimeArray")).map (fun s => (s.2.2.1, s.2.2.2.1, s.2.2.2.2))
      = [("TimeDeltaArray", "utc", []), ("TimeDeltaArray", "tai", []), ("TimeDeltaArray", "tcg", []),
         ("TimeDeltaArray", "gps", []), ("TimeDeltaArray", "tt", [])] ∧
    SrcFlow.registerSites.all (fun s => s.1 == "midgard/data/_time.py") = true ∧
    Generated.TimeScale.scaleNames = ["utc", "tai", "tcg", "gps", "tt"] ∧
    Generated.TimeScale.deltaScaleNames = ["utc", "tai", "tcg", "gps", "tt"] ∧
    Generated.TimeScale.deltaHopCount = 0 ∧
    (SrcFlow.registerSites.flatMap (fun s => if s.2.2.1 == "TimeArray" then s.2.2.2.2 else [])).length
      = Generated.TimeScale.hopNames.length ∧
    (∀ h ∈ Generated.TimeScale.hopNames, h ∈ SrcFlow.registerSites.flatMap (fun s => s.2.2.2.2)) := by
  decide +kernel

/-- every registered hop is a hop the model has a function for, and every scale pair is served by `convert_spec` -/
theorem registry_modelled : ∀ h ∈ G, (hopFn T C h).isSome = true := by decide +kernel

end Source

end Midgard.Props.C01

#print axioms Midgard.Props.C01.taiutc_eq_published
#print axioms Midgard.Props.C01.taiutc_rows_complete
#print axioms Midgard.Props.C01.taiutc_wf
#print axioms Midgard.Props.C01.taiutc_span
#print axioms Midgard.Props.C01.constants_defined
#print axioms Midgard.Props.C01.hops_registered
#print axioms Midgard.Props.C01.unit_factors
#print axioms Midgard.Props.C01.utc2tai_defining
#print axioms Midgard.Props.C01.gps_tai
#print axioms Midgard.Props.C01.tt_tai
#print axioms Midgard.Props.C01.tcg_tt
#print axioms Midgard.Props.C01.hop_keeps_jd1
#print axioms Midgard.Props.C01.gps_tai_inverse
#print axioms Midgard.Props.C01.tt_tai_inverse
#print axioms Midgard.Props.C01.tcg_tt_inverse
#print axioms Midgard.Props.C01.tai2utc_utc2tai
#print axioms Midgard.Props.C01.utc2tai_tai2utc
#print axioms Midgard.Props.C01.negative_steps
#print axioms Midgard.Props.C01.route_total
#print axioms Midgard.Props.C01.route_hops_registered
#print axioms Midgard.Props.C01.convert_spec
#print axioms Midgard.Props.C01.convertArr_get
#print axioms Midgard.Props.C01.hopI_gps
#print axioms Midgard.Props.C01.hopI_tt
#print axioms Midgard.Props.C01.lG_ne_one
#print axioms Midgard.Props.C01.hopI_tcg
#print axioms Midgard.Props.C01.hopI_utc_of_ok
#print axioms Midgard.Props.C01.hopI_tai_of_ok
#print axioms Midgard.Props.C01.path_independent
#print axioms Midgard.Props.C01.source_delta_tai_utc
#print axioms Midgard.Props.C01.source_row_started
#print axioms Midgard.Props.C01.source_constant_offsets
#print axioms Midgard.Props.C01.source_delta_tcg_tt
#print axioms Midgard.Props.C01.source_hops
#print axioms Midgard.Props.C01.source_row_selection
#print axioms Midgard.Props.C01.source_route_search
#print axioms Midgard.Props.C01.source_to_scale
#print axioms Midgard.Props.C01.route_bound_suffices
#print axioms Midgard.Props.C01.registry_complete
#print axioms Midgard.Props.C01.registry_modelled
