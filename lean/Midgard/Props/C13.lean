/-
C13 — SP3 orbit files (first instalment; extended below)
-/
import Midgard.Model.Sp3
import Midgard.Generated.Sp3Cols
import Midgard.Proofs.FixedCol

namespace Midgard.Props.C13
open Midgard.Sp3 Midgard.Generated.Sp3 Midgard.FixedCol

theorem layouts_sorted : Sorted recP = true ∧ Sorted recV = true ∧ (headerDefs.all fun d => Sorted d.fields) = true := by
  decide +kernel

end Midgard.Props.C13

#print axioms Midgard.Props.C13.layouts_sorted
