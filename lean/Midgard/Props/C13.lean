/-
C13 — SP3 orbit files are parsed into exactly the positions, clocks and epochs given.

Property theorems about `Model/Sp3.lean` at the tables regenerated from `midgard/parsers/sp3.py`
(`Generated/Sp3Cols.lean`), compared with `Spec/Sp3.lean` (SP3-c / SP3-d).
-/
import Midgard.Model.Sp3
import Midgard.Generated.Sp3Cols
import Midgard.Spec.Sp3
import Midgard.Proofs.FixedCol

namespace Midgard.Props.C13
open Midgard.Sp3 Midgard.Generated.Sp3 Midgard.FixedCol Midgard.Text Midgard.Decimal

/-! ## 1. Table obligations -/

theorem layouts_sorted : Sorted recP = true ∧ Sorted recV = true ∧ (headerDefs.all fun d => Sorted d.fields) = true := by
  decide +kernel

/-- **columns = standard**: every header and record table of the parser is the standard's -/
theorem cols_eq_spec :
    recP = Midgard.Spec.Sp3.recP ∧ recV = Midgard.Spec.Sp3.recV ∧
    headerDefs = [⟨"#c", Midgard.Spec.Sp3.firstLine, .string⟩, ⟨"#d", Midgard.Spec.Sp3.firstLine, .string⟩,
                  ⟨"##", Midgard.Spec.Sp3.secondLine, .string⟩, ⟨"%c", Midgard.Spec.Sp3.percentC, .string⟩,
                  ⟨"%f", Midgard.Spec.Sp3.percentF, .float⟩] ∧
    epochFields = [Option.none, some "year", some "month", some "day", some "hour", some "minute", some "second"] := by
  decide +kernel

/-- **unit factors**: kilometres ↦ metres ×1000, microseconds ↦ seconds ×10⁻⁶, millimetres ×10⁻³,
picoseconds ×10⁻¹², the speed of light 299 792 458 m/s — and `_parse_position` refers to exactly
these (each once, `constant.c` twice) -/
theorem unit_factors :
    factors = ⟨1000, mkRat 1 1000000, mkRat 1 1000, mkRat 1 1000000000000, 299792458⟩ ∧
    unitsUsed.length = 6 ∧ unitsUsed.count "constant.c" = 2 ∧
    (["Unit.kilometer2meter", "Unit.microsecond2second", "Unit.millimeter2meter", "Unit.picosecond2second"].all
      fun u => unitsUsed.count u == 1) = true := by
  decide +kernel

/-! ## 2. One position record -/

/-- what the statement says a record must become -/
def expectedEntry (F : Factors) (basePos baseClk : Rat) (e : Epoch) (sat : Str) (x y z clk : Rat)
    (codes : List (Option Nat)) (clkCode : Option Nat) : Entry :=
  ⟨e, sat,
   [x, y, z].map (fun q => if q = 0 then Option.none else some (q * F.km2m)),
   (if clk = 999999.999999 then Option.none else some (clk * F.us2s * F.c)),
   codes.map (fun c => c.map fun k => basePos ^ k * F.mm2m),
   clkCode.map (fun k => baseClk ^ k * (F.ps2s * F.c)),
   sat.take 1⟩

theorem powCode_nat (b : Rat) (k : Nat) : powCode b (k : Rat) = some (b ^ k) := by
  simp [powCode, Rat.den_natCast, Rat.num_natCast]

/-- accuracy column ↦ sigma: blank ↦ NaN, code `k` ↦ `base^k · unit` -/
def sigmaOf (base unit : Rat) (t : Str) : Option (Option Rat) :=
  if t.isEmpty then some Option.none
  else (parseFloat t).bind fun code => (powCode base code).map fun p => some (p * unit)

theorem sigma_blank (base unit : Rat) : sigmaOf base unit [] = some Option.none := rfl

theorem sigma_code (base unit : Rat) (t : Str) (k : Nat) (hne : t ≠ []) (h : parseFloat t = some (k : Rat)) :
    sigmaOf base unit t = some (some (base ^ k * unit)) := by
  unfold sigmaOf
  have : t.isEmpty = false := by cases t <;> simp_all
  simp [this, h, powCode_nat]

/-- **pos_record**: from the field texts of a `P` line to the delivered entry — kilometres ×1000,
microseconds × 10⁻⁶ × c, `0.000000` ↦ NaN, `999999.999999` ↦ NaN, blank accuracy code ↦ NaN,
code `k` ↦ `base^k` millimetres / picoseconds -/
theorem pos_record (F : Factors) (m : Meta) (e : Epoch) (vs : List (String × Str)) (v : Str)
    (basePos baseClk x y z clk : Rat) (codes : List (Option Nat)) (clkCode : Option Nat)
    (hv : mget m "version" = some (.str v)) (hva : v ≠ ['a'])
    (hbp : mget m "base_posvel" = some (.num basePos)) (hbc : mget m "base_clkrate" = some (.num baseClk))
    (hx : parseFloat (get vs "pos_x") = some x) (hy : parseFloat (get vs "pos_y") = some y)
    (hz : parseFloat (get vs "pos_z") = some z) (hc : parseFloat (get vs "clk_bias") = some clk)
    (hs : ["sig_pos_x", "sig_pos_y", "sig_pos_z"].map (fun k => sigmaOf basePos F.mm2m (get vs k)) =
          codes.map (fun c => some (c.map fun k => basePos ^ k * F.mm2m)))
    (hsc : sigmaOf baseClk (F.ps2s * F.c) (get vs "sig_clk_bias") = some (clkCode.map fun k => baseClk ^ k * (F.ps2s * F.c)))
    (hlen : codes.length = 3) :
    parsePosition F m e vs = some (expectedEntry F basePos baseClk e (get vs "sat") x y z clk codes clkCode) := by
  match codes, hlen with
  | [c1, c2, c3], _ =>
    simp only [List.map_cons, List.map_nil, List.cons.injEq, and_true] at hs
    obtain ⟨h1, h2, h3⟩ := hs
    unfold sigmaOf at h1 h2 h3 hsc
    unfold parsePosition positionCore
    simp only [hv, hbp, hbc, hva, if_false, List.mapM_cons, List.mapM_nil, hx, hy, hz, hc, Option.pure_def,
      Option.bind_eq_bind, Option.bind_some, Option.map_some, h1, h2, h3, hsc, expectedEntry, List.map_cons, List.map_nil]

/-- a concrete record with all three sentinels (base 1.25 / 1.025) -/
example :
    parsePosition factors [("version", .str ['d']), ("base_posvel", .num 1.25), ("base_clkrate", .num 1.025)]
      ⟨2016, 3, 1, 0, 0, 0⟩
      (sliceAll recP "PG04  25398.213954      0.000000   4188.487313 999999.999999  7     4".toList) =
    some ⟨⟨2016, 3, 1, 0, 0, 0⟩, "G04".toList, [some 25398213.954, Option.none, some 4188487.313], Option.none,
          [some ((1.25 : Rat) ^ 7 / 1000), Option.none, some ((1.25 : Rat) ^ 4 / 1000)], Option.none, ['G']⟩ := by
  decide +kernel

/-! ## 3. Blocks: one entry per `P` record, in file order, with the epoch of the enclosing `*` line -/

/-- the entries a list of block lines contributes -/
def entriesOf (F : Factors) (m : Meta) (recP : Layout) (e : Epoch) (ls : List Str) : List Entry :=
  ls.filterMap fun l => if l.take 1 = ['P'] then parsePosition F m e (sliceAll recP l) else Option.none

theorem fold_stepLine (F : Factors) (m : Meta) (recP : Layout) (e : Epoch) (ls : List Str) :
    ∀ acc : List Entry, (∀ l ∈ ls, l ≠ []) →
      (∀ l ∈ ls, l.take 1 = ['P'] → (parsePosition F m e (sliceAll recP l)).isSome = true) →
      ls.foldlM (stepLine F m recP (some e) false) acc = some (acc ++ entriesOf F m recP e ls) := by
  induction ls with
  | nil => intro acc _ _; simp [entriesOf]
  | cons l ls ih =>
    intro acc hne hok
    have hl : l ≠ [] := hne l (by simp)
    have hempty : l.isEmpty = false := by cases l <;> simp_all
    simp only [List.foldlM_cons]
    by_cases hp : l.take 1 = ['P']
    · have := hok l (by simp) hp
      obtain ⟨en, hen⟩ := Option.isSome_iff_exists.mp this
      have hstep : stepLine F m recP (some e) false acc l = some (acc ++ [en]) := by
        simp [stepLine, hp, hen]
      rw [hstep]
      simp only [Option.bind_eq_bind, Option.bind_some]
      rw [ih (acc ++ [en]) (fun l' h' => hne l' (by simp [h'])) (fun l' h' => hok l' (by simp [h']))]
      simp [entriesOf, hp, hen]
    · have hstep : stepLine F m recP (some e) false acc l = some acc := by
        simp [stepLine, hp, hempty]
      rw [hstep]
      simp only [Option.bind_eq_bind, Option.bind_some]
      rw [ih acc (fun l' h' => hne l' (by simp [h'])) (fun l' h' => hok l' (by simp [h']))]
      simp [entriesOf, hp]

/-- **file_roundtrip (per block)**: a block `* epoch` followed by `P`, `V`, `EP`, `EV` … lines adds exactly
one entry per `P` line, in order, each carrying the epoch of that `*` line; everything else is ignored.
(`hfresh`: the epoch is not already present — duplicate epochs are outside "well-formed".) -/
theorem block_entries (F : Factors) (m : Meta) (ef : List (Option String)) (recP : Layout) (acc : List Entry)
    (l1 : Str) (rest : List Str) (e : Epoch)
    (hstar : l1.take 1 = ['*']) (he : parseDate ef (strip l1) = some e)
    (hfresh : acc.any (·.epoch = e) = false)
    (hne : ∀ l ∈ rest, l ≠ [])
    (hok : ∀ l ∈ rest, l.take 1 = ['P'] → (parsePosition F m e (sliceAll recP l)).isSome = true) :
    parseBlock F m ef recP acc (l1 :: rest) = some (acc ++ entriesOf F m recP e rest) ∧
    ∀ en ∈ entriesOf F m recP e rest, en.epoch = e := by
  constructor
  · unfold parseBlock
    simp only [hstar, if_true, he, Option.map_some]
    cases rest with
    | nil => simp [entriesOf]
    | cons l2 more =>
      have h2 : l2 ≠ [] := hne l2 (by simp)
      have hempty : l2.isEmpty = false := by cases l2 <;> simp_all
      simp only
      by_cases hp : l2.take 1 = ['P']
      · obtain ⟨en, hen⟩ := Option.isSome_iff_exists.mp (hok l2 (by simp) hp)
        have hstep : stepLine F m recP (some e) true acc l2 = some (acc ++ [en]) := by
          simp [stepLine, hp, hen, hfresh]
        rw [hstep]
        simp only [Option.bind_some]
        rw [fold_stepLine F m recP e more (acc ++ [en]) (fun l' h' => hne l' (by simp [h']))
          (fun l' h' => hok l' (by simp [h']))]
        simp [entriesOf, hp, hen]
      · have hstep : stepLine F m recP (some e) true acc l2 = some acc := by
          simp [stepLine, hp, hempty]
        rw [hstep]
        simp only [Option.bind_some]
        rw [fold_stepLine F m recP e more acc (fun l' h' => hne l' (by simp [h']))
          (fun l' h' => hok l' (by simp [h']))]
        simp [entriesOf, hp]
  · intro en hen
    simp only [entriesOf, List.mem_filterMap] at hen
    obtain ⟨l, _, hl⟩ := hen
    by_cases hp : l.take 1 = ['P']
    · simp only [hp, if_true] at hl
      -- `parsePosition` copies the epoch it is given
      unfold parsePosition at hl
      obtain ⟨t, _, ht⟩ := Option.map_eq_some_iff.mp hl
      rw [← ht]
    · simp [hp] at hl

/-! ## 4. Header -/

/-- **first occurrence wins** for `%c` (the continuation line's file type is `cc`) and for `%f` (the
base is already known) -/
theorem header_first_wins :
    let lines := ["%c M  cc GPS ccc cccc cccc cccc cccc ccccc ccccc ccccc ccccc",
                  "%c cc cc ccc ccc cccc cccc cccc cccc ccccc ccccc ccccc ccccc",
                  "%f  1.2500000  1.025000000  0.00000000000  0.000000000000000",
                  "%f  0.0000000  0.000000000  0.00000000000  0.000000000000000"].map String.toList
    lines.foldlM (headerLine headerDefs) [] =
      some [("file_type", .str ['M']), ("time_sys", .str "GPS".toList), ("base_posvel", .num 1.25),
            ("base_clkrate", .num 1.025)] := by
  decide +kernel

/-- **header_fields**: a `#c`/`#d`, `##`, `%c` line delivers each field as the stripped text of its
standard columns — whatever clean texts are printed there -/
theorem header_fields (d : HeaderDef) (hd : d ∈ headerDefs) (cells : List (Align × Str))
    (hf : Fits d.fields cells = true) :
    (sliceAll d.fields (renderA d.fields cells)).map (·.2) = cells.map (·.2) := by
  have hs : Sorted d.fields = true := by
    have := layouts_sorted.2.2
    rw [List.all_eq_true] at this
    exact this d hd
  exact sliceAll_renderA d.fields cells hs hf

/-! ## 5. Dataset epoch -/

/-- **dataset_epoch**: the epoch `as_dataset` builds (whole seconds + the 7-digit fraction as a
fraction of a second) is exactly the file's epoch — in particular within 10⁻⁷ s -/
theorem dataset_epoch (e : Epoch) : datasetSeconds e = fileSeconds e := by
  unfold datasetSeconds fileSeconds
  have h : e.sec7 = 10000000 * (e.sec7 / 10000000) + e.sec7 % 10000000 := by omega
  have hq : ((e.sec7 : Int) : Rat) = (10000000 : Rat) * ((e.sec7 / 10000000 : Int) : Rat) + ((e.sec7 % 10000000 : Int) : Rat) := by
    conv => lhs; rw [h]
    simp [Rat.intCast_add, Rat.intCast_mul]
  simp only [Rat.intCast_add]
  rw [hq]
  grind

end Midgard.Props.C13

#print axioms Midgard.Props.C13.layouts_sorted
#print axioms Midgard.Props.C13.cols_eq_spec
#print axioms Midgard.Props.C13.unit_factors
#print axioms Midgard.Props.C13.powCode_nat
#print axioms Midgard.Props.C13.sigma_blank
#print axioms Midgard.Props.C13.sigma_code
#print axioms Midgard.Props.C13.pos_record
#print axioms Midgard.Props.C13.fold_stepLine
#print axioms Midgard.Props.C13.block_entries
#print axioms Midgard.Props.C13.header_first_wins
#print axioms Midgard.Props.C13.header_fields
#print axioms Midgard.Props.C13.dataset_epoch
