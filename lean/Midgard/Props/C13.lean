/-
C13 — SP3 orbit files are parsed into exactly the positions, clocks and epochs given.

Property theorems about `Model/Sp3.lean` at the tables regenerated from `midgard/parsers/sp3.py`
(`Generated/Sp3Cols.lean`), compared with `Spec/Sp3.lean` (SP3-c / SP3-d).
-/
import Midgard.Model.Sp3
import Midgard.Generated.Sp3Cols
import Midgard.Spec.Sp3
import Midgard.Proofs.FixedCol
import Midgard.Proofs.Sp3File
import Midgard.Model.Sp3Adv
import Midgard.Proofs.Sp3NoCR

namespace Midgard.Props.C13
open Midgard.Sp3 Midgard.Generated.Sp3 Midgard.FixedCol Midgard.Text Midgard.Decimal

/-! ## 1. Table obligations -/

theorem layouts_sorted : Sorted recP = true ∧ Sorted recV = true ∧ (headerDefs.all fun d => Sorted d.fields) = true := by
  decide +kernel

/-- **columns = standard**: every header and record table of the parser is the standard's -/
theorem cols_eq_spec :
    recP = Midgard.Spec.Sp3.recP ∧ recV = Midgard.Spec.Sp3.recV ∧
    headerDefs = [⟨"#c", Midgard.Spec.Sp3.firstLine, .string⟩, ⟨"#d", Midgard.Spec.Sp3.firstLine, .string⟩,
                  ⟨"##", Midgard.Spec.Sp3.secondLine, .string⟩, ⟨"%c", Midgard.Spec.Sp3.percentC, .string⟩,
                  ⟨"%f", Midgard.Spec.Sp3.percentF, .float⟩] ∧
    epochFields = [Option.none, some "year", some "month", some "day", some "hour", some "minute", some "second"] := by
  decide +kernel

/-- **unit factors**: kilometres ↦ metres ×1000, microseconds ↦ seconds ×10⁻⁶, millimetres ×10⁻³,
picoseconds ×10⁻¹², the speed of light 299 792 458 m/s — and `_parse_position` refers to exactly
these (each once, `constant.c` twice) -/
theorem unit_factors :
    factors = ⟨1000, mkRat 1 1000000, mkRat 1 1000, mkRat 1 1000000000000, 299792458⟩ ∧
    unitsUsed.length = 6 ∧ unitsUsed.count "constant.c" = 2 ∧
    (["Unit.kilometer2meter", "Unit.microsecond2second", "Unit.millimeter2meter", "Unit.picosecond2second"].all
      fun u => unitsUsed.count u == 1) = true := by
  decide +kernel

/-! ## 2. One position record -/

/-- what the statement says a record must become -/
def expectedEntry (F : Factors) (basePos baseClk : Rat) (e : Epoch) (sat : Str) (x y z clk : Rat)
    (codes : List (Option Nat)) (clkCode : Option Nat) : Entry :=
  ⟨e, sat,
   [x, y, z].map (fun q => if q = 0 then Option.none else some (q * F.km2m)),
   (if clk = 999999.999999 then Option.none else some (clk * F.us2s * F.c)),
   codes.map (fun c => c.map fun k => basePos ^ k * F.mm2m),
   clkCode.map (fun k => baseClk ^ k * (F.ps2s * F.c)),
   sat.take 1⟩

theorem powCode_nat (b : Rat) (k : Nat) : powCode b (k : Rat) = some (b ^ k) := by
  simp [powCode, Rat.den_natCast, Rat.num_natCast]

/-- accuracy column ↦ sigma: blank ↦ NaN, code `k` ↦ `base^k · unit` -/
def sigmaOf (base unit : Rat) (t : Str) : Option (Option Rat) :=
  if t.isEmpty then some Option.none
  else (parseFloat t).bind fun code => (powCode base code).map fun p => some (p * unit)

theorem sigma_blank (base unit : Rat) : sigmaOf base unit [] = some Option.none := rfl

theorem sigma_code (base unit : Rat) (t : Str) (k : Nat) (hne : t ≠ []) (h : parseFloat t = some (k : Rat)) :
    sigmaOf base unit t = some (some (base ^ k * unit)) := by
  unfold sigmaOf
  have : t.isEmpty = false := by cases t <;> simp_all
  simp [this, h, powCode_nat]

/-- **pos_record**: from the field texts of a `P` line to the delivered entry — kilometres ×1000,
microseconds × 10⁻⁶ × c, `0.000000` ↦ NaN, `999999.999999` ↦ NaN, blank accuracy code ↦ NaN,
code `k` ↦ `base^k` millimetres / picoseconds -/
theorem pos_record (F : Factors) (m : Meta) (e : Epoch) (vs : List (String × Str)) (v : Str)
    (basePos baseClk x y z clk : Rat) (codes : List (Option Nat)) (clkCode : Option Nat)
    (hv : mget m "version" = some (.str v)) (hva : v ≠ ['a'])
    (hbp : mget m "base_posvel" = some (.num basePos)) (hbc : mget m "base_clkrate" = some (.num baseClk))
    (hx : parseFloat (get vs "pos_x") = some x) (hy : parseFloat (get vs "pos_y") = some y)
    (hz : parseFloat (get vs "pos_z") = some z) (hc : parseFloat (get vs "clk_bias") = some clk)
    (hs : ["sig_pos_x", "sig_pos_y", "sig_pos_z"].map (fun k => sigmaOf basePos F.mm2m (get vs k)) =
          codes.map (fun c => some (c.map fun k => basePos ^ k * F.mm2m)))
    (hsc : sigmaOf baseClk (F.ps2s * F.c) (get vs "sig_clk_bias") = some (clkCode.map fun k => baseClk ^ k * (F.ps2s * F.c)))
    (hlen : codes.length = 3) :
    parsePosition F m e vs = some (expectedEntry F basePos baseClk e (get vs "sat") x y z clk codes clkCode) := by
  match codes, hlen with
  | [c1, c2, c3], _ =>
    simp only [List.map_cons, List.map_nil, List.cons.injEq, and_true] at hs
    obtain ⟨h1, h2, h3⟩ := hs
    unfold sigmaOf at h1 h2 h3 hsc
    unfold parsePosition positionCore
    simp only [hv, hbp, hbc, hva, if_false, List.mapM_cons, List.mapM_nil, hx, hy, hz, hc, Option.pure_def,
      Option.bind_eq_bind, Option.bind_some, Option.map_some, h1, h2, h3, hsc, expectedEntry, List.map_cons, List.map_nil]

/-- a concrete record with all three sentinels (base 1.25 / 1.025) -/
example :
    parsePosition factors [("version", .str ['d']), ("base_posvel", .num 1.25), ("base_clkrate", .num 1.025)]
      ⟨2016, 3, 1, 0, 0, 0⟩
      (sliceAll recP "PG04  25398.213954      0.000000   4188.487313 999999.999999  7     4".toList) =
    some ⟨⟨2016, 3, 1, 0, 0, 0⟩, "G04".toList, [some 25398213.954, Option.none, some 4188487.313], Option.none,
          [some ((1.25 : Rat) ^ 7 / 1000), Option.none, some ((1.25 : Rat) ^ 4 / 1000)], Option.none, ['G']⟩ := by
  decide +kernel

/-! ## 3. Blocks: one entry per `P` record, in file order, with the epoch of the enclosing `*` line -/

/-- the entries a list of block lines contributes -/
def entriesOf (F : Factors) (m : Meta) (recP : Layout) (e : Epoch) (ls : List Str) : List Entry :=
  ls.filterMap fun l => if l.take 1 = ['P'] then parsePosition F m e (sliceAll recP l) else Option.none

theorem fold_stepLine (F : Factors) (m : Meta) (recP : Layout) (e : Epoch) (ls : List Str) :
    ∀ acc : List Entry,
      (∀ l ∈ ls, l.take 1 = ['P'] → (parsePosition F m e (sliceAll recP l)).isSome = true) →
      ls.foldlM (stepLine F m recP (some e) false) acc = some (acc ++ entriesOf F m recP e ls) := by
  induction ls with
  | nil => intro acc _; simp [entriesOf]
  | cons l ls ih =>
    intro acc hok
    simp only [List.foldlM_cons]
    by_cases hp : l.take 1 = ['P']
    · have := hok l (by simp) hp
      obtain ⟨en, hen⟩ := Option.isSome_iff_exists.mp this
      have hstep : stepLine F m recP (some e) false acc l = some (acc ++ [en]) := by
        simp [stepLine, hp, hen]
      rw [hstep]
      simp only [Option.bind_eq_bind, Option.bind_some]
      rw [ih (acc ++ [en]) (fun l' h' => hok l' (by simp [h']))]
      simp [entriesOf, hp, hen]
    · have hstep : stepLine F m recP (some e) false acc l = some acc := by
        simp [stepLine, hp]
      rw [hstep]
      simp only [Option.bind_eq_bind, Option.bind_some]
      rw [ih acc (fun l' h' => hok l' (by simp [h']))]
      simp [entriesOf, hp]

/-- **file_roundtrip (per block)**: a block `* epoch` followed by `P`, `V`, `EP`, `EV` … lines and empty lines adds
exactly one entry per `P` line, in order, each carrying the epoch of that `*` line; everything else is ignored.
(`hfresh`: the epoch is not already present — duplicate epochs are outside "well-formed".) -/
theorem block_entries (F : Factors) (m : Meta) (ef : List (Option String)) (recP : Layout) (acc : List Entry)
    (l1 : Str) (rest : List Str) (e : Epoch)
    (hstar : l1.take 1 = ['*']) (he : parseDate ef (strip l1) = some e)
    (hfresh : acc.any (·.epoch = e) = false)
    (hok : ∀ l ∈ rest, l.take 1 = ['P'] → (parsePosition F m e (sliceAll recP l)).isSome = true) :
    parseBlock F m ef recP acc (l1 :: rest) = some (acc ++ entriesOf F m recP e rest) ∧
    ∀ en ∈ entriesOf F m recP e rest, en.epoch = e := by
  constructor
  · unfold parseBlock
    simp only [hstar, if_true, he, Option.map_some]
    cases rest with
    | nil => simp [entriesOf]
    | cons l2 more =>
      simp only
      by_cases hp : l2.take 1 = ['P']
      · obtain ⟨en, hen⟩ := Option.isSome_iff_exists.mp (hok l2 (by simp) hp)
        have hstep : stepLine F m recP (some e) true acc l2 = some (acc ++ [en]) := by
          simp [stepLine, hp, hen, hfresh]
        rw [hstep]
        simp only [Option.bind_some]
        rw [fold_stepLine F m recP e more (acc ++ [en]) (fun l' h' => hok l' (by simp [h']))]
        simp [entriesOf, hp, hen]
      · have hstep : stepLine F m recP (some e) true acc l2 = some acc := by
          simp [stepLine, hp]
        rw [hstep]
        simp only [Option.bind_some]
        rw [fold_stepLine F m recP e more acc (fun l' h' => hok l' (by simp [h']))]
        simp [entriesOf, hp]
  · intro en hen
    simp only [entriesOf, List.mem_filterMap] at hen
    obtain ⟨l, _, hl⟩ := hen
    by_cases hp : l.take 1 = ['P']
    · simp only [hp, if_true] at hl
      -- `parsePosition` copies the epoch it is given
      unfold parsePosition at hl
      obtain ⟨t, _, ht⟩ := Option.map_eq_some_iff.mp hl
      rw [← ht]
    · simp [hp] at hl

/-! ## 4. Header -/

/-- **first occurrence wins** for `%c` (the continuation line's file type is `cc`) and for `%f` (the
base is already known) -/
theorem header_first_wins :
    let lines := ["%c M  cc GPS ccc cccc cccc cccc cccc ccccc ccccc ccccc ccccc",
                  "%c cc cc ccc ccc cccc cccc cccc cccc ccccc ccccc ccccc ccccc",
                  "%f  1.2500000  1.025000000  0.00000000000  0.000000000000000",
                  "%f  0.0000000  0.000000000  0.00000000000  0.000000000000000"].map String.toList
    lines.foldlM (headerLine headerDefs) [] =
      some [("file_type", .str ['M']), ("time_sys", .str "GPS".toList), ("base_posvel", .num 1.25),
            ("base_clkrate", .num 1.025)] := by
  decide +kernel

/-- **header_fields**: a `#c`/`#d`, `##`, `%c` line delivers each field as the stripped text of its
standard columns — whatever clean texts are printed there -/
theorem header_fields (d : HeaderDef) (hd : d ∈ headerDefs) (cells : List (Align × Str))
    (hf : Fits d.fields cells = true) :
    (sliceAll d.fields (renderA d.fields cells)).map (·.2) = cells.map (·.2) := by
  have hs : Sorted d.fields = true := by
    have := layouts_sorted.2.2
    rw [List.all_eq_true] at this
    exact this d hd
  exact sliceAll_renderA d.fields cells hs hf

/-! ## 5. Dataset epoch -/

/-- **dataset_epoch**: the epoch `as_dataset` builds (whole seconds + the 7-digit fraction as a
fraction of a second) is exactly the file's epoch — in particular within 10⁻⁷ s -/
theorem dataset_epoch (e : Epoch) : datasetSeconds e = fileSeconds e := by
  unfold datasetSeconds fileSeconds
  have h : e.sec7 = 10000000 * (e.sec7 / 10000000) + e.sec7 % 10000000 := by omega
  have hq : ((e.sec7 : Int) : Rat) = (10000000 : Rat) * ((e.sec7 / 10000000 : Int) : Rat) + ((e.sec7 % 10000000 : Int) : Rat) := by
    conv => lhs; rw [h]
    simp [Rat.intCast_add, Rat.intCast_mul]
  simp only [Rat.intCast_add]
  rw [hq]
  grind


/-! ## 6. Whole files: `parseFile (render F) = F` -/

section File
open Midgard.Spec.Sp3File Midgard.Spec.NumText

theorem sigma_codeText (base unit : Rat) (c : Option Nat) :
    sigmaOf base unit (codeText c) = some (c.map fun k => base ^ k * unit) := by
  cases c with
  | none => rfl
  | some k => exact sigma_code base unit _ k (natDigits_ne_nil k) (parseFloat_natDigits k)

/-- **a rendered position record parses to the entry the property names**: F14.6 kilometres ×1000,
microseconds × 10⁻⁶ × c, sentinels and blank accuracy columns ↦ NaN, exponent `k` ↦ `base^k` — for every
record whose values fit their columns, with or without the accuracy/flag columns, padded to 80 columns or
not -/
theorem pos_line (F : Factors) (h : Header) (hv : h.version = 'c' ∨ h.version = 'd') (e : Epoch) (r : PosRec)
    (hr : r.wf = true) :
    parsePosition F (expectedMeta h) e (sliceAll Midgard.Spec.Sp3.recP (rstrip (posLine r))) =
      some (Midgard.Spec.Sp3File.expectedEntry F h e r) := by
  rw [pos_fields r hr, ← meta4_eq]
  obtain ⟨mv, mp, mc⟩ := meta4_lookup h
  have hva : [h.version] ≠ ['a'] := by rcases hv with e | e <;> rw [e] <;> decide
  have hfl : (r.acc.getD noAcc).flags.length = 4 := by
    have := acc_wf_of r hr
    simp only [Acc.wf, Bool.and_eq_true] at this
    exact okCells_length _ _ this.2
  have := pos_record F (meta4 h) e ((Midgard.Spec.Sp3.recP.map (·.name)).zip (posTexts r)) [h.version]
    (basePosVal h) (baseClkVal h) (decVal 6 r.x) (decVal 6 r.y) (decVal 6 r.z) (decVal 6 r.clk)
    [(r.acc.getD noAcc).sx, (r.acc.getD noAcc).sy, (r.acc.getD noAcc).sz] (r.acc.getD noAcc).sclk
    mv hva mp mc
    (by simp [Midgard.Spec.Sp3.recP, posTexts, Midgard.Sp3.get, parseFloat_fmtDec])
    (by simp [Midgard.Spec.Sp3.recP, posTexts, Midgard.Sp3.get, parseFloat_fmtDec])
    (by simp [Midgard.Spec.Sp3.recP, posTexts, Midgard.Sp3.get, parseFloat_fmtDec])
    (by simp [Midgard.Spec.Sp3.recP, posTexts, Midgard.Sp3.get, parseFloat_fmtDec])
    (by simp [Midgard.Spec.Sp3.recP, posTexts, Midgard.Sp3.get, sigma_codeText])
    (by simp [Midgard.Spec.Sp3.recP, posTexts, Midgard.Sp3.get, sigma_codeText])
    rfl
  rw [this]
  simp [expectedEntry, Midgard.Spec.Sp3File.expectedEntry, Midgard.Spec.Sp3.recP, posTexts, Midgard.Sp3.get]


/-- the epoch-line field list of the standard (what `cols_eq_spec` says the parser's list is) -/
def specEpochFields : List (Option String) :=
  [Option.none, some "year", some "month", some "day", some "hour", some "minute", some "second"]

theorem extras_ok (r : PosRec) (hr : r.wf = true) : ∀ x ∈ r.extras, okExtra x = true := by
  simp only [PosRec.wf, Bool.and_eq_true, List.all_eq_true] at hr
  exact hr.2

theorem filterMap_inert (F : Factors) (m : Meta) (L : Layout) (e : Epoch) (tl : List Str) (h : ∀ l ∈ tl, Inert l) :
    entriesOf F m L e tl = [] := by
  unfold entriesOf
  rw [List.filterMap_eq_nil_iff]
  intro l hl
  simp [(h l hl).1]

/-- the entries a block's record lines contribute: one per position record, none for V / EP / EV lines, blank
lines or for a trailer of inert lines -/
theorem entriesOf_body (F : Factors) (h : Header) (hv : h.version = 'c' ∨ h.version = 'd') (e : Epoch)
    (recs : List PosRec) (hrecs : ∀ r ∈ recs, r.wf = true) (tl : List Str) (htl : ∀ l ∈ tl, Inert l) :
    entriesOf F (expectedMeta h) Midgard.Spec.Sp3.recP e ((recs.flatMap recLines).map rstrip ++ tl) =
      recs.map (Midgard.Spec.Sp3File.expectedEntry F h e) := by
  induction recs with
  | nil => simpa using filterMap_inert F _ _ e tl htl
  | cons r rs ih =>
    have ih' := ih (fun r' hr' => hrecs r' (by simp [hr']))
    have hex : entriesOf F (expectedMeta h) Midgard.Spec.Sp3.recP e ((r.extras.map extraLine).map rstrip) = [] := by
      apply filterMap_inert
      intro l hl
      simp only [List.map_map, List.mem_map, Function.comp] at hl
      obtain ⟨x, hx, rfl⟩ := hl
      exact inert_extra x (extras_ok r (hrecs r (by simp)) x hx)
    unfold entriesOf at ih' hex ⊢
    simp only [List.flatMap_cons, recLines, List.map_append, List.map_cons, List.cons_append, List.append_assoc,
      List.filterMap_cons, head_posLine, if_true, pos_line F h hv e r (hrecs r (by simp)), List.filterMap_append, hex,
      List.nil_append, List.map_cons, List.cons.injEq, true_and]
    simpa [List.filterMap_append] using ih'

theorem body_lines (recs : List PosRec) (tl : List Str) (l : Str) (hl : l ∈ (recs.flatMap recLines).map rstrip ++ tl) :
    (∃ r ∈ recs, l = rstrip (posLine r)) ∨ (∃ r ∈ recs, ∃ x ∈ r.extras, l = rstrip (extraLine x)) ∨ l ∈ tl := by
  rcases List.mem_append.mp hl with h | h
  · simp only [List.mem_map, List.mem_flatMap, recLines, List.mem_cons] at h
    obtain ⟨l', ⟨r, hr, hl'⟩, rfl⟩ := h
    rcases hl' with rfl | ⟨x, hx, rfl⟩
    · exact Or.inl ⟨r, hr, rfl⟩
    · exact Or.inr (Or.inl ⟨r, hr, x, hx, rfl⟩)
  · exact Or.inr (Or.inr h)

/-- **one epoch block of a rendered file**: `* epoch` line, its position records with their V / EP / EV
and blank lines, possibly the closing `EOF` — exactly one entry per position record, in order, each with the
block's epoch and the values the property names -/
theorem block_ok (F : Factors) (h : Header) (hv : h.version = 'c' ∨ h.version = 'd') (acc : List Entry)
    (b : EpochBlock) (hb : ∀ r ∈ b.recs, r.wf = true) (tl : List Str) (htl : ∀ l ∈ tl, Inert l)
    (hfresh : acc.any (·.epoch = b.epoch) = false) :
    parseBlock F (expectedMeta h) specEpochFields Midgard.Spec.Sp3.recP acc ((blockLines b).map rstrip ++ tl) =
      some (acc ++ b.recs.map (Midgard.Spec.Sp3File.expectedEntry F h b.epoch)) := by
  have hform : (blockLines b).map rstrip ++ tl =
      rstrip (epochLine b.epoch) :: ((b.recs.flatMap recLines).map rstrip ++ tl) := by
    simp [blockLines]
  rw [hform]
  have := (block_entries F (expectedMeta h) specEpochFields Midgard.Spec.Sp3.recP acc (rstrip (epochLine b.epoch))
    ((b.recs.flatMap recLines).map rstrip ++ tl) b.epoch (star_epochLine b.epoch) (parseDate_epochLine b.epoch) hfresh
    (by
      intro l hl hp
      rcases body_lines _ _ l hl with ⟨r, hr, rfl⟩ | ⟨r, hr, x, hx, rfl⟩ | h'
      · rw [pos_line F h hv b.epoch r (hb r hr)]; rfl
      · exact absurd hp (inert_extra x (extras_ok r (hb r hr) x hx)).1
      · exact absurd hp (htl l h').1)).1
  rw [this, entriesOf_body F h hv b.epoch b.recs hb tl htl]

theorem epoch_expected (F : Factors) (h : Header) (e : Epoch) (recs : List PosRec) (e' : Epoch) (hne : e ≠ e') :
    (recs.map (Midgard.Spec.Sp3File.expectedEntry F h e)).any (·.epoch = e') = false := by
  rw [List.any_eq_false]
  intro en hen
  simp only [List.mem_map] at hen
  obtain ⟨r, _, rfl⟩ := hen
  simpa [Midgard.Spec.Sp3File.expectedEntry] using hne

/-- **all epoch blocks, by induction over the epochs**: the entries of the blocks, block after block -/
theorem blocks_fold (F : Factors) (h : Header) (hv : h.version = 'c' ∨ h.version = 'd') (eps : List EpochBlock) :
    ∀ (acc : List Entry), eps ≠ [] → (∀ b ∈ eps, ∀ r ∈ b.recs, r.wf = true) → distinct (eps.map (·.epoch)) = true →
      (∀ b ∈ eps, acc.any (·.epoch = b.epoch) = false) →
      (attachLast (eps.map fun b => (blockLines b).map rstrip) [rstrip eofLine]).foldlM
          (parseBlock F (expectedMeta h) specEpochFields Midgard.Spec.Sp3.recP) acc =
        some (acc ++ eps.flatMap fun b => b.recs.map (Midgard.Spec.Sp3File.expectedEntry F h b.epoch)) := by
  induction eps with
  | nil => intro acc hne; exact absurd rfl hne
  | cons b rest ih =>
    intro acc _ hwf hd hfresh
    have heof : ∀ l ∈ [rstrip eofLine], Inert l := by
      intro l hl
      rw [List.mem_singleton.mp hl]
      exact inert_eof
    cases rest with
    | nil =>
      simp only [List.map_cons, List.map_nil, attachLast, List.foldlM_cons, List.foldlM_nil, List.flatMap_cons,
        List.flatMap_nil, List.append_nil]
      rw [block_ok F h hv acc b (hwf b (by simp)) _ heof (hfresh b (by simp))]
      rfl
    | cons b' rest' =>
      simp only [distinct, List.map_cons, Bool.and_eq_true, Bool.not_eq_eq_eq_not, Bool.not_true] at hd
      have hb0 := block_ok F h hv acc b (hwf b (by simp)) [] (by simp) (hfresh b (by simp))
      simp only [List.append_nil] at hb0
      have ih' := ih (acc ++ b.recs.map (Midgard.Spec.Sp3File.expectedEntry F h b.epoch)) (by simp)
        (fun x hx => hwf x (by simp [hx]))
        (by simpa [distinct] using hd.2)
        (by
          intro x hx
          rw [List.any_append, hfresh x (by simp [hx])]
          have hne : b.epoch ≠ x.epoch := by
            intro e0
            have hc : (b'.epoch :: rest'.map (·.epoch)).contains b.epoch = true := by
              rw [List.contains_iff_mem, e0]
              simp only [List.mem_cons, List.mem_map] at hx ⊢
              rcases hx with rfl | hx
              · exact Or.inl rfl
              · exact Or.inr ⟨x, hx, rfl⟩
            rw [hd.1] at hc
            exact absurd hc (by simp)
          simpa using epoch_expected F h b.epoch b.recs x.epoch hne)
      simp only [List.map_cons, attachLast, List.foldlM_cons, hb0, Option.bind_eq_bind, Option.bind_some] at ih' ⊢
      rw [ih']
      simp [List.append_assoc]

theorem splitBlocks_file (H : List Str) (bs : List (List Str)) (t : List Str) (hH : H ≠ [])
    (hns : ∀ x ∈ H, ¬ Star x) (ht : ∀ x ∈ t, ¬ Star x)
    (hbs : ∀ b ∈ bs, ∃ s body, b = s :: body ∧ Star s ∧ ∀ x ∈ body, ¬ Star x) :
    splitBlocksAux (H ++ bs.flatten ++ t) [] = attachLast (H :: bs) t := by
  cases H with
  | nil => exact absurd rfl hH
  | cons h0 body0 =>
    exact splitBlocks_groups bs t ht hbs h0 body0 (fun x hx => hns x (by simp [hx]))

theorem header_not_star (h : Header) : ∀ l ∈ (headerLines h).map rstrip, ¬ Star l := by
  intro l hl
  simp only [headerLines, List.map_append, List.map_cons, List.map_nil, List.map_map, List.mem_append, List.mem_cons,
    List.mem_map, List.not_mem_nil, or_false, Function.comp] at hl
  have other : ∀ x : HdrKind × Str, ¬ Star (rstrip (hdrOther x)) := by
    intro x
    obtain ⟨k, t⟩ := x
    cases k
    · exact not_star_of_head (t := ' ' :: t) (c := '+') (by decide) (by decide)
    · exact not_star_of_head (t := '+' :: t) (c := '+') (by decide) (by decide)
    · exact not_star_of_head (t := 'i' :: t) (c := '%') (by decide) (by decide)
    · exact not_star_of_head (t := '*' :: t) (c := '/') (by decide) (by decide)
  rcases hl with (((rfl | rfl) | ⟨x, _, rfl⟩) | (rfl | rfl | rfl | rfl)) | ⟨x, _, rfl⟩
  · exact not_star_of_head (by decide) (by decide)
  · exact not_star_of_head (by decide) (by decide)
  · exact other x
  · exact not_star_of_head (by decide) (by decide)
  · exact not_star_of_head (t := percentCCont.tail) (c := '%') (by decide) (by decide)
  · exact not_star_of_head (by decide) (by decide)
  · exact not_star_of_head (t := percentFCont.tail) (c := '%') (by decide) (by decide)
  · exact other x

theorem nonl_fileLines (f : File) (hwf : f.wf = true) : ∀ l ∈ fileLines f, ∀ c ∈ l, c ≠ '\n' := by
  simp only [File.wf, Bool.and_eq_true, List.all_eq_true] at hwf
  intro l hl
  simp only [fileLines, List.mem_append, List.mem_flatten, List.mem_map, List.mem_singleton] at hl
  rcases hl with (hl | ⟨bl, ⟨b, hb, rfl⟩, hl⟩) | rfl
  · exact nonl_headerLines f.hdr hwf.1.1 l hl
  · simp only [blockLines, List.mem_cons, List.mem_flatMap, recLines, List.mem_map] at hl
    rcases hl with rfl | ⟨r, hr, rfl | ⟨x, hx, rfl⟩⟩
    · exact nonl_epochLine b.epoch
    · exact nonl_posLine r (hwf.1.2 b hb r hr)
    · have := hwf.1.2 b hb r hr
      simp only [PosRec.wf, Bool.and_eq_true, List.all_eq_true] at this
      exact nonl_extraLine x (okExtra_okText (this.2 x hx))
  · intro c hc; revert hc; revert c; decide

/-- **file_roundtrip**: for every abstract SP3-c/d file `f` — header fields, any number of `+`/`++`/`%i`/comment
lines, epochs each with its position records (with or without accuracy codes and flags, sentinel values
included, padded or not) followed by V / EP / EV lines and blank lines (any number of blanks, also none; so
also directly before `EOF`) — whose values fit their columns (`f.wf`), parsing
the rendered text gives exactly the header fields of `f` and one entry per position record in file order,
each with the epoch of its enclosing epoch line and the values `pos_record` names. -/
theorem file_roundtrip (f : File) (hwf : f.wf = true) :
    parseFile factors headerDefs epochFields recP (Midgard.Spec.Sp3File.render f) =
      some ⟨expectedMeta f.hdr, expectedEntries factors f⟩ := by
  obtain ⟨hrecP, _, hdefs, hef⟩ := cols_eq_spec
  have hdefs' : headerDefs = specDefs := hdefs
  have hef' : epochFields = specEpochFields := hef
  rw [hrecP, hdefs', hef']
  have hwf0 := hwf
  simp only [File.wf, Bool.and_eq_true, List.all_eq_true] at hwf
  obtain ⟨⟨hh, hrecs⟩, hdist⟩ := hwf
  have hv : f.hdr.version = 'c' ∨ f.hdr.version = 'd' := by
    have := hh
    simp only [Header.wf, Bool.and_eq_true, Bool.or_eq_true, beq_iff_eq] at this
    exact this.1.1.1.1.1.1.1.1.1
  unfold parseFile Midgard.Spec.Sp3File.render
  rw [splitOn_joinLines _ (nonl_fileLines f hwf0)]
  simp only [List.reverse_append, List.reverse_cons, List.reverse_nil, List.nil_append, List.cons_append,
    List.reverse_reverse]
  have hlines : (fileLines f).map rstrip =
      (headerLines f.hdr).map rstrip ++ ((f.epochs.map fun b => (blockLines b).map rstrip)).flatten ++ [rstrip eofLine] := by
    simp [fileLines, List.map_append, List.map_flatten, List.map_map, Function.comp_def]
  have hsplit := splitBlocks_file ((headerLines f.hdr).map rstrip) (f.epochs.map fun b => (blockLines b).map rstrip)
    [rstrip eofLine] (by simp [headerLines]) (header_not_star f.hdr)
    (by intro x hx; rw [List.mem_singleton.mp hx]; exact inert_eof.2)
    (by
      intro bl hbl
      simp only [List.mem_map] at hbl
      obtain ⟨b, hb, rfl⟩ := hbl
      refine ⟨rstrip (epochLine b.epoch), (b.recs.flatMap recLines).map rstrip, by simp [blockLines], star_epochLine _, ?_⟩
      intro x hx
      rcases body_lines b.recs [] x (by simpa using hx) with ⟨r, _, rfl⟩ | ⟨r, hr, y, hy, rfl⟩ | h'
      · exact not_star_posLine r
      · exact (inert_extra y (extras_ok r (hrecs b hb r hr) y hy)).2
      · simp at h')
  rw [hlines, hsplit]
  cases hep : f.epochs with
  | nil =>
    simp only [List.map_nil, attachLast]
    have := header_fold f.hdr hh [rstrip eofLine] (by
      intro l hl m
      rw [List.mem_singleton.mp hl]
      exact headerLine_eof m)
    simp [this, expectedEntries, hep]
  | cons b rest =>
    have hm := header_fold f.hdr hh [] (by simp)
    simp only [List.append_nil] at hm
    have hb := blocks_fold factors f.hdr hv (b :: rest) [] (by simp)
      (fun x hx r hr => hrecs x (by rw [hep]; exact hx) r hr) (by rw [← hep]; exact hdist) (by simp)
    simp only [List.map_cons, attachLast] at hb ⊢
    cases hrest : rest with
    | nil =>
      rw [hrest] at hb
      simp only [List.map_nil, attachLast] at hb ⊢
      rw [hm]
      simp only [Option.bind_eq_bind, Option.bind_some]
      rw [hb]
      simp [expectedEntries, hep, hrest]
    | cons b' rest' =>
      rw [hrest] at hb
      simp only [List.map_cons, attachLast] at hb ⊢
      rw [hm]
      simp only [Option.bind_eq_bind, Option.bind_some]
      rw [hb]
      simp [expectedEntries, hep, hrest]


/-- the lengths of the seven columns of `parser.data` -/
def columnLengths (es : List Entry) : List Nat :=
  [(es.map (·.epoch)).length, (es.map (·.sat)).length, (es.map (·.pos)).length, (es.map (·.clk)).length,
   (es.map (·.posSigma)).length, (es.map (·.clkSigma)).length, (es.map (·.system)).length]

theorem length_expectedEntries (F : Factors) (f : File) :
    (expectedEntries F f).length = (f.epochs.map (·.recs.length)).sum := by
  unfold expectedEntries
  induction f.epochs with
  | nil => rfl
  | cons b bs ih => simp [List.flatMap_cons, ih]

/-- **all_columns_equal_length (file level)**: the seven columns delivered for a well-formed rendered file
(time, satellite, sat_pos, sat_clock_bias, sat_pos_sigma, sat_clock_bias_sigma, system) all have as many
rows as the file has position records; positions and position sigmas have three components in every row -/
theorem all_columns_equal_length (f : File) (hwf : f.wf = true) :
    ∃ p, parseFile factors headerDefs epochFields recP (Midgard.Spec.Sp3File.render f) = some p ∧
      (∀ n ∈ columnLengths p.entries, n = (f.epochs.map (·.recs.length)).sum) ∧
      ∀ en ∈ p.entries, en.pos.length = 3 ∧ en.posSigma.length = 3 := by
  refine ⟨_, file_roundtrip f hwf, ?_, ?_⟩
  · intro n hn
    simp only [columnLengths, List.length_map, List.mem_cons, List.not_mem_nil, or_false, or_self] at hn
    rw [hn, length_expectedEntries]
  · intro en hen
    simp only [expectedEntries, List.mem_flatMap, List.mem_map] at hen
    obtain ⟨b, _, r, _, rfl⟩ := hen
    simp [Midgard.Spec.Sp3File.expectedEntry]

/-- a 2-epoch × 3-satellite SP3-d file, epochs 0.5 s apart: a position sentinel (`0.000000`), a clock
sentinel (`999999.999999`), one record without accuracy columns, one with blank codes and flags, a V and
an EP line, the second record padded to 80 columns, an empty line and a line of three blanks after the last
record of each epoch (the second one directly before `EOF`) -/
def demoFile : File :=
  let a1 : Acc := ⟨some 7, some 6, some 4, some 137, [[], [], [], []]⟩
  let a2 : Acc := ⟨some 10, Option.none, some 8, Option.none, [['E'], ['P'], [], ['P']]⟩
  let recs (k : Int) : List PosRec := [
    ⟨"G01".toList, 10138887745 + k, -20456557725, -13455830128, 13095853, some a1, false, [(.vel, "G01  1234.5".toList)]⟩,
    ⟨"E02".toList, 0, 13338131173, -6326904893, 999999999999, some a2, true, [(.ep, "E02  55 55 55 222".toList)]⟩,
    ⟨"C03".toList, 1061483783, -15622426751, -21452532447, -30693182, Option.none, false, [(.blank, []), (.blank, "   ".toList)]⟩]
  { hdr := { version := 'd',
             line1 := ["P", "2016", "3", "1", "0", "0", "0.00000000", "2", "ORBIT", "IGb08", "HLM", "IGS"].map String.toList,
             line2 := ["1886", "172800.00000000", "0.50000000", "57448", "0.0000000000000"].map String.toList,
             satLines := [(.plus, "    3   G01E02C03  0  0".toList), (.plusplus, "         7  6  4".toList)],
             fileType := ['M'], timeSys := "GPS".toList, basePos := 12500000, baseClk := 1025000000,
             tailLines := [(.pci, "    0    0".toList), (.comment, " demo".toList)] },
    epochs := [⟨⟨2016, 3, 1, 0, 0, 0⟩, recs 0⟩, ⟨⟨2016, 3, 1, 0, 0, 5000000⟩, recs 1000⟩] }

/-- the hypotheses of `file_roundtrip` are satisfiable, and the instance is what one expects -/
example : demoFile.wf = true := by decide +kernel

/-- the rendered demo file has two empty lines and two lines of three blanks -/
example : (fileLines demoFile).count [] = 2 ∧ (fileLines demoFile).count "   ".toList = 2 ∧
    (fileLines demoFile).getLast? = some eofLine ∧ ((fileLines demoFile).reverse.drop 1).head? = some "   ".toList := by
  decide +kernel

example : ((parseFile factors headerDefs epochFields recP (Midgard.Spec.Sp3File.render demoFile)).map
      fun p => p.entries.map (·.epoch.sec7)) = some [0, 0, 0, 5000000, 5000000, 5000000] := by
  decide +kernel

example : ((parseFile factors headerDefs epochFields recP (Midgard.Spec.Sp3File.render demoFile)).map
      fun p => (p.entries.map (·.pos)).take 2) =
    some [[some 10138887.745, some (-20456557.725), some (-13455830.128)], [Option.none, some 13338131.173, some (-6326904.893)]] := by
  decide +kernel

end File

/-! ## Empty lines -/

/-- an empty line (what is left of a whitespace-only line after `rstrip`) is no record: it changes nothing -/
theorem stepLine_blank (F : Factors) (m : Meta) (recP : Layout) (e? : Option Epoch) (second : Bool) (acc : List Entry) :
    stepLine F m recP e? second acc [] = some acc := by
  simp [stepLine]

/-- **empty lines are skipped**: the lines of an epoch block after its second line can be interleaved with any
number of empty lines (also at the end of the file) without changing what is read -/
theorem blank_lines_skipped (F : Factors) (m : Meta) (recP : Layout) (e? : Option Epoch) (ls : List Str) :
    ∀ acc : List Entry, ls.foldlM (stepLine F m recP e? false) acc =
      (ls.filter fun l => !l.isEmpty).foldlM (stepLine F m recP e? false) acc := by
  induction ls with
  | nil => intro acc; rfl
  | cons l ls ih =>
    intro acc
    cases l with
    | nil =>
      simp only [List.foldlM_cons, stepLine_blank, Option.bind_eq_bind, Option.bind_some, List.filter_cons, List.isEmpty_nil,
        Bool.not_true, Bool.false_eq_true, if_false]
      exact ih acc
    | cons c cs =>
      simp only [List.foldlM_cons, List.filter_cons, List.isEmpty_cons, Bool.not_false, if_true, Option.bind_eq_bind]
      cases stepLine F m recP e? false acc (c :: cs) with
      | none => rfl
      | some a => simp only [Option.bind_some]; exact ih a

/-! ## Text mode: the bytes on disk -/

/-- text mode (universal newlines) changes nothing in a text without carriage returns -/
theorem universalNewlines_id (t : Str) (h : ∀ c ∈ t, c ≠ '\r') : universalNewlines t = t := by
  unfold universalNewlines
  induction t with
  | nil => rfl
  | cons c rest ih =>
    have hc : c ≠ '\r' := h c (by simp)
    have ih' := ih (fun d hd => h d (by simp [hd]))
    by_cases hn : c = '\n'
    · subst hn
      simp only [universalNewlinesAux, hc, if_false, if_true, Bool.false_eq_true, ih']
    · simp only [universalNewlinesAux, hc, hn, if_false, ih']

/-- on a file without carriage returns the text-level entry point of the adversarial files is `parseFile` itself,
so `file_roundtrip` speaks about the bytes on disk -/
theorem parseFileText_eq (F : Factors) (defs : List HeaderDef) (epochFields : List (Option String)) (recP : Layout)
    (t : Str) (h : ∀ c ∈ t, c ≠ '\r') : parseFileText F defs epochFields recP t = parseFile F defs epochFields recP t := by
  unfold parseFileText
  rw [universalNewlines_id t h]

end Midgard.Props.C13

/-! ## Text mode without side hypothesis: a rendered file contains no carriage return -/

namespace Midgard.Props.C13
open Midgard.Sp3 Midgard.Generated.Sp3 Midgard.FixedCol Midgard.Text Midgard.Decimal
open Midgard.Spec.Sp3File Midgard.Spec.NumText

/-- **file_roundtrip_text**: `file_roundtrip` for the text-level entry point (universal newlines, then
`parseFile`) — no side hypothesis about carriage returns, `render_noCR` discharges it. -/
theorem file_roundtrip_text (f : File) (hwf : f.wf = true) :
    parseFileText factors headerDefs epochFields recP (Midgard.Spec.Sp3File.render f) =
      some ⟨expectedMeta f.hdr, expectedEntries factors f⟩ := by
  rw [parseFileText_eq _ _ _ _ _ (render_noCR f hwf)]
  exact file_roundtrip f hwf

/-- the hypothesis is satisfiable (`demoFile.wf`, see `Props/C13.lean`) and the text entry point delivers the file -/
example : parseFileText factors headerDefs epochFields recP (Midgard.Spec.Sp3File.render demoFile) =
    some ⟨expectedMeta demoFile.hdr, expectedEntries factors demoFile⟩ :=
  file_roundtrip_text demoFile (by decide +kernel)

/-! ## Velocity and correlation records are not delivered -/

/-- a position record without the V / EP / EV (and blank) lines that follow it -/
def stripRec (r : PosRec) : PosRec := { r with extras := [] }

/-- the file with every V / EP / EV line (and every blank line after a record) deleted -/
def stripExtras (F : File) : File :=
  { F with epochs := F.epochs.map fun b => { b with recs := b.recs.map stripRec } }

theorem stripRec_wf (r : PosRec) (h : r.wf = true) : (stripRec r).wf = true := by
  simp only [PosRec.wf, Bool.and_eq_true] at h ⊢
  exact ⟨h.1, by simp [stripRec]⟩

theorem stripExtras_wf (F : File) (hwf : F.wf = true) : (stripExtras F).wf = true := by
  simp only [File.wf, Bool.and_eq_true, List.all_eq_true] at hwf ⊢
  obtain ⟨⟨hh, hrecs⟩, hd⟩ := hwf
  refine ⟨⟨hh, ?_⟩, ?_⟩
  · intro b hb r hr
    simp only [stripExtras, List.mem_map] at hb
    obtain ⟨b0, hb0, rfl⟩ := hb
    simp only [List.mem_map] at hr
    obtain ⟨r0, hr0, rfl⟩ := hr
    exact stripRec_wf r0 (hrecs b0 hb0 r0 hr0)
  · simpa [stripExtras, List.map_map, Function.comp_def] using hd

theorem expectedMeta_stripExtras (F : File) : expectedMeta (stripExtras F).hdr = expectedMeta F.hdr := rfl

theorem expectedEntries_stripExtras (Fa : Factors) (F : File) :
    expectedEntries Fa (stripExtras F) = expectedEntries Fa F := by
  simp only [expectedEntries, stripExtras, List.flatMap_map, List.map_map]
  rfl

/-- **extras_invisible (file level)**: deleting every velocity (`V`) and correlation (`EP`, `EV`) record from a
well-formed file — wherever it stands after a position record — does not change what the parser returns:
these records are not delivered, and they do not disturb the position records around them -/
theorem extras_invisible (F : File) (hwf : F.wf = true) :
    parseFile factors headerDefs epochFields recP (render F) =
      parseFile factors headerDefs epochFields recP (render (stripExtras F)) := by
  rw [file_roundtrip F hwf, file_roundtrip _ (stripExtras_wf F hwf), expectedEntries_stripExtras,
    expectedMeta_stripExtras]

/-- **pv_file_delivers**: a position + velocity file (`pv_flag` V: every P record followed by its V record, possibly
with EP / EV records) yields exactly `expectedEntries factors F`: one entry per P record with epoch, position,
clock and the four sigmas.  `Entry` has no velocity or clock-rate component and `expectedEntries` does not look at
`PosRec.extras`: V, EP and EV records are **not delivered** by the parser (`_parse_velocity` returns at once, the
label `E` has no table entry) — the number of entries is the number of P records. -/
theorem pv_file_delivers (F : File) (hwf : F.wf = true) :
    ∃ p, parseFile factors headerDefs epochFields recP (render F) = some p ∧
      p.entries = expectedEntries factors (stripExtras F) ∧
      p.entries.length = (F.epochs.map (·.recs.length)).sum := by
  refine ⟨_, file_roundtrip F hwf, (expectedEntries_stripExtras factors F).symm, length_expectedEntries factors F⟩

/-- `demoFile` has a V line, an EP line and two blank lines per epoch; deleting them leaves a well-formed file with the same entries -/
example : (demoFile.epochs.flatMap fun b => b.recs.flatMap (·.extras)).length = 8 ∧
    ((stripExtras demoFile).epochs.flatMap fun b => b.recs.flatMap (·.extras)).length = 0 ∧
    (stripExtras demoFile).wf = true := by decide +kernel

example : parseFile factors headerDefs epochFields recP (render demoFile) =
    parseFile factors headerDefs epochFields recP (render (stripExtras demoFile)) :=
  extras_invisible demoFile (by decide +kernel)

end Midgard.Props.C13

#print axioms Midgard.Props.C13.layouts_sorted
#print axioms Midgard.Props.C13.cols_eq_spec
#print axioms Midgard.Props.C13.unit_factors
#print axioms Midgard.Props.C13.powCode_nat
#print axioms Midgard.Props.C13.sigma_blank
#print axioms Midgard.Props.C13.sigma_code
#print axioms Midgard.Props.C13.pos_record
#print axioms Midgard.Props.C13.fold_stepLine
#print axioms Midgard.Props.C13.block_entries
#print axioms Midgard.Props.C13.header_first_wins
#print axioms Midgard.Props.C13.header_fields
#print axioms Midgard.Props.C13.dataset_epoch
#print axioms Midgard.Props.C13.sigma_codeText
#print axioms Midgard.Props.C13.pos_line
#print axioms Midgard.Props.C13.filterMap_inert
#print axioms Midgard.Props.C13.entriesOf_body
#print axioms Midgard.Props.C13.body_lines
#print axioms Midgard.Props.C13.block_ok
#print axioms Midgard.Props.C13.epoch_expected
#print axioms Midgard.Props.C13.blocks_fold
#print axioms Midgard.Props.C13.splitBlocks_file
#print axioms Midgard.Props.C13.header_not_star
#print axioms Midgard.Props.C13.nonl_fileLines
#print axioms Midgard.Props.C13.file_roundtrip
#print axioms Midgard.Props.C13.length_expectedEntries
#print axioms Midgard.Props.C13.all_columns_equal_length
#print axioms Midgard.Props.C13.universalNewlines_id
#print axioms Midgard.Props.C13.parseFileText_eq
#print axioms Midgard.Props.C13.file_roundtrip_text
#print axioms Midgard.Props.C13.stepLine_blank
#print axioms Midgard.Props.C13.blank_lines_skipped
#print axioms Midgard.Props.C13.stripRec_wf
#print axioms Midgard.Props.C13.stripExtras_wf
#print axioms Midgard.Props.C13.expectedMeta_stripExtras
#print axioms Midgard.Props.C13.expectedEntries_stripExtras
#print axioms Midgard.Props.C13.extras_invisible
#print axioms Midgard.Props.C13.pv_file_delivers
#print axioms Midgard.Props.C13.extras_ok
