/-
C16 — Parsing is a pure function of file and arguments; every listed plug-in resolves.

Property theorems only.  Structure:

* `noninterference`, `fresh_parse`, `files_unchanged`: for *every* history of operations over any
  number of parser instances, what the owner of one instance observes is what it would observe if
  the events of all other instances had never happened, provided the operations satisfy
  `NonInterfering` (no file writes; cells that results depend on are never written; an invariant of
  the process-wide state).
* the independence lemma of every mechanism behind a process-wide cell the library really has
  (`memo_transparent`, `registry_get_independent`, `registry_names_independent`,
  `parser_cache_irrelevant_partial`, `parser_cache_local`), and the witness that the function-level
  list of `parser_cache` leaks for a header that starts with a continuation line
  (`parser_cache_leak_witness`) — which is why the repaired decorator keeps it on the instance.
* `framed_noninterfering` / `frame_noninterference`: the `NonInterfering` hypothesis follows from what the
  effect table states per operation — a read set and a write set (`Framed`) with no cell both read by some
  operation and written by some operation; `memo_world_noninterfering` / `registry_world_noninterfering` show the memo and the
  registry mechanism satisfy `NonInterfering` with the invariants `CacheSound` / `RegSound` (so these
  read-and-written cells are admissible).
* obligations over the tables regenerated from the source on every run
  (`effects_covered`, `shared_cells_read_before_write_zero`, `no_shared_cell_escapes`,
  `instance_cells_fresh`, `no_file_write_sites`, `plugins_resolve`, `writers_resolve`,
  `fieldtypes_resolve`, `plugin_lists_nonempty`).

Trusted, not proved: that the `ast` extraction finds every process-wide cell and that each real
operation satisfies `NonInterfering` for the `rel`/`Good` the cover table claims — validated on every
run by the history exploration of harness/c16.py against parses in fresh interpreters.
-/
import Midgard.Proofs.Purity

namespace Midgard.Props.C16
open Midgard.Purity Midgard.Generated.ParserEffects

/-! ### Non-interference over histories -/

section generic
variable {Id Loc Cell Val Path Bytes Op Obs : Type} [DecidableEq Id]

/-- **Non-interference.**  For every history `h` (any number of instances, any interleaving of
constructions, parses and mutations of results) and every instance `i`: what the owner of `i`
observes — every value returned to it, in order — is exactly what it observes when only its own
events are run from the initial world. -/
theorem noninterference {sem : Sem Loc Cell Val Path Bytes Op Obs} {rel : Cell → Prop}
    {Good : (Cell → Val) → Prop} (H : NonInterfering sem rel Good)
    (w : World Id Loc Cell Val Path Bytes) (hw : Good w.shared) (h : List (Event Id Op)) (i : Id) :
    obsOf i (run sem w h).2 = obsOf i (run sem w (purge i h)).2 :=
  (unwinding H i h w w ⟨rfl, rfl, fun _ _ => rfl, hw, hw⟩).1

/-- … and the instance ends in the same state (its `data`/`meta` are what a lone parse leaves). -/
theorem instance_state_independent {sem : Sem Loc Cell Val Path Bytes Op Obs} {rel : Cell → Prop}
    {Good : (Cell → Val) → Prop} (H : NonInterfering sem rel Good)
    (w : World Id Loc Cell Val Path Bytes) (hw : Good w.shared) (h : List (Event Id Op)) (i : Id) :
    (run sem w h).1.inst i = (run sem w (purge i h)).1.inst i :=
  (unwinding H i h w w ⟨rfl, rfl, fun _ _ => rfl, hw, hw⟩).2.2.1

/-- The shape the harness checks: if the only events of instance `i` in a history are
`construct` then `parse`, the parse returns what it returns in a fresh world (a fresh interpreter)
where nothing else ever ran. -/
theorem fresh_parse {sem : Sem Loc Cell Val Path Bytes Op Obs} {rel : Cell → Prop}
    {Good : (Cell → Val) → Prop} (H : NonInterfering sem rel Good)
    (w : World Id Loc Cell Val Path Bytes) (hw : Good w.shared) (h : List (Event Id Op)) (i : Id)
    (construct parse : Op) (hi : purge i h = [⟨i, construct⟩, ⟨i, parse⟩]) :
    obsOf i (run sem w h).2 = obsOf i (run sem w [⟨i, construct⟩, ⟨i, parse⟩]).2 := by
  rw [noninterference H w hw h i, hi]

/-- Parsing never modifies a file: after any history the file system is the initial one. -/
theorem files_unchanged {sem : Sem Loc Cell Val Path Bytes Op Obs} {rel : Cell → Prop}
    {Good : (Cell → Val) → Prop} (H : NonInterfering sem rel Good) :
    ∀ (h : List (Event Id Op)) (w : World Id Loc Cell Val Path Bytes), (run sem w h).1.files = w.files := by
  intro h
  induction h with
  | nil => intro w; rfl
  | cons e h ih =>
    intro w
    simp only [run]
    rw [ih]; simp [step, H.files_kept]

/-- **From frames to non-interference.**  If every operation stays inside its frame (`Framed`) and no cell that
some operation reads is written by any operation, the operations are `NonInterfering` (relevant cells = the cells
read; no invariant needed).  "Reset before use" cells are written but not read, sinks likewise: they may be written
freely. -/
theorem framed_noninterfering {sem : Sem Loc Cell Val Path Bytes Op Obs} {reads writes : Op → Cell → Prop}
    (F : Framed sem reads writes) (hdisj : ∀ op op' c, reads op c → ¬ writes op' c) :
    NonInterfering sem (fun c => ∃ op, reads op c) (fun _ => True) where
  files_kept := F.files_kept
  good_step := fun _ _ _ _ _ => trivial
  rel_kept := by
    intro op fs l s c _ hc
    obtain ⟨op', hr⟩ := hc
    exact F.writes_only op fs l s c (hdisj op' op c hr)
  reads_sound := by
    intro op fs l s s' _ _ h
    exact F.reads_only op fs l s s' (fun c hc => h c ⟨op, hc⟩)

/-- … hence, for every history over any number of instances, every instance's owner sees what it sees alone. -/
theorem frame_noninterference {sem : Sem Loc Cell Val Path Bytes Op Obs} {reads writes : Op → Cell → Prop}
    (F : Framed sem reads writes) (hdisj : ∀ op op' c, reads op c → ¬ writes op' c)
    (w : World Id Loc Cell Val Path Bytes) (h : List (Event Id Op)) (i : Id) :
    obsOf i (run sem w h).2 = obsOf i (run sem w (purge i h)).2 :=
  noninterference (framed_noninterfering F hdisj) w trivial h i

end generic

/-! ### Memo tables -/

section memo
variable {α β : Type} [DecidableEq α]

/-- A memoised deterministic function returns the function's value whatever earlier calls (of any
instance) left in the table, and leaves the table sound: `lru_cache`s and `_CONVERSION_HOPS` cannot
be noticed. -/
theorem memo_transparent (f : α → β) (cache : List (α × β)) (x : α) (h : CacheSound f cache) :
    (memoCall f cache x).1 = f x ∧ CacheSound f (memoCall f cache x).2 := by
  unfold memoCall
  cases hl : cache.lookup x with
  | none =>
    refine ⟨rfl, ?_⟩
    intro p hp
    simp at hp
    rcases hp with rfl | hp
    · rfl
    · exact h p hp
  | some v =>
    exact ⟨h (x, v) (lookup_mem hl), h⟩

/-- eviction (a bounded `lru_cache` dropping entries) keeps the table sound -/
theorem memo_evict_sound (f : α → β) (cache cache' : List (α × β)) (h : CacheSound f cache)
    (hs : ∀ p ∈ cache', p ∈ cache) : CacheSound f cache' := fun p hp => h p (hs p hp)

/-- **A memo table is an admissible read-and-written cell.**  The world whose process-wide state is the memo table
of a function of its arguments satisfies `NonInterfering` with *no* relevant cell and the invariant `CacheSound`:
by `noninterference`, whatever other instances called before, a call returns what it returns alone. -/
theorem memo_world_noninterfering {Loc Path Bytes : Type} (f : α → β) :
    NonInterfering (memoSem (Loc := Loc) (Path := Path) (Bytes := Bytes) f) (fun _ => False)
      (fun s => CacheSound f (s ())) where
  files_kept := fun _ _ _ _ => rfl
  good_step := fun x _ _ s hs => (memo_transparent f (s ()) x hs).2
  rel_kept := fun _ _ _ _ _ _ hc => hc.elim
  reads_sound := by
    intro x fs l s s' hs hs' _
    refine ⟨?_, rfl⟩
    show (memoCall f (s ()) x).1 = (memoCall f (s' ()) x).1
    rw [(memo_transparent f (s ()) x hs).1, (memo_transparent f (s' ()) x hs').1]

end memo

/-! ### Registries -/

section registry
variable {N P : Type} [DecidableEq N]

/-- **`plugins.get` is independent of the loading history.**  Whatever plug-ins earlier calls (of
any parser, writer or dataset) loaded, and in whatever order, `get n` returns what the source file
of `n` defines, and leaves the registry sound. -/
theorem registry_get_independent (defn : N → Option P) (closure : N → List N) (reg : List (N × P))
    (n : N) (h : RegSound defn reg) :
    (regGet defn closure reg n).1 = defn n ∧ RegSound defn (regGet defn closure reg n).2 := by
  unfold regGet regLoad
  cases hl : reg.lookup n with
  | some v =>
    simp
    exact ⟨by rw [hl]; exact (h (n, v) (lookup_mem' hl)).symm, h⟩
  | none =>
    simp only [Option.isSome_none, Bool.false_eq_true, if_false]
    unfold regImport
    exact ⟨foldl_snoc_lookup defn _ n reg h, foldl_regAdd_sound defn _ reg h⟩

/-- two `get`s of the same name at two different points of any history agree -/
theorem registry_get_stable (defn : N → Option P) (closure : N → List N) (reg reg' : List (N × P))
    (n : N) (h : RegSound defn reg) (h' : RegSound defn reg') :
    (regGet defn closure reg n).1 = (regGet defn closure reg' n).1 := by
  rw [(registry_get_independent defn closure reg n h).1, (registry_get_independent defn closure reg' n h').1]

/-- **`plugins.exists` is a pure question.**  It answers whether the source defines the plug-in and
leaves the registry sound — in particular a name that is not a plug-in leaves no entry behind. -/
theorem registry_exists_sound (defn : N → Option P) (closure : N → List N) (reg : List (N × P))
    (n : N) (h : RegSound defn reg) :
    (regExists defn closure reg n).1 = (defn n).isSome ∧ RegSound defn (regExists defn closure reg n).2 := by
  have := registry_get_independent defn closure reg n h
  exact ⟨by simp [regExists, this.1], this.2⟩

/-- **Every listed name resolves**, after any history of `get`/`load`/`exists` questions (all of
which keep the registry sound): a name `names()` lists — a key of the registry — is found by `get`. -/
theorem registry_listed_resolve (defn : N → Option P) (closure : N → List N) (reg : List (N × P))
    (h : RegSound defn reg) : ∀ k ∈ regKeys reg, (regGet defn closure reg k).1.isSome = true := by
  intro k hk
  simp only [regKeys, List.mem_map] at hk
  obtain ⟨⟨k', v⟩, hmem, rfl⟩ := hk
  rw [(registry_get_independent defn closure reg k' h).1, h (k', v) hmem]
  rfl

/-- **The registry is an admissible read-and-written cell.**  The world whose process-wide state is the plug-in
registry satisfies `NonInterfering` with no relevant cell and the invariant `RegSound`: by `noninterference`,
whatever other parsers, writers or datasets loaded before, `get` returns what it returns alone. -/
theorem registry_world_noninterfering {Loc Path Bytes : Type} (defn : N → Option P) (closure : N → List N) :
    NonInterfering (regSem (Loc := Loc) (Path := Path) (Bytes := Bytes) defn closure) (fun _ => False)
      (fun s => RegSound defn (s ())) where
  files_kept := fun _ _ _ _ => rfl
  good_step := fun n _ _ s hs => (registry_get_independent defn closure (s ()) n hs).2
  rel_kept := fun _ _ _ _ _ _ hc => hc.elim
  reads_sound := by
    intro n fs l s s' hs hs' _
    refine ⟨?_, rfl⟩
    show (regGet defn closure (s ()) n).1 = (regGet defn closure (s' ()) n).1
    exact registry_get_stable defn closure (s ()) (s' ()) n hs hs'

end registry

/-! ### The function-level list of `parser_cache` -/

/-
Full statement (false of the code as it was, see `parser_cache_leak_witness`):
  ∀ pre lines, (parseHeader .shared pre lines).1 = (parseHeader .shared [] lines).1
-/
/-- **The shared list is irrelevant for well-formed headers** (code as it was): whatever earlier
parses of any instance and any file left in the function-level list, a header whose first
`SYS / # / OBS TYPES` line names its system is parsed as with an empty list — every continuation
line resolves to an entry of its own file; and the list only grows by the lines of this file.
Missing for the full statement: headers that *start* with a continuation line. -/
theorem parser_cache_irrelevant_partial (pre lines : List ObsLine) (h : wfHeader lines = true) :
    (parseHeader .shared pre lines).1 = (parseHeader .shared [] lines).1 ∧
    (parseHeader .shared pre lines).2 = pre ++ (parseHeader .shared [] lines).2 := by
  have := parseFrom_prefix pre lines [] [] (Or.inr h)
  simpa [parseHeader] using this

/-- The leak of the shared list: a header starting with a continuation line raises in a fresh
interpreter and is silently attributed to the *other file's* system after any other parse. -/
theorem parser_cache_leak_witness :
    (parseHeader .shared [] [⟨[], ["C1C".toList]⟩]).1 = none ∧
    (parseHeader .shared [⟨"G".toList, ["L1C".toList]⟩] [⟨[], ["C1C".toList]⟩]).1
      = some [("G".toList, ["C1C".toList])] := by
  decide +kernel

/-- **The repaired decorator** (list on the instance): for *every* header, well-formed or not, the
result does not depend on what other parses left behind, and the process-wide list is untouched. -/
theorem parser_cache_local (pre pre' lines : List ObsLine) :
    (parseHeader .local pre lines).1 = (parseHeader .local pre' lines).1 ∧
    (parseHeader .local pre lines).2 = pre := by
  simp [parseHeader]

/-- on well-formed headers the two mechanisms agree (the repair changes no result that was
history-independent before) -/
theorem parser_cache_repair_conservative (pre lines : List ObsLine) (h : wfHeader lines = true) :
    (parseHeader .local pre lines).1 = (parseHeader .shared pre lines).1 := by
  rw [(parser_cache_irrelevant_partial pre lines h).1]
  simp [parseHeader]

/-! ### Obligations over the regenerated tables -/

/-- Every process-wide cell that is written at run time (found by the `ast` scan of the current
source) is of a mechanism that has an independence lemma above. -/
theorem effects_covered : ∀ e ∈ effects, (coverOf e).isSome = true := by
  decide +kernel

/-- **Read-before-write at module, class, function or closure level: exactly zero.**  Among the process-wide cells
of the regenerated table, those that are written at run time *and* read, and are neither a reviewed memo table nor
an import-time registry nor a (trusted) sink, number zero: no parse can read in such a cell what an earlier parse
left there. -/
theorem shared_cells_read_before_write_zero : readBeforeWriteCells.length = 0 := by
  decide +kernel

/-- **No shared object is handed out.**  No mutable object of module, class or closure level is returned, bound to
another name, stored in a container or passed to a call that is not a pure consumer (apart from reviewed entries,
of which there are none): a parser's result (`meta`, `data`, `header`) cannot contain an object that other parses
or the module share. -/
theorem no_shared_cell_escapes : unreviewedEscapes.length = 0 := by
  decide +kernel

/-- **Per-object state is fresh per object** (every class of midgard/parsers): every attribute bound or mutated
through `self` is bound in `__init__` of the class or an ancestor, or created by a named method on first use; none
falls back to a class-level mutable object and none is bound to a shared object. -/
theorem instance_cells_fresh : staleInstanceCells.length = 0 ∧ instanceCells ≠ [] := by
  decide +kernel

/-- the memo rows are function-level cells, every one was reviewed, and no memoised body looks at the file system,
the clock or the environment -/
theorem memo_rows_reviewed :
    ∀ r ∈ cells, r.kind = .lrucache → (r.level = .function ∧ reviewedMemo.contains r.id = true ∧ r.escapeSites = 0) := by
  decide +kernel

/-- No statement in `midgard/parsers` can modify an existing input file. -/
theorem no_file_write_sites : fileWriteSites = [] := by
  decide +kernel

/-- Every listed parser name loads and is a parser class or a parser factory taking
`(file_path, encoding)` (full statement: since the `fix:` of the `rinex_nav` dispatcher no name is
excepted). -/
theorem plugins_resolve :
    ∀ p ∈ parserPlugins, (p.2 = .parserClass ∨ p.2 = .parserFactory) := by
  decide +kernel

theorem writers_resolve : ∀ p ∈ writerPlugins, p.2 = .writerFunction := by
  decide +kernel

theorem fieldtypes_resolve : ∀ p ∈ fieldTypePlugins, p.2 = .fieldTypeClass := by
  decide +kernel

/-- the library's own `names()` worked for all three packages and listed something; every listed
name is a file of its package -/
theorem plugin_lists_nonempty :
    parserPluginsListError = "" ∧ writerPluginsListError = "" ∧ fieldTypePluginsListError = "" ∧
    parserPlugins ≠ [] ∧ writerPlugins ≠ [] ∧ fieldTypePlugins ≠ [] ∧
    (∀ p ∈ parserPlugins, p.1 ∈ parserPluginsFiles) ∧ (∀ p ∈ writerPlugins, p.1 ∈ writerPluginsFiles) ∧
    (∀ p ∈ fieldTypePlugins, p.1 ∈ fieldTypePluginsFiles) := by
  decide +kernel

/-! ### Non-vacuity: a world with a registry-like constant cell, a sink cell and two instances -/

/-- toy operations: `parse` returns file bytes + the constant cell and bumps the sink cell -/
private def toySem : Sem Nat Bool Nat Nat Nat Bool Nat := fun op fs l s =>
  if op then ⟨fs l + s true, l, fun c => if c then s c else s c + 1, fs⟩
  else ⟨0, l + 1, s, fs⟩

example : NonInterfering toySem (fun c => c = true) (fun _ => True) where
  files_kept := by intro op fs l s; cases op <;> rfl
  good_step := by intros; trivial
  rel_kept := by intro op fs l s c _ hc; subst hc; cases op <;> rfl
  reads_sound := by
    intro op fs l s s' _ _ h
    cases op
    · exact ⟨rfl, rfl⟩
    · simp [toySem, h true rfl]

example : wfHeader [⟨"G".toList, ["C1C".toList]⟩, ⟨[], ["L1C".toList]⟩] = true := by decide

/-- the toy operations stay inside the frame {read: the constant cell `true`; write: the sink cell `false`} -/
example : Framed toySem (fun op c => op = true ∧ c = true) (fun op c => op = true ∧ c = false) where
  files_kept := by intro op fs l s; cases op <;> rfl
  writes_only := by
    intro op fs l s c h
    cases op
    · rfl
    · cases c
      · exact absurd ⟨rfl, rfl⟩ h
      · rfl
  reads_only := by
    intro op fs l s s' h
    cases op
    · exact ⟨rfl, rfl⟩
    · simp [toySem, h true ⟨rfl, rfl⟩]

example : ∀ (op op' : Bool) (c : Bool), (op = true ∧ c = true) → ¬ (op' = true ∧ c = false) := by
  intro _ _ c h h'; rw [h.2] at h'; exact Bool.noConfusion h'.2

example : CacheSound (fun n : Nat => n + 1) [(1, 2), (5, 6)] := by
  intro p hp; simp at hp; rcases hp with rfl | rfl <;> rfl

end Midgard.Props.C16

#print axioms Midgard.Props.C16.noninterference
#print axioms Midgard.Props.C16.instance_state_independent
#print axioms Midgard.Props.C16.fresh_parse
#print axioms Midgard.Props.C16.files_unchanged
#print axioms Midgard.Props.C16.framed_noninterfering
#print axioms Midgard.Props.C16.frame_noninterference
#print axioms Midgard.Props.C16.memo_transparent
#print axioms Midgard.Props.C16.memo_evict_sound
#print axioms Midgard.Props.C16.memo_world_noninterfering
#print axioms Midgard.Props.C16.registry_get_independent
#print axioms Midgard.Props.C16.registry_get_stable
#print axioms Midgard.Props.C16.registry_exists_sound
#print axioms Midgard.Props.C16.registry_listed_resolve
#print axioms Midgard.Props.C16.registry_world_noninterfering
#print axioms Midgard.Props.C16.parser_cache_irrelevant_partial
#print axioms Midgard.Props.C16.parser_cache_leak_witness
#print axioms Midgard.Props.C16.parser_cache_local
#print axioms Midgard.Props.C16.parser_cache_repair_conservative
#print axioms Midgard.Props.C16.effects_covered
#print axioms Midgard.Props.C16.shared_cells_read_before_write_zero
#print axioms Midgard.Props.C16.no_shared_cell_escapes
#print axioms Midgard.Props.C16.instance_cells_fresh
#print axioms Midgard.Props.C16.memo_rows_reviewed
#print axioms Midgard.Props.C16.no_file_write_sites
#print axioms Midgard.Props.C16.plugins_resolve
#print axioms Midgard.Props.C16.writers_resolve
#print axioms Midgard.Props.C16.fieldtypes_resolve
#print axioms Midgard.Props.C16.plugin_lists_nonempty
