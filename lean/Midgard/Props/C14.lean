/-
C14 — SINEX blocks are parsed column-exactly and matrices are rebuilt symmetric.
(first instalment: table obligations; extended below as the proofs land)
-/
import Midgard.Model.SinexFile
import Midgard.Generated.SinexBlocks
import Midgard.Spec.Sinex202
import Midgard.Proofs.FixedCol

namespace Midgard.Props.C14
open Midgard.Sinex Midgard.Generated.Sinex Midgard.FixedCol

/-- start columns strictly ascending, first one after the record's lead character -/
def ascending : List Nat → Bool
  | a :: b :: rest => decide (a < b) && ascending (b :: rest)
  | _ => true

def startsOk (fs : List FieldDef) : Bool :=
  ascending (fs.map (·.start)) && decide (1 ≤ (fs.map (·.start)).headD 1)

/-- every table of every parser has strictly ascending start columns (so that
`np.diff([0] + starts + [81])` has no negative width) -/
theorem starts_sorted : (allBlocks.all fun b => startsOk b.fields) = true ∧
    (allHeaders.all startsOk) = true := by
  decide +kernel

end Midgard.Props.C14

#print axioms Midgard.Props.C14.starts_sorted
