/-
C14 — SINEX blocks are parsed column-exactly and matrices are rebuilt symmetric.

Property theorems only.  They are about the executable model `Model/Sinex.lean` /
`Model/SinexFile.lean`, instantiated at the tables regenerated from the source on every run
(`Generated/SinexBlocks.lean`) and compared with the independently typed standard
(`Spec/Sinex202.lean`).  `np.genfromtxt` itself is modelled (see the model's header); that the
model is the code is re-established by the correspondence run of `harness/c14.py`.
-/
import Midgard.Model.SinexFile
import Midgard.Generated.SinexBlocks
import Midgard.Spec.Sinex202
import Midgard.Proofs.FixedCol
import Midgard.Proofs.Decimal

namespace Midgard.Props.C14
open Midgard.Sinex Midgard.Generated.Sinex Midgard.FixedCol Midgard.Text Midgard.Decimal
open Midgard.Spec.Sinex (SField SBlock Kind)

/-! ## 1. Obligations on the regenerated tables (`decide`) -/

/-- start columns strictly ascending, first one after the record's lead character -/
def ascending : List Nat → Bool
  | a :: b :: rest => decide (a < b) && ascending (b :: rest)
  | _ => true

def startsOk (fs : List FieldDef) : Bool :=
  ascending (fs.map (·.start)) && decide (1 ≤ (fs.map (·.start)).headD 1)

/-- the SINEX (80-column) parsers: everything but sinex_tms -/
def snxBlocks : List BlockDef := baseBlocks ++ siteBlocks ++ discBlocks ++ eventsBlocks ++ troBlocks
def snxHeaders : List (List FieldDef) := [baseHeader, siteHeader, discHeader, eventsHeader, troHeader]

/-- every table of every parser has strictly ascending start columns (so that
`np.diff([0] + starts + [81])` has no negative or zero width) -/
theorem starts_sorted : (allBlocks.all fun b => startsOk b.fields) = true ∧
    (allHeaders.all startsOk) = true := by
  decide +kernel

/-- every field of the 80-column parsers begins inside the record (`start ≤ 80`), so the layout cut
by `layoutOf · 81` is sorted: the hypothesis of `block_roundtrip` holds for each of these tables -/
theorem within_80 : (snxBlocks.all fun b => Sorted (layoutOf b.fields 81)) = true ∧
    (snxHeaders.all fun h => Sorted (layoutOf h 81)) = true ∧
    (snxBlocks.all fun b => b.fields.all fun f => decide (f.start ≤ 80)) = true := by
  decide +kernel

def nodup : List (List Nat) → Bool
  | [] => true
  | a :: rest => !rest.contains a && nodup rest

/-- the validated name, as code points (`validName` is `String.ofList` of exactly this) -/
def vcodes (n : String) : List Nat := validCodes (nameCodes n)

/-- field names stay distinct after NumPy's name validation (otherwise genfromtxt renames silently) -/
theorem names_unique : (allBlocks.all fun b => nodup ((kept b.fields).map fun f => vcodes f.name)) = true ∧
    (allHeaders.all fun h => nodup ((kept h).map fun f => vcodes f.name)) = true := by
  decide +kernel

/-- no table asks for the `dms2rad` converter (the only one the model does not evaluate) and no
table drops a column (`dtype=None`) -/
theorem converters_modelled :
    (allBlocks.all fun b => b.fields.all fun f => f.conv ≠ .dms2rad && f.dtype ≠ .skip) = true := by
  decide +kernel

/-- the conversion the code declares for a field agrees with the kind of value the standard puts
there; for text the dtype is at least as wide as the standard's field (**no truncation**) -/
def kindOk (k : Kind) (width : Nat) (f : FieldDef) : Bool :=
  match k, f.dtype, f.conv with
  | .text, .u n, .none => decide (width ≤ n)
  | .text, .u n, .utf8 => decide (width ≤ n)
  | .int, .i8, .none => true
  | .flt, .f8, .none => true
  | .exp, .f8, .exponent => true
  | .dms, .f8, .dms2deg => true
  | .epoch, .obj, .epoch => true
  | .epoch4, .obj, .yyyydddsssss => true
  | .tup, .obj, .tuple => true
  | _, _, _ => false

/-- a standard field lies inside the columns the code cuts for the field of the same (validated)
name, with the declared conversion (`stop` = start of the code's next field, or the record end) -/
def fieldCovered (f : FieldDef) (stop : Nat) (sf : SField) : Bool :=
  (vcodes f.name == nameCodes sf.name) && decide (f.start ≤ sf.start) && decide (sf.start + sf.width ≤ stop) &&
    decide (sf.start + sf.width ≤ 80) && kindOk sf.kind sf.width f

/-- code fields and standard fields correspond position by position -/
def fieldsCovered : List FieldDef → Nat → List SField → Bool
  | [], _, [] => true
  | [f], total, [sf] => fieldCovered f total sf
  | f :: g :: fs, total, sf :: sfs => fieldCovered f g.start sf && fieldsCovered (g :: fs) total sfs
  | _, _, _ => false

def blockCovered (code : List BlockDef) (sb : SBlock) : Bool :=
  match code.find? (·.marker = sb.marker) with
  | Option.none => false
  | some b => fieldsCovered b.fields 81 sb.fields

/-- **columns = standard**: for every block of SINEX 2.02 (and the two IGS extensions, and the
SINEX_TRO blocks) the code cuts, for each standard field, a column range that contains the
standard's columns and nothing of a neighbouring field, applies the conversion the standard's
field kind calls for, and (text) does not truncate. Same for the header line. -/
theorem cols_cover_spec :
    (Midgard.Spec.Sinex.official.all (blockCovered baseBlocks)) = true ∧
    (Midgard.Spec.Sinex.unofficial.all (blockCovered baseBlocks)) = true ∧
    (Midgard.Spec.Sinex.tro.all (blockCovered troBlocks)) = true ∧
    fieldsCovered baseHeader 81 Midgard.Spec.Sinex.header = true := by
  decide +kernel

/-- the block tables the site / discontinuities / events parsers use are the base-class tables of
the same marker (so `cols_cover_spec` speaks about them too), and all five parsers share the
base header except sinex_tms -/
theorem concrete_tables_are_base :
    ((siteBlocks ++ discBlocks ++ eventsBlocks).all fun b =>
      (baseBlocks.find? (·.marker = b.marker)).map (·.fields) = some b.fields) = true ∧
    siteHeader = baseHeader ∧ discHeader = baseHeader ∧ eventsHeader = baseHeader ∧ troHeader = baseHeader := by
  decide +kernel

/-! ## 2. Generic block round trip -/

/-- Reading a rendered record: whatever clean texts are placed in the columns of a (sorted) table
come back, field by field — also after the record lost its trailing blanks. -/
theorem block_roundtrip (fs : List FieldDef) (total : Nat) (cells : List (Align × Str))
    (hs : Sorted (layoutOf fs total) = true) (hf : Fits (layoutOf fs total) cells = true) :
    cutLine fs total (renderA (layoutOf fs total) cells) = cells.map (·.2) ∧
    cutLine fs total (rstrip (renderA (layoutOf fs total) cells)) = cells.map (·.2) := by
  constructor
  · exact slice_renderA _ _ hs hf
  · exact slice_renderA_rstrip _ _ hs hf

/-- … and each returned value is the declared conversion of exactly that text. -/
theorem parseLine_roundtrip (fs : List FieldDef) (total : Nat) (cells : List (Align × Str))
    (hs : Sorted (layoutOf fs total) = true) (hf : Fits (layoutOf fs total) cells = true) :
    parseLine fs total (renderA (layoutOf fs total) cells) =
      ((fs.zip (cells.map (·.2))).filter (·.1.dtype ≠ .skip)).map
        fun (fd, t) => (validName fd.name, convertCell fd t) := by
  unfold parseLine
  rw [(block_roundtrip fs total cells hs hf).1]

/-- text fields: stripped by construction, truncated only beyond the dtype width -/
theorem text_field (name : String) (start k : Nat) (t : Str) (h : t.length ≤ k) :
    convertCell ⟨name, start, .u k, .none⟩ t = .str t := by
  simp [convertCell, List.take_of_length_le h]

/-! ## 3. Converters -/

/-- YY:DDD:SSSSS as printed by a conforming writer -/
def epochText (yy ddd s : Nat) : Str :=
  fixedDigits 2 yy ++ ':' :: fixedDigits 3 ddd ++ ':' :: fixedDigits 5 s

theorem fixedDigits2 (n : Nat) : fixedDigits 2 n = [digitChar (n / 10), digitChar n] := rfl
theorem fixedDigits3 (n : Nat) : fixedDigits 3 n = [digitChar (n / 10 / 10), digitChar (n / 10), digitChar n] := rfl
theorem fixedDigits5 (n : Nat) : fixedDigits 5 n =
    [digitChar (n / 10 / 10 / 10 / 10), digitChar (n / 10 / 10 / 10), digitChar (n / 10 / 10), digitChar (n / 10),
     digitChar n] := rfl

theorem parseDoy_fixed (d : Nat) (h1 : 1 ≤ d) (h2 : d ≤ 366) : parseDoy? (fixedDigits 3 d) = some d := by
  unfold parseDoy?
  have hv : digitsVal (fixedDigits 3 d) = d := by rw [digitsVal_fixedDigits]; omega
  simp [length_fixedDigits, allDigits_fixedDigits, hv, h1, h2]

theorem threeZero_iff (d : Nat) (h : d < 1000) : fixedDigits 3 d = ['0', '0', '0'] → d = 0 := by
  intro he
  have := digitsVal_fixedDigits 3 d
  rw [he] at this
  have h0 : digitsVal ['0', '0', '0'] = 0 := by decide
  rw [h0] at this
  omega

/-- **epoch pivot**: a well-formed `YY:DDD:SSSSS` is day `DDD` of the year 20YY (`YY ≤ 50`) or 19YY
(`YY > 50`), plus `SSSSS` seconds -/
theorem epoch_pivot (yy ddd s : Nat) (hy : yy < 100) (hd1 : 1 ≤ ddd) (hd2 : ddd ≤ 366) (hs : s < 86400) :
    convertEpoch? (epochText yy ddd s) =
      some (.dt (jan1 (if yy ≤ 50 then 2000 + yy else 1900 + yy) + ddd - 1) s) := by
  have hshape : epochText yy ddd s =
      [digitChar (yy / 10), digitChar yy, ':', digitChar (ddd / 10 / 10), digitChar (ddd / 10), digitChar ddd, ':',
       digitChar (s / 10 / 10 / 10 / 10), digitChar (s / 10 / 10 / 10), digitChar (s / 10 / 10),
       digitChar (s / 10), digitChar s] := rfl
  have htake2 : (epochText yy ddd s).take 2 = fixedDigits 2 yy := by rw [hshape]; rfl
  have htake6 : (epochText yy ddd s).take 6 = fixedDigits 2 yy ++ ':' :: fixedDigits 3 ddd := by rw [hshape]; rfl
  have hslice : Text.slice 3 6 (epochText yy ddd s) = fixedDigits 3 ddd := by rw [hshape]; rfl
  have hdrop7 : (epochText yy ddd s).drop 7 = fixedDigits 5 s := by rw [hshape]; rfl
  have hyy : parseInt? (fixedDigits 2 yy) = some ((yy : Nat) : Int) := by
    rw [parseInt_fixedDigits (by decide)]; congr 2; omega
  have hss : parseInt? (fixedDigits 5 s) = some ((s : Nat) : Int) := by
    rw [parseInt_fixedDigits (by decide)]; congr 2; omega
  have hnz : ¬ (fixedDigits 3 ddd = ['0', '0', '0']) := fun he => by
    have := threeZero_iff ddd (by omega) he; omega
  unfold convertEpoch?
  rw [htake2, hyy]
  simp only [hslice, hnz, and_false, if_false, htake6, hdrop7, hss]
  -- the century prefix followed by the two year digits is a four-digit year
  by_cases hc : ((yy : Nat) : Int) > 50
  · have hle : ¬ yy ≤ 50 := by omega
    simp only [hc, if_true, hle, if_false]
    have hstr : strptimeYj? (['1', '9'] ++ (fixedDigits 2 yy ++ ':' :: fixedDigits 3 ddd)) =
        some (jan1 (1900 + yy) + ddd - 1) := by
      unfold strptimeYj?
      have h4 : (['1', '9'] ++ (fixedDigits 2 yy ++ ':' :: fixedDigits 3 ddd)).take 4 =
          ['1', '9', digitChar (yy / 10), digitChar yy] := rfl
      have hd4 : (['1', '9'] ++ (fixedDigits 2 yy ++ ':' :: fixedDigits 3 ddd)).drop 4 = ':' :: fixedDigits 3 ddd := rfl
      have hall : allDigits ['1', '9', digitChar (yy / 10), digitChar yy] = true := by
        simp [allDigits, isDigit_digitChar]; decide
      have hval : digitsVal ['1', '9', digitChar (yy / 10), digitChar yy] = 1900 + yy := by
        show ((((0 * 10 + digitVal '1') * 10 + digitVal '9') * 10 + digitVal (digitChar (yy / 10))) * 10
          + digitVal (digitChar yy)) = 1900 + yy
        rw [digitVal_digitChar, digitVal_digitChar]
        have : digitVal '1' = 1 := by decide
        have : digitVal '9' = 9 := by decide
        omega
      rw [h4, hd4]
      simp only [List.length_cons, List.length_nil, hall, parseDoy_fixed ddd hd1 hd2, hval]
      have h1 : (1 : Int) ≤ 1900 + (yy : Int) := by omega
      simp [h1]
    rw [hstr]
    have e1 : ((s : Nat) : Int) / 86400 = 0 := by omega
    have e2 : ((s : Nat) : Int) % 86400 = s := by omega
    simp only [addSeconds, e1, e2, Int.add_zero]
  · have hle : yy ≤ 50 := by omega
    simp only [hc, if_false, hle, if_true]
    have hstr : strptimeYj? (['2', '0'] ++ (fixedDigits 2 yy ++ ':' :: fixedDigits 3 ddd)) =
        some (jan1 (2000 + yy) + ddd - 1) := by
      unfold strptimeYj?
      have h4 : (['2', '0'] ++ (fixedDigits 2 yy ++ ':' :: fixedDigits 3 ddd)).take 4 =
          ['2', '0', digitChar (yy / 10), digitChar yy] := rfl
      have hd4 : (['2', '0'] ++ (fixedDigits 2 yy ++ ':' :: fixedDigits 3 ddd)).drop 4 = ':' :: fixedDigits 3 ddd := rfl
      have hall : allDigits ['2', '0', digitChar (yy / 10), digitChar yy] = true := by
        simp [allDigits, isDigit_digitChar]; decide
      have hval : digitsVal ['2', '0', digitChar (yy / 10), digitChar yy] = 2000 + yy := by
        show ((((0 * 10 + digitVal '2') * 10 + digitVal '0') * 10 + digitVal (digitChar (yy / 10))) * 10
          + digitVal (digitChar yy)) = 2000 + yy
        rw [digitVal_digitChar, digitVal_digitChar]
        have : digitVal '2' = 2 := by decide
        have : digitVal '0' = 0 := by decide
        omega
      rw [h4, hd4]
      simp only [List.length_cons, List.length_nil, hall, parseDoy_fixed ddd hd1 hd2, hval]
      have h1 : (1 : Int) ≤ 2000 + (yy : Int) := by omega
      simp [h1]
    rw [hstr]
    have e1 : ((s : Nat) : Int) / 86400 = 0 := by omega
    have e2 : ((s : Nat) : Int) % 86400 = s := by omega
    simp only [addSeconds, e1, e2, Int.add_zero]

/-- **open epoch**: `00:000:00000` has no date (`None`) -/
theorem epoch_open : convertCell ⟨"t", 0, .obj, .epoch⟩ "00:000:00000".toList = .none := by
  decide +kernel

/-- … while day 000 of any other epoch is read as day 001 (what the code does, documented there) -/
example : convertEpoch? "95:000:00000".toList = convertEpoch? "95:001:00000".toList := by decide +kernel

/-- non-vacuity of `epoch_pivot`: both sides of the pivot -/
example : convertEpoch? "50:001:00000".toList = some (.dt (jan1 2050) 0) ∧
    convertEpoch? "51:366:86399".toList = some (.dt (jan1 1951 + 365) 86399) := by decide +kernel

/-- **D exponents equal E exponents**: rewriting every `E` of a number as `D` does not change the value -/
theorem exponent_D_eq_E (t : Str) : convertExponent (replaceChar 'E' 'D' t) = convertExponent t := by
  unfold convertExponent
  congr 1
  simp only [replaceChar, List.map_map]
  apply List.map_congr_left
  intro c _
  by_cases h : c = 'E'
  · subst h; decide
  · simp only [Function.comp, h, if_false]

example : convertExponent "-.240960109141758D+07".toList = some (-2409601.09141758) := by decide +kernel

/-- **dms keeps the sign of the degree part**, also for `-0` -/
theorem dms_sign (neg : Bool) (d m s : Rat) (hd : 0 ≤ d ∨ neg = true) :
    dmsValue neg d m s = (if neg then -1 else 1) * ((if d < 0 then -d else d) + m / 60 + s / 3600) := by
  unfold dmsValue
  cases neg <;> simp <;> grind

/-- the degree text decides the sign: `-0 30 00.0` is −0.5° -/
example : convertDms2deg "-0 30 00.0".toList = some (-1 / 2) ∧
    convertDms2deg " 0 30 00.0".toList = some (1 / 2) ∧
    convertDms2deg "-12 30 36.0".toList = some (-1251 / 100) := by decide +kernel

/-! ## 4. Matrices -/

theorem get_symmetrize (t : Tri) (n : Nat) (M : Matrix) (i j : Nat) (hi : i < n) (hj : j < n) :
    (symmetrize t n M).get i j =
      match t with
      | .lower => if j ≤ i then M.get i j else M.get j i
      | .upper => if i ≤ j then M.get i j else M.get j i
      | .unspecified => if i = j then M.get i i else M.get i j + M.get j i := by
  cases t <;> simp [symmetrize, Matrix.get, hi, hj, List.getD_eq_getElem?_getD]

/-- **the rebuilt matrix is symmetric**, whichever triangle the block gives -/
theorem matrix_symm (t : Tri) (n : Nat) (M : Matrix) (i j : Nat) (hi : i < n) (hj : j < n) :
    (symmetrize t n M).get i j = (symmetrize t n M).get j i := by
  rw [get_symmetrize t n M i j hi hj, get_symmetrize t n M j i hj hi]
  cases t
  · simp only
    by_cases h1 : j ≤ i <;> by_cases h2 : i ≤ j <;> simp [h1, h2]
    · have : i = j := by omega
      subst this; rfl
    · omega
  · simp only
    by_cases h1 : j ≤ i <;> by_cases h2 : i ≤ j <;> simp [h1, h2]
    · have : i = j := by omega
      subst this; rfl
    · omega
  · simp only
    by_cases h : i = j
    · subst h; rfl
    · have h' : ¬ j = i := fun e => h e.symm
      simp only [h, h', if_false]
      grind

/-- the size is `n × n` -/
theorem matrix_shape (t : Tri) (n : Nat) (M : Matrix) :
    (symmetrize t n M).length = n ∧ ∀ r ∈ symmetrize t n M, r.length = n := by
  constructor
  · simp [symmetrize]
  · intro r hr
    simp only [symmetrize, List.mem_map, List.mem_range] at hr
    obtain ⟨i, _, rfl⟩ := hr
    simp

/-- lower form: the stored triangle is taken as listed, the other one mirrored -/
theorem matrix_lower_entries (n : Nat) (M : Matrix) (i j : Nat) (hi : i < n) (hj : j < n) (h : j ≤ i) :
    (symmetrize .lower n M).get i j = M.get i j ∧ (symmetrize .lower n M).get j i = M.get i j := by
  rw [get_symmetrize _ n M i j hi hj, get_symmetrize _ n M j i hj hi]
  simp only [h, if_true]
  by_cases h2 : i ≤ j
  · have : i = j := by omega
    subst this; simp
  · simp [h2]

theorem matrix_upper_entries (n : Nat) (M : Matrix) (i j : Nat) (hi : i < n) (hj : j < n) (h : i ≤ j) :
    (symmetrize .upper n M).get i j = M.get i j ∧ (symmetrize .upper n M).get j i = M.get i j := by
  rw [get_symmetrize _ n M i j hi hj, get_symmetrize _ n M j i hj hi]
  simp only [h, if_true]
  by_cases h2 : j ≤ i
  · have : i = j := by omega
    subst this; simp
  · simp [h2]

/-- a concrete block with omitted elements: upper form, n = 3, `(1,1..3)` and `(2,3)` listed -/
example : matrixOf .upper (some 3) [⟨1, 1, [some 1.5, some 2.5, some 3.5]⟩, ⟨2, 3, [some 4.5, Option.none, Option.none]⟩] =
    some [[1.5, 2.5, 3.5], [2.5, 0, 4.5], [3.5, 4.5, 0]] := by decide +kernel

/-! ## 5. Per-site regrouping -/

/-- all rows stored under `entry`, over all sites, in table order -/
def allRows (entry : String) (T : SiteTable) : List Row :=
  T.flatMap fun (_, entries) => (dget? entries entry).getD []

theorem dget_dset_self {α} (d : List (String × α)) (k : String) (v : α) : dget? (dset d k v) k = some v := by
  induction d with
  | nil => simp [dset, dget?]
  | cons p rest ih =>
    obtain ⟨k', v'⟩ := p
    by_cases h : k' = k
    · simp [dset, dget?, h]
    · simp [dset, dget?, h, ih]

/-- appending one row to a site's list adds exactly that row to the collection of all rows -/
theorem allRows_addRow (entry : String) (T : SiteTable) (key : String) (r : Row) :
    (allRows entry (addRow false entry T key r)).Perm (allRows entry T ++ [r]) := by
  unfold addRow
  simp only [Bool.false_eq_true, if_false]
  induction T with
  | nil =>
    simp [dget?, dset, allRows, dget_dset_self]
  | cons p rest ih =>
    obtain ⟨k', s'⟩ := p
    by_cases h : k' = key
    · subst h
      simp only [dget?, if_true, Option.getD_some, dset, allRows, List.flatMap_cons, dget_dset_self]
      -- (old ++ [r]) ++ tail  ~  (old ++ tail) ++ [r]
      rw [List.append_assoc, List.append_assoc]
      exact List.Perm.append_left _ List.perm_append_comm
    · simp only [dget?, h, if_false, dset, allRows, List.flatMap_cons]
      rw [List.append_assoc]
      exact List.Perm.append_left _ ih

/-- **site_regroup**: regrouping the rows of a block by site loses and duplicates no row — the rows
found under the block's entry over all sites are a permutation of the ones that were there before
plus the block's rows (as transformed by the parser, e.g. without `site_code` for discontinuities) -/
theorem site_regroup (entry : String) (keyOf : Row → String) (f : Row → Row) (rows : List Row) :
    ∀ T : SiteTable, (allRows entry (regroup false entry keyOf f T rows)).Perm (allRows entry T ++ rows.map f) := by
  induction rows with
  | nil => intro T; simp [regroup]
  | cons r rows ih =>
    intro T
    simp only [regroup, List.foldl_cons, List.map_cons] at ih ⊢
    refine (ih (addRow false entry T (keyOf r) (f r))).trans ?_
    have h := allRows_addRow entry T (keyOf r) (f r)
    have h2 := List.Perm.append_right (rows.map f) h
    refine h2.trans ?_
    simp [List.append_assoc]

/-- … and each row sits under the site its `site_code` names (lower-cased) -/
theorem addRow_site (entry : String) (T : SiteTable) (key : String) (r : Row) :
    ∃ rows, ((dget? (addRow false entry T key r) key).bind fun s => dget? s entry) = some (rows ++ [r]) := by
  unfold addRow
  simp only [Bool.false_eq_true, if_false, dget_dset_self, Option.bind_some]
  exact ⟨_, rfl⟩

/-! ## 6. Matrix entries -/

/-- a matrix line with its values already filtered: 1-based row and first column, the listed run -/
abbrev Run := Nat × Nat × List Rat

/-- the line lies inside an `n × n` matrix -/
def Run.ok (n : Nat) (l : Run) : Prop := 1 ≤ l.1 ∧ l.1 ≤ n ∧ 1 ≤ l.2.1 ∧ l.2.1 - 1 + l.2.2.length ≤ n ∧ 1 ≤ l.2.2.length

/-- the value the line lists for the (0-based) element `(i, j)`, if it covers it -/
def cover (l : Run) (i j : Nat) : Option Rat :=
  if i = l.1 - 1 ∧ l.2.1 - 1 ≤ j ∧ j < l.2.1 - 1 + l.2.2.length then l.2.2[j - (l.2.1 - 1)]? else Option.none

/-- the value listed by the last line that covers `(i, j)` -/
def lastCover : List Run → Nat → Nat → Option Rat
  | [], _, _ => Option.none
  | l :: rest, i, j => (lastCover rest i j).orElse fun _ => cover l i j

def Square (n : Nat) (M : Matrix) : Prop := M.length = n ∧ ∀ r ∈ M, r.length = n

theorem square_zeros (n : Nat) : Square n (zeros n) := by
  constructor
  · simp [zeros]
  · intro r hr
    simp only [zeros, List.mem_replicate] at hr
    rw [hr.2]; simp

theorem get_zeros (n i j : Nat) : (zeros n).get i j = 0 := by
  unfold Matrix.get zeros
  by_cases hi : i < n
  · by_cases hj : j < n <;> simp [List.getD_eq_getElem?_getD, hi, hj]
  · simp [List.getD_eq_getElem?_getD, hi]

theorem writeLine_spec (n : Nat) (M : Matrix) (hM : Square n M) (l : Run) (hl : l.ok n) :
    ∃ M', writeLine M l.1 l.2.1 l.2.2 = some M' ∧ Square n M' ∧
      ∀ i j, M'.get i j = (cover l i j).getD (M.get i j) := by
  obtain ⟨r, c, vals⟩ := l
  obtain ⟨hr1, hrn, hc1, hcn, hlen⟩ := hl
  simp only at hr1 hrn hc1 hcn hlen
  obtain ⟨hMl, hMr⟩ := hM
  have hne : vals.isEmpty = false := by cases vals <;> simp_all
  have hk : min (c - 1 + vals.length) M.length - min (c - 1) M.length = vals.length := by omega
  have hrM : r ≤ M.length := by omega
  have hnz : ¬ (r = 0 ∨ c = 0) := by omega
  have hidx : r - 1 < M.length := by omega
  -- the row that is rewritten
  have hget : M[r - 1]? = some M[r - 1] := List.getElem?_eq_getElem hidx
  have hrowlen : (M[r - 1]).length = n := hMr _ (List.getElem_mem _)
  have hrowD : M.getD (r - 1) [] = M[r - 1] := by rw [List.getD_eq_getElem?_getD, hget]; rfl
  refine ⟨M.set (r - 1) (((M[r - 1]).take (c - 1)) ++ vals ++ (M[r - 1]).drop (c - 1 + vals.length)), ?_, ?_, ?_⟩
  · unfold writeLine
    simp only [hne, Bool.false_eq_true, if_false, hnz, hk, if_true, hrM, hrowD]
  · constructor
    · simp [hMl]
    · intro row hrow
      rcases List.mem_or_eq_of_mem_set hrow with h | h
      · exact hMr row h
      · rw [h]
        simp only [List.length_append, List.length_take, List.length_drop, hrowlen]
        omega
  · intro i j
    unfold Matrix.get cover
    simp only
    by_cases hi : i = r - 1
    · subst hi
      simp only [List.getD_eq_getElem?_getD, List.getElem?_set_self hidx, Option.getD_some, true_and, hget]
      have e1 : (List.take (c - 1) M[r - 1]).length = c - 1 := by
        simp only [List.length_take, hrowlen]; omega
      by_cases h1 : j < c - 1
      · have hn : ¬ (c - 1 ≤ j ∧ j < c - 1 + vals.length) := by omega
        simp only [hn, if_false, Option.getD_none]
        rw [List.append_assoc, List.getElem?_append_left (by rw [e1]; exact h1), List.getElem?_take]
        simp [h1]
      · by_cases h2 : j < c - 1 + vals.length
        · have hy : (c - 1 ≤ j ∧ j < c - 1 + vals.length) := by omega
          simp only [hy, and_self, if_true]
          have hlt : j - (c - 1) < vals.length := by omega
          rw [List.append_assoc, List.getElem?_append_right (by rw [e1]; omega), e1,
            List.getElem?_append_left hlt, List.getElem?_eq_getElem hlt]
          simp
        · have hn : ¬ (c - 1 ≤ j ∧ j < c - 1 + vals.length) := by omega
          simp only [hn, if_false, Option.getD_none]
          have e2 : (List.take (c - 1) M[r - 1] ++ vals).length = c - 1 + vals.length := by
            rw [List.length_append, e1]
          rw [List.getElem?_append_right (by rw [e2]; omega), e2, List.getElem?_drop]
          congr 2
          omega
    · have hne' : r - 1 ≠ i := fun h => hi h.symm
      simp only [List.getD_eq_getElem?_getD, List.getElem?_set_ne hne', hi, false_and, if_false, Option.getD_none]

/-- `lines.foldlM writeLine` from any square start -/
def fillFrom (M0 : Matrix) (ls : List Run) : Option Matrix :=
  ls.foldlM (fun M l => writeLine M l.1 l.2.1 l.2.2) M0

theorem fillFrom_spec (n : Nat) (ls : List Run) : ∀ (M0 : Matrix), Square n M0 → (∀ l ∈ ls, l.ok n) →
    ∃ M, fillFrom M0 ls = some M ∧ Square n M ∧ ∀ i j, M.get i j = (lastCover ls i j).getD (M0.get i j) := by
  induction ls with
  | nil => intro M0 h0 _; exact ⟨M0, rfl, h0, fun i j => rfl⟩
  | cons l rest ih =>
    intro M0 h0 hok
    obtain ⟨M1, hw, hs1, hg1⟩ := writeLine_spec n M0 h0 l (hok l (by simp))
    obtain ⟨M, hf, hs, hg⟩ := ih M1 hs1 (fun l' h' => hok l' (by simp [h']))
    refine ⟨M, ?_, hs, ?_⟩
    · simp only [fillFrom, List.foldlM_cons, hw, Option.bind_eq_bind, Option.bind_some]
      exact hf
    · intro i j
      rw [hg i j, hg1 i j]
      simp only [lastCover]
      cases lastCover rest i j <;> simp

/-- **matrix_entries**: after all lines are written into the zero matrix, element `(i, j)` holds the
value listed for it (by the last line that lists it) and every element no line lists is zero -/
theorem matrix_entries (n : Nat) (ls : List Run) (hok : ∀ l ∈ ls, l.ok n) :
    ∃ M, fillFrom (zeros n) ls = some M ∧ ∀ i j, M.get i j = (lastCover ls i j).getD 0 := by
  obtain ⟨M, hf, _, hg⟩ := fillFrom_spec n ls (zeros n) (square_zeros n) hok
  exact ⟨M, hf, fun i j => by rw [hg i j, get_zeros]⟩

/-- the model's `fillMatrix` is `fillFrom` on the filtered runs of its lines -/
theorem fillMatrix_eq (n : Nat) (lines : List MatLine) (h : ∀ l ∈ lines, 0 ≤ l.row ∧ 0 ≤ l.col) :
    fillMatrix n lines = fillFrom (zeros n) (lines.map fun l => (l.row.toNat, l.col.toNat, l.vals.filterMap id)) := by
  unfold fillMatrix fillFrom
  generalize zeros n = M0
  induction lines generalizing M0 with
  | nil => rfl
  | cons l rest ih =>
    have hl := h l (by simp)
    have hneg : ¬ (l.row < 0 ∨ l.col < 0) := by omega
    simp only [List.foldlM_cons, List.map_cons, hneg, if_false]
    cases writeLine M0 l.row.toNat l.col.toNat (List.filterMap id l.vals) with
    | none => rfl
    | some M1 => exact ih (fun l' h' => h l' (by simp [h'])) M1

/-- **the full matrix (lower form)**: listed values at `(row, col+k)` and mirrored, zeros elsewhere -/
theorem matrix_full_lower (n : Nat) (ls : List Run) (hok : ∀ l ∈ ls, l.ok n) :
    ∃ R, (fillFrom (zeros n) ls).map (symmetrize .lower n) = some R ∧
      ∀ i j, i < n → j < n → j ≤ i →
        R.get i j = (lastCover ls i j).getD 0 ∧ R.get j i = (lastCover ls i j).getD 0 := by
  obtain ⟨M, hf, hg⟩ := matrix_entries n ls hok
  refine ⟨symmetrize .lower n M, by rw [hf]; rfl, ?_⟩
  intro i j hi hj hji
  have := matrix_lower_entries n M i j hi hj hji
  rw [this.1, this.2, hg i j]
  exact ⟨rfl, rfl⟩

/-- **the full matrix (upper form)** -/
theorem matrix_full_upper (n : Nat) (ls : List Run) (hok : ∀ l ∈ ls, l.ok n) :
    ∃ R, (fillFrom (zeros n) ls).map (symmetrize .upper n) = some R ∧
      ∀ i j, i < n → j < n → i ≤ j →
        R.get i j = (lastCover ls i j).getD 0 ∧ R.get j i = (lastCover ls i j).getD 0 := by
  obtain ⟨M, hf, hg⟩ := matrix_entries n ls hok
  refine ⟨symmetrize .upper n M, by rw [hf]; rfl, ?_⟩
  intro i j hi hj hij
  have := matrix_upper_entries n M i j hi hj hij
  rw [this.1, this.2, hg i j]
  exact ⟨rfl, rfl⟩

/-! ## 7. Blocks are found whatever their order and whatever lies between them -/

/-- a piece of a SINEX file body: either a line outside any block that does not open one (comment,
`%ENDSNX`, blank line, content or end line of a foreign block …) or a complete block -/
inductive Seg
  | noise (line : Str)
  | block (header : Str) (marker : Str) (params : List Str) (content : List Str) (footer : Str)

def Seg.lines : Seg → List Str
  | .noise l => [l]
  | .block h _ _ c f => h :: c ++ [f]

/-- well-formed pieces: a noise line does not start with `+`; a block's title line is `+MARKER params…`,
none of its content lines starts with `-` or `+`, its last line starts with `-` -/
def Seg.wf : Seg → Prop
  | .noise l => startsWith ['+'] l = false
  | .block h mk ps c f =>
      startsWith ['+'] h = true ∧ split (strip (h.drop 1)) = mk :: ps ∧
      (∀ l ∈ c, startsWith ['-'] l = false ∧ startsWith ['+'] l = false) ∧ startsWith ['-'] f = true

def body (segs : List Seg) : List Str := segs.flatMap Seg.lines

/-- the data lines of a block: the ones that start with a blank (comment lines `*…` are dropped) -/
def dataLines (c : List Str) : List Str := c.filter (startsWith [' '])

/-- what `parse_blocks` must deliver: the first block of each wanted marker, in file order -/
def expected : List String → List Seg → List RawBlock
  | _, [] => []
  | w, .noise _ :: rest => expected w rest
  | w, .block _ mk ps c _ :: rest =>
    if w.contains (asString mk) then ⟨asString mk, ps, dataLines c⟩ :: expected (w.erase (asString mk)) rest
    else expected w rest

theorem expected_nil (segs : List Seg) : expected [] segs = [] := by
  induction segs with
  | nil => rfl
  | cons s rest ih => cases s <;> simp [expected, ih]

theorem scan_nil_wanted (ls : List Str) : scan ls [] .search = some [] := by
  cases ls <;> simp [scan]

/-- inside a wanted block: collect the blank-led lines up to the first line starting with `-` -/
theorem scan_collect (c : List Str) (f : Str) (tail : List Str) (w : List String) (m : String) (p : List Str) :
    ∀ acc : List Str, (∀ l ∈ c, startsWith ['-'] l = false) → startsWith ['-'] f = true →
      scan (c ++ f :: tail) w (.collect m p acc) =
        (scan tail (w.erase m) .search).map (⟨m, p, acc.reverse ++ dataLines c⟩ :: ·) := by
  induction c with
  | nil =>
    intro acc _ hf
    simp [scan, hf, dataLines]
  | cons l c ih =>
    intro acc hc hf
    have hl : startsWith ['-'] l = false := hc l (by simp)
    have hc' : ∀ l' ∈ c, startsWith ['-'] l' = false := fun l' h' => hc l' (by simp [h'])
    by_cases hb : startsWith [' '] l = true
    · simp only [List.cons_append, scan, hl, Bool.false_eq_true, if_false, hb, if_true]
      rw [ih (l :: acc) hc' hf]
      simp [dataLines, List.filter_cons, hb]
    · have hb' : startsWith [' '] l = false := by simpa using hb
      simp only [List.cons_append, scan, hl, Bool.false_eq_true, if_false, hb']
      rw [ih acc hc' hf]
      simp [dataLines, List.filter_cons, hb']

/-- **parse_blocks finds exactly the wanted blocks**, in file order, ignoring foreign blocks, comment
lines and anything else between blocks (first occurrence of a marker) -/
theorem scan_body (segs : List Seg) (hwf : ∀ s ∈ segs, s.wf) :
    ∀ w : List String, scan (body segs) w .search = some (expected w segs) := by
  induction segs with
  | nil => intro w; simp [body, scan, expected]
  | cons s rest ih =>
    intro w
    have hrest : ∀ s' ∈ rest, s'.wf := fun s' h' => hwf s' (by simp [h'])
    have hs : s.wf := hwf s (by simp)
    by_cases hw : w = []
    · subst hw
      rw [scan_nil_wanted, expected_nil]
    · have hwe : w.isEmpty = false := by cases w <;> simp_all
      cases s with
      | noise l =>
        simp only [Seg.wf] at hs
        simp only [body, List.flatMap_cons, Seg.lines, List.singleton_append, scan, hwe, Bool.false_eq_true,
          if_false, hs, expected]
        exact ih hrest w
      | block h mk ps c f =>
        obtain ⟨hh, hsplit, hc, hf⟩ := hs
        simp only [body, List.flatMap_cons, Seg.lines, List.cons_append, scan, hwe, Bool.false_eq_true,
          if_false, hh, if_true, hsplit, expected]
        by_cases hin : w.contains (asString mk) = true
        · simp only [hin, if_true]
          rw [List.append_assoc, List.singleton_append,
            scan_collect c f _ w (asString mk) ps [] (fun l h' => (hc l h').1) hf]
          have := ih hrest (w.erase (asString mk))
          simp only [body] at this
          rw [this]
          simp
        · have hin' : w.contains (asString mk) = false := by simpa using hin
          simp only [hin', Bool.false_eq_true, if_false]
          -- a foreign block: its content and end line are skipped one by one
          have skip : ∀ (ls : List Str), (∀ l ∈ ls, startsWith ['+'] l = false) → ∀ tl,
              scan (ls ++ tl) w .search = scan tl w .search := by
            intro ls
            induction ls with
            | nil => intro _ tl; rfl
            | cons l ls ihl =>
              intro hls tl
              have h1 := hls l (by simp)
              simp only [List.cons_append, scan, hwe, Bool.false_eq_true, if_false, h1]
              exact ihl (fun l' h' => hls l' (by simp [h'])) tl
          have hfplus : startsWith ['+'] f = false := by
            cases f with
            | nil => rfl
            | cons ch r =>
              have : '-' = ch := by simpa [startsWith, List.isPrefixOf] using hf
              subst this; rfl
          rw [List.append_assoc, skip c (fun l h' => (hc l h').2), List.singleton_append]
          simp only [scan, hwe, Bool.false_eq_true, if_false, hfplus]
          exact ih hrest w

namespace Midgard.Props.C14
open Midgard.Sinex Midgard.Text

/-- all blocks of a body, as `parse_blocks` would store them -/
def blocksOf : List Seg → List RawBlock
  | [] => []
  | .noise _ :: rest => blocksOf rest
  | .block _ mk ps c _ :: rest => ⟨asString mk, ps, dataLines c⟩ :: blocksOf rest

theorem rawOf_cons (x : RawBlock) (xs : List RawBlock) (m : String) :
    rawOf (x :: xs) m = if x.marker = m then some x else rawOf xs m := by
  unfold rawOf
  by_cases h : x.marker = m <;> simp [List.find?_cons, h]

/-- the block delivered for marker `m` is the first block of that marker in the file, if `m` is wanted -/
theorem rawOf_expected (segs : List Seg) : ∀ (w : List String) (m : String),
    rawOf (expected w segs) m = if m ∈ w then rawOf (blocksOf segs) m else Option.none := by
  induction segs with
  | nil => intro w m; simp [expected, blocksOf, rawOf]
  | cons s rest ih =>
    intro w m
    cases s with
    | noise l => simp only [expected, blocksOf]; exact ih w m
    | block h mk ps c f =>
      simp only [expected, blocksOf]
      by_cases hin : w.contains (asString mk) = true
      · have hmem : asString mk ∈ w := by simpa using hin
        simp only [hin, if_true, rawOf_cons]
        by_cases hm : asString mk = m
        · subst hm; simp [hmem]
        · simp only [hm, if_false]
          rw [ih (w.erase (asString mk)) m]
          have : (m ∈ w.erase (asString mk)) ↔ m ∈ w := List.mem_erase_of_ne (Ne.symm hm)
          simp only [this]
      · have hin' : w.contains (asString mk) = false := by simpa using hin
        have hmem : asString mk ∉ w := by simpa using hin'
        simp only [hin', Bool.false_eq_true, if_false, rawOf_cons]
        rw [ih w m]
        by_cases hm : asString mk = m
        · subst hm; simp [hmem]
        · simp [hm]

theorem inj_of_nodup_map {α β} (f : α → β) (l : List α) (h : (l.map f).Nodup) :
    ∀ x ∈ l, ∀ y ∈ l, f x = f y → x = y := by
  induction l with
  | nil => intro x hx; simp at hx
  | cons a l ih =>
    simp only [List.map_cons, List.nodup_cons, List.mem_map, not_exists, not_and] at h
    obtain ⟨hna, hnd⟩ := h
    intro x hx y hy e
    rcases List.mem_cons.mp hx with rfl | hx'
    · rcases List.mem_cons.mp hy with rfl | hy'
      · rfl
      · exact absurd e.symm (hna y hy')
    · rcases List.mem_cons.mp hy with rfl | hy'
      · exact absurd e (hna x hx')
      · exact ih hnd x hx' y hy' e

theorem blocksOf_perm {a b : List Seg} (h : a.Perm b) : (blocksOf a).Perm (blocksOf b) := by
  induction h with
  | nil => exact List.Perm.refl _
  | cons x _ ih => cases x <;> simp [blocksOf, ih]
  | swap x y l =>
    cases x <;> cases y <;> simp [blocksOf]
    exact List.Perm.swap _ _ _
  | trans _ _ ih1 ih2 => exact ih1.trans ih2

theorem rawOf_perm {a b : List RawBlock} (h : a.Perm b) (hnd : (a.map (·.marker)).Nodup) (m : String) :
    rawOf a m = rawOf b m := by
  unfold rawOf
  have hndb : (b.map (·.marker)).Nodup := (h.map _).nodup_iff.mp hnd
  cases ha : a.find? (·.marker = m) with
  | none =>
    have hb : b.find? (·.marker = m) = Option.none := by
      rw [List.find?_eq_none] at ha ⊢
      intro x hx; exact ha x (h.mem_iff.mpr hx)
    rw [hb]
  | some x =>
    have hx := List.find?_some ha
    have hxa := List.mem_of_find?_eq_some ha
    have hxb : x ∈ b := h.mem_iff.mp hxa
    cases hb : b.find? (·.marker = m) with
    | none =>
      rw [List.find?_eq_none] at hb
      exact absurd hx (hb x hxb)
    | some y =>
      have hy := List.find?_some hb
      have hyb := List.mem_of_find?_eq_some hb
      have hmark : x.marker = y.marker := by
        simp only [decide_eq_true_eq] at hx hy; rw [hx, hy]
      have := inj_of_nodup_map (·.marker) b hndb x hxb y hyb hmark
      rw [this]

/-- **order_independent**: the raw block delivered for any marker is the same for every arrangement of
the same pieces (blocks in any order, foreign blocks and comment lines anywhere between them),
provided each marker occurs once -/
theorem order_independent (segs segs' : List Seg) (hperm : segs.Perm segs')
    (hwf : ∀ s ∈ segs, s.wf) (hdistinct : ((blocksOf segs).map (·.marker)).Nodup) (w : List String) (m : String) :
    (scan (body segs') w .search).map (rawOf · m) = (scan (body segs) w .search).map (rawOf · m) := by
  have hwf' : ∀ s ∈ segs', s.wf := fun s h => hwf s (hperm.mem_iff.mpr h)
  rw [scan_body segs hwf w, scan_body segs' hwf' w]
  simp only [Option.map_some, rawOf_expected]
  rw [rawOf_perm (blocksOf_perm hperm) hdistinct m]

end Midgard.Props.C14

#print axioms Midgard.Props.C14.starts_sorted
#print axioms Midgard.Props.C14.within_80
#print axioms Midgard.Props.C14.names_unique
#print axioms Midgard.Props.C14.converters_modelled
#print axioms Midgard.Props.C14.cols_cover_spec
#print axioms Midgard.Props.C14.concrete_tables_are_base
#print axioms Midgard.Props.C14.block_roundtrip
#print axioms Midgard.Props.C14.parseLine_roundtrip
#print axioms Midgard.Props.C14.text_field
#print axioms Midgard.Props.C14.fixedDigits2
#print axioms Midgard.Props.C14.fixedDigits3
#print axioms Midgard.Props.C14.fixedDigits5
#print axioms Midgard.Props.C14.parseDoy_fixed
#print axioms Midgard.Props.C14.threeZero_iff
#print axioms Midgard.Props.C14.epoch_pivot
#print axioms Midgard.Props.C14.epoch_open
#print axioms Midgard.Props.C14.exponent_D_eq_E
#print axioms Midgard.Props.C14.dms_sign
#print axioms Midgard.Props.C14.get_symmetrize
#print axioms Midgard.Props.C14.matrix_symm
#print axioms Midgard.Props.C14.matrix_shape
#print axioms Midgard.Props.C14.matrix_lower_entries
#print axioms Midgard.Props.C14.matrix_upper_entries
#print axioms Midgard.Props.C14.dget_dset_self
#print axioms Midgard.Props.C14.allRows_addRow
#print axioms Midgard.Props.C14.site_regroup
#print axioms Midgard.Props.C14.addRow_site
#print axioms Midgard.Props.C14.square_zeros
#print axioms Midgard.Props.C14.get_zeros
#print axioms Midgard.Props.C14.writeLine_spec
#print axioms Midgard.Props.C14.fillFrom_spec
#print axioms Midgard.Props.C14.matrix_entries
#print axioms Midgard.Props.C14.fillMatrix_eq
#print axioms Midgard.Props.C14.matrix_full_lower
#print axioms Midgard.Props.C14.matrix_full_upper
#print axioms Midgard.Props.C14.expected_nil
#print axioms Midgard.Props.C14.scan_nil_wanted
#print axioms Midgard.Props.C14.scan_collect
#print axioms Midgard.Props.C14.scan_body
#print axioms Midgard.Props.C14.rawOf_cons
#print axioms Midgard.Props.C14.rawOf_expected
#print axioms Midgard.Props.C14.inj_of_nodup_map
#print axioms Midgard.Props.C14.blocksOf_perm
#print axioms Midgard.Props.C14.rawOf_perm
#print axioms Midgard.Props.C14.order_independent
