/-
C14 — SINEX blocks are parsed column-exactly and matrices are rebuilt symmetric.

Property theorems only.  They are about the executable model `Model/Sinex.lean` /
`Model/SinexFile.lean`, instantiated at the tables regenerated from the source on every run
(`Generated/SinexBlocks.lean`) and compared with the independently typed standard
(`Spec/Sinex202.lean`).  `np.genfromtxt` itself is modelled (see the model's header); that the
model is the code is re-established by the correspondence run of `harness/c14.py`.
-/
import Midgard.Model.SinexFile
import Midgard.Generated.SinexBlocks
import Midgard.Spec.Sinex202
import Midgard.Proofs.FixedCol
import Midgard.Proofs.Decimal
import Midgard.Proofs.Split

namespace Midgard.Props.C14
open Midgard.Sinex Midgard.Generated.Sinex Midgard.FixedCol Midgard.Text Midgard.Decimal
open Midgard.Spec.Sinex (SField SBlock Kind)

/-! ## 1. Obligations on the regenerated tables (`decide`) -/

/-- start columns strictly ascending, first one after the record's lead character -/
def ascending : List Nat → Bool
  | a :: b :: rest => decide (a < b) && ascending (b :: rest)
  | _ => true

def startsOk (fs : List FieldDef) : Bool :=
  ascending (fs.map (·.start)) && decide (1 ≤ (fs.map (·.start)).headD 1)

/-- the SINEX (80-column) parsers: everything but sinex_tms -/
def snxBlocks : List BlockDef := baseBlocks ++ siteBlocks ++ discBlocks ++ eventsBlocks ++ troBlocks
def snxHeaders : List (List FieldDef) := [baseHeader, siteHeader, discHeader, eventsHeader, troHeader]

/-- every table of every parser has strictly ascending start columns (so that
`np.diff([0] + starts + [81])` has no negative or zero width) -/
theorem starts_sorted : (allBlocks.all fun b => startsOk b.fields) = true ∧
    (allHeaders.all startsOk) = true := by
  decide +kernel

/-- every field of the 80-column parsers begins inside the record (`start ≤ 80`), so the layout cut
by `layoutOf · 81` is sorted: the hypothesis of `block_roundtrip` holds for each of these tables -/
theorem within_80 : (snxBlocks.all fun b => Sorted (layoutOf b.fields 81)) = true ∧
    (snxHeaders.all fun h => Sorted (layoutOf h 81)) = true ∧
    (snxBlocks.all fun b => b.fields.all fun f => decide (f.start ≤ 80)) = true := by
  decide +kernel

def nodup : List (List Nat) → Bool
  | [] => true
  | a :: rest => !rest.contains a && nodup rest

/-- the validated name, as code points (`validName` is `String.ofList` of exactly this) -/
def vcodes (n : String) : List Nat := validCodes (nameCodes n)

/-- field names stay distinct after NumPy's name validation (otherwise genfromtxt renames silently) -/
theorem names_unique : (allBlocks.all fun b => nodup ((kept b.fields).map fun f => vcodes f.name)) = true ∧
    (allHeaders.all fun h => nodup ((kept h).map fun f => vcodes f.name)) = true := by
  decide +kernel

/-- no table asks for the `dms2rad` converter (the only one the model does not evaluate) and no
table drops a column (`dtype=None`) -/
theorem converters_modelled :
    (allBlocks.all fun b => b.fields.all fun f => f.conv ≠ .dms2rad && f.dtype ≠ .skip) = true := by
  decide +kernel

/-- the conversion the code declares for a field agrees with the kind of value the standard puts
there; for text the dtype is at least as wide as the standard's field (**no truncation**) -/
def kindOk (k : Kind) (width : Nat) (f : FieldDef) : Bool :=
  match k, f.dtype, f.conv with
  | .text, .u n, .none => decide (width ≤ n)
  | .text, .u n, .utf8 => decide (width ≤ n)
  | .int, .i8, .none => true
  | .flt, .f8, .none => true
  | .exp, .f8, .exponent => true
  | .dms, .f8, .dms2deg => true
  | .epoch, .obj, .epoch => true
  | .epoch4, .obj, .yyyydddsssss => true
  | .tup, .obj, .tuple => true
  | _, _, _ => false

/-- a standard field lies inside the columns the code cuts for the field of the same (validated)
name, with the declared conversion (`stop` = start of the code's next field, or the record end) -/
def fieldCovered (f : FieldDef) (stop : Nat) (sf : SField) : Bool :=
  (vcodes f.name == nameCodes sf.name) && decide (f.start ≤ sf.start) && decide (sf.start + sf.width ≤ stop) &&
    decide (sf.start + sf.width ≤ 80) && kindOk sf.kind sf.width f

/-- code fields and standard fields correspond position by position -/
def fieldsCovered : List FieldDef → Nat → List SField → Bool
  | [], _, [] => true
  | [f], total, [sf] => fieldCovered f total sf
  | f :: g :: fs, total, sf :: sfs => fieldCovered f g.start sf && fieldsCovered (g :: fs) total sfs
  | _, _, _ => false

def blockCovered (code : List BlockDef) (sb : SBlock) : Bool :=
  match code.find? (·.marker = sb.marker) with
  | Option.none => false
  | some b => fieldsCovered b.fields 81 sb.fields

/-- **columns = standard**: for every block of SINEX 2.02 (and the two IGS extensions, and the
SINEX_TRO blocks) the code cuts, for each standard field, a column range that contains the
standard's columns and nothing of a neighbouring field, applies the conversion the standard's
field kind calls for, and (text) does not truncate. Same for the header line. -/
theorem cols_cover_spec :
    (Midgard.Spec.Sinex.official.all (blockCovered baseBlocks)) = true ∧
    (Midgard.Spec.Sinex.unofficial.all (blockCovered baseBlocks)) = true ∧
    (Midgard.Spec.Sinex.tro.all (blockCovered troBlocks)) = true ∧
    fieldsCovered baseHeader 81 Midgard.Spec.Sinex.header = true := by
  decide +kernel

/-- the block tables the site / discontinuities / events parsers use are the base-class tables of
the same marker (so `cols_cover_spec` speaks about them too), and all five parsers share the
base header except sinex_tms -/
theorem concrete_tables_are_base :
    ((siteBlocks ++ discBlocks ++ eventsBlocks).all fun b =>
      (baseBlocks.find? (·.marker = b.marker)).map (·.fields) = some b.fields) = true ∧
    siteHeader = baseHeader ∧ discHeader = baseHeader ∧ eventsHeader = baseHeader ∧ troHeader = baseHeader := by
  decide +kernel

/-! ## 2. Generic block round trip -/

/-- Reading a rendered record: whatever clean texts are placed in the columns of a (sorted) table
come back, field by field — also after the record lost its trailing blanks. -/
theorem block_roundtrip (fs : List FieldDef) (total : Nat) (cells : List (Align × Str))
    (hs : Sorted (layoutOf fs total) = true) (hf : Fits (layoutOf fs total) cells = true) :
    cutLine fs total (renderA (layoutOf fs total) cells) = cells.map (·.2) ∧
    cutLine fs total (rstrip (renderA (layoutOf fs total) cells)) = cells.map (·.2) := by
  constructor
  · exact slice_renderA _ _ hs hf
  · exact slice_renderA_rstrip _ _ hs hf

/-- … and each returned value is the declared conversion of exactly that text. -/
theorem parseLine_roundtrip (fs : List FieldDef) (total : Nat) (cells : List (Align × Str))
    (hs : Sorted (layoutOf fs total) = true) (hf : Fits (layoutOf fs total) cells = true) :
    parseLine fs total (renderA (layoutOf fs total) cells) =
      ((fs.zip (cells.map (·.2))).filter (·.1.dtype ≠ .skip)).map
        fun (fd, t) => (validName fd.name, convertCell fd t) := by
  unfold parseLine
  rw [(block_roundtrip fs total cells hs hf).1]

/-- text fields: stripped by construction, truncated only beyond the dtype width -/
theorem text_field (name : String) (start k : Nat) (t : Str) (h : t.length ≤ k) :
    convertCell ⟨name, start, .u k, .none⟩ t = .str t := by
  simp [convertCell, List.take_of_length_le h]

/-! ## 3. Converters -/

/-- YY:DDD:SSSSS as printed by a conforming writer -/
def epochText (yy ddd s : Nat) : Str :=
  fixedDigits 2 yy ++ ':' :: fixedDigits 3 ddd ++ ':' :: fixedDigits 5 s

theorem fixedDigits2 (n : Nat) : fixedDigits 2 n = [digitChar (n / 10), digitChar n] := rfl
theorem fixedDigits3 (n : Nat) : fixedDigits 3 n = [digitChar (n / 10 / 10), digitChar (n / 10), digitChar n] := rfl
theorem fixedDigits5 (n : Nat) : fixedDigits 5 n =
    [digitChar (n / 10 / 10 / 10 / 10), digitChar (n / 10 / 10 / 10), digitChar (n / 10 / 10), digitChar (n / 10),
     digitChar n] := rfl

theorem parseDoy_fixed (d : Nat) (h1 : 1 ≤ d) (h2 : d ≤ 366) : parseDoy? (fixedDigits 3 d) = some d := by
  unfold parseDoy?
  have hv : digitsVal (fixedDigits 3 d) = d := by rw [digitsVal_fixedDigits]; omega
  simp [length_fixedDigits, allDigits_fixedDigits, hv, h1, h2]

theorem threeZero_iff (d : Nat) (h : d < 1000) : fixedDigits 3 d = ['0', '0', '0'] → d = 0 := by
  intro he
  have := digitsVal_fixedDigits 3 d
  rw [he] at this
  have h0 : digitsVal ['0', '0', '0'] = 0 := by decide
  rw [h0] at this
  omega

/-- **epoch pivot**: a well-formed `YY:DDD:SSSSS` is day `DDD` of the year 20YY (`YY ≤ 50`) or 19YY
(`YY > 50`), plus `SSSSS` seconds -/
theorem epoch_pivot (yy ddd s : Nat) (hy : yy < 100) (hd1 : 1 ≤ ddd) (hd2 : ddd ≤ 366) (hs : s < 86400) :
    convertEpoch? (epochText yy ddd s) =
      some (.dt (jan1 (if yy ≤ 50 then 2000 + yy else 1900 + yy) + ddd - 1) s) := by
  have hshape : epochText yy ddd s =
      [digitChar (yy / 10), digitChar yy, ':', digitChar (ddd / 10 / 10), digitChar (ddd / 10), digitChar ddd, ':',
       digitChar (s / 10 / 10 / 10 / 10), digitChar (s / 10 / 10 / 10), digitChar (s / 10 / 10),
       digitChar (s / 10), digitChar s] := rfl
  have htake2 : (epochText yy ddd s).take 2 = fixedDigits 2 yy := by rw [hshape]; rfl
  have htake6 : (epochText yy ddd s).take 6 = fixedDigits 2 yy ++ ':' :: fixedDigits 3 ddd := by rw [hshape]; rfl
  have hslice : Text.slice 3 6 (epochText yy ddd s) = fixedDigits 3 ddd := by rw [hshape]; rfl
  have hdrop7 : (epochText yy ddd s).drop 7 = fixedDigits 5 s := by rw [hshape]; rfl
  have hyy : parseInt? (fixedDigits 2 yy) = some ((yy : Nat) : Int) := by
    rw [parseInt_fixedDigits (by decide)]; congr 2; omega
  have hss : parseInt? (fixedDigits 5 s) = some ((s : Nat) : Int) := by
    rw [parseInt_fixedDigits (by decide)]; congr 2; omega
  have hnz : ¬ (fixedDigits 3 ddd = ['0', '0', '0']) := fun he => by
    have := threeZero_iff ddd (by omega) he; omega
  unfold convertEpoch?
  rw [htake2, hyy]
  simp only [hslice, hnz, and_false, if_false, htake6, hdrop7, hss]
  -- the century prefix followed by the two year digits is a four-digit year
  by_cases hc : ((yy : Nat) : Int) > 50
  · have hle : ¬ yy ≤ 50 := by omega
    simp only [hc, if_true, hle, if_false]
    have hstr : strptimeYj? (['1', '9'] ++ (fixedDigits 2 yy ++ ':' :: fixedDigits 3 ddd)) =
        some (jan1 (1900 + yy) + ddd - 1) := by
      unfold strptimeYj?
      have h4 : (['1', '9'] ++ (fixedDigits 2 yy ++ ':' :: fixedDigits 3 ddd)).take 4 =
          ['1', '9', digitChar (yy / 10), digitChar yy] := rfl
      have hd4 : (['1', '9'] ++ (fixedDigits 2 yy ++ ':' :: fixedDigits 3 ddd)).drop 4 = ':' :: fixedDigits 3 ddd := rfl
      have hall : allDigits ['1', '9', digitChar (yy / 10), digitChar yy] = true := by
        simp [allDigits, isDigit_digitChar]; decide
      have hval : digitsVal ['1', '9', digitChar (yy / 10), digitChar yy] = 1900 + yy := by
        show ((((0 * 10 + digitVal '1') * 10 + digitVal '9') * 10 + digitVal (digitChar (yy / 10))) * 10
          + digitVal (digitChar yy)) = 1900 + yy
        rw [digitVal_digitChar, digitVal_digitChar]
        have : digitVal '1' = 1 := by decide
        have : digitVal '9' = 9 := by decide
        omega
      rw [h4, hd4]
      simp only [List.length_cons, List.length_nil, hall, parseDoy_fixed ddd hd1 hd2, hval]
      have h1 : (1 : Int) ≤ 1900 + (yy : Int) := by omega
      simp [h1]
    rw [hstr]
    have e1 : ((s : Nat) : Int) / 86400 = 0 := by omega
    have e2 : ((s : Nat) : Int) % 86400 = s := by omega
    simp only [addSeconds, e1, e2, Int.add_zero]
  · have hle : yy ≤ 50 := by omega
    simp only [hc, if_false, hle, if_true]
    have hstr : strptimeYj? (['2', '0'] ++ (fixedDigits 2 yy ++ ':' :: fixedDigits 3 ddd)) =
        some (jan1 (2000 + yy) + ddd - 1) := by
      unfold strptimeYj?
      have h4 : (['2', '0'] ++ (fixedDigits 2 yy ++ ':' :: fixedDigits 3 ddd)).take 4 =
          ['2', '0', digitChar (yy / 10), digitChar yy] := rfl
      have hd4 : (['2', '0'] ++ (fixedDigits 2 yy ++ ':' :: fixedDigits 3 ddd)).drop 4 = ':' :: fixedDigits 3 ddd := rfl
      have hall : allDigits ['2', '0', digitChar (yy / 10), digitChar yy] = true := by
        simp [allDigits, isDigit_digitChar]; decide
      have hval : digitsVal ['2', '0', digitChar (yy / 10), digitChar yy] = 2000 + yy := by
        show ((((0 * 10 + digitVal '2') * 10 + digitVal '0') * 10 + digitVal (digitChar (yy / 10))) * 10
          + digitVal (digitChar yy)) = 2000 + yy
        rw [digitVal_digitChar, digitVal_digitChar]
        have : digitVal '2' = 2 := by decide
        have : digitVal '0' = 0 := by decide
        omega
      rw [h4, hd4]
      simp only [List.length_cons, List.length_nil, hall, parseDoy_fixed ddd hd1 hd2, hval]
      have h1 : (1 : Int) ≤ 2000 + (yy : Int) := by omega
      simp [h1]
    rw [hstr]
    have e1 : ((s : Nat) : Int) / 86400 = 0 := by omega
    have e2 : ((s : Nat) : Int) % 86400 = s := by omega
    simp only [addSeconds, e1, e2, Int.add_zero]

/-- **open epoch**: `00:000:00000` has no date (`None`) -/
theorem epoch_open : convertCell ⟨"t", 0, .obj, .epoch⟩ "00:000:00000".toList = .none := by
  decide +kernel

/-- … while day 000 of any other epoch is read as day 001 (what the code does, documented there) -/
example : convertEpoch? "95:000:00000".toList = convertEpoch? "95:001:00000".toList := by decide +kernel

/-- non-vacuity of `epoch_pivot`: both sides of the pivot -/
example : convertEpoch? "50:001:00000".toList = some (.dt (jan1 2050) 0) ∧
    convertEpoch? "51:366:86399".toList = some (.dt (jan1 1951 + 365) 86399) := by decide +kernel

/-- **D exponents equal E exponents**: rewriting every `E` of a number as `D` does not change the value -/
theorem exponent_D_eq_E (t : Str) : convertExponent (replaceChar 'E' 'D' t) = convertExponent t := by
  unfold convertExponent
  congr 1
  simp only [replaceChar, List.map_map]
  apply List.map_congr_left
  intro c _
  by_cases h : c = 'E'
  · subst h; decide
  · simp only [Function.comp, h, if_false]

example : convertExponent "-.240960109141758D+07".toList = some (-2409601.09141758) := by decide +kernel

/-- **dms keeps the sign of the degree part**, also for `-0` -/
theorem dms_sign (neg : Bool) (d m s : Rat) (hd : 0 ≤ d ∨ neg = true) :
    dmsValue neg d m s = (if neg then -1 else 1) * ((if d < 0 then -d else d) + m / 60 + s / 3600) := by
  unfold dmsValue
  cases neg <;> simp <;> grind

/-- the degree text decides the sign: `-0 30 00.0` is −0.5° -/
example : convertDms2deg "-0 30 00.0".toList = some (-1 / 2) ∧
    convertDms2deg " 0 30 00.0".toList = some (1 / 2) ∧
    convertDms2deg "-12 30 36.0".toList = some (-1251 / 100) := by decide +kernel

/-! ## 4. Matrices -/

theorem get_symmetrize (t : Tri) (n : Nat) (M : Matrix) (i j : Nat) (hi : i < n) (hj : j < n) :
    (symmetrize t n M).get i j =
      match t with
      | .lower => if j ≤ i then M.get i j else M.get j i
      | .upper => if i ≤ j then M.get i j else M.get j i
      | .unspecified => if i = j then M.get i i else M.get i j + M.get j i := by
  cases t <;> simp [symmetrize, Matrix.get, hi, hj, List.getD_eq_getElem?_getD]

/-- **the rebuilt matrix is symmetric**, whichever triangle the block gives -/
theorem matrix_symm (t : Tri) (n : Nat) (M : Matrix) (i j : Nat) (hi : i < n) (hj : j < n) :
    (symmetrize t n M).get i j = (symmetrize t n M).get j i := by
  rw [get_symmetrize t n M i j hi hj, get_symmetrize t n M j i hj hi]
  cases t
  · simp only
    by_cases h1 : j ≤ i <;> by_cases h2 : i ≤ j <;> simp [h1, h2]
    · have : i = j := by omega
      subst this; rfl
    · omega
  · simp only
    by_cases h1 : j ≤ i <;> by_cases h2 : i ≤ j <;> simp [h1, h2]
    · have : i = j := by omega
      subst this; rfl
    · omega
  · simp only
    by_cases h : i = j
    · subst h; rfl
    · have h' : ¬ j = i := fun e => h e.symm
      simp only [h, h', if_false]
      grind

/-- the size is `n × n` -/
theorem matrix_shape (t : Tri) (n : Nat) (M : Matrix) :
    (symmetrize t n M).length = n ∧ ∀ r ∈ symmetrize t n M, r.length = n := by
  constructor
  · simp [symmetrize]
  · intro r hr
    simp only [symmetrize, List.mem_map, List.mem_range] at hr
    obtain ⟨i, _, rfl⟩ := hr
    simp

/-- lower form: the stored triangle is taken as listed, the other one mirrored -/
theorem matrix_lower_entries (n : Nat) (M : Matrix) (i j : Nat) (hi : i < n) (hj : j < n) (h : j ≤ i) :
    (symmetrize .lower n M).get i j = M.get i j ∧ (symmetrize .lower n M).get j i = M.get i j := by
  rw [get_symmetrize _ n M i j hi hj, get_symmetrize _ n M j i hj hi]
  simp only [h, if_true]
  by_cases h2 : i ≤ j
  · have : i = j := by omega
    subst this; simp
  · simp [h2]

theorem matrix_upper_entries (n : Nat) (M : Matrix) (i j : Nat) (hi : i < n) (hj : j < n) (h : i ≤ j) :
    (symmetrize .upper n M).get i j = M.get i j ∧ (symmetrize .upper n M).get j i = M.get i j := by
  rw [get_symmetrize _ n M i j hi hj, get_symmetrize _ n M j i hj hi]
  simp only [h, if_true]
  by_cases h2 : j ≤ i
  · have : i = j := by omega
    subst this; simp
  · simp [h2]

/-- a concrete block with omitted elements: upper form, n = 3, `(1,1..3)` and `(2,3)` listed -/
example : matrixOf .upper (some 3) [⟨1, 1, [some 1.5, some 2.5, some 3.5]⟩, ⟨2, 3, [some 4.5, Option.none, Option.none]⟩] =
    some [[1.5, 2.5, 3.5], [2.5, 0, 4.5], [3.5, 4.5, 0]] := by decide +kernel

/-! ## 5. Per-site regrouping -/

/-- all rows stored under `entry`, over all sites, in table order -/
def allRows (entry : String) (T : SiteTable) : List Row :=
  T.flatMap fun (_, entries) => (dget? entries entry).getD []

theorem dget_dset_self {α} (d : List (String × α)) (k : String) (v : α) : dget? (dset d k v) k = some v := by
  induction d with
  | nil => simp [dset, dget?]
  | cons p rest ih =>
    obtain ⟨k', v'⟩ := p
    by_cases h : k' = k
    · simp [dset, dget?, h]
    · simp [dset, dget?, h, ih]

/-- appending one row to a site's list adds exactly that row to the collection of all rows -/
theorem allRows_addRow (entry : String) (T : SiteTable) (key : String) (r : Row) :
    (allRows entry (addRow false entry T key r)).Perm (allRows entry T ++ [r]) := by
  unfold addRow
  simp only [Bool.false_eq_true, if_false]
  induction T with
  | nil =>
    simp [dget?, dset, allRows, dget_dset_self]
  | cons p rest ih =>
    obtain ⟨k', s'⟩ := p
    by_cases h : k' = key
    · subst h
      simp only [dget?, if_true, Option.getD_some, dset, allRows, List.flatMap_cons, dget_dset_self]
      -- (old ++ [r]) ++ tail  ~  (old ++ tail) ++ [r]
      rw [List.append_assoc, List.append_assoc]
      exact List.Perm.append_left _ List.perm_append_comm
    · simp only [dget?, h, if_false, dset, allRows, List.flatMap_cons]
      rw [List.append_assoc]
      exact List.Perm.append_left _ ih

/-- **site_regroup**: regrouping the rows of a block by site loses and duplicates no row — the rows
found under the block's entry over all sites are a permutation of the ones that were there before
plus the block's rows (as transformed by the parser, e.g. without `site_code` for discontinuities) -/
theorem site_regroup (entry : String) (keyOf : Row → String) (f : Row → Row) (rows : List Row) :
    ∀ T : SiteTable, (allRows entry (regroup false entry keyOf f T rows)).Perm (allRows entry T ++ rows.map f) := by
  induction rows with
  | nil => intro T; simp [regroup]
  | cons r rows ih =>
    intro T
    simp only [regroup, List.foldl_cons, List.map_cons] at ih ⊢
    refine (ih (addRow false entry T (keyOf r) (f r))).trans ?_
    have h := allRows_addRow entry T (keyOf r) (f r)
    have h2 := List.Perm.append_right (rows.map f) h
    refine h2.trans ?_
    simp [List.append_assoc]

/-- … and each row sits under the site its `site_code` names (lower-cased) -/
theorem addRow_site (entry : String) (T : SiteTable) (key : String) (r : Row) :
    ∃ rows, ((dget? (addRow false entry T key r) key).bind fun s => dget? s entry) = some (rows ++ [r]) := by
  unfold addRow
  simp only [Bool.false_eq_true, if_false, dget_dset_self, Option.bind_some]
  exact ⟨_, rfl⟩

/-! ## 6. Matrix entries -/

/-- a matrix line with its values already filtered: 1-based row and first column, the listed run -/
abbrev Run := Nat × Nat × List Rat

/-- the line lies inside an `n × n` matrix -/
def Run.ok (n : Nat) (l : Run) : Prop := 1 ≤ l.1 ∧ l.1 ≤ n ∧ 1 ≤ l.2.1 ∧ l.2.1 - 1 + l.2.2.length ≤ n ∧ 1 ≤ l.2.2.length

/-- the value the line lists for the (0-based) element `(i, j)`, if it covers it -/
def cover (l : Run) (i j : Nat) : Option Rat :=
  if i = l.1 - 1 ∧ l.2.1 - 1 ≤ j ∧ j < l.2.1 - 1 + l.2.2.length then l.2.2[j - (l.2.1 - 1)]? else Option.none

/-- the value listed by the last line that covers `(i, j)` -/
def lastCover : List Run → Nat → Nat → Option Rat
  | [], _, _ => Option.none
  | l :: rest, i, j => (lastCover rest i j).orElse fun _ => cover l i j

def Square (n : Nat) (M : Matrix) : Prop := M.length = n ∧ ∀ r ∈ M, r.length = n

theorem square_zeros (n : Nat) : Square n (zeros n) := by
  constructor
  · simp [zeros]
  · intro r hr
    simp only [zeros, List.mem_replicate] at hr
    rw [hr.2]; simp

theorem get_zeros (n i j : Nat) : (zeros n).get i j = 0 := by
  unfold Matrix.get zeros
  by_cases hi : i < n
  · by_cases hj : j < n <;> simp [List.getD_eq_getElem?_getD, hi, hj]
  · simp [List.getD_eq_getElem?_getD, hi]

theorem writeLine_spec (n : Nat) (M : Matrix) (hM : Square n M) (l : Run) (hl : l.ok n) :
    ∃ M', writeLine M l.1 l.2.1 l.2.2 = some M' ∧ Square n M' ∧
      ∀ i j, M'.get i j = (cover l i j).getD (M.get i j) := by
  obtain ⟨r, c, vals⟩ := l
  obtain ⟨hr1, hrn, hc1, hcn, hlen⟩ := hl
  simp only at hr1 hrn hc1 hcn hlen
  obtain ⟨hMl, hMr⟩ := hM
  have hne : vals.isEmpty = false := by cases vals <;> simp_all
  have hk : min (c - 1 + vals.length) M.length - min (c - 1) M.length = vals.length := by omega
  have hrM : r ≤ M.length := by omega
  have hnz : ¬ (r = 0 ∨ c = 0) := by omega
  have hidx : r - 1 < M.length := by omega
  -- the row that is rewritten
  have hget : M[r - 1]? = some M[r - 1] := List.getElem?_eq_getElem hidx
  have hrowlen : (M[r - 1]).length = n := hMr _ (List.getElem_mem _)
  have hrowD : M.getD (r - 1) [] = M[r - 1] := by rw [List.getD_eq_getElem?_getD, hget]; rfl
  refine ⟨M.set (r - 1) (((M[r - 1]).take (c - 1)) ++ vals ++ (M[r - 1]).drop (c - 1 + vals.length)), ?_, ?_, ?_⟩
  · unfold writeLine
    simp only [hne, Bool.false_eq_true, if_false, hnz, hk, if_true, hrM, hrowD]
  · constructor
    · simp [hMl]
    · intro row hrow
      rcases List.mem_or_eq_of_mem_set hrow with h | h
      · exact hMr row h
      · rw [h]
        simp only [List.length_append, List.length_take, List.length_drop, hrowlen]
        omega
  · intro i j
    unfold Matrix.get cover
    simp only
    by_cases hi : i = r - 1
    · subst hi
      simp only [List.getD_eq_getElem?_getD, List.getElem?_set_self hidx, Option.getD_some, true_and, hget]
      have e1 : (List.take (c - 1) M[r - 1]).length = c - 1 := by
        simp only [List.length_take, hrowlen]; omega
      by_cases h1 : j < c - 1
      · have hn : ¬ (c - 1 ≤ j ∧ j < c - 1 + vals.length) := by omega
        simp only [hn, if_false, Option.getD_none]
        rw [List.append_assoc, List.getElem?_append_left (by rw [e1]; exact h1), List.getElem?_take]
        simp [h1]
      · by_cases h2 : j < c - 1 + vals.length
        · have hy : (c - 1 ≤ j ∧ j < c - 1 + vals.length) := by omega
          simp only [hy, and_self, if_true]
          have hlt : j - (c - 1) < vals.length := by omega
          rw [List.append_assoc, List.getElem?_append_right (by rw [e1]; omega), e1,
            List.getElem?_append_left hlt, List.getElem?_eq_getElem hlt]
          simp
        · have hn : ¬ (c - 1 ≤ j ∧ j < c - 1 + vals.length) := by omega
          simp only [hn, if_false, Option.getD_none]
          have e2 : (List.take (c - 1) M[r - 1] ++ vals).length = c - 1 + vals.length := by
            rw [List.length_append, e1]
          rw [List.getElem?_append_right (by rw [e2]; omega), e2, List.getElem?_drop]
          congr 2
          omega
    · have hne' : r - 1 ≠ i := fun h => hi h.symm
      simp only [List.getD_eq_getElem?_getD, List.getElem?_set_ne hne', hi, false_and, if_false, Option.getD_none]

/-- `lines.foldlM writeLine` from any square start -/
def fillFrom (M0 : Matrix) (ls : List Run) : Option Matrix :=
  ls.foldlM (fun M l => writeLine M l.1 l.2.1 l.2.2) M0

theorem fillFrom_spec (n : Nat) (ls : List Run) : ∀ (M0 : Matrix), Square n M0 → (∀ l ∈ ls, l.ok n) →
    ∃ M, fillFrom M0 ls = some M ∧ Square n M ∧ ∀ i j, M.get i j = (lastCover ls i j).getD (M0.get i j) := by
  induction ls with
  | nil => intro M0 h0 _; exact ⟨M0, rfl, h0, fun i j => rfl⟩
  | cons l rest ih =>
    intro M0 h0 hok
    obtain ⟨M1, hw, hs1, hg1⟩ := writeLine_spec n M0 h0 l (hok l (by simp))
    obtain ⟨M, hf, hs, hg⟩ := ih M1 hs1 (fun l' h' => hok l' (by simp [h']))
    refine ⟨M, ?_, hs, ?_⟩
    · simp only [fillFrom, List.foldlM_cons, hw, Option.bind_eq_bind, Option.bind_some]
      exact hf
    · intro i j
      rw [hg i j, hg1 i j]
      simp only [lastCover]
      cases lastCover rest i j <;> simp

/-- **matrix_entries**: after all lines are written into the zero matrix, element `(i, j)` holds the
value listed for it (by the last line that lists it) and every element no line lists is zero -/
theorem matrix_entries (n : Nat) (ls : List Run) (hok : ∀ l ∈ ls, l.ok n) :
    ∃ M, fillFrom (zeros n) ls = some M ∧ ∀ i j, M.get i j = (lastCover ls i j).getD 0 := by
  obtain ⟨M, hf, _, hg⟩ := fillFrom_spec n ls (zeros n) (square_zeros n) hok
  exact ⟨M, hf, fun i j => by rw [hg i j, get_zeros]⟩

/-- the model's `fillMatrix` is `fillFrom` on the filtered runs of its lines -/
theorem fillMatrix_eq (n : Nat) (lines : List MatLine) (h : ∀ l ∈ lines, 0 ≤ l.row ∧ 0 ≤ l.col) :
    fillMatrix n lines = fillFrom (zeros n) (lines.map fun l => (l.row.toNat, l.col.toNat, l.vals.filterMap id)) := by
  unfold fillMatrix fillFrom
  generalize zeros n = M0
  induction lines generalizing M0 with
  | nil => rfl
  | cons l rest ih =>
    have hl := h l (by simp)
    have hneg : ¬ (l.row < 0 ∨ l.col < 0) := by omega
    simp only [List.foldlM_cons, List.map_cons, hneg, if_false]
    cases writeLine M0 l.row.toNat l.col.toNat (List.filterMap id l.vals) with
    | none => rfl
    | some M1 => exact ih (fun l' h' => h l' (by simp [h'])) M1

/-- **the full matrix (lower form)**: listed values at `(row, col+k)` and mirrored, zeros elsewhere -/
theorem matrix_full_lower (n : Nat) (ls : List Run) (hok : ∀ l ∈ ls, l.ok n) :
    ∃ R, (fillFrom (zeros n) ls).map (symmetrize .lower n) = some R ∧
      ∀ i j, i < n → j < n → j ≤ i →
        R.get i j = (lastCover ls i j).getD 0 ∧ R.get j i = (lastCover ls i j).getD 0 := by
  obtain ⟨M, hf, hg⟩ := matrix_entries n ls hok
  refine ⟨symmetrize .lower n M, by rw [hf]; rfl, ?_⟩
  intro i j hi hj hji
  have := matrix_lower_entries n M i j hi hj hji
  rw [this.1, this.2, hg i j]
  exact ⟨rfl, rfl⟩

/-- **the full matrix (upper form)** -/
theorem matrix_full_upper (n : Nat) (ls : List Run) (hok : ∀ l ∈ ls, l.ok n) :
    ∃ R, (fillFrom (zeros n) ls).map (symmetrize .upper n) = some R ∧
      ∀ i j, i < n → j < n → i ≤ j →
        R.get i j = (lastCover ls i j).getD 0 ∧ R.get j i = (lastCover ls i j).getD 0 := by
  obtain ⟨M, hf, hg⟩ := matrix_entries n ls hok
  refine ⟨symmetrize .upper n M, by rw [hf]; rfl, ?_⟩
  intro i j hi hj hij
  have := matrix_upper_entries n M i j hi hj hij
  rw [this.1, this.2, hg i j]
  exact ⟨rfl, rfl⟩

/-! ## 7. Blocks are found whatever their order and whatever lies between them -/

/-- a piece of a SINEX file body: either a line outside any block that does not open one (comment,
`%ENDSNX`, blank line, content or end line of a foreign block …) or a complete block -/
inductive Seg
  | noise (line : Str)
  | block (header : Str) (marker : Str) (params : List Str) (content : List Str) (footer : Str)

def Seg.lines : Seg → List Str
  | .noise l => [l]
  | .block h _ _ c f => h :: c ++ [f]

/-- well-formed pieces: a noise line does not start with `+`; a block's title line is `+MARKER params…`,
none of its content lines starts with `-` or `+`, its last line starts with `-` -/
def Seg.wf : Seg → Prop
  | .noise l => startsWith ['+'] l = false
  | .block h mk ps c f =>
      startsWith ['+'] h = true ∧ split (strip (h.drop 1)) = mk :: ps ∧
      (∀ l ∈ c, startsWith ['-'] l = false ∧ startsWith ['+'] l = false) ∧ startsWith ['-'] f = true

def body (segs : List Seg) : List Str := segs.flatMap Seg.lines

/-- the data lines of a block: the ones that start with a blank (comment lines `*…` are dropped) -/
def dataLines (c : List Str) : List Str := c.filter (startsWith [' '])

/-- what `parse_blocks` must deliver: the first block of each wanted marker, in file order -/
def expected : List String → List Seg → List RawBlock
  | _, [] => []
  | w, .noise _ :: rest => expected w rest
  | w, .block _ mk ps c _ :: rest =>
    if w.contains (asString mk) then ⟨asString mk, ps, dataLines c⟩ :: expected (w.erase (asString mk)) rest
    else expected w rest

theorem expected_nil (segs : List Seg) : expected [] segs = [] := by
  induction segs with
  | nil => rfl
  | cons s rest ih => cases s <;> simp [expected, ih]

theorem scan_nil_wanted (ls : List Str) : scan ls [] .search = some [] := by
  cases ls <;> simp [scan]

/-- inside a wanted block: collect the blank-led lines up to the first line starting with `-` -/
theorem scan_collect (c : List Str) (f : Str) (tail : List Str) (w : List String) (m : String) (p : List Str) :
    ∀ acc : List Str, (∀ l ∈ c, startsWith ['-'] l = false) → startsWith ['-'] f = true →
      scan (c ++ f :: tail) w (.collect m p acc) =
        (scan tail (w.erase m) .search).map (⟨m, p, acc.reverse ++ dataLines c⟩ :: ·) := by
  induction c with
  | nil =>
    intro acc _ hf
    simp [scan, hf, dataLines]
  | cons l c ih =>
    intro acc hc hf
    have hl : startsWith ['-'] l = false := hc l (by simp)
    have hc' : ∀ l' ∈ c, startsWith ['-'] l' = false := fun l' h' => hc l' (by simp [h'])
    by_cases hb : startsWith [' '] l = true
    · simp only [List.cons_append, scan, hl, Bool.false_eq_true, if_false, hb, if_true]
      rw [ih (l :: acc) hc' hf]
      simp [dataLines, List.filter_cons, hb]
    · have hb' : startsWith [' '] l = false := by simpa using hb
      simp only [List.cons_append, scan, hl, Bool.false_eq_true, if_false, hb']
      rw [ih acc hc' hf]
      simp [dataLines, List.filter_cons, hb']

/-- **parse_blocks finds exactly the wanted blocks**, in file order, ignoring foreign blocks, comment
lines and anything else between blocks (first occurrence of a marker) -/
theorem scan_body (segs : List Seg) (hwf : ∀ s ∈ segs, s.wf) :
    ∀ w : List String, scan (body segs) w .search = some (expected w segs) := by
  induction segs with
  | nil => intro w; simp [body, scan, expected]
  | cons s rest ih =>
    intro w
    have hrest : ∀ s' ∈ rest, s'.wf := fun s' h' => hwf s' (by simp [h'])
    have hs : s.wf := hwf s (by simp)
    by_cases hw : w = []
    · subst hw
      rw [scan_nil_wanted, expected_nil]
    · have hwe : w.isEmpty = false := by cases w <;> simp_all
      cases s with
      | noise l =>
        simp only [Seg.wf] at hs
        simp only [body, List.flatMap_cons, Seg.lines, List.singleton_append, scan, hwe, Bool.false_eq_true,
          if_false, hs, expected]
        exact ih hrest w
      | block h mk ps c f =>
        obtain ⟨hh, hsplit, hc, hf⟩ := hs
        simp only [body, List.flatMap_cons, Seg.lines, List.cons_append, scan, hwe, Bool.false_eq_true,
          if_false, hh, if_true, hsplit, expected]
        by_cases hin : w.contains (asString mk) = true
        · simp only [hin, if_true]
          rw [List.append_assoc, List.singleton_append,
            scan_collect c f _ w (asString mk) ps [] (fun l h' => (hc l h').1) hf]
          have := ih hrest (w.erase (asString mk))
          simp only [body] at this
          rw [this]
          simp
        · have hin' : w.contains (asString mk) = false := by simpa using hin
          simp only [hin', Bool.false_eq_true, if_false]
          -- a foreign block: its content and end line are skipped one by one
          have skip : ∀ (ls : List Str), (∀ l ∈ ls, startsWith ['+'] l = false) → ∀ tl,
              scan (ls ++ tl) w .search = scan tl w .search := by
            intro ls
            induction ls with
            | nil => intro _ tl; rfl
            | cons l ls ihl =>
              intro hls tl
              have h1 := hls l (by simp)
              simp only [List.cons_append, scan, hwe, Bool.false_eq_true, if_false, h1]
              exact ihl (fun l' h' => hls l' (by simp [h'])) tl
          have hfplus : startsWith ['+'] f = false := by
            cases f with
            | nil => rfl
            | cons ch r =>
              have : '-' = ch := by simpa [startsWith, List.isPrefixOf] using hf
              subst this; rfl
          rw [List.append_assoc, skip c (fun l h' => (hc l h').2), List.singleton_append]
          simp only [scan, hwe, Bool.false_eq_true, if_false, hfplus]
          exact ih hrest w

/-- all blocks of a body, as `parse_blocks` would store them -/
def blocksOf : List Seg → List RawBlock
  | [] => []
  | .noise _ :: rest => blocksOf rest
  | .block _ mk ps c _ :: rest => ⟨asString mk, ps, dataLines c⟩ :: blocksOf rest

theorem rawOf_cons (x : RawBlock) (xs : List RawBlock) (m : String) :
    rawOf (x :: xs) m = if x.marker = m then some x else rawOf xs m := by
  unfold rawOf
  by_cases h : x.marker = m <;> simp [List.find?_cons, h]

/-- the block delivered for marker `m` is the first block of that marker in the file, if `m` is wanted -/
theorem rawOf_expected (segs : List Seg) : ∀ (w : List String) (m : String),
    rawOf (expected w segs) m = if m ∈ w then rawOf (blocksOf segs) m else Option.none := by
  induction segs with
  | nil => intro w m; simp [expected, blocksOf, rawOf]
  | cons s rest ih =>
    intro w m
    cases s with
    | noise l => simp only [expected, blocksOf]; exact ih w m
    | block h mk ps c f =>
      simp only [expected, blocksOf]
      by_cases hin : w.contains (asString mk) = true
      · have hmem : asString mk ∈ w := by simpa using hin
        simp only [hin, if_true, rawOf_cons]
        by_cases hm : asString mk = m
        · subst hm; simp [hmem]
        · simp only [hm, if_false]
          rw [ih (w.erase (asString mk)) m]
          have : (m ∈ w.erase (asString mk)) ↔ m ∈ w := List.mem_erase_of_ne (Ne.symm hm)
          simp only [this]
      · have hin' : w.contains (asString mk) = false := by simpa using hin
        have hmem : asString mk ∉ w := by simpa using hin'
        simp only [hin', Bool.false_eq_true, if_false, rawOf_cons]
        rw [ih w m]
        by_cases hm : asString mk = m
        · subst hm; simp [hmem]
        · simp [hm]

theorem inj_of_nodup_map {α β} (f : α → β) (l : List α) (h : (l.map f).Nodup) :
    ∀ x ∈ l, ∀ y ∈ l, f x = f y → x = y := by
  induction l with
  | nil => intro x hx; simp at hx
  | cons a l ih =>
    simp only [List.map_cons, List.nodup_cons, List.mem_map, not_exists, not_and] at h
    obtain ⟨hna, hnd⟩ := h
    intro x hx y hy e
    rcases List.mem_cons.mp hx with rfl | hx'
    · rcases List.mem_cons.mp hy with rfl | hy'
      · rfl
      · exact absurd e.symm (hna y hy')
    · rcases List.mem_cons.mp hy with rfl | hy'
      · exact absurd e (hna x hx')
      · exact ih hnd x hx' y hy' e

theorem blocksOf_perm {a b : List Seg} (h : a.Perm b) : (blocksOf a).Perm (blocksOf b) := by
  induction h with
  | nil => exact List.Perm.refl _
  | cons x _ ih => cases x <;> simp [blocksOf, ih]
  | swap x y l =>
    cases x <;> cases y <;> simp [blocksOf]
    exact List.Perm.swap _ _ _
  | trans _ _ ih1 ih2 => exact ih1.trans ih2

theorem rawOf_perm {a b : List RawBlock} (h : a.Perm b) (hnd : (a.map (·.marker)).Nodup) (m : String) :
    rawOf a m = rawOf b m := by
  unfold rawOf
  have hndb : (b.map (·.marker)).Nodup := (h.map _).nodup_iff.mp hnd
  cases ha : a.find? (·.marker = m) with
  | none =>
    have hb : b.find? (·.marker = m) = Option.none := by
      rw [List.find?_eq_none] at ha ⊢
      intro x hx; exact ha x (h.mem_iff.mpr hx)
    rw [hb]
  | some x =>
    have hx := List.find?_some ha
    have hxa := List.mem_of_find?_eq_some ha
    have hxb : x ∈ b := h.mem_iff.mp hxa
    cases hb : b.find? (·.marker = m) with
    | none =>
      rw [List.find?_eq_none] at hb
      exact absurd hx (hb x hxb)
    | some y =>
      have hy := List.find?_some hb
      have hyb := List.mem_of_find?_eq_some hb
      have hmark : x.marker = y.marker := by
        simp only [decide_eq_true_eq] at hx hy; rw [hx, hy]
      have := inj_of_nodup_map (·.marker) b hndb x hxb y hyb hmark
      rw [this]

/-- **order_independent**: the raw block delivered for any marker is the same for every arrangement of
the same pieces (blocks in any order, foreign blocks and comment lines anywhere between them),
provided each marker occurs once -/
theorem order_independent (segs segs' : List Seg) (hperm : segs.Perm segs')
    (hwf : ∀ s ∈ segs, s.wf) (hdistinct : ((blocksOf segs).map (·.marker)).Nodup) (w : List String) (m : String) :
    (scan (body segs') w .search).map (rawOf · m) = (scan (body segs) w .search).map (rawOf · m) := by
  have hwf' : ∀ s ∈ segs', s.wf := fun s h => hwf s (hperm.mem_iff.mpr h)
  rw [scan_body segs hwf w, scan_body segs' hwf' w]
  simp only [Option.map_some, rawOf_expected]
  rw [rawOf_perm (blocksOf_perm hperm) hdistinct m]

/-! ## 8. Whole files -/

/-- every line closed by a line feed -/
def joinLines : List Str → Str
  | [] => []
  | l :: ls => l ++ '\n' :: joinLines ls

def NoNl (l : Str) : Prop := ∀ c ∈ l, c ≠ '\n'

theorem splitOnAux_nosep (sep : Char) (l : Str) (hl : ∀ c ∈ l, c ≠ sep) (cur : Str) :
    splitOnAux sep l cur = [cur.reverse ++ l] := by
  induction l generalizing cur with
  | nil => simp [splitOnAux]
  | cons c l ih =>
    have hc : c ≠ sep := hl c (by simp)
    simp only [splitOnAux, hc, if_false]
    rw [ih (fun x hx => hl x (by simp [hx]))]
    simp

theorem splitOnAux_line (sep : Char) (l : Str) (hl : ∀ c ∈ l, c ≠ sep) (rest cur : Str) :
    splitOnAux sep (l ++ sep :: rest) cur = (cur.reverse ++ l) :: splitOnAux sep rest [] := by
  induction l generalizing cur with
  | nil => simp [splitOnAux]
  | cons c l ih =>
    have hc : c ≠ sep := hl c (by simp)
    simp only [List.cons_append, splitOnAux, hc, if_false]
    rw [ih (fun x hx => hl x (by simp [hx]))]
    simp

theorem splitOn_joinLines (ls : List Str) (last : Str) (h : ∀ l ∈ ls, NoNl l) (hlast : NoNl last) :
    splitOn '\n' (joinLines ls ++ last) = ls ++ [last] := by
  unfold splitOn
  induction ls with
  | nil => simpa [joinLines] using splitOnAux_nosep '\n' last hlast []
  | cons l ls ih =>
    simp only [joinLines, List.append_assoc, List.cons_append]
    rw [splitOnAux_line '\n' l (h l (by simp))]
    rw [ih (fun x hx => h x (by simp [hx]))]
    simp

/-- **lines of a file**: a text whose lines are each closed by a line feed is read back line by line;
so is a text whose last line is not closed -/
theorem fileLines_joinLines (ls : List Str) (h : ∀ l ∈ ls, NoNl l) : fileLines (joinLines ls) = ls := by
  have := splitOn_joinLines ls [] h (by intro c hc; simp at hc)
  simp only [List.append_nil] at this
  unfold fileLines
  simp only [this, List.reverse_append, List.reverse_cons, List.reverse_nil, List.nil_append, List.singleton_append,
    List.reverse_reverse]

theorem fileLines_unterminated (ls : List Str) (last : Str) (h : ∀ l ∈ ls, NoNl l) (hlast : NoNl last)
    (hne : last ≠ []) : fileLines (joinLines ls ++ last) = ls ++ [last] := by
  unfold fileLines
  rw [splitOn_joinLines ls last h hlast]
  cases last with
  | nil => exact absurd rfl hne
  | cons c r => simp

/-- an abstract SINEX file: the header line and the pieces of the body (blocks in any order, with
comment lines, blank lines, `%ENDSNX` and blocks nobody asked for between them) -/
structure SnxFile where
  header : Str
  segs : List Seg

def SnxFile.lines (F : SnxFile) : List Str := F.header :: body F.segs

/-- the text of the file -/
def SnxFile.text (F : SnxFile) : Str := joinLines F.lines

def SnxFile.wf (F : SnxFile) : Prop := (∀ l ∈ F.lines, NoNl l) ∧ ∀ s ∈ F.segs, s.wf

/-- what `parse_header_line` stores in `meta` -/
def headerRow (tag : Str) (header : List FieldDef) (total : Str → Nat) (h : Str) : Row :=
  if startsWith tag h then (if (dropComment h).isEmpty then [] else parseLine header (total h) h) else []

/-- **reading a file**: the header line is parsed with the header table, and `parse_blocks` delivers
exactly the first block of each declared marker, in file order -/
theorem readRaw_file (tag : Str) (header : List FieldDef) (total : Str → Nat) (blocks : List BlockDef)
    (F : SnxFile) (hwf : F.wf) :
    readRaw tag header total blocks F.text =
      some ⟨headerRow tag header total F.header, expected (blocks.map (·.marker)) F.segs⟩ := by
  unfold readRaw SnxFile.text
  rw [fileLines_joinLines _ hwf.1]
  simp only [SnxFile.lines, findBlocks, scan_body F.segs hwf.2, Option.map_some, headerRow]


/-! ### the result does not depend on the arrangement of the pieces -/

/-- two bodies made of the same pieces deliver the same raw block for every marker -/
theorem rawOf_expected_perm (segs segs' : List Seg) (hperm : segs.Perm segs')
    (hdistinct : ((blocksOf segs).map (·.marker)).Nodup) (w : List String) :
    rawOf (expected w segs') = rawOf (expected w segs) := by
  funext m
  rw [rawOf_expected, rawOf_expected, rawOf_perm (blocksOf_perm hperm) hdistinct m]

/-- **file_order_independent**: for each of the parsers (base class with any declared blocks, site,
discontinuities, events, tro, tms — all are `parseWith` with their own `assemble`), two files with the same
header line whose bodies are arrangements of the same pieces (blocks in another order, comment lines
and foreign blocks anywhere between them; each marker once) give the same result — header and all
of `data` -/
theorem file_order_independent (tag : Str) (header : List FieldDef) (total : Str → Nat) (blocks : List BlockDef)
    (assemble : (String → Option RawBlock) → Option Val) (h : Str) (segs segs' : List Seg)
    (hperm : segs.Perm segs') (hwf : SnxFile.wf ⟨h, segs⟩) (hnl : ∀ l ∈ body segs', NoNl l)
    (hdistinct : ((blocksOf segs).map (·.marker)).Nodup) :
    parseWith tag header total blocks assemble (SnxFile.text ⟨h, segs'⟩) =
      parseWith tag header total blocks assemble (SnxFile.text ⟨h, segs⟩) := by
  have hwf' : SnxFile.wf ⟨h, segs'⟩ := by
    refine ⟨?_, fun s hs => hwf.2 s (hperm.mem_iff.mpr hs)⟩
    intro l hl
    simp only [SnxFile.lines, List.mem_cons] at hl
    rcases hl with rfl | hl
    · exact hwf.1 _ (by simp [SnxFile.lines])
    · exact hnl l hl
  unfold parseWith
  rw [readRaw_file _ _ _ _ _ hwf, readRaw_file _ _ _ _ _ hwf']
  simp only [Option.bind_some]
  rw [rawOf_expected_perm segs segs' hperm hdistinct]

/-! ### pieces the parser does not see -/

/-- a piece is invisible after the pieces `pre` for a parser wanting the markers `w`: a line outside any
block, a block whose marker was not declared, or a block whose marker already occurred (**a block
given twice: the first one is read, the second is skipped like a foreign block**) -/
def Invisible (w : List String) (pre : List Seg) : Seg → Prop
  | .noise _ => True
  | .block _ mk _ _ _ => asString mk ∉ w ∨ asString mk ∈ (blocksOf pre).map (·.marker)

theorem expected_invisible (s : Seg) (post : List Seg) : ∀ (pre : List Seg) (w : List String), w.Nodup →
    Invisible w pre s → expected w (pre ++ s :: post) = expected w (pre ++ post) := by
  intro pre
  induction pre with
  | nil =>
    intro w _ hinv
    cases s with
    | noise l => simp [expected]
    | block h mk ps c f =>
      simp only [Invisible, blocksOf, List.map_nil, List.not_mem_nil, or_false] at hinv
      have : w.contains (asString mk) = false := by simpa using hinv
      simp only [List.nil_append, expected, this, Bool.false_eq_true, if_false]
  | cons p pre ih =>
    intro w hnd hinv
    cases p with
    | noise l =>
      simp only [List.cons_append, expected]
      apply ih w hnd
      cases s with
      | noise _ => trivial
      | block h mk ps c f => simpa [Invisible, blocksOf] using hinv
    | block h' mk' ps' c' f' =>
      simp only [List.cons_append, expected]
      by_cases hin : w.contains (asString mk') = true
      · simp only [hin, if_true]
        congr 1
        apply ih (w.erase (asString mk')) (hnd.erase _)
        cases s with
        | noise _ => trivial
        | block h mk ps c f =>
          simp only [Invisible, blocksOf, List.map_cons, List.mem_cons] at hinv ⊢
          rcases hinv with hnot | heq | hmem
          · exact Or.inl (fun hm => hnot (List.mem_of_mem_erase hm))
          · left
            rw [heq]
            exact fun hm => (List.Nodup.mem_erase_iff hnd).mp hm |>.1 rfl
          · exact Or.inr hmem
      · have hin' : w.contains (asString mk') = false := by simpa using hin
        simp only [hin', Bool.false_eq_true, if_false]
        apply ih w hnd
        cases s with
        | noise _ => trivial
        | block h mk ps c f =>
          simp only [Invisible, blocksOf, List.map_cons, List.mem_cons] at hinv ⊢
          rcases hinv with hnot | heq | hmem
          · exact Or.inl hnot
          · left
            rw [heq]
            simpa using hin'
          · exact Or.inr hmem

/-- **invisible pieces**: taking a comment line, a foreign block or the second copy of a block out of a
file (or putting one in) does not change the result of any of the parsers -/
theorem file_invisible (tag : Str) (header : List FieldDef) (total : Str → Nat) (blocks : List BlockDef)
    (assemble : (String → Option RawBlock) → Option Val) (h : Str) (pre post : List Seg) (s : Seg)
    (hw : (blocks.map (·.marker)).Nodup) (hinv : Invisible (blocks.map (·.marker)) pre s)
    (hwf : SnxFile.wf ⟨h, pre ++ s :: post⟩) :
    parseWith tag header total blocks assemble (SnxFile.text ⟨h, pre ++ s :: post⟩) =
      parseWith tag header total blocks assemble (SnxFile.text ⟨h, pre ++ post⟩) := by
  have hwf' : SnxFile.wf ⟨h, pre ++ post⟩ := by
    constructor
    · intro l hl
      apply hwf.1 l
      simp only [SnxFile.lines, body, List.mem_cons, List.flatMap_append, List.mem_append, List.flatMap_cons] at hl ⊢
      rcases hl with h1 | h1 | h1
      · exact Or.inl h1
      · exact Or.inr (Or.inl h1)
      · exact Or.inr (Or.inr (Or.inr h1))
    · intro s' hs'
      apply hwf.2 s'
      simp only [List.mem_append, List.mem_cons] at hs' ⊢
      rcases hs' with h1 | h1
      · exact Or.inl h1
      · exact Or.inr (Or.inr h1)
  unfold parseWith
  rw [readRaw_file _ _ _ _ _ hwf, readRaw_file _ _ _ _ _ hwf']
  simp only [expected_invisible s post pre _ hw hinv]


/-! ### the content of a block -/

/-- the record begins with a blank: the table is not empty and its first field starts after column 0 -/
def leadOk : Layout → Bool
  | f :: _ => decide (1 ≤ f.start)
  | [] => false

/-- every non-empty table of the 80-column parsers has the lead blank (the empty one is
SITE/GAL_PHASE_CENTER, a TODO in the source) -/
theorem tables_lead_blank :
    (snxBlocks.all fun b => b.fields.isEmpty || leadOk (layoutOf b.fields 81)) = true ∧
    (tmsBlocks.all fun b => leadOk (layoutOf b.fields 200)) = true := by
  decide +kernel

theorem render_lead (L : Layout) (cells : List (Align × Str)) (hl : leadOk L = true) (hf : Fits L cells = true) :
    ∃ r, renderA L cells = ' ' :: r := by
  cases L with
  | nil => simp [leadOk] at hl
  | cons f L =>
    cases cells with
    | nil => simp [Fits] at hf
    | cons c cs =>
      obtain ⟨a, v⟩ := c
      simp only [leadOk, decide_eq_true_eq] at hl
      obtain ⟨k, hk⟩ : ∃ k, f.start = k + 1 := ⟨f.start - 1, by omega⟩
      refine ⟨blanks k ++ pad a f.width v ++ renderFrom f.stop L cs, ?_⟩
      simp [renderA, renderFrom, hk, blanks, List.replicate_succ]

/-- a line inside a block: a record (texts placed in the columns of the table) or a comment line -/
inductive Item
  | record (cells : List (Align × Str))
  | comment (line : Str)

def Item.line (fs : List FieldDef) (total : Nat) : Item → Str
  | .record cells => renderA (layoutOf fs total) cells
  | .comment l => l

def Item.wf (fs : List FieldDef) (total : Nat) : Item → Prop
  | .record cells => Fits (layoutOf fs total) cells = true
  | .comment l => startsWith ['*'] l = true

/-- the lines between `+MARKER` and `-MARKER` -/
def content (fs : List FieldDef) (total : Nat) (items : List Item) : List Str := items.map (Item.line fs total)

/-- the records among the items, in order -/
def records : List Item → List (List (Align × Str))
  | [] => []
  | .record c :: rest => c :: records rest
  | .comment _ :: rest => records rest

theorem startsWith_cons (c d : Char) (r : Str) : startsWith [c] (d :: r) = decide (c = d) := by
  by_cases h : c = d <;> simp [startsWith, List.isPrefixOf, h]

/-- content lines never close the block or open another one (hypothesis of `Seg.wf`) -/
theorem content_ok (fs : List FieldDef) (total : Nat) (hl : leadOk (layoutOf fs total) = true) (items : List Item)
    (hwf : ∀ i ∈ items, i.wf fs total) :
    ∀ l ∈ content fs total items, startsWith ['-'] l = false ∧ startsWith ['+'] l = false := by
  intro l hmem
  simp only [content, List.mem_map] at hmem
  obtain ⟨i, hi, rfl⟩ := hmem
  have := hwf i hi
  cases i with
  | record cells =>
    obtain ⟨r, hr⟩ := render_lead _ cells hl this
    simp only [Item.line, hr, startsWith_cons]
    decide
  | comment c =>
    simp only [Item.wf] at this
    cases c with
    | nil => simp [startsWith, List.isPrefixOf] at this
    | cons ch r =>
      simp only [startsWith_cons, decide_eq_true_eq] at this
      subst this
      simp only [Item.line, startsWith_cons]
      decide

/-- the data lines of a block are its records; comment lines are dropped -/
theorem dataLines_content (fs : List FieldDef) (total : Nat) (hl : leadOk (layoutOf fs total) = true) (items : List Item)
    (hwf : ∀ i ∈ items, i.wf fs total) :
    dataLines (content fs total items) = (records items).map (renderA (layoutOf fs total)) := by
  induction items with
  | nil => rfl
  | cons i rest ih =>
    have hrest := ih (fun j hj => hwf j (by simp [hj]))
    have hi := hwf i (by simp)
    cases i with
    | record cells =>
      obtain ⟨r, hr⟩ := render_lead _ cells hl hi
      have hsw : startsWith [' '] (renderA (layoutOf fs total) cells) = true := by
        rw [hr, startsWith_cons]; decide
      simp only [content, List.map_cons, Item.line, dataLines, List.filter_cons, hsw, if_true, records]
      simp only [content, dataLines] at hrest
      rw [hrest]
    | comment c =>
      simp only [Item.wf] at hi
      have hsw : startsWith [' '] c = false := by
        cases c with
        | nil => rfl
        | cons ch r =>
          simp only [startsWith_cons, decide_eq_true_eq] at hi
          subst hi
          rw [startsWith_cons]; decide
      simp only [content, List.map_cons, Item.line, dataLines, List.filter_cons, hsw, Bool.false_eq_true, if_false, records]
      simp only [content, dataLines] at hrest
      exact hrest

/-- the values of one written record: every text converted by the rule its field declares -/
def convertRow (fs : List FieldDef) (cells : List (Align × Str)) : Row :=
  ((fs.zip (cells.map (·.2))).filter (·.1.dtype ≠ .skip)).map fun (fd, t) => (validName fd.name, convertCell fd t)

/-- **records of a block**: `parse_lines` on the rendered records gives one row per record, in order, each
holding the converted texts that were written -/
theorem parseLines_records (fs : List FieldDef) (total : Nat) (hs : Sorted (layoutOf fs total) = true)
    (hl : leadOk (layoutOf fs total) = true) (recs : List (List (Align × Str)))
    (hf : ∀ c ∈ recs, Fits (layoutOf fs total) c = true) :
    parseLines fs total (recs.map (renderA (layoutOf fs total))) = recs.map (convertRow fs) := by
  unfold parseLines
  have hfilter : (recs.map (renderA (layoutOf fs total))).filter (fun l => !(dropComment l).isEmpty) =
      recs.map (renderA (layoutOf fs total)) := by
    apply List.filter_eq_self.mpr
    intro l hmem
    simp only [List.mem_map] at hmem
    obtain ⟨c, hc, rfl⟩ := hmem
    obtain ⟨r, hr⟩ := render_lead _ c hl (hf c hc)
    simp [dropComment, hr]
  rw [hfilter, List.map_map]
  apply List.map_congr_left
  intro c hc
  exact parseLine_roundtrip fs total c hs (hf c hc)

/-! ### `self.data` of the base-class parser -/

theorem dget_dset_ne {α} (d : List (String × α)) (k k' : String) (v : α) (h : k ≠ k') :
    dget? (dset d k v) k' = dget? d k' := by
  induction d with
  | nil => simp [dset, dget?, h]
  | cons p rest ih =>
    obtain ⟨k0, v0⟩ := p
    by_cases h0 : k0 = k
    · subst h0; simp [dset, dget?, h]
    · by_cases h1 : k0 = k'
      · subst h1; simp [dset, dget?, h0]
      · simp [dset, dget?, h0, h1, ih]

theorem foldlM_baseStep (blocks0 : List BlockDef) (look : String → Option RawBlock) :
    ∀ (bs : List BlockDef) (acc D : List (String × Val)), (bs.map (·.marker)).Nodup →
      bs.foldlM (baseStep blocks0 look) acc = some D →
      (∀ b ∈ bs, dget? D b.marker =
        match look b.marker with
        | Option.none => dget? acc b.marker
        | some r => blockVal blocks0 look b r) ∧
      (∀ m, m ∉ bs.map (·.marker) → dget? D m = dget? acc m) := by
  intro bs
  induction bs with
  | nil =>
    intro acc D _ h
    simp only [List.foldlM_nil, Option.pure_def, Option.some.injEq] at h
    subst h
    exact ⟨fun b hb => by simp at hb, fun m _ => rfl⟩
  | cons b rest ih =>
    intro acc D hnd h
    simp only [List.map_cons, List.nodup_cons] at hnd
    obtain ⟨hb, hnd'⟩ := hnd
    simp only [List.foldlM_cons, Option.bind_eq_bind] at h
    cases hstep : baseStep blocks0 look acc b with
    | none => simp [hstep] at h
    | some acc' =>
      rw [hstep, Option.bind_some] at h
      obtain ⟨ih1, ih2⟩ := ih acc' D hnd' h
      -- what the step did to the accumulator
      have hacc' : (∀ m, m ≠ b.marker → dget? acc' m = dget? acc m) ∧
          dget? acc' b.marker = (match look b.marker with
            | Option.none => dget? acc b.marker
            | some r => blockVal blocks0 look b r) := by
        unfold baseStep at hstep
        cases hlook : look b.marker with
        | none =>
          simp only [hlook, Option.some.injEq] at hstep
          subst hstep
          exact ⟨fun m _ => rfl, rfl⟩
        | some r =>
          simp only [hlook] at hstep
          cases hv : blockVal blocks0 look b r with
          | none => simp [hv] at hstep
          | some v =>
            simp only [hv, Option.map_some, Option.some.injEq] at hstep
            subst hstep
            exact ⟨fun m hm => dget_dset_ne _ _ _ _ (Ne.symm hm), by rw [dget_dset_self]; exact hv.symm⟩
      constructor
      · intro b' hb'
        rcases List.mem_cons.mp hb' with rfl | hin
        · rw [ih2 _ hb, hacc'.2]
        · have hne : b'.marker ≠ b.marker := fun e => hb (by rw [← e]; exact List.mem_map_of_mem hin)
          rw [ih1 b' hin]
          cases look b'.marker with
          | none => exact hacc'.1 _ hne
          | some r => rfl
      · intro m hm
        have hm1 : m ≠ b.marker := fun e => hm (by simp [e])
        have hm2 : m ∉ rest.map (·.marker) := fun e => hm (by simp only [List.map_cons, List.mem_cons]; exact Or.inr e)
        rw [ih2 m hm2, hacc'.1 m hm1]

/-- **`self.data` block by block**: when the base-class parser returns, each declared block that is in the
file is stored under its marker with exactly what its factory parser makes of its own raw block,
declared blocks that are not in the file are absent, and nothing else is stored (whatever the order
of the declarations and of the blocks in the file) -/
theorem assembleBase_get (blocks : List BlockDef) (look : String → Option RawBlock) (D : List (String × Val))
    (hnd : (blocks.map (·.marker)).Nodup) (h : assembleBase blocks look = some D) :
    (∀ b ∈ blocks, dget? D b.marker = (look b.marker).bind (blockVal blocks look b)) ∧
    (∀ m, m ∉ blocks.map (·.marker) → dget? D m = Option.none) := by
  obtain ⟨h1, h2⟩ := foldlM_baseStep blocks look blocks [] D hnd h
  constructor
  · intro b hb
    rw [h1 b hb]
    cases look b.marker <;> rfl
  · intro m hm
    rw [h2 m hm]; rfl


/-- the parser succeeds on every file when only default block parsers are declared -/
theorem assembleBase_dflt_ok (blocks0 : List BlockDef) (look : String → Option RawBlock) :
    ∀ (bs : List BlockDef) (acc : List (String × Val)), (∀ b ∈ bs, b.kind = .dflt) →
      ∃ D, bs.foldlM (baseStep blocks0 look) acc = some D := by
  intro bs
  induction bs with
  | nil => intro acc _; exact ⟨acc, rfl⟩
  | cons b rest ih =>
    intro acc hk
    have hb : b.kind = .dflt := hk b (by simp)
    have hrest : ∀ b' ∈ rest, b'.kind = .dflt := fun b' h' => hk b' (by simp [h'])
    simp only [List.foldlM_cons, Option.bind_eq_bind]
    cases hlook : look b.marker with
    | none =>
      simp only [baseStep, hlook, Option.bind_some]
      exact ih acc hrest
    | some r =>
      simp only [baseStep, hlook, blockVal, hb, Option.map_some, Option.bind_some]
      exact ih _ hrest

theorem rawOf_blocksOf_first (h mk : Str) (ps c : List Str) (f : Str) (post : List Seg) :
    ∀ pre : List Seg, asString mk ∉ (blocksOf pre).map (·.marker) →
      rawOf (blocksOf (pre ++ Seg.block h mk ps c f :: post)) (asString mk) = some ⟨asString mk, ps, dataLines c⟩ := by
  intro pre
  induction pre with
  | nil => intro _; simp [blocksOf, rawOf_cons]
  | cons p pre ih =>
    intro hp
    cases p with
    | noise l => simp only [List.cons_append, blocksOf] at hp ⊢; exact ih hp
    | block h' mk' ps' c' f' =>
      simp only [blocksOf, List.map_cons, List.mem_cons, not_or] at hp
      simp only [List.cons_append, blocksOf, rawOf_cons]
      have : ¬ asString mk' = asString mk := fun e => hp.1 e.symm
      simp only [this, if_false]
      exact ih hp.2

theorem records_fits (fs : List FieldDef) (total : Nat) (items : List Item) (hwf : ∀ i ∈ items, i.wf fs total) :
    ∀ c ∈ records items, Fits (layoutOf fs total) c = true := by
  induction items with
  | nil => intro c hc; simp [records] at hc
  | cons i rest ih =>
    have hrest := ih (fun j hj => hwf j (by simp [hj]))
    have hi := hwf i (by simp)
    cases i with
    | record cells =>
      intro c hc
      simp only [records, List.mem_cons] at hc
      rcases hc with rfl | hc
      · exact hi
      · exact hrest c hc
    | comment l => intro c hc; exact hrest c (by simpa [records] using hc)

/-- the raw block a file delivers for a declared marker: the records of the first block of that marker -/
theorem file_block_rows (b : BlockDef) (w : List String) (hw : b.marker ∈ w) (total : Nat)
    (hs : Sorted (layoutOf b.fields total) = true) (hl : leadOk (layoutOf b.fields total) = true)
    (pre post : List Seg) (h mk : Str) (ps : List Str) (f : Str) (items : List Item)
    (hmk : asString mk = b.marker) (hfirst : b.marker ∉ (blocksOf pre).map (·.marker))
    (hitems : ∀ i ∈ items, i.wf b.fields total) :
    ∃ r, rawOf (expected w (pre ++ Seg.block h mk ps (content b.fields total items) f :: post)) b.marker = some r ∧
      r.params = ps ∧ parseLines b.fields total r.lines = (records items).map (convertRow b.fields) := by
  refine ⟨⟨asString mk, ps, dataLines (content b.fields total items)⟩, ?_, rfl, ?_⟩
  · rw [rawOf_expected]
    simp only [hw, if_true]
    rw [← hmk] at hfirst ⊢
    exact rawOf_blocksOf_first h mk ps _ f post pre hfirst
  · simp only
    rw [dataLines_content _ _ hl items hitems]
    exact parseLines_records _ _ hs hl _ (records_fits _ _ items hitems)

/-- **file_roundtrip (default blocks)**: a base-class parser declaring `blocks` (distinct markers, any
order) reads a file whose body holds — anywhere, between whatever other blocks, comment lines and
foreign blocks — a block `+MARKER … -MARKER` of the declared default block `b` (the first one of
that marker) made of records and comment lines.  Then `data[MARKER]` is the dictionary of `b`'s columns
over exactly the written records, in order, every value being the declared conversion of the text
written into the field's columns; `meta` is the header line read with the header table. -/
theorem base_file_roundtrip (header : List FieldDef) (blocks : List BlockDef) (b : BlockDef)
    (hb : b ∈ blocks) (hkind : b.kind = .dflt) (hnd : (blocks.map (·.marker)).Nodup)
    (hs : Sorted (layoutOf b.fields 81) = true) (hl : leadOk (layoutOf b.fields 81) = true)
    (hd : Str) (pre post : List Seg) (h mk : Str) (ps : List Str) (f : Str) (items : List Item)
    (hmk : asString mk = b.marker) (hfirst : b.marker ∉ (blocksOf pre).map (·.marker))
    (hitems : ∀ i ∈ items, i.wf b.fields 81)
    (hwf : SnxFile.wf ⟨hd, pre ++ Seg.block h mk ps (content b.fields 81 items) f :: post⟩)
    (R : Result)
    (hR : parseBaseFile header blocks
      (SnxFile.text ⟨hd, pre ++ Seg.block h mk ps (content b.fields 81 items) f :: post⟩) = some R) :
    R.hdr = headerRow snxTag header (fun _ => 81) hd ∧
    ∃ D, R.data = .dict D ∧
      dget? D b.marker = some (.dict (columns b.fields ((records items).map (convertRow b.fields)))) := by
  unfold parseBaseFile parseWith at hR
  rw [readRaw_file _ _ _ _ _ hwf] at hR
  simp only [Option.bind_some] at hR
  cases hD : assembleBase blocks (rawOf (expected (blocks.map (·.marker))
      (pre ++ Seg.block h mk ps (content b.fields 81 items) f :: post))) with
  | none => simp [hD] at hR
  | some D =>
    simp only [hD, Option.map_some, Option.some.injEq] at hR
    subst hR
    refine ⟨rfl, D, rfl, ?_⟩
    have hget := (assembleBase_get blocks _ D hnd hD).1 b hb
    obtain ⟨r, hr, _, hrows⟩ := file_block_rows b (blocks.map (·.marker)) (List.mem_map_of_mem hb) 81 hs hl
      pre post h mk ps f items hmk hfirst hitems
    rw [hget, hr]
    simp only [Option.bind_some, blockVal, hkind, rowsOf, hrows]

/-- … and when only default block parsers are declared the parser returns on every such file -/
theorem base_file_returns (header : List FieldDef) (blocks : List BlockDef) (hk : ∀ b ∈ blocks, b.kind = .dflt)
    (F : SnxFile) (hwf : F.wf) : ∃ R, parseBaseFile header blocks F.text = some R := by
  unfold parseBaseFile parseWith
  rw [readRaw_file _ _ _ _ _ hwf]
  obtain ⟨D, hD⟩ := assembleBase_dflt_ok blocks (rawOf (expected (blocks.map (·.marker)) F.segs)) blocks [] hk
  exact ⟨⟨headerRow snxTag header (fun _ => 81) F.header, .dict D⟩, by simp [assembleBase, hD]⟩


/-- the hypotheses of `base_file_roundtrip` are satisfiable: a FILE/COMMENT block after a comment line and a
foreign block, followed by a second copy -/
def exFields : List FieldDef := [⟨"comment", 1, .u 79, .none⟩]
def exBlock : BlockDef := ⟨"FILE/COMMENT", exFields, .dflt⟩
def exItems : List Item := [.record [(.left, "hello world".toList)], .comment "*remark".toList, .record [(.left, "x".toList)]]
def exPre : List Seg := [.noise "* ----".toList,
  .block "+X/BLOCK".toList "X/BLOCK".toList [] [" foreign".toList] "-X/BLOCK".toList]
def exPost : List Seg := [.block "+FILE/COMMENT".toList "FILE/COMMENT".toList [] [" again".toList] "-FILE/COMMENT".toList,
  .noise "%ENDSNX".toList]
def exFile : SnxFile :=
  ⟨"%=SNX 2.02".toList, exPre ++ Seg.block "+FILE/COMMENT".toList "FILE/COMMENT".toList [] (content exFields 81 exItems)
      "-FILE/COMMENT".toList :: exPost⟩

instance (s : Seg) : Decidable s.wf := by
  cases s <;> (simp only [Seg.wf]; infer_instance)

instance (fs : List FieldDef) (total : Nat) (i : Item) : Decidable (i.wf fs total) := by
  cases i <;> (simp only [Item.wf]; infer_instance)

example : Sorted (layoutOf exBlock.fields 81) = true ∧ leadOk (layoutOf exBlock.fields 81) = true ∧
    asString "FILE/COMMENT".toList = exBlock.marker ∧ exBlock.marker ∉ (blocksOf exPre).map (·.marker) ∧
    (∀ i ∈ exItems, i.wf exFields 81) ∧ exFile.wf := by
  refine ⟨by decide +kernel, by decide +kernel, by decide +kernel, by decide +kernel, by decide +kernel, ?_, by decide +kernel⟩
  unfold NoNl
  decide +kernel

/-! ## 9. SINEX-TMS (`sinex_tms`) -/

/-- a dictionary filled key by key: every key holds what its own entry produced -/
theorem foldlM_dset_get {β} (key : β → String) (f : β → Option Val) :
    ∀ (l : List β) (acc D : List (String × Val)), (l.map key).Nodup →
      l.foldlM (fun D x => (f x).map fun v => dset D (key x) v) acc = some D →
      (∀ x ∈ l, dget? D (key x) = f x) ∧ (∀ m, m ∉ l.map key → dget? D m = dget? acc m) := by
  intro l
  induction l with
  | nil =>
    intro acc D _ h
    simp only [List.foldlM_nil, Option.pure_def, Option.some.injEq] at h
    subst h
    exact ⟨fun x hx => by simp at hx, fun m _ => rfl⟩
  | cons a rest ih =>
    intro acc D hnd h
    simp only [List.map_cons, List.nodup_cons] at hnd
    obtain ⟨ha, hnd'⟩ := hnd
    simp only [List.foldlM_cons, Option.bind_eq_bind] at h
    cases hv : f a with
    | none => simp [hv] at h
    | some v =>
      simp only [hv, Option.map_some, Option.bind_some] at h
      obtain ⟨ih1, ih2⟩ := ih _ D hnd' h
      constructor
      · intro x hx
        rcases List.mem_cons.mp hx with rfl | hin
        · rw [ih2 _ ha, dget_dset_self, hv]
        · exact ih1 x hin
      · intro m hm
        have hm1 : key a ≠ m := fun e => hm (by simp [e])
        have hm2 : m ∉ rest.map key := fun e => hm (by simp only [List.map_cons, List.mem_cons]; exact Or.inr e)
        rw [ih2 m hm2, dget_dset_ne _ _ _ _ hm1]

/-- a TIMESERIES/DATA record: tokens, each preceded by blanks (at least one; the first pad holds the
record's lead blank), blanks allowed at the end -/
def wsLine (r : List (Str × Str) × Str) : Str := padded r.1 ++ r.2

def wsTokens (r : List (Str × Str) × Str) : List Str := r.1.map (·.2)

theorem split_wsLine (r : List (Str × Str) × Str) (hok : PadsOk r.1 = true) (hb : isBlank r.2 = true) :
    split (wsLine r) = wsTokens r := by
  unfold wsLine split
  rw [splitAux_blank_end hb]
  exact split_padded r.1 hok

/-- **whitespace mode**: records of `n > 0` tokens each come back as exactly those tokens, record by
record, whatever the amount of blanks between them -/
theorem wsRows_roundtrip (recs : List (List (Str × Str) × Str)) (n : Nat) (hn : 0 < n)
    (hok : ∀ r ∈ recs, PadsOk r.1 = true ∧ isBlank r.2 = true ∧ r.1.length = n) :
    wsRows (recs.map wsLine) = some (recs.map wsTokens) := by
  have hsplit : (recs.map wsLine).map split = recs.map wsTokens := by
    rw [List.map_map]
    apply List.map_congr_left
    intro r hr
    exact split_wsLine r (hok r hr).1 (hok r hr).2.1
  have hlen : ∀ t ∈ recs.map wsTokens, t.length = n := by
    intro t ht
    simp only [List.mem_map] at ht
    obtain ⟨r, hr, rfl⟩ := ht
    simp [wsTokens, (hok r hr).2.2]
  have hfilter : (recs.map wsTokens).filter (fun r => !r.isEmpty) = recs.map wsTokens := by
    apply List.filter_eq_self.mpr
    intro t ht
    have := hlen t ht
    cases t with
    | nil => simp at this; omega
    | cons _ _ => rfl
  unfold wsRows
  simp only [hsplit, hfilter]
  have hall : ((recs.map wsTokens).all fun r => r.length == ((recs.map wsTokens).headD []).length) = true := by
    rw [List.all_eq_true]
    intro t ht
    cases hrecs : recs.map wsTokens with
    | nil => rw [hrecs] at ht; simp at ht
    | cons t0 rest =>
      have h0 : t0.length = n := hlen t0 (by rw [hrecs]; simp)
      simp [hlen t ht, h0]
  simp only [hall, if_true]

theorem length_wsColumns (rows : List (List Str)) : (wsColumns rows).length = (rows.headD []).length := by
  simp [wsColumns]

theorem getElem_wsColumns (rows : List (List Str)) (j : Nat) (hj : j < (rows.headD []).length) :
    (wsColumns rows)[j]'(by rw [length_wsColumns]; exact hj) = column j rows := by
  simp [wsColumns]

/-- **TIMESERIES/DATA column by column**: when `parse_timeseries_data` returns, the entry of the `j`-th
declared column name (lower-cased; names distinct, not more names than data columns) is the conversion of
exactly the `j`-th token of every record, in record order -/
theorem tmsData_get (names : List Str) (lines : List Str) (rows : List (List Str)) (D : List (String × Val))
    (hrows : wsRows lines = some rows) (h : tmsData names lines = some D)
    (hnd : (names.map fun nm => asString (lower nm)).Nodup) (hlen : names.length ≤ (rows.headD []).length)
    (j : Nat) (hj : j < names.length) :
    dget? D (asString (lower names[j])) = tmsCol names[j] (column j rows) := by
  unfold tmsData at h
  rw [hrows, Option.bind_some] at h
  have hlen' : names.length ≤ (wsColumns rows).length := by rw [length_wsColumns]; exact hlen
  have hkeys : ((names.zip (wsColumns rows)).map fun nc => asString (lower nc.1)) =
      names.map fun nm => asString (lower nm) := by
    have := List.map_fst_zip (l₁ := names) (l₂ := wsColumns rows) hlen'
    conv => rhs; rw [← this]
    rw [List.map_map]
    rfl
  obtain ⟨h1, _⟩ := foldlM_dset_get (fun nc : Str × List Str => asString (lower nc.1)) (fun nc => tmsCol nc.1 nc.2)
    (names.zip (wsColumns rows)) [] D (by rw [hkeys]; exact hnd) h
  have hjc : j < (wsColumns rows).length := by omega
  have hmem : (names[j], (wsColumns rows)[j]) ∈ names.zip (wsColumns rows) := by
    rw [List.mem_iff_getElem]
    exact ⟨j, by simp [List.length_zip]; omega, by simp⟩
  have := h1 _ hmem
  simp only at this
  rw [this, getElem_wsColumns rows j (by omega)]

/-- a text column keeps its tokens; a float column holds the value of each decimal token -/
theorem tmsCol_text (name : Str) (col : List Str) (hn : dtypeStr.contains name = true)
    (hc : ∀ t ∈ col, parseFloat t = Option.none) : tmsCol name col = some (.col (col.map Cell.str)) := by
  have : (col.all fun t => (parseFloat t).isNone) = true := by
    rw [List.all_eq_true]; intro t ht; simp [hc t ht]
  unfold tmsCol
  rw [if_pos hn, if_pos this]

theorem tmsCol_float (name : Str) (col : List Str) (qs : List Rat) (hn : dtypeStr.contains name = false)
    (hc : col.map parseFloat = qs.map some) : tmsCol name col = some (.col (qs.map fun q => Cell.flt (some q))) := by
  have hm : col.mapM parseFloat = some qs := by
    induction col generalizing qs with
    | nil => cases qs <;> simp_all
    | cons t col ih =>
      cases qs with
      | nil => simp at hc
      | cons q qs =>
        simp only [List.map_cons, List.cons.injEq] at hc
        simp [List.mapM_cons, hc.1, ih qs hc.2]
  unfold tmsCol
  rw [if_neg (by rw [hn]; decide), hm]
  rfl

/-- **the whole TIMESERIES/DATA round trip**: `n > 0` tokens per record, any blanks between them -/
theorem tms_data_roundtrip (names : List Str) (recs : List (List (Str × Str) × Str)) (n : Nat) (hn : 0 < n)
    (hok : ∀ r ∈ recs, PadsOk r.1 = true ∧ isBlank r.2 = true ∧ r.1.length = n) (hne : recs ≠ [])
    (hnd : (names.map fun nm => asString (lower nm)).Nodup) (hlen : names.length ≤ n)
    (D : List (String × Val)) (h : tmsData names (recs.map wsLine) = some D) (j : Nat) (hj : j < names.length) :
    dget? D (asString (lower names[j])) = tmsCol names[j] (recs.map fun r => (wsTokens r).getD j []) := by
  have hrows := wsRows_roundtrip recs n hn hok
  have hhead : ((recs.map wsTokens).headD []).length = n := by
    cases recs with
    | nil => exact absurd rfl hne
    | cons r rest => simp [wsTokens, (hok r (by simp)).2.2]
  rw [tmsData_get names _ _ D hrows h hnd (by rw [hhead]; exact hlen) j hj]
  simp [column, List.map_map, Function.comp_def]

/-- the site blocks of sinex_tms keep every record, in order, after the ones already stored — each
record with its own `site_code` field, so records of several stations stay with their station -/
theorem tms_site_rows (D : List (String × Val)) (e : String) (rows : List Row) :
    ∃ old, dget? (appendRows D e rows) e = some (.list (old ++ rows.map rowVal)) := by
  unfold appendRows
  exact ⟨_, dget_dset_self _ _ _⟩


/-! ### fixed-width blocks of sinex_tms: the last field ends where the longest line ends -/

theorem slice_to_end (n : String) (s t t' : Nat) (line : Str) (h : line.length ≤ t) (h' : line.length ≤ t') :
    FixedCol.slice ⟨n, s, t⟩ line = FixedCol.slice ⟨n, s, t'⟩ line := by
  simp [FixedCol.slice, sliceRaw, Text.slice, List.take_of_length_le h, List.take_of_length_le h']

/-- the end column of the last field does not matter once it is beyond the end of the line -/
theorem ofStarts_slice_total (line : Str) (t t' : Nat) (h : line.length ≤ t) (h' : line.length ≤ t') :
    ∀ (starts : List Nat) (names : List String),
      (ofStarts names starts t).map (fun f => FixedCol.slice f line) =
      (ofStarts names starts t').map (fun f => FixedCol.slice f line) := by
  intro starts
  induction starts with
  | nil => intro names; cases names <;> simp [ofStarts]
  | cons s rest ih =>
    intro names
    cases names with
    | nil => simp [ofStarts]
    | cons n ns =>
      cases rest with
      | nil => simp only [ofStarts, List.map_cons, List.map_nil]; rw [slice_to_end n s t t' line h h']
      | cons u rest' =>
        simp only [ofStarts, List.map_cons]
        rw [ih ns]

theorem cutLine_total (fs : List FieldDef) (t t' : Nat) (line : Str) (h : line.length ≤ t) (h' : line.length ≤ t') :
    cutLine fs t line = cutLine fs t' line := by
  unfold cutLine layoutOf dropComment
  exact ofStarts_slice_total line t t' h h' _ _

theorem layoutOf_last_stop (total : Nat) : ∀ (fs : List FieldDef), fs ≠ [] →
    ((layoutOf fs total).getLast?.map (·.stop)) = some total := by
  intro fs
  induction fs with
  | nil => intro h; exact absurd rfl h
  | cons f rest ih =>
    intro _
    cases rest with
    | nil => simp [layoutOf, ofStarts]
    | cons g rest' =>
      have hcons : layoutOf (f :: g :: rest') total = ⟨f.name, f.start, g.start⟩ :: layoutOf (g :: rest') total := by
        simp [layoutOf, ofStarts]
      have hne : layoutOf (g :: rest') total ≠ [] := by
        cases rest' <;> simp [layoutOf, ofStarts]
      rw [hcons]
      cases hL : layoutOf (g :: rest') total with
      | nil => exact absurd hL hne
      | cons x L =>
        rw [List.getLast?_cons_cons, ← hL]
        exact ih (by simp)

/-- a rendered record is exactly `total` characters long -/
theorem length_render (fs : List FieldDef) (total : Nat) (cells : List (Align × Str)) (hne : fs ≠ [])
    (hs : Sorted (layoutOf fs total) = true) (hf : Fits (layoutOf fs total) cells = true) :
    (renderA (layoutOf fs total) cells).length = total := by
  have := length_renderFrom (layoutOf fs total) 0 cells hs hf
  rw [layoutOf_last_stop total fs hne] at this
  simpa [renderA] using this

theorem le_maxChar (lines : List Str) : ∀ l ∈ lines, l.length + 1 ≤ maxChar lines := by
  unfold maxChar
  suffices H : ∀ (ls : List Str) (m : Nat), m ≤ ls.foldl (fun m l => max m (l.length + 1)) m ∧
      ∀ l ∈ ls, l.length + 1 ≤ ls.foldl (fun m l => max m (l.length + 1)) m from fun l hl => (H lines 0).2 l hl
  intro ls
  induction ls with
  | nil => intro m; exact ⟨Nat.le_refl _, fun l hl => by simp at hl⟩
  | cons a rest ih =>
    intro m
    simp only [List.foldl_cons]
    obtain ⟨h1, h2⟩ := ih (max m (a.length + 1))
    constructor
    · omega
    · intro l hl
      rcases List.mem_cons.mp hl with rfl | hin
      · omega
      · exact h2 l hin

theorem length_rstrip_le (l : Str) : (rstrip l).length ≤ l.length := by
  obtain ⟨ws, h, _⟩ := rstrip_decomp l
  have := congrArg List.length h
  simp only [List.length_append] at this
  omega

/-- how a writer leaves a record in the file: as rendered, or without its trailing blanks -/
def emit (stripped : Bool) (l : Str) : Str := if stripped then rstrip l else l

/-- **fixed-width blocks of sinex_tms**: records rendered into the columns of a table whose last field
ends at column `W`, written with or without their trailing blanks (so that the lines have different
lengths), are read back by `SinexTmsParser.parse_lines` — which ends the last field at the length of the
longest line — record by record with the written texts converted -/
theorem tms_block_roundtrip (fs : List FieldDef) (W : Nat) (hne : fs ≠ [])
    (hs : Sorted (layoutOf fs W) = true) (recs : List (Bool × List (Align × Str)))
    (hf : ∀ r ∈ recs, Fits (layoutOf fs W) r.2 = true)
    (hvis : ∀ r ∈ recs, emit r.1 (renderA (layoutOf fs W) r.2) ≠ []) :
    let lines := recs.map fun r => emit r.1 (renderA (layoutOf fs W) r.2)
    parseLines fs (maxChar lines) lines = recs.map fun r => convertRow fs r.2 := by
  intro lines
  unfold parseLines
  have hfilter : lines.filter (fun l => !(dropComment l).isEmpty) = lines := by
    apply List.filter_eq_self.mpr
    intro l hmem
    simp only [lines, List.mem_map] at hmem
    obtain ⟨r, hr, rfl⟩ := hmem
    have := hvis r hr
    cases hl : emit r.1 (renderA (layoutOf fs W) r.2) with
    | nil => exact absurd hl this
    | cons _ _ => simp [dropComment]
  rw [hfilter]
  simp only [lines, List.map_map]
  apply List.map_congr_left
  intro r hr
  have hmem : emit r.1 (renderA (layoutOf fs W) r.2) ∈ lines := List.mem_map_of_mem (f := fun r => emit r.1 (renderA (layoutOf fs W) r.2)) hr
  have hmax := le_maxChar lines _ hmem
  have hlenW : (emit r.1 (renderA (layoutOf fs W) r.2)).length ≤ W := by
    have hl := length_render fs W r.2 hne hs (hf r hr)
    unfold emit
    by_cases hb : r.1 = true
    · simp only [hb, if_true]
      have := length_rstrip_le (renderA (layoutOf fs W) r.2)
      omega
    · simp only [hb, if_false, Bool.false_eq_true]
      omega
  simp only [Function.comp, parseLine, convertRow]
  rw [cutLine_total fs (maxChar lines) W _ (by omega) hlenW]
  have hcut := block_roundtrip fs W r.2 hs (hf r hr)
  unfold emit
  by_cases hb : r.1 = true
  · simp only [hb, if_true]; rw [hcut.2]
  · simp only [hb, if_false, Bool.false_eq_true]; rw [hcut.1]

/-- non-vacuity: three tokens after one, three and two blanks, trailing blanks -/
example : wsRows [wsLine ([(" ".toList, "2023-05-22".toList), ("   ".toList, "4331296.8156".toList),
      ("  ".toList, "0.0008".toList)], "  ".toList),
    wsLine ([("  ".toList, "2023-05-23".toList), (" ".toList, "4331296.8147".toList), (" ".toList, "-1e-3".toList)], [])] =
    some [["2023-05-22".toList, "4331296.8156".toList, "0.0008".toList],
      ["2023-05-23".toList, "4331296.8147".toList, "-1e-3".toList]] := by decide +kernel

example : PadsOk [(" ".toList, "2023-05-22".toList), ("   ".toList, "4331296.8156".toList)] = true ∧
    tmsCol "X".toList ["4331296.8156".toList, "12".toList] = some (.col [.flt (some 4331296.8156), .flt (some 12)]) := by
  constructor
  · decide +kernel
  · exact tmsCol_float _ _ [4331296.8156, 12] (by decide +kernel) (by decide +kernel)

/-! ## 10. Matrix blocks and per-site blocks at file level -/

/-- the run a matrix line writes -/
def runOf (l : MatLine) : Run := (l.row.toNat, l.col.toNat, l.vals.filterMap id)

/-- **matrix block, lower form, as the parser builds it**: with the size `n` known (from the size block or
guessed), lines inside the matrix give the full symmetric matrix holding the listed values at
`(row, col + k)` and mirrored, zeros elsewhere -/
theorem matrixOf_lower (sizeRows : Option Nat) (lines : List MatLine) (hpos : ∀ l ∈ lines, 0 ≤ l.row ∧ 0 ≤ l.col)
    (hok : ∀ l ∈ lines, (runOf l).ok (matrixSize sizeRows lines)) :
    ∃ R, matrixOf .lower sizeRows lines = some R ∧
      ∀ i j, i < matrixSize sizeRows lines → j < matrixSize sizeRows lines → j ≤ i →
        R.get i j = (lastCover (lines.map runOf) i j).getD 0 ∧ R.get j i = (lastCover (lines.map runOf) i j).getD 0 := by
  unfold matrixOf
  simp only
  rw [fillMatrix_eq _ lines hpos]
  exact matrix_full_lower _ (lines.map runOf) (by
    intro l hl
    simp only [List.mem_map] at hl
    obtain ⟨l', hl', rfl⟩ := hl
    exact hok l' hl')

theorem matrixOf_upper (sizeRows : Option Nat) (lines : List MatLine) (hpos : ∀ l ∈ lines, 0 ≤ l.row ∧ 0 ≤ l.col)
    (hok : ∀ l ∈ lines, (runOf l).ok (matrixSize sizeRows lines)) :
    ∃ R, matrixOf .upper sizeRows lines = some R ∧
      ∀ i j, i < matrixSize sizeRows lines → j < matrixSize sizeRows lines → i ≤ j →
        R.get i j = (lastCover (lines.map runOf) i j).getD 0 ∧ R.get j i = (lastCover (lines.map runOf) i j).getD 0 := by
  unfold matrixOf
  simp only
  rw [fillMatrix_eq _ lines hpos]
  exact matrix_full_upper _ (lines.map runOf) (by
    intro l hl
    simp only [List.mem_map] at hl
    obtain ⟨l', hl', rfl⟩ := hl
    exact hok l' hl')

/-- the field table all three matrix blocks share -/
def matrixFields : List FieldDef :=
  [⟨"row_idx", 1, .i8, .none⟩, ⟨"column_idx", 7, .i8, .none⟩, ⟨"value_0", 13, .f8, .none⟩, ⟨"value_1", 35, .f8, .none⟩,
   ⟨"value_2", 57, .f8, .none⟩]

theorem matrix_tables : (baseBlocks.all fun b => match b.kind with
    | .matrix _ => decide (b.fields = matrixFields)
    | _ => true) = true := by decide +kernel

/-- a written matrix record is read as the line (row, column, up to three values) of its texts: integers by
`int`, reals by `float`, an empty value field as "no value" -/
theorem matLineOf_record (a0 a1 a2 a3 a4 : Align) (r c v0 v1 v2 : Str) :
    matLineOf (convertRow matrixFields [(a0, r), (a1, c), (a2, v0), (a3, v1), (a4, v2)]) =
      ⟨(parseInt? r).getD (-1), (parseInt? c).getD (-1), [parseFloat v0, parseFloat v1, parseFloat v2]⟩ := by
  have h0 : validName "row_idx" = "row_idx" := by decide +kernel
  have h1 : validName "column_idx" = "column_idx" := by decide +kernel
  have h2 : validName "value_0" = "value_0" := by decide +kernel
  have h3 : validName "value_1" = "value_1" := by decide +kernel
  have h4 : validName "value_2" = "value_2" := by decide +kernel
  simp [matLineOf, convertRow, matrixFields, lookup, convertCell, toInt, cellInt, cellFlt, h0, h1, h2, h3, h4]

/-- the parser only returns when every declared block that is in the file could be parsed -/
theorem foldlM_baseStep_some (blocks0 : List BlockDef) (look : String → Option RawBlock) :
    ∀ (bs : List BlockDef) (acc D : List (String × Val)), bs.foldlM (baseStep blocks0 look) acc = some D →
      ∀ b ∈ bs, ∀ r, look b.marker = some r → ∃ v, blockVal blocks0 look b r = some v := by
  intro bs
  induction bs with
  | nil => intro _ _ _ b hb; simp at hb
  | cons a rest ih =>
    intro acc D h b hb r hr
    simp only [List.foldlM_cons, Option.bind_eq_bind] at h
    cases hstep : baseStep blocks0 look acc a with
    | none => simp [hstep] at h
    | some acc' =>
      rw [hstep, Option.bind_some] at h
      rcases List.mem_cons.mp hb with rfl | hin
      · unfold baseStep at hstep
        simp only [hr] at hstep
        cases hv : blockVal blocks0 look b r with
        | none => simp [hv] at hstep
        | some v => exact ⟨v, rfl⟩
      · exact ih acc' D h b hin r hr

/-- **file_roundtrip (matrix blocks)**: for a declared matrix block — the first of its marker in the file, titled
`+MARKER L|U [type]`, made of records and comment lines — `data[MARKER]` is `{"matrix": M, "type": type}` where
`M` is what `matrixOf` (to which `matrix_symm`, `matrixOf_lower/upper` apply) makes of the written records,
with the size taken from the size block as `parse_blocks` delivered it -/
theorem base_file_matrix (header : List FieldDef) (blocks : List BlockDef) (b : BlockDef) (sz : String)
    (hb : b ∈ blocks) (hkind : b.kind = .matrix sz) (hnd : (blocks.map (·.marker)).Nodup)
    (hs : Sorted (layoutOf b.fields 81) = true) (hl : leadOk (layoutOf b.fields 81) = true)
    (hd : Str) (pre post : List Seg) (h mk : Str) (lu : Str) (typ : List Str) (htyp : typ.length ≤ 1) (f : Str)
    (items : List Item)
    (hmk : asString mk = b.marker) (hfirst : b.marker ∉ (blocksOf pre).map (·.marker))
    (hitems : ∀ i ∈ items, i.wf b.fields 81)
    (hwf : SnxFile.wf ⟨hd, pre ++ Seg.block h mk (lu :: typ) (content b.fields 81 items) f :: post⟩)
    (R : Result)
    (hR : parseBaseFile header blocks
      (SnxFile.text ⟨hd, pre ++ Seg.block h mk (lu :: typ) (content b.fields 81 items) f :: post⟩) = some R) :
    ∃ D M, R.data = .dict D ∧
      dget? D b.marker = some (.dict [("matrix", .mat M), ("type", .cell (.str (typ.headD [])))]) ∧
      ∃ size, matrixOf (triOf lu) size (((records items).map (convertRow b.fields)).map matLineOf) = some M := by
  unfold parseBaseFile parseWith at hR
  rw [readRaw_file _ _ _ _ _ hwf] at hR
  simp only [Option.bind_some] at hR
  cases hD : assembleBase blocks (rawOf (expected (blocks.map (·.marker))
      (pre ++ Seg.block h mk (lu :: typ) (content b.fields 81 items) f :: post))) with
  | none => simp [hD] at hR
  | some D =>
    simp only [hD, Option.map_some, Option.some.injEq] at hR
    subst hR
    have hget := (assembleBase_get blocks _ D hnd hD).1 b hb
    obtain ⟨r, hr, hps, hrows⟩ := file_block_rows b (blocks.map (·.marker)) (List.mem_map_of_mem hb) 81 hs hl
      pre post h mk (lu :: typ) f items hmk hfirst hitems
    rw [hr] at hget
    simp only [Option.bind_some, blockVal, hkind] at hget
    -- the matrix parser: one or two title parameters
    have hmv : ∃ size, matrixVal b sz blocks (rawOf (expected (blocks.map (·.marker))
        (pre ++ Seg.block h mk (lu :: typ) (content b.fields 81 items) f :: post))) r =
        (matrixOf (triOf lu) size (((records items).map (convertRow b.fields)).map matLineOf)).map fun M =>
          .dict [("matrix", .mat M), ("type", .cell (.str (typ.headD [])))] := by
      unfold matrixVal
      rw [hps]
      cases typ with
      | nil => exact ⟨_, by simp only [rowsOf, hrows]; rfl⟩
      | cons t rest =>
        cases rest with
        | nil => exact ⟨_, by simp only [rowsOf, hrows]; rfl⟩
        | cons _ _ => simp at htyp
    obtain ⟨size, hmv⟩ := hmv
    rw [hmv] at hget
    cases hM : matrixOf (triOf lu) size (((records items).map (convertRow b.fields)).map matLineOf) with
    | none =>
      -- then the whole parser would have raised
      exfalso
      obtain ⟨v, hv⟩ := foldlM_baseStep_some blocks _ blocks [] D hD b hb r hr
      simp only [blockVal, hkind] at hv
      rw [hmv, hM] at hv
      simp at hv
    | some M =>
      rw [hM] at hget
      exact ⟨D, M, rfl, hget, size, hM⟩


/-- **file_roundtrip (discontinuities / events)**: the parser declaring the single per-site block `b` reads a
file holding that block (first of its marker, anywhere in the body): the result is the site table built
from exactly the written records — every record (without its `site_code`) under the site its `site_code`
names, and over all sites the stored rows are a permutation of the written ones: none lost, none duplicated -/
theorem disc_file_roundtrip (header : List FieldDef) (b : BlockDef) (q : String) (hkind : b.kind = .custom q)
    (hs : Sorted (layoutOf b.fields 81) = true) (hl : leadOk (layoutOf b.fields 81) = true)
    (hd : Str) (pre post : List Seg) (h mk : Str) (ps : List Str) (f : Str) (items : List Item)
    (hmk : asString mk = b.marker) (hfirst : b.marker ∉ (blocksOf pre).map (·.marker))
    (hitems : ∀ i ∈ items, i.wf b.fields 81)
    (hwf : SnxFile.wf ⟨hd, pre ++ Seg.block h mk ps (content b.fields 81 items) f :: post⟩) :
    ∃ T : SiteTable,
      parseDiscFile header [b] (SnxFile.text ⟨hd, pre ++ Seg.block h mk ps (content b.fields 81 items) f :: post⟩) =
        some ⟨headerRow snxTag header (fun _ => 81) hd, siteTableVal T⟩ ∧
      T = regroup false (entryName q) siteKey dropSiteCode [] ((records items).map (convertRow b.fields)) ∧
      (allRows (entryName q) T).Perm (((records items).map (convertRow b.fields)).map dropSiteCode) := by
  refine ⟨_, ?_, rfl, ?_⟩
  · unfold parseDiscFile parseWith
    rw [readRaw_file _ _ _ _ _ hwf]
    obtain ⟨r, hr, _, hrows⟩ := file_block_rows b ([b].map (·.marker)) (by simp) 81 hs hl
      pre post h mk ps f items hmk hfirst hitems
    simp only [Option.bind_some, assembleDisc, List.foldlM_cons, List.foldlM_nil, discStep, hr, hkind, rowsOf, hrows,
      Option.pure_def, Option.bind_eq_bind, Option.map_some]
  · have := site_regroup (entryName q) siteKey dropSiteCode ((records items).map (convertRow b.fields)) []
    simpa [allRows] using this

/-! ## 11. Epochs of SINEX-TMS (`YYYY:DDD:SSSSS`) -/

/-- YYYY:DDD:SSSSS as printed by a conforming writer -/
def epoch4Text (y ddd s : Nat) : Str :=
  fixedDigits 4 y ++ ':' :: fixedDigits 3 ddd ++ ':' :: fixedDigits 5 s

/-- **four-digit-year epoch**: a well-formed `YYYY:DDD:SSSSS` (year 1…9999) is day `DDD` of that year plus
`SSSSS` seconds (seconds beyond a day roll over into the next days, as `timedelta` does) -/
theorem epoch4_value (y ddd s : Nat) (hy1 : 1 ≤ y) (hy : y < 10000) (hd1 : 1 ≤ ddd) (hd2 : ddd ≤ 366) (hs : s < 100000) :
    convertYyyy? (epoch4Text y ddd s) = some (addSeconds (jan1 y + ddd - 1) s) := by
  have hshape : epoch4Text y ddd s =
      [digitChar (y / 10 / 10 / 10), digitChar (y / 10 / 10), digitChar (y / 10), digitChar y, ':',
       digitChar (ddd / 10 / 10), digitChar (ddd / 10), digitChar ddd, ':',
       digitChar (s / 10 / 10 / 10 / 10), digitChar (s / 10 / 10 / 10), digitChar (s / 10 / 10),
       digitChar (s / 10), digitChar s] := rfl
  have htake8 : (epoch4Text y ddd s).take 8 = fixedDigits 4 y ++ ':' :: fixedDigits 3 ddd := by rw [hshape]; rfl
  have hdrop9 : (epoch4Text y ddd s).drop 9 = fixedDigits 5 s := by rw [hshape]; rfl
  have hne : epoch4Text y ddd s ≠ "0000:000:00000".toList := by
    intro he
    -- the year digits would all be zero
    have h4 : (epoch4Text y ddd s).take 4 = fixedDigits 4 y := by rw [hshape]; rfl
    rw [he] at h4
    have hv := digitsVal_fixedDigits 4 y
    rw [← h4] at hv
    have h0 : digitsVal (("0000:000:00000".toList).take 4) = 0 := by decide
    rw [h0] at hv
    omega
  have hss : parseInt? (fixedDigits 5 s) = some ((s : Nat) : Int) := by
    rw [parseInt_fixedDigits (by decide)]; congr 2; omega
  have hstr : strptimeYj? (fixedDigits 4 y ++ ':' :: fixedDigits 3 ddd) = some (jan1 y + ddd - 1) := by
    unfold strptimeYj?
    have h4 : (fixedDigits 4 y ++ ':' :: fixedDigits 3 ddd).take 4 = fixedDigits 4 y := by
      rw [List.take_append_of_le_length (by rw [length_fixedDigits]; exact Nat.le_refl _), List.take_of_length_le (by rw [length_fixedDigits]; exact Nat.le_refl _)]
    have hd4 : (fixedDigits 4 y ++ ':' :: fixedDigits 3 ddd).drop 4 = ':' :: fixedDigits 3 ddd := by
      rw [List.drop_append_of_le_length (by rw [length_fixedDigits]; exact Nat.le_refl _), List.drop_of_length_le (by rw [length_fixedDigits]; exact Nat.le_refl _)]
      rfl
    have hval : digitsVal (fixedDigits 4 y) = y := by rw [digitsVal_fixedDigits]; omega
    rw [h4, hd4]
    simp only [length_fixedDigits, allDigits_fixedDigits, parseDoy_fixed ddd hd1 hd2, hval]
    have h1 : ¬ ((y : Int) < 1) := by omega
    simp [h1]
  unfold convertYyyy?
  simp only [hne, if_false, htake8, hstr, hdrop9, hss]

/-- **open end**: `0000:000:00000` ("now") is read as the code's far-future stand-in 9999:364:99999,
i.e. 9999-12-31T03:46:39 -/
theorem epoch4_open : convertCell ⟨"t", 0, .obj, .yyyydddsssss⟩ "0000:000:00000".toList =
    .dt (jan1 9999 + 364) 13599 := by
  decide +kernel

example : convertYyyy? "2023:142:42765".toList = some (.dt (jan1 2023 + 141) 42765) := by decide +kernel

/-! ## 12. sinex_site: every block's rows are kept, whatever else is in the file -/

/-- storing a row under another entry does not touch the rows of entry `e` -/
theorem allRows_addRow_other (single : Bool) (e e' : String) (hne : e' ≠ e) (T : SiteTable) (key : String) (r : Row) :
    allRows e (addRow single e' T key r) = allRows e T := by
  unfold addRow
  induction T with
  | nil =>
    simp only [dget?, Option.getD_none, dset, allRows, List.flatMap_cons, List.flatMap_nil, List.append_nil]
    simp [dget?, hne]
  | cons p rest ih =>
    obtain ⟨k', s'⟩ := p
    by_cases h : k' = key
    · subst h
      simp only [dget?, if_true, Option.getD_some, dset, allRows, List.flatMap_cons]
      rw [dget_dset_ne _ _ _ _ hne]
    · simp only [dget?, h, if_false, dset, allRows, List.flatMap_cons]
      simp only [allRows] at ih
      rw [ih]

theorem allRows_regroup_other (single : Bool) (e e' : String) (hne : e' ≠ e) (keyOf : Row → String) (f : Row → Row)
    (rows : List Row) : ∀ T : SiteTable, allRows e (regroup single e' keyOf f T rows) = allRows e T := by
  induction rows with
  | nil => intro T; rfl
  | cons r rows ih =>
    intro T
    simp only [regroup, List.foldl_cons] at ih ⊢
    rw [ih, allRows_addRow_other single e e' hne]

/-- the rows the block `b` contributes to entry `e` of the site table -/
def contrib (e : String) (look : String → Option RawBlock) (b : BlockDef) : List Row :=
  match look b.marker, b.kind with
  | some r, .custom q =>
    if entryName q = e then
      (if e = "site_antenna" then ((rowsOf b 81 r).mapM antennaRow).getD [] else rowsOf b 81 r)
    else []
  | _, _ => []

/-- **sinex_site keeps every row of every block**: after all declared blocks are applied, the rows found
under entry `e` (any entry but `site_id`, which holds one record per site) over all sites are a
permutation of the rows that were there plus the rows of the blocks of that entry (antenna rows with the
radome type split off) — whatever other blocks are declared or present -/
theorem site_fold_rows (look : String → Option RawBlock) (e : String) (he1 : e ≠ "site_id") (he2 : e ≠ "file_comment") :
    ∀ (bs : List BlockDef) (st st' : SiteTable × Option Str), bs.foldlM (siteStep look) st = some st' →
      (allRows e st'.1).Perm (allRows e st.1 ++ bs.flatMap (contrib e look)) := by
  intro bs
  induction bs with
  | nil =>
    intro st st' h
    simp only [List.foldlM_nil, Option.pure_def, Option.some.injEq] at h
    subst h; simp
  | cons b rest ih =>
    intro st st' h
    simp only [List.foldlM_cons, Option.bind_eq_bind] at h
    cases hstep : siteStep look st b with
    | none => simp [hstep] at h
    | some st1 =>
      rw [hstep, Option.bind_some] at h
      have hrest := ih st1 st' h
      suffices hs : (allRows e st1.1).Perm (allRows e st.1 ++ contrib e look b) by
        simp only [List.flatMap_cons]
        refine hrest.trans ?_
        rw [← List.append_assoc]
        exact List.Perm.append_right _ hs
      unfold siteStep at hstep
      unfold contrib
      cases hlook : look b.marker with
      | none =>
        simp only [hlook, Option.some.injEq] at hstep
        subst hstep; simp
      | some r =>
        cases hk : b.kind with
        | dflt => simp [hlook, hk] at hstep
        | matrix _ => simp [hlook, hk] at hstep
        | custom q =>
          simp only [hlook, hk] at hstep ⊢
          by_cases hq : entryName q = e
          · -- the block of entry `e`
            have h1 : ¬ entryName q = "file_comment" := by rw [hq]; exact he2
            have h2 : ¬ entryName q = "site_id" := by rw [hq]; exact he1
            simp only [h1, h2, if_false] at hstep
            by_cases ha : entryName q = "site_antenna"
            · have hea : e = "site_antenna" := by rw [← hq]; exact ha
              simp only [ha, if_true] at hstep
              cases hm : (rowsOf b 81 r).mapM antennaRow with
              | none => simp [hm] at hstep
              | some rows' =>
                simp only [hm, Option.map_some, Option.some.injEq] at hstep
                subst hstep
                simp only [hq, if_true, hea, Option.getD_some]
                have := site_regroup "site_antenna" siteKey id rows' st.1
                simpa using this
            · have hea : ¬ e = "site_antenna" := by rw [← hq]; exact ha
              simp only [ha, if_false, Option.some.injEq] at hstep
              subst hstep
              simp only [hq, if_true, hea, if_false]
              have := site_regroup e siteKey id (rowsOf b 81 r) st.1
              simpa using this
          · -- a block of another entry
            simp only [hq, if_false, List.append_nil]
            by_cases h1 : entryName q = "file_comment"
            · simp only [h1, if_true] at hstep
              cases hf : refFrame (rowsOf b 81 r) with
              | none => simp [hf] at hstep
              | some fr =>
                simp only [hf, Option.map_some, Option.some.injEq] at hstep
                subst hstep; simp
            · simp only [h1, if_false] at hstep
              by_cases h2 : entryName q = "site_id"
              · simp only [h2, if_true, Option.some.injEq] at hstep
                subst hstep
                rw [allRows_regroup_other true e "site_id" (Ne.symm he1)]
              · simp only [h2, if_false] at hstep
                by_cases ha : entryName q = "site_antenna"
                · simp only [ha, if_true] at hstep
                  cases hm : (rowsOf b 81 r).mapM antennaRow with
                  | none => simp [hm] at hstep
                  | some rows' =>
                    simp only [hm, Option.map_some, Option.some.injEq] at hstep
                    subst hstep
                    rw [allRows_regroup_other false e "site_antenna" (by rw [← ha]; exact hq)]
                · simp only [ha, if_false, Option.some.injEq] at hstep
                  subst hstep
                  rw [allRows_regroup_other false e (entryName q) hq]

/-- the reference-frame step leaves every row where it is, adding `ref_frame` to solution_estimate rows only -/
theorem allRows_addRefFrame (e : String) (he : e ≠ "solution_estimate") (frame : Option Str) (T : SiteTable) :
    allRows e (addRefFrame frame T) = allRows e T := by
  cases frame with
  | none => rfl
  | some fr =>
    simp only [addRefFrame, allRows]
    induction T with
    | nil => rfl
    | cons p rest ih =>
      obtain ⟨site, entries⟩ := p
      simp only [List.map_cons, List.flatMap_cons, ih]
      congr 1
      by_cases h4 : site.length = 4
      · simp only [h4, if_true]
        congr 1
        induction entries with
        | nil => rfl
        | cons q es ihe =>
          obtain ⟨e', rows⟩ := q
          by_cases h : e' = "solution_estimate"
          · subst h
            have : ¬ "solution_estimate" = e := fun x => he x.symm
            simp only [List.map_cons, if_true, dget?, this, if_false]
            exact ihe
          · by_cases h2 : e' = e
            · subst h2
              simp [dget?, he]
            · simp only [List.map_cons, h, if_false, dget?, h2]
              exact ihe
      · simp [h4]


/-- **site_rows_kept**: in the table `sinex_site` returns (`assembleSite` = `siteTableVal` of it), the rows
under an entry other than `site_id` — receiver, antenna, eccentricity, solution epochs … — over all sites are
a permutation of the rows of the blocks of that entry: none lost, none duplicated, whatever the order
of the blocks in the file and whatever other blocks it holds (solution_estimate: the same before the
reference frame is added to its rows, `site_fold_rows`) -/
theorem site_rows_kept (blocks : List BlockDef) (look : String → Option RawBlock) (e : String)
    (he1 : e ≠ "site_id") (he2 : e ≠ "file_comment") (he3 : e ≠ "solution_estimate") (st : SiteTable × Option Str)
    (h : blocks.foldlM (siteStep look) ([], Option.none) = some st) :
    (allRows e (addRefFrame st.2 st.1)).Perm (blocks.flatMap (contrib e look)) := by
  rw [allRows_addRefFrame e he3]
  have := site_fold_rows look e he1 he2 blocks ([], Option.none) st h
  simpa [allRows] using this

/-! ## 13. sinex_tms at file level: the site blocks -/

/-- the entry names under which the list-type site blocks of sinex_tms are stored -/
def tmsListEntry (e : String) : Prop := e = "site_id" ∨ e = "site_receiver" ∨ e = "site_eccentricity"

/-- a block whose parser stores nothing under `e` -/
def OtherEntry (e : String) (b : BlockDef) : Prop := ∀ q, b.kind = .custom q → entryName q ≠ e

theorem tmsStep_other (look : String → Option RawBlock) (e : String) (he : tmsListEntry e) (D D' : List (String × Val))
    (b : BlockDef) (hb : OtherEntry e b) (h : tmsStep look D b = some D') : dget? D' e = dget? D e := by
  have hrc : "ref_coordinate" ≠ e := by
    rcases he with rfl | rfl | rfl <;> decide
  unfold tmsStep at h
  cases hlook : look b.marker with
  | none => simp only [hlook, Option.some.injEq] at h; subst h; rfl
  | some r =>
    cases hk : b.kind with
    | dflt => simp [hlook, hk] at h
    | matrix _ => simp [hlook, hk] at h
    | custom q =>
      have hq : entryName q ≠ e := hb q hk
      simp only [hlook, hk] at h
      by_cases h1 : entryName q = "timeseries_data"
      · simp only [h1, if_true] at h
        cases hn : tmsNames D with
        | none => simp [hn] at h
        | some names =>
          cases hd : tmsData names r.lines with
          | none => simp [hn, hd] at h
          | some d =>
            simp only [hn, hd, Option.bind_some, Option.map_some, Option.some.injEq] at h
            subst h
            exact dget_dset_ne _ _ _ _ (by rw [← h1]; exact hq)
      · simp only [h1, if_false] at h
        by_cases h2 : entryName q = "file_reference"
        · simp only [h2, if_true] at h
          cases hf : fileRefTms (rowsOfTms b r) with
          | none => simp [hf] at h
          | some d =>
            simp only [hf, Option.map_some, Option.some.injEq] at h
            subst h
            exact dget_dset_ne _ _ _ _ (by rw [← h2]; exact hq)
        · simp only [h2, if_false] at h
          by_cases h3 : entryName q = "site_antenna"
          · simp only [h3, if_true] at h
            cases hm : (rowsOfTms b r).mapM antennaRowTms with
            | none => simp [hm] at h
            | some rows' =>
              simp only [hm, Option.map_some, Option.some.injEq] at h
              subst h
              exact dget_dset_ne _ _ _ _ (by rw [← h3]; exact hq)
          · simp only [h3, if_false] at h
            by_cases h4 : entryName q = "site_id" ∨ entryName q = "site_receiver" ∨ entryName q = "site_eccentricity"
            · simp only [h4, if_true, Option.some.injEq] at h
              subst h
              exact dget_dset_ne _ _ _ _ hq
            · simp only [h4, if_false] at h
              by_cases h5 : entryName q = "timeseries_ref_coordinate"
              · simp only [h5, if_true] at h
                cases hrows : rowsOfTms b r with
                | nil => simp [hrows] at h
                | cons row rest =>
                  cases rest with
                  | nil =>
                    simp only [hrows, Option.some.injEq] at h
                    subst h
                    exact dget_dset_ne _ _ _ _ hrc
                  | cons _ _ => simp [hrows] at h
              · simp only [h5, if_false] at h
                by_cases h6 : entryName q = "timeseries_columns"
                · simp only [h6, if_true, Option.some.injEq] at h
                  subst h
                  exact dget_dset_ne _ _ _ _ (by rw [← h6]; exact hq)
                · simp [h6] at h

theorem tms_fold_other (look : String → Option RawBlock) (e : String) (he : tmsListEntry e) :
    ∀ (bs : List BlockDef) (D D' : List (String × Val)), (∀ b ∈ bs, OtherEntry e b) →
      bs.foldlM (tmsStep look) D = some D' → dget? D' e = dget? D e := by
  intro bs
  induction bs with
  | nil =>
    intro D D' _ h
    simp only [List.foldlM_nil, Option.pure_def, Option.some.injEq] at h
    subst h; rfl
  | cons b rest ih =>
    intro D D' hall h
    simp only [List.foldlM_cons, Option.bind_eq_bind] at h
    cases hstep : tmsStep look D b with
    | none => simp [hstep] at h
    | some D1 =>
      rw [hstep, Option.bind_some] at h
      rw [ih D1 D' (fun b' hb' => hall b' (by simp [hb'])) h]
      exact tmsStep_other look e he D D1 b (hall b (by simp)) hstep

/-- **a site block of sinex_tms**: when `SinexTmsParser` returns, the list stored under `site_id`,
`site_receiver` or `site_eccentricity` holds one dictionary per record of that block, in file order, nothing
else — whichever other blocks are declared before or after it and present in the file -/
theorem tms_site_block (look : String → Option RawBlock) (e : String) (he : tmsListEntry e)
    (pre post : List BlockDef) (b : BlockDef) (q : String) (hk : b.kind = .custom q) (hq : entryName q = e)
    (hpre : ∀ b' ∈ pre, OtherEntry e b') (hpost : ∀ b' ∈ post, OtherEntry e b')
    (r : RawBlock) (hr : look b.marker = some r) (D : List (String × Val))
    (h : assembleTms (pre ++ b :: post) look = some D) :
    dget? D e = some (.list ((rowsOfTms b r).map rowVal)) := by
  unfold assembleTms at h
  rw [List.foldlM_append] at h
  cases h1 : pre.foldlM (tmsStep look) [] with
  | none => simp [h1] at h
  | some D1 =>
    simp only [h1, Option.bind_eq_bind, Option.bind_some, List.foldlM_cons] at h
    cases h2 : tmsStep look D1 b with
    | none => simp [h2] at h
    | some D2 =>
      rw [h2, Option.bind_some] at h
      rw [tms_fold_other look e he post D2 D hpost h]
      have hD1 : dget? D1 e = Option.none := by
        rw [tms_fold_other look e he pre [] D1 hpre h1]; rfl
      have hne1 : ¬ e = "timeseries_data" := by rcases he with rfl | rfl | rfl <;> decide
      have hne2 : ¬ e = "file_reference" := by rcases he with rfl | rfl | rfl <;> decide
      have hne3 : ¬ e = "site_antenna" := by rcases he with rfl | rfl | rfl <;> decide
      unfold tmsStep at h2
      simp only [hr, hk, hq, hne1, hne2, hne3, if_false] at h2
      have he' : e = "site_id" ∨ e = "site_receiver" ∨ e = "site_eccentricity" := he
      simp only [he', if_true, Option.some.injEq] at h2
      subst h2
      unfold appendRows
      rw [dget_dset_self, hD1]
      rfl

/-- the table of sinex_tms satisfies the hypotheses: each of the three entries belongs to one block -/
example : ∃ pre post b, tmsBlocks = pre ++ b :: post ∧ b.kind = .custom "SinexTmsParser.parse_site_receiver" ∧
    entryName "SinexTmsParser.parse_site_receiver" = "site_receiver" ∧
    (∀ b' ∈ pre, OtherEntry "site_receiver" b') ∧ (∀ b' ∈ post, OtherEntry "site_receiver" b') := by
  refine ⟨tmsBlocks.take 2, tmsBlocks.drop 3, tmsBlocks[2], by decide +kernel, by decide +kernel, by decide +kernel, ?_, ?_⟩
  · intro b' hb'
    simp only [tmsBlocks, List.take, List.mem_cons, List.not_mem_nil, or_false] at hb'
    rcases hb' with rfl | rfl <;> (intro q hq; simp only [ParserKind.custom.injEq] at hq; subst hq; decide +kernel)
  · intro b' hb'
    simp only [tmsBlocks, List.drop, List.mem_cons, List.not_mem_nil, or_false] at hb'
    rcases hb' with rfl | rfl | rfl | rfl | rfl <;>
      (intro q hq; simp only [ParserKind.custom.injEq] at hq; subst hq; decide +kernel)


theorem emit_lead (L : Layout) (hl : leadOk L = true) (r : Bool × List (Align × Str)) (hf : Fits L r.2 = true)
    (hvis : emit r.1 (renderA L r.2) ≠ []) : startsWith [' '] (emit r.1 (renderA L r.2)) = true := by
  obtain ⟨r0, hr0⟩ := render_lead L r.2 hl hf
  unfold emit at hvis ⊢
  by_cases hb : r.1 = true
  · simp only [hb, if_true] at hvis ⊢
    obtain ⟨ws, hdec, _⟩ := rstrip_decomp (renderA L r.2)
    cases hrs : rstrip (renderA L r.2) with
    | nil => exact absurd hrs hvis
    | cons c t =>
      rw [hrs, hr0] at hdec
      simp only [List.cons_append, List.cons.injEq] at hdec
      rw [← hdec.1, startsWith_cons]; decide
  · simp only [hb, if_false, Bool.false_eq_true, hr0, startsWith_cons]; decide

/-- **file_roundtrip (site blocks of sinex_tms)**: `SinexTmsParser` (its declared blocks `pre ++ b :: post`, the
block `b` being the only one stored under the list entry `e`) reads a file that holds — anywhere — the block of `b`
(first of its marker) whose records were rendered into the columns of `b`'s table (last field ending at some
column `W`) and written with or without trailing blanks.  Then `data[e]` is the list of one dictionary per
written record, in order, each value the declared conversion of the written text. -/
theorem tms_file_site_block (header : List FieldDef) (preB postB : List BlockDef) (b : BlockDef) (q e : String)
    (he : tmsListEntry e) (hk : b.kind = .custom q) (hq : entryName q = e)
    (hpreB : ∀ b' ∈ preB, OtherEntry e b') (hpostB : ∀ b' ∈ postB, OtherEntry e b')
    (W : Nat) (hne : b.fields ≠ []) (hs : Sorted (layoutOf b.fields W) = true) (hl : leadOk (layoutOf b.fields W) = true)
    (recs : List (Bool × List (Align × Str)))
    (hf : ∀ r ∈ recs, Fits (layoutOf b.fields W) r.2 = true)
    (hvis : ∀ r ∈ recs, emit r.1 (renderA (layoutOf b.fields W) r.2) ≠ [])
    (hd : Str) (pre post : List Seg) (h mk : Str) (ps : List Str) (f : Str)
    (hmk : asString mk = b.marker) (hfirst : b.marker ∉ (blocksOf pre).map (·.marker))
    (hwf : SnxFile.wf ⟨hd, pre ++ Seg.block h mk ps (recs.map fun r => emit r.1 (renderA (layoutOf b.fields W) r.2)) f :: post⟩)
    (R : Result)
    (hR : parseTmsFile header (preB ++ b :: postB)
      (SnxFile.text ⟨hd, pre ++ Seg.block h mk ps (recs.map fun r => emit r.1 (renderA (layoutOf b.fields W) r.2)) f :: post⟩)
        = some R) :
    R.hdr = headerRow tmsTag header (fun l => l.length + 1) hd ∧
    ∃ D, R.data = .dict D ∧ dget? D e = some (.list (recs.map fun r => rowVal (convertRow b.fields r.2))) := by
  unfold parseTmsFile parseWith at hR
  rw [readRaw_file _ _ _ _ _ hwf] at hR
  simp only [Option.bind_some] at hR
  cases hD : assembleTms (preB ++ b :: postB) (rawOf (expected ((preB ++ b :: postB).map (·.marker))
      (pre ++ Seg.block h mk ps (recs.map fun r => emit r.1 (renderA (layoutOf b.fields W) r.2)) f :: post))) with
  | none => rw [hD] at hR; simp at hR
  | some D =>
    rw [hD] at hR
    simp only [Option.map_some, Option.some.injEq] at hR
    subst hR
    refine ⟨rfl, D, rfl, ?_⟩
    have hmem : b.marker ∈ (preB ++ b :: postB).map (·.marker) := by simp
    have hraw : rawOf (expected ((preB ++ b :: postB).map (·.marker))
        (pre ++ Seg.block h mk ps (recs.map fun r => emit r.1 (renderA (layoutOf b.fields W) r.2)) f :: post)) b.marker =
        some ⟨asString mk, ps, dataLines (recs.map fun r => emit r.1 (renderA (layoutOf b.fields W) r.2))⟩ := by
      rw [rawOf_expected]
      simp only [hmem, if_true]
      rw [← hmk] at hfirst ⊢
      exact rawOf_blocksOf_first h mk ps _ f post pre hfirst
    have hdl : dataLines (recs.map fun r => emit r.1 (renderA (layoutOf b.fields W) r.2)) =
        recs.map fun r => emit r.1 (renderA (layoutOf b.fields W) r.2) := by
      unfold dataLines
      apply List.filter_eq_self.mpr
      intro l hl'
      simp only [List.mem_map] at hl'
      obtain ⟨r, hr, rfl⟩ := hl'
      exact emit_lead _ hl r (hf r hr) (hvis r hr)
    rw [hdl] at hraw
    rw [tms_site_block _ e he preB postB b q hk hq hpreB hpostB _ hraw D hD]
    have := tms_block_roundtrip b.fields W hne hs recs hf hvis
    simp only [rowsOfTms]
    simp only at this
    rw [this, List.map_map]
    rfl

/-! ## 14. sinex_tms at file level: every entry, and TIMESERIES/DATA under the declared column names -/

/-- the key of `self.data` a block parser of `SinexTmsParser` writes, by the name of its method -/
def tmsKey (e : String) : String := if e = "timeseries_ref_coordinate" then "ref_coordinate" else e

/-- the block's parser does not write `self.data[k]` -/
def OtherKey (k : String) (b : BlockDef) : Prop := ∀ q, b.kind = .custom q → tmsKey (entryName q) ≠ k

/-- a block parser of sinex_tms touches nothing but its own key -/
theorem tmsStep_key_other (look : String → Option RawBlock) (k : String) (D D' : List (String × Val))
    (b : BlockDef) (hb : OtherKey k b) (h : tmsStep look D b = some D') : dget? D' k = dget? D k := by
  unfold tmsStep at h
  cases hlook : look b.marker with
  | none => simp only [hlook, Option.some.injEq] at h; subst h; rfl
  | some r =>
    cases hk : b.kind with
    | dflt => simp [hlook, hk] at h
    | matrix _ => simp [hlook, hk] at h
    | custom q =>
      have hq : tmsKey (entryName q) ≠ k := hb q hk
      simp only [hlook, hk] at h
      by_cases h1 : entryName q = "timeseries_data"
      · simp only [h1, if_true] at h
        have hq' : "timeseries_data" ≠ k := by rw [h1] at hq; exact hq
        cases hn : tmsNames D with
        | none => simp [hn] at h
        | some names =>
          cases hd : tmsData names r.lines with
          | none => simp [hn, hd] at h
          | some d =>
            simp only [hn, hd, Option.bind_some, Option.map_some, Option.some.injEq] at h
            subst h
            exact dget_dset_ne _ _ _ _ hq'
      · simp only [h1, if_false] at h
        by_cases h2 : entryName q = "file_reference"
        · simp only [h2, if_true] at h
          have hq' : "file_reference" ≠ k := by rw [h2] at hq; exact hq
          cases hf : fileRefTms (rowsOfTms b r) with
          | none => simp [hf] at h
          | some d =>
            simp only [hf, Option.map_some, Option.some.injEq] at h
            subst h
            exact dget_dset_ne _ _ _ _ hq'
        · simp only [h2, if_false] at h
          by_cases h3 : entryName q = "site_antenna"
          · simp only [h3, if_true] at h
            have hq' : "site_antenna" ≠ k := by rw [h3] at hq; exact hq
            cases hm : (rowsOfTms b r).mapM antennaRowTms with
            | none => simp [hm] at h
            | some rows' =>
              simp only [hm, Option.map_some, Option.some.injEq] at h
              subst h
              exact dget_dset_ne _ _ _ _ hq'
          · simp only [h3, if_false] at h
            by_cases h5 : entryName q = "timeseries_ref_coordinate"
            · have hq' : "ref_coordinate" ≠ k := by rw [h5] at hq; exact hq
              have h4 : ¬ ("timeseries_ref_coordinate" = "site_id" ∨ "timeseries_ref_coordinate" = "site_receiver" ∨
                  "timeseries_ref_coordinate" = "site_eccentricity") := by decide
              simp only [h5, h4, if_false, if_true] at h
              cases hrows : rowsOfTms b r with
              | nil => simp [hrows] at h
              | cons row rest =>
                cases rest with
                | nil =>
                  simp only [hrows, Option.some.injEq] at h
                  subst h
                  exact dget_dset_ne _ _ _ _ hq'
                | cons _ _ => simp [hrows] at h
            · have hq' : entryName q ≠ k := by simpa [tmsKey, h5] using hq
              by_cases h4 : entryName q = "site_id" ∨ entryName q = "site_receiver" ∨ entryName q = "site_eccentricity"
              · simp only [h4, if_true, Option.some.injEq] at h
                subst h
                exact dget_dset_ne _ _ _ _ hq'
              · simp only [h4, if_false, h5] at h
                by_cases h6 : entryName q = "timeseries_columns"
                · simp only [h6, if_true, Option.some.injEq] at h
                  subst h
                  exact dget_dset_ne _ _ _ _ (by rw [← h6]; exact hq')
                · simp [h6] at h

theorem tms_fold_key_other (look : String → Option RawBlock) (k : String) :
    ∀ (bs : List BlockDef) (D D' : List (String × Val)), (∀ b ∈ bs, OtherKey k b) →
      bs.foldlM (tmsStep look) D = some D' → dget? D' k = dget? D k := by
  intro bs
  induction bs with
  | nil =>
    intro D D' _ h
    simp only [List.foldlM_nil, Option.pure_def, Option.some.injEq] at h
    subst h; rfl
  | cons b rest ih =>
    intro D D' hall h
    simp only [List.foldlM_cons, Option.bind_eq_bind] at h
    cases hstep : tmsStep look D b with
    | none => simp [hstep] at h
    | some D1 =>
      rw [hstep, Option.bind_some] at h
      rw [ih D1 D' (fun b' hb' => hall b' (by simp [hb'])) h]
      exact tmsStep_key_other look k D D1 b (hall b (by simp)) hstep

/-- **one block among the others**: when `SinexTmsParser` returns, `data[k]` is what the parser of the only block
writing `k` made of it, starting from a `data` that did not have `k` — the blocks declared before and after do
not matter -/
theorem tms_fold_block (look : String → Option RawBlock) (k : String) (pre post : List BlockDef) (b : BlockDef)
    (hpre : ∀ b' ∈ pre, OtherKey k b') (hpost : ∀ b' ∈ post, OtherKey k b') (D0 D : List (String × Val))
    (h : (pre ++ b :: post).foldlM (tmsStep look) D0 = some D) :
    ∃ D1 D2, pre.foldlM (tmsStep look) D0 = some D1 ∧ tmsStep look D1 b = some D2 ∧
      dget? D1 k = dget? D0 k ∧ dget? D k = dget? D2 k := by
  rw [List.foldlM_append] at h
  cases h1 : pre.foldlM (tmsStep look) D0 with
  | none => simp [h1] at h
  | some D1 =>
    simp only [h1, Option.bind_eq_bind, Option.bind_some, List.foldlM_cons] at h
    cases h2 : tmsStep look D1 b with
    | none => simp [h2] at h
    | some D2 =>
      rw [h2, Option.bind_some] at h
      exact ⟨D1, D2, rfl, h2, tms_fold_key_other look k pre D0 D1 hpre h1, tms_fold_key_other look k post D2 D hpost h⟩


/-! ### dictionaries built key by key -/

def keys {α} (d : List (String × α)) : List String := d.map (·.1)

theorem mem_keys_dset {α} (d : List (String × α)) (k : String) (v : α) (x : String) :
    x ∈ keys (dset d k v) → x ∈ keys d ∨ x = k := by
  induction d with
  | nil => intro h; simp [keys, dset] at h; exact Or.inr h
  | cons p rest ih =>
    obtain ⟨k', v'⟩ := p
    by_cases hk : k' = k
    · simp only [dset, hk, if_true, keys, List.map_cons, List.mem_cons]
      intro h; exact Or.inl h
    · simp only [dset, hk, if_false, keys, List.map_cons, List.mem_cons]
      intro h
      rcases h with h | h
      · exact Or.inl (Or.inl h)
      · rcases ih h with h' | h'
        · exact Or.inl (Or.inr h')
        · exact Or.inr h'

theorem keys_dset_nodup {α} (d : List (String × α)) (k : String) (v : α) (h : (keys d).Nodup) :
    (keys (dset d k v)).Nodup := by
  induction d with
  | nil => simp [keys, dset]
  | cons p rest ih =>
    obtain ⟨k', v'⟩ := p
    simp only [keys, List.map_cons, List.nodup_cons] at h
    by_cases hk : k' = k
    · simp only [dset, hk, if_true, keys, List.map_cons, List.nodup_cons]
      rw [← hk]; exact h
    · simp only [dset, hk, if_false, keys, List.map_cons, List.nodup_cons]
      refine ⟨fun hm => ?_, ih h.2⟩
      rcases mem_keys_dset rest k v k' hm with h' | h'
      · exact h.1 h'
      · exact hk h'

theorem dset_new {α} (d : List (String × α)) (k : String) (v : α) (h : k ∉ keys d) : dset d k v = d ++ [(k, v)] := by
  induction d with
  | nil => rfl
  | cons p rest ih =>
    obtain ⟨k', v'⟩ := p
    simp only [keys, List.map_cons, List.mem_cons, not_or] at h
    have : ¬ k' = k := fun e => h.1 e.symm
    simp only [dset, this, if_false, List.cons_append]
    rw [ih h.2]

/-- writing the entries of a dictionary with distinct keys one by one into another one that has none of
them appends them: `old.update(d)` -/
theorem foldl_dset_append {α} (d : List (String × α)) : ∀ acc : List (String × α), (keys (acc ++ d)).Nodup →
    d.foldl (fun acc kv => dset acc kv.1 kv.2) acc = acc ++ d := by
  induction d with
  | nil => intro acc _; simp
  | cons p rest ih =>
    intro acc h
    obtain ⟨k, v⟩ := p
    have hk : k ∉ keys acc := by
      simp only [keys, List.map_append, List.map_cons] at h
      have := (List.nodup_append.mp h).2.2
      intro hm
      exact this k hm k (by simp) rfl
    simp only [List.foldl_cons]
    rw [dset_new acc k v hk, ih (acc ++ [(k, v)]) (by simpa [List.append_assoc] using h)]
    simp

theorem foldlM_dset_keys {β} (key : β → String) (f : β → Option Val) :
    ∀ (l : List β) (acc D : List (String × Val)), (keys acc).Nodup →
      l.foldlM (fun D x => (f x).map fun v => dset D (key x) v) acc = some D → (keys D).Nodup := by
  intro l
  induction l with
  | nil =>
    intro acc D h hD
    simp only [List.foldlM_nil, Option.pure_def, Option.some.injEq] at hD
    subst hD; exact h
  | cons a rest ih =>
    intro acc D h hD
    simp only [List.foldlM_cons, Option.bind_eq_bind] at hD
    cases hv : f a with
    | none => simp [hv] at hD
    | some v =>
      simp only [hv, Option.map_some, Option.bind_some] at hD
      exact ih _ D (keys_dset_nodup acc _ v h) hD

/-- a dictionary that is only ever written with `dset` keeps distinct keys -/
theorem foldlM_step_keys {β} (f : List (String × Val) → β → Option (List (String × Val)))
    (hf : ∀ acc x D', f acc x = some D' → ∃ k v, D' = dset acc k v) :
    ∀ (l : List β) (acc D : List (String × Val)), (keys acc).Nodup → l.foldlM f acc = some D → (keys D).Nodup := by
  intro l
  induction l with
  | nil =>
    intro acc D ha hD
    simp only [List.foldlM_nil, Option.pure_def, Option.some.injEq] at hD
    subst hD; exact ha
  | cons x rest ih =>
    intro acc D ha hD
    rw [List.foldlM_cons] at hD
    cases hx : f acc x with
    | none => rw [hx] at hD; simp at hD
    | some D1 =>
      rw [hx] at hD
      obtain ⟨k, v, rfl⟩ := hf acc x D1 hx
      exact ih _ D (keys_dset_nodup acc k v ha) hD

/-- the dictionary `parse_timeseries_data` builds has one entry per (lower-cased) column name -/
theorem tmsData_keys (names : List Str) (lines : List Str) (d : List (String × Val)) (h : tmsData names lines = some d) :
    (keys d).Nodup := by
  unfold tmsData at h
  cases hr : wsRows lines with
  | none => simp [hr] at h
  | some rows =>
    rw [hr, Option.bind_some] at h
    exact foldlM_dset_keys (fun nc : Str × List Str => asString (lower nc.1)) (fun nc => tmsCol nc.1 nc.2) _ [] d
      (by simp [keys]) h

/-! ### what each block parser stores -/

theorem tmsStep_columns (look : String → Option RawBlock) (D : List (String × Val)) (b : BlockDef) (q : String)
    (r : RawBlock) (hr : look b.marker = some r) (hk : b.kind = .custom q) (hq : entryName q = "timeseries_columns") :
    tmsStep look D b = some (dset D "timeseries_columns" (.dict (columns b.fields (rowsOfTms b r)))) := by
  unfold tmsStep
  simp only [hr, hk, hq]
  have h1 : ¬ "timeseries_columns" = "timeseries_data" := by decide
  have h2 : ¬ "timeseries_columns" = "file_reference" := by decide
  have h3 : ¬ "timeseries_columns" = "site_antenna" := by decide
  have h4 : ¬ ("timeseries_columns" = "site_id" ∨ "timeseries_columns" = "site_receiver" ∨
      "timeseries_columns" = "site_eccentricity") := by decide
  have h5 : ¬ "timeseries_columns" = "timeseries_ref_coordinate" := by decide
  simp only [h1, h2, h3, h4, h5, if_false, if_true]

theorem tmsStep_ref (look : String → Option RawBlock) (D : List (String × Val)) (b : BlockDef) (q : String)
    (r : RawBlock) (hr : look b.marker = some r) (hk : b.kind = .custom q) (hq : entryName q = "timeseries_ref_coordinate")
    (row : Row) (hrows : rowsOfTms b r = [row]) :
    tmsStep look D b = some (dset D "ref_coordinate" (rowVal row)) := by
  unfold tmsStep
  simp only [hr, hk, hq, hrows]
  have h1 : ¬ "timeseries_ref_coordinate" = "timeseries_data" := by decide
  have h2 : ¬ "timeseries_ref_coordinate" = "file_reference" := by decide
  have h3 : ¬ "timeseries_ref_coordinate" = "site_antenna" := by decide
  have h4 : ¬ ("timeseries_ref_coordinate" = "site_id" ∨ "timeseries_ref_coordinate" = "site_receiver" ∨
      "timeseries_ref_coordinate" = "site_eccentricity") := by decide
  simp only [h1, h2, h3, h4, if_false, if_true]

theorem tmsStep_antenna (look : String → Option RawBlock) (D : List (String × Val)) (b : BlockDef) (q : String)
    (r : RawBlock) (hr : look b.marker = some r) (hk : b.kind = .custom q) (hq : entryName q = "site_antenna")
    (rows' : List Row) (hm : (rowsOfTms b r).mapM antennaRowTms = some rows') :
    tmsStep look D b = some (appendRows D "site_antenna" rows') := by
  unfold tmsStep
  simp only [hr, hk, hq, hm]
  have h1 : ¬ "site_antenna" = "timeseries_data" := by decide
  have h2 : ¬ "site_antenna" = "file_reference" := by decide
  simp only [h1, h2, if_false, if_true, Option.map_some]

theorem tmsStep_file_reference (look : String → Option RawBlock) (D : List (String × Val)) (b : BlockDef) (q : String)
    (r : RawBlock) (hr : look b.marker = some r) (hk : b.kind = .custom q) (hq : entryName q = "file_reference")
    (d : List (String × Val)) (hd : fileRefTms (rowsOfTms b r) = some d) (hD : dget? D "file_reference" = Option.none)
    (hnd : (keys d).Nodup) :
    tmsStep look D b = some (dset D "file_reference" (.dict d)) := by
  unfold tmsStep
  simp only [hr, hk, hq, hd, hD]
  have h1 : ¬ "file_reference" = "timeseries_data" := by decide
  simp only [h1, if_false, if_true, Option.map_some]
  rw [foldl_dset_append d [] (by simpa using hnd)]
  rfl

theorem tmsStep_data (look : String → Option RawBlock) (D : List (String × Val)) (b : BlockDef) (q : String)
    (r : RawBlock) (hr : look b.marker = some r) (hk : b.kind = .custom q) (hq : entryName q = "timeseries_data")
    (names : List Str) (hn : tmsNames D = some names) (d : List (String × Val)) (hd : tmsData names r.lines = some d)
    (hD : dget? D "timeseries_data" = Option.none) :
    tmsStep look D b = some (dset D "timeseries_data" (.dict d)) := by
  unfold tmsStep
  simp only [hr, hk, hq, hn, hd, hD, if_true, Option.bind_some, Option.map_some]
  rw [foldl_dset_append d [] (by simpa using tmsData_keys names r.lines d hd)]
  rfl


/-! ### from the file to `self._sinex` -/

/-- the body holds a block of marker `m` with title parameters `ps` and content `c`, and no block of that
marker before it -/
def FirstBlock (segs : List Seg) (m : String) (ps : List Str) (c : List Str) : Prop :=
  ∃ pre post h mk f, segs = pre ++ Seg.block h mk ps c f :: post ∧ asString mk = m ∧ m ∉ (blocksOf pre).map (·.marker)

theorem firstBlock_look (segs : List Seg) (m : String) (ps c : List Str) (hfb : FirstBlock segs m ps c)
    (w : List String) (hw : m ∈ w) : rawOf (expected w segs) m = some ⟨m, ps, dataLines c⟩ := by
  obtain ⟨pre, post, h, mk, f, rfl, hmk, hfirst⟩ := hfb
  rw [rawOf_expected]
  simp only [hw, if_true]
  rw [← hmk] at hfirst ⊢
  exact rawOf_blocksOf_first h mk ps c f post pre hfirst

/-- `SinexTmsParser.parse()` on the text of a file: the header line read to its end, and the block parsers
applied to the first block of each declared marker -/
theorem parseTms_file (header : List FieldDef) (blocks : List BlockDef) (F : SnxFile) (hwf : F.wf) (R : Result)
    (hR : parseTmsFile header blocks F.text = some R) :
    R.hdr = headerRow tmsTag header (fun l => l.length + 1) F.header ∧
    ∃ D, R.data = .dict D ∧ assembleTms blocks (rawOf (expected (blocks.map (·.marker)) F.segs)) = some D := by
  unfold parseTmsFile parseWith at hR
  rw [readRaw_file _ _ _ _ _ hwf] at hR
  simp only [Option.bind_some] at hR
  cases hD : assembleTms blocks (rawOf (expected (blocks.map (·.marker)) F.segs)) with
  | none => rw [hD] at hR; simp at hR
  | some D =>
    rw [hD] at hR
    simp only [Option.map_some, Option.some.injEq] at hR
    subst hR
    exact ⟨rfl, D, rfl, rfl⟩

/-- the lines of written records (with or without trailing blanks) -/
def emitted (fs : List FieldDef) (W : Nat) (recs : List (Bool × List (Align × Str))) : List Str :=
  recs.map fun r => emit r.1 (renderA (layoutOf fs W) r.2)

/-- well-formed written records of a table whose last field ends at column `W` -/
structure RecsOk (fs : List FieldDef) (W : Nat) (recs : List (Bool × List (Align × Str))) : Prop where
  ne : fs ≠ []
  sorted : Sorted (layoutOf fs W) = true
  lead : leadOk (layoutOf fs W) = true
  fits : ∀ r ∈ recs, Fits (layoutOf fs W) r.2 = true
  vis : ∀ r ∈ recs, emit r.1 (renderA (layoutOf fs W) r.2) ≠ []

/-- the rows `SinexTmsParser.parse_lines` makes of the first block of `b`'s marker -/
theorem tms_file_rows (b : BlockDef) (W : Nat) (recs : List (Bool × List (Align × Str))) (hok : RecsOk b.fields W recs)
    (segs : List Seg) (ps : List Str) (hfb : FirstBlock segs b.marker ps (emitted b.fields W recs))
    (w : List String) (hw : b.marker ∈ w) :
    ∃ r, rawOf (expected w segs) b.marker = some r ∧ r.params = ps ∧ r.lines = emitted b.fields W recs ∧
      rowsOfTms b r = recs.map fun r => convertRow b.fields r.2 := by
  have hdl : dataLines (emitted b.fields W recs) = emitted b.fields W recs := by
    unfold dataLines emitted
    apply List.filter_eq_self.mpr
    intro l hl'
    simp only [List.mem_map] at hl'
    obtain ⟨r, hr, rfl⟩ := hl'
    exact emit_lead _ hok.lead r (hok.fits r hr) (hok.vis r hr)
  refine ⟨⟨b.marker, ps, emitted b.fields W recs⟩, ?_, rfl, rfl, ?_⟩
  · rw [firstBlock_look segs b.marker ps _ hfb w hw, hdl]
  · have := tms_block_roundtrip b.fields W hok.ne hok.sorted recs hok.fits hok.vis
    simp only [rowsOfTms, emitted]
    simpa using this

/-! ### TIMESERIES/COLUMNS, REF_COORDINATE, SITE/ANTENNA, FILE/REFERENCE -/

/-- **TIMESERIES/COLUMNS**: `data["timeseries_columns"]` is the table of the block's records, column by column -/
theorem tms_columns_block (look : String → Option RawBlock) (pre post : List BlockDef) (b : BlockDef) (q : String)
    (hk : b.kind = .custom q) (hq : entryName q = "timeseries_columns")
    (hpre : ∀ b' ∈ pre, OtherKey "timeseries_columns" b') (hpost : ∀ b' ∈ post, OtherKey "timeseries_columns" b')
    (r : RawBlock) (hr : look b.marker = some r) (D : List (String × Val))
    (h : assembleTms (pre ++ b :: post) look = some D) :
    dget? D "timeseries_columns" = some (.dict (columns b.fields (rowsOfTms b r))) := by
  obtain ⟨D1, D2, _, h2, _, h4⟩ := tms_fold_block look "timeseries_columns" pre post b hpre hpost [] D h
  rw [tmsStep_columns look D1 b q r hr hk hq] at h2
  simp only [Option.some.injEq] at h2
  rw [h4, ← h2, dget_dset_self]

/-- **TIMESERIES/REF_COORDINATE** (exactly one record, else `data.item()` raises): `data["ref_coordinate"]` is the
dictionary of that record -/
theorem tms_ref_block (look : String → Option RawBlock) (pre post : List BlockDef) (b : BlockDef) (q : String)
    (hk : b.kind = .custom q) (hq : entryName q = "timeseries_ref_coordinate")
    (hpre : ∀ b' ∈ pre, OtherKey "ref_coordinate" b') (hpost : ∀ b' ∈ post, OtherKey "ref_coordinate" b')
    (r : RawBlock) (hr : look b.marker = some r) (row : Row) (hrows : rowsOfTms b r = [row]) (D : List (String × Val))
    (h : assembleTms (pre ++ b :: post) look = some D) :
    dget? D "ref_coordinate" = some (rowVal row) := by
  obtain ⟨D1, D2, _, h2, _, h4⟩ := tms_fold_block look "ref_coordinate" pre post b hpre hpost [] D h
  rw [tmsStep_ref look D1 b q r hr hk hq row hrows] at h2
  simp only [Option.some.injEq] at h2
  rw [h4, ← h2, dget_dset_self]

/-- … and the parser raises on a REF_COORDINATE block with no or several records -/
theorem tms_ref_block_raises (look : String → Option RawBlock) (pre post : List BlockDef) (b : BlockDef) (q : String)
    (hk : b.kind = .custom q) (hq : entryName q = "timeseries_ref_coordinate")
    (r : RawBlock) (hr : look b.marker = some r) (hrows : (rowsOfTms b r).length ≠ 1) :
    assembleTms (pre ++ b :: post) look = Option.none := by
  unfold assembleTms
  rw [List.foldlM_append]
  cases h1 : pre.foldlM (tmsStep look) [] with
  | none => rfl
  | some D1 =>
    have hstep : tmsStep look D1 b = Option.none := by
      unfold tmsStep
      simp only [hr, hk, hq]
      have h1 : ¬ "timeseries_ref_coordinate" = "timeseries_data" := by decide
      have h2 : ¬ "timeseries_ref_coordinate" = "file_reference" := by decide
      have h3 : ¬ "timeseries_ref_coordinate" = "site_antenna" := by decide
      have h4 : ¬ ("timeseries_ref_coordinate" = "site_id" ∨ "timeseries_ref_coordinate" = "site_receiver" ∨
          "timeseries_ref_coordinate" = "site_eccentricity") := by decide
      simp only [h1, h2, h3, h4, if_false, if_true]
      cases hrr : rowsOfTms b r with
      | nil => rfl
      | cons x rest =>
        cases rest with
        | nil => rw [hrr] at hrows; simp at hrows
        | cons _ _ => rfl
    simp [hstep]

/-- **SITE/ANTENNA**: `data["site_antenna"]` holds one dictionary per record, in order, the antenna field split into
antenna type and radome type (two words, else the parser raises) -/
theorem tms_antenna_block (look : String → Option RawBlock) (pre post : List BlockDef) (b : BlockDef) (q : String)
    (hk : b.kind = .custom q) (hq : entryName q = "site_antenna")
    (hpre : ∀ b' ∈ pre, OtherKey "site_antenna" b') (hpost : ∀ b' ∈ post, OtherKey "site_antenna" b')
    (r : RawBlock) (hr : look b.marker = some r) (D : List (String × Val))
    (h : assembleTms (pre ++ b :: post) look = some D) :
    ∃ rows', (rowsOfTms b r).mapM antennaRowTms = some rows' ∧ dget? D "site_antenna" = some (.list (rows'.map rowVal)) := by
  obtain ⟨D1, D2, _, h2, h3, h4⟩ := tms_fold_block look "site_antenna" pre post b hpre hpost [] D h
  cases hm : (rowsOfTms b r).mapM antennaRowTms with
  | none =>
    exfalso
    unfold tmsStep at h2
    have h1 : ¬ "site_antenna" = "timeseries_data" := by decide
    have h2' : ¬ "site_antenna" = "file_reference" := by decide
    simp [hr, hk, hq, hm, h1, h2'] at h2
  | some rows' =>
    rw [tmsStep_antenna look D1 b q r hr hk hq rows' hm] at h2
    simp only [Option.some.injEq] at h2
    refine ⟨rows', rfl, ?_⟩
    rw [h4, ← h2]
    unfold appendRows
    rw [dget_dset_self, h3]
    rfl

/-- the record with the antenna field split in two -/
theorem antennaRowTms_spec (r : Row) (a rad : Str) (h : split (cellStr (lookup r "antenna_type")) = [a, rad]) :
    antennaRowTms r = some ((r.map fun (k, c) => if k = "antenna_type" then (k, Cell.str a) else (k, c)) ++
      [("radome_type", .str rad)]) := by
  simp [antennaRowTms, h]

/-- **FILE/REFERENCE**: `data["file_reference"]` maps the lower-cased first word of each record's first field to its
second field (a later record with the same word replaces the value) -/
theorem tms_file_reference_block (look : String → Option RawBlock) (pre post : List BlockDef) (b : BlockDef) (q : String)
    (hk : b.kind = .custom q) (hq : entryName q = "file_reference")
    (hpre : ∀ b' ∈ pre, OtherKey "file_reference" b') (hpost : ∀ b' ∈ post, OtherKey "file_reference" b')
    (r : RawBlock) (hr : look b.marker = some r) (D : List (String × Val))
    (h : assembleTms (pre ++ b :: post) look = some D) :
    ∃ d, fileRefTms (rowsOfTms b r) = some d ∧ dget? D "file_reference" = some (.dict d) := by
  obtain ⟨D1, D2, _, h2, h3, h4⟩ := tms_fold_block look "file_reference" pre post b hpre hpost [] D h
  cases hd : fileRefTms (rowsOfTms b r) with
  | none =>
    exfalso
    unfold tmsStep at h2
    have h1 : ¬ "file_reference" = "timeseries_data" := by decide
    simp [hr, hk, hq, hd, h1] at h2
  | some d =>
    have hnd : (keys d).Nodup := by
      unfold fileRefTms at hd
      refine foldlM_step_keys _ ?_ _ [] d (by simp [keys]) hd
      intro acc x D' hx
      split at hx
      · simp at hx
      · simp only [Option.some.injEq] at hx
        exact ⟨_, _, hx.symm⟩
    refine ⟨d, rfl, ?_⟩
    have hD1 : dget? D1 "file_reference" = Option.none := by rw [h3]; rfl
    rw [tmsStep_file_reference look D1 b q r hr hk hq d hd hD1 hnd] at h2
    simp only [Option.some.injEq] at h2
    rw [h4, ← h2, dget_dset_self]


/-! ### TIMESERIES/DATA under the names the COLUMNS block declares -/

/-- the field table of TIMESERIES/COLUMNS -/
def tmsColumnsFields : List FieldDef :=
  [⟨"col", 1, .f8, .none⟩, ⟨"name", 6, .u 20, .none⟩, ⟨"unit", 27, .u 21, .none⟩, ⟨"description", 49, .u 100, .utf8⟩]

theorem tms_columns_table :
    (tmsBlocks.find? (·.marker = "TIMESERIES/COLUMNS")).map (·.fields) = some tmsColumnsFields := by decide +kernel

/-- the column names `parse_timeseries_data` reads from `data["timeseries_columns"]["name"]` -/
theorem tmsNames_columns (D : List (String × Val)) (rows : List Row)
    (h : dget? D "timeseries_columns" = some (.dict (columns tmsColumnsFields rows))) :
    tmsNames D = some (rows.map fun r => cellStr (lookup r "name")) := by
  have h0 : validName "col" = "col" := by decide +kernel
  have h1 : validName "name" = "name" := by decide +kernel
  have h2 : ¬ "col" = "name" := by decide
  unfold tmsNames
  rw [h]
  simp [columns, kept, tmsColumnsFields, dget?, h0, h1, h2, List.map_map, Function.comp_def]

/-- the name a COLUMNS record declares: the text of its second field (at most 20 characters are kept) -/
theorem columns_name_record (a0 a1 a2 a3 : Align) (c n u d : Str) :
    cellStr (lookup (convertRow tmsColumnsFields [(a0, c), (a1, n), (a2, u), (a3, d)]) "name") = n.take 20 := by
  have h0 : validName "col" = "col" := by decide +kernel
  have h1 : validName "name" = "name" := by decide +kernel
  have h2 : ¬ "col" = "name" := by decide
  simp [convertRow, tmsColumnsFields, lookup, convertCell, cellStr, h0, h1, h2]

/-- **TIMESERIES/DATA, as `SinexTmsParser` stores it**: with the COLUMNS block declared before the DATA block,
`data["timeseries_data"]` is exactly the dictionary `parse_timeseries_data` makes of the DATA lines under the names
of the COLUMNS records — whatever other blocks are declared and present -/
theorem tms_data_block (look : String → Option RawBlock) (preC mid post : List BlockDef) (bc bd : BlockDef) (qc qd : String)
    (hkc : bc.kind = .custom qc) (hqc : entryName qc = "timeseries_columns") (hfc : bc.fields = tmsColumnsFields)
    (hkd : bd.kind = .custom qd) (hqd : entryName qd = "timeseries_data")
    (hpreC : ∀ b' ∈ preC, OtherKey "timeseries_columns" b' ∧ OtherKey "timeseries_data" b')
    (hmid : ∀ b' ∈ mid, OtherKey "timeseries_columns" b' ∧ OtherKey "timeseries_data" b')
    (hpost : ∀ b' ∈ post, OtherKey "timeseries_data" b')
    (rc rd : RawBlock) (hrc : look bc.marker = some rc) (hrd : look bd.marker = some rd) (D : List (String × Val))
    (h : assembleTms (preC ++ bc :: mid ++ bd :: post) look = some D) :
    ∃ d, tmsData ((rowsOfTms bc rc).map fun r => cellStr (lookup r "name")) rd.lines = some d ∧
      dget? D "timeseries_data" = some (.dict d) := by
  have hbcd : OtherKey "timeseries_data" bc := by
    intro q hq
    rw [hkc] at hq
    simp only [ParserKind.custom.injEq] at hq
    subst hq
    rw [hqc]; decide
  have hpre : ∀ b' ∈ preC ++ bc :: mid, OtherKey "timeseries_data" b' := by
    intro b' hb'
    simp only [List.mem_append, List.mem_cons] at hb'
    rcases hb' with h1 | rfl | h1
    · exact (hpreC b' h1).2
    · exact hbcd
    · exact (hmid b' h1).2
  have hassoc : preC ++ bc :: mid ++ bd :: post = (preC ++ bc :: mid) ++ bd :: post := by simp
  unfold assembleTms at h
  rw [hassoc] at h
  obtain ⟨D1, D2, h1, h2, h3, h4⟩ := tms_fold_block look "timeseries_data" (preC ++ bc :: mid) post bd hpre hpost [] D h
  -- the COLUMNS block was applied before
  obtain ⟨E1, E2, _, e2, _, e4⟩ := tms_fold_block look "timeseries_columns" preC mid bc (fun b' hb' => (hpreC b' hb').1)
    (fun b' hb' => (hmid b' hb').1) [] D1 h1
  rw [tmsStep_columns look E1 bc qc rc hrc hkc hqc] at e2
  simp only [Option.some.injEq] at e2
  have hcols : dget? D1 "timeseries_columns" = some (.dict (columns tmsColumnsFields (rowsOfTms bc rc))) := by
    rw [e4, ← e2, dget_dset_self, hfc]
  have hnames := tmsNames_columns D1 _ hcols
  have hD1 : dget? D1 "timeseries_data" = Option.none := by rw [h3]; rfl
  cases hd : tmsData ((rowsOfTms bc rc).map fun r => cellStr (lookup r "name")) rd.lines with
  | none =>
    exfalso
    unfold tmsStep at h2
    simp [hrd, hkd, hqd, hnames, hd] at h2
  | some d =>
    rw [tmsStep_data look D1 bd qd rd hrd hkd hqd _ hnames d hd hD1] at h2
    simp only [Option.some.injEq] at h2
    exact ⟨d, rfl, by rw [h4, ← h2, dget_dset_self]⟩

/-- **tms_file_data_roundtrip**: `SinexTmsParser` (COLUMNS declared before DATA, each the only block writing its
entry) reads a file that holds — anywhere, in any order, among whatever other blocks and comment lines — a
TIMESERIES/COLUMNS block (first of its marker; records written into the columns of its table, with or without trailing
blanks) and a TIMESERIES/DATA block (first of its marker; every record `n > 0` tokens separated by blanks).  Then
`data["timeseries_data"]` is a dictionary in which the lower-cased name of the `j`-th COLUMNS record holds the `j`-th
token of every DATA record, in record order: as text for the date columns, as `float(token)` otherwise
(`tmsCol`).  A second TIMESERIES/DATA block further down (another station's table appended to the file) is not read
(`file_invisible`): the parser handles one station per file. -/
theorem tms_file_data_roundtrip (header : List FieldDef) (preC mid post : List BlockDef) (bc bd : BlockDef) (qc qd : String)
    (hkc : bc.kind = .custom qc) (hqc : entryName qc = "timeseries_columns") (hfc : bc.fields = tmsColumnsFields)
    (hkd : bd.kind = .custom qd) (hqd : entryName qd = "timeseries_data")
    (hpreC : ∀ b' ∈ preC, OtherKey "timeseries_columns" b' ∧ OtherKey "timeseries_data" b')
    (hmid : ∀ b' ∈ mid, OtherKey "timeseries_columns" b' ∧ OtherKey "timeseries_data" b')
    (hpost : ∀ b' ∈ post, OtherKey "timeseries_data" b')
    (F : SnxFile) (hwf : F.wf)
    (W : Nat) (crecs : List (Bool × List (Align × Str))) (hcok : RecsOk bc.fields W crecs) (psc : List Str)
    (hfbc : FirstBlock F.segs bc.marker psc (emitted bc.fields W crecs))
    (drecs : List (List (Str × Str) × Str)) (n : Nat) (hn : 0 < n) (hne : drecs ≠ [])
    (hdok : ∀ r ∈ drecs, PadsOk r.1 = true ∧ isBlank r.2 = true ∧ r.1.length = n)
    (hdlead : ∀ r ∈ drecs, startsWith [' '] (wsLine r) = true) (psd : List Str)
    (hfbd : FirstBlock F.segs bd.marker psd (drecs.map wsLine))
    (hnd : ((crecs.map fun r => cellStr (lookup (convertRow bc.fields r.2) "name")).map fun nm => asString (lower nm)).Nodup)
    (hlen : crecs.length ≤ n)
    (R : Result) (hR : parseTmsFile header (preC ++ bc :: mid ++ bd :: post) F.text = some R) :
    R.hdr = headerRow tmsTag header (fun l => l.length + 1) F.header ∧
    ∃ D d, R.data = .dict D ∧ dget? D "timeseries_data" = some (.dict d) ∧
      ∀ (j : Nat) (hj : j < crecs.length),
        dget? d (asString (lower (cellStr (lookup (convertRow bc.fields (crecs[j]).2) "name")))) =
          tmsCol (cellStr (lookup (convertRow bc.fields (crecs[j]).2) "name"))
            (drecs.map fun r => (wsTokens r).getD j []) := by
  obtain ⟨hhdr, D, hRD, hD⟩ := parseTms_file header _ F hwf R hR
  refine ⟨hhdr, ?_⟩
  have hmc : bc.marker ∈ (preC ++ bc :: mid ++ bd :: post).map (·.marker) := by simp
  have hmd : bd.marker ∈ (preC ++ bc :: mid ++ bd :: post).map (·.marker) := by simp
  obtain ⟨rc, hrc, _, _, hrowsc⟩ := tms_file_rows bc W crecs hcok F.segs psc hfbc _ hmc
  have hrd := firstBlock_look F.segs bd.marker psd _ hfbd _ hmd
  have hdl : dataLines (drecs.map wsLine) = drecs.map wsLine := by
    unfold dataLines
    apply List.filter_eq_self.mpr
    intro l hl
    simp only [List.mem_map] at hl
    obtain ⟨r, hr, rfl⟩ := hl
    exact hdlead r hr
  rw [hdl] at hrd
  obtain ⟨d, hd, hget⟩ := tms_data_block _ preC mid post bc bd qc qd hkc hqc hfc hkd hqd hpreC hmid hpost rc _ hrc hrd D hD
  refine ⟨D, d, hRD, hget, ?_⟩
  intro j hj
  rw [hrowsc, List.map_map] at hd
  simp only at hd
  have := tms_data_roundtrip (crecs.map fun r => cellStr (lookup (convertRow bc.fields r.2) "name")) drecs n hn hdok hne hnd
    (by simpa using hlen) d (by simpa [Function.comp_def] using hd) j (by simpa using hj)
  simpa using this


/-- the declared blocks of `SinexTmsParser` satisfy the hypotheses of `tms_file_data_roundtrip` -/
example : ∃ preC bc bd, tmsBlocks = preC ++ bc :: [] ++ bd :: [] ∧
    bc.kind = .custom "SinexTmsParser.parse_timeseries_columns" ∧
    entryName "SinexTmsParser.parse_timeseries_columns" = "timeseries_columns" ∧ bc.fields = tmsColumnsFields ∧
    bd.kind = .custom "SinexTmsParser.parse_timeseries_data" ∧ entryName "SinexTmsParser.parse_timeseries_data" = "timeseries_data" ∧
    (∀ b' ∈ preC, OtherKey "timeseries_columns" b' ∧ OtherKey "timeseries_data" b') := by
  refine ⟨tmsBlocks.take 6, tmsBlocks[6], tmsBlocks[7], by decide +kernel, by decide +kernel, by decide +kernel,
    by decide +kernel, by decide +kernel, by decide +kernel, ?_⟩
  intro b' hb'
  simp only [tmsBlocks, List.take, List.mem_cons, List.not_mem_nil, or_false] at hb'
  rcases hb' with rfl | rfl | rfl | rfl | rfl | rfl <;>
    (constructor <;> (intro q hq; simp only [ParserKind.custom.injEq] at hq; subst hq; decide +kernel))

/-! ## 15. Per-site tables exactly: which rows sit under which site, in which order -/

/-- the rows stored for site `k` under entry `e` (`data[k][e]`, empty when absent) -/
def entryRows (e : String) (T : SiteTable) (k : String) : List Row := ((dget? T k).bind fun s => dget? s e).getD []

theorem entryRows_addRow_false (e : String) (T : SiteTable) (key : String) (r : Row) (k : String) :
    entryRows e (addRow false e T key r) k = if k = key then entryRows e T k ++ [r] else entryRows e T k := by
  unfold addRow entryRows
  by_cases hk : k = key
  · subst hk
    simp only [Bool.false_eq_true, if_false, dget_dset_self, Option.bind_some, Option.getD_some, if_true]
    cases dget? T k <;> simp [dget?]
  · simp only [hk, if_false]
    rw [dget_dset_ne _ _ _ _ (Ne.symm hk)]

theorem entryRows_addRow_true (e : String) (T : SiteTable) (key : String) (r : Row) (k : String) :
    entryRows e (addRow true e T key r) k = if k = key then [r] else entryRows e T k := by
  unfold addRow entryRows
  by_cases hk : k = key
  · subst hk
    simp only [if_true, dget_dset_self, Option.bind_some, Option.getD_some]
  · simp only [hk, if_false]
    rw [dget_dset_ne _ _ _ _ (Ne.symm hk)]

theorem entryRows_addRow_other (single : Bool) (e e' : String) (hne : e' ≠ e) (T : SiteTable) (key : String) (r : Row)
    (k : String) : entryRows e (addRow single e' T key r) k = entryRows e T k := by
  unfold addRow entryRows
  by_cases hk : k = key
  · subst hk
    simp only [dget_dset_self, Option.bind_some]
    rw [dget_dset_ne _ _ _ _ hne]
    cases dget? T k <;> simp [dget?]
  · rw [dget_dset_ne _ _ _ _ (Ne.symm hk)]

/-- **regrouping, site by site**: after `append`-mode regrouping, site `k` holds what it held plus exactly the
block's rows whose key is `k`, in the block's order -/
theorem entryRows_regroup_false (e : String) (keyOf : Row → String) (f : Row → Row) (rows : List Row) (k : String) :
    ∀ T : SiteTable, entryRows e (regroup false e keyOf f T rows) k =
      entryRows e T k ++ (rows.filter fun r => keyOf r = k).map f := by
  induction rows with
  | nil => intro T; simp [regroup]
  | cons r rows ih =>
    intro T
    simp only [regroup, List.foldl_cons] at ih ⊢
    rw [ih, entryRows_addRow_false]
    by_cases hk : keyOf r = k
    · subst hk
      simp [List.filter_cons]
    · have hk' : ¬ k = keyOf r := fun e => hk e.symm
      simp [List.filter_cons, hk, hk']

/-- in `data[site][entry] = row` mode (SITE/ID) the last row of a key wins -/
theorem entryRows_regroup_true (e : String) (keyOf : Row → String) (f : Row → Row) (rows : List Row) (k : String) :
    ∀ T : SiteTable, entryRows e (regroup true e keyOf f T rows) k =
      match (rows.filter fun r => keyOf r = k).getLast? with
      | some r => [f r]
      | Option.none => entryRows e T k := by
  induction rows with
  | nil => intro T; simp [regroup]
  | cons r rows ih =>
    intro T
    simp only [regroup, List.foldl_cons] at ih ⊢
    rw [ih, entryRows_addRow_true]
    by_cases hk : keyOf r = k
    · subst hk
      simp only [List.filter_cons, decide_true, if_true, List.getLast?_cons]
      cases (rows.filter fun r' => decide (keyOf r' = keyOf r)).getLast? <;> simp
    · have hk' : ¬ k = keyOf r := fun e => hk e.symm
      simp only [List.filter_cons, hk, decide_false, hk', if_false, Bool.false_eq_true]

theorem entryRows_regroup_other (single : Bool) (e e' : String) (hne : e' ≠ e) (keyOf : Row → String) (f : Row → Row)
    (rows : List Row) (k : String) : ∀ T : SiteTable, entryRows e (regroup single e' keyOf f T rows) k = entryRows e T k := by
  induction rows with
  | nil => intro T; rfl
  | cons r rows ih =>
    intro T
    simp only [regroup, List.foldl_cons] at ih ⊢
    rw [ih, entryRows_addRow_other single e e' hne]

/-- **discontinuities / events, site by site**: in the table of `disc_file_roundtrip`, site `k` holds exactly the
written records whose (lower-cased) site code is `k`, without that field, in file order -/
theorem disc_site_rows (e : String) (rows : List Row) (k : String) :
    entryRows e (regroup false e siteKey dropSiteCode [] rows) k =
      (rows.filter fun r => siteKey r = k).map dropSiteCode := by
  rw [entryRows_regroup_false]
  simp [entryRows, dget?]


/-! ### sinex_site -/

/-- what one block does to the rows of site `k` under entry `e` -/
theorem siteStep_entry (look : String → Option RawBlock) (e : String) (he2 : e ≠ "file_comment")
    (st st1 : SiteTable × Option Str) (b : BlockDef) (k : String) (hstep : siteStep look st b = some st1) :
    entryRows e st1.1 k =
      if e = "site_id" then
        (match ((contrib e look b).filter fun r => siteKey r = k).getLast? with
         | some r => [r]
         | Option.none => entryRows e st.1 k)
      else entryRows e st.1 k ++ (contrib e look b).filter fun r => siteKey r = k := by
  unfold siteStep at hstep
  unfold contrib
  cases hlook : look b.marker with
  | none =>
    simp only [hlook, Option.some.injEq] at hstep
    subst hstep
    by_cases h : e = "site_id" <;> simp [h]
  | some r =>
    cases hk : b.kind with
    | dflt => simp [hlook, hk] at hstep
    | matrix _ => simp [hlook, hk] at hstep
    | custom q =>
      simp only [hlook, hk] at hstep ⊢
      by_cases hq : entryName q = e
      · have h1 : ¬ entryName q = "file_comment" := by rw [hq]; exact he2
        simp only [h1, if_false] at hstep
        by_cases hid : e = "site_id"
        · have hq' : entryName q = "site_id" := by rw [hq]; exact hid
          have hna : ¬ e = "site_antenna" := by rw [hid]; decide
          simp only [hq', if_true, Option.some.injEq] at hstep
          subst hstep
          simp only [hq, if_true, hid, hna, if_false]
          have := entryRows_regroup_true "site_id" siteKey id (rowsOf b 81 r) k st.1
          simpa [hid] using this
        · have h2 : ¬ entryName q = "site_id" := by rw [hq]; exact hid
          simp only [h2, if_false] at hstep
          by_cases ha : entryName q = "site_antenna"
          · have hea : e = "site_antenna" := by rw [← hq]; exact ha
            simp only [ha, if_true] at hstep
            cases hm : (rowsOf b 81 r).mapM antennaRow with
            | none => simp [hm] at hstep
            | some rows' =>
              simp only [hm, Option.map_some, Option.some.injEq] at hstep
              subst hstep
              simp only [hq, if_true, hid, if_false, hea, Option.getD_some]
              have := entryRows_regroup_false "site_antenna" siteKey id rows' k st.1
              simpa using this
          · have hea : ¬ e = "site_antenna" := by rw [← hq]; exact ha
            simp only [ha, if_false, Option.some.injEq] at hstep
            subst hstep
            simp only [hq, if_true, hid, hea, if_false]
            have := entryRows_regroup_false e siteKey id (rowsOf b 81 r) k st.1
            simpa using this
      · -- a block of another entry: nothing changes for `e`
        have hsame : entryRows e st1.1 k = entryRows e st.1 k := by
          by_cases h1 : entryName q = "file_comment"
          · simp only [h1, if_true] at hstep
            cases hf : refFrame (rowsOf b 81 r) with
            | none => simp [hf] at hstep
            | some fr =>
              simp only [hf, Option.map_some, Option.some.injEq] at hstep
              subst hstep; rfl
          · simp only [h1, if_false] at hstep
            by_cases h2 : entryName q = "site_id"
            · simp only [h2, if_true, Option.some.injEq] at hstep
              subst hstep
              exact entryRows_regroup_other true e "site_id" (by rw [← h2]; exact hq) _ _ _ k _
            · simp only [h2, if_false] at hstep
              by_cases ha : entryName q = "site_antenna"
              · simp only [ha, if_true] at hstep
                cases hm : (rowsOf b 81 r).mapM antennaRow with
                | none => simp [hm] at hstep
                | some rows' =>
                  simp only [hm, Option.map_some, Option.some.injEq] at hstep
                  subst hstep
                  exact entryRows_regroup_other false e "site_antenna" (by rw [← ha]; exact hq) _ _ _ k _
              · simp only [ha, if_false, Option.some.injEq] at hstep
                subst hstep
                exact entryRows_regroup_other false e (entryName q) hq _ _ _ k _
        rw [hsame]
        by_cases h : e = "site_id"
        · have hq2 : ¬ entryName q = "site_id" := by rw [← h]; exact hq
          simp [h, hq2]
        · simp [h, hq]

/-- **sinex_site, site by site** (before the reference-frame step): under every entry but `site_id`, site `k` holds
what it held plus exactly the rows of that entry's blocks whose site code is `k`, in file order; under `site_id` it
holds the last SITE/ID record of that site code -/
theorem site_fold_entry (look : String → Option RawBlock) (e : String) (he2 : e ≠ "file_comment") (k : String) :
    ∀ (bs : List BlockDef) (st st' : SiteTable × Option Str), bs.foldlM (siteStep look) st = some st' →
      entryRows e st'.1 k =
        if e = "site_id" then
          (match ((bs.flatMap (contrib e look)).filter fun r => siteKey r = k).getLast? with
           | some r => [r]
           | Option.none => entryRows e st.1 k)
        else entryRows e st.1 k ++ (bs.flatMap (contrib e look)).filter fun r => siteKey r = k := by
  intro bs
  induction bs with
  | nil =>
    intro st st' h
    simp only [List.foldlM_nil, Option.pure_def, Option.some.injEq] at h
    subst h
    by_cases h : e = "site_id" <;> simp [h]
  | cons b rest ih =>
    intro st st' h
    simp only [List.foldlM_cons, Option.bind_eq_bind] at h
    cases hstep : siteStep look st b with
    | none => simp [hstep] at h
    | some st1 =>
      rw [hstep, Option.bind_some] at h
      rw [ih st1 st' h, siteStep_entry look e he2 st st1 b k hstep]
      by_cases hid : e = "site_id"
      · simp only [hid, if_true, List.flatMap_cons, List.filter_append, List.getLast?_append]
        cases (List.filter (fun r => decide (siteKey r = k)) (List.flatMap (contrib "site_id" look) rest)).getLast? <;> simp
      · simp only [hid, if_false, List.flatMap_cons, List.filter_append, List.append_assoc]


theorem dget_map_val {β} (g : String → β → β) (T : List (String × β)) (key : String) :
    dget? (T.map fun kv => (kv.1, g kv.1 kv.2)) key = (dget? T key).map (g key) := by
  induction T with
  | nil => rfl
  | cons p rest ih =>
    obtain ⟨k, v⟩ := p
    by_cases h : k = key
    · subst h; simp [dget?]
    · simp [dget?, h, ih]

def frameRows (fr : Str) (e' : String) (rows : List Row) : List Row :=
  if e' = "solution_estimate" then rows.map fun r => dset r "ref_frame" (Cell.str fr) else rows

def frameEntries (fr : Str) (site : String) (entries : List (String × List Row)) : List (String × List Row) :=
  if site.length = 4 then entries.map fun ev => (ev.1, frameRows fr ev.1 ev.2) else entries

theorem addRefFrame_eq (fr : Str) (T : SiteTable) :
    addRefFrame (some fr) T = T.map fun kv => (kv.1, frameEntries fr kv.1 kv.2) := by
  simp only [addRefFrame]
  apply List.map_congr_left
  intro kv _
  obtain ⟨site, entries⟩ := kv
  by_cases h4 : site.length = 4
  · simp only [h4, if_true, frameEntries, Prod.mk.injEq, true_and]
    apply List.map_congr_left
    intro ev _
    obtain ⟨e', rows⟩ := ev
    by_cases h : e' = "solution_estimate" <;> simp [h, frameRows]
  · simp [h4, frameEntries]

/-- **the reference-frame step, site by site**: the rows stay where they are; the `solution_estimate` rows of sites
with a four-character key get `ref_frame`, nothing else changes -/
theorem entryRows_addRefFrame (e : String) (frame : Option Str) (T : SiteTable) (k : String) :
    entryRows e (addRefFrame frame T) k =
      match frame with
      | some fr =>
        if k.length = 4 ∧ e = "solution_estimate" then (entryRows e T k).map fun r => dset r "ref_frame" (Cell.str fr)
        else entryRows e T k
      | Option.none => entryRows e T k := by
  cases frame with
  | none => rfl
  | some fr =>
    unfold entryRows
    rw [addRefFrame_eq, dget_map_val (frameEntries fr) T k]
    cases hk : dget? T k with
    | none => simp
    | some entries =>
      simp only [Option.map_some, Option.bind_some]
      by_cases h4 : k.length = 4
      · simp only [h4, true_and, frameEntries, if_true]
        rw [dget_map_val (frameRows fr) entries e]
        cases dget? entries e with
        | none => simp
        | some rows => by_cases h : e = "solution_estimate" <;> simp [h, frameRows]
      · simp [h4, frameEntries]

/-- a block that is not FILE/COMMENT leaves the reference frame alone -/
theorem siteStep_frame_other (look : String → Option RawBlock) (st st1 : SiteTable × Option Str) (b : BlockDef)
    (hb : OtherEntry "file_comment" b) (h : siteStep look st b = some st1) : st1.2 = st.2 := by
  unfold siteStep at h
  cases hlook : look b.marker with
  | none => simp only [hlook, Option.some.injEq] at h; subst h; rfl
  | some r =>
    cases hk : b.kind with
    | dflt => simp [hlook, hk] at h
    | matrix _ => simp [hlook, hk] at h
    | custom q =>
      have hq : ¬ entryName q = "file_comment" := hb q hk
      simp only [hlook, hk, hq, if_false] at h
      by_cases h2 : entryName q = "site_id"
      · simp only [h2, if_true, Option.some.injEq] at h; subst h; rfl
      · simp only [h2, if_false] at h
        by_cases ha : entryName q = "site_antenna"
        · simp only [ha, if_true] at h
          cases hm : (rowsOf b 81 r).mapM antennaRow with
          | none => simp [hm] at h
          | some rows' => simp only [hm, Option.map_some, Option.some.injEq] at h; subst h; rfl
        · simp only [ha, if_false, Option.some.injEq] at h; subst h; rfl

theorem site_fold_frame_other (look : String → Option RawBlock) :
    ∀ (bs : List BlockDef) (st st' : SiteTable × Option Str), (∀ b ∈ bs, OtherEntry "file_comment" b) →
      bs.foldlM (siteStep look) st = some st' → st'.2 = st.2 := by
  intro bs
  induction bs with
  | nil =>
    intro st st' _ h
    simp only [List.foldlM_nil, Option.pure_def, Option.some.injEq] at h
    subst h; rfl
  | cons b rest ih =>
    intro st st' hall h
    simp only [List.foldlM_cons, Option.bind_eq_bind] at h
    cases hstep : siteStep look st b with
    | none => simp [hstep] at h
    | some st1 =>
      rw [hstep, Option.bind_some] at h
      rw [ih st1 st' (fun b' hb' => hall b' (by simp [hb'])) h]
      exact siteStep_frame_other look st st1 b (hall b (by simp)) hstep

/-- **the reference frame**: with one FILE/COMMENT block declared, the frame the parser keeps is `parse_file_comment`
of that block's rows -/
theorem site_fold_frame (look : String → Option RawBlock) (pre post : List BlockDef) (b : BlockDef) (q : String)
    (hk : b.kind = .custom q) (hq : entryName q = "file_comment")
    (hpost : ∀ b' ∈ post, OtherEntry "file_comment" b')
    (r : RawBlock) (hr : look b.marker = some r) (st0 st : SiteTable × Option Str)
    (h : (pre ++ b :: post).foldlM (siteStep look) st0 = some st) :
    refFrame (rowsOf b 81 r) = some st.2 := by
  rw [List.foldlM_append] at h
  cases h1 : pre.foldlM (siteStep look) st0 with
  | none => simp [h1] at h
  | some st1 =>
    simp only [h1, Option.bind_eq_bind, Option.bind_some, List.foldlM_cons] at h
    cases h2 : siteStep look st1 b with
    | none => simp [h2] at h
    | some st2 =>
      rw [h2, Option.bind_some] at h
      rw [site_fold_frame_other look post st2 st hpost h]
      unfold siteStep at h2
      simp only [hr, hk, hq, if_true] at h2
      cases hf : refFrame (rowsOf b 81 r) with
      | none => simp [hf] at h2
      | some fr =>
        simp only [hf, Option.map_some, Option.some.injEq] at h2
        subst h2; rfl

/-- one comment row of `parse_file_comment` -/
def refStep (acc : Option Str) (r : Row) : Option (Option Str) :=
  if startsWith "LOCAL_GEODETIC_DATUM".toList (cellStr ((r.headD ("", .none)).2)) then
    match splitOn ':' (cellStr ((r.headD ("", .none)).2)) with
    | _ :: p :: _ => some (some (strip p))
    | _ => Option.none
  else some acc

theorem refFrame_eq (rows : List Row) : refFrame rows = rows.foldlM refStep Option.none := rfl

theorem refStep_skip : ∀ (rows : List Row) (acc : Option Str),
    (∀ r ∈ rows, startsWith "LOCAL_GEODETIC_DATUM".toList (cellStr ((r.headD ("", .none)).2)) = false) →
    rows.foldlM refStep acc = some acc := by
  intro rows
  induction rows with
  | nil => intro acc _; rfl
  | cons x rest ih =>
    intro acc hx
    rw [List.foldlM_cons]
    have : refStep acc x = some acc := by
      unfold refStep
      rw [hx x (by simp)]
      rfl
    rw [this]
    exact ih acc (fun r hr => hx r (by simp [hr]))

/-- `parse_file_comment`: a comment `LOCAL_GEODETIC_DATUM:<frame>` gives the stripped frame (other comments are
ignored) -/
theorem refFrame_value (pre post : List Row) (row : Row) (p : Str)
    (hpre : ∀ r ∈ pre, startsWith "LOCAL_GEODETIC_DATUM".toList (cellStr ((r.headD ("", .none)).2)) = false)
    (hpost : ∀ r ∈ post, startsWith "LOCAL_GEODETIC_DATUM".toList (cellStr ((r.headD ("", .none)).2)) = false)
    (hrow : cellStr ((row.headD ("", .none)).2) = "LOCAL_GEODETIC_DATUM".toList ++ ':' :: p) (hp : ∀ c ∈ p, c ≠ ':') :
    refFrame (pre ++ row :: post) = some (some (strip p)) := by
  rw [refFrame_eq, List.foldlM_append, refStep_skip pre _ hpre]
  have hsw : startsWith "LOCAL_GEODETIC_DATUM".toList ("LOCAL_GEODETIC_DATUM".toList ++ ':' :: p) = true := by
    simp [startsWith]
  have hsplit : splitOn ':' ("LOCAL_GEODETIC_DATUM".toList ++ ':' :: p) = ["LOCAL_GEODETIC_DATUM".toList, p] := by
    unfold splitOn
    rw [splitOnAux_line ':' _ (by decide), splitOnAux_nosep ':' p hp]
    rfl
  have hstep : refStep Option.none row = some (some (strip p)) := by
    simp only [refStep, hrow, hsw, if_true, hsplit]
  simp only [Option.bind_eq_bind, Option.bind_some, List.foldlM_cons, hstep]
  exact refStep_skip post _ hpost


/-! ### SITE/ID: one record per site code — the finding `site:site_id:row-count` and its exact complement -/

/-- site `k` already has an entry `e` -/
def hasE (e : String) (T : SiteTable) (k : String) : Bool := ((dget? T k).bind fun s => dget? s e).isSome

/-- every stored entry `e` holds exactly one row -/
def SingleInv (e : String) (T : SiteTable) : Prop := ∀ kv ∈ T, ∀ rows, dget? kv.2 e = some rows → rows.length = 1

theorem length_allRows_addRow_true (e : String) (key : String) (r : Row) : ∀ T : SiteTable, SingleInv e T →
    (allRows e (addRow true e T key r)).length = (allRows e T).length + (if hasE e T key then 0 else 1) := by
  intro T
  induction T with
  | nil => intro _; simp [addRow, dset, dget?, allRows, hasE]
  | cons p rest ih =>
    intro hinv
    obtain ⟨k', s'⟩ := p
    by_cases hk : k' = key
    · subst hk
      simp only [addRow, dget?, if_true, Option.getD_some, dset, allRows, List.flatMap_cons, dget_dset_self,
        List.length_append, hasE, Option.bind_some]
      cases hs : dget? s' e with
      | none => simp <;> omega
      | some rows =>
        have := hinv (k', s') (by simp) rows hs
        simp [this] <;> omega
    · have hrest : SingleInv e rest := fun kv hkv => hinv kv (by simp [hkv])
      have := ih hrest
      simp only [addRow, if_true] at this
      simp only [addRow, dget?, hk, if_false, dset, allRows, List.flatMap_cons, List.length_append, hasE, if_true]
      simp only [allRows, hasE] at this
      rw [this]
      exact (Nat.add_assoc _ _ _).symm

theorem singleInv_addRow_true (e : String) (key : String) (r : Row) : ∀ T : SiteTable, SingleInv e T →
    SingleInv e (addRow true e T key r) := by
  intro T
  induction T with
  | nil =>
    intro _ kv hkv rows hrows
    simp only [addRow, dget?, Option.getD_none, dset, if_true, List.mem_cons, List.not_mem_nil, or_false] at hkv
    subst hkv
    simp only [dget?, if_true, Option.some.injEq] at hrows
    subst hrows; rfl
  | cons p rest ih =>
    intro hinv
    obtain ⟨k', s'⟩ := p
    have hrest : SingleInv e rest := fun kv hkv => hinv kv (by simp [hkv])
    by_cases hk : k' = key
    · subst hk
      intro kv hkv rows hrows
      simp only [addRow, dget?, if_true, Option.getD_some, dset, List.mem_cons] at hkv
      rcases hkv with rfl | hkv
      · simp only [dget_dset_self, Option.some.injEq] at hrows
        subst hrows; rfl
      · exact hrest kv hkv rows hrows
    · intro kv hkv rows hrows
      simp only [addRow, dget?, hk, if_false, dset, if_true, List.mem_cons] at hkv
      rcases hkv with rfl | hkv
      · exact hinv (k', s') (by simp) rows hrows
      · have := ih hrest
        simp only [addRow, if_true] at this
        exact this kv hkv rows hrows

theorem hasE_addRow_true (e : String) (T : SiteTable) (key : String) (r : Row) (k' : String) :
    hasE e (addRow true e T key r) k' = (hasE e T k' || decide (k' = key)) := by
  unfold hasE addRow
  by_cases hk : k' = key
  · subst hk
    simp [dget_dset_self]
  · rw [dget_dset_ne _ _ _ _ (Ne.symm hk)]
    simp [hk]

/-- in `data[site][entry] = row` mode, `rows.length` more rows are stored exactly when the keys of the rows are pairwise
different and none of them was there before; otherwise fewer -/
theorem count_regroup_true (e : String) (keyOf : Row → String) (f : Row → Row) (rows : List Row) :
    ∀ T : SiteTable, SingleInv e T →
      (allRows e (regroup true e keyOf f T rows)).length ≤ (allRows e T).length + rows.length ∧
      ((allRows e (regroup true e keyOf f T rows)).length = (allRows e T).length + rows.length ↔
        ((rows.map keyOf).Nodup ∧ ∀ r ∈ rows, hasE e T (keyOf r) = false)) := by
  induction rows with
  | nil => intro T _; simp [regroup]
  | cons r rows ih =>
    intro T hinv
    simp only [regroup, List.foldl_cons] at ih ⊢
    obtain ⟨hle, hiff⟩ := ih (addRow true e T (keyOf r) (f r)) (singleInv_addRow_true e _ _ T hinv)
    have hA := length_allRows_addRow_true e (keyOf r) (f r) T hinv
    constructor
    · rw [hA] at hle
      simp only [List.length_cons]
      split at hle <;> omega
    · simp only [List.length_cons, List.map_cons, List.nodup_cons, List.mem_cons, forall_eq_or_imp]
      by_cases hh : hasE e T (keyOf r) = true
      · -- the key is there already: a row is replaced
        rw [hA] at hle
        simp only [hh, if_true] at hle
        constructor
        · intro heq; omega
        · intro ⟨_, hfalse, _⟩; rw [hh] at hfalse; cases hfalse
      · have hh' : hasE e T (keyOf r) = false := by simpa using hh
        rw [hA] at hiff
        simp only [hh', Bool.false_eq_true, if_false] at hiff
        have hiff' : (allRows e (List.foldl (fun T r => addRow true e T (keyOf r) (f r)) (addRow true e T (keyOf r) (f r)) rows)).length =
            (allRows e T).length + (rows.length + 1) ↔
            ((rows.map keyOf).Nodup ∧ ∀ r' ∈ rows, hasE e (addRow true e T (keyOf r) (f r)) (keyOf r') = false) := by
          rw [← hiff]; constructor <;> (intro h; omega)
        rw [hiff']
        simp only [hasE_addRow_true, Bool.or_eq_false_iff, decide_eq_false_iff_not, hh', true_and]
        constructor
        · intro ⟨hnd, hall⟩
          refine ⟨⟨fun hm => ?_, hnd⟩, fun r' hr' => (hall r' hr').1⟩
          simp only [List.mem_map] at hm
          obtain ⟨r', hr', heq⟩ := hm
          exact (hall r' hr').2 heq
        · intro ⟨⟨hnot, hnd⟩, hall⟩
          exact ⟨hnd, fun r' hr' => ⟨hall r' hr', fun heq => hnot (List.mem_map.mpr ⟨r', hr', heq⟩)⟩⟩

/-- **SITE/ID row count**: `sinex_site` returns as many SITE/ID records as were written **if and only if** the
(lower-cased) site codes of the records are pairwise different; otherwise it returns fewer — the known finding
`site:site_id:row-count` is exactly the complement of the hypothesis of `site_file_site_id` -/
theorem site_id_count (rows : List Row) :
    (allRows "site_id" (regroup true "site_id" siteKey id [] rows)).length ≤ rows.length ∧
    ((allRows "site_id" (regroup true "site_id" siteKey id [] rows)).length = rows.length ↔ (rows.map siteKey).Nodup) := by
  have hinv : SingleInv "site_id" [] := fun kv hkv => by simp at hkv
  obtain ⟨h1, h2⟩ := count_regroup_true "site_id" siteKey id rows [] hinv
  simp only [allRows, List.flatMap_nil, List.length_nil, Nat.zero_add] at h1 h2
  refine ⟨h1, ?_⟩
  simp only [allRows]
  rw [h2]
  simp [hasE, dget?]


/-! ### sinex_site from the file text -/

/-- `SinexSiteParser.parse()` on the text of a file -/
theorem parseSite_file (header : List FieldDef) (blocks : List BlockDef) (F : SnxFile) (hwf : F.wf) (R : Result)
    (hR : parseSiteFile header blocks F.text = some R) :
    R.hdr = headerRow snxTag header (fun _ => 81) F.header ∧
    ∃ st, blocks.foldlM (siteStep (rawOf (expected (blocks.map (·.marker)) F.segs))) ([], Option.none) = some st ∧
      R.data = siteTableVal (addRefFrame st.2 st.1) := by
  unfold parseSiteFile parseWith at hR
  rw [readRaw_file _ _ _ _ _ hwf] at hR
  simp only [Option.bind_some, assembleSite] at hR
  cases hst : blocks.foldlM (siteStep (rawOf (expected (blocks.map (·.marker)) F.segs))) ([], Option.none) with
  | none => rw [hst] at hR; simp at hR
  | some st =>
    rw [hst] at hR
    simp only [Option.map_some, Option.some.injEq] at hR
    subst hR
    exact ⟨rfl, st, rfl, rfl⟩

theorem contrib_other (e : String) (look : String → Option RawBlock) (b : BlockDef) (hb : OtherEntry e b) :
    contrib e look b = [] := by
  unfold contrib
  cases look b.marker with
  | none => rfl
  | some r =>
    cases hk : b.kind with
    | dflt => rfl
    | matrix _ => rfl
    | custom q => simp [hb q hk]

theorem flatMap_contrib_single (e : String) (look : String → Option RawBlock) (pre post : List BlockDef) (b : BlockDef)
    (hpre : ∀ b' ∈ pre, OtherEntry e b') (hpost : ∀ b' ∈ post, OtherEntry e b') :
    (pre ++ b :: post).flatMap (contrib e look) = contrib e look b := by
  have h1 : pre.flatMap (contrib e look) = [] := by
    rw [List.flatMap_eq_nil_iff]; exact fun b' hb' => contrib_other e look b' (hpre b' hb')
  have h2 : post.flatMap (contrib e look) = [] := by
    rw [List.flatMap_eq_nil_iff]; exact fun b' hb' => contrib_other e look b' (hpost b' hb')
  simp [List.flatMap_append, h1, h2]

/-- what the first block of `b`'s marker in a file contributes: its written records, converted -/
theorem contrib_file (e : String) (b : BlockDef) (q : String) (hk : b.kind = .custom q) (hq : entryName q = e)
    (hna : e ≠ "site_antenna") (hs : Sorted (layoutOf b.fields 81) = true) (hl : leadOk (layoutOf b.fields 81) = true)
    (segs : List Seg) (ps : List Str) (items : List Item) (hitems : ∀ i ∈ items, i.wf b.fields 81)
    (hfb : FirstBlock segs b.marker ps (content b.fields 81 items)) (w : List String) (hw : b.marker ∈ w) :
    contrib e (rawOf (expected w segs)) b = (records items).map (convertRow b.fields) := by
  obtain ⟨pre, post, h, mk, f, rfl, hmk, hfirst⟩ := hfb
  obtain ⟨r, hr, _, hrows⟩ := file_block_rows b w hw 81 hs hl pre post h mk ps f items hmk hfirst hitems
  unfold contrib
  simp only [hr, hk, hq, if_true, hna, if_false, rowsOf, hrows]

theorem filter_key_nodup (key : Row → String) (rows : List Row) (h : (rows.map key).Nodup) (r : Row) (hr : r ∈ rows) :
    (rows.filter fun r' => key r' = key r) = [r] := by
  induction rows with
  | nil => simp at hr
  | cons x rest ih =>
    simp only [List.map_cons, List.nodup_cons] at h
    rcases List.mem_cons.mp hr with rfl | hin
    · have : rest.filter (fun r' => decide (key r' = key r)) = [] := by
        rw [List.filter_eq_nil_iff]
        intro r' hr' heq
        simp only [decide_eq_true_eq] at heq
        exact h.1 (by rw [← heq]; exact List.mem_map_of_mem hr')
      simp [List.filter_cons, this]
    · have hx : ¬ key x = key r := fun heq => h.1 (by rw [heq]; exact List.mem_map_of_mem hin)
      simp only [List.filter_cons, hx, decide_false, Bool.false_eq_true, if_false]
      exact ih h.2 hin

/-- **SITE/ID at file level**: `sinex_site` (the SITE/ID block the only one stored under `site_id`) reads a file holding a
SITE/ID block (first of its marker, anywhere) whose records have pairwise different (lower-cased) site codes.  Then
in the returned table every written record sits, converted, under `data[site_code.lower()]["site_id"]`. -/
theorem site_file_site_id (pre post : List BlockDef) (b : BlockDef) (q : String)
    (hk : b.kind = .custom q) (hq : entryName q = "site_id")
    (hpre : ∀ b' ∈ pre, OtherEntry "site_id" b') (hpost : ∀ b' ∈ post, OtherEntry "site_id" b')
    (hs : Sorted (layoutOf b.fields 81) = true) (hl : leadOk (layoutOf b.fields 81) = true)
    (segs : List Seg) (ps : List Str) (items : List Item) (hitems : ∀ i ∈ items, i.wf b.fields 81)
    (hfb : FirstBlock segs b.marker ps (content b.fields 81 items))
    (hnd : (((records items).map (convertRow b.fields)).map siteKey).Nodup)
    (st : SiteTable × Option Str)
    (hfold : (pre ++ b :: post).foldlM (siteStep (rawOf (expected ((pre ++ b :: post).map (·.marker)) segs)))
      ([], Option.none) = some st) :
    ∀ r ∈ (records items).map (convertRow b.fields),
      entryRows "site_id" (addRefFrame st.2 st.1) (siteKey r) = [r] := by
  intro r hr
  have hframe : entryRows "site_id" (addRefFrame st.2 st.1) (siteKey r) = entryRows "site_id" st.1 (siteKey r) := by
    rw [entryRows_addRefFrame]
    have : ¬ "site_id" = "solution_estimate" := by decide
    cases st.2 <;> simp [this]
  rw [hframe, site_fold_entry _ "site_id" (by decide) (siteKey r) _ _ st hfold]
  simp only [if_true]
  rw [flatMap_contrib_single "site_id" _ pre post b hpre hpost,
    contrib_file "site_id" b q hk hq (by decide) hs hl segs ps items hitems hfb _ (by simp),
    filter_key_nodup siteKey _ hnd r hr]
  rfl

/-- **every other site block at file level, site by site, with the reference frame**: under entry `e` (receiver,
eccentricity, solution epochs, solution estimate …; its block the only one of that entry) site `k` holds exactly the
written records whose site code is `k`, in file order; the `solution_estimate` rows of four-character sites carry
`ref_frame` when the parser kept a frame -/
theorem site_file_entry (e : String) (he1 : e ≠ "site_id") (he2 : e ≠ "file_comment") (hna : e ≠ "site_antenna")
    (pre post : List BlockDef) (b : BlockDef) (q : String) (hk : b.kind = .custom q) (hq : entryName q = e)
    (hpre : ∀ b' ∈ pre, OtherEntry e b') (hpost : ∀ b' ∈ post, OtherEntry e b')
    (hs : Sorted (layoutOf b.fields 81) = true) (hl : leadOk (layoutOf b.fields 81) = true)
    (segs : List Seg) (ps : List Str) (items : List Item) (hitems : ∀ i ∈ items, i.wf b.fields 81)
    (hfb : FirstBlock segs b.marker ps (content b.fields 81 items))
    (st : SiteTable × Option Str)
    (hfold : (pre ++ b :: post).foldlM (siteStep (rawOf (expected ((pre ++ b :: post).map (·.marker)) segs)))
      ([], Option.none) = some st) (k : String) :
    entryRows e (addRefFrame st.2 st.1) k =
      match st.2 with
      | some fr =>
        if k.length = 4 ∧ e = "solution_estimate" then
          (((records items).map (convertRow b.fields)).filter fun r => siteKey r = k).map fun r =>
            dset r "ref_frame" (Cell.str fr)
        else ((records items).map (convertRow b.fields)).filter fun r => siteKey r = k
      | Option.none => ((records items).map (convertRow b.fields)).filter fun r => siteKey r = k := by
  have hrows : entryRows e st.1 k = ((records items).map (convertRow b.fields)).filter fun r => siteKey r = k := by
    rw [site_fold_entry _ e he2 k _ _ st hfold]
    simp only [he1, if_false]
    rw [flatMap_contrib_single e _ pre post b hpre hpost,
      contrib_file e b q hk hq hna hs hl segs ps items hitems hfb _ (by simp)]
    simp [entryRows, dget?]
  rw [entryRows_addRefFrame, hrows]

/-- **the frame at file level**: with a FILE/COMMENT block declared and present, the frame `sinex_site` keeps is
`parse_file_comment` of that block's written records (`refFrame_value`: the text after `LOCAL_GEODETIC_DATUM:`) -/
theorem site_file_frame (pre post : List BlockDef) (b : BlockDef) (q : String)
    (hk : b.kind = .custom q) (hq : entryName q = "file_comment") (hpost : ∀ b' ∈ post, OtherEntry "file_comment" b')
    (hs : Sorted (layoutOf b.fields 81) = true) (hl : leadOk (layoutOf b.fields 81) = true)
    (segs : List Seg) (ps : List Str) (items : List Item) (hitems : ∀ i ∈ items, i.wf b.fields 81)
    (hfb : FirstBlock segs b.marker ps (content b.fields 81 items))
    (st : SiteTable × Option Str)
    (hfold : (pre ++ b :: post).foldlM (siteStep (rawOf (expected ((pre ++ b :: post).map (·.marker)) segs)))
      ([], Option.none) = some st) :
    refFrame ((records items).map (convertRow b.fields)) = some st.2 := by
  obtain ⟨pre', post', h, mk, f, rfl, hmk, hfirst⟩ := hfb
  obtain ⟨r, hr, _, hrows⟩ := file_block_rows b ((pre ++ b :: post).map (·.marker)) (by simp) 81 hs hl pre' post' h mk ps f
    items hmk hfirst hitems
  have := site_fold_frame _ pre post b q hk hq hpost r hr _ st hfold
  simpa [rowsOf, hrows] using this


/-- the declared blocks of `SinexSiteParser` satisfy the table hypotheses of `site_file_site_id` -/
example : ∃ pre post b q, siteBlocks = pre ++ b :: post ∧ b.kind = .custom q ∧ entryName q = "site_id" ∧
    (∀ b' ∈ pre ++ post, OtherEntry "site_id" b') ∧ Sorted (layoutOf b.fields 81) = true ∧ leadOk (layoutOf b.fields 81) = true := by
  refine ⟨siteBlocks.take 1, siteBlocks.drop 2, siteBlocks[1], "SinexSiteParser.parse_site_id", by decide +kernel, by decide +kernel,
    by decide +kernel, ?_, by decide +kernel, by decide +kernel⟩
  intro b' hb'
  simp only [siteBlocks, List.take, List.drop, List.cons_append, List.nil_append, List.mem_cons, List.not_mem_nil, or_false] at hb'
  rcases hb' with rfl | rfl | rfl | rfl | rfl | rfl <;>
    (intro q hq; simp only [ParserKind.custom.injEq] at hq; subst hq; decide +kernel)

/-- two SITE/ID records with the same site code: one comes back (the finding), with different codes both do -/
example : (allRows "site_id" (regroup true "site_id" siteKey id []
      [[("site_code", .str "ZIMM".toList), ("point_code", .str "A".toList)],
       [("site_code", .str "zimm".toList), ("point_code", .str "B".toList)]])).length = 1 ∧
    (allRows "site_id" (regroup true "site_id" siteKey id []
      [[("site_code", .str "ZIMM".toList), ("point_code", .str "A".toList)],
       [("site_code", .str "ZIM2".toList), ("point_code", .str "B".toList)]])).length = 2 := by decide +kernel

/-! ## 16. sinex_tro: what `SinexTropParser` stores under each key -/

def keywordOf (row : Row) : String := asString (cellStr (lookup row "keyword"))
def stationOf (row : Row) : String := asString (cellStr (lookup row "site_name"))
def restOf (row : Row) : Row := row.filter (·.1 ≠ "site_name")

/-- the keys of `self.data` a block of `SinexTropParser` writes: its marker (default parser), the keywords of its
rows (TROP/DESCRIPTION), the station names of its rows (TROP/SOLUTION) -/
def troKeys (look : String → Option RawBlock) (b : BlockDef) : List String :=
  match look b.marker with
  | Option.none => []
  | some r =>
    match b.kind with
    | .dflt => [b.marker]
    | .matrix _ => []
    | .custom q =>
      if entryName q = "trop_description" then (rowsOf b 81 r).map keywordOf
      else if entryName q = "trop_solution" then (rowsOf b 81 r).map stationOf
      else []

theorem foldl_desc_other (k : String) (rows : List Row) : ∀ D : List (String × Val), k ∉ rows.map keywordOf →
    dget? (rows.foldl troDescStep D) k = dget? D k := by
  induction rows with
  | nil => intro D _; rfl
  | cons r rest ih =>
    intro D hk
    simp only [List.map_cons, List.mem_cons, not_or] at hk
    simp only [List.foldl_cons]
    rw [ih _ hk.2]
    exact dget_dset_ne _ _ _ _ (fun e => hk.1 e.symm)

theorem foldl_sol_other (k : String) (rows : List Row) : ∀ D : List (String × Val), k ∉ rows.map stationOf →
    dget? (rows.foldl troSolStep D) k = dget? D k := by
  induction rows with
  | nil => intro D _; rfl
  | cons r rest ih =>
    intro D hk
    simp only [List.map_cons, List.mem_cons, not_or] at hk
    simp only [List.foldl_cons]
    rw [ih _ hk.2]
    exact dget_dset_ne _ _ _ _ (fun e => hk.1 e.symm)

/-- a block touches only the keys it writes -/
theorem troStep_other (look : String → Option RawBlock) (k : String) (D D' : List (String × Val)) (b : BlockDef)
    (hk : k ∉ troKeys look b) (h : troStep look D b = some D') : dget? D' k = dget? D k := by
  unfold troStep at h
  unfold troKeys at hk
  cases hlook : look b.marker with
  | none => simp only [hlook, Option.some.injEq] at h; subst h; rfl
  | some r =>
    simp only [hlook] at h hk
    cases hkind : b.kind with
    | dflt =>
      simp only [hkind, Option.some.injEq] at h
      simp only [hkind, List.mem_cons, List.not_mem_nil, or_false] at hk
      subst h
      exact dget_dset_ne _ _ _ _ (fun e => hk e.symm)
    | matrix _ => simp [hkind] at h
    | custom q =>
      simp only [hkind] at h hk
      by_cases h1 : entryName q = "trop_description"
      · simp only [h1, if_true, Option.some.injEq] at h hk
        subst h
        exact foldl_desc_other k _ D hk
      · simp only [h1, if_false] at h hk
        by_cases h2 : entryName q = "trop_solution"
        · simp only [h2, if_true, Option.some.injEq] at h hk
          subst h
          exact foldl_sol_other k _ D hk
        · simp [h2] at h

theorem tro_fold_other (look : String → Option RawBlock) (k : String) :
    ∀ (bs : List BlockDef) (D D' : List (String × Val)), (∀ b ∈ bs, k ∉ troKeys look b) →
      bs.foldlM (troStep look) D = some D' → dget? D' k = dget? D k := by
  intro bs
  induction bs with
  | nil =>
    intro D D' _ h
    simp only [List.foldlM_nil, Option.pure_def, Option.some.injEq] at h
    subst h; rfl
  | cons b rest ih =>
    intro D D' hall h
    simp only [List.foldlM_cons, Option.bind_eq_bind] at h
    cases hstep : troStep look D b with
    | none => simp [hstep] at h
    | some D1 =>
      rw [hstep, Option.bind_some] at h
      rw [ih D1 D' (fun b' hb' => hall b' (by simp [hb'])) h]
      exact troStep_other look k D D1 b (hall b (by simp)) hstep

theorem tro_fold_block (look : String → Option RawBlock) (k : String) (pre post : List BlockDef) (b : BlockDef)
    (hpre : ∀ b' ∈ pre, k ∉ troKeys look b') (hpost : ∀ b' ∈ post, k ∉ troKeys look b') (D : List (String × Val))
    (h : assembleTro (pre ++ b :: post) look = some D) :
    ∃ D1 D2, troStep look D1 b = some D2 ∧ dget? D1 k = Option.none ∧ dget? D k = dget? D2 k := by
  unfold assembleTro at h
  rw [List.foldlM_append] at h
  cases h1 : pre.foldlM (troStep look) [] with
  | none => simp [h1] at h
  | some D1 =>
    simp only [h1, Option.bind_eq_bind, Option.bind_some, List.foldlM_cons] at h
    cases h2 : troStep look D1 b with
    | none => simp [h2] at h
    | some D2 =>
      rw [h2, Option.bind_some] at h
      exact ⟨D1, D2, h2, by rw [tro_fold_other look k pre [] D1 hpre h1]; rfl, tro_fold_other look k post D2 D hpost h⟩

/-- **default blocks of sinex_tro** (FILE/REFERENCE, TROP/STA_COORDINATES …): `data[MARKER]` is the column dictionary
of the block's rows, provided no keyword of TROP/DESCRIPTION and no station of TROP/SOLUTION is spelled like the
marker (they share `self.data`) -/
theorem tro_default_block (look : String → Option RawBlock) (pre post : List BlockDef) (b : BlockDef) (hk : b.kind = .dflt)
    (hpre : ∀ b' ∈ pre, b.marker ∉ troKeys look b') (hpost : ∀ b' ∈ post, b.marker ∉ troKeys look b')
    (r : RawBlock) (hr : look b.marker = some r) (D : List (String × Val))
    (h : assembleTro (pre ++ b :: post) look = some D) :
    dget? D b.marker = some (.dict (columns b.fields (rowsOf b 81 r))) := by
  obtain ⟨D1, D2, h2, _, h4⟩ := tro_fold_block look b.marker pre post b hpre hpost D h
  unfold troStep at h2
  simp only [hr, hk, Option.some.injEq] at h2
  rw [h4, ← h2, dget_dset_self]

/-- TROP/DESCRIPTION rows written one after the other: the last row of a keyword gives its value -/
theorem foldl_desc_get (k : String) (rows : List Row) : ∀ D : List (String × Val),
    dget? (rows.foldl troDescStep D) k =
      match (rows.filter fun r => keywordOf r = k).getLast? with
      | some row => some (.cell (lookup row "value"))
      | Option.none => dget? D k := by
  induction rows with
  | nil => intro D; rfl
  | cons r rest ih =>
    intro D
    simp only [List.foldl_cons]
    rw [ih]
    by_cases hk : keywordOf r = k
    · subst hk
      simp only [List.filter_cons, decide_true, if_true, List.getLast?_cons]
      cases (rest.filter fun r' => decide (keywordOf r' = keywordOf r)).getLast? with
      | none => simp only [Option.getD_none]; exact dget_dset_self _ _ _
      | some x => simp
    · simp only [List.filter_cons, hk, decide_false, Bool.false_eq_true, if_false]
      cases (rest.filter fun r' => decide (keywordOf r' = k)).getLast? with
      | none => exact dget_dset_ne _ _ _ _ hk
      | some x => rfl

/-- **TROP/DESCRIPTION**: `data[keyword]` is the value of the (last) row with that keyword -/
theorem tro_description (look : String → Option RawBlock) (pre post : List BlockDef) (b : BlockDef) (q : String)
    (hk : b.kind = .custom q) (hq : entryName q = "trop_description") (k : String)
    (hpre : ∀ b' ∈ pre, k ∉ troKeys look b') (hpost : ∀ b' ∈ post, k ∉ troKeys look b')
    (r : RawBlock) (hr : look b.marker = some r) (D : List (String × Val))
    (h : assembleTro (pre ++ b :: post) look = some D) (row : Row)
    (hrow : ((rowsOf b 81 r).filter fun r' => keywordOf r' = k).getLast? = some row) :
    dget? D k = some (.cell (lookup row "value")) := by
  obtain ⟨D1, D2, h2, _, h4⟩ := tro_fold_block look k pre post b hpre hpost D h
  unfold troStep at h2
  simp only [hr, hk, hq, if_true, Option.some.injEq] at h2
  rw [h4, ← h2, foldl_desc_get, hrow]


/-! ### TROP/SOLUTION: one dictionary per station, updated row by row -/

theorem updateRow_eq (old new : Row) : updateRow old new = new.foldl (fun d kv => dset d kv.1 kv.2) old := rfl

theorem filterMap_cells (r : Row) :
    (r.map fun (k, c) => (k, Val.cell c)).filterMap (fun (k, v) => match v with | .cell c => some (k, c) | _ => Option.none) = r := by
  induction r with
  | nil => rfl
  | cons p rest ih =>
    obtain ⟨a, c⟩ := p
    simp only [List.map_cons, List.filterMap_cons]
    rw [ih]

theorem cellsOf_rowVal (D : List (String × Val)) (k : String) (r : Row) (h : dget? D k = some (rowVal r)) :
    cellsOf D k = r := by
  unfold cellsOf
  rw [h]
  exact filterMap_cells r

theorem cellsOf_none (D : List (String × Val)) (k : String) (h : dget? D k = Option.none) : cellsOf D k = [] := by
  unfold cellsOf; rw [h]

theorem dset_mid {α} (A B : List (String × α)) (k : String) (o v : α) (h : k ∉ keys A) :
    dset (A ++ (k, o) :: B) k v = A ++ (k, v) :: B := by
  induction A with
  | nil => simp [dset]
  | cons p rest ih =>
    obtain ⟨k', v'⟩ := p
    simp only [keys, List.map_cons, List.mem_cons, not_or] at h
    have : ¬ k' = k := fun e => h.1 e.symm
    simp only [List.cons_append, dset, this, if_false]
    rw [ih h.2]

/-- `dict.update` with a dictionary of the same keys (in the same order) replaces every value -/
theorem foldl_dset_same {α} (newS : List (String × α)) : ∀ (A oldS : List (String × α)), keys oldS = keys newS →
    (keys A ++ keys newS).Nodup → newS.foldl (fun d kv => dset d kv.1 kv.2) (A ++ oldS) = A ++ newS := by
  induction newS with
  | nil =>
    intro A oldS hk _
    have : oldS = [] := by simpa [keys] using hk
    simp [this]
  | cons p ns ih =>
    intro A oldS hk hnd
    obtain ⟨k, v⟩ := p
    cases oldS with
    | nil => simp [keys] at hk
    | cons po os =>
      obtain ⟨k', o⟩ := po
      simp only [keys, List.map_cons, List.cons.injEq] at hk
      obtain ⟨rfl, hks⟩ := hk
      have hkA : k' ∉ keys A := by
        have := (List.nodup_append.mp hnd).2.2
        intro hm
        exact this k' hm k' (by simp [keys]) rfl
      simp only [List.foldl_cons]
      rw [dset_mid A os k' o v hkA]
      have := ih (A ++ [(k', v)]) os hks (by
        simp only [keys, List.map_append, List.map_cons, List.map_nil, List.append_assoc, List.cons_append, List.nil_append]
        simpa [keys] using hnd)
      simpa [List.append_assoc] using this

theorem updateRow_same (old new : Row) (hk : keys old = keys new) (hnd : (keys new).Nodup) : updateRow old new = new := by
  rw [updateRow_eq]
  have := foldl_dset_same new [] old hk (by simpa [keys] using hnd)
  simpa using this

theorem updateRow_nil (new : Row) (hnd : (keys new).Nodup) : updateRow [] new = new := by
  rw [updateRow_eq]
  have := foldl_dset_append new [] (by simpa using hnd)
  simpa using this

/-- the station either has no dictionary yet or one with the keys `ks` -/
def RowAt (ks : List String) (D : List (String × Val)) (k : String) : Prop :=
  dget? D k = Option.none ∨ ∃ r, keys r = ks ∧ dget? D k = some (rowVal r)

theorem solStep_get (ks : List String) (hnd : ks.Nodup) (D : List (String × Val)) (row : Row)
    (hrow : keys (restOf row) = ks) (hat : RowAt ks D (stationOf row)) (k : String) :
    dget? (troSolStep D row) k = if stationOf row = k then some (rowVal (restOf row)) else dget? D k := by
  have hupd : updateRow (cellsOf D (stationOf row)) (restOf row) = restOf row := by
    rcases hat with hn | ⟨r, hkr, hr⟩
    · rw [cellsOf_none D _ hn]; exact updateRow_nil _ (by rw [hrow]; exact hnd)
    · rw [cellsOf_rowVal D _ r hr]; exact updateRow_same _ _ (by rw [hkr, hrow]) (by rw [hrow]; exact hnd)
  have hstep : troSolStep D row = dset D (stationOf row) (rowVal (restOf row)) := by
    unfold troSolStep
    simp only
    rw [show asString (cellStr (lookup row "site_name")) = stationOf row from rfl,
      show row.filter (·.1 ≠ "site_name") = restOf row from rfl, hupd]
  rw [hstep]
  by_cases h : stationOf row = k
  · subst h; simp [dget_dset_self]
  · simp only [h, if_false]; exact dget_dset_ne _ _ _ _ h

/-- TROP/SOLUTION rows written one after the other: a station's dictionary is its last row (without `site_name`) -/
theorem foldl_sol_get (ks : List String) (hnd : ks.Nodup) (k : String) (rows : List Row) :
    ∀ D : List (String × Val), (∀ row ∈ rows, keys (restOf row) = ks) → (∀ row ∈ rows, RowAt ks D (stationOf row)) →
      dget? (rows.foldl troSolStep D) k =
        match (rows.filter fun r => stationOf r = k).getLast? with
        | some row => some (rowVal (restOf row))
        | Option.none => dget? D k := by
  induction rows with
  | nil => intro D _ _; rfl
  | cons r rest ih =>
    intro D hkeys hat
    simp only [List.foldl_cons]
    have hr := solStep_get ks hnd D r (hkeys r (by simp)) (hat r (by simp))
    have hat' : ∀ row ∈ rest, RowAt ks (troSolStep D r) (stationOf row) := by
      intro row hrow
      unfold RowAt
      rw [hr (stationOf row)]
      by_cases h : stationOf r = stationOf row
      · simp only [h, if_true]
        exact Or.inr ⟨restOf r, hkeys r (by simp), rfl⟩
      · simp only [h, if_false]
        exact hat row (by simp [hrow])
    rw [ih _ (fun row h' => hkeys row (by simp [h'])) hat', hr k]
    by_cases hk : stationOf r = k
    · subst hk
      simp only [List.filter_cons, decide_true, if_true, List.getLast?_cons]
      cases (rest.filter fun r' => decide (stationOf r' = stationOf r)).getLast? <;> simp
    · simp only [List.filter_cons, hk, decide_false, Bool.false_eq_true, if_false]

/-- **TROP/SOLUTION**: `data[station]` is the dictionary of the (last) row of that station, without `site_name` — the
rows of a block all have the fields `ks` of its table; no earlier block wrote a key spelled like one of the
block's stations -/
theorem tro_solution (look : String → Option RawBlock) (pre post : List BlockDef) (b : BlockDef) (q : String)
    (hk : b.kind = .custom q) (hq : entryName q = "trop_solution") (k : String)
    (r : RawBlock) (hr : look b.marker = some r)
    (hpre : ∀ b' ∈ pre, ∀ row ∈ rowsOf b 81 r, stationOf row ∉ troKeys look b')
    (hpost : ∀ b' ∈ post, k ∉ troKeys look b')
    (ks : List String) (hnd : ks.Nodup) (hkeys : ∀ row ∈ rowsOf b 81 r, keys (restOf row) = ks)
    (D : List (String × Val)) (h : assembleTro (pre ++ b :: post) look = some D) (row : Row)
    (hrow : ((rowsOf b 81 r).filter fun r' => stationOf r' = k).getLast? = some row) :
    dget? D k = some (rowVal (restOf row)) := by
  unfold assembleTro at h
  rw [List.foldlM_append] at h
  cases h1 : pre.foldlM (troStep look) [] with
  | none => simp [h1] at h
  | some D1 =>
    simp only [h1, Option.bind_eq_bind, Option.bind_some, List.foldlM_cons] at h
    cases h2 : troStep look D1 b with
    | none => simp [h2] at h
    | some D2 =>
      rw [h2, Option.bind_some] at h
      rw [tro_fold_other look k post D2 D hpost h]
      unfold troStep at h2
      have hne : ¬ "trop_solution" = "trop_description" := by decide
      simp only [hr, hk, hq, hne, if_false, if_true, Option.some.injEq] at h2
      rw [← h2, foldl_sol_get ks hnd k _ D1 hkeys, hrow]
      intro row' hrow'
      left
      rw [tro_fold_other look _ pre [] D1 (fun b' hb' => hpre b' hb' row' hrow') h1]
      rfl


/-! ### sinex_tro from the file text -/

/-- `SinexTropParser.parse()` on the text of a file -/
theorem parseTro_file (header : List FieldDef) (blocks : List BlockDef) (F : SnxFile) (hwf : F.wf) (R : Result)
    (hR : parseTroFile header blocks F.text = some R) :
    R.hdr = headerRow snxTag header (fun _ => 81) F.header ∧
    ∃ D, R.data = .dict D ∧ assembleTro blocks (rawOf (expected (blocks.map (·.marker)) F.segs)) = some D := by
  unfold parseTroFile parseWith at hR
  rw [readRaw_file _ _ _ _ _ hwf] at hR
  simp only [Option.bind_some] at hR
  cases hD : assembleTro blocks (rawOf (expected (blocks.map (·.marker)) F.segs)) with
  | none => rw [hD] at hR; simp at hR
  | some D =>
    rw [hD] at hR
    simp only [Option.map_some, Option.some.injEq] at hR
    subst hR
    exact ⟨rfl, D, rfl, rfl⟩

/-- the rows a file delivers for the first block of `b`'s marker -/
theorem file_rows (b : BlockDef) (hs : Sorted (layoutOf b.fields 81) = true) (hl : leadOk (layoutOf b.fields 81) = true)
    (segs : List Seg) (ps : List Str) (items : List Item) (hitems : ∀ i ∈ items, i.wf b.fields 81)
    (hfb : FirstBlock segs b.marker ps (content b.fields 81 items)) (w : List String) (hw : b.marker ∈ w) :
    ∃ r, rawOf (expected w segs) b.marker = some r ∧ rowsOf b 81 r = (records items).map (convertRow b.fields) := by
  obtain ⟨pre, post, h, mk, f, rfl, hmk, hfirst⟩ := hfb
  obtain ⟨r, hr, _, hrows⟩ := file_block_rows b w hw 81 hs hl pre post h mk ps f items hmk hfirst hitems
  exact ⟨r, hr, by simp only [rowsOf, hrows]⟩

/-- every record of a table has the same keys: the validated names of the table's fields -/
theorem keys_convertRow (fs : List FieldDef) (cells : List (Align × Str)) (hlen : cells.length = fs.length) :
    keys (convertRow fs cells) = (kept fs).map fun fd => validName fd.name := by
  unfold convertRow keys kept
  rw [List.map_map]
  have hfst : (fs.zip (cells.map (·.2))).map (·.1) = fs := List.map_fst_zip (by simp [hlen])
  have : ((fs.zip (cells.map (·.2))).filter fun x => decide (x.1.dtype ≠ DType.skip)).map
      ((fun x : String × Cell => x.1) ∘ fun x : FieldDef × Str => (validName x.1.name, convertCell x.1 x.2)) =
      (((fs.zip (cells.map (·.2))).map (·.1)).filter fun fd => decide (fd.dtype ≠ DType.skip)).map fun fd => validName fd.name := by
    rw [List.filter_map, List.map_map]
    rfl
  rw [this, hfst]

/-- **file_roundtrip (default blocks of sinex_tro)**: `data[MARKER]` is the column dictionary over exactly the written
records of the first block of that marker -/
theorem tro_file_default (header : List FieldDef) (pre post : List BlockDef) (b : BlockDef) (hk : b.kind = .dflt)
    (hs : Sorted (layoutOf b.fields 81) = true) (hl : leadOk (layoutOf b.fields 81) = true)
    (F : SnxFile) (hwf : F.wf) (ps : List Str) (items : List Item) (hitems : ∀ i ∈ items, i.wf b.fields 81)
    (hfb : FirstBlock F.segs b.marker ps (content b.fields 81 items))
    (hpre : ∀ b' ∈ pre, b.marker ∉ troKeys (rawOf (expected ((pre ++ b :: post).map (·.marker)) F.segs)) b')
    (hpost : ∀ b' ∈ post, b.marker ∉ troKeys (rawOf (expected ((pre ++ b :: post).map (·.marker)) F.segs)) b')
    (R : Result) (hR : parseTroFile header (pre ++ b :: post) F.text = some R) :
    ∃ D, R.data = .dict D ∧
      dget? D b.marker = some (.dict (columns b.fields ((records items).map (convertRow b.fields)))) := by
  obtain ⟨_, D, hRD, hD⟩ := parseTro_file header _ F hwf R hR
  obtain ⟨r, hr, hrows⟩ := file_rows b hs hl F.segs ps items hitems hfb ((pre ++ b :: post).map (·.marker)) (by simp)
  refine ⟨D, hRD, ?_⟩
  rw [tro_default_block _ pre post b hk hpre hpost r hr D hD, hrows]

/-! ## 17. The remaining entries from the file text (sinex_tms), and discontinuities / events site by site -/

/-- **TIMESERIES/COLUMNS from the file**: `data["timeseries_columns"]` is the table of the written records -/
theorem tms_file_columns (header : List FieldDef) (pre post : List BlockDef) (b : BlockDef) (q : String)
    (hk : b.kind = .custom q) (hq : entryName q = "timeseries_columns")
    (hpre : ∀ b' ∈ pre, OtherKey "timeseries_columns" b') (hpost : ∀ b' ∈ post, OtherKey "timeseries_columns" b')
    (F : SnxFile) (hwf : F.wf) (W : Nat) (recs : List (Bool × List (Align × Str))) (hok : RecsOk b.fields W recs)
    (ps : List Str) (hfb : FirstBlock F.segs b.marker ps (emitted b.fields W recs))
    (R : Result) (hR : parseTmsFile header (pre ++ b :: post) F.text = some R) :
    ∃ D, R.data = .dict D ∧
      dget? D "timeseries_columns" = some (.dict (columns b.fields (recs.map fun r => convertRow b.fields r.2))) := by
  obtain ⟨_, D, hRD, hD⟩ := parseTms_file header _ F hwf R hR
  obtain ⟨r, hr, _, _, hrows⟩ := tms_file_rows b W recs hok F.segs ps hfb ((pre ++ b :: post).map (·.marker)) (by simp)
  exact ⟨D, hRD, by rw [tms_columns_block _ pre post b q hk hq hpre hpost r hr D hD, hrows]⟩

/-- **TIMESERIES/REF_COORDINATE from the file**: the block holds one record; `data["ref_coordinate"]` is its dictionary -/
theorem tms_file_ref_coordinate (header : List FieldDef) (pre post : List BlockDef) (b : BlockDef) (q : String)
    (hk : b.kind = .custom q) (hq : entryName q = "timeseries_ref_coordinate")
    (hpre : ∀ b' ∈ pre, OtherKey "ref_coordinate" b') (hpost : ∀ b' ∈ post, OtherKey "ref_coordinate" b')
    (F : SnxFile) (hwf : F.wf) (W : Nat) (rec : Bool × List (Align × Str)) (hok : RecsOk b.fields W [rec])
    (ps : List Str) (hfb : FirstBlock F.segs b.marker ps (emitted b.fields W [rec]))
    (R : Result) (hR : parseTmsFile header (pre ++ b :: post) F.text = some R) :
    ∃ D, R.data = .dict D ∧ dget? D "ref_coordinate" = some (rowVal (convertRow b.fields rec.2)) := by
  obtain ⟨_, D, hRD, hD⟩ := parseTms_file header _ F hwf R hR
  obtain ⟨r, hr, _, _, hrows⟩ := tms_file_rows b W [rec] hok F.segs ps hfb ((pre ++ b :: post).map (·.marker)) (by simp)
  exact ⟨D, hRD, tms_ref_block _ pre post b q hk hq hpre hpost r hr _ (by simpa using hrows) D hD⟩

/-- **SITE/ANTENNA from the file**: one dictionary per written record, in order, the antenna field split in two -/
theorem tms_file_antenna (header : List FieldDef) (pre post : List BlockDef) (b : BlockDef) (q : String)
    (hk : b.kind = .custom q) (hq : entryName q = "site_antenna")
    (hpre : ∀ b' ∈ pre, OtherKey "site_antenna" b') (hpost : ∀ b' ∈ post, OtherKey "site_antenna" b')
    (F : SnxFile) (hwf : F.wf) (W : Nat) (recs : List (Bool × List (Align × Str))) (hok : RecsOk b.fields W recs)
    (ps : List Str) (hfb : FirstBlock F.segs b.marker ps (emitted b.fields W recs))
    (R : Result) (hR : parseTmsFile header (pre ++ b :: post) F.text = some R) :
    ∃ D rows', R.data = .dict D ∧ (recs.map fun r => convertRow b.fields r.2).mapM antennaRowTms = some rows' ∧
      dget? D "site_antenna" = some (.list (rows'.map rowVal)) := by
  obtain ⟨_, D, hRD, hD⟩ := parseTms_file header _ F hwf R hR
  obtain ⟨r, hr, _, _, hrows⟩ := tms_file_rows b W recs hok F.segs ps hfb ((pre ++ b :: post).map (·.marker)) (by simp)
  obtain ⟨rows', hm, hget⟩ := tms_antenna_block _ pre post b q hk hq hpre hpost r hr D hD
  rw [hrows] at hm
  exact ⟨D, rows', hRD, hm, hget⟩

/-- **FILE/REFERENCE from the file**: the dictionary `parse_file_reference` makes of the written records -/
theorem tms_file_reference (header : List FieldDef) (pre post : List BlockDef) (b : BlockDef) (q : String)
    (hk : b.kind = .custom q) (hq : entryName q = "file_reference")
    (hpre : ∀ b' ∈ pre, OtherKey "file_reference" b') (hpost : ∀ b' ∈ post, OtherKey "file_reference" b')
    (F : SnxFile) (hwf : F.wf) (W : Nat) (recs : List (Bool × List (Align × Str))) (hok : RecsOk b.fields W recs)
    (ps : List Str) (hfb : FirstBlock F.segs b.marker ps (emitted b.fields W recs))
    (R : Result) (hR : parseTmsFile header (pre ++ b :: post) F.text = some R) :
    ∃ D d, R.data = .dict D ∧ fileRefTms (recs.map fun r => convertRow b.fields r.2) = some d ∧
      dget? D "file_reference" = some (.dict d) := by
  obtain ⟨_, D, hRD, hD⟩ := parseTms_file header _ F hwf R hR
  obtain ⟨r, hr, _, _, hrows⟩ := tms_file_rows b W recs hok F.segs ps hfb ((pre ++ b :: post).map (·.marker)) (by simp)
  obtain ⟨d, hd, hget⟩ := tms_file_reference_block _ pre post b q hk hq hpre hpost r hr D hD
  rw [hrows] at hd
  exact ⟨D, d, hRD, hd, hget⟩

/-- one FILE/REFERENCE record: key = lower-cased first word of the first field, value = the second field -/
theorem fileRefTms_get (rows : List Row) (d : List (String × Val)) (h : fileRefTms rows = some d) (k : String) :
    dget? d k =
      match (rows.filter fun r => ((split (cellStr ((r.getD 0 ("", .none)).2))).head?.map fun w => asString (lower w)) = some k).getLast? with
      | some row => some (.cell ((row.getD 1 ("", .none)).2))
      | Option.none => Option.none := by
  unfold fileRefTms at h
  suffices H : ∀ (rows : List Row) (acc d : List (String × Val)),
      rows.foldlM (fun D r =>
        match split (cellStr ((r.getD 0 ("", .none)).2)) with
        | [] => Option.none
        | w :: _ => some (dset D (asString (lower w)) (.cell ((r.getD 1 ("", .none)).2)))) acc = some d →
      dget? d k =
        match (rows.filter fun r => ((split (cellStr ((r.getD 0 ("", .none)).2))).head?.map fun w => asString (lower w)) = some k).getLast? with
        | some row => some (.cell ((row.getD 1 ("", .none)).2))
        | Option.none => dget? acc k from H rows [] d h
  intro rows
  induction rows with
  | nil =>
    intro acc d h
    simp only [List.foldlM_nil, Option.pure_def, Option.some.injEq] at h
    subst h; rfl
  | cons r rest ih =>
    intro acc d h
    rw [List.foldlM_cons] at h
    cases hs : split (cellStr ((r.getD 0 ("", .none)).2)) with
    | nil => rw [hs] at h; simp at h
    | cons w ws =>
      rw [hs] at h
      simp only [Option.bind_eq_bind, Option.bind_some] at h
      rw [ih _ d h]
      by_cases hk : asString (lower w) = k
      · subst hk
        simp only [List.filter_cons, hs, List.head?_cons, Option.map_some, decide_true, if_true, List.getLast?_cons]
        cases (rest.filter _).getLast? with
        | none => simp only [Option.getD_none]; exact dget_dset_self _ _ _
        | some x => simp
      · have hk' : ¬ (some (asString (lower w)) = some k) := by simpa using hk
        simp only [List.filter_cons, hs, List.head?_cons, Option.map_some, hk', decide_false, Bool.false_eq_true, if_false]
        cases (rest.filter _).getLast? with
        | none => exact dget_dset_ne _ _ _ _ hk
        | some x => rfl

/-- **discontinuities / events from the file, site by site**: in the table the parser returns for the file of
`disc_file_roundtrip`, site `k` holds exactly the written records whose lower-cased site code is `k` (without
that field), in file order — each record under its own site, no other -/
theorem disc_file_site_rows (b : BlockDef) (q : String) (items : List Item) (k : String) :
    entryRows (entryName q)
      (regroup false (entryName q) siteKey dropSiteCode [] ((records items).map (convertRow b.fields))) k =
      (((records items).map (convertRow b.fields)).filter fun r => siteKey r = k).map dropSiteCode :=
  disc_site_rows _ _ k

/-! ## 18. TROP/DESCRIPTION and TROP/SOLUTION from the file text -/

/-- **TROP/DESCRIPTION from the file**: `data[keyword]` is the value field of the last written record with that keyword -/
theorem tro_file_description (header : List FieldDef) (pre post : List BlockDef) (b : BlockDef) (q : String)
    (hk : b.kind = .custom q) (hq : entryName q = "trop_description")
    (hs : Sorted (layoutOf b.fields 81) = true) (hl : leadOk (layoutOf b.fields 81) = true)
    (F : SnxFile) (hwf : F.wf) (ps : List Str) (items : List Item) (hitems : ∀ i ∈ items, i.wf b.fields 81)
    (hfb : FirstBlock F.segs b.marker ps (content b.fields 81 items)) (k : String)
    (hpre : ∀ b' ∈ pre, k ∉ troKeys (rawOf (expected ((pre ++ b :: post).map (·.marker)) F.segs)) b')
    (hpost : ∀ b' ∈ post, k ∉ troKeys (rawOf (expected ((pre ++ b :: post).map (·.marker)) F.segs)) b')
    (row : Row) (hrow : (((records items).map (convertRow b.fields)).filter fun r' => keywordOf r' = k).getLast? = some row)
    (R : Result) (hR : parseTroFile header (pre ++ b :: post) F.text = some R) :
    ∃ D, R.data = .dict D ∧ dget? D k = some (.cell (lookup row "value")) := by
  obtain ⟨_, D, hRD, hD⟩ := parseTro_file header _ F hwf R hR
  obtain ⟨r, hr, hrows⟩ := file_rows b hs hl F.segs ps items hitems hfb ((pre ++ b :: post).map (·.marker)) (by simp)
  exact ⟨D, hRD, tro_description _ pre post b q hk hq k hpre hpost r hr D hD row (by rw [hrows]; exact hrow)⟩

/-- **TROP/SOLUTION from the file**: `data[station]` is the dictionary of the last written record of that station,
without `site_name` (the records of the block share the field names `ks` of its table) -/
theorem tro_file_solution (header : List FieldDef) (pre post : List BlockDef) (b : BlockDef) (q : String)
    (hk : b.kind = .custom q) (hq : entryName q = "trop_solution")
    (hs : Sorted (layoutOf b.fields 81) = true) (hl : leadOk (layoutOf b.fields 81) = true)
    (F : SnxFile) (hwf : F.wf) (ps : List Str) (items : List Item) (hitems : ∀ i ∈ items, i.wf b.fields 81)
    (hfb : FirstBlock F.segs b.marker ps (content b.fields 81 items)) (k : String)
    (hpre : ∀ b' ∈ pre, ∀ row ∈ (records items).map (convertRow b.fields),
      stationOf row ∉ troKeys (rawOf (expected ((pre ++ b :: post).map (·.marker)) F.segs)) b')
    (hpost : ∀ b' ∈ post, k ∉ troKeys (rawOf (expected ((pre ++ b :: post).map (·.marker)) F.segs)) b')
    (ks : List String) (hnd : ks.Nodup) (hkeys : ∀ row ∈ (records items).map (convertRow b.fields), keys (restOf row) = ks)
    (row : Row) (hrow : (((records items).map (convertRow b.fields)).filter fun r' => stationOf r' = k).getLast? = some row)
    (R : Result) (hR : parseTroFile header (pre ++ b :: post) F.text = some R) :
    ∃ D, R.data = .dict D ∧ dget? D k = some (rowVal (restOf row)) := by
  obtain ⟨_, D, hRD, hD⟩ := parseTro_file header _ F hwf R hR
  obtain ⟨r, hr, hrows⟩ := file_rows b hs hl F.segs ps items hitems hfb ((pre ++ b :: post).map (·.marker)) (by simp)
  exact ⟨D, hRD, tro_solution _ pre post b q hk hq k r hr (by rw [hrows]; exact hpre) hpost ks hnd (by rw [hrows]; exact hkeys)
    D hD row (by rw [hrows]; exact hrow)⟩

/-! ## 19. The order of the lines of a matrix block does not matter -/

/-- two lines list no common element -/
def Apart (a b : Run) : Prop := ∀ i j, cover a i j = Option.none ∨ cover b i j = Option.none

/-- **matrix_line_order**: when no element is listed twice, the element values a block defines (`lastCover`, hence by
`matrix_entries` / `matrixOf_lower` / `matrixOf_upper` the matrix the parser builds) are the same for every order of its
lines — row by row, rows last-to-first, column by column, any other -/
theorem matrix_line_order (ls ls' : List Run) (hperm : ls.Perm ls') (hap : ls.Pairwise Apart) (i j : Nat) :
    lastCover ls i j = lastCover ls' i j := by
  induction hperm with
  | nil => rfl
  | cons x _ ih =>
    simp only [lastCover]
    rw [ih (List.Pairwise.of_cons hap)]
  | swap x y l =>
    simp only [lastCover]
    have hxy : Apart y x := (List.pairwise_cons.mp hap).1 x (by simp)
    cases lastCover l i j with
    | some v => rfl
    | none =>
      simp only [Option.orElse_none]
      rcases hxy i j with h | h <;> simp [h, Option.orElse]
      · cases cover x i j <;> rfl
      · cases cover y i j <;> rfl
  | trans h1 _ ih1 ih2 =>
    rw [ih1 hap]
    apply ih2
    exact h1.pairwise hap (fun {a b} hab => fun i j => (hab i j).symm)

end Midgard.Props.C14

#print axioms Midgard.Props.C14.starts_sorted
#print axioms Midgard.Props.C14.within_80
#print axioms Midgard.Props.C14.names_unique
#print axioms Midgard.Props.C14.converters_modelled
#print axioms Midgard.Props.C14.cols_cover_spec
#print axioms Midgard.Props.C14.concrete_tables_are_base
#print axioms Midgard.Props.C14.block_roundtrip
#print axioms Midgard.Props.C14.parseLine_roundtrip
#print axioms Midgard.Props.C14.text_field
#print axioms Midgard.Props.C14.fixedDigits2
#print axioms Midgard.Props.C14.fixedDigits3
#print axioms Midgard.Props.C14.fixedDigits5
#print axioms Midgard.Props.C14.parseDoy_fixed
#print axioms Midgard.Props.C14.threeZero_iff
#print axioms Midgard.Props.C14.epoch_pivot
#print axioms Midgard.Props.C14.epoch_open
#print axioms Midgard.Props.C14.exponent_D_eq_E
#print axioms Midgard.Props.C14.dms_sign
#print axioms Midgard.Props.C14.get_symmetrize
#print axioms Midgard.Props.C14.matrix_symm
#print axioms Midgard.Props.C14.matrix_shape
#print axioms Midgard.Props.C14.matrix_lower_entries
#print axioms Midgard.Props.C14.matrix_upper_entries
#print axioms Midgard.Props.C14.dget_dset_self
#print axioms Midgard.Props.C14.allRows_addRow
#print axioms Midgard.Props.C14.site_regroup
#print axioms Midgard.Props.C14.addRow_site
#print axioms Midgard.Props.C14.square_zeros
#print axioms Midgard.Props.C14.get_zeros
#print axioms Midgard.Props.C14.writeLine_spec
#print axioms Midgard.Props.C14.fillFrom_spec
#print axioms Midgard.Props.C14.matrix_entries
#print axioms Midgard.Props.C14.fillMatrix_eq
#print axioms Midgard.Props.C14.matrix_full_lower
#print axioms Midgard.Props.C14.matrix_full_upper
#print axioms Midgard.Props.C14.expected_nil
#print axioms Midgard.Props.C14.scan_nil_wanted
#print axioms Midgard.Props.C14.scan_collect
#print axioms Midgard.Props.C14.scan_body
#print axioms Midgard.Props.C14.rawOf_cons
#print axioms Midgard.Props.C14.rawOf_expected
#print axioms Midgard.Props.C14.inj_of_nodup_map
#print axioms Midgard.Props.C14.blocksOf_perm
#print axioms Midgard.Props.C14.rawOf_perm
#print axioms Midgard.Props.C14.order_independent
#print axioms Midgard.Props.C14.splitOnAux_nosep
#print axioms Midgard.Props.C14.splitOnAux_line
#print axioms Midgard.Props.C14.splitOn_joinLines
#print axioms Midgard.Props.C14.fileLines_joinLines
#print axioms Midgard.Props.C14.fileLines_unterminated
#print axioms Midgard.Props.C14.readRaw_file
#print axioms Midgard.Props.C14.rawOf_expected_perm
#print axioms Midgard.Props.C14.file_order_independent
#print axioms Midgard.Props.C14.expected_invisible
#print axioms Midgard.Props.C14.file_invisible
#print axioms Midgard.Props.C14.tables_lead_blank
#print axioms Midgard.Props.C14.render_lead
#print axioms Midgard.Props.C14.startsWith_cons
#print axioms Midgard.Props.C14.content_ok
#print axioms Midgard.Props.C14.dataLines_content
#print axioms Midgard.Props.C14.parseLines_records
#print axioms Midgard.Props.C14.dget_dset_ne
#print axioms Midgard.Props.C14.foldlM_baseStep
#print axioms Midgard.Props.C14.assembleBase_get
#print axioms Midgard.Props.C14.assembleBase_dflt_ok
#print axioms Midgard.Props.C14.rawOf_blocksOf_first
#print axioms Midgard.Props.C14.records_fits
#print axioms Midgard.Props.C14.file_block_rows
#print axioms Midgard.Props.C14.base_file_roundtrip
#print axioms Midgard.Props.C14.base_file_returns
#print axioms Midgard.Props.C14.foldlM_dset_get
#print axioms Midgard.Props.C14.split_wsLine
#print axioms Midgard.Props.C14.wsRows_roundtrip
#print axioms Midgard.Props.C14.length_wsColumns
#print axioms Midgard.Props.C14.getElem_wsColumns
#print axioms Midgard.Props.C14.tmsData_get
#print axioms Midgard.Props.C14.tmsCol_text
#print axioms Midgard.Props.C14.tmsCol_float
#print axioms Midgard.Props.C14.tms_data_roundtrip
#print axioms Midgard.Props.C14.tms_site_rows
#print axioms Midgard.Props.C14.slice_to_end
#print axioms Midgard.Props.C14.ofStarts_slice_total
#print axioms Midgard.Props.C14.cutLine_total
#print axioms Midgard.Props.C14.layoutOf_last_stop
#print axioms Midgard.Props.C14.length_render
#print axioms Midgard.Props.C14.le_maxChar
#print axioms Midgard.Props.C14.length_rstrip_le
#print axioms Midgard.Props.C14.tms_block_roundtrip
#print axioms Midgard.Props.C14.matrixOf_lower
#print axioms Midgard.Props.C14.matrixOf_upper
#print axioms Midgard.Props.C14.matrix_tables
#print axioms Midgard.Props.C14.matLineOf_record
#print axioms Midgard.Props.C14.foldlM_baseStep_some
#print axioms Midgard.Props.C14.base_file_matrix
#print axioms Midgard.Props.C14.disc_file_roundtrip
#print axioms Midgard.Props.C14.epoch4_value
#print axioms Midgard.Props.C14.epoch4_open
#print axioms Midgard.Props.C14.allRows_addRow_other
#print axioms Midgard.Props.C14.allRows_regroup_other
#print axioms Midgard.Props.C14.site_fold_rows
#print axioms Midgard.Props.C14.allRows_addRefFrame
#print axioms Midgard.Props.C14.site_rows_kept
#print axioms Midgard.Props.C14.tmsStep_other
#print axioms Midgard.Props.C14.tms_fold_other
#print axioms Midgard.Props.C14.tms_site_block
#print axioms Midgard.Props.C14.emit_lead
#print axioms Midgard.Props.C14.tms_file_site_block
#print axioms Midgard.Props.C14.tmsStep_key_other
#print axioms Midgard.Props.C14.tms_fold_key_other
#print axioms Midgard.Props.C14.tms_fold_block
#print axioms Midgard.Props.C14.mem_keys_dset
#print axioms Midgard.Props.C14.keys_dset_nodup
#print axioms Midgard.Props.C14.dset_new
#print axioms Midgard.Props.C14.foldl_dset_append
#print axioms Midgard.Props.C14.foldlM_dset_keys
#print axioms Midgard.Props.C14.foldlM_step_keys
#print axioms Midgard.Props.C14.tmsData_keys
#print axioms Midgard.Props.C14.tmsStep_columns
#print axioms Midgard.Props.C14.tmsStep_ref
#print axioms Midgard.Props.C14.tmsStep_antenna
#print axioms Midgard.Props.C14.tmsStep_file_reference
#print axioms Midgard.Props.C14.tmsStep_data
#print axioms Midgard.Props.C14.firstBlock_look
#print axioms Midgard.Props.C14.parseTms_file
#print axioms Midgard.Props.C14.tms_file_rows
#print axioms Midgard.Props.C14.tms_columns_block
#print axioms Midgard.Props.C14.tms_ref_block
#print axioms Midgard.Props.C14.tms_ref_block_raises
#print axioms Midgard.Props.C14.tms_antenna_block
#print axioms Midgard.Props.C14.antennaRowTms_spec
#print axioms Midgard.Props.C14.tms_file_reference_block
#print axioms Midgard.Props.C14.tms_columns_table
#print axioms Midgard.Props.C14.tmsNames_columns
#print axioms Midgard.Props.C14.columns_name_record
#print axioms Midgard.Props.C14.tms_data_block
#print axioms Midgard.Props.C14.tms_file_data_roundtrip
#print axioms Midgard.Props.C14.entryRows_addRow_false
#print axioms Midgard.Props.C14.entryRows_addRow_true
#print axioms Midgard.Props.C14.entryRows_addRow_other
#print axioms Midgard.Props.C14.entryRows_regroup_false
#print axioms Midgard.Props.C14.entryRows_regroup_true
#print axioms Midgard.Props.C14.entryRows_regroup_other
#print axioms Midgard.Props.C14.disc_site_rows
#print axioms Midgard.Props.C14.siteStep_entry
#print axioms Midgard.Props.C14.site_fold_entry
#print axioms Midgard.Props.C14.dget_map_val
#print axioms Midgard.Props.C14.addRefFrame_eq
#print axioms Midgard.Props.C14.entryRows_addRefFrame
#print axioms Midgard.Props.C14.siteStep_frame_other
#print axioms Midgard.Props.C14.site_fold_frame_other
#print axioms Midgard.Props.C14.site_fold_frame
#print axioms Midgard.Props.C14.refFrame_eq
#print axioms Midgard.Props.C14.refStep_skip
#print axioms Midgard.Props.C14.refFrame_value
#print axioms Midgard.Props.C14.length_allRows_addRow_true
#print axioms Midgard.Props.C14.singleInv_addRow_true
#print axioms Midgard.Props.C14.hasE_addRow_true
#print axioms Midgard.Props.C14.count_regroup_true
#print axioms Midgard.Props.C14.site_id_count
#print axioms Midgard.Props.C14.parseSite_file
#print axioms Midgard.Props.C14.contrib_other
#print axioms Midgard.Props.C14.flatMap_contrib_single
#print axioms Midgard.Props.C14.contrib_file
#print axioms Midgard.Props.C14.filter_key_nodup
#print axioms Midgard.Props.C14.site_file_site_id
#print axioms Midgard.Props.C14.site_file_entry
#print axioms Midgard.Props.C14.site_file_frame
#print axioms Midgard.Props.C14.foldl_desc_other
#print axioms Midgard.Props.C14.foldl_sol_other
#print axioms Midgard.Props.C14.troStep_other
#print axioms Midgard.Props.C14.tro_fold_other
#print axioms Midgard.Props.C14.tro_fold_block
#print axioms Midgard.Props.C14.tro_default_block
#print axioms Midgard.Props.C14.foldl_desc_get
#print axioms Midgard.Props.C14.tro_description
#print axioms Midgard.Props.C14.updateRow_eq
#print axioms Midgard.Props.C14.filterMap_cells
#print axioms Midgard.Props.C14.cellsOf_rowVal
#print axioms Midgard.Props.C14.cellsOf_none
#print axioms Midgard.Props.C14.dset_mid
#print axioms Midgard.Props.C14.foldl_dset_same
#print axioms Midgard.Props.C14.updateRow_same
#print axioms Midgard.Props.C14.updateRow_nil
#print axioms Midgard.Props.C14.solStep_get
#print axioms Midgard.Props.C14.foldl_sol_get
#print axioms Midgard.Props.C14.tro_solution
#print axioms Midgard.Props.C14.parseTro_file
#print axioms Midgard.Props.C14.file_rows
#print axioms Midgard.Props.C14.keys_convertRow
#print axioms Midgard.Props.C14.tro_file_default
#print axioms Midgard.Props.C14.tms_file_columns
#print axioms Midgard.Props.C14.tms_file_ref_coordinate
#print axioms Midgard.Props.C14.tms_file_antenna
#print axioms Midgard.Props.C14.tms_file_reference
#print axioms Midgard.Props.C14.fileRefTms_get
#print axioms Midgard.Props.C14.disc_file_site_rows
#print axioms Midgard.Props.C14.tro_file_description
#print axioms Midgard.Props.C14.tro_file_solution
#print axioms Midgard.Props.C14.matrix_line_order
