/-
C03 — Time and time-difference arithmetic obeys the affine laws.

Property theorems only.  All statements are exact identities over `Rat` about the model in
`Model/TimeArith.lean`; the floating-point error of the implementation is *measured* by the
correspondence run (harness/c03.py), not proved.
-/
import Midgard.Model.TimeArith
import Midgard.Generated.SourceExprsTime
import Midgard.Model.TimePurityFlag
import Midgard.Proofs.TimeArrays
import Midgard.Proofs.TimeFloat
import Mathlib.Tactic.Ring
import Mathlib.Tactic.NormNum
import Mathlib.Algebra.Order.Field.Rat

namespace Midgard.Props.C03
open Midgard.TimeArith

/-! ### The six affine laws, as instants / durations -/

/-- (t + d) − t = d -/
theorem add_sub_cancel (t d : JD) : (tSubT (tAddD t d) t).inst = d.inst := by
  simp only [tSubT, tAddD, JD.inst]; grind

/-- (t − d) + d = t -/
theorem sub_add_cancel (t d : JD) : (tAddD (tSubD t d) d).inst = t.inst := by
  simp only [tSubD, tAddD, JD.inst]; grind

/-- (t₂ − t₁) + t₁ = t₂ -/
theorem diff_add (t₁ t₂ : JD) : (dAddT (tSubT t₂ t₁) t₁).inst = t₂.inst := by
  simp only [dAddT, tSubT, JD.inst]; grind

/-- t − d = t + (−d), for every duration format (the negated duration is built through the
format's own constructor, so this also covers its floor-normalisation). -/
theorem sub_eq_add_neg (f : DFmt) (t : JD) (v v2 : Rat) :
    (tSubD t (f.toJds v v2)).inst = (tAddD t (dNeg f v v2)).inst := by
  cases f <;> simp only [tSubD, tAddD, dNeg, DFmt.toJds, splitFloor, JD.inst, day2sec, day2usec] <;> grind

/-- d₁ + d₂ = d₂ + d₁ (even part by part) -/
theorem delta_add_comm (d e : JD) : dAddD d e = dAddD e d := by
  simp only [dAddD, JD.mk.injEq]; constructor <;> grind

/-- (d₁ + d₂) − d₂ = d₁ -/
theorem delta_add_sub (d e : JD) : (dSubD (dAddD d e) e).inst = d.inst := by
  simp only [dSubD, dAddD, JD.inst]; grind

/-- The whole-day part really moves by the whole days of the duration: the law is not only
true of the sum but of the stored parts (this is what the pre-fix `__sub__` got wrong). -/
theorem sub_parts (t d : JD) : (tSubD t d).jd1 = t.jd1 - d.jd1 ∧ (tSubD t d).jd2 = t.jd2 - d.jd2 := by
  simp [tSubD]

/-! ### "identically for every duration format" -/

/-- The constructor of every duration format preserves the value it was given
(in days: `jd`, `days`; `seconds/86400`; microseconds/86400e6 for `timedelta`). -/
theorem toJds_inst (f : DFmt) (v v2 : Rat) :
    (f.toJds v v2).inst =
      match f with
      | .jd => v + v2 | .days => v + v2
      | .seconds => (v + v2) / day2sec
      | .timedelta => (v + v2) / day2usec := by
  cases f <;> simp only [DFmt.toJds, splitFloor, JD.inst, day2sec, day2usec] <;> grind

/-- reading a duration back in the format it was built from returns the value -/
theorem fromJds_toJds (f : DFmt) (v v2 : Rat) (hf : f ≠ .timedelta) :
    f.fromJds (f.toJds v v2) = v + v2 := by
  cases f <;> simp only [DFmt.fromJds, DFmt.toJds, splitFloor, day2sec] <;> first | grind | contradiction

theorem roundHalfEven_int (n : Int) : roundHalfEven (n : Rat) = n := by
  have h0 : ((n : Rat) - (n : Rat)) = 0 := by grind
  have h1 : (0 : Rat) < 1 / 2 := by decide +kernel
  simp [roundHalfEven, Rat.floor_intCast, h0, h1]

/-- the same for `timedelta`, whose values are whole microseconds -/
theorem fromJds_toJds_timedelta (n m : Int) :
    DFmt.fromJds .timedelta (DFmt.toJds .timedelta (n : Rat) (m : Rat)) = ((n + m : Int) : Rat) := by
  simp only [DFmt.fromJds, DFmt.toJds, day2usec]
  have h : ((((n : Rat) + (m : Rat)) / 86400000000).floor : Rat)
      + (((n : Rat) + (m : Rat)) / 86400000000 - ((((n : Rat) + (m : Rat)) / 86400000000).floor : Rat))
      = ((n : Rat) + (m : Rat)) / 86400000000 := by grind
  rw [h]
  have h2 : ((n : Rat) + (m : Rat)) / 86400000000 * 86400000000 = ((n + m : Int) : Rat) := by
    rw [Rat.intCast_add]; grind
  rw [h2, roundHalfEven_int]

/-- every duration constructor normalises: whole-day part is an integer, fraction in [0, 1) -/
theorem toJds_normalised (f : DFmt) (v v2 : Rat) :
    (∃ k : Int, (f.toJds v v2).jd1 = (k : Rat)) ∧ 0 ≤ (f.toJds v v2).jd2 ∧ (f.toJds v v2).jd2 < 1 := by
  have key : ∀ x : Rat, 0 ≤ x - (x.floor : Rat) ∧ x - (x.floor : Rat) < 1 := by
    intro x
    have h1 := Rat.floor_le x
    have h2 := Rat.lt_floor_add_one x
    rw [Rat.intCast_add] at h2
    constructor <;> grind
  cases f
  · refine ⟨⟨(v + v2).floor, by simp only [DFmt.toJds, splitFloor]; grind⟩, ?_⟩
    have := key (v + v2); simp only [DFmt.toJds, splitFloor]; constructor <;> grind
  · refine ⟨⟨(v + v2).floor, by simp only [DFmt.toJds, splitFloor]; grind⟩, ?_⟩
    have := key (v + v2); simp only [DFmt.toJds, splitFloor]; constructor <;> grind
  · refine ⟨⟨(v / day2sec + v2 / day2sec).floor, by simp only [DFmt.toJds, splitFloor]; grind⟩, ?_⟩
    have := key (v / day2sec + v2 / day2sec); simp only [DFmt.toJds, splitFloor]; constructor <;> grind
  · refine ⟨⟨((v + v2) / day2usec).floor, by simp only [DFmt.toJds]⟩, ?_⟩
    have := key ((v + v2) / day2usec); simp only [DFmt.toJds]; exact this

/-! ### Mixing scales is refused -/

theorem mixed_scale_refused (op : Op) (ka kb : Kind) (sa sb : Scale) (a b : JD) (h : sa ≠ sb) :
    binop op ka sa a kb sb b = .notImplemented := by
  simp [binop, h]

/-- within one scale exactly the six meaningful combinations are computed, with the kinds the
statement names (epoch ± duration → epoch, epoch − epoch → duration, …) -/
theorem same_scale_dispatch (s : Scale) (a b : JD) :
    binop .add .time s a .delta s b = .ok .time (tAddD a b) ∧
    binop .sub .time s a .delta s b = .ok .time (tSubD a b) ∧
    binop .sub .time s a .time s b = .ok .delta (tSubT a b) ∧
    binop .add .delta s a .delta s b = .ok .delta (dAddD a b) ∧
    binop .sub .delta s a .delta s b = .ok .delta (dSubD a b) ∧
    binop .add .delta s a .time s b = .ok .time (dAddT a b) ∧
    binop .add .time s a .time s b = .notImplemented ∧
    binop .sub .delta s a .time s b = .notImplemented := by
  simp [binop]

/-! ### Non-vacuity: concrete operands -/

example : (tSubD ⟨2458000.5, 1/4⟩ (DFmt.toJds .days (13/4) 0)) = ⟨2457997.5, 0⟩ := by decide +kernel
example : DFmt.toJds .seconds (-43200) 0 = ⟨-1, 1/2⟩ := by decide +kernel
example : roundHalfEven (5/2) = 2 ∧ roundHalfEven (7/2) = 4 ∧ roundHalfEven (-5/2) = -2 := by decide +kernel


/-! ### Scalar *and array* operands: the laws hold element by element under NumPy broadcasting

`Model/TimeArrays.lean`: an operand is a scalar or a one-dimensional array, `binopV` is the operator on such operands
(`binopV_scalar`: on scalars it is `binop`).  A successful operation has the broadcast length and its element `i` is the scalar
operation on the elements `i` of the operands, a one-element operand being stretched (`binopV_elementwise`); the six laws
follow for every element of every compatible combination of shapes (array ± scalar, array ± array, length-1 arrays). -/

/-- an operator on scalar/array operands either refuses (scale guard / kinds, exactly as on scalars), or fails with NumPy's
shape error exactly when the shapes are incompatible, or returns the broadcast length with the scalar operator applied
element by element -/
theorem binopV_elementwise (op : Op) (ka kb : Kind) (s : Scale) (a b : Val) :
    match binopFn op ka kb with
    | none => binopV op ka s a kb s b = .notImplemented
    | some (k, f) =>
      (¬ (a.size = b.size ∨ a.size = 1 ∨ b.size = 1) → binopV op ka s a kb s b = .shapeError) ∧
      ((a.size = b.size ∨ a.size = 1 ∨ b.size = 1) → ∃ v, binopV op ka s a kb s b = .ok k v ∧
        v.size = (if a.size = 1 then b.size else a.size) ∧
        ∀ i, i < v.size → binop op ka s (a.getB i) kb s (b.getB i) = .ok k (v.getB i)) := by
  cases hf : binopFn op ka kb with
  | none => simp [binopV, hf]
  | some kf =>
    obtain ⟨k, f⟩ := kf
    simp only
    constructor
    · intro hn
      have : broadcast2 f a b = none := by
        cases hb : broadcast2 f a b with
        | none => rfl
        | some v => exact absurd (broadcast2_spec f a b v hb).1 hn
      simp [binopV, hf, this]
    · intro hc
      obtain ⟨v, hv⟩ := Option.isSome_iff_exists.mp ((broadcast2_isSome f a b).mpr hc)
      obtain ⟨_, hsz, hget⟩ := broadcast2_spec f a b v hv
      refine ⟨v, by simp [binopV, hf, hv], hsz, ?_⟩
      intro i hi
      rw [binop_binopFn, hf, hget i (Or.inl hi)]
      simp

/-- mixing scales is refused for every shape of operands -/
theorem mixed_scale_refused_arrays (op : Op) (ka kb : Kind) (sa sb : Scale) (a b : Val) (h : sa ≠ sb) :
    binopV op ka sa a kb sb b = .notImplemented := by
  simp [binopV, h]

/-- what `binopV … = .ok k v` means in terms of `broadcast2` -/
theorem binopV_ok {op : Op} {ka kb : Kind} {sa sb : Scale} {a b v : Val} {k : Kind} {f : JD → JD → JD}
    (hf : binopFn op ka kb = some (k, f)) (h : binopV op ka sa a kb sb b = .ok k v) : broadcast2 f a b = some v := by
  unfold binopV at h
  by_cases hs : sa = sb
  · simp only [hs, ne_eq, not_true_eq_false, if_false, hf] at h
    cases hb : broadcast2 f a b with
    | none => simp [hb] at h
    | some w => simp only [hb, ResV.ok.injEq, true_and] at h; rw [h]
  · simp [hs] at h

/-- (t + d) − t = d, element by element -/
theorem add_sub_cancel_arrays (s : Scale) (t d x r : Val)
    (h1 : binopV .add .time s t .delta s d = .ok .time x) (h2 : binopV .sub .time s x .time s t = .ok .delta r) :
    ∀ i, i < r.size → (r.getB i).inst = (d.getB i).inst := by
  intro i hi
  rw [broadcast2_comp_left tAddD tSubT t d t x r (binopV_ok rfl h1) (binopV_ok rfl h2) i hi]
  exact add_sub_cancel _ _

/-- (t − d) + d = t, element by element -/
theorem sub_add_cancel_arrays (s : Scale) (t d x r : Val)
    (h1 : binopV .sub .time s t .delta s d = .ok .time x) (h2 : binopV .add .time s x .delta s d = .ok .time r) :
    ∀ i, i < r.size → (r.getB i).inst = (t.getB i).inst := by
  intro i hi
  rw [broadcast2_comp_left tSubD tAddD t d d x r (binopV_ok rfl h1) (binopV_ok rfl h2) i hi]
  exact sub_add_cancel _ _

/-- (t₂ − t₁) + t₁ = t₂, element by element -/
theorem diff_add_arrays (s : Scale) (t₁ t₂ x r : Val)
    (h1 : binopV .sub .time s t₂ .time s t₁ = .ok .delta x) (h2 : binopV .add .delta s x .time s t₁ = .ok .time r) :
    ∀ i, i < r.size → (r.getB i).inst = (t₂.getB i).inst := by
  intro i hi
  rw [broadcast2_comp_left tSubT dAddT t₂ t₁ t₁ x r (binopV_ok rfl h1) (binopV_ok rfl h2) i hi]
  exact diff_add _ _

/-- t − d = t + (−d), element by element, for any array `nd` holding the negated durations (e.g. built by the format's own
constructor from the negated values: `sub_eq_add_neg`, `toJds_inst`) -/
theorem sub_eq_add_neg_arrays (s : Scale) (t d nd r₁ r₂ : Val) (hsz : nd.size = d.size)
    (hneg : ∀ i, (nd.getB i).inst = -(d.getB i).inst)
    (h1 : binopV .sub .time s t .delta s d = .ok .time r₁) (h2 : binopV .add .time s t .delta s nd = .ok .time r₂) :
    r₁.size = r₂.size ∧ ∀ i, i < r₁.size → (r₁.getB i).inst = (r₂.getB i).inst := by
  obtain ⟨_, z1, g1⟩ := broadcast2_spec _ _ _ _ (binopV_ok rfl h1)
  obtain ⟨_, z2, g2⟩ := broadcast2_spec _ _ _ _ (binopV_ok rfl h2)
  have hz : r₁.size = r₂.size := by rw [z1, z2, hsz]
  refine ⟨hz, fun i hi => ?_⟩
  rw [g1 i (Or.inl hi), g2 i (Or.inl (hz ▸ hi))]
  have := hneg i
  simp only [tSubD, tAddD, JD.inst] at this ⊢
  linarith

/-- d₁ + d₂ = d₂ + d₁ for every shape: the other order succeeds as well and gives the same array -/
theorem delta_add_comm_arrays (s : Scale) (d e r : Val) (h1 : binopV .add .delta s d .delta s e = .ok .delta r) :
    ∃ r', binopV .add .delta s e .delta s d = .ok .delta r' ∧ r'.size = r.size ∧ ∀ i, i < r.size → r'.getB i = r.getB i := by
  obtain ⟨hc, z1, g1⟩ := broadcast2_spec _ _ _ _ (binopV_ok rfl h1)
  have hc' : e.size = d.size ∨ e.size = 1 ∨ d.size = 1 := by rcases hc with h | h | h <;> simp [h]
  obtain ⟨r', hr'⟩ := Option.isSome_iff_exists.mp ((broadcast2_isSome dAddD e d).mpr hc')
  obtain ⟨_, z2, g2⟩ := broadcast2_spec _ _ _ _ hr'
  have hz : r'.size = r.size := by
    rw [z1, z2]
    by_cases h1 : d.size = 1 <;> by_cases h2 : e.size = 1 <;> simp [h1, h2]
    rcases hc with h | h | h
    · exact h.symm
    · exact absurd h h1
    · exact absurd h h2
  refine ⟨r', by simp [binopV, binopFn, hr'], hz, fun i hi => ?_⟩
  rw [g1 i (Or.inl hi), g2 i (Or.inl (hz ▸ hi))]
  exact delta_add_comm _ _

/-- (d₁ + d₂) − d₂ = d₁, element by element -/
theorem delta_add_sub_arrays (s : Scale) (d e x r : Val)
    (h1 : binopV .add .delta s d .delta s e = .ok .delta x) (h2 : binopV .sub .delta s x .delta s e = .ok .delta r) :
    ∀ i, i < r.size → (r.getB i).inst = (d.getB i).inst := by
  intro i hi
  rw [broadcast2_comp_left dAddD dSubD d e e x r (binopV_ok rfl h1) (binopV_ok rfl h2) i hi]
  exact delta_add_sub _ _

example : binopV .add .time .utc (.array [⟨2458000, 1/4⟩, ⟨2458001, 1/2⟩]) .delta .utc (.scalar ⟨3, 1/4⟩)
    = .ok .time (.array [⟨2458003, 1/2⟩, ⟨2458004, 3/4⟩]) := by decide +kernel
example : binopV .add .time .utc (.array [⟨1, 0⟩, ⟨2, 0⟩, ⟨3, 0⟩]) .delta .utc (.array [⟨1, 0⟩, ⟨2, 0⟩]) = .shapeError := by
  decide +kernel

/-! ### `ops_pure`: no operator and no constructor writes to an object that existed before the call

Operands and caller arrays live on a heap of buffers (contents + `writeable` flag).  The operators and the duration
constructors only *allocate*: the heap after the call is the heap before it with the new buffers appended
(`List.IsPrefix`) — contents and flags of every earlier buffer are untouched; what is stored reads back as the value the
array model computes (`binopH_refines`).  The constructor model has a switch `writes` for the in-place rescaling the
`seconds` format did before its `fix:` commit; the check instantiates it with the `ast` scan of the tree under test
(`Generated/TimePurity.lean`), which must find no in-place operation on a parameter outside the deepcopy `memo` protocol
and the HDF5 writer. -/

/-- regenerated table: no such operation in `_time.py`; the only flag writes *freeze* (`writeable = False`), and they are the
four sites that protect a time object's own storage -/
theorem no_inplace_on_operands :
    srcWrites = false ∧
    (Midgard.Generated.TimePurity.inplace.filter (fun e => e.kind == "flags")).all (fun e => e.detail == "False") = true ∧
    (Midgard.Generated.TimePurity.inplace.filter (fun e => e.kind == "flags")).map (fun e => (e.fn, e.target))
      = [("_read_only", "value.flags.writeable"), ("TimeBase.__new__", "jd1.flags.writeable"),
         ("TimeBase.__new__", "jd2.flags.writeable"), ("TimeBase.__array_finalize__", "self.flags.writeable"),
         ("TimeBase.__array_finalize__", "self.jd1.flags.writeable"), ("TimeBase.__array_finalize__", "self.jd2.flags.writeable")] := by
  decide +kernel

/-- **`ops_pure`** (frame condition): for every heap, operator and pair of operand objects — scalars or arrays, any shapes,
any scales — every buffer that existed before `a ± b` has the same contents and the same flag afterwards; likewise for every
duration constructor as the tree under test is written (`srcWrites`) -/
theorem ops_pure (h : Heap) :
    (∀ (op : Op) (a b : Obj) (i : Nat), i < h.length → (binopH h op a b).1[i]? = h[i]?) ∧
    (∀ (f : DFmt) (s : Scale) (val : Part) (val2 : Option Part) (i : Nat), i < h.length →
      (ctorH srcWrites h f s val val2).1[i]? = h[i]?) := by
  constructor
  · intro op a b i hi; exact prefix_getElem? (binopH_prefix h op a b) i hi
  · intro f s val val2 i hi
    rw [no_inplace_on_operands.1]
    exact prefix_getElem? (ctorH_prefix h f s val val2) i hi

/-- the operators on the heap compute the array model's value, into new frozen buffers -/
theorem ops_refine (h : Heap) (op : Op) (a b : Obj) (va vb : Val)
    (ha : h.readVal a.p1 a.p2 = some va) (hb : h.readVal b.p1 b.p2 = some vb) (k : Kind) (v : Val)
    (hv : binopV op a.kind a.scale va b.kind b.scale vb = .ok k v) :
    ∃ o, (binopH h op a b).2 = .ok o ∧ o.kind = k ∧ o.scale = a.scale ∧ (binopH h op a b).1.readVal o.p1 o.p2 = some v := by
  have := binopH_refines h op a b va vb ha hb
  rw [hv] at this
  exact this

/-- the switch matters: with an in-place rescaling the caller's array is changed (buffer 0: 86400 s → 1) -/
theorem inplace_ctor_mutates :
    (ctorH true [⟨[86400], true⟩] .seconds .utc (.ref 0) none).1[0]? = some ⟨[1], true⟩ ∧
    (ctorH false [⟨[86400], true⟩] .seconds .utc (.ref 0) none).1[0]? = some ⟨[86400], true⟩ ∧
    (ctorH true [⟨[86400], true⟩] .seconds .utc (.ref 0) none).2 = (ctorH false [⟨[86400], true⟩] .seconds .utc (.ref 0) none).2 := by
  decide +kernel

/-! #### The epoch constructors `Time(val, val2, fmt=…)`: fresh storage, no aliasing

`ctorTimeH aliases split`: the constructor on the heap, for any per-element `_to_jds` arithmetic `split`.  A `_to_jds` that
returned its arguments un-copied would make the caller's buffers the object's `jd1`/`jd2` (and `TimeBase.__new__` would freeze
them); the `return` class of the regenerated table says whether the tree under test has one. -/

/-- regenerated table: no `_to_jds` / `to_jds` of `_time.py` returns a parameter or a view of one -/
theorem no_aliasing_constructor : srcAliases = false := by decide +kernel

/-- **`ops_pure` for the epoch constructors**, as the tree under test is written: every buffer that existed before
`Time(val, val2)` has the same contents and flag afterwards, and the new object is independent of all of them — whatever the
caller later writes into any of its arrays, the epoch reads the same -/
theorem epoch_ctor_pure (split : Rat → Rat → JD) (h : Heap) (s : Scale) (val : Part) (val2 : Option Part) :
    (∀ i, i < h.length → (ctorTimeH srcAliases split h s val val2).1[i]? = h[i]?) ∧
    (∀ o, (ctorTimeH srcAliases split h s val val2).2 = .ok o → ∀ (a : Nat) (f : List Rat → List Rat), a < h.length →
      ((ctorTimeH srcAliases split h s val val2).1.write a f).readVal o.p1 o.p2
        = (ctorTimeH srcAliases split h s val val2).1.readVal o.p1 o.p2) := by
  rw [no_aliasing_constructor]
  refine ⟨fun i hi => prefix_getElem? (ctorTimeH_prefix split h s val val2) i hi, ?_⟩
  intro o ho a f ha
  obtain ⟨h1, h2⟩ := ctorTimeH_fresh split h s val val2 o ho
  exact readVal_write_fresh _ h.length a ha f o.p1 o.p2 h1 h2

/-- the switch matters: with a `_to_jds` that hands canonical input on, `Time(jd1, val2=jd2)` of two caller arrays leaves both
read-only, the epoch *is* those arrays, and a later change of the caller's fraction array changes the epoch -/
theorem aliasing_ctor_shares :
    let h : Heap := [⟨[4916001 / 2], true⟩, ⟨[1 / 4], true⟩]
    let r := ctorTimeH true splitMidnight h .utc (.ref 0) (some (.ref 1))
    r.1 = [⟨[4916001 / 2], false⟩, ⟨[1 / 4], false⟩] ∧ r.2 = .ok ⟨.time, .utc, .ref 0, .ref 1⟩ ∧
    r.1.readVal (.ref 0) (.ref 1) = some (.array [⟨4916001 / 2, 1 / 4⟩]) ∧
    (r.1.write 1 (fun _ => [1 / 2])).readVal (.ref 0) (.ref 1) = some (.array [⟨4916001 / 2, 1 / 2⟩]) ∧
    (ctorTimeH false splitMidnight h .utc (.ref 0) (some (.ref 1))).1
      = h ++ [⟨[4916001 / 2], false⟩, ⟨[1 / 4], false⟩] := by
  decide +kernel

/-- the per-element splits of the heap model are the source's `TimeJD._to_jds` / `TimeMJD._to_jds` (regenerated) -/
theorem source_epoch_split (v v2 : Rat) :
    Midgard.Generated.SrcTime.jdToJdsSrc v v2 = ((splitMidnight v v2).jd1, (splitMidnight v v2).jd2) ∧
    Midgard.Generated.SrcTime.mjdToJdsSrc v v2 (4800001 / 2) = ((splitMjd v v2).jd1, (splitMjd v v2).jd2) := by
  have h5 : (0.5 : Rat) = 1 / 2 := by norm_num
  constructor <;>
    simp only [Midgard.Generated.SrcTime.jdToJdsSrc, Midgard.Generated.SrcTime.mjdToJdsSrc, splitMidnight, splitMjd,
      Midgard.Generated.SrcTime.HasFloor.floor, h5]

/-! #### Refusal survives Python's operator dispatch (reflected methods, plain numbers, `sum`)

`pyBinop reflRefuses`: `a.__add__(b)`, then — for operands of different classes — `b.__radd__(a)`, then `TypeError`.  The
switch is read off the regenerated operator table of the tree under test. -/

/-- regenerated table: `+`/`-` are defined by `TimeArray` and `TimeDeltaArray` only, and their `__radd__`, `__rsub__`,
`__iadd__`, `__isub__` are stubs that return `NotImplemented`; no scale class overrides any of them -/
theorem reflected_ops_refuse :
    srcReflRefuses = true ∧
    Midgard.Generated.TimePurity.operators.length = 12 := by decide +kernel

/-- **mixing scales is refused by the whole `+` / `-` expression**, for every operator, every pair of kinds, every pair of
different scales and every value on either side — scalars, arrays, zero durations, all-zero and empty arrays included -/
theorem mixed_scale_refused_dispatch (op : Op) (ka kb : Kind) (sa sb : Scale) (va vb : Val) (h : sa ≠ sb) :
    pyBinop srcReflRefuses op (.obj ka sa va) (.obj kb sb vb) = .typeError := by
  rw [reflected_ops_refuse.1]
  simp [pyBinop, mixed_scale_refused_arrays op ka kb sa sb va vb h, reflected, h]

/-- a plain number on either side (`d + 0`, `0 + d`, `t - 0`, …) never yields a value: `AttributeError` from the scale guard
when it is on the right, `TypeError` when it is on the left; hence `sum([d₁, d₂, …])` (which starts from the plain 0) fails
at its first step -/
theorem plain_operand_refused (op : Op) (k : Kind) (s : Scale) (v : Val) (z : Bool) (ds : List Operand) :
    pyBinop srcReflRefuses op (.obj k s v) (.plain z) = .attributeError ∧
    pyBinop srcReflRefuses op (.plain z) (.obj k s v) = .typeError ∧
    pySum srcReflRefuses (.obj k s v :: ds) = some .typeError := by
  rw [reflected_ops_refuse.1]
  refine ⟨rfl, by simp [pyBinop, reflected], ?_⟩
  have h0 : pyBinop true .add (.plain true) (.obj k s v) = .typeError := by simp [pyBinop, reflected]
  simp only [pySum, h0]
  induction ds with
  | nil => rfl
  | cons d rest ih => simpa [List.foldl_cons] using ih

/-- within one scale the dispatch changes nothing: the value is the array model's -/
theorem same_scale_dispatch_value (b : Bool) (op : Op) (ka kb : Kind) (s : Scale) (va vb v : Val) (k : Kind)
    (h : binopV op ka s va kb s vb = .ok k v) : pyBinop b op (.obj ka s va) (.obj kb s vb) = .ok k s v := by
  simp [pyBinop, h]

/-- the switch matters: a `__radd__` that lets the start value of `sum()` through by `not np.any(other)` also lets a zero
duration of another scale through — `TimeDelta(0, utc) + TimeDelta(1.5 d, gps)` is then the GPS duration (and an all-zero
or empty array on the left does the same), while a non-zero left operand is still refused -/
theorem lenient_radd_mixes_scales :
    pyBinop false .add (.obj .delta .utc (.scalar ⟨0, 0⟩)) (.obj .delta .gps (.scalar ⟨1, 1 / 2⟩)) = .ok .delta .gps (.scalar ⟨1, 1 / 2⟩) ∧
    pyBinop false .add (.obj .delta .utc (.array [⟨0, 0⟩, ⟨-1, 1⟩])) (.obj .delta .gps (.scalar ⟨1, 1 / 2⟩)) = .ok .delta .gps (.scalar ⟨1, 1 / 2⟩) ∧
    pyBinop false .add (.obj .time .utc (.array [])) (.obj .delta .gps (.scalar ⟨1, 1 / 2⟩)) = .ok .delta .gps (.scalar ⟨1, 1 / 2⟩) ∧
    pyBinop false .add (.obj .delta .utc (.scalar ⟨1, 0⟩)) (.obj .delta .gps (.scalar ⟨1, 1 / 2⟩)) = .typeError ∧
    pySum false [.obj .delta .utc (.scalar ⟨1, 0⟩), .obj .delta .utc (.scalar ⟨2, 1 / 4⟩)] = some (.ok .delta .utc (.scalar ⟨3, 1 / 4⟩)) := by
  decide +kernel

/-! ### "to better than 1 ns for durations up to decades": the rounding-error budget

`Proofs/TimeFloat.lean`: `Rounding` = any rounding function with relative error ≤ `u` per operation that returns multiples of
1/2 up to 2⁵² unchanged (IEEE doubles: u = 2⁻⁵³); `flPw R σ` = the model's operators (`pw_ops`) with both result parts
rounded.  `Stored B1 B2 j`: day part a multiple of 1/2 with |jd1| ≤ B1, fraction part |jd2| ≤ B2 — what the constructors
store (`toJds_normalised`: integer, [0, 1); epochs: C02). -/

/-- **normalisation invariant of every operation**: results are stored values again; in exact arithmetic the bounds add
(one operation on constructed operands: |jd2| < 2; after n operations: < n + 1), with rounding the fraction bound is inflated
by (1 + u); the day part is computed without any rounding -/
theorem result_normalised (R : Rounding) {σ B1 B2 C1 C2 : Rat} (hσ : σ = 1 ∨ σ = -1) {a b : JD}
    (ha : Stored B1 B2 a) (hb : Stored C1 C2 b) (hB : B1 + C1 ≤ 2 ^ 52) :
    Stored (B1 + C1) ((1 + R.u) * (B2 + C2)) (flPw R σ a b) ∧ (flPw R σ a b).jd1 = (pw σ a b).jd1 ∧
    Stored (B1 + C1) (B2 + C2) (pw σ a b) := by
  refine ⟨flPw_stored R hσ ha hb hB, flPw_jd1 R hσ ha hb hB, ?_⟩
  have := flPw_stored Rounding.exact hσ ha hb hB
  rw [flPw_exact] at this
  have hu : Rounding.exact.u = 0 := rfl
  simpa [hu] using this

/-- the six operators are `pw (±1)`, and rounding nothing gives the exact model -/
theorem float_model_is_model (a b : JD) :
    tAddD a b = flPw Rounding.exact 1 a b ∧ dAddD a b = flPw Rounding.exact 1 a b ∧ dAddT a b = flPw Rounding.exact 1 a b ∧
    tSubD a b = flPw Rounding.exact (-1) a b ∧ tSubT a b = flPw Rounding.exact (-1) a b ∧
    dSubD a b = flPw Rounding.exact (-1) a b := by
  simpa [flPw_exact] using pw_ops a b

/-- one operation: the computed instant differs from the exact one by at most u·(|jd2| + |jd2'|) — 2u for constructed operands -/
theorem one_op_error (R : Rounding) {σ : Rat} (hσ : σ = 1 ∨ σ = -1) {a b : JD}
    (ha : Stored (2 ^ 50) 1 a) (hb : Stored (2 ^ 50) 1 b) :
    |(flPw R σ a b).inst - (pw σ a b).inst| ≤ 2 * R.u := by
  have := flPw_err R hσ ha hb (by norm_num)
  linarith

/-- **the six laws in rounded arithmetic**: for stored operands with |jd1| ≤ 2⁵⁰ days (the property asks for 40 000 days
around epochs of 2.5 million) and fraction parts of size ≤ 1, each law holds to 6u days, i.e. 5.8·10⁻¹¹ s for doubles -/
theorem laws_rounded (R : Rounding) (hu : R.u ≤ 1 / 2) {t t₂ d e : JD}
    (ht : Stored (2 ^ 50) 1 t) (ht₂ : Stored (2 ^ 50) 1 t₂) (hd : Stored (2 ^ 50) 1 d) (he : Stored (2 ^ 50) 1 e) :
    |(flPw R (-1) (flPw R 1 t d) t).inst - d.inst| ≤ 6 * R.u ∧          -- (t + d) − t = d
    |(flPw R 1 (flPw R (-1) t d) d).inst - t.inst| ≤ 6 * R.u ∧          -- (t − d) + d = t
    |(flPw R 1 (flPw R (-1) t₂ t) t).inst - t₂.inst| ≤ 6 * R.u ∧        -- (t₂ − t₁) + t₁ = t₂
    |(flPw R (-1) t d).inst - (flPw R 1 t ⟨-d.jd1, -d.jd2⟩).inst| ≤ 6 * R.u ∧   -- t − d = t + (−d)
    flPw R 1 d e = flPw R 1 e d ∧                                         -- d₁ + d₂ = d₂ + d₁
    |(flPw R (-1) (flPw R 1 d e) e).inst - d.inst| ≤ 6 * R.u := by       -- (d₁ + d₂) − d₂ = d₁
  have p1 : (1 : Rat) = 1 ∨ (1 : Rat) = -1 := Or.inl rfl
  have m1 : (-1 : Rat) = 1 ∨ (-1 : Rat) = -1 := Or.inr rfl
  have key : ∀ (σ τ : Rat) (a b c : JD), (pw τ (pw σ a b) c).inst = a.inst + σ * b.inst + τ * c.inst := by
    intro σ τ a b c; simp only [pw, JD.inst]; ring
  refine ⟨?_, ?_, ?_, ?_, ?_, ?_⟩
  · have := flPw_two_ops R hu p1 m1 ht hd ht
    rw [key] at this; convert this using 2; ring
  · have := flPw_two_ops R hu m1 p1 ht hd hd
    rw [key] at this; convert this using 2; ring
  · have := flPw_two_ops R hu m1 p1 ht₂ ht ht
    rw [key] at this; convert this using 2; ring
  · have hn : Stored (2 ^ 50) 1 (⟨-d.jd1, -d.jd2⟩ : JD) := by
      obtain ⟨⟨k, hk⟩, h1, h2⟩ := hd
      exact ⟨⟨-k, by simp [hk]; ring⟩, by simpa using h1, by simpa using h2⟩
    have e1 := one_op_error R m1 ht hd
    have e2 := one_op_error R p1 ht hn
    have hsame : (pw (-1) t d).inst = (pw 1 t ⟨-d.jd1, -d.jd2⟩).inst := by simp only [pw, JD.inst]; ring
    have := abs_sub_le (flPw R (-1) t d).inst (pw (-1) t d).inst (flPw R 1 t ⟨-d.jd1, -d.jd2⟩).inst
    rw [hsame, abs_sub_comm (pw 1 t ⟨-d.jd1, -d.jd2⟩).inst] at this
    have hu0 := R.u_nonneg
    rw [hsame] at e1
    linarith
  · simp only [flPw, JD.mk.injEq]
    constructor <;> (congr 1; ring)
  · have := flPw_two_ops R hu p1 m1 hd he he
    rw [key] at this; convert this using 2; ring

/-- 6u days at u = 2⁻⁵³ in seconds: below the nanosecond of the statement, with a factor 17 to spare -/
theorem error_budget : 6 * ((1 : Rat) / 2 ^ 53) * 86400 < 1 / 10 ^ 9 ∧ (2 : Rat) ^ 50 > 2500000 + 40000 := by
  constructor <;> norm_num

/-- the hypotheses are met: a constructed epoch and a constructed 40 000-day duration are `Stored (2⁵⁰) 1` -/
example : Stored (2 ^ 50) 1 (⟨2458000, 1/4⟩ : JD) ∧ Stored (2 ^ 50) 1 (DFmt.toJds .days (-40000 + 1/3) 0) :=
  ⟨⟨⟨4916000, by norm_num⟩, by norm_num, by norm_num⟩, by
    have h : DFmt.toJds .days (-40000 + 1/3) 0 = ⟨-40000, 1/3⟩ := by decide +kernel
    rw [h]; exact ⟨⟨-80000, by norm_num⟩, by norm_num, by norm_num⟩⟩

/-! ### The model is the source (regenerated on every run)

`Generated/SourceExprsTime.lean` is written by `translator/extract_exprs.py` from the Python `ast` of `_time.py` in
the tree under test: for each of the four operator methods and each kind of right-hand operand the branch the method
takes (which parts each result part is built from, what kind of object it returns, or `NotImplemented`), the scale
guard, and `_to_jds`/`_from_jds` of the duration formats jd, days, seconds.  The theorems of this section say that
the model's `binop`, `DFmt.toJds`, `DFmt.fromJds` are *equal* to those regenerated definitions.  Hand-modelled and
tied by the correspondence only: the `timedelta` format (CPython's timedelta arithmetic) and NumPy broadcasting
(`broadcast2`, run against the real operators on scalar / length-1 / length-n / mismatching operands). -/
section Source
open Midgard.Generated
set_option linter.unusedTactic false
set_option linter.unreachableTactic false
set_option linter.unnecessarySeqFocus false
set_option linter.unusedSimpArgs false

/-- the model's result of an operator as the generated definitions express it -/
def resOf : Res → Option (Bool × Rat × Rat)
  | .notImplemented => none
  | .ok .time j => some (false, j.jd1, j.jd2)
  | .ok .delta j => some (true, j.jd1, j.jd2)

/-- what the source returns for an operator and operand kinds (equal scales) -/
def srcBinop (op : Op) (ka kb : Kind) (a b : JD) : Option (Bool × Rat × Rat) :=
  match op, ka, kb with
  | .add, .time, .delta => SrcTime.timeAddDeltaSrc a.jd1 a.jd2 b.jd1 b.jd2
  | .add, .time, .time => SrcTime.timeAddTimeSrc a.jd1 a.jd2 b.jd1 b.jd2
  | .sub, .time, .delta => SrcTime.timeSubDeltaSrc a.jd1 a.jd2 b.jd1 b.jd2
  | .sub, .time, .time => SrcTime.timeSubTimeSrc a.jd1 a.jd2 b.jd1 b.jd2
  | .add, .delta, .delta => SrcTime.deltaAddDeltaSrc a.jd1 a.jd2 b.jd1 b.jd2
  | .add, .delta, .time => SrcTime.deltaAddTimeSrc a.jd1 a.jd2 b.jd1 b.jd2
  | .sub, .delta, .delta => SrcTime.deltaSubDeltaSrc a.jd1 a.jd2 b.jd1 b.jd2
  | .sub, .delta, .time => SrcTime.deltaSubTimeSrc a.jd1 a.jd2 b.jd1 b.jd2

/-- equal scales: the dispatch and the part-by-part arithmetic of all eight operator branches are the source's -/
theorem source_binop (op : Op) (ka kb : Kind) (s : Scale) (a b : JD) :
    resOf (binop op ka s a kb s b) = srcBinop op ka kb a b := by
  cases op <;> cases ka <;> cases kb <;>
    (simp only [binop, ne_eq, not_true_eq_false, if_false, resOf, srcBinop, tAddD, tSubD, tSubT, dAddD, dSubD, dAddT,
      SrcTime.timeAddDeltaSrc, SrcTime.timeAddTimeSrc, SrcTime.timeSubDeltaSrc, SrcTime.timeSubTimeSrc, SrcTime.deltaAddDeltaSrc,
      SrcTime.deltaAddTimeSrc, SrcTime.deltaSubDeltaSrc, SrcTime.deltaSubTimeSrc, Option.some.injEq, Prod.mk.injEq, true_and]
     <;> (first | rfl | (constructor <;> ring_nf)))

/-- different scales: every method's first statement refuses (the four guarded entry points of the source) -/
theorem source_binop_mixed (a b : JD) :
    SrcTime.timeAddMixedSrc a.jd1 a.jd2 b.jd1 b.jd2 = none ∧ SrcTime.timeSubMixedSrc a.jd1 a.jd2 b.jd1 b.jd2 = none ∧
    SrcTime.deltaAddMixedSrc a.jd1 a.jd2 b.jd1 b.jd2 = none ∧ SrcTime.deltaSubMixedSrc a.jd1 a.jd2 b.jd1 b.jd2 = none ∧
    (∀ op ka kb sa sb, sa ≠ sb → binop op ka sa a kb sb b = .notImplemented) := by
  refine ⟨rfl, rfl, rfl, rfl, ?_⟩
  intro op ka kb sa sb h
  simp [binop, h]

/-- the duration formats: `_to_jds` / `_from_jds` of jd, days, seconds (Unit.second2day = 1/86400, Unit.day2second = 86400) -/
theorem source_duration_formats (v v2 : Rat) (j : JD) :
    (let r := DFmt.toJds .jd v v2; SrcTime.deltaJdToJdsSrc v v2 (1 / day2sec) = (r.jd1, r.jd2)) ∧
    (let r := DFmt.toJds .days v v2; SrcTime.deltaDayToJdsSrc v v2 (1 / day2sec) = (r.jd1, r.jd2)) ∧
    (let r := DFmt.toJds .seconds v v2; SrcTime.deltaSecToJdsSrc v v2 (1 / day2sec) = (r.jd1, r.jd2)) ∧
    SrcTime.deltaJdFromJdsSrc day2sec j.jd1 j.jd2 = DFmt.fromJds .jd j ∧
    SrcTime.deltaDayFromJdsSrc day2sec j.jd1 j.jd2 = DFmt.fromJds .days j ∧
    SrcTime.deltaSecFromJdsSrc day2sec j.jd1 j.jd2 = DFmt.fromJds .seconds j := by
  have hdiv : ∀ x : Rat, x * (1 / day2sec) = x / day2sec := fun x => by ring
  refine ⟨?_, ?_, ?_, ?_, ?_, ?_⟩ <;>
    (simp only [DFmt.toJds, DFmt.fromJds, splitFloor, SrcTime.deltaJdToJdsSrc, SrcTime.deltaDayToJdsSrc, SrcTime.deltaSecToJdsSrc,
       SrcTime.deltaJdFromJdsSrc, SrcTime.deltaDayFromJdsSrc, SrcTime.deltaSecFromJdsSrc, SrcTime.HasFloor.floor, hdiv, Prod.mk.injEq]
     <;> (first | rfl | (constructor <;> ring_nf) | ring_nf))

end Source

end Midgard.Props.C03

#print axioms Midgard.Props.C03.add_sub_cancel
#print axioms Midgard.Props.C03.sub_add_cancel
#print axioms Midgard.Props.C03.diff_add
#print axioms Midgard.Props.C03.sub_eq_add_neg
#print axioms Midgard.Props.C03.delta_add_comm
#print axioms Midgard.Props.C03.delta_add_sub
#print axioms Midgard.Props.C03.sub_parts
#print axioms Midgard.Props.C03.toJds_inst
#print axioms Midgard.Props.C03.fromJds_toJds
#print axioms Midgard.Props.C03.roundHalfEven_int
#print axioms Midgard.Props.C03.fromJds_toJds_timedelta
#print axioms Midgard.Props.C03.toJds_normalised
#print axioms Midgard.Props.C03.mixed_scale_refused
#print axioms Midgard.Props.C03.same_scale_dispatch
#print axioms Midgard.Props.C03.source_binop
#print axioms Midgard.Props.C03.source_binop_mixed
#print axioms Midgard.Props.C03.source_duration_formats
#print axioms Midgard.Props.C03.binopV_elementwise
#print axioms Midgard.Props.C03.mixed_scale_refused_arrays
#print axioms Midgard.Props.C03.binopV_ok
#print axioms Midgard.Props.C03.add_sub_cancel_arrays
#print axioms Midgard.Props.C03.sub_add_cancel_arrays
#print axioms Midgard.Props.C03.diff_add_arrays
#print axioms Midgard.Props.C03.sub_eq_add_neg_arrays
#print axioms Midgard.Props.C03.delta_add_comm_arrays
#print axioms Midgard.Props.C03.delta_add_sub_arrays
#print axioms Midgard.Props.C03.no_inplace_on_operands
#print axioms Midgard.Props.C03.ops_pure
#print axioms Midgard.Props.C03.ops_refine
#print axioms Midgard.Props.C03.inplace_ctor_mutates
#print axioms Midgard.Props.C03.result_normalised
#print axioms Midgard.Props.C03.float_model_is_model
#print axioms Midgard.Props.C03.one_op_error
#print axioms Midgard.Props.C03.laws_rounded
#print axioms Midgard.Props.C03.error_budget
#print axioms Midgard.Props.C03.no_aliasing_constructor
#print axioms Midgard.Props.C03.epoch_ctor_pure
#print axioms Midgard.Props.C03.aliasing_ctor_shares
#print axioms Midgard.Props.C03.source_epoch_split
#print axioms Midgard.Props.C03.reflected_ops_refuse
#print axioms Midgard.Props.C03.mixed_scale_refused_dispatch
#print axioms Midgard.Props.C03.plain_operand_refused
#print axioms Midgard.Props.C03.same_scale_dispatch_value
#print axioms Midgard.Props.C03.lenient_radd_mixes_scales
