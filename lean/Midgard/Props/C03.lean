/-
C03 — Time and time-difference arithmetic obeys the affine laws.

Property theorems only.  All statements are exact identities over `Rat` about the model in
`Model/TimeArith.lean`; the floating-point error of the implementation is *measured* by the
correspondence run (harness/c03.py), not proved.
-/
import Midgard.Model.TimeArith
import Midgard.Generated.SourceExprsTime
import Mathlib.Tactic.Ring
import Mathlib.Tactic.NormNum
import Mathlib.Algebra.Order.Field.Rat

namespace Midgard.Props.C03
open Midgard.TimeArith

/-! ### The six affine laws, as instants / durations -/

/-- (t + d) − t = d -/
theorem add_sub_cancel (t d : JD) : (tSubT (tAddD t d) t).inst = d.inst := by
  simp only [tSubT, tAddD, JD.inst]; grind

/-- (t − d) + d = t -/
theorem sub_add_cancel (t d : JD) : (tAddD (tSubD t d) d).inst = t.inst := by
  simp only [tSubD, tAddD, JD.inst]; grind

/-- (t₂ − t₁) + t₁ = t₂ -/
theorem diff_add (t₁ t₂ : JD) : (dAddT (tSubT t₂ t₁) t₁).inst = t₂.inst := by
  simp only [dAddT, tSubT, JD.inst]; grind

/-- t − d = t + (−d), for every duration format (the negated duration is built through the
format's own constructor, so this also covers its floor-normalisation). -/
theorem sub_eq_add_neg (f : DFmt) (t : JD) (v v2 : Rat) :
    (tSubD t (f.toJds v v2)).inst = (tAddD t (dNeg f v v2)).inst := by
  cases f <;> simp only [tSubD, tAddD, dNeg, DFmt.toJds, splitFloor, JD.inst, day2sec, day2usec] <;> grind

/-- d₁ + d₂ = d₂ + d₁ (even part by part) -/
theorem delta_add_comm (d e : JD) : dAddD d e = dAddD e d := by
  simp only [dAddD, JD.mk.injEq]; constructor <;> grind

/-- (d₁ + d₂) − d₂ = d₁ -/
theorem delta_add_sub (d e : JD) : (dSubD (dAddD d e) e).inst = d.inst := by
  simp only [dSubD, dAddD, JD.inst]; grind

/-- The whole-day part really moves by the whole days of the duration: the law is not only
true of the sum but of the stored parts (this is what the pre-fix `__sub__` got wrong). -/
theorem sub_parts (t d : JD) : (tSubD t d).jd1 = t.jd1 - d.jd1 ∧ (tSubD t d).jd2 = t.jd2 - d.jd2 := by
  simp [tSubD]

/-! ### "identically for every duration format" -/

/-- The constructor of every duration format preserves the value it was given
(in days: `jd`, `days`; `seconds/86400`; microseconds/86400e6 for `timedelta`). -/
theorem toJds_inst (f : DFmt) (v v2 : Rat) :
    (f.toJds v v2).inst =
      match f with
      | .jd => v + v2 | .days => v + v2
      | .seconds => (v + v2) / day2sec
      | .timedelta => (v + v2) / day2usec := by
  cases f <;> simp only [DFmt.toJds, splitFloor, JD.inst, day2sec, day2usec] <;> grind

/-- reading a duration back in the format it was built from returns the value -/
theorem fromJds_toJds (f : DFmt) (v v2 : Rat) (hf : f ≠ .timedelta) :
    f.fromJds (f.toJds v v2) = v + v2 := by
  cases f <;> simp only [DFmt.fromJds, DFmt.toJds, splitFloor, day2sec] <;> first | grind | contradiction

theorem roundHalfEven_int (n : Int) : roundHalfEven (n : Rat) = n := by
  have h0 : ((n : Rat) - (n : Rat)) = 0 := by grind
  have h1 : (0 : Rat) < 1 / 2 := by decide +kernel
  simp [roundHalfEven, Rat.floor_intCast, h0, h1]

/-- the same for `timedelta`, whose values are whole microseconds -/
theorem fromJds_toJds_timedelta (n m : Int) :
    DFmt.fromJds .timedelta (DFmt.toJds .timedelta (n : Rat) (m : Rat)) = ((n + m : Int) : Rat) := by
  simp only [DFmt.fromJds, DFmt.toJds, day2usec]
  have h : ((((n : Rat) + (m : Rat)) / 86400000000).floor : Rat)
      + (((n : Rat) + (m : Rat)) / 86400000000 - ((((n : Rat) + (m : Rat)) / 86400000000).floor : Rat))
      = ((n : Rat) + (m : Rat)) / 86400000000 := by grind
  rw [h]
  have h2 : ((n : Rat) + (m : Rat)) / 86400000000 * 86400000000 = ((n + m : Int) : Rat) := by
    rw [Rat.intCast_add]; grind
  rw [h2, roundHalfEven_int]

/-- every duration constructor normalises: whole-day part is an integer, fraction in [0, 1) -/
theorem toJds_normalised (f : DFmt) (v v2 : Rat) :
    (∃ k : Int, (f.toJds v v2).jd1 = (k : Rat)) ∧ 0 ≤ (f.toJds v v2).jd2 ∧ (f.toJds v v2).jd2 < 1 := by
  have key : ∀ x : Rat, 0 ≤ x - (x.floor : Rat) ∧ x - (x.floor : Rat) < 1 := by
    intro x
    have h1 := Rat.floor_le x
    have h2 := Rat.lt_floor_add_one x
    rw [Rat.intCast_add] at h2
    constructor <;> grind
  cases f
  · refine ⟨⟨(v + v2).floor, by simp only [DFmt.toJds, splitFloor]; grind⟩, ?_⟩
    have := key (v + v2); simp only [DFmt.toJds, splitFloor]; constructor <;> grind
  · refine ⟨⟨(v + v2).floor, by simp only [DFmt.toJds, splitFloor]; grind⟩, ?_⟩
    have := key (v + v2); simp only [DFmt.toJds, splitFloor]; constructor <;> grind
  · refine ⟨⟨(v / day2sec + v2 / day2sec).floor, by simp only [DFmt.toJds, splitFloor]; grind⟩, ?_⟩
    have := key (v / day2sec + v2 / day2sec); simp only [DFmt.toJds, splitFloor]; constructor <;> grind
  · refine ⟨⟨((v + v2) / day2usec).floor, by simp only [DFmt.toJds]⟩, ?_⟩
    have := key ((v + v2) / day2usec); simp only [DFmt.toJds]; exact this

/-! ### Mixing scales is refused -/

theorem mixed_scale_refused (op : Op) (ka kb : Kind) (sa sb : Scale) (a b : JD) (h : sa ≠ sb) :
    binop op ka sa a kb sb b = .notImplemented := by
  simp [binop, h]

/-- within one scale exactly the six meaningful combinations are computed, with the kinds the
statement names (epoch ± duration → epoch, epoch − epoch → duration, …) -/
theorem same_scale_dispatch (s : Scale) (a b : JD) :
    binop .add .time s a .delta s b = .ok .time (tAddD a b) ∧
    binop .sub .time s a .delta s b = .ok .time (tSubD a b) ∧
    binop .sub .time s a .time s b = .ok .delta (tSubT a b) ∧
    binop .add .delta s a .delta s b = .ok .delta (dAddD a b) ∧
    binop .sub .delta s a .delta s b = .ok .delta (dSubD a b) ∧
    binop .add .delta s a .time s b = .ok .time (dAddT a b) ∧
    binop .add .time s a .time s b = .notImplemented ∧
    binop .sub .delta s a .time s b = .notImplemented := by
  simp [binop]

/-! ### Non-vacuity: concrete operands -/

example : (tSubD ⟨2458000.5, 1/4⟩ (DFmt.toJds .days (13/4) 0)) = ⟨2457997.5, 0⟩ := by decide +kernel
example : DFmt.toJds .seconds (-43200) 0 = ⟨-1, 1/2⟩ := by decide +kernel
example : roundHalfEven (5/2) = 2 ∧ roundHalfEven (7/2) = 4 ∧ roundHalfEven (-5/2) = -2 := by decide +kernel


/-! ### The model is the source (regenerated on every run)

`Generated/SourceExprsTime.lean` is written by `translator/extract_exprs.py` from the Python `ast` of `_time.py` in
the tree under test: for each of the four operator methods and each kind of right-hand operand the branch the method
takes (which parts each result part is built from, what kind of object it returns, or `NotImplemented`), the scale
guard, and `_to_jds`/`_from_jds` of the duration formats jd, days, seconds.  The theorems of this section say that
the model's `binop`, `DFmt.toJds`, `DFmt.fromJds` are *equal* to those regenerated definitions.  Hand-modelled and
tied by the correspondence only: the `timedelta` format (CPython's timedelta arithmetic) and NumPy broadcasting. -/
section Source
open Midgard.Generated
set_option linter.unusedTactic false
set_option linter.unreachableTactic false
set_option linter.unnecessarySeqFocus false
set_option linter.unusedSimpArgs false

/-- the model's result of an operator as the generated definitions express it -/
def resOf : Res → Option (Bool × Rat × Rat)
  | .notImplemented => none
  | .ok .time j => some (false, j.jd1, j.jd2)
  | .ok .delta j => some (true, j.jd1, j.jd2)

/-- what the source returns for an operator and operand kinds (equal scales) -/
def srcBinop (op : Op) (ka kb : Kind) (a b : JD) : Option (Bool × Rat × Rat) :=
  match op, ka, kb with
  | .add, .time, .delta => SrcTime.timeAddDeltaSrc a.jd1 a.jd2 b.jd1 b.jd2
  | .add, .time, .time => SrcTime.timeAddTimeSrc a.jd1 a.jd2 b.jd1 b.jd2
  | .sub, .time, .delta => SrcTime.timeSubDeltaSrc a.jd1 a.jd2 b.jd1 b.jd2
  | .sub, .time, .time => SrcTime.timeSubTimeSrc a.jd1 a.jd2 b.jd1 b.jd2
  | .add, .delta, .delta => SrcTime.deltaAddDeltaSrc a.jd1 a.jd2 b.jd1 b.jd2
  | .add, .delta, .time => SrcTime.deltaAddTimeSrc a.jd1 a.jd2 b.jd1 b.jd2
  | .sub, .delta, .delta => SrcTime.deltaSubDeltaSrc a.jd1 a.jd2 b.jd1 b.jd2
  | .sub, .delta, .time => SrcTime.deltaSubTimeSrc a.jd1 a.jd2 b.jd1 b.jd2

/-- equal scales: the dispatch and the part-by-part arithmetic of all eight operator branches are the source's -/
theorem source_binop (op : Op) (ka kb : Kind) (s : Scale) (a b : JD) :
    resOf (binop op ka s a kb s b) = srcBinop op ka kb a b := by
  cases op <;> cases ka <;> cases kb <;>
    (simp only [binop, ne_eq, not_true_eq_false, if_false, resOf, srcBinop, tAddD, tSubD, tSubT, dAddD, dSubD, dAddT,
      SrcTime.timeAddDeltaSrc, SrcTime.timeAddTimeSrc, SrcTime.timeSubDeltaSrc, SrcTime.timeSubTimeSrc, SrcTime.deltaAddDeltaSrc,
      SrcTime.deltaAddTimeSrc, SrcTime.deltaSubDeltaSrc, SrcTime.deltaSubTimeSrc, Option.some.injEq, Prod.mk.injEq, true_and]
     <;> (first | rfl | (constructor <;> ring_nf)))

/-- different scales: every method's first statement refuses (the four guarded entry points of the source) -/
theorem source_binop_mixed (a b : JD) :
    SrcTime.timeAddMixedSrc a.jd1 a.jd2 b.jd1 b.jd2 = none ∧ SrcTime.timeSubMixedSrc a.jd1 a.jd2 b.jd1 b.jd2 = none ∧
    SrcTime.deltaAddMixedSrc a.jd1 a.jd2 b.jd1 b.jd2 = none ∧ SrcTime.deltaSubMixedSrc a.jd1 a.jd2 b.jd1 b.jd2 = none ∧
    (∀ op ka kb sa sb, sa ≠ sb → binop op ka sa a kb sb b = .notImplemented) := by
  refine ⟨rfl, rfl, rfl, rfl, ?_⟩
  intro op ka kb sa sb h
  simp [binop, h]

/-- the duration formats: `_to_jds` / `_from_jds` of jd, days, seconds (Unit.second2day = 1/86400, Unit.day2second = 86400) -/
theorem source_duration_formats (v v2 : Rat) (j : JD) :
    (let r := DFmt.toJds .jd v v2; SrcTime.deltaJdToJdsSrc v v2 (1 / day2sec) = (r.jd1, r.jd2)) ∧
    (let r := DFmt.toJds .days v v2; SrcTime.deltaDayToJdsSrc v v2 (1 / day2sec) = (r.jd1, r.jd2)) ∧
    (let r := DFmt.toJds .seconds v v2; SrcTime.deltaSecToJdsSrc v v2 (1 / day2sec) = (r.jd1, r.jd2)) ∧
    SrcTime.deltaJdFromJdsSrc day2sec j.jd1 j.jd2 = DFmt.fromJds .jd j ∧
    SrcTime.deltaDayFromJdsSrc day2sec j.jd1 j.jd2 = DFmt.fromJds .days j ∧
    SrcTime.deltaSecFromJdsSrc day2sec j.jd1 j.jd2 = DFmt.fromJds .seconds j := by
  have hdiv : ∀ x : Rat, x * (1 / day2sec) = x / day2sec := fun x => by ring
  refine ⟨?_, ?_, ?_, ?_, ?_, ?_⟩ <;>
    (simp only [DFmt.toJds, DFmt.fromJds, splitFloor, SrcTime.deltaJdToJdsSrc, SrcTime.deltaDayToJdsSrc, SrcTime.deltaSecToJdsSrc,
       SrcTime.deltaJdFromJdsSrc, SrcTime.deltaDayFromJdsSrc, SrcTime.deltaSecFromJdsSrc, SrcTime.HasFloor.floor, hdiv, Prod.mk.injEq]
     <;> (first | rfl | (constructor <;> ring_nf) | ring_nf))

end Source

end Midgard.Props.C03

#print axioms Midgard.Props.C03.add_sub_cancel
#print axioms Midgard.Props.C03.sub_add_cancel
#print axioms Midgard.Props.C03.diff_add
#print axioms Midgard.Props.C03.sub_eq_add_neg
#print axioms Midgard.Props.C03.delta_add_comm
#print axioms Midgard.Props.C03.delta_add_sub
#print axioms Midgard.Props.C03.sub_parts
#print axioms Midgard.Props.C03.toJds_inst
#print axioms Midgard.Props.C03.fromJds_toJds
#print axioms Midgard.Props.C03.roundHalfEven_int
#print axioms Midgard.Props.C03.fromJds_toJds_timedelta
#print axioms Midgard.Props.C03.toJds_normalised
#print axioms Midgard.Props.C03.mixed_scale_refused
#print axioms Midgard.Props.C03.same_scale_dispatch
#print axioms Midgard.Props.C03.source_binop
#print axioms Midgard.Props.C03.source_binop_mixed
#print axioms Midgard.Props.C03.source_duration_formats
