/-
C04 — Time arrays stay element-aligned, immutable and hash-consistent when derived.

Property theorems about `Model/TimeArrayHist.lean`.  `clear` is the mechanism parameter read off
the source by the translator (`Generated/TimeArrayMech.lean`): does `__getitem__` clear the
`_jd*_sliced` side channel once it has been handed over?
-/
import Midgard.Model.TimeArrayHist
import Midgard.Generated.TimeArrayMech
import Mathlib.Tactic.SplitIfs
import Mathlib.Tactic.Common

set_option linter.unusedVariables false

namespace Midgard.Props.C04
open Midgard.TimeArrayHist

/-- the array is element-aligned and carries no left-over side channel -/
def Good (a : Arr) : Prop := a.pending = none ∧ a.vals = a.jd1 ∧ a.jd1 = a.jd2

/-- heap invariant: every array that exists is `Good` -/
def HInv (h : Heap) : Prop := ∀ a ∈ h, Good a

def Out.aligned : Out → Prop
  | .arr o => o.aligned
  | .many os => ∀ o ∈ os, o.aligned
  | .error => True

/-! ### The source has the repaired mechanism -/

/-- `__getitem__` clears `_jd1_sliced/_jd2_sliced` in a `finally` and handles tuple indices
(extracted from the AST of `midgard/data/_time.py` on every run) -/
theorem mechanism_clears : Generated.TimeArrayMech.clearsSideChannel = true := by decide

/-! ### One-step invariant -/

theorem hinv_append {h : Heap} {r : Arr} (hh : HInv h) (hr : Good r) : HInv (h ++ [r]) := by
  intro a ha
  rcases List.mem_append.mp ha with ha | ha
  · exact hh a ha
  · simp at ha; subst ha; exact hr

theorem hinv_set {h : Heap} {k : Nat} {r : Arr} (hh : HInv h) (hr : Good r) : HInv (setAt h k r) := by
  intro a ha
  rcases List.mem_or_eq_of_mem_set ha with ha | ha
  · exact hh a ha
  · subst ha; exact hr

theorem good_of_getElem? {h : Heap} (hh : HInv h) {t : Nat} {a : Arr} (ha : h[t]? = some a) : Good a :=
  hh a (List.mem_of_getElem? ha)

/-- `t[i]` on a good heap: the heap stays good, the element (if any) is good -/
theorem getInt_good {h : Heap} (hh : HInv h) (t : Nat) (i : Int) :
    HInv (getIntStep true h t i).1 ∧ ∀ r, (getIntStep true h t i).2 = some r → Good r := by
  unfold getIntStep
  cases ha : h[t]? with
  | none => exact ⟨hh, by simp⟩
  | some a =>
    obtain ⟨hp, hv, hj⟩ := good_of_getElem? hh ha
    simp only
    split_ifs with hs
    · exact ⟨hh, by simp⟩
    · cases hk : normIdx a.jd1.length i with
      | none => exact ⟨hh, by simp⟩
      | some k =>
        simp only
        refine ⟨hinv_set hh ⟨by simp [afterGet], hv, hj⟩, ?_⟩
        intro r hr
        simp only [Option.some.injEq] at hr
        subst hr
        exact ⟨rfl, rfl, by simp [hj]⟩

theorem iter_good {h : Heap} (hh : HInv h) (t : Nat) (ks : List Nat) (acc : List Obs)
    (hacc : ∀ o ∈ acc, o.aligned) :
    let res := ks.foldl
      (fun (acc : Heap × List Obs) (k : Nat) =>
        match getIntStep true acc.1 t (k : Int) with
        | (h', some r) => (h' ++ [r], acc.2 ++ [r.obs])
        | (h', none) => (h', acc.2))
      (h, acc)
    HInv res.1 ∧ ∀ o ∈ res.2, o.aligned := by
  induction ks generalizing h acc with
  | nil => exact ⟨hh, hacc⟩
  | cons k ks ih =>
    simp only [List.foldl_cons]
    obtain ⟨h1, h2⟩ := getInt_good hh t (k : Int)
    cases hr : getIntStep true h t (k : Int) with
    | mk h' r =>
      rw [hr] at h1 h2
      cases r with
      | none => exact ih h1 acc hacc
      | some r =>
        have hg := h2 r rfl
        apply ih (hinv_append h1 hg)
        intro o ho
        rcases List.mem_append.mp ho with ho | ho
        · exact hacc o ho
        · simp at ho; subst ho; exact ⟨hg.2.1, hg.2.2⟩

/-- **Invariant step**: with the repaired mechanism every operation keeps every array of the heap
aligned and free of left-over side channel, and what it returns is aligned. -/
theorem inv_step {h : Heap} (hh : HInv h) (op : Op) :
    HInv (step true h op).1 ∧ Out.aligned (step true h op).2 := by
  cases op with
  | getInt t i =>
    obtain ⟨h1, h2⟩ := getInt_good hh t i
    simp only [step]
    cases hr : getIntStep true h t i with
    | mk h' r =>
      rw [hr] at h1 h2
      cases r with
      | none => exact ⟨h1, trivial⟩
      | some r => have hg := h2 r rfl; exact ⟨hinv_append h1 hg, ⟨hg.2.1, hg.2.2⟩⟩
  | getSel t s =>
    simp only [step]
    cases ha : h[t]? with
    | none => exact ⟨hh, trivial⟩
    | some a =>
      obtain ⟨hp, hv, hj⟩ := good_of_getElem? hh ha
      simp only
      split_ifs
      · exact ⟨hh, trivial⟩
      · rw [hv]
        cases hps : s.positions a.jd1.length with
        | none => exact ⟨hh, trivial⟩
        | some ps =>
          simp only [finalize]
          refine ⟨hinv_append (hinv_set hh ⟨by simp [afterGet], by simp [afterGet], by simpa [afterGet] using hj⟩)
            ⟨rfl, rfl, by simp [hj]⟩, ?_⟩
          exact ⟨rfl, by simp [Arr.obs, hj]⟩
  | view t =>
    simp only [step]
    cases ha : h[t]? with
    | none => exact ⟨hh, trivial⟩
    | some a =>
      obtain ⟨hp, hv, hj⟩ := good_of_getElem? hh ha
      simp only [finalize, hp]
      exact ⟨hinv_append hh ⟨rfl, hv, hj⟩, ⟨hv, hj⟩⟩
  | copy t =>
    simp only [step]
    cases ha : h[t]? with
    | none => exact ⟨hh, trivial⟩
    | some a =>
      obtain ⟨hp, hv, hj⟩ := good_of_getElem? hh ha
      exact ⟨hinv_append hh ⟨rfl, hv, hj⟩, ⟨hv, hj⟩⟩
  | subset t s =>
    simp only [step]
    cases ha : h[t]? with
    | none => exact ⟨hh, trivial⟩
    | some a =>
      obtain ⟨hp, hv, hj⟩ := good_of_getElem? hh ha
      simp only
      split_ifs
      · exact ⟨hh, trivial⟩
      · rw [hv]
        cases hps : s.positions a.jd1.length with
        | none => exact ⟨hh, trivial⟩
        | some ps =>
          exact ⟨hinv_append hh ⟨rfl, rfl, by simp [hj]⟩, ⟨rfl, by simp [Arr.obs, hj]⟩⟩
  | insert ta pos tb =>
    simp only [step]
    cases ha : h[ta]? with
    | none => exact ⟨hh, trivial⟩
    | some a =>
      cases hb : h[tb]? with
      | none => exact ⟨hh, trivial⟩
      | some b =>
        obtain ⟨_, hv, hj⟩ := good_of_getElem? hh ha
        obtain ⟨_, hv', hj'⟩ := good_of_getElem? hh hb
        simp only
        split_ifs
        · exact ⟨hh, trivial⟩
        · rw [hv, hv', ← hj, ← hj']
          cases insertAt pos a.jd1 b.jd1 with
          | none => exact ⟨hh, trivial⟩
          | some v => exact ⟨hinv_append hh ⟨rfl, rfl, rfl⟩, ⟨rfl, rfl⟩⟩
  | scale t =>
    simp only [step]
    cases ha : h[t]? with
    | none => exact ⟨hh, trivial⟩
    | some a =>
      obtain ⟨hp, hv, hj⟩ := good_of_getElem? hh ha
      exact ⟨hinv_append hh ⟨rfl, rfl, hj⟩, ⟨rfl, hj⟩⟩
  | iter t =>
    simp only [step]
    cases ha : h[t]? with
    | none => exact ⟨hh, trivial⟩
    | some a =>
      simp only
      split_ifs
      · exact ⟨hh, trivial⟩
      · have := iter_good hh t (List.range a.jd1.length) [] (by simp)
        exact this
  | set t => exact ⟨hh, trivial⟩

/-! ### Every reachable state, every operation sequence -/

/-- **Invariant for all histories**: starting from freshly constructed arrays, after any
sequence of operations every array in existence is aligned, and every value ever returned was. -/
theorem inv_run {h : Heap} (hh : HInv h) (ops : List Op) :
    HInv (run true h ops).1 ∧ ∀ o ∈ (run true h ops).2, Out.aligned o := by
  induction ops generalizing h with
  | nil => exact ⟨hh, by simp [run]⟩
  | cons op ops ih =>
    obtain ⟨h1, h2⟩ := inv_step hh op
    simp only [run]
    obtain ⟨h3, h4⟩ := ih h1
    refine ⟨h3, ?_⟩
    intro o ho
    rcases List.mem_cons.mp ho with ho | ho
    · subst ho; exact h2
    · exact h4 o ho

theorem fresh_good (base n : Nat) : Good (fresh base n) := ⟨rfl, rfl, rfl⟩

theorem inv_init (specs : List (Nat × Nat)) : HInv (specs.map fun s => fresh s.1 s.2) := by
  intro a ha
  obtain ⟨s, _, rfl⟩ := List.mem_map.mp ha
  exact fresh_good _ _

/-! ### Derived arrays are selected by exactly the same indices -/

/-- `t[sel]` on an aligned array returns the values, `jd1` and `jd2` picked at the *same*
positions `sel` denotes for that length, and the length is the number of selected epochs -/
theorem getSel_is_index {h : Heap} (hh : HInv h) (t : Nat) (s : Sel) (a : Arr) (ha : h[t]? = some a)
    (hs : a.scalar = false) (ps : List Nat) (hps : s.positions a.vals.length = some ps) :
    (step true h (.getSel t s)).2 = .arr ⟨pick a.vals ps, pick a.jd1 ps, pick a.jd2 ps, false⟩ := by
  obtain ⟨hp, hv, hj⟩ := good_of_getElem? hh ha
  have hps' : s.positions a.jd1.length = some ps := by rw [← hv]; exact hps
  simp [step, ha, hs, hps, hps', finalize, Arr.obs]

theorem subset_is_index {h : Heap} (hh : HInv h) (t : Nat) (s : Sel) (a : Arr) (ha : h[t]? = some a)
    (hs : a.scalar = false) (ps : List Nat) (hps : s.positions a.vals.length = some ps) :
    (step true h (.subset t s)).2 = .arr ⟨pick a.vals ps, pick a.jd1 ps, pick a.jd2 ps, false⟩ := by
  obtain ⟨hp, hv, hj⟩ := good_of_getElem? hh ha
  have hps' : s.positions a.jd1.length = some ps := by rw [← hv]; exact hps
  simp [step, ha, hs, hps, hps', Arr.obs]

/-- `t[i]` returns the single epoch at position `i` (Python index rules) -/
theorem getInt_is_index {h : Heap} (hh : HInv h) (t : Nat) (i : Int) (a : Arr) (ha : h[t]? = some a)
    (hs : a.scalar = false) (k : Nat) (hk : normIdx a.jd1.length i = some k) :
    (step true h (.getInt t i)).2 = .arr ⟨pick a.jd1 [k], pick a.jd1 [k], pick a.jd2 [k], true⟩ := by
  simp [step, getIntStep, ha, hs, hk, Arr.obs]

/-- views and copies observe exactly the parent's three lists -/
theorem view_copy_same {h : Heap} (hh : HInv h) (t : Nat) (a : Arr) (ha : h[t]? = some a) :
    (step true h (.view t)).2 = .arr a.obs ∧ (step true h (.copy t)).2 = .arr a.obs := by
  obtain ⟨hp, _, _⟩ := good_of_getElem? hh ha
  simp [step, ha, finalize, hp, Arr.obs]

/-- `insert(a, pos, b)` splices the epochs of `b` into those of `a` at `pos` — the same splice in values,
`jd1` and `jd2` -/
theorem insert_is_splice {h : Heap} (hh : HInv h) (ta tb : Nat) (pos : Int) (a b : Arr) (ha : h[ta]? = some a)
    (hb : h[tb]? = some b) (hs : a.scalar = false) (l : List Nat) (hl : insertAt pos a.vals b.vals = some l) :
    (step true h (.insert ta pos tb)).2 = .arr ⟨l, l, l, false⟩ := by
  obtain ⟨_, hv, hj⟩ := good_of_getElem? hh ha
  obtain ⟨_, hv', hj'⟩ := good_of_getElem? hh hb
  have h1 : insertAt pos a.jd1 b.jd1 = some l := by rw [← hv, ← hv']; exact hl
  have h2 : insertAt pos a.jd2 b.jd2 = some l := by rw [← hj, ← hj']; exact h1
  simp [step, ha, hb, hs, hl, h1, h2, Arr.obs]

theorem set_self {α} (l : List α) (i : Nat) (x : α) (h : l[i]? = some x) : l.set i x = l := by
  apply List.ext_getElem?
  intro j
  by_cases hij : j = i
  · subst hij
    have hlt : j < l.length := by
      by_contra hc; rw [List.getElem?_eq_none (by omega)] at h; cases h
    rw [List.getElem?_set_self hlt, h]
  · rw [List.getElem?_set_ne (Ne.symm hij)]

/-- one integer read on a good heap leaves the heap as it was and returns the single epoch -/
theorem getIntStep_good {h : Heap} (hh : HInv h) (t : Nat) (a : Arr) (ha : h[t]? = some a) (hs : a.scalar = false)
    (k : Nat) (hk : k < a.jd1.length) :
    getIntStep true h t (k : Int) = (h, some { vals := pick a.jd1 [k], jd1 := pick a.jd1 [k], jd2 := pick a.jd2 [k], scalar := true }) := by
  obtain ⟨hp, _, _⟩ := good_of_getElem? hh ha
  have hn : normIdx a.jd1.length (k : Int) = some k := by
    simp [normIdx]; omega
  have hsame : afterGet true { a with pending := some (pick a.jd1 [k], pick a.jd2 [k]) } = a := by
    cases a; simp only [afterGet, if_true] at hp ⊢; simp_all
  unfold getIntStep
  simp only [ha, hn, hsame, setAt, set_self h t a ha]
  simp [hs]

/-- iteration yields exactly the epochs in order, each one aligned, and does not disturb the array -/
theorem iter_is_elements {h : Heap} (hh : HInv h) (t : Nat) (a : Arr) (ha : h[t]? = some a) (hs : a.scalar = false) :
    (step true h (.iter t)).2 = .many ((List.range a.jd1.length).map
      (fun k => ⟨pick a.jd1 [k], pick a.jd1 [k], pick a.jd2 [k], true⟩)) := by
  have key : ∀ (ks : List Nat) (extra : Heap) (acc : List Obs), (∀ k ∈ ks, k < a.jd1.length) → HInv (h ++ extra) →
      (ks.foldl
        (fun (acc : Heap × List Obs) (k : Nat) =>
          match getIntStep true acc.1 t (k : Int) with
          | (h', some r) => (h' ++ [r], acc.2 ++ [r.obs])
          | (h', none) => (h', acc.2))
        (h ++ extra, acc)).2 = acc ++ ks.map (fun k => ⟨pick a.jd1 [k], pick a.jd1 [k], pick a.jd2 [k], true⟩) := by
    intro ks
    induction ks with
    | nil => intro extra acc _ _; simp
    | cons k ks ih =>
      intro extra acc hks hinv
      have ha' : (h ++ extra)[t]? = some a := by
        have hlt : t < h.length := by
          by_contra hc; rw [List.getElem?_eq_none (by omega)] at ha; cases ha
        rw [List.getElem?_append_left hlt]; exact ha
      have hstep := getIntStep_good hinv t a ha' hs k (hks k List.mem_cons_self)
      simp only [List.foldl_cons, hstep, List.map_cons]
      have hgood : Good { vals := pick a.jd1 [k], jd1 := pick a.jd1 [k], jd2 := pick a.jd2 [k], scalar := true } := by
        obtain ⟨_, _, hj⟩ := good_of_getElem? hinv ha'
        exact ⟨rfl, rfl, by simp [hj]⟩
      have := ih (extra ++ [{ vals := pick a.jd1 [k], jd1 := pick a.jd1 [k], jd2 := pick a.jd2 [k], scalar := true }])
        (acc ++ [Arr.obs { vals := pick a.jd1 [k], jd1 := pick a.jd1 [k], jd2 := pick a.jd2 [k], scalar := true }])
        (fun k' hk' => hks k' (List.mem_cons_of_mem _ hk'))
        (by rw [← List.append_assoc]; exact hinv_append hinv hgood)
      rw [← List.append_assoc] at this
      rw [this]
      simp [Arr.obs]
  have := key (List.range a.jd1.length) [] [] (by intro k hk; exact List.mem_range.mp hk) (by simpa using hh)
  simp only [List.append_nil, List.nil_append] at this
  simp only [step, ha, hs, Bool.false_eq_true, if_false]
  exact congrArg Out.many this

/-! ### The outcome never depends on what was read earlier -/

/-- On good heaps the result of an operation is a function of what the arrays it names look
like (`obs`) — not of any left-over side channel, nor of other arrays in the heap. -/
theorem history_independent {h h' : Heap} (hh : HInv h) (hh' : HInv h') (op : Op)
    (hsame : ∀ t : Nat, (h[t]?).map Arr.obs = (h'[t]?).map Arr.obs) (hnoiter : ∀ t, op ≠ .iter t) :
    (step true h op).2 = (step true h' op).2 := by
  have key : ∀ (t : Nat) (a a' : Arr), h[t]? = some a → h'[t]? = some a' →
      a.vals = a'.vals ∧ a.jd1 = a'.jd1 ∧ a.jd2 = a'.jd2 ∧ a.scalar = a'.scalar ∧ a.pending = a'.pending := by
    intro t a a' e e'
    have := hsame t
    rw [e, e'] at this
    simp only [Option.map_some, Option.some.injEq, Arr.obs, Obs.mk.injEq] at this
    obtain ⟨p, _, _⟩ := good_of_getElem? hh e
    obtain ⟨p', _, _⟩ := good_of_getElem? hh' e'
    exact ⟨this.1, this.2.1, this.2.2.1, this.2.2.2, by rw [p, p']⟩
  have none_iff : ∀ t : Nat, h[t]? = none ↔ h'[t]? = none := by
    intro t
    have := hsame t
    constructor
    · intro e; rw [e] at this; simpa using this.symm
    · intro e; rw [e] at this; simpa using this
  have arr_eq : ∀ (t : Nat) (a a' : Arr), h[t]? = some a → h'[t]? = some a' → a = a' := by
    intro t a a' e e'
    obtain ⟨k1, k2, k3, k4, k5⟩ := key t a a' e e'
    cases a; cases a'; simp_all
  cases op with
  | iter t => exact absurd rfl (hnoiter t)
  | set t => rfl
  | getInt t i =>
    simp only [step, getIntStep]
    cases e : h[t]? with
    | none => rw [(none_iff t).mp e]
    | some a =>
      cases e' : h'[t]? with
      | none => rw [(none_iff t).mpr e'] at e; cases e
      | some a' =>
        have := arr_eq t a a' e e'; subst this
        simp only
        split_ifs <;> try rfl
        cases normIdx a.jd1.length i <;> rfl
  | getSel t s =>
    simp only [step]
    cases e : h[t]? with
    | none => rw [(none_iff t).mp e]
    | some a =>
      cases e' : h'[t]? with
      | none => rw [(none_iff t).mpr e'] at e; cases e
      | some a' =>
        have := arr_eq t a a' e e'; subst this
        simp only
        split_ifs <;> try rfl
        cases s.positions a.vals.length <;> cases s.positions a.jd1.length <;> rfl
  | view t =>
    simp only [step]
    cases e : h[t]? with
    | none => rw [(none_iff t).mp e]
    | some a =>
      cases e' : h'[t]? with
      | none => rw [(none_iff t).mpr e'] at e; cases e
      | some a' => have := arr_eq t a a' e e'; subst this; rfl
  | copy t =>
    simp only [step]
    cases e : h[t]? with
    | none => rw [(none_iff t).mp e]
    | some a =>
      cases e' : h'[t]? with
      | none => rw [(none_iff t).mpr e'] at e; cases e
      | some a' => have := arr_eq t a a' e e'; subst this; rfl
  | scale t =>
    simp only [step]
    cases e : h[t]? with
    | none => rw [(none_iff t).mp e]
    | some a =>
      cases e' : h'[t]? with
      | none => rw [(none_iff t).mpr e'] at e; cases e
      | some a' => have := arr_eq t a a' e e'; subst this; rfl
  | subset t s =>
    simp only [step]
    cases e : h[t]? with
    | none => rw [(none_iff t).mp e]
    | some a =>
      cases e' : h'[t]? with
      | none => rw [(none_iff t).mpr e'] at e; cases e
      | some a' =>
        have := arr_eq t a a' e e'; subst this
        simp only
        split_ifs <;> try rfl
        cases s.positions a.vals.length <;> cases s.positions a.jd1.length <;> rfl
  | insert ta pos tb =>
    simp only [step]
    cases e : h[ta]? with
    | none => rw [(none_iff ta).mp e]
    | some a =>
      cases e' : h'[ta]? with
      | none => rw [(none_iff ta).mpr e'] at e; cases e
      | some a' =>
        have := arr_eq ta a a' e e'; subst this
        cases f : h[tb]? with
        | none => rw [(none_iff tb).mp f]
        | some b =>
          cases f' : h'[tb]? with
          | none => rw [(none_iff tb).mpr f'] at f; cases f
          | some b' =>
            have := arr_eq tb b b' f f'; subst this
            simp only
            split_ifs <;> try rfl
            split <;> rfl

/-! ### Immutability and hash consistency -/

/-- assignments are refused and change nothing -/
theorem set_rejected (clear : Bool) (h : Heap) (t : Nat) : step clear h (.set t) = (h, .error) := rfl

/-- equality of time arrays is equality of both jd lists, and the hash is a function of exactly
those two lists: equal arrays have equal hashes (for any hash function of the two lists) -/
theorem hash_eq {β} (H : List Nat → List Nat → β) (a b : Arr) (h : a.jd1 = b.jd1 ∧ a.jd2 = b.jd2) :
    H a.jd1 a.jd2 = H b.jd1 b.jd2 := by rw [h.1, h.2]

/-! ### The mechanism without the clearing is *not* aligned (the defect that was repaired) -/

/-- with `clear = false` (the code before the `fix:` commit): slice, then take a view — the view
carries 5 values but the 2 jd parts of the earlier slice -/
theorem unrepaired_misaligns :
    (run false [fresh 0 5] [.getSel 0 (.slice (some 1) (some 3) 1), .view 0]).2
      = [.arr ⟨[1, 2], [1, 2], [1, 2], false⟩, .arr ⟨[0, 1, 2, 3, 4], [1, 2], [1, 2], false⟩] := by
  decide +kernel

/-! ### Non-vacuity -/

example : (run true [fresh 0 5] [.getSel 0 (.slice (some 1) (some 3) 1), .view 0, .getInt 0 (-1),
      .getSel 0 (.mask [true, false, true, false, true]), .getSel 0 (.slice none none (-2)), .iter 1]).2
    = [.arr ⟨[1, 2], [1, 2], [1, 2], false⟩, .arr ⟨[0, 1, 2, 3, 4], [0, 1, 2, 3, 4], [0, 1, 2, 3, 4], false⟩,
       .arr ⟨[4], [4], [4], true⟩, .arr ⟨[0, 2, 4], [0, 2, 4], [0, 2, 4], false⟩,
       .arr ⟨[4, 2, 0], [4, 2, 0], [4, 2, 0], false⟩,
       .many [⟨[1], [1], [1], true⟩, ⟨[2], [2], [2], true⟩]] := by decide +kernel

end Midgard.Props.C04

#print axioms Midgard.Props.C04.mechanism_clears
#print axioms Midgard.Props.C04.hinv_append
#print axioms Midgard.Props.C04.hinv_set
#print axioms Midgard.Props.C04.good_of_getElem?
#print axioms Midgard.Props.C04.getInt_good
#print axioms Midgard.Props.C04.iter_good
#print axioms Midgard.Props.C04.inv_step
#print axioms Midgard.Props.C04.inv_run
#print axioms Midgard.Props.C04.fresh_good
#print axioms Midgard.Props.C04.inv_init
#print axioms Midgard.Props.C04.getSel_is_index
#print axioms Midgard.Props.C04.subset_is_index
#print axioms Midgard.Props.C04.getInt_is_index
#print axioms Midgard.Props.C04.view_copy_same
#print axioms Midgard.Props.C04.insert_is_splice
#print axioms Midgard.Props.C04.set_self
#print axioms Midgard.Props.C04.getIntStep_good
#print axioms Midgard.Props.C04.iter_is_elements
#print axioms Midgard.Props.C04.history_independent
#print axioms Midgard.Props.C04.set_rejected
#print axioms Midgard.Props.C04.hash_eq
#print axioms Midgard.Props.C04.unrepaired_misaligns
