/-
C04 — Time arrays stay element-aligned, immutable and hash-consistent when derived.

Property theorems about `Model/TimeArrayHist.lean`.  `clear` is the mechanism parameter read off
the source by the translator (`Generated/TimeArrayMech.lean`): does `__getitem__` clear the
`_jd*_sliced` side channel once it has been handed over?
-/
import Midgard.Model.TimeArrayHist
import Midgard.Proofs.TimeArrayLists
import Midgard.Generated.TimeArrayMech
import Mathlib.Tactic.SplitIfs
import Mathlib.Tactic.Common

set_option linter.unusedVariables false
set_option linter.unnecessarySeqFocus false

namespace Midgard.Props.C04
open Midgard.TimeArrayHist Midgard.Proofs.TimeArrayLists

/-- the array is element-aligned and carries no left-over side channel -/
def Good (a : Arr) : Prop := a.pending = none ∧ a.vals = a.jd1 ∧ a.jd1 = a.jd2

/-- heap invariant: every array that exists is `Good` -/
def HInv (h : Heap) : Prop := ∀ a ∈ h, Good a

def Out.aligned : Out → Prop
  | .arr o => o.aligned
  | .many os => ∀ o ∈ os, o.aligned
  | .error => True
  | .plain _ => True

/-! ### The source has the repaired mechanism -/

/-- `__getitem__` clears `_jd1_sliced/_jd2_sliced` in a `finally` and handles tuple indices
(extracted from the AST of `midgard/data/_time.py` on every run) -/
theorem mechanism_clears : Generated.TimeArrayMech.clearsSideChannel = true := by decide

/-! ### One-step invariant -/

theorem hinv_append {h : Heap} {r : Arr} (hh : HInv h) (hr : Good r) : HInv (h ++ [r]) := by
  intro a ha
  rcases List.mem_append.mp ha with ha | ha
  · exact hh a ha
  · simp at ha; subst ha; exact hr

theorem hinv_set {h : Heap} {k : Nat} {r : Arr} (hh : HInv h) (hr : Good r) : HInv (setAt h k r) := by
  intro a ha
  rcases List.mem_or_eq_of_mem_set ha with ha | ha
  · exact hh a ha
  · subst ha; exact hr

theorem good_of_getElem? {h : Heap} (hh : HInv h) {t : Nat} {a : Arr} (ha : h[t]? = some a) : Good a :=
  hh a (List.mem_of_getElem? ha)

/-- `t[i]` on a good heap: the heap stays good, the element (if any) is good -/
theorem getInt_good {h : Heap} (hh : HInv h) (t : Nat) (i : Int) :
    HInv (getIntStep true h t i).1 ∧ ∀ r, (getIntStep true h t i).2 = some r → Good r := by
  unfold getIntStep
  cases ha : h[t]? with
  | none => exact ⟨hh, by simp⟩
  | some a =>
    obtain ⟨hp, hv, hj⟩ := good_of_getElem? hh ha
    simp only
    split_ifs with hs
    · exact ⟨hh, by simp⟩
    · cases hk : normIdx a.jd1.length i with
      | none => exact ⟨hh, by simp⟩
      | some k =>
        simp only
        refine ⟨hinv_set hh ⟨by simp [afterGet], hv, hj⟩, ?_⟩
        intro r hr
        simp only [Option.some.injEq] at hr
        subst hr
        exact ⟨rfl, rfl, by simp [hj]⟩

theorem iter_good {h : Heap} (hh : HInv h) (t : Nat) (ks : List Nat) (acc : List Obs)
    (hacc : ∀ o ∈ acc, o.aligned) :
    let res := ks.foldl
      (fun (acc : Heap × List Obs) (k : Nat) =>
        match getIntStep true acc.1 t (k : Int) with
        | (h', some r) => (h' ++ [r], acc.2 ++ [r.obs])
        | (h', none) => (h', acc.2))
      (h, acc)
    HInv res.1 ∧ ∀ o ∈ res.2, o.aligned := by
  induction ks generalizing h acc with
  | nil => exact ⟨hh, hacc⟩
  | cons k ks ih =>
    simp only [List.foldl_cons]
    obtain ⟨h1, h2⟩ := getInt_good hh t (k : Int)
    cases hr : getIntStep true h t (k : Int) with
    | mk h' r =>
      rw [hr] at h1 h2
      cases r with
      | none => exact ih h1 acc hacc
      | some r =>
        have hg := h2 r rfl
        apply ih (hinv_append h1 hg)
        intro o ho
        rcases List.mem_append.mp ho with ho | ho
        · exact hacc o ho
        · simp at ho; subst ho; exact ⟨hg.2.1, hg.2.2⟩

/-- **Invariant step**: with the repaired mechanism every operation keeps every array of the heap
aligned and free of left-over side channel, and what it returns is aligned. -/
theorem inv_step {h : Heap} (hh : HInv h) (op : Op) :
    HInv (step true h op).heap ∧ Out.aligned (step true h op).out := by
  cases op with
  | getInt t i =>
    obtain ⟨h1, h2⟩ := getInt_good hh t i
    simp only [step]
    cases hr : getIntStep true h t i with
    | mk h' r =>
      rw [hr] at h1 h2
      cases r with
      | none => exact ⟨h1, trivial⟩
      | some r => have hg := h2 r rfl; exact ⟨hinv_append h1 hg, ⟨hg.2.1, hg.2.2⟩⟩
  | getSel t s =>
    simp only [step]
    cases ha : h[t]? with
    | none => exact ⟨hh, trivial⟩
    | some a =>
      obtain ⟨hp, hv, hj⟩ := good_of_getElem? hh ha
      simp only
      split_ifs
      · exact ⟨hh, trivial⟩
      · rw [hv]
        cases hps : s.positions a.jd1.length with
        | none => exact ⟨hh, trivial⟩
        | some ps =>
          simp only [finalize]
          refine ⟨hinv_append (hinv_set hh ⟨by simp [afterGet], by simp [afterGet], by simpa [afterGet] using hj⟩)
            ⟨rfl, rfl, by simp [hj]⟩, ?_⟩
          exact ⟨rfl, by simp [Arr.obs, hj]⟩
  | view t =>
    simp only [step]
    cases ha : h[t]? with
    | none => exact ⟨hh, trivial⟩
    | some a =>
      obtain ⟨hp, hv, hj⟩ := good_of_getElem? hh ha
      simp only [finalize, hp]
      exact ⟨hinv_append hh ⟨rfl, hv, hj⟩, ⟨hv, hj⟩⟩
  | copy t =>
    simp only [step]
    cases ha : h[t]? with
    | none => exact ⟨hh, trivial⟩
    | some a =>
      obtain ⟨hp, hv, hj⟩ := good_of_getElem? hh ha
      exact ⟨hinv_append hh ⟨rfl, hv, hj⟩, ⟨hv, hj⟩⟩
  | subset t s =>
    simp only [step]
    cases ha : h[t]? with
    | none => exact ⟨hh, trivial⟩
    | some a =>
      obtain ⟨hp, hv, hj⟩ := good_of_getElem? hh ha
      simp only
      split_ifs
      · exact ⟨hh, trivial⟩
      · rw [hv]
        cases hps : s.positions a.jd1.length with
        | none => exact ⟨hh, trivial⟩
        | some ps =>
          exact ⟨hinv_append hh ⟨rfl, rfl, by simp [hj]⟩, ⟨rfl, by simp [Arr.obs, hj]⟩⟩
  | insert ta pos tb =>
    simp only [step]
    cases ha : h[ta]? with
    | none => exact ⟨hh, trivial⟩
    | some a =>
      cases hb : h[tb]? with
      | none => exact ⟨hh, trivial⟩
      | some b =>
        obtain ⟨_, hv, hj⟩ := good_of_getElem? hh ha
        obtain ⟨_, hv', hj'⟩ := good_of_getElem? hh hb
        simp only
        split_ifs
        · exact ⟨hh, trivial⟩
        · rw [hv, hv', ← hj, ← hj']
          cases insertAt pos a.jd1 b.jd1 with
          | none => exact ⟨hh, trivial⟩
          | some v => exact ⟨hinv_append hh ⟨rfl, rfl, rfl⟩, ⟨rfl, rfl⟩⟩
  | scale t target =>
    simp only [step]
    cases ha : h[t]? with
    | none => exact ⟨hh, trivial⟩
    | some a =>
      obtain ⟨hp, hv, hj⟩ := good_of_getElem? hh ha
      simp only
      split_ifs
      · exact ⟨hinv_append hh ⟨hp, hv, hj⟩, ⟨hv, hj⟩⟩
      · exact ⟨hinv_append hh ⟨rfl, rfl, hj⟩, ⟨rfl, hj⟩⟩
  | iter t =>
    simp only [step]
    cases ha : h[t]? with
    | none => exact ⟨hh, trivial⟩
    | some a =>
      simp only
      split_ifs
      · exact ⟨hh, trivial⟩
      · have := iter_good hh t (List.range a.jd1.length) [] (by simp)
        exact this
  | set t => exact ⟨hh, trivial⟩
  | getBad t f =>
    simp only [step]
    cases ha : h[t]? with
    | none => exact ⟨hh, trivial⟩
    | some a =>
      obtain ⟨hp, hv, hj⟩ := good_of_getElem? hh ha
      simp only
      split_ifs
      · exact ⟨hh, trivial⟩
      · exact ⟨hh, trivial⟩
      · cases f.positions a.jd1.length with
        | none => exact ⟨hh, trivial⟩
        | some pj => exact ⟨hinv_set hh ⟨by simp [afterGet], hv, hj⟩, trivial⟩
  | getEll t i =>
    simp only [step]
    cases ha : h[t]? with
    | none => exact ⟨hh, trivial⟩
    | some a =>
      obtain ⟨hp, hv, hj⟩ := good_of_getElem? hh ha
      simp only
      split_ifs
      · exact ⟨hh, trivial⟩
      · rw [hv]
        cases hk : normIdx a.jd1.length i with
        | none => exact ⟨hh, trivial⟩
        | some k =>
          simp only [finalize]
          refine ⟨hinv_append (hinv_set hh ⟨by simp [afterGet], by simp [afterGet], by simpa [afterGet] using hj⟩)
            ⟨rfl, rfl, by simp [hj]⟩, ?_⟩
          exact ⟨rfl, by simp [Arr.obs, hj]⟩
  | same t =>
    simp only [step]
    cases ha : h[t]? with
    | none => exact ⟨hh, trivial⟩
    | some a =>
      obtain ⟨hp, hv, hj⟩ := good_of_getElem? hh ha
      exact ⟨hinv_append hh ⟨hp, hv, hj⟩, ⟨hv, hj⟩⟩
  | refused t f =>
    simp only [step]
    cases ha : h[t]? with
    | none => exact ⟨hh, trivial⟩
    | some a => exact ⟨hh, trivial⟩
  | concat ts ap =>
    simp only [step]
    cases ts.mapM (h[·]?) with
    | none => exact ⟨hh, trivial⟩
    | some as => exact ⟨hh, trivial⟩

/-! ### Every reachable state, every operation sequence -/

/-- **Invariant for all histories**: starting from freshly constructed arrays, after any
sequence of operations every array in existence is aligned, and every value ever returned was. -/
theorem inv_run {h : Heap} (hh : HInv h) (ops : List Op) :
    HInv (run true h ops).heap ∧ ∀ o ∈ (run true h ops).outs, Out.aligned o := by
  induction ops generalizing h with
  | nil => exact ⟨hh, by simp [run]⟩
  | cons op ops ih =>
    obtain ⟨h1, h2⟩ := inv_step hh op
    simp only [run]
    obtain ⟨h3, h4⟩ := ih h1
    refine ⟨h3, ?_⟩
    intro o ho
    rcases List.mem_cons.mp ho with ho | ho
    · subst ho; exact h2
    · exact h4 o ho

theorem fresh_good (base n : Nat) : Good (fresh base n) := ⟨rfl, rfl, rfl⟩

theorem inv_init (specs : List (Nat × Nat)) : HInv (specs.map fun s => fresh s.1 s.2) := by
  intro a ha
  obtain ⟨s, _, rfl⟩ := List.mem_map.mp ha
  exact fresh_good _ _

/-! ### Derived arrays are selected by exactly the same indices -/

/-- `t[sel]` on an aligned array returns the values, `jd1` and `jd2` picked at the *same*
positions `sel` denotes for that length, and the length is the number of selected epochs -/
theorem getSel_is_index {h : Heap} (hh : HInv h) (t : Nat) (s : Sel) (a : Arr) (ha : h[t]? = some a)
    (hs : a.scalar = false) (ps : List Nat) (hps : s.positions a.vals.length = some ps) :
    (step true h (.getSel t s)).out = .arr ⟨pick a.vals ps, pick a.jd1 ps, pick a.jd2 ps, false, a.cls, a.fmt⟩ := by
  obtain ⟨hp, hv, hj⟩ := good_of_getElem? hh ha
  have hps' : s.positions a.jd1.length = some ps := by rw [← hv]; exact hps
  simp [step, ha, hs, hps, hps', finalize, Arr.obs]

theorem subset_is_index {h : Heap} (hh : HInv h) (t : Nat) (s : Sel) (a : Arr) (ha : h[t]? = some a)
    (hs : a.scalar = false) (ps : List Nat) (hps : s.positions a.vals.length = some ps) :
    (step true h (.subset t s)).out = .arr ⟨pick a.vals ps, pick a.jd1 ps, pick a.jd2 ps, false, a.cls, a.fmt⟩ := by
  obtain ⟨hp, hv, hj⟩ := good_of_getElem? hh ha
  have hps' : s.positions a.jd1.length = some ps := by rw [← hv]; exact hps
  simp [step, ha, hs, hps, hps', Arr.obs]

/-- `t[i]` returns the single epoch at position `i` (Python index rules) -/
theorem getInt_is_index {h : Heap} (hh : HInv h) (t : Nat) (i : Int) (a : Arr) (ha : h[t]? = some a)
    (hs : a.scalar = false) (k : Nat) (hk : normIdx a.jd1.length i = some k) :
    (step true h (.getInt t i)).out = .arr ⟨pick a.jd1 [k], pick a.jd1 [k], pick a.jd2 [k], true, a.cls, a.fmt⟩ := by
  simp [step, getIntStep, ha, hs, hk, Arr.obs]

/-- `t[i, ...]` returns the same single epoch as `t[i]` (made along another route: a 0-d view with the hand-over) -/
theorem getEll_is_getInt {h : Heap} (hh : HInv h) (t : Nat) (i : Int) (a : Arr) (ha : h[t]? = some a)
    (hs : a.scalar = false) (k : Nat) (hk : normIdx a.jd1.length i = some k) :
    (step true h (.getEll t i)).out = (step true h (.getInt t i)).out := by
  obtain ⟨hp, hv, hj⟩ := good_of_getElem? hh ha
  have hk' : normIdx a.vals.length i = some k := by rw [hv]; exact hk
  simp [step, getIntStep, ha, hs, hk, hk', finalize, Arr.obs, hv]

/-- views and copies observe exactly the parent's three lists -/
theorem view_copy_same {h : Heap} (hh : HInv h) (t : Nat) (a : Arr) (ha : h[t]? = some a) :
    (step true h (.view t)).out = .arr a.obs ∧ (step true h (.copy t)).out = .arr a.obs := by
  obtain ⟨hp, _, _⟩ := good_of_getElem? hh ha
  simp [step, ha, finalize, hp, Arr.obs]

/-- `insert(a, pos, b)` splices the epochs of `b` into those of `a` at `pos` — the same splice in values,
`jd1` and `jd2` -/
theorem insert_is_splice {h : Heap} (hh : HInv h) (ta tb : Nat) (pos : Int) (a b : Arr) (ha : h[ta]? = some a)
    (hb : h[tb]? = some b) (hs : a.scalar = false) (l : List Nat) (hl : insertAt pos a.vals b.vals = some l) :
    (step true h (.insert ta pos tb)).out = .arr ⟨l, l, l, false, a.cls, a.fmt⟩ := by
  obtain ⟨_, hv, hj⟩ := good_of_getElem? hh ha
  obtain ⟨_, hv', hj'⟩ := good_of_getElem? hh hb
  have h1 : insertAt pos a.jd1 b.jd1 = some l := by rw [← hv, ← hv']; exact hl
  have h2 : insertAt pos a.jd2 b.jd2 = some l := by rw [← hj, ← hj']; exact h1
  simp [step, ha, hb, hs, hl, h1, h2, Arr.obs]

theorem set_self {α} (l : List α) (i : Nat) (x : α) (h : l[i]? = some x) : l.set i x = l := by
  apply List.ext_getElem?
  intro j
  by_cases hij : j = i
  · subst hij
    have hlt : j < l.length := by
      by_contra hc; rw [List.getElem?_eq_none (by omega)] at h; cases h
    rw [List.getElem?_set_self hlt, h]
  · rw [List.getElem?_set_ne (Ne.symm hij)]

/-- one integer read on a good heap leaves the heap as it was and returns the single epoch -/
theorem getIntStep_good {h : Heap} (hh : HInv h) (t : Nat) (a : Arr) (ha : h[t]? = some a) (hs : a.scalar = false)
    (k : Nat) (hk : k < a.jd1.length) :
    getIntStep true h t (k : Int) = (h, some { vals := pick a.jd1 [k], jd1 := pick a.jd1 [k], jd2 := pick a.jd2 [k], scalar := true, cls := a.cls, fmt := a.fmt }) := by
  obtain ⟨hp, _, _⟩ := good_of_getElem? hh ha
  have hn : normIdx a.jd1.length (k : Int) = some k := by
    simp [normIdx]; omega
  have hsame : afterGet true { a with pending := some (pick a.jd1 [k], pick a.jd2 [k]) } = a := by
    cases a; simp only [afterGet, if_true] at hp ⊢; simp_all
  unfold getIntStep
  simp only [ha, hn, hsame, setAt, set_self h t a ha]
  simp [hs]

/-- iteration yields exactly the epochs in order, each one aligned, and does not disturb the array -/
theorem iter_is_elements {h : Heap} (hh : HInv h) (t : Nat) (a : Arr) (ha : h[t]? = some a) (hs : a.scalar = false) :
    (step true h (.iter t)).out = .many ((List.range a.jd1.length).map
      (fun k => ⟨pick a.jd1 [k], pick a.jd1 [k], pick a.jd2 [k], true, a.cls, a.fmt⟩)) := by
  have key : ∀ (ks : List Nat) (extra : Heap) (acc : List Obs), (∀ k ∈ ks, k < a.jd1.length) → HInv (h ++ extra) →
      (ks.foldl
        (fun (acc : Heap × List Obs) (k : Nat) =>
          match getIntStep true acc.1 t (k : Int) with
          | (h', some r) => (h' ++ [r], acc.2 ++ [r.obs])
          | (h', none) => (h', acc.2))
        (h ++ extra, acc)).2 = acc ++ ks.map (fun k => ⟨pick a.jd1 [k], pick a.jd1 [k], pick a.jd2 [k], true, a.cls, a.fmt⟩) := by
    intro ks
    induction ks with
    | nil => intro extra acc _ _; simp
    | cons k ks ih =>
      intro extra acc hks hinv
      have ha' : (h ++ extra)[t]? = some a := by
        have hlt : t < h.length := by
          by_contra hc; rw [List.getElem?_eq_none (by omega)] at ha; cases ha
        rw [List.getElem?_append_left hlt]; exact ha
      have hstep := getIntStep_good hinv t a ha' hs k (hks k List.mem_cons_self)
      simp only [List.foldl_cons, hstep, List.map_cons]
      have hgood : Good { vals := pick a.jd1 [k], jd1 := pick a.jd1 [k], jd2 := pick a.jd2 [k], scalar := true, cls := a.cls, fmt := a.fmt } := by
        obtain ⟨_, _, hj⟩ := good_of_getElem? hinv ha'
        exact ⟨rfl, rfl, by simp [hj]⟩
      have := ih (extra ++ [{ vals := pick a.jd1 [k], jd1 := pick a.jd1 [k], jd2 := pick a.jd2 [k], scalar := true, cls := a.cls, fmt := a.fmt }])
        (acc ++ [Arr.obs { vals := pick a.jd1 [k], jd1 := pick a.jd1 [k], jd2 := pick a.jd2 [k], scalar := true, cls := a.cls, fmt := a.fmt }])
        (fun k' hk' => hks k' (List.mem_cons_of_mem _ hk'))
        (by rw [← List.append_assoc]; exact hinv_append hinv hgood)
      rw [← List.append_assoc] at this
      rw [this]
      simp [Arr.obs]
  have := key (List.range a.jd1.length) [] [] (by intro k hk; exact List.mem_range.mp hk) (by simpa using hh)
  simp only [List.append_nil, List.nil_append] at this
  simp only [step, ha, hs, Bool.false_eq_true, if_false]
  exact congrArg Out.many this

/-! ### The outcome never depends on what was read earlier -/

/-- On good heaps the result of an operation is a function of what the arrays it names look
like (`obs`) — not of any left-over side channel, nor of other arrays in the heap. -/
theorem history_independent {h h' : Heap} (hh : HInv h) (hh' : HInv h') (op : Op)
    (hsame : ∀ t : Nat, (h[t]?).map Arr.obs = (h'[t]?).map Arr.obs) (hnoiter : ∀ t, op ≠ .iter t) :
    (step true h op).out = (step true h' op).out := by
  have key : ∀ (t : Nat) (a a' : Arr), h[t]? = some a → h'[t]? = some a' →
      a.vals = a'.vals ∧ a.jd1 = a'.jd1 ∧ a.jd2 = a'.jd2 ∧ a.scalar = a'.scalar ∧ a.cls = a'.cls ∧ a.fmt = a'.fmt
        ∧ a.pending = a'.pending := by
    intro t a a' e e'
    have := hsame t
    rw [e, e'] at this
    simp only [Option.map_some, Option.some.injEq, Arr.obs, Obs.mk.injEq] at this
    obtain ⟨p, _, _⟩ := good_of_getElem? hh e
    obtain ⟨p', _, _⟩ := good_of_getElem? hh' e'
    exact ⟨this.1, this.2.1, this.2.2.1, this.2.2.2.1, this.2.2.2.2.1, this.2.2.2.2.2, by rw [p, p']⟩
  have none_iff : ∀ t : Nat, h[t]? = none ↔ h'[t]? = none := by
    intro t
    have := hsame t
    constructor
    · intro e; rw [e] at this; simpa using this.symm
    · intro e; rw [e] at this; simpa using this
  have arr_eq : ∀ (t : Nat) (a a' : Arr), h[t]? = some a → h'[t]? = some a' → a = a' := by
    intro t a a' e e'
    obtain ⟨k1, k2, k3, k4, k5, k6, k7⟩ := key t a a' e e'
    cases a; cases a'; simp_all
  have hget : ∀ t : Nat, h[t]? = h'[t]? := by
    intro t
    cases e : h[t]? with
    | none => rw [(none_iff t).mp e]
    | some a =>
      cases e' : h'[t]? with
      | none => rw [(none_iff t).mpr e'] at e; cases e
      | some a' => rw [arr_eq t a a' e e']
  cases op with
  | iter t => exact absurd rfl (hnoiter t)
  | set t => rfl
  | getInt t i =>
    simp only [step, getIntStep]
    cases e : h[t]? with
    | none => rw [(none_iff t).mp e]
    | some a =>
      cases e' : h'[t]? with
      | none => rw [(none_iff t).mpr e'] at e; cases e
      | some a' =>
        have := arr_eq t a a' e e'; subst this
        simp only
        split_ifs <;> try rfl
        cases normIdx a.jd1.length i <;> rfl
  | getSel t s =>
    simp only [step]
    cases e : h[t]? with
    | none => rw [(none_iff t).mp e]
    | some a =>
      cases e' : h'[t]? with
      | none => rw [(none_iff t).mpr e'] at e; cases e
      | some a' =>
        have := arr_eq t a a' e e'; subst this
        simp only
        split_ifs <;> try rfl
        cases s.positions a.vals.length <;> cases s.positions a.jd1.length <;> rfl
  | view t =>
    simp only [step]
    cases e : h[t]? with
    | none => rw [(none_iff t).mp e]
    | some a =>
      cases e' : h'[t]? with
      | none => rw [(none_iff t).mpr e'] at e; cases e
      | some a' => have := arr_eq t a a' e e'; subst this; rfl
  | copy t =>
    simp only [step]
    cases e : h[t]? with
    | none => rw [(none_iff t).mp e]
    | some a =>
      cases e' : h'[t]? with
      | none => rw [(none_iff t).mpr e'] at e; cases e
      | some a' => have := arr_eq t a a' e e'; subst this; rfl
  | scale t target => simp only [step, hget t]; cases h'[t]? <;> simp only <;> (try split_ifs) <;> rfl
  | getBad t f => simp only [step, hget t]; cases h'[t]? <;> simp only <;> split_ifs <;> try rfl
                  split <;> rfl
  | getEll t i => simp only [step, hget t]; cases h'[t]? <;> simp only <;> split_ifs <;> try rfl
                  split <;> rfl
  | same t => simp only [step, hget t]; cases h'[t]? <;> rfl
  | refused t f => simp only [step, hget t]; cases h'[t]? <;> rfl
  | concat ts ap =>
    have : (fun x : Nat => h[x]?) = (fun x : Nat => h'[x]?) := funext hget
    simp only [step, this]
    cases ts.mapM (fun x : Nat => h'[x]?) <;> rfl
  | subset t s =>
    simp only [step]
    cases e : h[t]? with
    | none => rw [(none_iff t).mp e]
    | some a =>
      cases e' : h'[t]? with
      | none => rw [(none_iff t).mpr e'] at e; cases e
      | some a' =>
        have := arr_eq t a a' e e'; subst this
        simp only
        split_ifs <;> try rfl
        cases s.positions a.vals.length <;> cases s.positions a.jd1.length <;> rfl
  | insert ta pos tb =>
    simp only [step]
    cases e : h[ta]? with
    | none => rw [(none_iff ta).mp e]
    | some a =>
      cases e' : h'[ta]? with
      | none => rw [(none_iff ta).mpr e'] at e; cases e
      | some a' =>
        have := arr_eq ta a a' e e'; subst this
        cases f : h[tb]? with
        | none => rw [(none_iff tb).mp f]
        | some b =>
          cases f' : h'[tb]? with
          | none => rw [(none_iff tb).mpr f'] at f; cases f
          | some b' =>
            have := arr_eq tb b b' f f'; subst this
            simp only
            split_ifs <;> try rfl
            split <;> rfl

/-! ### Immutability and hash consistency -/

/-- assignments are refused and change nothing -/
theorem set_rejected (clear : Bool) (h : Heap) (t : Nat) : step clear h (.set t) = ⟨h, .error, []⟩ := rfl

/-- equality of time arrays is equality of both jd lists, and the hash is a function of exactly
those two lists: equal arrays have equal hashes (for any hash function of the two lists) -/
theorem hash_eq {β} (H : List Nat → List Nat → β) (a b : Arr) (h : a.jd1 = b.jd1 ∧ a.jd2 = b.jd2) :
    H a.jd1 a.jd2 = H b.jd1 b.jd2 := by rw [h.1, h.2]

/-! ### Frame: no operation ever touches an array that exists (with the repaired mechanism) -/

/-- writing the side channel and clearing it again gives back the array -/
theorem set_back {h : Heap} (hh : HInv h) (t : Nat) (a : Arr) (ha : h[t]? = some a) (p : List Nat × List Nat) :
    setAt h t (afterGet true { a with pending := some p }) = h := by
  obtain ⟨hp, _, _⟩ := good_of_getElem? hh ha
  have hsame : afterGet true { a with pending := some p } = a := by
    cases a; simp only [afterGet, if_true] at hp ⊢; simp_all
  rw [hsame]; exact set_self h t a ha

theorem getIntStep_heap {h : Heap} (hh : HInv h) (t : Nat) (i : Int) : (getIntStep true h t i).1 = h := by
  unfold getIntStep
  cases ha : h[t]? with
  | none => rfl
  | some a =>
    simp only
    split_ifs
    · rfl
    · cases normIdx a.jd1.length i with
      | none => rfl
      | some k => exact set_back hh t a ha _

theorem iter_extends {h : Heap} (hh : HInv h) (t : Nat) (ks : List Nat) (acc : List Obs) :
    ∃ new, (ks.foldl
      (fun (acc : Heap × List Obs) (k : Nat) =>
        match getIntStep true acc.1 t (k : Int) with
        | (h', some r) => (h' ++ [r], acc.2 ++ [r.obs])
        | (h', none) => (h', acc.2))
      (h, acc)).1 = h ++ new := by
  induction ks generalizing h acc with
  | nil => exact ⟨[], (List.append_nil _).symm⟩
  | cons k ks ih =>
    simp only [List.foldl_cons]
    have h1 := getIntStep_heap hh t (k : Int)
    have h2 := (getInt_good hh t (k : Int)).2
    cases hr : getIntStep true h t (k : Int) with
    | mk h' r =>
      rw [hr] at h1 h2
      simp only at h1; subst h1
      cases r with
      | none => exact ih hh acc
      | some r =>
        obtain ⟨new, hn⟩ := ih (hinv_append hh (h2 r rfl)) (acc ++ [r.obs])
        exact ⟨[r] ++ new, by simp only at hn ⊢; rw [hn, List.append_assoc]⟩

/-- **Frame**: an operation only ever *adds* arrays; every array that existed is exactly what it was
(values, jd parts, format, class, and no side channel) -/
theorem step_extends {h : Heap} (hh : HInv h) (op : Op) : ∃ new, (step true h op).heap = h ++ new := by
  cases op with
  | getInt t i =>
    simp only [step]
    have h1 := getIntStep_heap hh t i
    cases hr : getIntStep true h t i with
    | mk h' r =>
      rw [hr] at h1; simp only at h1; subst h1
      cases r with
      | none => exact ⟨[], (List.append_nil _).symm⟩
      | some r => exact ⟨[r], rfl⟩
  | getSel t s =>
    simp only [step]
    cases ha : h[t]? with
    | none => exact ⟨[], (List.append_nil _).symm⟩
    | some a =>
      simp only
      split_ifs
      · exact ⟨[], (List.append_nil _).symm⟩
      · cases s.positions a.vals.length <;> cases s.positions a.jd1.length <;> try exact ⟨[], (List.append_nil _).symm⟩
        simp only [set_back hh t a ha]
        exact ⟨_, rfl⟩
  | view t => simp only [step]; cases h[t]? <;> first | exact ⟨_, rfl⟩ | exact ⟨[], (List.append_nil _).symm⟩
  | copy t => simp only [step]; cases h[t]? <;> first | exact ⟨_, rfl⟩ | exact ⟨[], (List.append_nil _).symm⟩
  | same t => simp only [step]; cases h[t]? <;> first | exact ⟨_, rfl⟩ | exact ⟨[], (List.append_nil _).symm⟩
  | refused t f => simp only [step]; cases h[t]? <;> exact ⟨[], (List.append_nil _).symm⟩
  | set t => exact ⟨[], (List.append_nil _).symm⟩
  | concat ts ap => simp only [step]; cases ts.mapM (h[·]?) <;> exact ⟨[], (List.append_nil _).symm⟩
  | scale t target =>
    simp only [step]
    cases h[t]? with
    | none => exact ⟨[], (List.append_nil _).symm⟩
    | some a => simp only; split_ifs <;> exact ⟨_, rfl⟩
  | subset t s =>
    simp only [step]
    cases h[t]? with
    | none => exact ⟨[], (List.append_nil _).symm⟩
    | some a =>
      simp only
      split_ifs
      · exact ⟨[], (List.append_nil _).symm⟩
      · cases s.positions a.vals.length <;> cases s.positions a.jd1.length <;> first | exact ⟨_, rfl⟩ | exact ⟨[], (List.append_nil _).symm⟩
  | insert ta pos tb =>
    simp only [step]
    cases h[ta]? <;> cases h[tb]? <;> try exact ⟨[], (List.append_nil _).symm⟩
    simp only
    split_ifs
    · exact ⟨[], (List.append_nil _).symm⟩
    · split <;> first | exact ⟨_, rfl⟩ | exact ⟨[], (List.append_nil _).symm⟩
  | iter t =>
    simp only [step]
    cases ha : h[t]? with
    | none => exact ⟨[], (List.append_nil _).symm⟩
    | some a =>
      simp only
      split_ifs
      · exact ⟨[], (List.append_nil _).symm⟩
      · exact iter_extends hh t _ []
  | getBad t f =>
    simp only [step]
    cases ha : h[t]? with
    | none => exact ⟨[], (List.append_nil _).symm⟩
    | some a =>
      simp only
      split_ifs
      · exact ⟨[], (List.append_nil _).symm⟩
      · exact ⟨[], (List.append_nil _).symm⟩
      · cases f.positions a.jd1.length with
        | none => exact ⟨[], (List.append_nil _).symm⟩
        | some pj => simp only [set_back hh t a ha]; exact ⟨[], (List.append_nil _).symm⟩
  | getEll t i =>
    simp only [step]
    cases ha : h[t]? with
    | none => exact ⟨[], (List.append_nil _).symm⟩
    | some a =>
      simp only
      split_ifs
      · exact ⟨[], (List.append_nil _).symm⟩
      · cases normIdx a.vals.length i <;> cases normIdx a.jd1.length i <;> try exact ⟨[], (List.append_nil _).symm⟩
        simp only [set_back hh t a ha]
        exact ⟨_, rfl⟩

theorem run_extends {h : Heap} (hh : HInv h) (ops : List Op) : ∃ new, (run true h ops).heap = h ++ new := by
  induction ops generalizing h with
  | nil => exact ⟨[], (List.append_nil _).symm⟩
  | cons op ops ih =>
    obtain ⟨n1, h1⟩ := step_extends hh op
    obtain ⟨n2, h2⟩ := ih (inv_step hh op).1
    simp only [run]
    exact ⟨n1 ++ n2, by rw [h2, h1, List.append_assoc]⟩

/-- an index NumPy refuses after `__getitem__` has sliced the jd parts leaves *nothing* behind: the heap is what
it was (this is what the `finally` is for) -/
theorem getBad_no_trace {h : Heap} (hh : HInv h) (t : Nat) (f : First) :
    (step true h (.getBad t f)).heap = h ∧ (step true h (.getBad t f)).out = .error := by
  simp only [step]
  cases ha : h[t]? with
  | none => exact ⟨rfl, rfl⟩
  | some a =>
    simp only
    split_ifs
    · exact ⟨rfl, rfl⟩
    · exact ⟨rfl, rfl⟩
    · cases f.positions a.jd1.length with
      | none => exact ⟨rfl, rfl⟩
      | some pj => simp only [set_back hh t a ha]; exact ⟨trivial, trivial⟩

/-- **An array is never modified by anything done later**: whatever is read, sliced, converted or refused
afterwards, the array at heap position `t` is the array it was -/
theorem array_stable_under_reads {h : Heap} (hh : HInv h) (ops : List Op) (t : Nat) (a : Arr) (ha : h[t]? = some a) :
    (run true h ops).heap[t]? = some a := by
  obtain ⟨new, hn⟩ := run_extends hh ops
  have hlt : t < h.length := by
    by_contra hc; rw [List.getElem?_eq_none (by omega)] at ha; cases ha
  rw [hn, List.getElem?_append_left hlt]; exact ha

/-- … in particular its hash (whatever attributes `__hash__` reads) does not change -/
theorem hash_stable_under_reads {β} (H : List AttrVal → β) (reads : List String) {h : Heap} (hh : HInv h)
    (ops : List Op) (t : Nat) (a : Arr) (ha : h[t]? = some a) :
    ((run true h ops).heap[t]?).map (fun x => H (hashKey reads x)) = some (H (hashKey reads a)) := by
  rw [array_stable_under_reads hh ops t a ha]; rfl

/-! ### `__eq__` and `__hash__` as the source has them -/

open Midgard.Generated.TimeArrayMech in
/-- everything `__hash__` reads is something `__eq__` demands to be equal (attribute lists regenerated from the AST) -/
theorem hash_reads_subset : ∀ x ∈ hashReads, x ∈ eqCompares := by decide

open Midgard.Generated.TimeArrayMech in
/-- `__hash__` is an expression of the attributes it reads and of nothing else (no memo, no global) -/
theorem hash_is_pure : hashPure = true := by decide

open Midgard.Generated.TimeArrayMech in
/-- arrays of different scale classes are never equal (`isinstance(other, self.__class__)`): the conversion
caches keyed through `__eq__` cannot confuse scales -/
theorem eq_compares_class : "__class__" ∈ eqCompares := by decide

theorem hashKey_eq_of_pyEq (sg cmp reads : List String) (hsub : ∀ x ∈ reads, x ∈ cmp) (a b : Arr)
    (h : pyEq sg cmp a b = true) : hashKey reads a = hashKey reads b := by
  simp only [pyEq, Bool.and_eq_true, List.all_eq_true, beq_iff_eq] at h
  unfold hashKey
  apply List.map_congr_left
  intro x hx
  exact h.2 x (hsub x hx)

open Midgard.Generated.TimeArrayMech in
/-- **Equal arrays have equal hashes**, for `__eq__` and `__hash__` as they are in the source and any hash function
of what `__hash__` reads -/
theorem eq_imp_hash_eq {β} (H : List AttrVal → β) (a b : Arr) (h : pyEq eqShapeGuard eqCompares a b = true) :
    H (hashKey hashReads a) = H (hashKey hashReads b) := by
  rw [hashKey_eq_of_pyEq eqShapeGuard eqCompares hashReads hash_reads_subset a b h]

open Midgard.Generated.TimeArrayMech in
/-- what `==` means in the source: same scale class, same shape, same jd parts — not the format, not the stored
values -/
theorem pyEq_iff (a b : Arr) : pyEq eqShapeGuard eqCompares a b = true ↔
    a.cls = b.cls ∧ a.scalar = b.scalar ∧ a.jd1 = b.jd1 ∧ a.jd2 = b.jd2 := by
  simp only [pyEq, eqShapeGuard, eqCompares, List.all_cons, List.all_nil, Arr.attr, Arr.shapeOf, Bool.and_true,
    Bool.and_eq_true, beq_iff_eq]
  simp only [String.reduceEq, if_true, if_false, or_false, AttrVal.nums.injEq, AttrVal.id.injEq,
    AttrVal.shape.injEq]
  constructor
  · rintro ⟨⟨h1, _⟩, h2, ⟨_, h3⟩, ⟨_, h4⟩⟩; exact ⟨h2, h1, h3, h4⟩
  · rintro ⟨h2, h1, h3, h4⟩; exact ⟨⟨h1, by rw [h3]⟩, h2, ⟨h2, h3⟩, ⟨h2, h4⟩⟩

/-! ### Different derivation paths to the same epochs give equal arrays -/

/-- `t[sel]` spelled out: the heap gains exactly the selected array -/
theorem getSel_step {h : Heap} (hh : HInv h) (t : Nat) (s : Sel) (a : Arr) (ha : h[t]? = some a)
    (hs : a.scalar = false) (ps : List Nat) (hps : s.positions a.vals.length = some ps) :
    (step true h (.getSel t s)).heap =
      h ++ [({ vals := pick a.vals ps, jd1 := pick a.jd1 ps, jd2 := pick a.jd2 ps, cls := a.cls, fmt := a.fmt } : Arr)] := by
  obtain ⟨hp, hv, hj⟩ := good_of_getElem? hh ha
  have hps' : s.positions a.jd1.length = some ps := by rw [← hv]; exact hps
  have hback := set_back hh t a ha (pick a.jd1 ps, pick a.jd2 ps)
  simp only [step, ha, hps, hps', finalize, hback]
  simp [hs]

/-- **Selecting twice = selecting once.**  `t[s1][s2]` (slice of slice, mask of slice, …) is the very array
`t[[…]]` with the composed integer list gives — values, jd parts, class and format — so the two are `==` and hash alike. -/
theorem sel_of_sel_eq_direct {h : Heap} (hh : HInv h) (t : Nat) (s1 s2 : Sel) (a : Arr) (ha : h[t]? = some a)
    (hs : a.scalar = false) (ps qs : List Nat) (hps : s1.positions a.vals.length = some ps)
    (hqs : s2.positions ps.length = some qs) :
    ∃ r1 r, (run true h [.getSel t s1, .getSel h.length s2]).heap = h ++ [r1, r] ∧
      (step true h (.getSel t (.idx ((pick ps qs).map Int.ofNat)))).heap = h ++ [r] := by
  have hin := positions_lt s1 _ ps hps
  have hqin := positions_lt s2 _ qs hqs
  obtain ⟨hp, hv, hj⟩ := good_of_getElem? hh ha
  have e1 := getSel_step hh t s1 a ha hs ps hps
  have hh1 : HInv (step true h (.getSel t s1)).heap := (inv_step hh _).1
  rw [e1] at hh1
  have hr1 : (h ++ [({ vals := pick a.vals ps, jd1 := pick a.jd1 ps, jd2 := pick a.jd2 ps, cls := a.cls, fmt := a.fmt } : Arr)])[h.length]?
      = some { vals := pick a.vals ps, jd1 := pick a.jd1 ps, jd2 := pick a.jd2 ps, cls := a.cls, fmt := a.fmt } := by simp
  have e2 := getSel_step hh1 h.length s2 _ hr1 rfl qs (by simpa [pick_length a.vals ps hin] using hqs)
  have hcomp : ∀ p ∈ pick ps qs, p < a.vals.length := by
    intro p hp'
    simp only [pick, List.mem_filterMap] at hp'
    obtain ⟨q, _, hq⟩ := hp'
    exact hin p (List.mem_of_getElem? hq)
  have e3 := getSel_step hh t (.idx ((pick ps qs).map Int.ofNat)) a ha hs (pick ps qs) (idx_positions _ _ hcomp)
  refine ⟨{ vals := pick a.vals ps, jd1 := pick a.jd1 ps, jd2 := pick a.jd2 ps, cls := a.cls, fmt := a.fmt }, _, ?_, e3⟩
  simp only [run, e1, e2]
  simp only [List.append_assoc, List.cons_append, List.nil_append]
  rw [pick_pick a.vals ps qs hin, pick_pick a.jd1 ps qs (by rw [← hv]; exact hin), pick_pick a.jd2 ps qs (by rw [← hj, ← hv]; exact hin)]

/-- a copy, a view and the object itself are `==` the array and hash alike -/
theorem copy_view_eq {h : Heap} (hh : HInv h) (t : Nat) (a : Arr) (ha : h[t]? = some a) :
    (step true h (.copy t)).heap = h ++ [a] ∧ (step true h (.view t)).heap = h ++ [a] ∧ (step true h (.same t)).heap = h ++ [a] := by
  obtain ⟨hp, _, _⟩ := good_of_getElem? hh ha
  simp only [step, ha, finalize, hp]
  cases a; simp_all

/-- converting to another scale and back gives an array `==` the original (possibly in another format: `gps_ws`
comes back as `jd`), hence with the same hash -/
theorem scale_round_trip_eq {h : Heap} (hh : HInv h) (t : Nat) (a : Arr) (ha : h[t]? = some a) (target : Nat)
    (hne : target ≠ a.cls) :
    ∃ r1 r, (run true h [.scale t target, .scale h.length a.cls]).heap = h ++ [r1, r] ∧
      pyEq Midgard.Generated.TimeArrayMech.eqShapeGuard Midgard.Generated.TimeArrayMech.eqCompares r a = true := by
  obtain ⟨hp, hv, hj⟩ := good_of_getElem? hh ha
  refine ⟨{ vals := a.jd1, jd1 := a.jd1, jd2 := a.jd2, scalar := a.scalar, cls := target, fmt := fmtAfterScale a.fmt target },
    { vals := a.jd1, jd1 := a.jd1, jd2 := a.jd2, scalar := a.scalar, cls := a.cls, fmt := fmtAfterScale (fmtAfterScale a.fmt target) a.cls }, ?_, ?_⟩
  · simp only [run, step, ha, hne, if_false]
    simp [Ne.symm hne]
  · rw [pyEq_iff]; exact ⟨rfl, rfl, rfl, rfl⟩

/-! ### The mechanism without the clearing is *not* aligned (the defect that was repaired) -/

/-- with `clear = false` (the code before the `fix:` commit): slice, then take a view — the view
carries 5 values but the 2 jd parts of the earlier slice -/
theorem unrepaired_misaligns :
    (run false [fresh 0 5] [.getSel 0 (.slice (some 1) (some 3) 1), .view 0]).outs
      = [.arr ⟨[1, 2], [1, 2], [1, 2], false, 0, 0⟩, .arr ⟨[0, 1, 2, 3, 4], [1, 2], [1, 2], false, 0, 0⟩] := by
  decide +kernel

/-- … and so is the `finally`: with `clear = false`, an index NumPy refuses after the jd parts were sliced
(`g[2, 3]` on a three-column array) leaves them on `g`, and the next view carries 5 values next to the jd parts of that one epoch -/
theorem unrepaired_refused_index_misaligns :
    (run false [fresh 0 5 2 2] [.getBad 0 (.int 2), .view 0]).outs
      = [.error, .arr ⟨[0, 1, 2, 3, 4], [2], [2], false, 2, 2⟩] := by
  decide +kernel

/-! ### Non-vacuity -/

example : (run true [fresh 0 5] [.getSel 0 (.slice (some 1) (some 3) 1), .view 0, .getInt 0 (-1),
      .getSel 0 (.mask [true, false, true, false, true]), .getSel 0 (.slice none none (-2)), .iter 1]).outs
    = [.arr ⟨[1, 2], [1, 2], [1, 2], false, 0, 0⟩, .arr ⟨[0, 1, 2, 3, 4], [0, 1, 2, 3, 4], [0, 1, 2, 3, 4], false, 0, 0⟩,
       .arr ⟨[4], [4], [4], true, 0, 0⟩, .arr ⟨[0, 2, 4], [0, 2, 4], [0, 2, 4], false, 0, 0⟩,
       .arr ⟨[4, 2, 0], [4, 2, 0], [4, 2, 0], false, 0, 0⟩,
       .many [⟨[1], [1], [1], true, 0, 0⟩, ⟨[2], [2], [2], true, 0, 0⟩]] := by decide +kernel

/-- refused indices, refused NumPy functions, the object itself, plain concatenation, a scale and back: outputs and
`__array_finalize__` calls -/
example : (run true [fresh 0 5 0 1] [.getBad 0 (.int 2), .view 0, .getBad 0 (.sel (.slice (some 1) (some 3) 1)),
      .refused 0 .flatten, .same 0, .concat [0, 1] true, .scale 1 1, .scale 3 0, .getEll 0 (-1)]).hooks
    = [[], [.parent 0 false], [], [.parent 0 false], [], [.parent 1 false], [.plain], [.plain], [.parent 0 true]] := by decide +kernel

/-- the hypotheses of `sel_of_sel_eq_direct` are satisfiable: `t[1:][::2]` and `t[[1, 3, 5]]` are `==` and agree in
everything `__hash__` reads -/
example : let r := run true [fresh 0 6] [.getSel 0 (.slice (some 1) none 1), .getSel 1 (.slice none none 2), .getSel 0 (.idx [1, 3, 5])]
    r.heap[2]? = r.heap[3]? ∧ (r.heap[2]?).map Arr.obs = some ⟨[1, 3, 5], [1, 3, 5], [1, 3, 5], false, 0, 0⟩ := by decide +kernel

/-- `==` holds across formats and fails across scale classes (hypothesis of `eq_imp_hash_eq` is satisfiable, and not trivially) -/
example : pyEq Generated.TimeArrayMech.eqShapeGuard Generated.TimeArrayMech.eqCompares
      { vals := [7], jd1 := [1], jd2 := [1], cls := 2, fmt := 2 } { vals := [1], jd1 := [1], jd2 := [1], cls := 2, fmt := 0 } = true
    ∧ pyEq Generated.TimeArrayMech.eqShapeGuard Generated.TimeArrayMech.eqCompares
      { vals := [1], jd1 := [1], jd2 := [1], cls := 2 } { vals := [1], jd1 := [1], jd2 := [1], cls := 1 } = false := by decide +kernel

end Midgard.Props.C04

#print axioms Midgard.Props.C04.mechanism_clears
#print axioms Midgard.Props.C04.hinv_append
#print axioms Midgard.Props.C04.hinv_set
#print axioms Midgard.Props.C04.good_of_getElem?
#print axioms Midgard.Props.C04.getInt_good
#print axioms Midgard.Props.C04.iter_good
#print axioms Midgard.Props.C04.inv_step
#print axioms Midgard.Props.C04.inv_run
#print axioms Midgard.Props.C04.fresh_good
#print axioms Midgard.Props.C04.inv_init
#print axioms Midgard.Props.C04.getSel_is_index
#print axioms Midgard.Props.C04.subset_is_index
#print axioms Midgard.Props.C04.getInt_is_index
#print axioms Midgard.Props.C04.view_copy_same
#print axioms Midgard.Props.C04.insert_is_splice
#print axioms Midgard.Props.C04.set_self
#print axioms Midgard.Props.C04.getIntStep_good
#print axioms Midgard.Props.C04.iter_is_elements
#print axioms Midgard.Props.C04.history_independent
#print axioms Midgard.Props.C04.set_rejected
#print axioms Midgard.Props.C04.hash_eq
#print axioms Midgard.Props.C04.set_back
#print axioms Midgard.Props.C04.getIntStep_heap
#print axioms Midgard.Props.C04.iter_extends
#print axioms Midgard.Props.C04.step_extends
#print axioms Midgard.Props.C04.run_extends
#print axioms Midgard.Props.C04.getBad_no_trace
#print axioms Midgard.Props.C04.array_stable_under_reads
#print axioms Midgard.Props.C04.hash_stable_under_reads
#print axioms Midgard.Props.C04.hash_reads_subset
#print axioms Midgard.Props.C04.hash_is_pure
#print axioms Midgard.Props.C04.eq_compares_class
#print axioms Midgard.Props.C04.hashKey_eq_of_pyEq
#print axioms Midgard.Props.C04.eq_imp_hash_eq
#print axioms Midgard.Props.C04.pyEq_iff
#print axioms Midgard.Props.C04.getSel_step
#print axioms Midgard.Props.C04.sel_of_sel_eq_direct
#print axioms Midgard.Props.C04.copy_view_eq
#print axioms Midgard.Props.C04.scale_round_trip_eq
#print axioms Midgard.Props.C04.unrepaired_misaligns
#print axioms Midgard.Props.C04.unrepaired_refused_index_misaligns
#print axioms Midgard.Props.C04.getEll_is_getInt
