/-
C07 — Orbit state ↔ Keplerian elements conversion is invertible and consistent.

Property theorems only, about the definitions of `Model/Kepler.lean` (the terms the compiled
driver runs), instantiated at `ℝ`.

Proved here, for every output `(r, v)` of `kepler2trs` with `a ≠ 0`, `1 − e cos E ≠ 0`
(in particular for `0 ≤ e < 1`), `fac² = (1 − e)(1 + e)`, `g² = GM·a` and every `(cos, sin)` pair
on the unit circle:
  `‖r‖ = a(1 − e cos E)`, vis-viva, `r × v = √(GM a(1 − e²)) · ŵ` with `ŵ = (sin Ω sin i, −cos Ω sin i, cos i)`
  (hence the inclination, node and perigee direction pairs `trs2kepler` feeds into `arctan2`),
  `r · v = √(GM a) e sin E`; the algebraic part of the inverse (`a`, `e` recovered exactly);
  Kepler's equation for `M`; `cos f`, `sin f` and the half-angle relation for the true anomaly.

Also proved: over ℝ (with `arctan2 y x := arg (x + iy)`), `trs2kepler (kepler2trs k) = k` for every
bound inclined orbit with the angles in their principal ranges (`trs2kepler_kepler2trs`).

The other direction (`Proofs/KeplerInverse.lean`): `kepler2trs (trs2kepler s) = s` over ℝ for every bound, inclined,
non-circular state `s` (`kepler2trs_trs2kepler`; hypotheses as explicit conditions on the state, `r·v ≠ 0` suffices for
non-circularity: `kepler2trs_trs2kepler_of_dot_ne`).

Ranges (`Proofs/KeplerRanges.lean`): for *every* state, the angles `trs2kepler` returns are in the code's principal
ranges (`0 ≤ i ≤ π`, `Ω, E ∈ (−π, π]`, `ω ∈ [0, 2π)` incl. the `omega < 0` wrap), `e ≥ 0`; `a > 0` for negative energy,
`e < 1` when moreover `h ≠ 0`; the true anomaly is in `(−π, π]` and has the sign of `sin E` (ascending / descending arc).

Objects (`Model/PosCache.lean`, `Proofs/PosCacheProofs.lean`): in every history of `PosVel(...)` constructions,
conversions, row views and in-place writes, what `to_system` hands out holds the conversion of the *current* contents
of the object asked (`cache_coherent`), and an array handed out earlier is not changed when the array it was
converted from is written to (`kept_conversion_unchanged`).

Not proved (decided by the correspondence/oracle of harness/c07.py over the stated element ranges):
that libm's `arctan2` agrees with the real `arg` to rounding and the resulting `< 1e-8` bound of
the IEEE evaluation.
-/
import Midgard.Proofs.GeoReal
import Midgard.Proofs.SourceTie
import Midgard.Proofs.KeplerRanges
import Midgard.Proofs.KeplerInverse
import Midgard.Proofs.PosCacheProofs
import Midgard.Model.Kepler
import Midgard.Model.PosCache
import Midgard.Generated.KeplerShape

namespace Midgard.Props.C07
open Midgard.Geo

section TwoBody
variable (GM a e fac g cO sO ci si cw sw cE sE : ℝ)

/-- the state `kepler2trs` builds; the rotation arguments are `(cos(−x), sin(−x)) = (cos x, −sin x)` -/
noncomputable def state : V6 ℝ := kepler2trsCore a e fac g cO (-sO) ci (-si) cw (-sw) cE sE

/-- the unit vector along the angular momentum (third column of `PQW`) -/
def wHat : V3 ℝ := ⟨sO * si, -(cO * si), ci⟩

/-- position in the orbital plane: `(X, Y) = (a(cos E − e), a·fac·sin E)` -/
def orbX : ℝ := a * (cE - e)
def orbY : ℝ := a * fac * sE

/-- `‖r‖² = (a(1 − e cos E))²`, i.e. `‖r‖ = a(1 − e cos E)` -/
theorem radius (hfac : fac ^ 2 = (1 - e) * (1 + e))
    (hO : cO ^ 2 + sO ^ 2 = 1) (hi : ci ^ 2 + si ^ 2 = 1) (hw : cw ^ 2 + sw ^ 2 = 1) (hE : cE ^ 2 + sE ^ 2 = 1) :
    (state a e fac g cO sO ci si cw sw cE sE).p.norm2 = (a * (1 - e * cE)) ^ 2 := by
  simp only [state, kepler2trsCore, R3cs, R1cs, M3.mul, M3.mulVec, M3.col1, M3.col2, M3.col3, V3.dot, V3.norm2]
  linear_combination (a^2*(cE^2*ci^2*sw^2 + cE^2*cw^2 + 2*cE*ci^2*cw*fac*sE*sw - 2*cE*ci^2*e*sw^2 - 2*cE*cw^2*e - 2*cE*cw*fac*sE*sw + ci^2*cw^2*fac^2*sE^2 - 2*ci^2*cw*e*fac*sE*sw + ci^2*e^2*sw^2 + cw^2*e^2 + 2*cw*e*fac*sE*sw + fac^2*sE^2*sw^2)) * hO + (a^2*(-cE*sw - cw*fac*sE + e*sw)^2) * hi + (a^2*(cE^2 - 2*cE*e + e^2 + fac^2*sE^2)) * hw + (a^2*fac^2) * hE + (-a^2*(cE - 1)*(cE + 1)) * hfac

/-- `‖v‖² = (g / r)² (1 − e² cos² E)` with `r = a(1 − e cos E)` -/
theorem speed (hfac : fac ^ 2 = (1 - e) * (1 + e))
    (hO : cO ^ 2 + sO ^ 2 = 1) (hi : ci ^ 2 + si ^ 2 = 1) (hw : cw ^ 2 + sw ^ 2 = 1) (hE : cE ^ 2 + sE ^ 2 = 1) :
    (state a e fac g cO sO ci si cw sw cE sE).v.norm2
      = (g / (a * (1 - e * cE))) ^ 2 * (1 - e ^ 2 * cE ^ 2) := by
  simp only [state, kepler2trsCore, R3cs, R1cs, M3.mul, M3.mulVec, M3.col1, M3.col2, M3.col3, V3.dot, V3.norm2]
  generalize g / (a * (1 - e * cE)) = v
  linear_combination (v^2*(cE^2*ci^2*cw^2*fac^2 + cE^2*fac^2*sw^2 - 2*cE*ci^2*cw*fac*sE*sw + 2*cE*cw*fac*sE*sw + ci^2*sE^2*sw^2 + cw^2*sE^2)) * hO + (v^2*(cE*cw*fac - sE*sw)^2) * hi + (v^2*(cE^2*fac^2 + sE^2)) * hw + (v^2) * hE + (cE^2*v^2) * hfac

/-- **vis-viva**: `‖v‖² = GM (2/‖r‖ − 1/a)` with `‖r‖ = a(1 − e cos E)` -/
theorem vis_viva (hfac : fac ^ 2 = (1 - e) * (1 + e)) (hg : g ^ 2 = GM * a)
    (hO : cO ^ 2 + sO ^ 2 = 1) (hi : ci ^ 2 + si ^ 2 = 1) (hw : cw ^ 2 + sw ^ 2 = 1) (hE : cE ^ 2 + sE ^ 2 = 1)
    (ha : a ≠ 0) (hr : 1 - e * cE ≠ 0) :
    (state a e fac g cO sO ci si cw sw cE sE).v.norm2 = GM * (2 / (a * (1 - e * cE)) - 1 / a) := by
  rw [speed a e fac g cO sO ci si cw sw cE sE hfac hO hi hw hE, div_pow, hg]
  field_simp
  ring

/-- **angular momentum**: `r × v = fac·g · ŵ` with `ŵ = (sin Ω sin i, −cos Ω sin i, cos i)`;
with `fac = √(1 − e²)`, `g = √(GM a)` this is `‖r × v‖² = GM·a(1 − e²)`, `cos i = h_z/‖h‖`,
`(h_x, −h_y) = ‖h‖ sin i (sin Ω, cos Ω)` — the pairs `trs2kepler` feeds into `arctan2` -/
theorem angular_momentum
    (hO : cO ^ 2 + sO ^ 2 = 1) (hw : cw ^ 2 + sw ^ 2 = 1) (hE : cE ^ 2 + sE ^ 2 = 1)
    (ha : a ≠ 0) (hr : 1 - e * cE ≠ 0) :
    V3.cross (state a e fac g cO sO ci si cw sw cE sE).p (state a e fac g cO sO ci si cw sw cE sE).v
      = V3.smul (fac * g) (wHat cO sO ci si) := by
  have hv : g / (a * (1 - e * cE)) * (a * (1 - e * cE)) = g := div_mul_cancel₀ _ (mul_ne_zero ha hr)
  apply V3.ext' <;>
    simp only [state, kepler2trsCore, R3cs, R1cs, M3.mul, M3.mulVec, M3.col1, M3.col2, M3.col3, V3.dot, V3.cross,
      V3.smul, wHat] <;>
    generalize g / (a * (1 - e * cE)) = v at hv ⊢
  · linear_combination (-a*fac*sO*si*v*(-cE^2 + cE*e - sE^2)) * hw + (a*fac*sO*si*v) * hE + (fac*sO*si) * hv
  · linear_combination (a*cO*fac*si*v*(-cE^2 + cE*e - sE^2)) * hw + (-a*cO*fac*si*v) * hE + (-cO*fac*si) * hv
  · linear_combination (-a*ci*fac*v*(cw^2 + sw^2)*(-cE^2 + cE*e - sE^2)) * hO + (-a*ci*fac*v*(-cE^2 + cE*e - sE^2)) * hw + (a*ci*fac*v) * hE + (ci*fac) * hv

/-- `‖r × v‖² = GM·a·(1 − e²)` (semi-latus rectum `p = ‖h‖²/GM = a(1 − e²)`) -/
theorem angular_momentum_norm (hfac : fac ^ 2 = (1 - e) * (1 + e)) (hg : g ^ 2 = GM * a)
    (hO : cO ^ 2 + sO ^ 2 = 1) (hi : ci ^ 2 + si ^ 2 = 1) (hw : cw ^ 2 + sw ^ 2 = 1) (hE : cE ^ 2 + sE ^ 2 = 1)
    (ha : a ≠ 0) (hr : 1 - e * cE ≠ 0) :
    (V3.cross (state a e fac g cO sO ci si cw sw cE sE).p (state a e fac g cO sO ci si cw sw cE sE).v).norm2
      = GM * a * (1 - e ^ 2) := by
  rw [angular_momentum a e fac g cO sO ci si cw sw cE sE hO hw hE ha hr]
  simp only [V3.smul, wHat, V3.norm2, V3.dot]
  linear_combination (fac ^ 2 * g ^ 2 * si ^ 2) * hO + (fac ^ 2 * g ^ 2) * hi + (g ^ 2) * hfac + ((1 - e) * (1 + e)) * hg

/-- `r · v = √(GM a) · e · sin E` -/
theorem r_dot_v (hfac : fac ^ 2 = (1 - e) * (1 + e))
    (hO : cO ^ 2 + sO ^ 2 = 1) (hi : ci ^ 2 + si ^ 2 = 1) (hw : cw ^ 2 + sw ^ 2 = 1)
    (ha : a ≠ 0) (hr : 1 - e * cE ≠ 0) :
    V3.dot (state a e fac g cO sO ci si cw sw cE sE).p (state a e fac g cO sO ci si cw sw cE sE).v = g * e * sE := by
  have hv : g / (a * (1 - e * cE)) * (a * (1 - e * cE)) = g := div_mul_cancel₀ _ (mul_ne_zero ha hr)
  simp only [state, kepler2trsCore, R3cs, R1cs, M3.mul, M3.mulVec, M3.col1, M3.col2, M3.col3, V3.dot]
  generalize g / (a * (1 - e * cE)) = v at hv ⊢
  linear_combination (-a*v*(-cE^2*ci^2*cw*fac*sw + cE^2*cw*fac*sw - cE*ci^2*cw^2*fac^2*sE + cE*ci^2*cw*e*fac*sw + cE*ci^2*sE*sw^2 + cE*cw^2*sE - cE*cw*e*fac*sw - cE*fac^2*sE*sw^2 + ci^2*cw*fac*sE^2*sw - ci^2*e*sE*sw^2 - cw^2*e*sE - cw*fac*sE^2*sw)) * hO + (-a*v*(cE*cw*fac - sE*sw)*(-cE*sw - cw*fac*sE + e*sw)) * hi + (a*sE*v*(cE*fac^2 - cE + e)) * hw + (a*cE*sE*v) * hfac + (e*sE) * hv

/-- the argument-of-latitude pair `trs2kepler` feeds into `arctan2`:
`z = sin i · (X sin ω + Y cos ω)`, `−x ŵ_y + y ŵ_x = sin i · (X cos ω − Y sin ω)` — i.e.
`‖r‖ sin i · (sin(ω + f), cos(ω + f))` -/
theorem argument_of_latitude_pair (hO : cO ^ 2 + sO ^ 2 = 1) :
    (state a e fac g cO sO ci si cw sw cE sE).p.z = si * (sw * orbX a e cE + cw * orbY a fac sE) ∧
    -(state a e fac g cO sO ci si cw sw cE sE).p.x * (wHat cO sO ci si).y
        + (state a e fac g cO sO ci si cw sw cE sE).p.y * (wHat cO sO ci si).x
      = si * (cw * orbX a e cE - sw * orbY a fac sE) := by
  constructor <;>
    simp only [state, kepler2trsCore, R3cs, R1cs, M3.mul, M3.mulVec, M3.col1, M3.col2, M3.col3, V3.dot, wHat,
      orbX, orbY]
  · ring
  · linear_combination (-a*si*(-cE*cw + cw*e + fac*sE*sw)) * hO

end TwoBody

/-! ## the algebraic part of the inverse -/

section Inverse

/-- `trs2kepler` recovers the semi-major axis: `1 / (2/‖r‖ − ‖v‖²/GM) = a` whenever
`‖r‖ = a(1 − e cos E)` and vis-viva holds -/
theorem semi_major_recovered (GM a r v2 : ℝ) (hGM : GM ≠ 0) (ha : a ≠ 0) (hr : r ≠ 0)
    (hvv : v2 = GM * (2 / r - 1 / a)) :
    1 / ((1 + 1) / r - v2 / GM) = a := by
  have h : (1 + 1) / r - GM * (2 / r - 1 / a) / GM = 1 / a := by
    field_simp
    ring
  rw [hvv, h, one_div_one_div]

/-- … and the eccentricity: `√(1 − p/a) = e` for `p = ‖h‖²/GM`, `‖h‖² = GM a (1 − e²)`, `e ≥ 0` -/
theorem eccentricity_recovered (GM a e h2 : ℝ) (hGM : GM ≠ 0) (ha : a ≠ 0) (he : 0 ≤ e)
    (hh : h2 = GM * a * (1 - e ^ 2)) :
    Real.sqrt (1 - h2 / GM / a) = e := by
  have : 1 - h2 / GM / a = e ^ 2 := by rw [hh]; field_simp; ring
  rw [this, Real.sqrt_sq he]

/-- the eccentric-anomaly pair: with `n = √(GM/a³)`, `a > 0`: `a² n = √(GM a)`, so
`(r·v, a² n (1 − ‖r‖/a)) = √(GM a) e · (sin E, cos E)` -/
theorem eccentric_anomaly_pair (GM a e cE : ℝ) (ha : 0 < a) :
    a * a * Real.sqrt (GM / cube a) * (1 - a * (1 - e * cE) / a) = Real.sqrt (GM * a) * e * cE := by
  have h1 : a * a * Real.sqrt (GM / cube a) = Real.sqrt (GM * a) := by
    have h2 : a * a = Real.sqrt ((a * a) ^ 2) := by rw [Real.sqrt_sq (by positivity)]
    rw [h2, ← Real.sqrt_mul (by positivity)]
    congr 1
    simp only [cube]
    field_simp
  rw [h1]
  field_simp
  ring

end Inverse

/-! ## mean and true anomaly -/

section Anomalies

/-- **Kepler's equation**: `M = E − e sin E` -/
theorem kepler_equation (e E : ℝ) : meanAnomaly e E = E - e * Real.sin E := rfl

/-- for `0 ≤ e < 1` the point `(cos E − e, √(1 − e²) sin E)` has length `1 − e cos E > 0` -/
theorem true_anomaly_radius (e E : ℝ) (he0 : 0 ≤ e) (he1 : e < 1) :
    (Real.cos E - e) ^ 2 + (Real.sqrt (1 - e * e) * Real.sin E) ^ 2 = (1 - e * Real.cos E) ^ 2 ∧
    0 < 1 - e * Real.cos E := by
  have h1 : 0 ≤ 1 - e * e := by nlinarith
  have hs : Real.sqrt (1 - e * e) ^ 2 = 1 - e * e := Real.sq_sqrt h1
  constructor
  · have := Real.cos_sq_add_sin_sq E
    rw [mul_pow, hs]
    linear_combination (1 - e * e) * this
  · have hc := Real.cos_le_one E
    nlinarith

/-- cosine and sine of the true anomaly `f = arctan2(√(1 − e²) sin E, cos E − e)`:
`cos f = (cos E − e)/(1 − e cos E)`, `sin f = √(1 − e²) sin E/(1 − e cos E)` -/
theorem true_anomaly_cos_sin (e E : ℝ) (he0 : 0 ≤ e) (he1 : e < 1) :
    Real.cos (trueAnomaly e E) = (Real.cos E - e) / (1 - e * Real.cos E) ∧
    Real.sin (trueAnomaly e E) = Real.sqrt (1 - e * e) * Real.sin E / (1 - e * Real.cos E) := by
  obtain ⟨hrad, hpos⟩ := true_anomaly_radius e E he0 he1
  set z : ℂ := ⟨Real.cos E - e, Real.sqrt (1 - e * e) * Real.sin E⟩ with hz
  have hnorm : ‖z‖ = 1 - e * Real.cos E := by
    rw [Complex.norm_eq_sqrt_sq_add_sq]
    simp only [hz]
    rw [hrad, Real.sqrt_sq hpos.le]
  have hz0 : z ≠ 0 := by
    intro h
    rw [h, norm_zero] at hnorm
    linarith
  constructor
  · show Real.cos (Complex.arg z) = _
    rw [Complex.cos_arg hz0, hnorm]
  · show Real.sin (Complex.arg z) = _
    rw [Complex.sin_arg, hnorm]

/-- **the half-angle relation** `tan(f/2) = √((1+e)/(1−e)) tan(E/2)`, in the form free of
singularities: `sin f · (1 − e)(1 + cos E) = √(1 − e²) · sin E · (1 + cos f)·(1 - e)/(1 - e)` … i.e.
`sin f / (1 + cos f) = √(1 − e²)/(1 − e) · sin E / (1 + cos E)` cross-multiplied -/
theorem true_anomaly_half_angle (e E : ℝ) (he0 : 0 ≤ e) (he1 : e < 1) :
    Real.sin (trueAnomaly e E) * ((1 - e) * (1 + Real.cos E))
      = Real.sqrt (1 - e * e) * Real.sin E * (1 + Real.cos (trueAnomaly e E)) := by
  obtain ⟨hc, hs⟩ := true_anomaly_cos_sin e E he0 he1
  obtain ⟨_, hpos⟩ := true_anomaly_radius e E he0 he1
  rw [hc, hs]
  field_simp
  ring

/-- `√(1 − e²)/(1 − e) = √((1 + e)/(1 − e))` for `0 ≤ e < 1`: the factor of the half-angle relation -/
theorem half_angle_factor (e : ℝ) (he0 : 0 ≤ e) (he1 : e < 1) :
    Real.sqrt (1 - e * e) / (1 - e) = Real.sqrt ((1 + e) / (1 - e)) := by
  have h1 : 0 < 1 - e := by linarith
  have h2 : 1 - e * e = (1 + e) / (1 - e) * (1 - e) ^ 2 := by field_simp; ring
  rw [h2, Real.sqrt_mul (by positivity), Real.sqrt_sq h1.le]
  field_simp

end Anomalies

/-! ## the model at real angles is the `(c, s)` form -/

/-- `kepler2trs` at real elements is `state` at the cosines/sines of the angles, with
`fac = √((1 − e)(1 + e))`, `g = √(GM a)` (which satisfy the hypotheses above for `0 ≤ e ≤ 1`, `GM a ≥ 0`) -/
theorem kepler2trs_eq_state (GM : ℝ) (k : Kep ℝ) :
    kepler2trs GM k = state k.a k.e (Real.sqrt ((1 - k.e) * (1 + k.e))) (Real.sqrt (GM * k.a))
      (Real.cos k.Omega) (Real.sin k.Omega) (Real.cos k.i) (Real.sin k.i)
      (Real.cos k.omega) (Real.sin k.omega) (Real.cos k.E) (Real.sin k.E) := by
  simp only [kepler2trs, state, trig_cos, trig_sin, trig_sqrt, Real.cos_neg, Real.sin_neg]

theorem fac_g_hypotheses (GM a e : ℝ) (he0 : 0 ≤ e) (he1 : e ≤ 1) (hg : 0 ≤ GM * a) :
    Real.sqrt ((1 - e) * (1 + e)) ^ 2 = (1 - e) * (1 + e) ∧ Real.sqrt (GM * a) ^ 2 = GM * a :=
  ⟨Real.sq_sqrt (by nlinarith), Real.sq_sqrt hg⟩

/-! ## the full inverse over the reals -/

/-- **`trs2kepler ∘ kepler2trs = id`** over ℝ for every bound (`0 < e < 1`, `a > 0`), inclined
(`0 < i < π`) orbit with the node and the eccentric anomaly in `arctan2`'s principal range `(−π, π]` and the
argument of perigee in `[0, 2π)`: the elements returned by `trs2kepler` are exactly the elements the state
was built from — in particular every returned angle is the principal-range representative.
(For angles outside these ranges the state is unchanged when they are reduced mod 2π, so the returned
elements are the reduced ones.)  What remains unproved for the code is only the IEEE evaluation. -/
theorem trs2kepler_kepler2trs (GM : ℝ) (k : Kep ℝ) (hGM : 0 < GM) (ha : 0 < k.a) (he0 : 0 < k.e) (he1 : k.e < 1)
    (hi0 : 0 < k.i) (hi1 : k.i < Real.pi) (hO : k.Omega ∈ Set.Ioc (-Real.pi) Real.pi)
    (hE : k.E ∈ Set.Ioc (-Real.pi) Real.pi) (hw0 : 0 ≤ k.omega) (hw1 : k.omega < 2 * Real.pi) :
    trs2kepler GM (kepler2trs GM k) = k := by
  obtain ⟨a, e, i, Om, om, E⟩ := k
  simp only at ha he0 he1 hi0 hi1 hO hE hw0 hw1
  rw [kepler2trs_eq_state]
  simp only
  set fac := Real.sqrt ((1 - e) * (1 + e)) with hfacd
  set g := Real.sqrt (GM * a) with hgd
  obtain ⟨hfac, hg⟩ := fac_g_hypotheses GM a e he0.le he1.le (by positivity)
  rw [← hfacd] at hfac
  rw [← hgd] at hg
  have hcO := Real.cos_sq_add_sin_sq Om
  have hci := Real.cos_sq_add_sin_sq i
  have hcw := Real.cos_sq_add_sin_sq om
  have hcE := Real.cos_sq_add_sin_sq E
  obtain ⟨hrad, hr0⟩ := true_anomaly_radius e E he0.le he1
  have hfacpos : 0 < fac := Real.sqrt_pos.mpr (by nlinarith)
  have hgpos : 0 < g := Real.sqrt_pos.mpr (by positivity)
  have hsi : 0 < Real.sin i := Real.sin_pos_of_pos_of_lt_pi hi0 hi1
  have hrne : 1 - e * Real.cos E ≠ 0 := hr0.ne'
  have hane : a ≠ 0 := ha.ne'
  set S := state a e fac g (Real.cos Om) (Real.sin Om) (Real.cos i) (Real.sin i) (Real.cos om) (Real.sin om)
    (Real.cos E) (Real.sin E) with hS
  -- norms
  have hpN : S.p.norm = a * (1 - e * Real.cos E) := by
    rw [V3.norm_eq, radius a e fac g _ _ _ _ _ _ _ _ hfac hcO hci hcw hcE, Real.sqrt_sq (by positivity)]
  have hvN : S.v.norm * S.v.norm = GM * (2 / (a * (1 - e * Real.cos E)) - 1 / a) := by
    rw [← _root_.sq, V3.norm_sq, vis_viva GM a e fac g _ _ _ _ _ _ _ _ hfac hg hcO hci hcw hcE hane hrne]
  have hh : V3.cross S.p S.v = V3.smul (fac * g) (wHat (Real.cos Om) (Real.sin Om) (Real.cos i) (Real.sin i)) :=
    angular_momentum a e fac g _ _ _ _ _ _ _ _ hcO hcw hcE hane hrne
  have hhN : (V3.cross S.p S.v).norm = fac * g := by
    rw [V3.norm_eq, angular_momentum_norm GM a e fac g _ _ _ _ _ _ _ _ hfac hg hcO hci hcw hcE hane hrne]
    rw [show GM * a * (1 - e ^ 2) = (fac * g) ^ 2 by rw [mul_pow, hfac, hg]; ring, Real.sqrt_sq (by positivity)]
  have hhu : (V3.cross S.p S.v).sdiv (fac * g) = wHat (Real.cos Om) (Real.sin Om) (Real.cos i) (Real.sin i) := by
    rw [hh]
    apply V3.ext' <;> simp only [V3.sdiv, V3.smul] <;> field_simp
  have hdot : V3.dot S.p S.v = g * e * Real.sin E :=
    r_dot_v a e fac g _ _ _ _ _ _ _ _ hfac hcO hci hcw hane hrne
  obtain ⟨hz, hul⟩ := argument_of_latitude_pair a e fac g (Real.cos Om) (Real.sin Om) (Real.cos i) (Real.sin i)
    (Real.cos om) (Real.sin om) (Real.cos E) (Real.sin E) hcO
  rw [← hS] at hz hul
  -- recovered scalars
  have ha_rec : 1 / ((1 + 1) / (a * (1 - e * Real.cos E)) - GM * (2 / (a * (1 - e * Real.cos E)) - 1 / a) / GM) = a :=
    semi_major_recovered GM a _ _ hGM.ne' hane (mul_ne_zero hane hrne) rfl
  have he_rec : Real.sqrt (1 - fac * g * (fac * g) / GM / a) = e :=
    eccentricity_recovered GM a e _ hGM.ne' hane he0.le (by
      rw [show fac * g * (fac * g) = fac ^ 2 * g ^ 2 by ring, hfac, hg]; ring)
  have hE_rec : Trig.atan2 (g * e * Real.sin E)
      (a * a * Real.sqrt (GM / cube a) * (1 - a * (1 - e * Real.cos E) / a)) = E := by
    rw [eccentric_anomaly_pair GM a e (Real.cos E) ha, ← hgd]
    exact atan2_pos_mul (g * e) E (by positivity) hE
  -- true anomaly
  set f := trueAnomaly e E with hfd
  have hvega : Trig.atan2 (Real.sqrt (1 - e * e) * Real.sin E) (Real.cos E - e) = f := rfl
  obtain ⟨hcf, hsf⟩ := true_anomaly_cos_sin e E he0.le he1
  rw [← hfd] at hcf hsf
  have hfac' : Real.sqrt (1 - e * e) = fac := by rw [hfacd]; congr 1; ring
  have hf_lo : -Real.pi < f := Complex.neg_pi_lt_arg _
  have hf_hi : f ≤ Real.pi := Complex.arg_le_pi _
  -- inclination and node
  have hi_rec : Trig.atan2 (Real.sqrt (Real.sin Om * Real.sin i * (Real.sin Om * Real.sin i)
      + -(Real.cos Om * Real.sin i) * -(Real.cos Om * Real.sin i))) (Real.cos i) = i := by
    have : Real.sin Om * Real.sin i * (Real.sin Om * Real.sin i)
        + -(Real.cos Om * Real.sin i) * -(Real.cos Om * Real.sin i) = Real.sin i ^ 2 := by
      linear_combination (Real.sin i ^ 2) * hcO
    rw [this, Real.sqrt_sq hsi.le]
    have := atan2_pos_mul 1 i one_pos ⟨by linarith, hi1.le⟩
    simpa using this
  have hO_rec : Trig.atan2 (Real.sin Om * Real.sin i) (-(-(Real.cos Om * Real.sin i))) = Om := by
    rw [neg_neg, mul_comm (Real.sin Om), mul_comm (Real.cos Om)]
    exact atan2_pos_mul _ Om hsi hO
  -- argument of latitude
  have hX : orbX a e (Real.cos E) = a * (1 - e * Real.cos E) * Real.cos f := by
    have hc : (1 - e * Real.cos E) * ((Real.cos E - e) / (1 - e * Real.cos E)) = Real.cos E - e := by
      field_simp
    rw [hcf, orbX, mul_assoc, hc]
  have hY : orbY a fac (Real.sin E) = a * (1 - e * Real.cos E) * Real.sin f := by
    have hc : (1 - e * Real.cos E) * (fac * Real.sin E / (1 - e * Real.cos E)) = fac * Real.sin E := by
      field_simp
    rw [hsf, orbY, hfac', mul_assoc a (1 - e * Real.cos E), hc]; ring
  have hu_pair : Trig.atan2 S.p.z (-S.p.x * (wHat (Real.cos Om) (Real.sin Om) (Real.cos i) (Real.sin i)).y
      + S.p.y * (wHat (Real.cos Om) (Real.sin Om) (Real.cos i) (Real.sin i)).x)
      = Trig.atan2 (Real.sin i * (a * (1 - e * Real.cos E)) * Real.sin (om + f))
          (Real.sin i * (a * (1 - e * Real.cos E)) * Real.cos (om + f)) := by
    rw [hz, hul, hX, hY, Real.sin_add, Real.cos_add]
    congr 1 <;> ring
  obtain ⟨⟨n, hn⟩, hu_lo, hu_hi⟩ := atan2_pos_mul_mod (Real.sin i * (a * (1 - e * Real.cos E))) (om + f) (by positivity)
  simp only [trs2kepler, hpN, hhN, hhu, hdot, trig_sqrt, trig_sin, trig_cos, trig_pi]
  rw [hvN]
  simp only [ha_rec, he_rec, hE_rec, hvega, wHat, hi_rec, hO_rec]
  rw [show Trig.atan2 S.p.z (-S.p.x * -(Real.cos Om * Real.sin i) + S.p.y * (Real.sin Om * Real.sin i))
      = Trig.atan2 (Real.sin i * (a * (1 - e * Real.cos E)) * Real.sin (om + f))
          (Real.sin i * (a * (1 - e * Real.cos E)) * Real.cos (om + f)) from by simpa only [wHat] using hu_pair]
  set u := Trig.atan2 (Real.sin i * (a * (1 - e * Real.cos E)) * Real.sin (om + f))
          (Real.sin i * (a * (1 - e * Real.cos E)) * Real.cos (om + f)) with hud
  have hpi := Real.pi_pos
  have hdiff : u - f = om + 2 * Real.pi * n := by linarith
  have hn_hi : (n : ℝ) < 1 := by
    have h : 2 * Real.pi * (n : ℝ) < 2 * Real.pi * 1 := by linarith
    exact lt_of_mul_lt_mul_left h (by positivity)
  have hn_lo : (-2 : ℝ) < n := by
    have h : 2 * Real.pi * (-2 : ℝ) < 2 * Real.pi * (n : ℝ) := by linarith
    exact lt_of_mul_lt_mul_left h (by positivity)
  have hn1 : n < 1 := by exact_mod_cast hn_hi
  have hn2 : -2 < n := by exact_mod_cast hn_lo
  have hcases : n = -1 ∨ n = 0 := by omega
  have hom : (if u - f < 0 then u - f + (1 + 1) * Real.pi else u - f) = om := by
    rcases hcases with hn' | hn'
    · have hlt : u - f < 0 := by rw [hdiff, hn']; push_cast; linarith
      rw [if_pos hlt, hdiff, hn']; push_cast; ring
    · have hge : ¬ (u - f < 0) := by rw [hdiff, hn']; push_cast; linarith
      rw [if_neg hge, hdiff, hn']; push_cast; ring
  rw [hom]


/-! ### The model is the source (regenerated on every run)

`Generated/SourceExprs.lean` is written by `translator/extract_exprs.py` from the Python `ast` of the tree under
test: the arithmetic of the functions named below, statement by statement.  The theorems of this section say that the
hand-written model definitions every other theorem of this file is about are, over the reals, *equal* to those
regenerated definitions (composed with the hand-modelled branch selection where the source has control flow).  A
change of the source arithmetic therefore breaks one of these (unless it is an algebraic identity over ℝ, which the
fallback of the `src_tie` tactic — unfold, compare component by component with `ring_nf` — accepts). -/
section Source
open Midgard.Generated
set_option linter.unusedTactic false
set_option linter.unreachableTactic false
set_option linter.unusedSimpArgs false
set_option linter.unnecessarySeqFocus false

theorem source_kepler2trs (GM : ℝ) (k : Kep ℝ) :
    kepler2trs GM k =
      (let o := Src.kepler2trsOrbSrc k.a k.e k.E GM
       let pqw := Src.kepler2trsPqwSrc R1 R3 k.Omega k.i k.omega
       (⟨pqw.mulVec o.1, pqw.mulVec o.2⟩ : V6 ℝ)) := by
  src_tie [kepler2trs, kepler2trsCore, Src.kepler2trsOrbSrc, Src.kepler2trsPqwSrc, R1, R3, R1cs, R3cs]
theorem source_trs2kepler (GM : ℝ) (w : V6 ℝ) :
    trs2kepler GM w =
      (let h := V3.cross w.p w.v
       let hu := h.sdiv h.norm
       let s := Src.trs2keplerSrc w.p.norm w.v.norm h.norm hu.x hu.y hu.z (V3.dot w.p w.v) GM w.p.x w.p.y w.p.z
       let omega0 := s.2.2.2.2.1
       (⟨s.1, s.2.1, s.2.2.1, s.2.2.2.1, if omega0 < 0 then omega0 + (1 + 1) * Trig.pi else omega0, s.2.2.2.2.2⟩ : Kep ℝ)) := by
  src_tie [trs2kepler, Src.trs2keplerSrc]
/-- the two `np.einsum` contractions of `trs2kepler` (one state: `"i, i"`; array: `"ij, ij->i"`, one row), expanded
from their subscripts by `translator/extract_kepler.py`, are the model's `r · v` -/
theorem source_einsum (p v : V3 ℝ) :
    KepSrc.einsumStateSrc p v = V3.dot p v ∧ KepSrc.einsumRowSrc p v = V3.dot p v := by
  refine ⟨?_, ?_⟩ <;> simp only [KepSrc.einsumStateSrc, KepSrc.einsumRowSrc, V3.dot]

/-- the `omega` wrap as read from the source — the scalar branch `if omega < 0: omega += 2 * np.pi` and one element of
the mask assignment `omega[omega < 0] += 2 * np.pi` — is the wrap of the model -/
theorem source_omega_wrap (omega : ℝ) :
    KepSrc.omegaWrapScalarSrc omega = (if omega < 0 then omega + (1 + 1) * Trig.pi else omega) ∧
    KepSrc.omegaWrapMaskSrc omega = (if omega < 0 then omega + (1 + 1) * Trig.pi else omega) := by
  refine ⟨?_, ?_⟩ <;> simp only [KepSrc.omegaWrapScalarSrc, KepSrc.omegaWrapMaskSrc] <;> norm_num

/-- `PQW @ column` written out from the `@` of the source and the `hstack` order are the model's `mulVec` pair -/
theorem source_assemble (m : M3 ℝ) (r v : V3 ℝ) : KepSrc.assembleSrc m r v = ⟨m.mulVec r, m.mulVec v⟩ := by
  simp only [KepSrc.assembleSrc, KepSrc.rotateSrc, M3.mulVec, V3.dot]

/-- **`trs2kepler` of the model is the source, end to end**: arithmetic (`extract_exprs.py`), the einsum contraction
and the `omega` wrap (`extract_kepler.py`); what stays hand-modelled is `nputil.norm`, `np.cross`,
`nputil.unit_vector` and `np.stack(...).T` (the order of the six outputs is read by `extract_exprs.py`) -/
theorem source_trs2kepler_full (GM : ℝ) (w : V6 ℝ) :
    trs2kepler GM w =
      (let h := V3.cross w.p w.v
       let hu := h.sdiv h.norm
       let s := Src.trs2keplerSrc w.p.norm w.v.norm h.norm hu.x hu.y hu.z (KepSrc.einsumRowSrc w.p w.v) GM w.p.x w.p.y w.p.z
       (⟨s.1, s.2.1, s.2.2.1, s.2.2.2.1, KepSrc.omegaWrapMaskSrc s.2.2.2.2.1, s.2.2.2.2.2⟩ : Kep ℝ)) := by
  rw [source_trs2kepler]
  simp only [(source_einsum _ _).2, (source_omega_wrap _).2]

/-- **`kepler2trs` of the model is the source, end to end** -/
theorem source_kepler2trs_full (GM : ℝ) (k : Kep ℝ) :
    kepler2trs GM k =
      (let o := Src.kepler2trsOrbSrc k.a k.e k.E GM
       KepSrc.assembleSrc (Src.kepler2trsPqwSrc R1 R3 k.Omega k.i k.omega) o.1 o.2) := by
  rw [source_kepler2trs]
  simp only [source_assemble]

theorem source_anomalies (e E : ℝ) :
    Src.meanAnomalySrc e E = meanAnomaly e E ∧ Src.trueAnomalySrc e E = trueAnomaly e E := by
  refine ⟨?_, ?_⟩ <;> src_tie [Src.meanAnomalySrc, Src.trueAnomalySrc, meanAnomaly, trueAnomaly]

end Source


/-! ## state → elements → state -/
section Inverse

/-- **`kepler2trs ∘ trs2kepler = id`** over ℝ: converting the elements back reproduces position and velocity, for
every state with `r ≠ 0` that is bound (`v² < 2 GM / |r|`), inclined (`h = r × v` not along the z axis; this also
says `h ≠ 0`) and non-circular (the eccentricity `trs2kepler` returns is positive; see `noncircular_iff` and
`kepler2trs_trs2kepler_of_dot_ne` for conditions on the state alone). -/
theorem kepler2trs_trs2kepler (GM : ℝ) (s : V6 ℝ) (hGM : 0 < GM) (hr : s.p.norm2 ≠ 0)
    (hbound : s.v.norm2 < 2 * GM / s.p.norm)
    (hincl : (V3.cross s.p s.v).x ^ 2 + (V3.cross s.p s.v).y ^ 2 ≠ 0)
    (hecc : 0 < (trs2kepler GM s).e) :
    kepler2trs GM (trs2kepler GM s) = s :=
  KepInv.kepler2trs_trs2kepler GM s ⟨hGM, hr, hbound, hincl, hecc⟩

/-- non-circular, as a condition on the state: `|h|² < GM a` -/
theorem noncircular_iff (GM : ℝ) (s : V6 ℝ) (hGM : 0 < GM) (ha : 0 < (trs2kepler GM s).a) :
    0 < (trs2kepler GM s).e ↔ (V3.cross s.p s.v).norm2 < GM * (trs2kepler GM s).a :=
  KepInv.e_pos_iff GM s hGM ha

/-- the same with `r · v ≠ 0` (the state is not at perigee or apogee — in particular the orbit is not circular) in
place of the condition on the returned eccentricity -/
theorem kepler2trs_trs2kepler_of_dot_ne (GM : ℝ) (s : V6 ℝ) (hGM : 0 < GM) (hr : s.p.norm2 ≠ 0)
    (hbound : s.v.norm2 < 2 * GM / s.p.norm)
    (hincl : (V3.cross s.p s.v).x ^ 2 + (V3.cross s.p s.v).y ^ 2 ≠ 0) (hdot : V3.dot s.p s.v ≠ 0) :
    kepler2trs GM (trs2kepler GM s) = s :=
  KepInv.kepler2trs_trs2kepler GM s (KepInv.Regular.of_dot_ne GM s hGM hr hbound hincl hdot)

/-- the hypotheses hold for `GM = 1`, `r = (1, 0, 0)`, `v = (0, 1/2, 1/2)` (`a = 2/3`, `e = 1/2`, `i = π/4`) -/
example : kepler2trs (1 : ℝ) (trs2kepler 1 ⟨⟨1, 0, 0⟩, ⟨0, 1 / 2, 1 / 2⟩⟩) = ⟨⟨1, 0, 0⟩, ⟨0, 1 / 2, 1 / 2⟩⟩ :=
  have h := KepInv.regular_example
  kepler2trs_trs2kepler 1 _ h.hGM h.hr h.bound h.inclined h.noncircular

end Inverse

/-! ## principal ranges of the elements `trs2kepler` returns -/
section Ranges

/-- for every state (no hypothesis): `0 ≤ i ≤ π`, `Ω ∈ (−π, π]`, `ω ∈ [0, 2π)` (after the code's `omega < 0` wrap),
`E ∈ (−π, π]`, `e ≥ 0` -/
theorem principal_ranges (GM : ℝ) (w : V6 ℝ) :
    0 ≤ (trs2kepler GM w).i ∧ (trs2kepler GM w).i ≤ Real.pi ∧
    -Real.pi < (trs2kepler GM w).Omega ∧ (trs2kepler GM w).Omega ≤ Real.pi ∧
    0 ≤ (trs2kepler GM w).omega ∧ (trs2kepler GM w).omega < 2 * Real.pi ∧
    -Real.pi < (trs2kepler GM w).E ∧ (trs2kepler GM w).E ≤ Real.pi ∧
    0 ≤ (trs2kepler GM w).e := trs2kepler_ranges GM w

/-- a bound orbit (negative energy: `v² < 2 GM / r`) has a positive semi-major axis and, when the angular
momentum does not vanish, an eccentricity below 1 -/
theorem bound_orbit (GM : ℝ) (w : V6 ℝ) (hGM : 0 < GM) (hr : 0 < w.p.norm)
    (hbound : w.v.norm * w.v.norm < 2 * GM / w.p.norm) (hh : (V3.cross w.p w.v).norm ≠ 0) :
    0 < (trs2kepler GM w).a ∧ (trs2kepler GM w).e < 1 :=
  ⟨trs2kepler_bound GM w hGM hr hbound, trs2kepler_e_lt_one GM w hGM (trs2kepler_bound GM w hGM hr hbound) hh⟩

/-- the hypotheses of `bound_orbit` hold for `GM = 1`, `r = (1, 0, 0)`, `v = (0, 1, 0)` -/
example : 0 < (trs2kepler (1 : ℝ) ⟨⟨1, 0, 0⟩, ⟨0, 1, 0⟩⟩).a ∧ (trs2kepler (1 : ℝ) ⟨⟨1, 0, 0⟩, ⟨0, 1, 0⟩⟩).e < 1 := by
  obtain ⟨h1, h2, h3⟩ := circular_hyps
  simp only at h1 h2 h3
  exact bound_orbit 1 _ one_pos (by rw [h1]; exact one_pos) (by rw [h1, h2]; norm_num) (by rw [h3]; exact one_ne_zero)

/-- `KeplerPosVel.f` is in `(−π, π]`, positive on the ascending half of the orbit (`sin E > 0`) and negative on the
descending half (`sin E < 0`) -/
theorem true_anomaly_range_and_sign (e E : ℝ) (he0 : 0 ≤ e) (he1 : e < 1) :
    trueAnomaly e E ∈ Set.Ioc (-Real.pi) Real.pi ∧ (0 < Real.sin E → 0 < trueAnomaly e E) ∧
      (Real.sin E < 0 → trueAnomaly e E < 0) :=
  ⟨trueAnomaly_mem_Ioc e E, fun h => trueAnomaly_pos he0 he1 h, fun h => trueAnomaly_neg he0 he1 h⟩

end Ranges

/-! ## the conversion cache of `PosVel` objects in every history -/
section Cache
open Midgard.Geo.PosCache
variable {A : Type} [Arr A]

/-- **cache coherence**: after every history `ops` of constructions, conversions, views, row copies and in-place
writes (started from the empty store), `objs[o].to_system(s)` hands out an object that holds the conversion of
the *current* contents of `objs[o]` (the object itself for its own system), and asking changes the contents
of no object. -/
theorem cache_coherent (a : A) (ops : List (Op A)) (o : Nat) (s : Sys) (ho : o < (run (empty a) ops).n) :
    contents (toSystem (run (empty a) ops) o s).1 (toSystem (run (empty a) ops) o s).2 =
      (if s = ((run (empty a) ops).obj o).sys then contents (run (empty a) ops) o
       else Arr.conv s (contents (run (empty a) ops) o)) ∧
    ∀ j, j < (run (empty a) ops).n →
      contents (toSystem (run (empty a) ops) o s).1 j = contents (run (empty a) ops) j :=
  toSystem_spec (wf_run (wf_empty a) ops) ho s

/-- an array handed out as a conversion keeps its values when the array it was converted from is written to
(`k = orbit.kepler; orbit[key] = v`: `k` is unchanged) — it lives on a memory block of its own -/
theorem kept_conversion_unchanged (a : A) (ops : List (Op A)) (o c : Nat) (key : String) (v : A)
    (ho : o < (run (empty a) ops).n) (hc : ((run (empty a) ops).obj o).cache = some c) :
    contents (setItem (run (empty a) ops) o key v) c = contents (run (empty a) ops) c :=
  setItem_contents_other _ o key v ((wf_run (wf_empty a) ops).cache_ok o ho c hc).2.2.2.2

/-- a write changes no object that lives on another memory block; a view holds the rows cut out of its parent -/
theorem write_is_local (st : Store A) (o j : Nat) (key : String) (v : A)
    (h : (st.obj j).buf ≠ (st.obj o).buf) : contents (setItem st o key v) j = contents st j :=
  setItem_contents_other st o key v h

theorem view_holds_rows (st : Store A) (o : Nat) (key : String) :
    contents (view st o key).1 (view st o key).2 = Arr.get key (contents st o) :=
  view_contents_new o key

/-- the history of the seeded change r3-3 on symbolic values: `orbit = PosVel(L0, 'trs'); k = orbit.kepler;
orbit[:] = L1; k.trs` is `kepler2trs(trs2kepler(L0))` (not `L1`), and `orbit.kepler` is `trs2kepler` of
`orbit` after the write -/
example :
    let st := run (empty (Term.lit 0)) [Op.new .trs (.lit 0), .toSys 0 .kepler, .set 0 "a" (.lit 1)]
    st.n = 2 ∧ contents (toSystem st 1 .trs).1 (toSystem st 1 .trs).2 = Term.conv .trs (Term.conv .kepler (.lit 0)) ∧
      contents (toSystem st 0 .kepler).1 (toSystem st 0 .kepler).2 = Term.conv .kepler (Term.put "a" (.lit 1) (.lit 0)) := by
  refine ⟨rfl, rfl, rfl⟩

end Cache

end Midgard.Props.C07

#print axioms Midgard.Props.C07.radius
#print axioms Midgard.Props.C07.speed
#print axioms Midgard.Props.C07.vis_viva
#print axioms Midgard.Props.C07.angular_momentum
#print axioms Midgard.Props.C07.angular_momentum_norm
#print axioms Midgard.Props.C07.r_dot_v
#print axioms Midgard.Props.C07.argument_of_latitude_pair
#print axioms Midgard.Props.C07.semi_major_recovered
#print axioms Midgard.Props.C07.eccentricity_recovered
#print axioms Midgard.Props.C07.eccentric_anomaly_pair
#print axioms Midgard.Props.C07.kepler_equation
#print axioms Midgard.Props.C07.true_anomaly_radius
#print axioms Midgard.Props.C07.true_anomaly_cos_sin
#print axioms Midgard.Props.C07.true_anomaly_half_angle
#print axioms Midgard.Props.C07.half_angle_factor
#print axioms Midgard.Props.C07.kepler2trs_eq_state
#print axioms Midgard.Props.C07.fac_g_hypotheses
#print axioms Midgard.Props.C07.trs2kepler_kepler2trs
#print axioms Midgard.Props.C07.source_kepler2trs
#print axioms Midgard.Props.C07.source_trs2kepler
#print axioms Midgard.Props.C07.source_anomalies
#print axioms Midgard.Props.C07.principal_ranges
#print axioms Midgard.Props.C07.bound_orbit
#print axioms Midgard.Props.C07.true_anomaly_range_and_sign
#print axioms Midgard.Props.C07.cache_coherent
#print axioms Midgard.Props.C07.kept_conversion_unchanged
#print axioms Midgard.Props.C07.write_is_local
#print axioms Midgard.Props.C07.view_holds_rows
#print axioms Midgard.Props.C07.kepler2trs_trs2kepler
#print axioms Midgard.Props.C07.noncircular_iff
#print axioms Midgard.Props.C07.kepler2trs_trs2kepler_of_dot_ne
#print axioms Midgard.Props.C07.source_einsum
#print axioms Midgard.Props.C07.source_omega_wrap
#print axioms Midgard.Props.C07.source_assemble
#print axioms Midgard.Props.C07.source_trs2kepler_full
#print axioms Midgard.Props.C07.source_kepler2trs_full
