/-
C05 — Geocentric ↔ geodetic conversion is exact and keeps its ellipsoid.

Property theorems only, about the definitions of `Model/Geodetic.lean` (the terms the compiled
driver runs at `Float`/`Rat`), instantiated at `ℝ` through `Proofs/GeoReal.lean`.

Proved here
* the ellipsoid parameters are consistent: `b = a(1 − f)`, `e² = 2f − f²`, `1 − e² = (1 − f)²`
  (the two conversion directions use `e²` resp. `(1 − f)²`: they are on the same ellipsoid), the
  sphere has `f = e² = 0`, `b = a`; every registered ellipsoid (regenerated table) has `a > 0`
  and `f_inv > 1`;
* `llh2trs` is the normal parametrisation: `llh2trs(φ, λ, h) = foot(φ, λ) + h · n̂(φ, λ)` where
  the foot point lies on the ellipsoid and `n̂` is parallel to the ellipsoid's gradient there — so
  "(φ, λ, h) is the point whose ellipsoid normal at distance h is the input" *is*
  "`llh2trs (φ, λ, h) = input`";
* structure of `trs2llh`: longitude, pole branch, southern hemisphere by reflection, dependence
  on `x² + y²` and `|z|` only; the one-step Halley scheme is exact on the ellipsoid surface
  (`h = 0`);
* the ellipsoid attribute flow: if every constructor call found in `_position.py` forwards the
  ellipsoid (a `decide` over the table regenerated from the source on every run) then every
  sequence of conversions / slices / subsets / arithmetic / copies keeps the ellipsoid the
  position was created with, and every conversion in it is evaluated on that ellipsoid.

Not proved (measured against an mpmath reference by harness/c05.py): the accuracy figures of the
published one-step algorithm off the surface (< 1e-6 m within 100 km, < 2 mm up to 50 000 km,
1e-8 m against its own exact-arithmetic result) and all floating-point error.
-/
import Midgard.Proofs.GeoReal
import Midgard.Proofs.GeoAccuracy
import Midgard.Proofs.GeoThirdOrder
import Midgard.Proofs.GeoBoundFinal
import Midgard.Proofs.GeoFarFinal
import Midgard.Proofs.SourceTie
import Midgard.Model.Geodetic
import Midgard.Model.Rotation
import Midgard.Generated.Ellipsoids
import Midgard.Generated.EllipsoidFlow
import Midgard.Model.EllArith
import Midgard.Generated.EllipsoidArith
import Midgard.Model.GeoSelect
import Midgard.Generated.TrsSelect

namespace Midgard.Props.C05
open Midgard.Geo

/-! ## ellipsoid parameters -/

section Params
variable {K : Type} [Field K]

/-- `b = a(1 − f)`, `e² = 2f − f²`, `1 − e² = (1 − f)²` for every ellipsoid with `a ≠ 0` -/
theorem ellipsoid_params (E : Ellipsoid K) (ha : E.a ≠ 0) :
    E.b = E.a * (1 - E.f) ∧ E.e2 = 2 * E.f - E.f ^ 2 ∧ 1 - E.e2 = (1 - E.f) ^ 2 := by
  refine ⟨rfl, ?_, ?_⟩ <;> simp only [Ellipsoid.e2, Ellipsoid.b] <;> field_simp <;> ring

/-- the flattening is the reciprocal of `f_inv` (and 0 for `f_inv = ∞`) -/
theorem flattening (a v : K) : (Ellipsoid.mk a (some v)).f = 1 / v ∧ (Ellipsoid.mk a none).f = 0 :=
  ⟨rfl, rfl⟩

/-- the sphere (`f_inv = ∞`): `f = 0`, `b = a`, `e² = 0` -/
theorem sphere_f_zero (a : K) (ha : a ≠ 0) :
    (Ellipsoid.mk a none).f = 0 ∧ (Ellipsoid.mk a none).b = a ∧ (Ellipsoid.mk a none).e2 = 0 := by
  refine ⟨rfl, ?_, ?_⟩
  · simp [Ellipsoid.b, Ellipsoid.f]
  · simp only [Ellipsoid.e2, Ellipsoid.b, Ellipsoid.f]; field_simp; ring

end Params

/-- every registered ellipsoid (table regenerated from `ellipsoid.py`) has a positive semi-major
axis and `f_inv > 1` or `f_inv = ∞` — hence `0 ≤ f < 1`, `b > 0`, `0 ≤ e² < 1`, the hypotheses of the
theorems below — and the default ellipsoid of `PositionArray.__new__` is the first entry -/
theorem registered_ellipsoids_wellformed :
    (∀ r ∈ Midgard.Generated.Ellipsoids.table,
      0 < r.2.a ∧ ∀ v ∈ r.2.fInv, 1 < v) ∧
    (Midgard.Generated.Ellipsoids.table.head?.map (·.1)) = some Midgard.Generated.Ellipsoids.defaultName ∧
    (Midgard.Generated.Ellipsoids.table.map (·.1)).Nodup := by
  decide +kernel

/-! ## `llh2trs` is the normal parametrisation of space around the ellipsoid -/

section Normal

/-- the radicand of `_llh2trs` is positive on the unit circle when `f ≠ 1` -/
theorem radicand_pos (f cl sl : ℝ) (hf : f ≠ 1) (hl : cl ^ 2 + sl ^ 2 = 1) :
    0 < cl * cl + (1 - f) * (1 - f) * (sl * sl) := by
  have h1 : (1 - f) ≠ 0 := sub_ne_zero.mpr (Ne.symm hf)
  have hw : 0 < (1 - f) * (1 - f) := mul_self_pos.mpr h1
  have hs0 : 0 ≤ (1 - f) * (1 - f) * (sl * sl) := mul_nonneg hw.le (mul_self_nonneg sl)
  by_cases hc : cl = 0
  · have hs : sl * sl = 1 := by rw [hc] at hl; linarith
    rw [hc, hs]; linarith
  · have : 0 < cl * cl := mul_self_pos.mpr hc
    linarith

/-- **the normal parametrisation**: the point at height `h` is the point at height 0 (the foot
point) plus `h` times the unit vector `n̂ = (cos φ cos λ, cos φ sin λ, sin φ)` -/
theorem llh2trs_normal (E : Ellipsoid ℝ) (cl sl co so h : ℝ) :
    llh2trsCS E cl sl co so h =
      V3.add (llh2trsCS E cl sl co so 0) (V3.smul h (normalCS cl sl co so)) := by
  apply V3.ext' <;> simp only [llh2trsCS, V3.add, V3.smul, normalCS] <;> ring

/-- `n̂` is a unit vector -/
theorem normal_unit (cl sl co so : ℝ) (hl : cl ^ 2 + sl ^ 2 = 1) (ho : co ^ 2 + so ^ 2 = 1) :
    (normalCS cl sl co so).norm2 = 1 := by
  simp only [normalCS, V3.norm2, V3.dot]
  linear_combination (cl ^ 2) * ho + hl

/-- the foot point lies on the ellipsoid: `(x² + y²)/a² + z²/b² = 1` -/
theorem foot_on_ellipsoid (E : Ellipsoid ℝ) (ha : E.a ≠ 0) (hf : E.f ≠ 1) (cl sl co so : ℝ)
    (hl : cl ^ 2 + sl ^ 2 = 1) (ho : co ^ 2 + so ^ 2 = 1) :
    let P := llh2trsCS E cl sl co so 0
    (P.x ^ 2 + P.y ^ 2) / E.a ^ 2 + P.z ^ 2 / E.b ^ 2 = 1 := by
  intro P
  have hpos := radicand_pos E.f cl sl hf hl
  have hd : Real.sqrt (cl * cl + (1 - E.f) * (1 - E.f) * (sl * sl)) ^ 2
      = cl * cl + (1 - E.f) * (1 - E.f) * (sl * sl) := Real.sq_sqrt hpos.le
  have hd0 : Real.sqrt (cl * cl + (1 - E.f) * (1 - E.f) * (sl * sl)) ≠ 0 :=
    (Real.sqrt_pos.mpr hpos).ne'
  have h1f : (1 - E.f) ≠ 0 := sub_ne_zero.mpr (Ne.symm hf)
  have e1 : (P.x ^ 2 + P.y ^ 2) / E.a ^ 2 + P.z ^ 2 / E.b ^ 2
      = (cl ^ 2 * (co ^ 2 + so ^ 2) + (1 - E.f) ^ 2 * sl ^ 2)
        / Real.sqrt (cl * cl + (1 - E.f) * (1 - E.f) * (sl * sl)) ^ 2 := by
    simp only [P, llh2trsCS, Ellipsoid.b, trig_sqrt]
    field_simp
    ring
  rw [e1, ho, hd, div_eq_one_iff_eq hpos.ne']
  ring

/-- `n̂` is parallel to the gradient `(x/a², y/a², z/b²)` of the ellipsoid's quadric at the foot
point, i.e. it is the ellipsoid normal there -/
theorem normal_parallel_gradient (E : Ellipsoid ℝ) (ha : E.a ≠ 0) (hf : E.f ≠ 1) (cl sl co so : ℝ) :
    let P := llh2trsCS E cl sl co so 0
    V3.cross ⟨P.x / E.a ^ 2, P.y / E.a ^ 2, P.z / E.b ^ 2⟩ (normalCS cl sl co so) = V3.zero := by
  intro P
  have h1f : (1 - E.f) ≠ 0 := sub_ne_zero.mpr (Ne.symm hf)
  apply V3.ext' <;>
    simp only [P, llh2trsCS, Ellipsoid.b, normalCS, V3.cross, V3.zero, trig_sqrt] <;>
    field_simp <;> ring

/-- the gradient points outwards: its scalar product with `n̂` is positive -/
theorem normal_outward (E : Ellipsoid ℝ) (ha : 0 < E.a) (hf : E.f ≠ 1) (cl sl co so : ℝ)
    (hl : cl ^ 2 + sl ^ 2 = 1) (ho : co ^ 2 + so ^ 2 = 1) :
    let P := llh2trsCS E cl sl co so 0
    0 < V3.dot ⟨P.x / E.a ^ 2, P.y / E.a ^ 2, P.z / E.b ^ 2⟩ (normalCS cl sl co so) := by
  intro P
  have hpos := radicand_pos E.f cl sl hf hl
  have hd0 : 0 < Real.sqrt (cl * cl + (1 - E.f) * (1 - E.f) * (sl * sl)) := Real.sqrt_pos.mpr hpos
  have h1f : (1 - E.f) ≠ 0 := sub_ne_zero.mpr (Ne.symm hf)
  have key : V3.dot ⟨P.x / E.a ^ 2, P.y / E.a ^ 2, P.z / E.b ^ 2⟩ (normalCS cl sl co so)
      = (cl ^ 2 * (co ^ 2 + so ^ 2) + sl ^ 2)
        / (E.a * Real.sqrt (cl * cl + (1 - E.f) * (1 - E.f) * (sl * sl))) := by
    simp only [P, llh2trsCS, Ellipsoid.b, normalCS, V3.dot, trig_sqrt]
    field_simp
    ring
  rw [key, ho, mul_one, hl]
  positivity

end Normal

/-! ## structure of `trs2llh` -/

section Structure

/-- the longitude is `arctan2(y, x)` whatever the ellipsoid -/
theorem trs2llh_lon (E : Ellipsoid ℝ) (v : V3 ℝ) : (trs2llh E v).lon = Trig.atan2 v.y v.x := rfl

/-- latitude and height depend on `x² + y²` and `|z|` (and the sign of `z`) only: the problem is
rotationally symmetric about the z axis -/
theorem trs2llh_rot_z (E : Ellipsoid ℝ) (x y x' y' z : ℝ) (h : x * x + y * y = x' * x' + y' * y') :
    (trs2llh E ⟨x, y, z⟩).lat = (trs2llh E ⟨x', y', z⟩).lat ∧
    (trs2llh E ⟨x, y, z⟩).h = (trs2llh E ⟨x', y', z⟩).h := by
  simp only [trs2llh, h, and_self]

theorem absOf_neg (z : ℝ) : absOf (-z) = absOf z := by
  unfold absOf
  rcases lt_trichotomy z 0 with h | h | h
  · have : ¬ (-z < 0) := by linarith
    simp [h, this]
  · simp [h]
  · have h' : -z < 0 := by linarith
    have : ¬ (z < 0) := by linarith
    simp [h', this]

theorem signOf_neg (z : ℝ) : signOf (-z) = -signOf z := by
  unfold signOf
  rcases lt_trichotomy z 0 with h | h | h
  · have h1 : ¬ (-z < 0) := by linarith
    have h2 : 0 < -z := by linarith
    simp [h, h1, h2]
  · simp [h]
  · have h1 : -z < 0 := by linarith
    have h2 : ¬ (z < 0) := by linarith
    simp [h, h1, h2]

/-- the southern hemisphere is the mirror image of the northern one:
`trs2llh (x, y, −z) = (−lat, lon, h)` -/
theorem trs2llh_reflect_z (E : Ellipsoid ℝ) (x y z : ℝ) :
    (trs2llh E ⟨x, y, -z⟩).lat = -(trs2llh E ⟨x, y, z⟩).lat ∧
    (trs2llh E ⟨x, y, -z⟩).h = (trs2llh E ⟨x, y, z⟩).h := by
  simp only [trs2llh, absOf_neg, signOf_neg, mul_neg, and_self]

/-- the pole branch: within `p² ≤ a²·1e-32` of the axis the latitude is `±π/2` and the height is
`|z| − b` -/
theorem trs2llh_pole (E : Ellipsoid ℝ) (x y z : ℝ) (hp : x * x + y * y ≤ E.a * E.a * 1e-32) :
    (trs2llh E ⟨x, y, z⟩).lat = Real.pi / 2 * signOf z ∧ (trs2llh E ⟨x, y, z⟩).h = absOf z - E.b := by
  simp only [trs2llh, latHeightOf, hp, if_true, trig_pi]
  constructor
  · norm_num
  · trivial

/-- on the axis itself `llh2trs` of the pole-branch answer is the input (`z > 0`) -/
theorem pole_roundtrip (E : Ellipsoid ℝ) (hf : E.f < 1) (z : ℝ) :
    llh2trsCS E 0 1 1 0 (z - E.b) = ⟨0, 0, z⟩ := by
  have h1f : 0 < 1 - E.f := by linarith
  have hs : Real.sqrt ((0 : ℝ) * 0 + (1 - E.f) * (1 - E.f) * (1 * 1)) = 1 - E.f := by
    rw [show (0 : ℝ) * 0 + (1 - E.f) * (1 - E.f) * (1 * 1) = (1 - E.f) ^ 2 by ring]
    exact Real.sqrt_sq h1f.le
  apply V3.ext' <;> simp only [llh2trsCS, trig_sqrt, hs, Ellipsoid.b]
  · ring
  · ring
  · field_simp; ring

end Structure

/-! ## the one-step Halley scheme is exact on the ellipsoid -/

section Surface

/-- for a point **on the ellipsoid** — `p = a cos β`, `|z| = b sin β` with reduced latitude `β`,
not a pole — the single Halley step of `_trs2llh` returns the exact answer: the tangent of the
latitude is `s1/cc = tan β / (1 − f)` (the geodetic latitude of that surface point), `cc > 0`, and
the height formula gives exactly 0 -/
theorem halley_exact_on_surface (E : Ellipsoid ℝ) (ha : 0 < E.a) (hf1 : E.f < 1)
    (C S : ℝ) (hCS : C ^ 2 + S ^ 2 = 1) (hC : 0 < C) :
    let sc := halley E (E.a * C) (E.b * S)
    sc.1 * ((1 - E.f) * C) = sc.2 * S ∧ 0 < sc.2 ∧
      halleyHeight E (E.a * C) (E.b * S) sc.1 sc.2 = 0 := by
  intro sc
  have hq : 0 < 1 - E.f := by linarith
  set q := 1 - E.f with hqd
  have ha0 : E.a ≠ 0 := ha.ne'
  have he2 : E.e2 = 1 - q ^ 2 := by
    have := (ellipsoid_params E ha0).2.2
    rw [← hqd] at this
    linarith
  have hb : E.b = E.a * q := rfl
  -- the quantities of the scheme at a surface point
  have hec : Real.sqrt (1 - E.e2) = q := by
    rw [he2, show 1 - (1 - q ^ 2) = q ^ 2 by ring, Real.sqrt_sq hq.le]
  have hs0 : E.b * S / E.a = q * S := by rw [hb]; field_simp
  have hpn : E.a * C / E.a = C := by field_simp
  have hrad : q * C * (q * C) + q * S * (q * S) = q ^ 2 := by linear_combination (q ^ 2) * hCS
  have ha0' : Real.sqrt (q * C * (q * C) + q * S * (q * S)) = q := by rw [hrad, Real.sqrt_sq hq.le]
  have hC2 : C ^ 2 ≤ 1 := by nlinarith [sq_nonneg S]
  have hm : 0 < 1 - (1 - q ^ 2) * C ^ 2 := by
    have : 0 < q ^ 2 := by positivity
    nlinarith [sq_nonneg C]
  -- closed forms of s1 and cc
  have hs1 : sc.1 = q ^ 6 * C * (1 - (1 - q ^ 2) * C ^ 2) ^ 2 * S := by
    simp only [sc, halley, trig_sqrt, cube]
    rw [hec, hs0, hpn, ha0', he2]
    linear_combination (q ^ 6 * S * C * (1 - (1 - q ^ 2) * C ^ 2) * (1 - q ^ 2)) * hCS
  have hcc : sc.2 = q ^ 6 * C * (1 - (1 - q ^ 2) * C ^ 2) ^ 2 * (q * C) := by
    simp only [sc, halley, trig_sqrt, cube]
    rw [hec, hs0, hpn, ha0', he2]
    ring
  set K := q ^ 6 * C * (1 - (1 - q ^ 2) * C ^ 2) ^ 2 with hK
  have hKpos : 0 < K := by positivity
  refine ⟨?_, ?_, ?_⟩
  · rw [hs1, hcc]; ring
  · rw [hcc]; positivity
  · simp only [halleyHeight, trig_sqrt, hs1, hcc, he2, hb]
    have h1 : (1 - (1 - q ^ 2)) * (K * S * (K * S)) + K * (q * C) * (K * (q * C)) = (q * K) ^ 2 := by
      linear_combination (q ^ 2 * K ^ 2) * hCS
    rw [h1, Real.sqrt_sq (by positivity)]
    have h2 : E.a * C * (K * (q * C)) + E.a * q * S * (K * S) - E.a * (q * K) = 0 := by
      linear_combination (E.a * q * K) * hCS
    rw [h2, zero_div]

/-- … and that answer converts back to the input: a latitude whose `(cos, sin)` is the positive
multiple `k·((1 − f) cos β, sin β)` — exactly what `s1/cc` above describes — and height 0 give
`llh2trs = (a cos β cos λ, a cos β sin λ, b sin β)` -/
theorem surface_point_roundtrip (E : Ellipsoid ℝ) (hf1 : E.f < 1)
    (C S k co so : ℝ) (hCS : C ^ 2 + S ^ 2 = 1) (hk : 0 < k) :
    llh2trsCS E (k * ((1 - E.f) * C)) (k * S) co so 0 = ⟨E.a * C * co, E.a * C * so, E.b * S⟩ := by
  have hq : 0 < 1 - E.f := by linarith
  have hrad : k * ((1 - E.f) * C) * (k * ((1 - E.f) * C)) + (1 - E.f) * (1 - E.f) * (k * S * (k * S))
      = (k * (1 - E.f)) ^ 2 := by
    linear_combination (k ^ 2 * (1 - E.f) ^ 2) * hCS
  have hs : Real.sqrt (k * ((1 - E.f) * C) * (k * ((1 - E.f) * C)) + (1 - E.f) * (1 - E.f) * (k * S * (k * S)))
      = k * (1 - E.f) := by rw [hrad, Real.sqrt_sq (by positivity)]
  apply V3.ext' <;> simp only [llh2trsCS, trig_sqrt, hs, Ellipsoid.b] <;> field_simp <;> ring

/-! ## the sphere: exact at every height -/

/-- **the sphere (f = 0): the one-step scheme is exact at every height** — for every point off the axis
(`p > 0`, any `|z| ≥ 0`) the tangent of the latitude is `|z| / p` (geocentric = geodetic latitude), and the
height formula gives exactly the distance from the centre minus the radius -/
theorem halley_exact_on_sphere (E : Ellipsoid ℝ) (ha : 0 < E.a) (hf : E.fInv = none)
    (p z : ℝ) (hp : 0 < p) (hz : 0 ≤ z) :
    let sc := halley E p z
    sc.1 * p = sc.2 * z ∧ 0 < sc.2 ∧
      halleyHeight E p z sc.1 sc.2 = Real.sqrt (p * p + z * z) - E.a := by
  intro sc
  have ha0 : E.a ≠ 0 := ha.ne'
  have hf0 : E.f = 0 := by simp [Ellipsoid.f, hf]
  have he2 : E.e2 = 0 := by
    simp only [Ellipsoid.e2, Ellipsoid.b, hf0]; field_simp; ring
  set s0 := z / E.a with hs0
  set pn := p / E.a with hpn
  have hpn0 : 0 < pn := div_pos hp ha
  have hs00 : 0 ≤ s0 := div_nonneg hz ha.le
  set r := Real.sqrt (pn * pn + s0 * s0) with hr
  have hrpos : 0 < r := Real.sqrt_pos.2 (by positivity)
  have hr2 : r * r = pn * pn + s0 * s0 := Real.mul_self_sqrt (by positivity)
  have hs1 : sc.1 = s0 * pn * r ^ 6 := by
    simp only [sc, halley, trig_sqrt, cube, he2]
    rw [show (1 : ℝ) - 0 = 1 by ring, Real.sqrt_one]
    simp only [one_mul, ← hs0, ← hpn, ← hr]
    ring
  have hcc : sc.2 = pn * pn * r ^ 6 := by
    simp only [sc, halley, trig_sqrt, cube, he2]
    rw [show (1 : ℝ) - 0 = 1 by ring, Real.sqrt_one]
    simp only [one_mul, ← hs0, ← hpn, ← hr]
    ring
  have hpa : p = E.a * pn := by rw [hpn]; field_simp
  have hza : z = E.a * s0 := by rw [hs0]; field_simp
  refine ⟨?_, ?_, ?_⟩
  · rw [hs1, hcc, hpa, hza]; ring
  · rw [hcc]; positivity
  · simp only [halleyHeight, trig_sqrt, hs1, hcc, he2]
    have h1 : (1 - 0) * (s0 * pn * r ^ 6 * (s0 * pn * r ^ 6)) + pn * pn * r ^ 6 * (pn * pn * r ^ 6) = (pn * r ^ 7) ^ 2 := by
      have : r ^ 14 = r ^ 12 * (r * r) := by ring
      calc _ = pn ^ 2 * r ^ 12 * (pn * pn + s0 * s0) := by ring
        _ = pn ^ 2 * r ^ 12 * (r * r) := by rw [hr2]
        _ = _ := by ring
    have h2 : s0 * pn * r ^ 6 * (s0 * pn * r ^ 6) + pn * pn * r ^ 6 * (pn * pn * r ^ 6) = (pn * r ^ 7) ^ 2 := by
      rw [← h1]; ring
    rw [h1, h2, Real.sqrt_sq (by positivity)]
    have hdist : Real.sqrt (p * p + z * z) = E.a * r := by
      have h3 : p * p + z * z = (E.a * r) ^ 2 := by
        rw [hpa, hza]
        calc _ = E.a ^ 2 * (pn * pn + s0 * s0) := by ring
          _ = E.a ^ 2 * (r * r) := by rw [hr2]
          _ = _ := by ring
      rw [h3]
      exact Real.sqrt_sq (by positivity)
    rw [hdist]
    have hne : pn * r ^ 7 ≠ 0 := by positivity
    rw [div_eq_iff hne]
    have h4 : p * (pn * pn * r ^ 6) + z * (s0 * pn * r ^ 6) = E.a * pn * r ^ 6 * (r * r) := by
      rw [hpa, hza, hr2]; ring
    rw [h4]; ring

/-- **the sphere: the full round trip is the identity at every height** (over the reals): for every point off the
polar axis beyond the pole-branch threshold, `llh2trs (trs2llh v) = v` -/
theorem sphere_roundtrip (E : Ellipsoid ℝ) (ha : 0 < E.a) (hf : E.fInv = none) (v : V3 ℝ)
    (hoff : ¬ v.x * v.x + v.y * v.y ≤ E.a * E.a * 1e-32) :
    llh2trs E (trs2llh E v) = v := by
  have hf0 : E.f = 0 := by simp [Ellipsoid.f, hf]
  have hp2 : 0 < v.x * v.x + v.y * v.y := by
    have : (0:ℝ) ≤ E.a * E.a * 1e-32 := by positivity
    linarith [not_le.1 hoff]
  set p := Real.sqrt (v.x * v.x + v.y * v.y) with hpd
  have hp : 0 < p := Real.sqrt_pos.2 hp2
  have hpp : p * p = v.x * v.x + v.y * v.y := Real.mul_self_sqrt hp2.le
  have hz : 0 ≤ absOf v.z := by unfold absOf; split <;> linarith
  obtain ⟨h1, h2, h3⟩ := halley_exact_on_sphere E ha hf p (absOf v.z) hp hz
  set sc := halley E p (absOf v.z) with hsc
  set ρ := Real.sqrt (p * p + absOf v.z * absOf v.z) with hρ
  have hρpos : 0 < ρ := Real.sqrt_pos.2 (by positivity)
  have hρρ : ρ * ρ = p * p + absOf v.z * absOf v.z := Real.mul_self_sqrt (by positivity)
  have ht : sc.1 / sc.2 = absOf v.z / p := by
    rw [div_eq_div_iff h2.ne' hp.ne']; linarith
  -- cos / sin of the latitude
  have h1t : Real.sqrt (1 + (absOf v.z / p) ^ 2) = ρ / p := by
    rw [show 1 + (absOf v.z / p) ^ 2 = (ρ / p) ^ 2 by
      rw [div_pow, div_pow, pow_two ρ, hρρ]; field_simp]
    exact Real.sqrt_sq (by positivity)
  have hcos0 : Real.cos (Real.arctan (absOf v.z / p)) = p / ρ := by
    rw [Real.cos_arctan, h1t]; field_simp
  have hsin0 : Real.sin (Real.arctan (absOf v.z / p)) = absOf v.z / ρ := by
    rw [Real.sin_arctan, h1t]; field_simp
  have hcases : (v.z < 0 ∧ absOf v.z = -v.z ∧ signOf v.z = -1) ∨ (0 < v.z ∧ absOf v.z = v.z ∧ signOf v.z = 1) ∨
      (v.z = 0 ∧ absOf v.z = 0 ∧ signOf v.z = 0) := by
    unfold absOf signOf
    by_cases hn : v.z < 0
    · left; simp [hn]
    · by_cases hpz : 0 < v.z
      · right; left; simp [hn, hpz]
      · right; right
        have : v.z = 0 := le_antisymm (not_lt.1 hpz) (not_lt.1 hn)
        simp [this]
  have hcl : Real.cos (Real.arctan (absOf v.z / p) * signOf v.z) = p / ρ := by
    rcases hcases with ⟨_, _, hs⟩ | ⟨_, _, hs⟩ | ⟨_, ha0, hs⟩
    · rw [hs, mul_neg, mul_one, Real.cos_neg, hcos0]
    · rw [hs, mul_one, hcos0]
    · rw [hs, mul_zero, Real.cos_zero]
      have : ρ = p := by rw [hρ, ha0]; simp [Real.sqrt_mul_self hp.le]
      rw [this]; field_simp
  have hsl : Real.sin (Real.arctan (absOf v.z / p) * signOf v.z) = v.z / ρ := by
    rcases hcases with ⟨_, ha1, hs⟩ | ⟨_, ha1, hs⟩ | ⟨hz0, _, hs⟩
    · rw [hs, mul_neg, mul_one, Real.sin_neg, hsin0, ha1]; ring
    · rw [hs, mul_one, hsin0, ha1]
    · rw [hs, mul_zero, Real.sin_zero, hz0, zero_div]
  -- cos / sin of the longitude
  have hne : (⟨v.x, v.y⟩ : ℂ) ≠ 0 := by
    intro h; have := congrArg Complex.normSq h
    simp [Complex.normSq_mk] at this; linarith
  have habs : ‖(⟨v.x, v.y⟩ : ℂ)‖ = p := by
    rw [Complex.norm_def, Complex.normSq_mk]
  have hco : Real.cos (Complex.arg ⟨v.x, v.y⟩) = v.x / p := by
    rw [Complex.cos_arg hne, habs]
  have hso : Real.sin (Complex.arg ⟨v.x, v.y⟩) = v.y / p := by
    rw [Complex.sin_arg, habs]
  -- assemble
  have hlat : (trs2llh E v).lat = Real.arctan (absOf v.z / p) * signOf v.z := by
    simp only [trs2llh, latHeightOf, hoff, if_false, trig_atan, trig_sqrt, ← hpd, ← hsc, ht]
  have hlon : (trs2llh E v).lon = Complex.arg ⟨v.x, v.y⟩ := by
    simp only [trs2llh, trig_atan2]
  have hh : (trs2llh E v).h = ρ - E.a := by
    simp only [trs2llh, latHeightOf, hoff, if_false, trig_sqrt, ← hpd, ← hsc, h3]
  have hsq : Real.sqrt (p / ρ * (p / ρ) + (1 - 0) * (1 - 0) * (v.z / ρ * (v.z / ρ))) = 1 := by
    have hzz : v.z * v.z = absOf v.z * absOf v.z := by
      unfold absOf; split <;> ring
    rw [show p / ρ * (p / ρ) + (1 - 0) * (1 - 0) * (v.z / ρ * (v.z / ρ)) = 1 by
      field_simp; rw [pow_two ρ, hρρ, ← hzz]; ring]
    exact Real.sqrt_one
  apply V3.ext' <;>
    simp only [llh2trs, llh2trsCS, trig_cos, trig_sin, trig_sqrt, hlat, hlon, hh, hcl, hsl, hco, hso, hf0, hsq] <;>
    field_simp <;> ring

/-- **on the ellipsoid surface the full round trip is the identity** (over the reals, every ellipsoid with `a > 0`,
`f < 1`): for every point of the ellipsoid off the pole branch, `llh2trs (trs2llh v) = v` -/
theorem surface_roundtrip (E : Ellipsoid ℝ) (ha : 0 < E.a) (hf1 : E.f < 1) (v : V3 ℝ)
    (hon : (v.x * v.x + v.y * v.y) / (E.a * E.a) + (v.z * v.z) / (E.b * E.b) = 1)
    (hoff : ¬ v.x * v.x + v.y * v.y ≤ E.a * E.a * 1e-32) :
    llh2trs E (trs2llh E v) = v := by
  have hq : 0 < 1 - E.f := by linarith
  have hb : 0 < E.b := by unfold Ellipsoid.b; positivity
  have hp2 : 0 < v.x * v.x + v.y * v.y := by
    have : (0:ℝ) ≤ E.a * E.a * 1e-32 := by positivity
    linarith [not_le.1 hoff]
  set p := Real.sqrt (v.x * v.x + v.y * v.y) with hpd
  have hp : 0 < p := Real.sqrt_pos.2 hp2
  have hpp : p * p = v.x * v.x + v.y * v.y := Real.mul_self_sqrt hp2.le
  -- reduced-latitude parametrisation of the point
  set C := p / E.a with hC
  set S := absOf v.z / E.b with hS
  set S' := v.z / E.b with hS'
  clear_value C S S'
  have hCpos : 0 < C := by rw [hC]; exact div_pos hp ha
  have hzz : absOf v.z * absOf v.z = v.z * v.z := by unfold absOf; split <;> ring
  have hCS : C ^ 2 + S ^ 2 = 1 := by
    rw [hC, hS, div_pow, div_pow, pow_two p, hpp, pow_two (absOf v.z), hzz, pow_two, pow_two]; exact hon
  have hCS' : C ^ 2 + S' ^ 2 = 1 := by
    rw [hC, hS', div_pow, div_pow, pow_two p, hpp, pow_two, pow_two, pow_two]; exact hon
  have hpa : p = E.a * C := by rw [hC]; field_simp
  have hza : absOf v.z = E.b * S := by rw [hS]; field_simp
  obtain ⟨h1, h2, h3⟩ := halley_exact_on_surface E ha hf1 C S hCS hCpos
  rw [← hpa, ← hza] at h1 h2 h3
  set sc := halley E p (absOf v.z) with hsc
  set q := 1 - E.f with hqd
  have hqC : 0 < q * C := by positivity
  have ht : sc.1 / sc.2 = S / (q * C) := by
    rw [div_eq_div_iff h2.ne' hqC.ne']; linarith
  set D := Real.sqrt ((q * C) ^ 2 + S ^ 2) with hD
  have hDpos : 0 < D := Real.sqrt_pos.2 (by positivity)
  have hDD : D * D = (q * C) ^ 2 + S ^ 2 := Real.mul_self_sqrt (by positivity)
  have h1t : Real.sqrt (1 + (S / (q * C)) ^ 2) = D / (q * C) := by
    rw [show 1 + (S / (q * C)) ^ 2 = (D / (q * C)) ^ 2 by
      rw [div_pow, div_pow, pow_two D, hDD]; field_simp]
    exact Real.sqrt_sq (by positivity)
  have hcos0 : Real.cos (Real.arctan (S / (q * C))) = (1 / D) * (q * C) := by
    rw [Real.cos_arctan, h1t]; field_simp
  have hsin0 : Real.sin (Real.arctan (S / (q * C))) = (1 / D) * S := by
    rw [Real.sin_arctan, h1t]; field_simp
  have hcases : (absOf v.z = -v.z ∧ signOf v.z = -1) ∨ (absOf v.z = v.z ∧ signOf v.z = 1) ∨
      (v.z = 0 ∧ absOf v.z = 0 ∧ signOf v.z = 0) := by
    unfold absOf signOf
    by_cases hn : v.z < 0
    · left; simp [hn]
    · by_cases hpz : 0 < v.z
      · right; left; simp [hn, hpz]
      · right; right
        have : v.z = 0 := le_antisymm (not_lt.1 hpz) (not_lt.1 hn)
        simp [this]
  have hcl : Real.cos (Real.arctan (S / (q * C)) * signOf v.z) = (1 / D) * (q * C) := by
    rcases hcases with ⟨_, hs⟩ | ⟨_, hs⟩ | ⟨_, ha0, hs⟩
    · rw [hs, mul_neg, mul_one, Real.cos_neg, hcos0]
    · rw [hs, mul_one, hcos0]
    · have hS0 : S = 0 := by rw [hS, ha0, zero_div]
      rw [hs, mul_zero, Real.cos_zero]
      have : D = q * C := by rw [hD, hS0]; simp [Real.sqrt_sq hqC.le]
      rw [this]; field_simp
  have hsl : Real.sin (Real.arctan (S / (q * C)) * signOf v.z) = (1 / D) * S' := by
    rcases hcases with ⟨ha1, hs⟩ | ⟨ha1, hs⟩ | ⟨hz0, _, hs⟩
    · rw [hs, mul_neg, mul_one, Real.sin_neg, hsin0, hS, hS', ha1]; ring
    · rw [hs, mul_one, hsin0, hS, hS', ha1]
    · rw [hs, mul_zero, Real.sin_zero, hS', hz0, zero_div, mul_zero]
  have hne : (⟨v.x, v.y⟩ : ℂ) ≠ 0 := by
    intro h; have := congrArg Complex.normSq h
    simp [Complex.normSq_mk] at this; linarith
  have habs : ‖(⟨v.x, v.y⟩ : ℂ)‖ = p := by rw [Complex.norm_def, Complex.normSq_mk]
  have hco : Real.cos (Complex.arg ⟨v.x, v.y⟩) = v.x / p := by rw [Complex.cos_arg hne, habs]
  have hso : Real.sin (Complex.arg ⟨v.x, v.y⟩) = v.y / p := by rw [Complex.sin_arg, habs]
  have hlat : (trs2llh E v).lat = Real.arctan (S / (q * C)) * signOf v.z := by
    simp only [trs2llh, latHeightOf, hoff, if_false, trig_atan, trig_sqrt, ← hpd, ← hsc, ht]
  have hlon : (trs2llh E v).lon = Complex.arg ⟨v.x, v.y⟩ := by simp only [trs2llh, trig_atan2]
  have hh : (trs2llh E v).h = 0 := by
    simp only [trs2llh, latHeightOf, hoff, if_false, trig_sqrt, ← hpd, ← hsc, h3]
  have key := surface_point_roundtrip E hf1 C S' (1 / D) (v.x / p) (v.y / p) hCS' (by positivity)
  simp only [llh2trs, trig_cos, trig_sin, hlat, hlon, hh, hcl, hsl, hco, hso]
  rw [← hqd] at key
  rw [key]
  apply V3.ext' <;> simp only [hC, hS'] <;> field_simp

/-- the registered table does contain such an ellipsoid (the hypotheses are satisfiable on the regenerated data) -/
example : ∃ e ∈ Midgard.Generated.Ellipsoids.table, e.2.fInv = none ∧ 0 < e.2.a := by decide +kernel

end Surface

/-! ## every height: sign of the latitude, longitude, special sets, and the round-trip error in closed form

Helpers in `Proofs/GeoAccuracy.lean`.  `Acc.Mild E` is `a > 0 ∧ 0 ≤ f ≤ 1/3` (all registered ellipsoids, see
`registered_ellipsoids_mild`); the hypothesis `hdeep` excludes only the ball of radius `e²(1−f)a` (≈ 43 km for the
Earth, 0 for the sphere) around the centre, where the published one-step scheme is singular. -/

section EveryHeight
open Midgard.Geo.Acc

/-- every registered ellipsoid satisfies the hypotheses of this section (exact rationals of the regenerated table) -/
theorem registered_ellipsoids_mild :
    ∀ r ∈ Midgard.Generated.Ellipsoids.table, 0 < r.2.a ∧ 0 ≤ r.2.f ∧ r.2.f ≤ 1 / 3 := by
  decide +kernel

/-- numerator and denominator of the one-step latitude are positive at every height -/
theorem halley_positive (E : Ellipsoid ℝ) (hE : Mild E) (p z : ℝ) (hp : 0 < p) (hz : 0 ≤ z)
    (hdeep : (E.e2 * (1 - E.f) * E.a) ^ 2 < (1 - E.f) ^ 2 * (p * p) + z * z) :
    0 < (halley E p z).2 ∧ 0 ≤ (halley E p z).1 ∧ (0 < z → 0 < (halley E p z).1) :=
  halley_pos E hE p z hp hz hdeep

/-- **southern / northern hemisphere and equator are exact in sign at every height**: the latitude returned by
`trs2llh` is positive for `z > 0`, negative for `z < 0`, exactly `0` for `z = 0`, and within `[−π/2, π/2]` — pole
branch and Halley branch alike -/
theorem lat_sign_every_height (E : Ellipsoid ℝ) (hE : Mild E) (v : V3 ℝ)
    (hdeep : (E.e2 * (1 - E.f) * E.a) ^ 2 < (1 - E.f) ^ 2 * (v.x * v.x + v.y * v.y) + v.z * v.z) :
    (0 < v.z → 0 < (trs2llh E v).lat ∧ (trs2llh E v).lat ≤ Real.pi / 2) ∧
    (v.z < 0 → (trs2llh E v).lat < 0 ∧ -(Real.pi / 2) ≤ (trs2llh E v).lat) ∧
    (v.z = 0 → (trs2llh E v).lat = 0) :=
  trs2llh_lat_sign E hE v hdeep

/-- the equatorial plane at every height: latitude `0`, height `p − a` -/
theorem equator_exact (E : Ellipsoid ℝ) (hE : Mild E) (x y : ℝ)
    (hoff : ¬ x * x + y * y ≤ E.a * E.a * 1e-32)
    (hdeep : (E.e2 * (1 - E.f) * E.a) ^ 2 < (1 - E.f) ^ 2 * (x * x + y * y)) :
    (trs2llh E ⟨x, y, 0⟩).lat = 0 ∧ (trs2llh E ⟨x, y, 0⟩).h = Real.sqrt (x * x + y * y) - E.a :=
  trs2llh_equator E hE x y hoff hdeep

/-- the ±180° meridian: longitude exactly `π`; and the longitude always lies in `(−π, π]` -/
theorem meridian180_exact (E : Ellipsoid ℝ) (x z : ℝ) (hx : x < 0) (v : V3 ℝ) :
    (trs2llh E ⟨x, 0, z⟩).lon = Real.pi ∧ -Real.pi < (trs2llh E v).lon ∧ (trs2llh E v).lon ≤ Real.pi :=
  ⟨trs2llh_meridian180 E x z hx, trs2llh_lon_range E v⟩

/-- **the longitude of the round trip `llh → trs → llh` is exact at every height** -/
theorem roundtrip_lon_exact (E : Ellipsoid ℝ) (ha : 0 < E.a) (hf0 : 0 ≤ E.f) (hf1 : E.f < 1) (g : LLH ℝ)
    (hlon : g.lon ∈ Set.Ioc (-Real.pi) Real.pi) (hcos : 0 < Real.cos g.lat) (hh : -E.a < g.h) :
    (trs2llh E (llh2trs E g)).lon = g.lon :=
  roundtrip_lon E ha hf0 hf1 g hlon hcos hh

/-- The round-trip error of the one-step scheme *in closed form* (the numeric bounds on `R` are `near_surface_accuracy`
and `far_field_accuracy` below) —
`llh2trs (trs2llh v) − v` is the vector `(x·k, y·k, −c)` whose length is exactly `|R|`,
`R = tangentialOffset E p z = (z·cc − p·s1)/D + e²·a·s1·cc/(D·W)` with `(s1, cc) = halley E p z`, `D = √(s1²+cc²)`,
`W = √((1−e²)s1²+cc²)`: the longitude and the height formula contribute no error at all, the whole error is the
tangential offset caused by the latitude error of the single Halley step.
The bounds `|R| < 1e-6` m for `|h| ≤ 100 km` and `|R| < 2e-3` m up to 50 000 km are the theorems `near_surface_accuracy` and
`far_field_accuracy`. -/
theorem roundtrip_error_closed_form (E : Ellipsoid ℝ) (hE : Mild E) (v : V3 ℝ)
    (hoff : ¬ v.x * v.x + v.y * v.y ≤ E.a * E.a * 1e-32) (hz : 0 < v.z)
    (hdeep : (E.e2 * (1 - E.f) * E.a) ^ 2 < (1 - E.f) ^ 2 * (v.x * v.x + v.y * v.y) + v.z * v.z) :
    ∃ k : ℝ, ∃ c : ℝ,
      llh2trs E (trs2llh E v) = ⟨v.x * (1 + k), v.y * (1 + k), v.z - c⟩ ∧
      (v.x * k) ^ 2 + (v.y * k) ^ 2 + c ^ 2 = (tangentialOffset E (Real.sqrt (v.x * v.x + v.y * v.y)) v.z) ^ 2 :=
  roundtrip_residual E hE v hoff hz hdeep

/-- the southern half space (`z < 0`), by `trs2llh_reflect_z`: the mirror image of `roundtrip_error_closed_form` — same `R`
(evaluated at `|z| = −z`), `z` component `v.z + c` -/
theorem roundtrip_error_south (E : Ellipsoid ℝ) (hE : Mild E) (v : V3 ℝ)
    (hoff : ¬ v.x * v.x + v.y * v.y ≤ E.a * E.a * 1e-32) (hz : v.z < 0)
    (hdeep : (E.e2 * (1 - E.f) * E.a) ^ 2 < (1 - E.f) ^ 2 * (v.x * v.x + v.y * v.y) + v.z * v.z) :
    ∃ k : ℝ, ∃ c : ℝ,
      llh2trs E (trs2llh E v) = ⟨v.x * (1 + k), v.y * (1 + k), v.z + c⟩ ∧
      (v.x * k) ^ 2 + (v.y * k) ^ 2 + c ^ 2 = (tangentialOffset E (Real.sqrt (v.x * v.x + v.y * v.y)) (-v.z)) ^ 2 :=
  roundtrip_residual_south E hE v hoff hz hdeep

/-- the equatorial plane: the round trip is the identity at every height (`R = 0` there) -/
theorem equator_roundtrip_exact (E : Ellipsoid ℝ) (hE : Mild E) (x y : ℝ)
    (hoff : ¬ x * x + y * y ≤ E.a * E.a * 1e-32)
    (hdeep : (E.e2 * (1 - E.f) * E.a) ^ 2 < (1 - E.f) ^ 2 * (x * x + y * y)) :
    llh2trs E (trs2llh E ⟨x, y, 0⟩) = ⟨x, y, 0⟩ :=
  equator_roundtrip E hE x y hoff hdeep

/-- `tangentialOffset` is the model function the driver executes (`c05 f toffset`), at `ℝ` -/
theorem tangentialOffset_is_model (E : Ellipsoid ℝ) (p z : ℝ) :
    tangentialOffset E p z = offsetAt E p z (halley E p z).1 (halley E p z).2 := rfl

/-- **the exact geodetic latitude is the zero of the tangential offset** (so `R` is nothing but the effect of the
latitude error of the one Halley step) -/
theorem offset_zero_at_true_latitude (E : Ellipsoid ℝ) (he0 : 0 ≤ E.e2) (he1 : E.e2 < 1) (s c h k : ℝ)
    (hsc : s ^ 2 + c ^ 2 = 1) (hk : 0 < k) :
    let N := E.a / Real.sqrt (1 - E.e2 * s ^ 2)
    offsetAt E ((N + h) * c) ((N * (1 - E.e2) + h) * s) (k * s) (k * c) = 0 :=
  offsetAt_true_latitude E he0 he1 s c h k hsc hk

/-- The start value: the start value `T₀ = s0/c0` of the scheme at the point with geodetic
`(φ, h)` differs from the exact tangent of the reduced latitude by exactly `e²·h·tan φ / (q·(N + h))`.
(The cubic convergence of the single Halley step from this start value is made explicit by `halley_third_order`; the
resulting numeric bounds are `near_surface_accuracy` and `far_field_accuracy`.) -/
theorem start_value_error_exact (a q N h s c : ℝ) (ha : a ≠ 0) (hq : q ≠ 0) (hc : c ≠ 0) (hNh : N + h ≠ 0) :
    ((N * q ^ 2 + h) * s / a) / (q * ((N + h) * c / a)) - q * (s / c) = (1 - q ^ 2) * h * s / (q * (N + h) * c) :=
  start_value_error a q N h s c ha hq hc hNh

/-- The Halley / third-order property, explicit.  With `P = p/a`, `S = |z|/a`, `q = √(1−e²)`,
`A = √(q²P² + S²)` (`A = q` exactly on the ellipsoid), `(s1, cc) = halley E p z`, `M = P·s1 − S·cc`, `W² = q²s1² + cc²`:
`(e²·s1·cc)² − M²·W² = −e¹⁰·P⁸·S⁴·(A − q)³·H(A, P, q)/16` with an explicit polynomial `H` (`Proofs/GeoThirdOrder.lean`,
cofactors found with sympy, checked by `ring`).  Since `R·D·W·(e²·s1·cc + M·W) = a·((e²·s1·cc)² − M²·W²)`
(definition of `tangentialOffset`, `W = √(…)`), the round-trip error `|R|` carries the factor `e¹⁰·(A − q)³`: it vanishes
to third order in the height-like quantity `A − q` and to high order in the eccentricity.
The numerical bounds derived from it: `near_surface_accuracy` (`< 1e-6 m`, `|h| ≤ 100 km`) and `far_field_accuracy`
(`< 2e-3 m`, up to 50 000 km); measured 6.5e-9 m / 1.1e-3 m. -/
theorem halley_third_order (E : Ellipsoid ℝ) (he1 : E.e2 ≤ 1) (p z : ℝ) :
    let q := Real.sqrt (1 - E.e2)
    let P := p / E.a
    let S := z / E.a
    let A := Real.sqrt (q * P * (q * P) + S * S)
    let sc := halley E p z
    (E.e2 * sc.1 * sc.2) ^ 2 - (P * sc.1 - S * sc.2) ^ 2 * (q ^ 2 * (sc.1 * sc.1) + sc.2 * sc.2)
      = -(E.e2 ^ 5 * P ^ 8 * (S * S) ^ 2 * (A - q) ^ 3 * HH A P q / 16) := by
  intro q P S A sc
  have hq2 : q ^ 2 = 1 - E.e2 := Real.sq_sqrt (by linarith)
  have hE : E.e2 = 1 - q ^ 2 := by linarith
  have hAA : A * A = q * P * (q * P) + S * S :=
    Real.mul_self_sqrt (by nlinarith [mul_self_nonneg (q * P), mul_self_nonneg S])
  obtain ⟨h1, h2⟩ := halley_as_cofactors q P S A E.e2
    (q * S * (A * A * A) + E.e2 * (S * S * S))
    (P * (A * A * A) - E.e2 * (q * P * (q * P) * (q * P)))
    (E.e2 * E.e2 * 1.5 * (S * S) * (q * P * (q * P)) * P * (A - q)) hAA hE rfl rfl rfl
  have hs1 : sc.1 = P * S * K1 A P q / 2 := h1
  have hcc : sc.2 = P ^ 2 * q * K2 A P q / 2 := h2
  have hM : P * sc.1 - S * sc.2 = (1 - q ^ 2) * P ^ 2 * S * K0 A P q / 2 := by
    rw [hs1, hcc]; exact M_as_cofactor q P S A
  have := third_order q P S A sc.1 sc.2 hAA hs1 hcc hM
  rw [← hE] at this
  exact this


/-- every registered ellipsoid is inside the parameter range of `near_surface_accuracy` -/
theorem registered_ellipsoids_in_range :
    ∀ r ∈ Midgard.Generated.Ellipsoids.table,
      6371000 ≤ r.2.a ∧ r.2.a ≤ 6378140 ∧ 0 ≤ r.2.e2 ∧ r.2.e2 ≤ 67 / 10000 := by
  decide +kernel

/-- **the accuracy clause near the surface, proved**: for every ellipsoid with `6 371 000 ≤ a ≤ 6 378 140 m` and
`0 ≤ e² ≤ 0.0067` (all registered ones: `registered_ellipsoids_in_range`), every geodetic latitude with
`s = sin φ ≥ 0`, `c = cos φ > 0` and every height `|h| ≤ 100 km`, the tangential offset `R` of the one-step algorithm at
the point `p = (N + h)c`, `z = (N(1 − e²) + h)s` is below `1e-6 m` — and `|R|` *is* the distance between
`llh2trs (trs2llh v)` and `v` (`roundtrip_error_closed_form`; southern hemisphere by `roundtrip_error_south`, the
equatorial plane and the pole branch are exact).  Exact real arithmetic; IEEE rounding stays measured.
The far clause is `far_field_accuracy`. -/
theorem near_surface_accuracy (E : Ellipsoid ℝ) (ha : 6371000 ≤ E.a) (ha' : E.a ≤ 6378140) (he0 : 0 ≤ E.e2)
    (he : E.e2 ≤ 0.0067) (s c h : ℝ) (hsc : s ^ 2 + c ^ 2 = 1) (hc : 0 < c) (hs : 0 ≤ s) (hh : |h| ≤ 100000) :
    |tangentialOffset E ((E.a / Real.sqrt (1 - E.e2 * s ^ 2) + h) * c)
        ((E.a / Real.sqrt (1 - E.e2 * s ^ 2) * (1 - E.e2) + h) * s)| < 1e-6 :=
  tangentialOffset_within_100km E ha ha' he0 he s c h hsc hc hs hh

/-- the same in the scheme's own normalised quantities: `|A − q| ≤ 0.0162` (`A = √(q²(p/a)² + (z/a)²)`, `q = √(1 − e²)`) -/
theorem near_surface_accuracy_box (E : Ellipsoid ℝ) (ha : 0 < E.a) (ha' : E.a ≤ 6378140) (he0 : 0 ≤ E.e2) (he : E.e2 ≤ 0.0067)
    (p z : ℝ) (hp : 0 < p) (hz : 0 ≤ z)
    (hnear : |Real.sqrt (Real.sqrt (1 - E.e2) * (p / E.a) * (Real.sqrt (1 - E.e2) * (p / E.a)) + z / E.a * (z / E.a))
              - Real.sqrt (1 - E.e2)| ≤ 0.0162) :
    |tangentialOffset E p z| < 1e-6 :=
  tangentialOffset_near E ha ha' he0 he p z hp hz hnear

/-- **the accuracy clause far from the surface, proved**: for every ellipsoid with `6 371 000 ≤ a ≤ 6 378 140 m`,
`0 ≤ e² ≤ 0.0067` (all registered ones), every latitude with `s = sin φ ≥ 0`, `c = cos φ > 0` and every height
`0 ≤ h ≤ 50 000 km` the tangential offset `R` — the round-trip error of the one-step algorithm in exact arithmetic
(`roundtrip_error_closed_form`) — is below `2 mm`.  (Heights `−100 km ≤ h < 0` are in `near_surface_accuracy`.)
Chain: third-order identity → `offset_core2` (Cauchy–Schwarz lower bound of `D·W`) → cofactor bounds in the scaled
variables `x = 1/A`, `t = P/A` on two altitude boxes (`A ∈ [1.0128, 4]`, `[4, 8.86]`) → a one-dimensional inequality in
`t` closed on 10 + 18 sub-intervals by `norm_num` (Proofs/GeoFar*.lean, generated with sympy). -/
theorem far_field_accuracy (E : Ellipsoid ℝ) (ha : 6371000 ≤ E.a) (ha' : E.a ≤ 6378140) (he0 : 0 ≤ E.e2)
    (he : E.e2 ≤ 0.0067) (s c h : ℝ) (hsc : s ^ 2 + c ^ 2 = 1) (hc : 0 < c) (hs : 0 ≤ s) (hh0 : 0 ≤ h) (hh1 : h ≤ 50000000) :
    |tangentialOffset E ((E.a / Real.sqrt (1 - E.e2 * s ^ 2) + h) * c)
        ((E.a / Real.sqrt (1 - E.e2 * s ^ 2) * (1 - E.e2) + h) * s)| < 2e-3 :=
  tangentialOffset_nonneg_height E ha ha' he0 he s c h hsc hc hs hh0 hh1

/-- the same in the scheme's normalised quantities: `1.0128 ≤ A ≤ 8.86` -/
theorem far_field_accuracy_box (E : Ellipsoid ℝ) (ha : 0 < E.a) (ha' : E.a ≤ 6378140) (he0 : 0 ≤ E.e2) (he : E.e2 ≤ 0.0067)
    (p z : ℝ) (hp : 0 < p) (hz : 0 ≤ z)
    (hAlo : 1.0128 ≤ Real.sqrt (Real.sqrt (1 - E.e2) * (p / E.a) * (Real.sqrt (1 - E.e2) * (p / E.a)) + z / E.a * (z / E.a)))
    (hAhi : Real.sqrt (Real.sqrt (1 - E.e2) * (p / E.a) * (Real.sqrt (1 - E.e2) * (p / E.a)) + z / E.a * (z / E.a)) ≤ 8.86) :
    |tangentialOffset E p z| < 2e-3 :=
  tangentialOffset_far E ha ha' he0 he p z hp hz hAlo hAhi

/-- the hypotheses are satisfiable (GRS80-like numbers, φ = 0.6435…: s = 3/5, c = 4/5, h = 50 km) -/
example : ((3:ℝ) / 5) ^ 2 + (4 / 5) ^ 2 = 1 ∧ |(50000 : ℝ)| ≤ 100000 := by
  constructor
  · norm_num
  · rw [abs_of_pos (by norm_num)]; norm_num

/-- the hypotheses are satisfiable: the unit sphere, the point (1, 0, 1) -/
example : Mild (⟨1, none⟩ : Ellipsoid ℝ) ∧
    ((⟨1, none⟩ : Ellipsoid ℝ).e2 * (1 - (⟨1, none⟩ : Ellipsoid ℝ).f) * 1) ^ 2
      < (1 - (⟨1, none⟩ : Ellipsoid ℝ).f) ^ 2 * ((1:ℝ) * 1 + 0 * 0) + 1 * 1 := by
  refine ⟨⟨by norm_num, by simp [Ellipsoid.f], by simp [Ellipsoid.f]⟩, ?_⟩
  simp [Ellipsoid.e2, Ellipsoid.b, Ellipsoid.f]

end EveryHeight

/-! ## the ellipsoid attribute flow -/

section Flow

theorem resolve_subset (tbl : List Site) (c : PCls) (m : String) (s : Site)
    (hs : s ∈ resolve tbl c m) : s ∈ tbl := by
  unfold resolve at hs
  cases c with
  | position => exact (List.mem_filter.mp hs).1
  | posvel =>
    by_cases hE : (sitesOf tbl "PosVelArray" m).isEmpty = true
    · simp only [hE, if_true] at hs; exact (List.mem_filter.mp hs).1
    · simp only [hE] at hs; exact (List.mem_filter.mp hs).1

theorem step_keeps (tbl : List Site) (h : ∀ s ∈ tbl, s.fwd = Fwd.keep) (p : PosTag) (o : Op) :
    (step tbl p o).ell = p.ell := by
  unfold step
  by_cases ha : o.applies p.cls
  · simp only [ha, Bool.not_true, Bool.false_eq_true, if_false]
    cases hm : o.method with
    | none => rfl
    | some m =>
      have hall : (resolve tbl p.cls m).all (fun s => s.fwd == Fwd.keep) = true := by
        rw [List.all_eq_true]
        intro s hs
        simp [h s (resolve_subset tbl p.cls m s hs)]
      simp only [hall, if_true]
  · simp [ha]

/-- **ell_flow**: if every constructor call forwards the ellipsoid, every operation sequence keeps
the ellipsoid the position was created with -/
theorem ell_flow (tbl : List Site) (h : ∀ s ∈ tbl, s.fwd = Fwd.keep) :
    ∀ (ops : List Op) (p : PosTag), (run tbl p ops).ell = p.ell := by
  intro ops
  induction ops with
  | nil => intro p; rfl
  | cons o os ih =>
    intro p
    simp only [run]
    rw [ih (step tbl p o), step_keeps tbl h p o]

/-- … and every conversion of the sequence is evaluated on that ellipsoid: a round trip is never
evaluated on two different ellipsoids -/
theorem conversions_on_creation_ellipsoid (tbl : List Site) (h : ∀ s ∈ tbl, s.fwd = Fwd.keep) :
    ∀ (ops : List Op) (p : PosTag), ∀ e ∈ convertedOn tbl p ops, e = p.ell := by
  intro ops
  induction ops with
  | nil => intro p e he; simp [convertedOn] at he
  | cons o os ih =>
    intro p e he
    simp only [convertedOn, List.mem_append] at he
    rcases he with he | he
    · split at he
      · simpa using he
      · simp at he
    · have := ih (step tbl p o) e he
      rw [this, step_keeps tbl h p o]

/-- the hypothesis of `ell_flow`, decided on the table regenerated from `_position.py` on every
run: every constructor call of a position object inside `PositionArray` / `PosVelArray` forwards
`ellipsoid`, and `__array_finalize__` copies it -/
theorem sites_forward :
    (∀ s ∈ Midgard.Generated.EllipsoidFlow.sites, s.fwd = Fwd.keep) ∧
    Midgard.Generated.EllipsoidFlow.finalizeCopies = true := by
  decide +kernel

/-- the table is not vacuous: every operation of the machine resolves to at least one extracted
constructor call on each class it applies to -/
theorem sites_cover_ops :
    ∀ c ∈ [PCls.position, PCls.posvel],
    ∀ o ∈ [Op.convert, Op.sliceRow, Op.subset, Op.addDelta, Op.deepcopy, Op.posOf, Op.emptyFrom, Op.insert],
      o.applies c = true →
      ∀ m ∈ o.method, (resolve Midgard.Generated.EllipsoidFlow.sites c m).isEmpty = false := by
  decide +kernel

/-- the property's second half for midgard as it is: through every conversion, slice, subset,
arithmetic result and copy a position keeps the ellipsoid it was created with -/
theorem ell_flow_midgard (ops : List Op) (p : PosTag) :
    (run Midgard.Generated.EllipsoidFlow.sites p ops).ell = p.ell ∧
    ∀ e ∈ convertedOn Midgard.Generated.EllipsoidFlow.sites p ops, e = p.ell :=
  ⟨ell_flow _ sites_forward.1 ops p, conversions_on_creation_ellipsoid _ sites_forward.1 ops p⟩

end Flow

/-! ## arithmetic: which operand a sum / difference takes its ellipsoid from

`Generated/EllipsoidArith.lean` is the `isinstance` chain of every binary operator of the four position classes and
the factories they call, read off `_position.py` on every run (`translator/extract_c05.py`); `binop` evaluates an
operation over those tables with Python's operator protocol.  `arith_spec`: for operands of one family the result is
what the property asks — a position result is on the ellipsoid of the *position operand* in every operand order,
whatever ellipsoid the difference's `ref_pos` lives on. -/

section Arith
open Midgard.Generated.EllipsoidArith

theorem arith_spec (plus : Bool) (l r : Operand) :
    wellTyped l r = true → binop branches factories plus true l r = specBinop plus l r := by
  rcases l with ⟨⟨lc, le⟩⟩ | ⟨lc, ⟨lrc, lre⟩⟩ <;> rcases r with ⟨⟨rc, re⟩⟩ | ⟨rc, ⟨rrc, rre⟩⟩
  · cases plus <;> cases lc <;> cases rc <;> (intro h; first | exact Bool.noConfusion h | rfl)
  · cases plus <;> cases lc <;> cases rc <;> cases rrc <;> (intro h; first | exact Bool.noConfusion h | rfl)
  · cases plus <;> cases lc <;> cases rc <;> cases lrc <;> (intro h; first | exact Bool.noConfusion h | rfl)
  · cases plus <;> cases lc <;> cases rc <;> cases lrc <;> cases rrc <;> (intro h; first | exact Bool.noConfusion h | rfl)

theorem arith_other_system (plus : Bool) (l r : Operand) :
    wellTyped l r = true → binop branches factories plus false l r = .typeError := by
  rcases l with ⟨⟨lc, le⟩⟩ | ⟨lc, ⟨lrc, lre⟩⟩ <;> rcases r with ⟨⟨rc, re⟩⟩ | ⟨rc, ⟨rrc, rre⟩⟩
  · cases plus <;> cases lc <;> cases rc <;> (intro h; first | exact Bool.noConfusion h | rfl)
  · cases plus <;> cases lc <;> cases rc <;> cases rrc <;> (intro h; first | exact Bool.noConfusion h | rfl)
  · cases plus <;> cases lc <;> cases rc <;> cases lrc <;> (intro h; first | exact Bool.noConfusion h | rfl)
  · cases plus <;> cases lc <;> cases rc <;> cases lrc <;> cases rrc <;> (intro h; first | exact Bool.noConfusion h | rfl)

/-- `pos ± delta` is a position on the ellipsoid of `pos`, wherever the difference's `ref_pos` lives -/
theorem pos_pm_delta (plus : Bool) (p : PosPart) (c : ACls) (ref : PosPart)
    (h : wellTyped (.pos p) (.delta c ref) = true) :
    binop branches factories plus true (.pos p) (.delta c ref) = .value (.pos p) (.lr plus) := by
  rw [arith_spec _ _ _ h]; rfl

/-- `delta ± pos` (the difference on the *left*) is a position on the ellipsoid of `pos` -/
theorem delta_pm_pos (plus : Bool) (p : PosPart) (c : ACls) (ref : PosPart)
    (h : wellTyped (.delta c ref) (.pos p) = true) :
    binop branches factories plus true (.delta c ref) (.pos p) = .value (.pos p) (.lr plus) := by
  rw [arith_spec _ _ _ h]; rfl

/-- `pos − pos` is a difference whose `ref_pos` is the left position (with its ellipsoid); `pos + pos` is a TypeError -/
theorem pos_minus_pos (p q : PosPart) (h : wellTyped (.pos p) (.pos q) = true) :
    binop branches factories false true (.pos p) (.pos q) = .value (.delta p.cls.deltaOf p) (.lr false) ∧
    binop branches factories true true (.pos p) (.pos q) = .typeError := by
  rw [arith_spec _ _ _ h, arith_spec _ _ _ h]; exact ⟨rfl, rfl⟩

/-- `delta ± delta` refers to what the left difference referred to -/
theorem delta_pm_delta (plus : Bool) (c d : ACls) (ref ref' : PosPart)
    (h : wellTyped (.delta c ref) (.delta d ref') = true) :
    binop branches factories plus true (.delta c ref) (.delta d ref') = .value (.delta d ref) (.lr plus) := by
  rw [arith_spec _ _ _ h]; rfl

theorem hstep_keeps (sites : List Site) (hs : ∀ s ∈ sites, s.fwd = Fwd.keep) (p : PosTag) (o : HOp) :
    ∃ q, hstep sites branches factories p o = some q ∧ q.ell = tagAfter p.ell [o] := by
  cases o with
  | un o => exact ⟨_, rfl, step_keeps sites hs p o⟩
  | withDelta plus deltaLeft ref =>
    rcases p with ⟨c, e⟩
    refine ⟨⟨c, e⟩, ?_, rfl⟩
    simp only [hstep]
    cases deltaLeft
    · rw [if_neg (by decide), arith_spec _ _ _ (by cases c <;> rfl)]
      cases c <;> rfl
    · rw [if_pos rfl, arith_spec _ _ _ (by cases c <;> rfl)]
      cases c <;> rfl
  | retag e => exact ⟨_, rfl, rfl⟩
  | poke => exact ⟨_, rfl, rfl⟩

theorem tagAfter_cons (e : Option Nat) (o : HOp) (os : List HOp) : tagAfter e (o :: os) = tagAfter (tagAfter e [o]) os := by
  cases o <;> rfl

/-- **every history keeps the ellipsoid**: through every sequence of conversions / slices / subsets / copies, sums and
differences with differences that refer to positions on arbitrary other ellipsoids (standing on either side), item
assignments and explicit re-tags `pos.ellipsoid = E'`, a position is on the ellipsoid it was created with or that was
assigned last (and no step of such a history fails) -/
theorem history_keeps_ellipsoid (sites : List Site) (hs : ∀ s ∈ sites, s.fwd = Fwd.keep) :
    ∀ (ops : List HOp) (p : PosTag), ∃ q, hrun sites branches factories p ops = some q ∧ q.ell = tagAfter p.ell ops := by
  intro ops
  induction ops with
  | nil => intro p; exact ⟨p, rfl, rfl⟩
  | cons o os ih =>
    intro p
    obtain ⟨q, hq, he⟩ := hstep_keeps sites hs p o
    obtain ⟨q', hq', he'⟩ := ih q
    exact ⟨q', by simp only [hrun, hq, hq'], by rw [he', he, ← tagAfter_cons]⟩

/-- … for midgard as it is (tables regenerated from `_position.py`) -/
theorem history_keeps_ellipsoid_midgard (ops : List HOp) (p : PosTag) :
    ∃ q, hrun Midgard.Generated.EllipsoidFlow.sites branches factories p ops = some q ∧ q.ell = tagAfter p.ell ops :=
  history_keeps_ellipsoid _ sites_forward.1 ops p

/-- `PosBase.__setattr__` / `__setitem__` drop the cached conversions on every attribute / item assignment (read off the
source on every run) -/
theorem assignments_clear_cache : setattrClearsCache = true ∧ setitemClearsCache = true := by decide

/-- **no conversion is answered from a stale cache**: with the invalidation above, in every history every conversion is
answered on the ellipsoid the object carries at that moment (created with, or assigned last) and from its current values —
also for *convert, re-tag, convert again* and *convert, write into the position, convert again* -/
theorem answers_current (sites : List Site) :
    ∀ (ops : List HOp) (p : PosTag),
      ∀ a ∈ hanswered sites branches factories setattrClearsCache setitemClearsCache p none ops, a.on = a.tag ∧ a.current = true := by
  rw [assignments_clear_cache.1, assignments_clear_cache.2]
  intro ops
  induction ops with
  | nil => intro p a ha; simp [hanswered] at ha
  | cons o os ih =>
    intro p a ha
    unfold hanswered at ha
    cases hst : hstep sites branches factories p o with
    | none => simp [hst] at ha
    | some p' =>
      simp only [hst] at ha
      cases o with
      | un u =>
        cases u <;> simp only [List.mem_cons] at ha <;>
          first
            | exact ih p' a ha
            | (rcases ha with rfl | ha
               · exact ⟨rfl, rfl⟩
               · exact ih p' a ha)
      | withDelta _ _ _ => exact ih p' a ha
      | retag _ => simpa using ih p' a (by simpa using ha)
      | poke => simpa using ih p' a (by simpa using ha)

/-- the constructor calls *outside* `_position.py` (fieldtypes `_prepend_empty` / `_append_empty`, dataset, math — table
regenerated on every run): none builds a position from a position without forwarding `ellipsoid`, and the fieldtype
sites are there (the table is not vacuous) -/
theorem external_sites_forward :
    (∀ s ∈ externalSites, s.2.2 = ExtFwd.keep ∨ s.2.2 = ExtFwd.fresh) ∧
    (externalSites.filter (fun s => s.2.2 == ExtFwd.keep)).length ≥ 4 := by
  decide +kernel

/-- `x += d`, `x -= d` are `x + d`, `x - d` (PosBase) -/
theorem inplace_delegates : inplaceDelegates = true := by decide

/-- the hypotheses are satisfiable: a position on ellipsoid 1 and a difference that refers to a position on ellipsoid 6 -/
example : wellTyped (.pos ⟨.position, some 1⟩) (.delta .posDelta ⟨.position, some 6⟩) = true ∧
    binop branches factories true true (.delta .posDelta ⟨.position, some 6⟩) (.pos ⟨.position, some 1⟩)
      = .value (.pos ⟨.position, some 1⟩) (.lr true) := by decide

end Arith


/-! ### The model is the source (regenerated on every run)

`Generated/SourceExprs.lean` is written by `translator/extract_exprs.py` from the Python `ast` of the tree under
test: the arithmetic of the functions named below, statement by statement.  The theorems of this section say that the
hand-written model definitions every other theorem of this file is about are, over the reals, *equal* to those
regenerated definitions (composed with the hand-modelled branch selection where the source has control flow).  A
change of the source arithmetic therefore breaks one of these (unless it is an algebraic identity over ℝ, which the
fallback of the `src_tie` tactic — unfold, compare component by component with `ring_nf` — accepts). -/
section Source
open Midgard.Generated
set_option linter.unusedTactic false
set_option linter.unreachableTactic false
set_option linter.unusedSimpArgs false
set_option linter.unnecessarySeqFocus false

theorem source_ellipsoid_parameters (E : Ellipsoid ℝ) :
    Src.ellBsrc E.a E.f = E.b ∧ Src.ellE2src E.a E.b = E.e2 ∧ Src.ellEpsSrc E.e2 = E.eps := by
  refine ⟨?_, ?_, ?_⟩ <;> src_tie [Src.ellBsrc, Src.ellE2src, Src.ellEpsSrc, Ellipsoid.b, Ellipsoid.e2, Ellipsoid.eps]
theorem source_llh2trs (E : Ellipsoid ℝ) (cl sl co so h : ℝ) :
    llh2trsCS E cl sl co so h =
      (let t := Src.llh2trsSrc E.a E.f cl sl co so h; (⟨t.1, t.2.1, t.2.2⟩ : V3 ℝ)) := by
  src_tie [Src.llh2trsSrc, llh2trsCS]
theorem source_trs2llh (E : Ellipsoid ℝ) (v : V3 ℝ) :
    trs2llh E v =
      (let p2 := Src.p2Src v.x v.y
       let absz := absOf v.z
       let lh : ℝ × ℝ :=
         if Src.poleTestSrc E.a p2 = true then (Trig.pi / (1 + 1), absz - E.b)
         else
           let p := Trig.sqrt p2
           let sc := Src.halleySrc E.a E.e2 p absz
           (Src.halleyLatSrc sc.1 sc.2, Src.halleyHeightSrc E.a E.e2 p absz sc.1 sc.2)
       (⟨lh.1 * signOf v.z, Src.lonSrc v.x v.y, lh.2⟩ : LLH ℝ)) := by
  have hs : ∀ p z : ℝ, Src.halleySrc E.a E.e2 p z = halley E p z := by
    intro p z; src_tie [Src.halleySrc, halley]
  have hh : ∀ p z s1 cc : ℝ, Src.halleyHeightSrc E.a E.e2 p z s1 cc = halleyHeight E p z s1 cc := by
    intro p z s1 cc; src_tie [Src.halleyHeightSrc, halleyHeight]
  have hl : ∀ s1 cc : ℝ, Src.halleyLatSrc s1 cc = Trig.atan (s1 / cc) := by
    intro s1 cc; src_tie [Src.halleyLatSrc]
  have hp : ∀ x y : ℝ, Src.p2Src x y = x * x + y * y := by
    intro x y; src_tie [Src.p2Src]
  have ho : ∀ x y : ℝ, Src.lonSrc x y = Trig.atan2 y x := by
    intro x y; src_tie [Src.lonSrc]
  have ht : ∀ p2 : ℝ, (Src.poleTestSrc E.a p2 = true) ↔ p2 ≤ E.a * E.a * 1e-32 := by
    intro p2
    first
      | (simp only [Src.poleTestSrc, decide_eq_true_eq])
      | (simp only [Src.poleTestSrc, decide_eq_true_eq]; constructor <;> intro h <;> (first | linarith | nlinarith))
  simp only [hs, hh, hl, hp, ho]
  unfold trs2llh latHeightOf
  by_cases h : v.x * v.x + v.y * v.y ≤ E.a * E.a * 1e-32
  · simp [h, (ht _).2 h]
  · have h' : ¬ (Src.poleTestSrc E.a (v.x * v.x + v.y * v.y) = true) := fun c => h ((ht _).1 c)
    simp [h, h']


/-! ### the selection between pole branch and Halley branch is the source's

`Generated/TrsSelect.lean`: the statements of `_trs2llh` that store into `lat` / `height` (boolean-mask assignments for
arrays, `if pole_idx … else …` for a single position, then `lat *= np.sign(z)`), read off the `ast` on every run by
`translator/extract_c05.py`.  `trs2llhVia prog` runs them per row (the driver does, for the shape at hand); both
programs give the hand-written `trs2llh`, no statement is outside the extractor's fragment, the result columns are
`(lat, lon, height)`. -/
theorem source_branch_selection (E : Ellipsoid ℝ) (v : V3 ℝ) :
    trs2llhVia Midgard.Generated.TrsSelect.prog2d E v = trs2llh E v ∧ trs2llhVia Midgard.Generated.TrsSelect.prog1d E v = trs2llh E v ∧
    selKnown Midgard.Generated.TrsSelect.prog2d = true ∧ selKnown Midgard.Generated.TrsSelect.prog1d = true ∧
    Midgard.Generated.TrsSelect.stackOrder = ["lat", "lon", "height"] ∧ Midgard.Generated.TrsSelect.piIsPi = true := by
  refine ⟨?_, ?_, by decide, by decide, by decide, by decide⟩ <;>
  · unfold trs2llhVia trs2llh latHeightOf
    by_cases h : v.x * v.x + v.y * v.y ≤ E.a * E.a * 1e-32
    · simp [h, runSel, Midgard.Generated.TrsSelect.prog2d, Midgard.Generated.TrsSelect.prog1d, SelMask.holds]
    · simp [h, runSel, Midgard.Generated.TrsSelect.prog2d, Midgard.Generated.TrsSelect.prog1d, SelMask.holds]

/-- **the explicit `ellipsoid=` argument decides** in the public wrappers `transformation.trs2llh` / `llh2trs` (rule
regenerated from their source): given, it is used whatever the array argument carries; not given, the ellipsoid carried
by a position argument is used; for a plain array the default (GRS80); and the kernel is called with the resolved one -/
theorem explicit_ellipsoid_decides :
    (∀ order ∈ [Midgard.Generated.TrsSelect.resolveTrs2llh, Midgard.Generated.TrsSelect.resolveLlh2trs],
      (∀ e c, resolveEllipsoid order (some e) c = some e) ∧
      (∀ c, resolveEllipsoid order none (some c) = some c) ∧
      resolveEllipsoid order none none = some defaultEll) ∧
    Midgard.Generated.TrsSelect.kernelGetsResolved = true := by
  refine ⟨?_, by decide⟩
  intro order ho
  simp only [List.mem_cons, List.mem_nil_iff, or_false] at ho
  rcases ho with rfl | rfl <;> exact ⟨fun _ _ => rfl, fun _ => rfl, rfl⟩

theorem delta_empty_from_forwards :
    (∀ s ∈ Midgard.Generated.EllipsoidArith.deltaEmptyFrom, s.2 = ExtFwd.keep) ∧ Midgard.Generated.EllipsoidArith.deltaEmptyFrom ≠ [] := by decide

end Source

end Midgard.Props.C05

#print axioms Midgard.Props.C05.ellipsoid_params
#print axioms Midgard.Props.C05.flattening
#print axioms Midgard.Props.C05.sphere_f_zero
#print axioms Midgard.Props.C05.registered_ellipsoids_wellformed
#print axioms Midgard.Props.C05.radicand_pos
#print axioms Midgard.Props.C05.llh2trs_normal
#print axioms Midgard.Props.C05.normal_unit
#print axioms Midgard.Props.C05.foot_on_ellipsoid
#print axioms Midgard.Props.C05.normal_parallel_gradient
#print axioms Midgard.Props.C05.normal_outward
#print axioms Midgard.Props.C05.trs2llh_lon
#print axioms Midgard.Props.C05.trs2llh_rot_z
#print axioms Midgard.Props.C05.absOf_neg
#print axioms Midgard.Props.C05.signOf_neg
#print axioms Midgard.Props.C05.trs2llh_reflect_z
#print axioms Midgard.Props.C05.trs2llh_pole
#print axioms Midgard.Props.C05.pole_roundtrip
#print axioms Midgard.Props.C05.halley_exact_on_surface
#print axioms Midgard.Props.C05.surface_point_roundtrip
#print axioms Midgard.Props.C05.resolve_subset
#print axioms Midgard.Props.C05.step_keeps
#print axioms Midgard.Props.C05.ell_flow
#print axioms Midgard.Props.C05.conversions_on_creation_ellipsoid
#print axioms Midgard.Props.C05.sites_forward
#print axioms Midgard.Props.C05.sites_cover_ops
#print axioms Midgard.Props.C05.ell_flow_midgard
#print axioms Midgard.Props.C05.source_ellipsoid_parameters
#print axioms Midgard.Props.C05.source_llh2trs
#print axioms Midgard.Props.C05.source_trs2llh
#print axioms Midgard.Props.C05.halley_exact_on_sphere
#print axioms Midgard.Props.C05.sphere_roundtrip
#print axioms Midgard.Props.C05.surface_roundtrip
#print axioms Midgard.Props.C05.arith_spec
#print axioms Midgard.Props.C05.arith_other_system
#print axioms Midgard.Props.C05.pos_pm_delta
#print axioms Midgard.Props.C05.delta_pm_pos
#print axioms Midgard.Props.C05.pos_minus_pos
#print axioms Midgard.Props.C05.delta_pm_delta
#print axioms Midgard.Props.C05.hstep_keeps
#print axioms Midgard.Props.C05.history_keeps_ellipsoid
#print axioms Midgard.Props.C05.history_keeps_ellipsoid_midgard
#print axioms Midgard.Props.C05.inplace_delegates
#print axioms Midgard.Props.C05.registered_ellipsoids_mild
#print axioms Midgard.Props.C05.halley_positive
#print axioms Midgard.Props.C05.lat_sign_every_height
#print axioms Midgard.Props.C05.equator_exact
#print axioms Midgard.Props.C05.meridian180_exact
#print axioms Midgard.Props.C05.roundtrip_lon_exact
#print axioms Midgard.Props.C05.roundtrip_error_closed_form
#print axioms Midgard.Props.C05.external_sites_forward
#print axioms Midgard.Props.C05.roundtrip_error_south
#print axioms Midgard.Props.C05.equator_roundtrip_exact
#print axioms Midgard.Props.C05.tangentialOffset_is_model
#print axioms Midgard.Props.C05.offset_zero_at_true_latitude
#print axioms Midgard.Props.C05.start_value_error_exact
#print axioms Midgard.Props.C05.source_branch_selection
#print axioms Midgard.Props.C05.delta_empty_from_forwards
#print axioms Midgard.Props.C05.halley_third_order
#print axioms Midgard.Props.C05.explicit_ellipsoid_decides
#print axioms Midgard.Props.C05.registered_ellipsoids_in_range
#print axioms Midgard.Props.C05.near_surface_accuracy
#print axioms Midgard.Props.C05.near_surface_accuracy_box
#print axioms Midgard.Props.C05.far_field_accuracy
#print axioms Midgard.Props.C05.far_field_accuracy_box
#print axioms Midgard.Props.C05.tagAfter_cons
#print axioms Midgard.Props.C05.assignments_clear_cache
#print axioms Midgard.Props.C05.answers_current
