/-
C10 — Writing a Dataset to disk and reading it back is the identity.

Property theorems about `Model/H5Attr.lean` (the attribute codec) and `Model/H5Dataset.lean` (write /
read over an abstract tree of HDF5 groups with the two memos `id ↦ field name`, `field name ↦ object`).

Proved, for all inputs:
* `decode_encode`        the codec is the identity on every meta tree that can be saved (dicts, lists,
                         tuples, sets, strings, numbers, booleans, None, NaN, ±inf, any nesting);
                         `savable`, `strings_untouched`.
* `read_write`           for every heap `h`, dataset `d` and level `ℓ` with `WritableS h d ℓ` (a decidable
                         predicate, `Model/H5Dataset.lean`; the driver evaluates it on every generated
                         dataset; since the `fix:` 3c88b93 it no longer asks for pairwise different array
                         objects: one array may be held by several fields): `writeDS` succeeds and `readBack` of the
                         file is `restrict d ℓ` — same `num_obs`, same fields in the same order with the same names,
                         types, units, write levels, declared lengths and nested collections at any depth —
                         over a heap in which the array objects are renumbered by a map `φ` that is injective
                         on the reachable objects and maps each of them to an object of the same kind, shape
                         and rows whose `other` / `ref_pos` is the image of the old one (`Obj.rename φ`).
                         The renumbering is the model's `id()`: object numbers are allocation order.
* `field_sharing_restored`  two fields (any paths) hold one array object after the read iff they did before.
* `refs_restored`        field `p`'s attached object *is* field `q` after the read iff it was before (any
                         two paths: earlier / later field, field in a collection at any depth);
  `sharing_restored`     two fields share one attached object after the read iff they did before (an
                         anonymous attachment stays one object when shared, two objects stay two);
  `refs_restored_chains` the same for every reachable object (attachments of attachments, to any depth):
                         its reference is the image of the old one, and an attached object is the array of
                         the field at path `q` after iff before (so an anonymous one stays anonymous).
* `omitted_iff_below_level`  `dset[path]` exists after the read iff it existed and the field and every
                         collection around it has write level ≥ ℓ (at every nesting depth);
  `level_filter(_nested)`, `restricted_fields_have_level`: the file side of the same fact.
* `array_bit_identical`, `units_identical`: the per-array / per-attribute parts (kept from before).
Not covered by `WritableS` (so outside the theorems): attachments of the plain classes, cyclic references, a delta
without `ref_pos`, the user-registered `time` attribute.  (`Writable` is `WritableS` plus "pairwise different array
objects": the hypothesis of the theorems before the generalisation; kept for the coverage counts.)
-/
import Midgard.Proofs.H5Attr
import Midgard.Proofs.H5AttrText
import Midgard.Proofs.H5Dataset
import Midgard.Proofs.H5Refs
import Midgard.Proofs.H5Meta
import Midgard.Proofs.H5Bits
import Midgard.Proofs.H5Alias
import Midgard.Proofs.H5R2Fields
import Midgard.Proofs.H5Time
import Midgard.Proofs.H5XRound

namespace Midgard.Props.C10
open Midgard.H5Attr Midgard.H5 Midgard.Dataset

/-! ### the attribute codec -/

/-- `decode_h5attr (encode_h5attr m) = m` for every meta tree that can be saved -/
theorem decode_encode (m : Meta) (a : Attr) (h : encode m = some a) : decode a = some m :=
  Midgard.H5Attr.decode_encode m a h

/-- only a bare `None` cannot be saved -/
theorem savable (m : Meta) (h : m ≠ .atom .none) : (encode m).isSome = true := encode_isSome m h

/-- strings are opaque to the codec: a string is stored and returned as it is, also when it spells
`nan`, `inf` or a Python literal (the code as it was rewrote these words with a regular expression) -/
theorem strings_untouched (s : String) :
    (encode (.atom (.str s))).bind decode = some (.atom (.str s)) ∧
    (encode (.list [.atom (.str s), .atom .nan])).bind decode = some (.list [.atom (.str s), .atom .nan]) := by
  constructor
  · simp [encode, decode]
  · simp only [encode, Option.bind_some, decode]
    exact evalAst_toAst _

/-- **the codec at the level of the stored text**: `"<tag> " + str(data)` / `"str " + data`, split again at the first blank
(`attr.partition(" ")`), the empty-container spellings (`if not attr or attr == "<tag>()"`), a text whose first word is no
tag returned as it is — `decodeText (encodeText m) = m` for every meta tree that can be saved, given that CPython's `str()`
and `ast.parse` are inverse on literals (`Printer`: the trusted part, now a hypothesis) -/
theorem text_decode_encode {render : Ast → List Char} {parse : List Char → Option Ast} (P : Printer render parse)
    (m : Meta) (a : TAttr) (h : encodeText render m = some a) : decodeText parse a = some m :=
  decodeText_encodeText P m a h

/-- why strings carry the prefix whatever they spell: the bare texts `list`, `set`, `str` would be decoded as an empty list,
an empty set, an empty string; with the prefix the words come back as they were -/
example : dispatchText "list".toList = .empty "list" ∧ dispatchText "set".toList = .empty "set" ∧
    dispatchText "str".toList = .str [] ∧ dispatchText "str list".toList = .str "list".toList ∧
    dispatchText "nan inf".toList = .str "nan inf".toList := by decide

/-! ### the store -/

/-- "Fields below the requested write level, and only those, are omitted": the file written for a
dataset lists, in order, exactly the fields of `restrict d ℓ`, with their types -/
theorem level_filter (h : Heap) (d : DS) (lvl : Nat) (file : File) (hw : writeDS h d lvl = .ok file) :
    file.numObs = d.numObs ∧
    file.members = (restrictFields lvl d.fields).map (fun f => (f.name, fieldType f)) ∧
    file.groups.map (·.1) = (restrictFields lvl d.fields).map Field.name :=
  writeDS_members h d lvl file hw

/-- the same inside every collection -/
theorem level_filter_nested (h : Heap) (lvl : Nat) (fs : List Field) (pre : Path) (memo : WMemo)
    (groups : List (String × Grp)) (mem : List (String × Option Kind)) (memo' : WMemo)
    (hw : writeField.writeFields h lvl fs pre memo = .ok (groups, mem, memo')) :
    groups.map (·.1) = (restrictFields lvl fs).map Field.name ∧
    mem = (restrictFields lvl fs).map (fun f => (f.name, fieldType f)) :=
  writeFields_names h lvl fs pre memo groups mem memo' hw

/-- every field of `restrict d ℓ` has level ≥ ℓ -/
theorem restricted_fields_have_level (lvl : Nat) (fs : List Field) :
    ∀ f ∈ restrictFields lvl fs, lvl ≤ Midgard.H5.Field.level f :=
  restrict_level lvl fs

/-- an array without references is read back bit for bit -/
theorem array_bit_identical (h : Heap) (u : Option (List String)) (l : Nat) (file : File) (o : Nat) (ob : Obj) (p : Path) (wm : WMemo)
    (g : Grp) (wm' : WMemo) (fw fr : Nat) (s : RSt)
    (hob : h[o]? = some ob) (hk : attrName ob.kind = none)
    (hw : writeArr h u l (fw + 1) o p wm = .ok (g, wm')) :
    wm' = wm ∧ g.attrs.fieldname = p ∧
    ∃ s', readArr file (fr + 1) g s = .ok (s.heap.length, s') ∧ s'.heap = s.heap ++ [ob.strip] :=
  readArr_writeArr h u l file o ob p wm g wm' fw fr s hob hk hw

/-- units: `None ↔ ""`, a real unit tuple as it is -/
theorem units_identical (u : Option (List String)) (hu : ∀ us, u = some us → us.any (fun x => !x.isEmpty) = true) :
    readUnit u = u := readUnit_id u hu

/-! ### the whole dataset -/

/-- **`read (write d ℓ) = restrict d ℓ`**, up to the numbering `φ` of the array objects (`id()` in the
code): the write succeeds; the read gives the declared number of observations and exactly the fields of
`restrict d ℓ` (order, names, types, units, levels, lengths, nesting) with every array object `o`
replaced by `φ o`; every object reachable from these fields (through `other` / `ref_pos`, to any depth)
is mapped to an object with the same kind, shape and rows whose reference is the image of the old one;
`φ` is injective on the reachable objects (no two objects are merged, no object is duplicated). -/
theorem read_write (h : Heap) (d : DS) (lvl : Nat) (hw : WritableS h d lvl) :
    ∃ (file : File) (h' : Heap) (φ : Nat → Nat), writeDS h d lvl = .ok file ∧
      readBack h d file = .ok (h', { numObs := d.numObs, fields := renameFields φ (restrictFields lvl d.fields) }) ∧
      (∀ x, Reach h (restrictFields lvl d.fields) x → ∃ ob, h[x]? = some ob ∧ h'[φ x]? = some (ob.rename φ)) ∧
      (∀ x y, Reach h (restrictFields lvl d.fields) x → Reach h (restrictFields lvl d.fields) y → φ x = φ y → x = y) :=
  roundTrip_core2 h d lvl hw

/-- **cross references**: for any two field paths `p`, `q` — the attached object (`other` / `ref_pos`) of
field `p` *is* the array of field `q` after the read iff it was before.  `q` may be an earlier or a later
field, or a field inside a collection at any depth. -/
theorem refs_restored (h : Heap) (d : DS) (lvl : Nat) (hw : WritableS h d lvl) :
    ∃ (file : File) (h' : Heap) (d' : DS), writeDS h d lvl = .ok file ∧ readBack h d file = .ok (h', d') ∧
      ∀ p q : Path,
        (∃ o ob x, leafAt (restrictFields lvl d.fields) p = some o ∧ h[o]? = some ob ∧ ob.ref = some x ∧
          leafAt (restrictFields lvl d.fields) q = some x) ↔
        (∃ o' ob' x', leafAt d'.fields p = some o' ∧ h'[o']? = some ob' ∧ ob'.ref = some x' ∧
          leafAt d'.fields q = some x') := by
  obtain ⟨file, h', φ, hwr, hrd, himg, hinj⟩ := roundTrip_core2 h d lvl hw
  exact ⟨file, h', _, hwr, hrd, fun p q => IsoOn.refs_paths ⟨himg, hinj⟩ p q⟩

/-- **shared attachments**: two fields whose arrays each have an attached object share *one* object after
the read iff they shared one before (an anonymous position attached to several fields stays one object;
two equal-looking attachments stay two). -/
theorem sharing_restored (h : Heap) (d : DS) (lvl : Nat) (hw : WritableS h d lvl) :
    ∃ (file : File) (h' : Heap) (d' : DS), writeDS h d lvl = .ok file ∧ readBack h d file = .ok (h', d') ∧
      ∀ (p1 p2 : Path) (o1 o2 x1 x2 : Nat) (ob1 ob2 : Obj),
        leafAt (restrictFields lvl d.fields) p1 = some o1 → leafAt (restrictFields lvl d.fields) p2 = some o2 →
        h[o1]? = some ob1 → h[o2]? = some ob2 → ob1.ref = some x1 → ob2.ref = some x2 →
        ∃ o1' o2' ob1' ob2' x1' x2', leafAt d'.fields p1 = some o1' ∧ leafAt d'.fields p2 = some o2' ∧
          h'[o1']? = some ob1' ∧ h'[o2']? = some ob2' ∧ ob1'.ref = some x1' ∧ ob2'.ref = some x2' ∧
          (x1' = x2' ↔ x1 = x2) := by
  obtain ⟨file, h', φ, hwr, hrd, himg, hinj⟩ := roundTrip_core2 h d lvl hw
  exact ⟨file, h', _, hwr, hrd, fun p1 p2 _ _ _ _ _ _ a b c e f g => IsoOn.sharing ⟨himg, hinj⟩ p1 p2 a b c e f g⟩

/-- **every reference topology, chains included**: for every object `z` reachable from the written fields
(a field's array, its attachment, the attachment's attachment, …) that has a reference `y`: after the read
the image of `z` refers to the image of `y`; an object is the array of the field at `q` after the read iff
it was before (so an attachment that was no field is no field); different objects stay different. -/
theorem refs_restored_chains (h : Heap) (d : DS) (lvl : Nat) (hw : WritableS h d lvl) :
    ∃ (file : File) (h' : Heap) (φ : Nat → Nat), writeDS h d lvl = .ok file ∧
      readBack h d file = .ok (h', { numObs := d.numObs, fields := renameFields φ (restrictFields lvl d.fields) }) ∧
      (∀ z y ob, Reach h (restrictFields lvl d.fields) z → h[z]? = some ob → ob.ref = some y →
        ∃ ob', h'[φ z]? = some ob' ∧ ob'.ref = some (φ y) ∧ Reach h (restrictFields lvl d.fields) y) ∧
      (∀ x q, Reach h (restrictFields lvl d.fields) x →
        (leafAt (renameFields φ (restrictFields lvl d.fields)) q = some (φ x) ↔
          leafAt (restrictFields lvl d.fields) q = some x)) ∧
      (∀ x y, Reach h (restrictFields lvl d.fields) x → Reach h (restrictFields lvl d.fields) y → φ x = φ y → x = y) := by
  obtain ⟨file, h', φ, hwr, hrd, himg, hinj⟩ := roundTrip_core2 h d lvl hw
  have iso : IsoOn h h' (restrictFields lvl d.fields) φ := ⟨himg, hinj⟩
  exact ⟨file, h', φ, hwr, hrd, fun z y ob hz hob hr => iso.ref hz hob hr, fun x q hx => iso.fieldness hx q, hinj⟩

/-- **arrays shared between fields**: for any two field paths `p`, `q` — the fields hold one array object after the read
iff they held one before (an array added to the dataset under two names, in the same or in different collections, at any
depth, is one object again; two equal-looking arrays stay two). -/
theorem field_sharing_restored (h : Heap) (d : DS) (lvl : Nat) (hw : WritableS h d lvl) :
    ∃ (file : File) (h' : Heap) (d' : DS), writeDS h d lvl = .ok file ∧ readBack h d file = .ok (h', d') ∧
      ∀ p q : Path,
        (∃ o, leafAt (restrictFields lvl d.fields) p = some o ∧ leafAt (restrictFields lvl d.fields) q = some o) ↔
        (∃ o', leafAt d'.fields p = some o' ∧ leafAt d'.fields q = some o') := by
  obtain ⟨file, h', φ, hwr, hrd, _, hinj⟩ := roundTrip_core2 h d lvl hw
  refine ⟨file, h', _, hwr, hrd, fun p q => ?_⟩
  show _ ↔ ∃ o', leafAt (renameFields φ (restrictFields lvl d.fields)) p = some o' ∧
    leafAt (renameFields φ (restrictFields lvl d.fields)) q = some o'
  rw [leafAt_rename, leafAt_rename]
  constructor
  · rintro ⟨o, hp, hq⟩
    exact ⟨φ o, by rw [hp]; rfl, by rw [hq]; rfl⟩
  · rintro ⟨o', hp, hq⟩
    cases hlp : leafAt (restrictFields lvl d.fields) p with
    | none => rw [hlp] at hp; cases hp
    | some a =>
      cases hlq : leafAt (restrictFields lvl d.fields) q with
      | none => rw [hlq] at hq; cases hq
      | some b =>
        rw [hlp] at hp
        rw [hlq] at hq
        simp only [Option.map_some, Option.some.injEq] at hp hq
        have : a = b := hinj a b (.field (leafAt_mem hlp)) (.field (leafAt_mem hlq)) (hp.trans hq.symm)
        exact ⟨a, rfl, by rw [this]⟩

/-- `Writable` (the hypothesis before the generalisation: additionally pairwise different array objects) implies
`WritableS` -/
theorem writable_imp_writableS (h : Heap) (d : DS) (lvl : Nat) (hw : Writable h d lvl) : WritableS h d lvl := by
  simp only [Writable, writableB, Bool.and_eq_true] at hw
  simp only [WritableS, writableSB, Bool.and_eq_true]
  exact hw.1

/-- "Fields below the requested write level, and only those, are omitted", on `restrict`, at every nesting
depth: `restrict d ℓ` has a field at `path` iff `d` has one there and that field and every collection
around it has write level ≥ ℓ (field names unique, as dict keys are) -/
theorem restrict_omits_iff_below_level (lvl : Nat) (fs : List Field) (hn : namesOK fs = true) (p : Path) :
    (findField (restrictFields lvl fs) p).isSome = visible lvl fs p :=
  findField_restrict lvl p fs hn

/-- the same on the dataset read back from the file -/
theorem omitted_iff_below_level (h : Heap) (d : DS) (lvl : Nat) (hw : WritableS h d lvl) (hn : namesOK d.fields = true) :
    ∃ (file : File) (h' : Heap) (d' : DS), writeDS h d lvl = .ok file ∧ readBack h d file = .ok (h', d') ∧
      ∀ p : Path, (findField d'.fields p).isSome = visible lvl d.fields p := by
  obtain ⟨file, h', φ, hwr, hrd, _, _⟩ := roundTrip_core2 h d lvl hw
  refine ⟨file, h', _, hwr, hrd, fun p => ?_⟩
  show (findField (renameFields φ (restrictFields lvl d.fields)) p).isSome = _
  rw [findField_rename_isSome, findField_restrict lvl p d.fields hn]

/-! ### non-vacuity -/

/-- a heap with: an anonymous position shared by two fields (0), a position field `b` that comes *after*
the field `a` that refers to it (1, 2), arrays of a nested collection (3, 4, 6, 9), an anonymous posvel (5)
that is the `ref_pos` of the delta `c.d` and itself refers to the field `c.deep.b2` (a chain), a field below
the level that shares the anonymous position (7), a time (8) -/
def exHeap : Heap :=
  let r3 : Row := [.num 1, .num 2, .num 3]
  let r6 : Row := [.num 1, .num 2, .num 3, .num 4, .num 5, .num 6]
  [ { kind := .position, ndim := 2, cols := 3, rows := [r3, r3] },
    { kind := .position, ndim := 2, cols := 3, rows := [r3, r3], other := some 0 },
    { kind := .position, ndim := 2, cols := 3, rows := [r3, r3], other := some 1 },
    { kind := .float, ndim := 1, cols := 1, rows := [[.num (1/2)], [.nan]] },
    { kind := .posvel, ndim := 2, cols := 6, rows := [r6, r6] },
    { kind := .posvel, ndim := 2, cols := 6, rows := [r6, r6], other := some 4 },
    { kind := .posvelDelta, ndim := 2, cols := 6, rows := [r6, r6], refPos := some 5 },
    { kind := .position, ndim := 2, cols := 3, rows := [r3, r3], other := some 0 },
    { kind := .time, ndim := 1, cols := 1, rows := [[.num 2451545, .num 0], [.num 2451545, .num (1/2)]] },
    { kind := .text, ndim := 1, cols := 1, rows := [[.txt "nan"], [.txt " x"]] } ]

def exFields : List Field :=
  [ .leaf "a" .position 2 2 (some ["meter", "meter", "meter"]) 3,
    .leaf "t" .time 8 2 none 2,
    .coll "c" 2 2 [ .leaf "x" .float 3 2 (some ["byte"]) 3, .leaf "d" .posvelDelta 6 2 none 2,
                    .leaf "y" .text 9 2 none 1, .coll "deep" 2 3 [ .leaf "b2" .posvel 4 2 none 2 ] ],
    .leaf "b" .position 1 2 none 3,
    .leaf "e" .position 7 2 none 1 ]

def exDS : DS := { numObs := 2, fields := exFields }

/-- at level 2 the fields `c.y` and `e` are omitted -/
theorem exRestrict : restrictFields 2 exDS.fields =
    [ .leaf "a" .position 2 2 (some ["meter", "meter", "meter"]) 3,
      .leaf "t" .time 8 2 none 2,
      .coll "c" 2 2 [ .leaf "x" .float 3 2 (some ["byte"]) 3, .leaf "d" .posvelDelta 6 2 none 2,
                      .coll "deep" 2 3 [ .leaf "b2" .posvel 4 2 none 2 ] ],
      .leaf "b" .position 1 2 none 3 ] := by
  simp [exDS, exFields, restrictFields, Midgard.H5.Field.level]

example : Writable exHeap exDS 2 := by
  have h1 : heapOK exHeap = true := by decide +kernel
  simp only [Writable, writableB, exRestrict, h1]
  simp [fieldsOK, namesOK, leafObjs, nodupB, unitOK, objLen, exHeap, exDS, Midgard.Dataset.names, Field.name]

/-- the left-hand side of `refs_restored` is inhabited: `a`'s `other` is the later field `b` -/
example : ∃ o ob x, leafAt (restrictFields 2 exDS.fields) ["a"] = some o ∧ exHeap[o]? = some ob ∧ ob.ref = some x ∧
    leafAt (restrictFields 2 exDS.fields) ["b"] = some x := by
  refine ⟨2, _, 1, ?_, rfl, rfl, ?_⟩ <;> rw [exRestrict] <;> rfl

/-- a chain: field `c.d` (6) → anonymous posvel (5) → field `c.deep.b2` (4); the field `e` is omitted -/
example : Reach exHeap (restrictFields 2 exDS.fields) 4 ∧ Reach exHeap (restrictFields 2 exDS.fields) 5 ∧
    leafAt (restrictFields 2 exDS.fields) ["c", "deep", "b2"] = some 4 ∧ leafAt (restrictFields 2 exDS.fields) ["e"] = none := by
  have h6 : Reach exHeap (restrictFields 2 exDS.fields) 6 := .field (by simp [exRestrict, leafObjs])
  have h5 : Reach exHeap (restrictFields 2 exDS.fields) 5 := .ref (ob := exHeap[6]) h6 rfl rfl
  refine ⟨.ref (ob := exHeap[5]) h5 rfl rfl, h5, ?_, ?_⟩ <;> rw [exRestrict] <;> rfl

/-- a dataset in which two fields hold one array object is not `Writable` — but it is `WritableS`, the hypothesis of the
theorems (the file holds the array once, the other field's group names that field) -/
example : ¬ Writable exHeap { numObs := 2, fields := [.leaf "a" .position 2 2 none 3, .leaf "a2" .position 2 2 none 3] } 2 := by
  simp [Writable, writableB, restrictFields, Midgard.H5.Field.level, leafObjs, nodupB]

/-! ### bit patterns -/

/-- **floats are read back bit for bit** — the sign of a zero, the payload of a NaN, subnormals: for every object
reachable from the written fields whose rows are given as 64-bit patterns (`bitsRows ws`, the IEEE-754 words of its
doubles), the object read back has exactly these words (`rowsBits`), row by row, column by column.  The word cells are
what the correspondence sends for every numeric array (driver mode `rtbits`). -/
theorem bits_identical (h : Heap) (d : DS) (lvl : Nat) (hw : WritableS h d lvl) :
    ∃ (file : File) (h' : Heap) (φ : Nat → Nat), writeDS h d lvl = .ok file ∧
      readBack h d file = .ok (h', { numObs := d.numObs, fields := renameFields φ (restrictFields lvl d.fields) }) ∧
      ∀ (x : Nat) (ob : Obj) (ws : List (List UInt64)), Reach h (restrictFields lvl d.fields) x → h[x]? = some ob →
        ob.rows = bitsRows ws → ∃ ob', h'[φ x]? = some ob' ∧ rowsBits ob'.rows = ws.map some := by
  obtain ⟨file, h', φ, hwr, hrd, himg, _⟩ := roundTrip_core2 h d lvl hw
  refine ⟨file, h', φ, hwr, hrd, fun x ob ws hx hob hrows => ?_⟩
  obtain ⟨ob0, h0, h1⟩ := himg x hx
  rw [hob] at h0
  cases h0
  exact ⟨_, h1, by rw [rename_rows, hrows, rowsBits_bitsRows]⟩

/-- the words are an injective code of the cells: −0.0 (`0x8000000000000000`) and +0.0, two NaNs with different payloads
are different cells -/
example : cellBits (bitsCell 0x8000000000000000) = some 0x8000000000000000 ∧ bitsCell 0x8000000000000000 ≠ bitsCell 0 ∧
    bitsCell 0x7ff8000000000000 ≠ bitsCell 0x7ff8000000000001 := by
  refine ⟨cellBits_bitsCell _, ?_, ?_⟩ <;> decide

/-! ### meta information and `vars` -/

/-- **`Meta.read (Meta.write m) = m`**: every key of `dset.meta` comes back with its value, for every nesting of
dicts, lists, tuples, sets, strings, numbers, booleans, NaN and infinities -/
theorem meta_read_write (m : MetaDict) (as : List (String × Attr)) (h : writeMeta m = some as) : readMeta as = some m :=
  readMeta_writeMeta m as h

/-- the group `__meta__` has exactly the keys of the meta as attribute names, and the write succeeds iff no value is a
bare `None` -/
theorem meta_written (m : MetaDict) :
    ((writeMeta m).isSome = metaOK m) ∧ ∀ as, writeMeta m = some as → as.map (·.1) = m.map (·.1) := by
  refine ⟨?_, writeMeta_keys m⟩
  induction m with
  | nil => rfl
  | cons kv r ih =>
    obtain ⟨k, v⟩ := kv
    simp only [writeMeta, metaOK]
    cases hv : encode v with
    | none => simp
    | some a =>
      cases hr : writeMeta r with
      | none => rw [hr] at ih; simp [← ih]
      | some r' => rw [hr] at ih; simp [← ih]

/-- **`read (write d ℓ) = restrict d ℓ` for the whole dataset**: fields as in `read_write`, and the meta information
and the `vars` come back as they were -/
theorem read_write_full (h : Heap) (d : DSM) (lvl : Nat) (hw : WritableS h d.ds lvl) (hm : metaOK d.info = true) :
    ∃ (fm : FileM) (h' : Heap) (φ : Nat → Nat), writeDSM h d lvl = .ok (some fm) ∧
      readBackM h d fm = .ok (h', { ds := { numObs := d.ds.numObs, fields := renameFields φ (restrictFields lvl d.ds.fields) },
                                    info := d.info, vars := d.vars }) ∧
      (∀ x, Reach h (restrictFields lvl d.ds.fields) x → ∃ ob, h[x]? = some ob ∧ h'[φ x]? = some (ob.rename φ)) ∧
      (∀ x y, Reach h (restrictFields lvl d.ds.fields) x → Reach h (restrictFields lvl d.ds.fields) y → φ x = φ y → x = y) :=
  roundTripM_core h d lvl hw hm

/-- the hypotheses of `read_write_full` are satisfiable: meta with a string spelling `nan`, a nested dict with a `None`
and a NaN inside, an empty set; `vars` with tricky strings -/
example : metaOK [("k0", .atom (.str "nan")), ("k1", .dict [(.atom (.str "a"), .list [.atom .none, .atom .nan])]),
    ("k2", .set [])] = true := by simp [metaOK, encode]

/-- a bare `None` cannot be saved: `Dataset.write` raises `TypeError` -/
example : writeDSM exHeap { ds := exDS, info := [("k", .atom .none)] } 2 = .ok none ∨
    ∃ e, writeDSM exHeap { ds := exDS, info := [("k", .atom .none)] } 2 = .error e := by
  cases hw : writeDS exHeap exDS 2 with
  | error e => exact Or.inr ⟨e, by simp [writeDSM, hw]⟩
  | ok f => exact Or.inl (by simp [writeDSM, hw, writeMeta, encode])

/-! ### one array object held by several fields (`same_as`) -/

/-- **one array, two fields — the write step**: a leaf field whose array the memo knows under another field's name
is written as a group without payload that names that field (`same_as`); the memo is unchanged -/
theorem alias_written_once (h : Heap) (lvl : Nat) (nm : String) (k : Kind) (o no : Nat) (u : Option (List String)) (l : Nat)
    (pre : Path) (memo : WMemo) (name : Path) (hm : memo.lookup o = some name) (hne : name ≠ pre ++ [nm]) :
    ∃ a, writeField h lvl (.leaf nm k o no u l) pre memo = .ok (.mk a none [], memo) ∧
      a.sameAs = some name ∧ a.fieldname = pre ++ [nm] ∧ a.unit = u ∧ a.level = l := by
  have hal : aliasOf memo o (pre ++ [nm]) = some name := by
    simp only [aliasOf, hm]
    have : (name == pre ++ [nm]) = false := by simpa using hne
    simp [this]
  exact ⟨{ fieldname := pre ++ [nm], src := o, unit := u, level := l, sameAs := some name }, by simp only [writeField, hal], rfl, rfl, rfl, rfl⟩

/-- **the read step, that field read before**: the field gets the very object the memo holds for the named field -/
theorem alias_read_shares (file : File) (fa d : Nat) (k : Kind) (a : GAttrs) (p : Option Obj) (subs : List (String × Grp))
    (s : RSt) (name : Path) (o : Nat) (ha : a.sameAs = some name) (hm : s.memo.lookup name = some o) :
    readField file fa (d + 1) (some k) (.mk a p subs) s =
      .ok (.leaf (lastName a.fieldname) k o (objLen s.heap o) (readUnit a.unit) a.level, s.set a.fieldname o) := by
  have h1 : resolveAlias file fa a s = .ok (s.set a.fieldname o) := by simp only [resolveAlias, ha, hm]
  have h2 : (s.set a.fieldname o).memo.lookup a.fieldname = some o := by simp [RSt.set]
  simp only [readField, h1, h2]
  rfl

/-- **the read step, that field not read yet**: it is read now (its own group), both names are entered in the memo with
the one new object — so the named field, when its turn comes, is that object too (`alias_read_shares`' memo-hit is
`readField`'s own first test) -/
theorem alias_read_forward (file : File) (fa d : Nat) (k : Kind) (a : GAttrs) (p : Option Obj) (subs : List (String × Grp))
    (s s' : RSt) (name : Path) (g : Grp) (o : Nat) (ha : a.sameAs = some name) (hm : s.memo.lookup name = none)
    (hg : lookupGrp file.groups name = some g) (hr : fieldRead file fa g s = .ok (o, s')) :
    readField file fa (d + 1) (some k) (.mk a p subs) s =
      .ok (.leaf (lastName a.fieldname) k o (objLen s'.heap o) (readUnit a.unit) a.level, (s'.set name o).set a.fieldname o) ∧
    ((s'.set name o).set a.fieldname o).memo.lookup a.fieldname = some o ∧
    (name ≠ a.fieldname → ((s'.set name o).set a.fieldname o).memo.lookup name = some o) := by
  have h1 : resolveAlias file fa a s = .ok ((s'.set name o).set a.fieldname o) := by simp only [resolveAlias, ha, hm, hg, hr]
  have h2 : ((s'.set name o).set a.fieldname o).memo.lookup a.fieldname = some o := by simp [RSt.set]
  refine ⟨?_, h2, ?_⟩
  · simp only [readField, h1, h2]
    rfl
  · intro hne
    simp only [RSt.set, List.lookup]
    have : (name == a.fieldname) = false := by simpa using hne
    simp [this]

/-- **an array held by several fields is stored once** — for *every* heap, dataset and level for which `Dataset.write`
succeeds (no `Writable`): with `C` the memo of `_construct_memo`, every written leaf field's group is (`RepA`) either the
array itself — exactly when `C` names this very field for the array (the last written field that holds it) — or a group
without payload and without sub-groups whose `same_as` is the name `C` has for the array, which is not this field; and
every name `C` has for an array is the full name of a written field holding that same array.  So of the fields that hold
one array exactly one stores it and all others name that one. -/
theorem shared_array_written_once (h : Heap) (d : DS) (lvl : Nat) (file : File) (hw : writeDS h d lvl = .ok file) :
    RepA.RepLA (constructMemo lvl d.fields [] []) (restrictFields lvl d.fields) [] file.groups ∧
    ∀ o name, (constructMemo lvl d.fields [] []).lookup o = some name → (o, name) ∈ leafPaths (restrictFields lvl d.fields) [] := by
  have hmem : ∀ o name, (constructMemo lvl d.fields [] []).lookup o = some name →
      (o, name) ∈ leafPaths (restrictFields lvl d.fields) [] := by
    intro o name hl
    rcases (constructMemo_mem lvl d.fields [] [] (o, name)).mp (wlookup_mem _ o name hl) with hx | hx
    · simp at hx
    · exact hx
  refine ⟨?_, hmem⟩
  simp only [writeDS] at hw
  split at hw
  · simp at hw
  · rename_i groups mem memo' hws
    cases hw
    refine (writeFields_repA h lvl _ d.fields [] _ groups mem memo' (Stable.refl _) ?_ hws).1
    intro o ho
    rw [← leafPaths_fst _ []] at ho
    obtain ⟨⟨a, q⟩, he, rfl⟩ := List.mem_map.mp ho
    exact mem_keys ((constructMemo_mem lvl d.fields [] [] (a, q)).mpr (Or.inr he))

def exAliasHeap : Heap :=
  let r3 : Row := [.num 1, .num 2, .num 3]
  [ { kind := .position, ndim := 2, cols := 3, rows := [r3, r3] },
    { kind := .position, ndim := 2, cols := 3, rows := [r3, r3], other := some 0 } ]

def exAliasDS : DS := { numObs := 2, fields := [ .leaf "a" .position 0 2 none 3, .coll "g" 2 3 [ .leaf "b" .position 0 2 none 3 ],
  .leaf "c" .position 1 2 none 3 ] }

/-- the hypothesis `WritableS` holds for the dataset of the former finding (fields `a` and `g.b` hold one array), which
is not `Writable` -/
example : WritableS exAliasHeap exAliasDS 1 ∧ ¬ Writable exAliasHeap exAliasDS 1 := by
  have h1 : heapOK exAliasHeap = true := by decide +kernel
  constructor
  · simp only [WritableS, writableSB, h1, Bool.true_and]
    simp [exAliasDS, restrictFields, Midgard.H5.Field.level, fieldsOK, namesOK, unitOK, objLen,
      exAliasHeap, Midgard.Dataset.names, Field.name]
  · simp [Writable, writableB, exAliasDS, restrictFields, Midgard.H5.Field.level, leafObjs, nodupB]

/-- the left-hand side of `field_sharing_restored` is inhabited -/
example : ∃ o, leafAt (restrictFields 1 exAliasDS.fields) ["a"] = some o ∧
    leafAt (restrictFields 1 exAliasDS.fields) ["g", "b"] = some o := by
  refine ⟨0, ?_, ?_⟩ <;> simp [exAliasDS, restrictFields, Midgard.H5.Field.level, leafAt, findField, getField, Field.name]

/-- the dataset of the former finding (fields `a` and `g.b` hold one array, `c.other` is that array), written at level 1
and read back: `a` and `g.b` are one object again and `c.other` is that object -/
theorem alias_example :
    (match writeDS exAliasHeap exAliasDS 1 with
     | .ok file => (match readBack exAliasHeap exAliasDS file with
        | .ok (h', d') => decide (leafAt d'.fields ["a"] = leafAt d'.fields ["g", "b"]) &&
            (match leafAt d'.fields ["c"] with
             | some c => (h'[c]?.bind Obj.ref) == leafAt d'.fields ["a"] && (leafAt d'.fields ["a"]).isSome
             | none => false) && d'.fields.length == 3 && h'.length == 2
        | .error _ => false)
     | .error _ => false) = true := by
  simp [writeDS, writeField, writeField.writeFields, constructMemo, exAliasDS, exAliasHeap, Midgard.H5.Field.level, aliasOf,
    writeArr, attrName, Obj.ref, Kind.hasOther, Kind.isDelta, List.lookup, Obj.strip, Field.name,
    readBack, readDS, readTop, readField, readMembers, resolveAlias, fieldRead, readArr, readRef, refTarget, lookupGrp,
    RSt.alloc, RSt.set, regTop, fieldsDepth, Obj.withRef, lastName, objLen, readUnit, leafAt, findField, getField, Grp.subs]

/-! ### the `time` attribute of positions (`Model/H5Time.lean`; registered by users of the library) -/

/-- **the model with the `time` attribute is a conservative extension**: when no object has a `time`, `writeDSX` is
`writeDS` and the file is read by `readBackX` exactly as by `readBack` (same heap, same dataset) — so every theorem of
this file is a theorem about `writeDSX` / `readBackX` on datasets without `time`.  With `time` attached:
`read_write_time` / `time_restored` below. -/
theorem time_attribute_conservative (h : Heap) (tm : TM) (htm : ∀ o, tmOf tm o = none) (d : DS) (lvl : Nat) :
    writeDSX h tm d lvl = writeDS h d lvl ∧
    ∀ file, writeDS h d lvl = .ok file → (readBackX h d file).map (fun r => (r.1, r.2.2)) = readBack h d file :=
  timeFree_conservative h tm htm d lvl


/-- **the `time` attribute, write step**: a position (or posvel) without `other` whose `time` is an object the memo knows
under `name` (a time field of the dataset, or an anonymous time already written) is written with the reference
`time = name`; nothing is embedded -/
theorem time_written_by_name (h : Heap) (tm : TM) (u : Option (List String)) (l fuel o t : Nat) (p name : Path) (memo : WMemo)
    (ob : Obj) (hob : h[o]? = some ob) (hk : ob.kind.hasOther = true) (hr : ob.ref = none)
    (ht : tmOf tm o = some t) (hm : memo.lookup t = some name) :
    writeArrX h tm u l (fuel + 1) o p memo =
      .ok (.mk { fieldname := p, src := o, unit := u, level := l, tref := some name } (some ob.strip) [], (o, p) :: memo) := by
  have hat : attrName ob.kind = some "other" := by simp [attrName, hk]
  simp [writeArrX, slotWrite, hob, hat, hr, hk, ht, hm]

/-- **the `time` attribute, read step**: such a group, read when the memo has the object `n` for `name`, gives a new
position whose `time` is that very object -/
theorem time_read_by_name (file : File) (fuel n : Nat) (a : GAttrs) (ob : Obj) (s : RSt) (name : Path)
    (hk : ob.kind.hasOther = true) (ha : a.ref = none) (ht : a.tref = some name) (hm : s.memo.lookup name = some n) :
    ∃ s', readArrX file (fuel + 1) (.mk a (some ob) []) s = .ok (s.heap.length, s') ∧
      s'.heap = s.heap ++ [ob.withRef none] ∧ s'.tm = s.tm ++ [some n] := by
  have hat : attrName ob.kind = some "other" := by simp [attrName, hk]
  have hd : ob.kind.isDelta = false := by cases hkk : ob.kind <;> simp_all [Kind.hasOther, Kind.isDelta]
  refine ⟨({ s with heap := s.heap ++ [ob.withRef none], tm := s.tm ++ [some n] } : RSt).set a.fieldname s.heap.length, ?_, rfl, rfl⟩
  simp only [readArrX, hat, refTarget, ha, List.lookup, readRef, hk, if_true, refTargetT, ht, hm, hd, Bool.false_and,
    Bool.false_eq_true, if_false, allocX]

/-- **`read (write d ℓ) = restrict d ℓ` with the `time` attribute of positions** (`writeDSX` / `readBackX`, what the driver
runs for datasets with a `time` attached): for every `WritableX h tm d ℓ` the write succeeds; the read gives the fields of
`restrict d ℓ` renumbered by `φ`; every object reachable through `other` / `ref_pos` / `time` is mapped to an object of the
same kind, shape and rows whose `other` / `ref_pos` **and `time`** are the images of the old ones; `φ` is injective on the
reachable objects -/
theorem read_write_time (h : Heap) (tm : TM) (d : DS) (lvl : Nat) (hw : WritableX h tm d lvl) :
    ∃ (file : File) (h' : Heap) (tm' : TM) (φ : Nat → Nat), writeDSX h tm d lvl = .ok file ∧
      readBackX h d file = .ok (h', tm', { numObs := d.numObs, fields := renameFields φ (restrictFields lvl d.fields) }) ∧
      (∀ x, ReachX h tm (restrictFields lvl d.fields) x → ∃ ob, h[x]? = some ob ∧ h'[φ x]? = some (ob.rename φ) ∧
        tmOf tm' (φ x) = (tmE h tm x).map φ) ∧
      (∀ x y, ReachX h tm (restrictFields lvl d.fields) x → ReachX h tm (restrictFields lvl d.fields) y → φ x = φ y → x = y) :=
  roundTrip_coreX h tm d lvl hw

/-- **a position's time is again the very field it referred to**: for any two field paths `p`, `q` — the `time` of field
`p` *is* the array of field `q` after the read iff it was before -/
theorem time_restored (h : Heap) (tm : TM) (d : DS) (lvl : Nat) (hw : WritableX h tm d lvl) :
    ∃ (file : File) (h' : Heap) (tm' : TM) (d' : DS), writeDSX h tm d lvl = .ok file ∧ readBackX h d file = .ok (h', tm', d') ∧
      ∀ p q : Path,
        (∃ o t, leafAt (restrictFields lvl d.fields) p = some o ∧ tmE h tm o = some t ∧
          leafAt (restrictFields lvl d.fields) q = some t) ↔
        (∃ o' t', leafAt d'.fields p = some o' ∧ tmOf tm' o' = some t' ∧ leafAt d'.fields q = some t') := by
  obtain ⟨file, h', tm', φ, hwr, hrd, himg, hinj⟩ := roundTrip_coreX h tm d lvl hw
  refine ⟨file, h', tm', _, hwr, hrd, fun p q => ?_⟩
  show _ ↔ ∃ o' t', leafAt (renameFields φ (restrictFields lvl d.fields)) p = some o' ∧ tmOf tm' o' = some t' ∧
    leafAt (renameFields φ (restrictFields lvl d.fields)) q = some t'
  rw [leafAt_rename, leafAt_rename]
  constructor
  · rintro ⟨o, t, hp, ht, hq⟩
    obtain ⟨_, _, _, h3⟩ := himg o (.field (leafAt_mem hp))
    exact ⟨φ o, φ t, by rw [hp]; rfl, by rw [h3, ht]; rfl, by rw [hq]; rfl⟩
  · rintro ⟨o', t', hp, ht, hq⟩
    cases hlp : leafAt (restrictFields lvl d.fields) p with
    | none => rw [hlp] at hp; cases hp
    | some o =>
      rw [hlp] at hp
      simp only [Option.map_some, Option.some.injEq] at hp
      subst hp
      have ho : ReachX h tm (restrictFields lvl d.fields) o := .field (leafAt_mem hlp)
      obtain ⟨_, _, _, h3⟩ := himg o ho
      rw [h3] at ht
      cases hte : tmE h tm o with
      | none => rw [hte] at ht; cases ht
      | some t =>
        rw [hte] at ht
        simp only [Option.map_some, Option.some.injEq] at ht
        cases hlq : leafAt (restrictFields lvl d.fields) q with
        | none => rw [hlq] at hq; cases hq
        | some b =>
          rw [hlq] at hq
          simp only [Option.map_some, Option.some.injEq] at hq
          have : b = t := hinj b t (.field (leafAt_mem hlq)) (.time ho hte) (hq.trans ht.symm)
          exact ⟨o, t, rfl, hte, by rw [this]⟩

/-- a heap with a time (0), a position whose `time` is that time (1), a posvel with the same `time` and `other` = the
position (2), an anonymous time (3) attached to a third position (4) -/
def exTimeHeap : Heap :=
  let r3 : Row := [.num 1, .num 2, .num 3]
  let r6 : Row := [.num 1, .num 2, .num 3, .num 4, .num 5, .num 6]
  [ { kind := .time, ndim := 1, cols := 1, rows := [[.num 2451545, .num 0]] },
    { kind := .position, ndim := 2, cols := 3, rows := [r3] },
    { kind := .posvel, ndim := 2, cols := 6, rows := [r6], other := some 1 },
    { kind := .time, ndim := 1, cols := 1, rows := [[.num 2451546, .num 0]] },
    { kind := .position, ndim := 2, cols := 3, rows := [r3] } ]

def exTimeTM : TM := [none, some 0, some 0, none, some 3]

def exTimeDS : DS := { numObs := 1, fields := [ .leaf "p" .position 1 1 none 3, .leaf "t" .time 0 1 none 3,
  .coll "c" 1 3 [ .leaf "v" .posvel 2 1 none 3, .leaf "q" .position 4 1 none 3 ] ] }

example : WritableX exTimeHeap exTimeTM exTimeDS 1 := by
  have h1 : heapOK exTimeHeap = true := by decide +kernel
  have h2 : tmOKB exTimeHeap exTimeTM = true := by decide +kernel
  simp only [WritableX, writableXB, writableSB, h1, h2, Bool.true_and, Bool.and_true]
  simp [exTimeDS, restrictFields, Midgard.H5.Field.level, fieldsOK, namesOK, unitOK, objLen, exTimeHeap,
    Midgard.Dataset.names, Field.name]

/-- the left-hand side of `time_restored` is inhabited: the `time` of `p` is the field `t` -/
example : ∃ o t, leafAt (restrictFields 1 exTimeDS.fields) ["p"] = some o ∧ tmE exTimeHeap exTimeTM o = some t ∧
    leafAt (restrictFields 1 exTimeDS.fields) ["t"] = some t := by
  refine ⟨1, 0, ?_, ?_, ?_⟩
  · simp [exTimeDS, restrictFields, Midgard.H5.Field.level, leafAt, findField, getField, Field.name]
  · simp [tmE, exTimeHeap, exTimeTM, tmOf, Kind.hasOther]
  · simp [exTimeDS, restrictFields, Midgard.H5.Field.level, leafAt, findField, getField, Field.name]

end Midgard.Props.C10

#print axioms Midgard.Props.C10.decode_encode
#print axioms Midgard.Props.C10.savable
#print axioms Midgard.Props.C10.strings_untouched
#print axioms Midgard.Props.C10.level_filter
#print axioms Midgard.Props.C10.level_filter_nested
#print axioms Midgard.Props.C10.restricted_fields_have_level
#print axioms Midgard.Props.C10.array_bit_identical
#print axioms Midgard.Props.C10.units_identical
#print axioms Midgard.Props.C10.read_write
#print axioms Midgard.Props.C10.refs_restored
#print axioms Midgard.Props.C10.sharing_restored
#print axioms Midgard.Props.C10.refs_restored_chains
#print axioms Midgard.Props.C10.restrict_omits_iff_below_level
#print axioms Midgard.Props.C10.omitted_iff_below_level
#print axioms Midgard.Props.C10.exRestrict
#print axioms Midgard.Props.C10.alias_written_once
#print axioms Midgard.Props.C10.alias_read_shares
#print axioms Midgard.Props.C10.alias_read_forward
#print axioms Midgard.Props.C10.alias_example
#print axioms Midgard.Props.C10.meta_read_write
#print axioms Midgard.Props.C10.meta_written
#print axioms Midgard.Props.C10.read_write_full
#print axioms Midgard.Props.C10.bits_identical
#print axioms Midgard.Props.C10.shared_array_written_once

#print axioms Midgard.Props.C10.field_sharing_restored
#print axioms Midgard.Props.C10.writable_imp_writableS
#print axioms Midgard.Props.C10.time_attribute_conservative
#print axioms Midgard.Props.C10.time_written_by_name
#print axioms Midgard.Props.C10.time_read_by_name
#print axioms Midgard.Props.C10.read_write_time
#print axioms Midgard.Props.C10.time_restored
#print axioms Midgard.Props.C10.text_decode_encode
