/-
C10 — Writing a Dataset to disk and reading it back is the identity (partial).
(first part: the attribute codec; the store theorems follow)
-/
import Midgard.Proofs.H5Attr
import Midgard.Model.H5Dataset

namespace Midgard.Props.C10
open Midgard.H5Attr

/-- `decode_h5attr (encode_h5attr m) = m` for every meta tree that can be saved: every nesting of
dicts, lists, tuples, sets, strings, numbers, booleans, None, NaN and infinities -/
theorem decode_encode (m : Meta) (a : Attr) (h : encode m = some a) : decode a = some m :=
  Midgard.H5Attr.decode_encode m a h

/-- only a bare `None` cannot be saved -/
theorem savable (m : Meta) (h : m ≠ .atom .none) : (encode m).isSome = true := encode_isSome m h

/-- strings are opaque to the codec: a string is stored and returned as it is, also when it spells
`nan`, `inf` or a Python literal (the code as it was rewrote these words with a regular expression) -/
theorem strings_untouched (s : String) :
    (encode (.atom (.str s))).bind decode = some (.atom (.str s)) ∧
    (encode (.list [.atom (.str s), .atom .nan])).bind decode = some (.list [.atom (.str s), .atom .nan]) := by
  constructor
  · simp [encode, decode]
  · simp only [encode, Option.bind_some, decode]
    exact evalAst_toAst _

end Midgard.Props.C10

#print axioms Midgard.Props.C10.decode_encode
#print axioms Midgard.Props.C10.savable
#print axioms Midgard.Props.C10.strings_untouched
