/-
C10 — Writing a Dataset to disk and reading it back is the identity (partial).

Property theorems about `Model/H5Attr.lean` (the attribute codec) and `Model/H5Dataset.lean` (write /
read over an abstract tree of HDF5 groups with the two memos `id ↦ field name`, `field name ↦ object`).

Proved, for all inputs:
* `decode_encode`        the codec is the identity on every meta tree that can be saved (dicts, lists,
                         tuples, sets, strings, numbers, booleans, None, NaN, ±inf, any nesting);
                         `savable`, `strings_untouched`.
* `level_filter`         the file lists exactly — and in order — the fields (recursively) whose write level
                         is at least the requested one; `restricted_fields_have_level`.
* `array_bit_identical`  the array of a field without references (bool, float, text, sigma, time,
                         time delta) is read back bit for bit (kind, shape, rows), whatever the memo holds;
                         `units_identical` (None ↔ "").
Not proved (full statement, measured by the correspondence through real h5py files and by the oracle):
  `read_write : writable d → observe (read (write d ℓ)) = observe (restrict d ℓ)` for the whole dataset and
  `refs_restored` (an attached object is again the very field it referred to, for every reference
  topology).  The model executes both (the driver's `rt` against `restrict`), the theorems above are the
  per-array and per-attribute parts of it; the assembly over the two memos is not proved.
-/
import Midgard.Proofs.H5Attr
import Midgard.Proofs.H5Dataset

namespace Midgard.Props.C10
open Midgard.H5Attr Midgard.H5 Midgard.Dataset

/-! ### the attribute codec -/

/-- `decode_h5attr (encode_h5attr m) = m` for every meta tree that can be saved -/
theorem decode_encode (m : Meta) (a : Attr) (h : encode m = some a) : decode a = some m :=
  Midgard.H5Attr.decode_encode m a h

/-- only a bare `None` cannot be saved -/
theorem savable (m : Meta) (h : m ≠ .atom .none) : (encode m).isSome = true := encode_isSome m h

/-- strings are opaque to the codec: a string is stored and returned as it is, also when it spells
`nan`, `inf` or a Python literal (the code as it was rewrote these words with a regular expression) -/
theorem strings_untouched (s : String) :
    (encode (.atom (.str s))).bind decode = some (.atom (.str s)) ∧
    (encode (.list [.atom (.str s), .atom .nan])).bind decode = some (.list [.atom (.str s), .atom .nan]) := by
  constructor
  · simp [encode, decode]
  · simp only [encode, Option.bind_some, decode]
    exact evalAst_toAst _

/-! ### the store -/

/-- "Fields below the requested write level, and only those, are omitted": the file written for a
dataset lists, in order, exactly the fields of `restrict d ℓ`, with their types -/
theorem level_filter (h : Heap) (d : DS) (lvl : Nat) (file : File) (hw : writeDS h d lvl = .ok file) :
    file.numObs = d.numObs ∧
    file.members = (restrictFields lvl d.fields).map (fun f => (f.name, fieldType f)) ∧
    file.groups.map (·.1) = (restrictFields lvl d.fields).map Field.name :=
  writeDS_members h d lvl file hw

/-- the same inside every collection -/
theorem level_filter_nested (h : Heap) (lvl : Nat) (fs : List Field) (pre : Path) (memo : WMemo)
    (groups : List (String × Grp)) (mem : List (String × Option Kind)) (memo' : WMemo)
    (hw : writeField.writeFields h lvl fs pre memo = .ok (groups, mem, memo')) :
    groups.map (·.1) = (restrictFields lvl fs).map Field.name ∧
    mem = (restrictFields lvl fs).map (fun f => (f.name, fieldType f)) :=
  writeFields_names h lvl fs pre memo groups mem memo' hw

/-- every field of `restrict d ℓ` has level ≥ ℓ -/
theorem restricted_fields_have_level (lvl : Nat) (fs : List Field) :
    ∀ f ∈ restrictFields lvl fs, lvl ≤ Midgard.H5.Field.level f :=
  restrict_level lvl fs

/-- an array without references is read back bit for bit -/
theorem array_bit_identical (h : Heap) (u : Option (List String)) (l : Nat) (file : File) (o : Nat) (ob : Obj) (p : Path) (wm : WMemo)
    (g : Grp) (wm' : WMemo) (fw fr : Nat) (s : RSt)
    (hob : h[o]? = some ob) (hk : attrName ob.kind = none)
    (hw : writeArr h u l (fw + 1) o p wm = .ok (g, wm')) :
    wm' = wm ∧ g.attrs.fieldname = p ∧
    ∃ s', readArr file (fr + 1) g s = .ok (s.heap.length, s') ∧ s'.heap = s.heap ++ [ob.strip] :=
  readArr_writeArr h u l file o ob p wm g wm' fw fr s hob hk hw

/-- units: `None ↔ ""`, a real unit tuple as it is -/
theorem units_identical (u : Option (List String)) (hu : ∀ us, u = some us → us.any (fun x => !x.isEmpty) = true) :
    readUnit u = u := readUnit_id u hu

/-! ### non-vacuity -/

example : decode ((encode (.dict [(.atom (.str "nan"), .list [.atom .nan, .atom .ninf, .atom (.int (-3))])])).get!) =
    some (.dict [(.atom (.str "nan"), .list [.atom .nan, .atom .ninf, .atom (.int (-3))])]) :=
  decode_encode _ _ rfl

end Midgard.Props.C10

#print axioms Midgard.Props.C10.decode_encode
#print axioms Midgard.Props.C10.savable
#print axioms Midgard.Props.C10.strings_untouched
#print axioms Midgard.Props.C10.level_filter
#print axioms Midgard.Props.C10.level_filter_nested
#print axioms Midgard.Props.C10.restricted_fields_have_level
#print axioms Midgard.Props.C10.array_bit_identical
#print axioms Midgard.Props.C10.units_identical
