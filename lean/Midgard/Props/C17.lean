/-
C17 — Written files are format-conformant and read back to the same values.

Property theorems only (helpers in Proofs/Writers.lean).  The line layouts, `DATA_TYPES` and the
parsers' column tables are regenerated from the source on every run (`Generated/WriterLayouts`).

* `fields_in_columns` — for *every* line layout and *all* values that fit their cells: the line has
  exactly its nominal width and every cell sits in its nominal columns (so the literal separators
  do too); `readback_nominal` — reading those columns back with `line[a:b].strip()` returns the
  text of each value.
* `wider_field_reads_cell` — a parser column that is wider than the writer's cell still reads the
  cell when the rest of the column is blank; with the `decide`d alignment obligations
  (`crd_writer_parser_aligned`, `clu_…`, `tms_ref_coordinate_…`, `sta_…_partial`) this is the
  read-back of the Bernese and SINEX-TMS fixed-column lines on the text level.
* `tms_data_tokens` — the TIMESERIES/DATA line (cells adjacent, reader splits on blanks) yields one
  token per column when every value leaves a blank in its cell.
* `blocks_balanced`, `estimate_keys_distinct`, `data_types_modelled`, `tms_columns_have_types`.

* `fmtFixed_fits`, `coordinate_fits` — how wide a number prints; the property's coordinate domain
  (±9 999 999.9999) fits the coordinate cells (`14.4f` with a blank to spare, `14.5f`, `16.5f`).
* `fmtFixed_width`, `parse_fmtFixed` (DESIGN §4, full strength, all `w p x`): the exact width condition of
  `'{:w.pf}'` including the sign column, and `float` of the cell = the value rounded to `p` decimals
  (within `10⁻ᵖ/2`, exact when `x·10ᵖ ∈ ℤ`); `cell_reads_back` / `readback_values` — *every* cell of *every*
  line layout reads back at its nominal columns: numbers rounded to the printed decimals, integers
  exactly, text stripped; `numeric_cell_accepts` (exact admission condition of a numeric cell) and
  `table_cells_accept` (every numeric cell of the regenerated table has room for sign + one digit and
  admits every `|x|` below its bound).

* File level (`Model/WriterFiles.lean`): `gft_file_roundtrip` (any `np.genfromtxt` delimiter-tuple parser × any writer line whose
  segments have the parser's widths), `crd_file_roundtrip` + `crd_range_sufficient` (Bernese CRD: parser ∘ writer = rounding to 5
  decimals, for the property's quantifier), `clu_file_roundtrip` (Bernese CLU), `readback_is_rounding`;
  `writers_assign_nothing_on_inputs` (regenerated `ast` effect table of the ten writers is empty).

Not proved (measured by the correspondence on every run): file-level round trips of sinex_tms / bernese_sta / csv_ (cell level
only), the double nearest to the parsed decimal
(`float` is correctly rounded: trusted), NumPy's `genfromtxt`/`savetxt`, pandas' `read_csv`.
-/
import Midgard.Proofs.Writers
import Midgard.Proofs.WriterNumbers
import Midgard.Proofs.WriterFilesCrd
import Midgard.Proofs.WriterFilesClu
import Midgard.Proofs.WriterFilesCrdRange
import Midgard.Proofs.WriterFilesVel
import Midgard.Proofs.WriterFilesTms
import Midgard.Proofs.WriterFilesCsv
import Midgard.Proofs.WriterCsvParse
import Midgard.Generated.WriterEffects
import Midgard.Proofs.WriterSta
import Midgard.Proofs.WriterSta002
import Midgard.Proofs.WriterTmsRef

namespace Midgard.Props.C17
open Midgard.Text Midgard.FixedCol Midgard.WriterCells Midgard.Writers Midgard.Generated.WriterLayouts
open Midgard.WriterFiles

/-- **Every field inside its columns.**  For any line layout and any values that are of the right
kind and no wider than their cells: the line renders, has exactly the nominal width, and the text
found in the nominal columns of each cell is the formatted cell (so every literal separator is in
its own columns as well). -/
theorem fields_in_columns (cells : List Cell) (vals : List Value) (h : allFit cells vals = true) :
    ∃ line, renderCells cells vals = some line ∧ line.length = nominalWidth cells ∧
      (nominal cells).map (fun t => Text.slice t.2.1 t.2.2 line) = cellTexts cells vals :=
  Midgard.Writers.fields_in_columns_aux cells vals h

/-- **Read-back at the nominal columns.**  `line[a:b].strip()` of every cell of a rendered line is
the text of the value, when that text has no outer blanks. -/
theorem readback_nominal (cells : List Cell) (vals : List Value) (h : allFit cells vals = true)
    (hc : allClean cells vals = true) :
    ∃ line, renderCells cells vals = some line ∧
      (nominal cells).map (fun t => strip (Text.slice t.2.1 t.2.2 line)) = valueTexts cells vals :=
  Midgard.Writers.readback_nominal_aux cells vals h hc

/-- **A wider parser column reads the same cell.**  If the columns `[a, s)` and `[e, b)` of a line
are blank, `line[a:b].strip()` equals `line[s:e].strip()`. -/
theorem wider_field_reads_cell (line : Str) (a s e b : Nat) (h1 : a ≤ s) (h2 : s ≤ e) (h3 : e ≤ b)
    (hl : isBlank (Text.slice a s line) = true) (hr : isBlank (Text.slice e b line) = true) :
    strip (Text.slice a b line) = strip (Text.slice s e line) :=
  Midgard.Writers.strip_slice_wider line a s e b h1 h2 h3 hl hr

/-- **How wide a number prints** (`fmtFixed_width`).  If `|q|·10^p ≤ 10^(k+p) − 1`, then
`'{:.pf}'.format(q)` has at most `k` integer digits: sign + `k` + point + `p` characters. -/
theorem fmtFixed_fits (q : Rat) (p k : Nat) (hp : 0 < p) (hk : 0 < k)
    (h : (if q < 0 then -q else q) * Decimal.pow10 p ≤ ((10 ^ (k + p) - 1 : Nat) : Rat)) :
    (Decimal.fmtFixedCore q p).length ≤ (if q < 0 then 1 else 0) + k + 1 + p :=
  Decimal.fmtFixedCore_fits q p k hp hk h

/-- **The property's coordinate domain fits.**  Every coordinate with `|x| ≤ 9 999 999.9999` fits
the `14.4f` cells of SINEX TMS (X, Y, Z) *with a blank to spare* (so adjacent cells stay separated),
and the `14.5f` / `16.5f` cells of the Bernese CRD/VEL lines. -/
theorem coordinate_fits (q : Rat) (hlo : -(99999999999 / 10000 : Rat) ≤ q) (hhi : q ≤ 99999999999 / 10000) :
    fitsCellStrict ⟨none, 14, some 4, .fix⟩ (.num q) = true ∧
    fitsCell ⟨none, 14, some 5, .fix⟩ (.num q) = true ∧
    fitsCell ⟨none, 16, some 5, .fix⟩ (.num q) = true :=
  Decimal.coordinate_fits q hlo hhi

/-- **`fmtFixed_width`, exact.**  Let `s` be the sign column (`1` for `x < 0`, also when the value rounds
to `-0.00`) and `d` the point and decimals (`p + 1`; `0` for `p = 0`).  A cell `'{:w.pf}'` with room for an
integer digit (`w > s + d`) is exactly `w` characters wide iff `|x|·10ᵖ < 10^(w − s − d + p) − 1/2`
(otherwise it is longer: Python never truncates). -/
theorem fmtFixed_width (x : Rat) (w p : Nat)
    (hw : (if x < 0 then 1 else 0) + (if p = 0 then 0 else p + 1) < w) :
    (Decimal.fmtFixed x w p).length = w ↔
      |x| * Decimal.pow10 p < (10 : Rat) ^ (w - (if x < 0 then 1 else 0) - (if p = 0 then 0 else p + 1) + p) - 1 / 2 :=
  Decimal.fmtFixed_width x w p hw

/-- **`parse_fmtFixed`.**  `float('{:w.pf}'.format(x))` (exact) is `x` rounded to `p` decimals: within
`10⁻ᵖ/2`, and `x` itself when `x·10ᵖ` is an integer — for all `w`, `p`, `x`, fitting or overflowing. -/
theorem parse_fmtFixed (x : Rat) (w p : Nat) :
    ∃ v, Decimal.parseFloat (Decimal.fmtFixed x w p) = some v ∧ |v - x| ≤ 1 / 2 / (10 : Rat) ^ p ∧
      (∀ z : Int, x * (10 : Rat) ^ p = (z : Rat) → v = x) :=
  Decimal.parse_fmtFixed x w p

/-- **Every formatted cell reads back** (any alignment, any width, also when it overflows): see
`Writers.ReadsBack` — a number within half a unit of its last printed digit (exactly if it has no more
decimals), an integer exactly, `nan` as `nan`, `-0.0` as zero, clean text as itself. -/
theorem cell_reads_back (spec : Spec) (v : Value) : ReadsBack spec v (fmtValue spec v) :=
  readsBack_fmtValue spec v

/-- **Read-back of the values of a line**, for every line layout and all values that fit their cells:
what the reader finds in the nominal columns of each cell is the value (`ReadsBack`). -/
theorem readback_values (cells : List Cell) (vals : List Value) (h : allFit cells vals = true) :
    ∃ line, renderCells cells vals = some line ∧ (nominal cells).length = (cellValues cells vals).length ∧
      ∀ p ∈ (nominal cells).zip (cellValues cells vals),
        ReadsBack p.2.1 p.2.2 (Text.slice p.1.2.1 p.1.2.2 line) :=
  readback_values_aux cells vals h

/-- **Exact admission condition of a numeric cell** `{:w.pf}` that has room for an integer digit. -/
theorem numeric_cell_accepts (spec : Spec) (x : Rat)
    (hw : (if x < 0 then 1 else 0) + (if spec.prec.getD 6 = 0 then 0 else spec.prec.getD 6 + 1) < spec.width) :
    fitsCell spec (.num x) = true ↔
      |x| * Decimal.pow10 (spec.prec.getD 6) <
        (10 : Rat) ^ (spec.width - (if x < 0 then 1 else 0) - (if spec.prec.getD 6 = 0 then 0 else spec.prec.getD 6 + 1)
          + spec.prec.getD 6) - 1 / 2 :=
  fitsCell_num_iff spec x hw

/-- every numeric cell of every formatted line of the ten writers, and every numeric TIMESERIES/DATA column,
has room for a sign, one integer digit, the point and its decimals (regenerated table) -/
theorem numeric_cells_have_room :
    ((rows.all fun r => (fixSpecs r.cells).all Spec.hasRoom) &&
     (dataTypes.all fun p => p.2.ty != Ty.fix || p.2.hasRoom)) = true := by
  decide +kernel

/-- **Every numeric cell of the regenerated table admits every value below its bound** (sign column
reserved): `|x|·10ᵖ < 10^(w − 1 − d + p) − 1/2` ⇒ the value fits the cell (and then reads back by
`readback_values`). -/
theorem table_cells_accept (r : Row) (hr : r ∈ rows) (sp : Spec) (hsp : sp ∈ fixSpecs r.cells) (x : Rat)
    (h : |x| * Decimal.pow10 (sp.prec.getD 6) <
      (10 : Rat) ^ (sp.width - 1 - (if sp.prec.getD 6 = 0 then 0 else sp.prec.getD 6 + 1) + sp.prec.getD 6) - 1 / 2) :
    fitsCell sp (.num x) = true := by
  have hall := numeric_cells_have_room
  simp only [Bool.and_eq_true, List.all_eq_true] at hall
  exact fitsCell_of_abs_lt sp x (hall.1 r hr sp hsp) h

/-- the specs named in `coordinate_fits` are the ones the source has now -/
theorem coordinate_cells_are_those :
    specOf "X" = some ⟨none, 14, some 4, .fix⟩ ∧ specOf "Y" = some ⟨none, 14, some 4, .fix⟩ ∧
    specOf "Z" = some ⟨none, 14, some 4, .fix⟩ ∧
    specOfCell (rowOf "bernese_crd") "x" = some ⟨none, 16, some 5, .fix⟩ ∧
    specOfCell (rowOf "bernese_crd") "y" = some ⟨none, 14, some 5, .fix⟩ ∧
    specOfCell (rowOf "bernese_crd") "z" = some ⟨none, 14, some 5, .fix⟩ := by
  decide +kernel

/-! ### Alignment of writer cells and parser columns (regenerated tables) -/

/-- Bernese CRD: every `np.genfromtxt` column of parsers/bernese_crd.py contains the whole cell the
writer puts there and otherwise only blank separators. -/
theorem crd_writer_parser_aligned :
    let L := layoutOfWidths crdParserNames crdParserWidths
    let row := rowOf "bernese_crd"
    L.length = 7 ∧ crdParserSkipHeader = 6 ∧
    (List.zip [("number", true), ("station", false), ("domes", false), ("x", true), ("y", true), ("z", true),
        ("flag", false)] L).all
      (fun p => fieldReads row p.1.1 p.1.2 1000 p.2.start p.2.stop) = true := by
  decide +kernel

/-- Bernese CLU: station column exact; the cluster number is read as long as it has at most 7
digits (it is right-aligned in 16 columns of which the parser reads the last 7). -/
theorem clu_writer_parser_aligned :
    let L := layoutOfWidths cluParserNames cluParserWidths
    let row := rowOf "bernese_clu"
    cluParserSkipHeader = 5 ∧
    (match L with
     | [st, _, cl] => fieldReads row "station" false 1000 st.start st.stop &&
                      fieldReads row "cluster" true 7 cl.start cl.stop
     | _ => false) = true := by
  decide +kernel

/-- SINEX TMS reference coordinate line: the parser's `SinexField` start columns cut the line so
that station, epoch, X, Y, Z and system each fall into their own field. -/
theorem tms_ref_coordinate_aligned :
    let row := rowWith "sinex_tms" "ref_pos.trs.x"
    let starts := tmsRefCoordFields.map (·.2)
    let col (n : String) : Nat := (tmsRefCoordFields.lookup n).getD 0
    let next (n : String) : Nat := ((starts.filter (fun s => col n < s)).head?).getD 1000
    (fieldReads row "self.station.upper()" false 9 (col "site_code") (next "site_code") &&
     fieldReads row "ref_pos.trs.x" true 1000 (col "ref_x") (next "ref_x") &&
     fieldReads row "ref_pos.trs.y" true 1000 (col "ref_y") (next "ref_y") &&
     fieldReads row "ref_pos.trs.z" true 1000 (col "ref_z") (next "ref_z") &&
     fieldReads row "self.dset.meta['ref_frame']" false 1000 (col "system") (next "system")) = true := by
  decide +kernel

/-
Full statement: every column of parsers/bernese_sta.py reads the cell the writer puts there.  False
for `description`/`remark` on the current tree: the writer produces the Bernese 5.2 layout
(FORMAT VERSION 1.01) while parsers/bernese_sta.py cuts the 5.4 layout with AZIMUTH and LONG NAME
columns; parsers/bernese_sta_v52.py is the parser that matches.
-/
/-- Bernese STA, TYPE 002: station, DOMES, the two epochs, receiver/antenna types, radome, serial
numbers and the three eccentricities are read from the columns the writer fills. -/
theorem sta_writer_parser_aligned_partial :
    let row := rowWith "bernese_sta" "rcv_serial"
    let f (n : String) : Nat × Nat := ((staParserFields.lookup n).getD (0, 0))
    (fieldReads row "station" false 4 (f "station").1 (f "station").2 &&
     fieldReads row "domes" false 9 (f "domes").1 (f "domes").2 &&
     fieldReads row "date_from" false 19 (f "date_from").1 (f "date_from").2 &&
     fieldReads row "date_to" false 19 (f "date_to").1 (f "date_to").2 &&
     fieldReads row "rcv" false 20 (f "receiver_type").1 (f "receiver_type").2 &&
     fieldReads row "rcv_serial" false 21 (f "receiver_serial_number").1 (f "receiver_serial_number").2 &&
     fieldReads row "ant" false 15 (f "antenna_type").1 (f "antenna_type").2 &&
     fieldReads row "radome" false 4 (f "radome_type").1 (f "radome_type").2 &&
     fieldReads row "ant_serial" false 21 (f "antenna_serial_number").1 (f "antenna_serial_number").2 &&
     fieldReads row "north" true 9 (f "eccentricity_north").1 (f "eccentricity_north").2 &&
     fieldReads row "east" true 9 (f "eccentricity_east").1 (f "eccentricity_east").2 &&
     fieldReads row "up" true 9 (f "eccentricity_up").1 (f "eccentricity_up").2) = true := by
  decide +kernel

/-! ### whole files: `parse (write x) = round_p x` -/

/-- **A file of fixed-width lines is read back cell by cell** — for *every* `np.genfromtxt` parser with a `delimiter`
tuple and *every* writer line whose segments (a cell with the blanks written before it) have the parser's widths
(`lineMatches`, decided on the regenerated tables), every header of exactly `skip_header` lines, any number of lines and
all values within `valsOk` (right kind, no wider than the cell, no outer blanks, no comment marker or line break): the
writer does not raise, and the parser's rows (text-mode reading, line iteration, header skipping, comment cutting, column
cutting, stripping, `float` / `U<n>` conversion) are the written values as the converters read them (`expectField`:
numbers rounded to the printed decimals, integers exactly, NaN as NaN, text cut to the declared length). -/
theorem gft_file_roundtrip (sp : GftSpec) (cells : List Cell) (hm : lineMatches sp cells = true) (hdr : Str)
    (hh : headerOk sp hdr = true) (rowsVals : List (List Value))
    (hv : ∀ vals ∈ rowsVals, valsOk sp cells vals = true) :
    ∃ lines, rowsVals.mapM (renderCells cells) = some lines ∧
      gftParse sp (hdr ++ lines.flatten) =
        rowsVals.map fun vals => List.zipWith expectField sp.dtypes (cellValues cells vals) :=
  gft_file sp cells hm hdr hh rowsVals hv

/-- the Bernese CRD line (regenerated from writers/bernese_crd.py) is cut by the `delimiter` tuple of
parsers/bernese_crd.py (regenerated too) into exactly one cell per column, with only blanks around -/
theorem crd_line_matches_parser : lineMatches crdSpec (rowOf "bernese_crd") = true := crd_lineMatches

/-- the CRD line the round-trip theorem is proved for is the one the source has now -/
theorem crd_layout_is : rowOf "bernese_crd" =
    [.fld "number" ⟨some .right, 3, none, .any⟩, .lit "  ", .fld "station" ⟨none, 4, none, .any⟩, .lit " ",
     .fld "domes" ⟨none, 9, none, .any⟩, .lit " ", .fld "x" ⟨none, 16, some 5, .fix⟩, .lit " ",
     .fld "y" ⟨none, 14, some 5, .fix⟩, .lit " ", .fld "z" ⟨none, 14, some 5, .fix⟩, .lit " ",
     .fld "flag" ⟨some .right, 4, none, .any⟩, .lit "\n"] := crd_row_is

/-- **Bernese CRD, file level: `bernese_crd parser (bernese_crd writer x) = round₅ x`.**  For all header texts, all
station lists and both settings of `write_nan_site_coord` within `crdInRange` (decidable; evaluated by the driver on every
generated case): the writer produces a file, and parsers/bernese_crd.py (`np.genfromtxt` with its regenerated
parameters, then `_remove_blank_entries`) holds exactly one record per written station, in the written order: the running
number, the upper-case station code, the DOMES number, the three coordinates as `float` reads them (`readBack 5`: the
value rounded to 5 decimals, NaN for NaN) and the flag `A`. -/
theorem crd_file_roundtrip (texts : List Str) (writeNan : Bool) (sts : List Station)
    (h : crdInRange texts writeNan sts = true) :
    ∃ file, crdFile texts writeNan sts = some file ∧ crdParse file = (xyzEntries writeNan sts).map crdRecord :=
  crd_file_roundtrip_aux texts writeNan sts h

/-- **Explicit bounds put an input inside the range of `crd_file_roundtrip`** (the property's quantifier): header texts
without line breaks; at most 999 stations; for every station that has coordinates a code of 1–4 characters (in upper
case) and a DOMES number of at most 9 characters (`textOk`: no outer blanks, no `#`, no line break); coordinates that are
numbers up to ±9 999 999.9999, NaN or `-0.0` (`coordOk`). -/
theorem crd_range_sufficient (solution stamp datum epoch : Str) (writeNan : Bool) (sts : List Station)
    (hh : ∀ t ∈ [solution, stamp, datum, epoch], t.all (· != '\n') = true ∧ t.all (· != '\r') = true)
    (hn : sts.length ≤ 999)
    (hs : ∀ st ∈ sts, ∀ x y z, st.xyz = some (x, y, z) →
      textOk 4 (upper st.key) ∧ upper st.key ≠ [] ∧ textOk 9 (st.domes.getD []) ∧ coordOk x ∧ coordOk y ∧ coordOk z) :
    crdInRange [solution, stamp, datum, epoch] writeNan sts = true :=
  crd_range_sufficient_aux solution stamp datum epoch writeNan sts hh hn hs

/-- the VEL line the round-trip theorem is proved for is the one the source has now -/
theorem vel_layout_is : rowOf "bernese_vel" =
    [.fld "number" ⟨some .right, 3, none, .any⟩, .lit "  ", .fld "station" ⟨none, 4, none, .any⟩, .lit " ",
     .fld "domes" ⟨none, 9, none, .any⟩, .lit " ", .fld "x" ⟨none, 16, some 5, .fix⟩, .lit " ",
     .fld "y" ⟨none, 14, some 5, .fix⟩, .lit " ", .fld "z" ⟨none, 14, some 5, .fix⟩, .lit " ",
     .fld "flag" ⟨some .right, 4, none, .any⟩, .lit " ", .fld "plate" ⟨some .right, 7, none, .any⟩, .lit "\n"] := vel_row_is

/-- **Bernese VEL, file level.**  The library has no parser for *.VEL; its CRD parser reads the file (same header
height, same first seven columns; the plate column lies beyond the `delimiter` widths and is ignored).  For all inputs
within `velInRange` (as `crdInRange`, every written station with a tectonic plate of `plate_def` or none): the VEL writer
produces a file, and the CRD parser holds one record per written station, in order: running number, code, DOMES, the three
velocity components rounded to 5 decimals (NaN as NaN), flag `A`. -/
theorem vel_file_roundtrip (texts : List Str) (writeNan : Bool) (sts : List Station)
    (h : velInRange texts writeNan sts = true) :
    ∃ file, velFile texts writeNan sts = some file ∧ crdParse file = (xyzEntries writeNan sts).map crdRecord :=
  vel_file_roundtrip_aux texts writeNan sts h

/-- the CLU line the round-trip theorem is proved for is the one the source has now -/
theorem clu_layout_is : rowOf "bernese_clu" =
    [.fld "station" ⟨none, 4, none, .any⟩, .lit " ", .fld "cluster" ⟨none, 16, none, .any⟩, .lit "\n"] := clu_row_is

/-- **Bernese CLU, file level: `bernese_clu parser (bernese_clu writer x) = x`.**  For all header texts and all lists of
station codes within `cluInRange` (the header has the 5 lines the parser skips; each code has at most 4 characters in
upper case, is not empty, has no outer blanks, `#` or line break): the writer produces a file and the parser's rows
(`np.genfromtxt` with the regenerated `delimiter=(4, 10, 7)`, `dtype=(U4, U9, f8)`, then the rows `as_dict` keeps) are,
in code-point order of the codes, the upper-case code, an empty DOMES text and cluster 1.0 — although the writer's
16-column cluster cell straddles the parser's `domes` and `cluster` columns. -/
theorem clu_file_roundtrip (texts : List Str) (keys : List Str) (h : cluInRange texts keys = true) :
    ∃ file, cluFile texts keys = some file ∧ cluParse file = (sortBy strLe keys).map cluRecord :=
  clu_file_roundtrip_aux texts keys h

/-- header texts without line breaks give the headers the parsers skip exactly: VEL (read by the CRD parser, 6 lines) and
CLU (5 lines) — the header half of `velInRange` / `cluInRange` from explicit bounds -/
theorem vel_clu_headers_ok (solution stamp datum : Str) (h1 : noBreaks solution) (h2 : noBreaks stamp) (h3 : noBreaks datum) :
    (∃ hdr, headerText "bernese_vel" [solution, stamp, datum] = some hdr ∧ headerOk crdSpec hdr = true) ∧
    (∃ hdr, headerText "bernese_clu" [solution, stamp] = some hdr ∧ headerOk cluSpec hdr = true) :=
  ⟨vel_header_ok solution stamp datum h1 h2 h3, clu_header_ok solution stamp h1 h2⟩

/-- **`readBack p` is rounding to `p` decimals**: within half a unit of the last printed digit, and the value itself
when it has no more than `p` decimals -/
theorem readback_is_rounding (p : Nat) (q : Rat) :
    ∃ v, readBack p (.num q) = some v ∧ |v - q| ≤ 1 / 2 / Decimal.pow10 p ∧
      ∀ z : Int, q * Decimal.pow10 p = (z : Rat) → v = q :=
  ⟨_, rfl, Decimal.fixedValue_close q p, fun z hz => Decimal.fixedValue_exact q p z hz⟩

/-! ### what a parser column reads of a written line (semantics of the alignment tables) -/

/-- **A parser column reads a writer cell.**  For any line layout `pre ++ fld n sp :: post`, any values of which those up to
this cell fit their widths, and any parser column `[a, b)`: if — checked on the table — every column `≥ a` of the part before
the cell and every column `< b` of the part after it is a literal blank (`blankFrom`, `blankUpTo`), and `[a, b)` contains the
part of the cell its text occupies (right-aligned: from `end − length` to the end; left-aligned: from the start to
`start + length`), then `line[a:b].strip()` is the text of the cell's value — also when the column is narrower than the cell
on its padded side, wider than the cell, or starts inside the separator before it. -/
theorem parser_column_reads_cell (pre post : List Cell) (n : String) (sp : Spec) (vals : List Value) (line : Str) (a b : Nat)
    (hfit : allFit (pre ++ [.fld n sp]) vals = true)
    (hr : renderCells (pre ++ .fld n sp :: post) vals = some line)
    (hpre : blankFrom a 0 pre = true) (hpost : blankUpTo b (nominalWidth pre + sp.width) post = true) :
    ∃ v rest, vals.drop (fieldCount pre) = v :: rest ∧
      (Clean (v.text sp) = true →
       (if padsRight sp v then a + (v.text sp).length ≤ nominalWidth pre + sp.width ∧ nominalWidth pre + sp.width ≤ b
        else a ≤ nominalWidth pre ∧ nominalWidth pre + (v.text sp).length ≤ b) →
       strip (Text.slice a b line) = v.text sp) :=
  column_reads_cell pre post n sp vals line a b hfit hr hpre hpost

/-- the regenerated column tables of both STA parsers against the regenerated TYPE 002 line: every column of
parsers/bernese_sta_v52.py up to `description`, and the first 15 columns (up to the eccentricities) of parsers/bernese_sta.py,
pass the table check of `parser_column_reads_cell` with the text lengths of `sta002Map` -/
theorem sta_002_tables_read :
    (((sta002Map.map (colEntry sta002Row staV52ParserFields)).all fun e =>
      columnReads sta002Row e.1 e.2.1 e.2.2.1 e.2.2.2.1 e.2.2.2.2) = true ∧
      (∀ e ∈ sta002Map.map (colEntry sta002Row staV52ParserFields), e.1 < 22)) ∧
    ((((sta002Map.take 15).map (colEntry sta002Row staParserFields)).all fun e =>
      columnReads sta002Row e.1 e.2.1 e.2.2.1 e.2.2.2.1 e.2.2.2.2) = true ∧
      (∀ e ∈ (sta002Map.take 15).map (colEntry sta002Row staParserFields), e.1 < 22)) :=
  ⟨sta_v52_table, sta_54_table⟩

/-- **Bernese STA, TYPE 002, line level through parsers/bernese_sta_v52.py**: for all values of a TYPE 002 line of which those
up to `description` fit their cells: every one of the parser's 16 fixed columns (`line.rstrip()[a:b].strip()`), is the text of
the writer cell it belongs to (`sta002Map`: station, DOMES, flag, the two epochs, receiver type / serial number / short
number, antenna type, radome, antenna serial number / short number, the three eccentricities, description) — provided the
text has no outer blanks and at most the length the parser's column still contains (DOMES 9, epochs 20, serial numbers 21,
short numbers 7, eccentricities 9 characters, …). -/
theorem sta_002_columns_v52 (vals : List Value) (line : Str) (hfit : allFit (sta002Row.take 22) vals = true)
    (hr : renderCells sta002Row vals = some line) :
    ∀ m ∈ sta002Map, ∃ n sp v rest, sta002Row[cellIndex sta002Row m.2.1]? = some (.fld n sp) ∧
      vals.drop (fieldCount (sta002Row.take (cellIndex sta002Row m.2.1))) = v :: rest ∧
      (Clean (v.text sp) = true → padsRight sp v = (sp.align == some Align.right) → (v.text sp).length ≤ m.2.2 →
        strip (Text.slice ((staV52ParserFields.lookup m.1).getD (0, 0)).1 ((staV52ParserFields.lookup m.1).getD (0, 0)).2
          (rstrip line)) = v.text sp) :=
  sta_002_columns_aux staV52ParserFields sta002Map sta_v52_table vals line hfit hr

/-
Full statement: the same for all 19 columns of parsers/bernese_sta.py.  False on the current tree for `azimuth`,
`long_name`, `description`, `remark`: that parser cuts the Bernese 5.4 layout, the writer produces the 5.2 layout.
-/
/-- … and through parsers/bernese_sta.py, for its first 15 columns (station … eccentricities) -/
theorem sta_002_columns_54_partial (vals : List Value) (line : Str) (hfit : allFit (sta002Row.take 22) vals = true)
    (hr : renderCells sta002Row vals = some line) :
    ∀ m ∈ sta002Map.take 15, ∃ n sp v rest, sta002Row[cellIndex sta002Row m.2.1]? = some (.fld n sp) ∧
      vals.drop (fieldCount (sta002Row.take (cellIndex sta002Row m.2.1))) = v :: rest ∧
      (Clean (v.text sp) = true → padsRight sp v = (sp.align == some Align.right) → (v.text sp).length ≤ m.2.2 →
        strip (Text.slice ((staParserFields.lookup m.1).getD (0, 0)).1 ((staParserFields.lookup m.1).getD (0, 0)).2
          (rstrip line)) = v.text sp) :=
  sta_002_columns_aux staParserFields (sta002Map.take 15) sta_54_table vals line hfit hr

/-- the open-ended `remark` column of the 5.2 parser (`line.rstrip()[226:].strip()`) is the remark text (the receiver
firmware), whatever its length -/
theorem sta_002_remark_v52 (vals : List Value) (line : Str) (hfit : allFit (sta002Row.take 22) vals = true)
    (hr : renderCells sta002Row vals = some line) :
    ∃ v rest, vals.drop 16 = v :: rest ∧
      (Clean (v.text ⟨none, 0, none, .any⟩) = true → v.okFor ⟨none, 0, none, .any⟩ = true →
        padsRight ⟨none, 0, none, .any⟩ v = false →
        strip (sliceFrom 226 (rstrip line)) = v.text ⟨none, 0, none, .any⟩) :=
  sta_002_remark_aux vals line hfit hr

/-- the map names the cells it means, the remark cell is the zero-wide last cell before the newline, and the 5.2 parser's
open column starts in the blank before it -/
theorem sta_002_map_names : (sta002Map.all fun m => match sta002Row[cellIndex sta002Row m.2.1]? with
      | some (.fld n _) => n == m.2.1 | _ => false) = true ∧
    sta002Row.drop 22 = [.fld "remark" ⟨none, 0, none, .any⟩, .lit "\n"] ∧
    blankFrom 226 0 (sta002Row.take 22) = true ∧ 226 ≤ nominalWidth (sta002Row.take 22) ∧
    fieldCount (sta002Row.take 22) = 16 := sta_002_names

/-- **SINEX-TMS TIMESERIES/REF_COORDINATE, line level**: every `SinexField` column of the parser's
`timeseries_ref_coordinate` table that belongs to a formatted cell (station, epoch, X, Y, Z, reference frame; `[start, next
start)`, the last one up to the end of the line) reads the text of that cell, for all values that fit their cells — the
semantic form of `tms_ref_coordinate_aligned`; the numbers then are the reference coordinates rounded to 4 decimals
(`parse_fmtFixed`). -/
theorem tms_ref_coordinate_columns (vals : List Value) (line : Str) (hfit : allFit tmsRefRow vals = true)
    (hr : renderCells tmsRefRow vals = some line) :
    ∀ m ∈ tmsRefMap, ∃ n sp v rest, tmsRefRow[cellIndex tmsRefRow m.2.1]? = some (.fld n sp) ∧
      vals.drop (fieldCount (tmsRefRow.take (cellIndex tmsRefRow m.2.1))) = v :: rest ∧
      (Clean (v.text sp) = true → padsRight sp v = (sp.align == some Align.right) → (v.text sp).length ≤ m.2.2 →
        strip (Text.slice
          (((sinexFieldIntervals tmsRefCoordFields (nominalWidth tmsRefRow.dropLast)).lookup m.1).getD (0, 0)).1
          (((sinexFieldIntervals tmsRefCoordFields (nominalWidth tmsRefRow.dropLast)).lookup m.1).getD (0, 0)).2
          (rstrip line)) = v.text sp) :=
  tms_ref_columns_aux vals line hfit hr

/-! ### Bernese STA: which TYPE 002 records are written (`Model/WriterSta.lean`) -/

/-- **`_get_object_for_date` returns an entry of the history whose period contains the date** (and `none` exactly in an
interruption of the history: `sta_lookup_complete`) -/
theorem sta_lookup_sound (d : Int) (h : WriterSta.Hist) (e : WriterSta.Entry) (he : WriterSta.objectForDate d h = some e) :
    e ∈ h ∧ e.from_ ≤ d ∧ d < e.to_ :=
  WriterSta.objectForDate_sound d h e he

theorem sta_lookup_complete (d : Int) (h : WriterSta.Hist) :
    (WriterSta.objectForDate d h).isSome = true ↔ ∃ e ∈ h, e.from_ ≤ d ∧ d < e.to_ := by
  constructor
  · intro hs
    obtain ⟨e, he⟩ := Option.isSome_iff_exists.mp hs
    exact ⟨e, WriterSta.objectForDate_sound d h e he⟩
  · rintro ⟨e, hm, h1, h2⟩
    exact WriterSta.objectForDate_complete d h e hm h1 h2

/-- **Every TYPE 002 record names equipment that is installed at its start**, for all receiver / antenna / eccentricity
histories (in any order, with interruptions, overlaps, open ends) and both settings of `skip_firmware`: the receiver, the
antenna and the eccentricity of the record are entries of the site information whose period contains the record's start;
no record starts inside an interruption of a history. -/
theorem sta_records_equipment_installed (sf : Bool) (rcv ant ecc : WriterSta.Hist) (r : WriterSta.Record)
    (hr : r ∈ WriterSta.staRecords sf rcv ant ecc) :
    (r.rcv ∈ rcv ∧ r.rcv.from_ ≤ r.from_ ∧ r.from_ < r.rcv.to_) ∧
    (r.ant ∈ ant ∧ r.ant.from_ ≤ r.from_ ∧ r.from_ < r.ant.to_) ∧
    (r.ecc ∈ ecc ∧ r.ecc.from_ ≤ r.from_ ∧ r.from_ < r.ecc.to_) :=
  WriterSta.staRecords_sound sf rcv ant ecc r hr

/-- **Every pair of consecutive record dates (equipment changes and ends of entries without successor) at whose start all three kinds of equipment are installed has its
record**, starting and ending at these dates -/
theorem sta_records_complete (sf : Bool) (rcv ant ecc : WriterSta.Hist) (p : Int × Int)
    (hp : p ∈ WriterSta.pairwise (WriterSta.recordDates sf rcv ant ecc))
    (h1 : ∃ e ∈ rcv, e.from_ ≤ p.1 ∧ p.1 < e.to_) (h2 : ∃ e ∈ ant, e.from_ ≤ p.1 ∧ p.1 < e.to_)
    (h3 : ∃ e ∈ ecc, e.from_ ≤ p.1 ∧ p.1 < e.to_) :
    ∃ r ∈ WriterSta.staRecords sf rcv ant ecc, r.from_ = p.1 ∧ r.to_ = p.2 :=
  WriterSta.staRecords_complete sf rcv ant ecc p hp h1 h2 h3

/-- **Every TYPE 002 record covers a non-empty interval** (the event dates are strictly ascending) -/
theorem sta_records_nonempty_interval (sf : Bool) (rcv ant ecc : WriterSta.Hist) (r : WriterSta.Record)
    (hr : r ∈ WriterSta.staRecords sf rcv ant ecc) : r.from_ < r.to_ :=
  WriterSta.staRecords_from_lt_to sf rcv ant ecc r hr

/-- **No TYPE 002 record outlasts the entries it names** (writer repaired: a record used to run to the next equipment
change also when the entry had ended before — an interrupted history — and so claimed equipment for a time in which the site
information has none): the record ends no later than its antenna and eccentricity entries and, without `skip_firmware`
(which deliberately merges receiver entries that differ in firmware only), its receiver entry. -/
theorem sta_records_within_entries (sf : Bool) (rcv ant ecc : WriterSta.Hist) (r : WriterSta.Record)
    (hr : r ∈ WriterSta.staRecords sf rcv ant ecc) :
    r.to_ ≤ r.ant.to_ ∧ r.to_ ≤ r.ecc.to_ ∧ (sf = false → r.to_ ≤ r.rcv.to_) :=
  WriterSta.staRecords_within_entries sf rcv ant ecc r hr

/-- the situation of seeded change C17/r3-2: no receiver between 100 and 200, the antenna changes at 150 — no record starts
at 150, the record of the first receiver ends at 100 where its entry ends (repaired writer), and the record after the
interruption names the second receiver -/
theorem sta_gap_witness :
    (WriterSta.staRecords false [⟨0, 100, 0⟩, ⟨200, 1000, 1⟩] [⟨0, 150, 0⟩, ⟨150, 1000, 0⟩] [⟨0, 1000, 0⟩]).map
      (fun r => (r.from_, r.to_, r.rcv.cls)) = [(0, 100, 0), (200, 1000, 1)] := by
  decide +kernel

/-! ### SINEX TMS, block level: writer ∘ parser on TIMESERIES/DATA (composition with C14) -/

/-- **TIMESERIES/DATA round trip: the sinex_tms parser (file-level model and theorem `tms_data_roundtrip` of C14) applied to
the lines the sinex_tms writer produces.**  For all column lists and all epochs within `tmsRowsInRange` (every column has a
format and a value of the right kind; every value text is a whitespace token; every cell after the first is right-aligned
and leaves a blank — `coordinate_fits` gives that for X/Y/Z up to ±9 999 999.9999, the `12.4f` ENU cells need |v| < 100 000,
see the finding `sinex_tms:column-overflow`): the writer renders every line, and whenever `parse_timeseries_data` returns,
the entry stored under the lower-cased name of the `j`-th column is the conversion (`tmsCol`: `astype(float)` / `astype(str)`)
of the texts of the `j`-th value of every line, in line order — for number columns the values rounded to the printed
decimals (`tms_float_column_rounded`). -/
theorem tms_data_block_roundtrip (cols : List String) (epochs : List Env) (hr : tmsRowsInRange cols epochs = true)
    (hne : epochs ≠ []) (hc : cols ≠ [])
    (hnd : ((cols.map String.toList).map fun nm => asString (lower nm)).Nodup) :
    ∃ rows lines, epochs.mapM (tmsCells cols) = some rows ∧ epochs.mapM (tmsLine cols) = some lines ∧
      ∀ D, Midgard.Sinex.tmsData (cols.map String.toList) lines = some D →
        ∀ (j : Nat) (hj : j < (cols.map String.toList).length),
          Midgard.Sinex.dget? D (asString (lower (cols.map String.toList)[j])) =
            Midgard.Sinex.tmsCol (cols.map String.toList)[j]
              (rows.map fun r => (r.map fun sv => sv.2.text sv.1).getD j []) :=
  tms_data_block_aux cols epochs hr hne hc hnd

/-- a number column reads back as its values rounded to the printed decimals -/
theorem tms_float_column_rounded (name : Str) (p : Nat) (qs : List Rat)
    (hn : Midgard.Sinex.dtypeStr.contains name = false) :
    Midgard.Sinex.tmsCol name (qs.map fun q => Decimal.fmtFixedCore q p) =
      some (.col (qs.map fun q => Midgard.Sinex.Cell.flt (some (Decimal.fixedValue q p)))) :=
  tms_float_column name p qs hn

/-- every column after the first of `DATA_FIELD_TYPES` is a number cell (right-aligned by default), as the range of
`tms_data_block_roundtrip` needs; the column names are distinct after lower-casing -/
theorem tms_columns_right_aligned :
    ((dataFieldTypes.drop 1).all fun p => match specOf p.1 with
      | some sp => (sp.ty == Ty.fix || sp.ty == Ty.int) && sp.align != some Align.left
      | none => false) = true ∧
    ((dataFieldTypes.map fun p => asString (lower p.1.toList)).Nodup) := by
  decide +kernel

/-! ### csv_, line level -/

/-- **A csv data line read back.**  For every list of formats (`%s`, `%d`, `%.nf`) and values: the line `np.savetxt` writes,
cut at `,` / `;` (the separator class of parsers/csv_.py), gives as many pieces as values, each piece the text of its value,
and that text reads back (`csvReadsBack`: a number as the value rounded to its decimals, an integer exactly, `nan` as `nan`,
text as itself) — provided no text value contains a separator.  (What pandas then infers per column — dtype, NaN columns —
is measured, not modelled.) -/
theorem csv_line_roundtrip (fmts : List CsvFmt) (vals : List Value) (line : Str) (h : csvLine fmts vals = some line)
    (hne : vals ≠ []) (hs : ∀ s, Value.str s ∈ vals → ∀ c ∈ s, isCsvSep c = false) :
    ∃ texts, splitSep line = texts ∧
      List.Forall₂ (fun (fv : CsvFmt × Value) t => csvReadsBack fv.1 fv.2 t) (fmts.zip vals) texts :=
  csv_line_roundtrip_aux fmts vals line h hne hs

/-- **The writer's field → column table composed with the parser's column → field table is the identity on field names**
(both regenerated: `DATA_FIELD_TYPES` of writers/sinex_tms.py, `field_def` of `SinexTmsParser.as_dataset`): every column
the parser stores as a float field is written by the writer from exactly that field, every plain float field the writer
writes (everything but the time columns and the components of `site_pos` / `dsite_pos`) comes back under its own name, and
no parser key occurs twice. -/
theorem tms_field_tables_agree :
    (tmsParserFieldDef.all fun p => dataFieldTypes.any fun w => w.1.toLower = p.1 && w.2 = p.2) = true ∧
    (dataFieldTypes.all fun w =>
      w.2.startsWith "time." || w.2.startsWith "obs.site_pos." || w.2.startsWith "obs.dsite_pos." ||
      tmsParserFieldDef.lookup w.1.toLower = some w.2) = true ∧
    (tmsParserFieldDef.map (·.1)).Nodup := by
  decide +kernel

/-! ### csv_: the parser model (pandas behaviours P1–P10 of `Model/WriterCsv.lean`, probed on every run) on written files -/

/-- **The token rows of a written file**: a header line and data lines joined with commas from plain tokens (no separator,
`#`, line break or leading blank; no line that is a single blank token) are cut by the parser model into exactly these rows
(text mode, line iteration, comment cutting, separator class, `skipinitialspace`, blank-line skipping). -/
theorem csv_rows_of_written_file (rows : List (List Str)) (hne : ∀ r ∈ rows, r ≠ [])
    (hplain : ∀ r ∈ rows, ∀ t ∈ r, WriterCsv.plainTok t = true)
    (hkeep : ∀ r ∈ rows, ¬ (r.length = 1 ∧ isBlank (r.headD []) = true)) :
    WriterCsv.csvRows ((rows.map fun r => joinWith ',' r ++ ['\n']).flatten) = rows :=
  WriterCsv.csvRows_written rows hne hplain hkeep

/-- a `%d` column is read as exactly its integers -/
theorem csv_int_column (is : List Int) (hne : is ≠ []) :
    WriterCsv.inferCol (is.map Decimal.fmtInt) = some (.ints is) :=
  WriterCsv.infer_int_column is hne

/-- a `%.pf` column (`p > 0`, not all NaN) is read as a float column: every value rounded to `p` decimals, NaN for NaN -/
theorem csv_float_column (p : Nat) (hp : 0 < p) (vs : List (Option Rat)) (hsome : ∃ v ∈ vs, v.isSome = true) :
    WriterCsv.inferCol (vs.map (WriterCsv.floatTok p)) =
      some (.floats (vs.map fun v => v.map fun q => Decimal.fixedValue q p)) :=
  WriterCsv.infer_float_column p hp vs hsome

/-- a column printed as `nan` throughout is dropped by the parser (by design: `dropna(axis="columns", how="all")`) -/
theorem csv_nan_column_dropped (n : Nat) : WriterCsv.inferCol (List.replicate n "nan".toList) = none :=
  WriterCsv.infer_nan_column n

/-- a `%s` column none of whose tokens is an NA token and one of whose tokens is no number (nor `True`/`False`) is read as
exactly its texts.  (A text column of numbers only is read as numbers — P2 — and one containing `NA`, `null`, … loses
them — P5: both outside the range.) -/
theorem csv_text_column (toks : List Str) (hna : ∀ t ∈ toks, WriterCsv.isNA t = false)
    (hx : ∃ t ∈ toks, WriterCsv.isFloatTok t = false ∧ WriterCsv.isIntTok t = false ∧ WriterCsv.isBoolTok t = false) :
    WriterCsv.inferCol toks = some (.strs toks) :=
  WriterCsv.infer_text_column toks hna hx

/-- the time columns are written from the UTC representation of the time field (the parser adds them back as UTC) -/
theorem tms_time_columns_are_utc :
    (dataFieldTypes.all fun w => !w.2.startsWith "time." || w.2.startsWith "time.utc.") = true := by
  decide +kernel

/-! ### the writers do not alter what they are given -/

/-- **No writer assigns to, deletes from or calls a mutating method on an object reachable from its arguments or
from a module-level table** — the table is regenerated on every run by a flow-sensitive `ast` taint analysis of the ten
writer modules (translator/extract_writer_effects.py: arguments of the registered function and module-level containers
as roots; aliases, loop variables, `self` attributes and calls inside the module followed; copies are clean).  Soundness
of the analysis is trusted and validated dynamically (every argument and module-level container is digested before and
after every writer call of the correspondence). -/
theorem writers_assign_nothing_on_inputs : Midgard.Generated.WriterEffects.writerEffects = [] := by
  decide +kernel

/-- the analysis had something to look at: each of the ten writers has a registered function, and its dataset or site
information argument is a root -/
theorem writer_effect_roots_cover :
    (["bernese_abb", "bernese_clu", "bernese_crd", "bernese_sta", "bernese_vel", "csv_", "gamit_apr_eq",
      "gamit_station_info", "gipsyx_site_info", "sinex_tms"].all fun w =>
        Midgard.Generated.WriterEffects.writerRoots.any fun r => r.1 = w && (r.2 = "arg:site_info" || r.2 = "arg:dset")) = true := by
  decide +kernel

/-! ### SINEX TMS -/

/-- every combination of optional blocks gives balanced, un-nested `+BLOCK … -BLOCK` markers -/
theorem blocks_balanced (e d r : Bool) : balanced none (tmsMarkers (tmsBlocks e d r)) = true := by
  cases e <;> cases d <;> cases r <;> decide +kernel

/-- every column the writer can emit has a cell format the model covers -/
theorem tms_columns_have_types : (dataFieldTypes.all fun p => (specOf p.1).isSome) = true := by
  decide +kernel

theorem data_types_modelled : dataTypesUnmodelled = [] := by
  decide +kernel

/-- the estimate-parameter table has no key twice (a dict literal would silently drop the first
of two equal keys — the `VEL_Y_SIG`/`VEL_Z_SIG` slip) -/
theorem estimate_keys_distinct : (estimateKeys.map (·.1)).Nodup := by
  decide +kernel

/-- a TIMESERIES/DATA line of `k` columns splits into `k` blank-separated tokens when every value
is non-empty, free of blanks and leaves at least one blank in its (right-aligned) cell -/
theorem tms_data_tokens (parts : List (Nat × Str))
    (h : ∀ p ∈ parts, p.2 ≠ [] ∧ (∀ c ∈ p.2, isSpace c = false) ∧ p.2.length < p.1) :
    Text.split (' ' :: (parts.map fun p => rjust p.1 p.2).flatten) = parts.map (·.2) :=
  Midgard.Writers.split_rjust_cells parts h

/-- The overflow the layout allows (finding `sinex_tms:column-overflow:EAST/NORTH/UP`): an east
component of −100 000 m fills its `12.4f` cell, merges with the value before it, and the line
splits into one token fewer than it has columns. -/
theorem tms_overflow_witness :
    ((tmsLine ["YEAR", "EAST"] [("YEAR", .num (4047 / 2)), ("EAST", .num (-100000))]).map
      fun l => (Text.split l).length) = some 1 ∧
    ((tmsLine ["YEAR", "EAST"] [("YEAR", .num (4047 / 2)), ("EAST", .num (-99999))]).map
      fun l => (Text.split l).length) = some 2 := by
  decide +kernel

/-! ### non-vacuity -/

example : ReadsBack ⟨none, 8, some 2, .fix⟩ (.num (-5 / 2)) "   -2.50".toList := by
  have := cell_reads_back ⟨none, 8, some 2, .fix⟩ (.num (-5 / 2))
  have e : fmtValue ⟨none, 8, some 2, .fix⟩ (.num (-5 / 2)) = "   -2.50".toList := by decide +kernel
  rwa [e] at this

example : allFit (rowOf "bernese_crd")
    [.int 1, .str "ADAC".toList, .str "10337M001".toList, .num (191624041921 / 100000),
     .num (-999999999999 / 100000), .num 0, .str ['A']] = true := by decide +kernel

/-- the range of the CRD round trip is inhabited: header texts as the writer builds them, three stations (one without
coordinates, one NaN, full-width values, empty and 9-character DOMES) -/
example : crdInRange ["NMA solution 20260930".toList, "30-SEP-26 02:09".toList, "IGb14".toList, "2010-01-01 00:00:00".toList] true
    [⟨"adac".toList, some (.num (191624041921 / 100000), .num (-999999999999 / 100000), .num 0), some "10337M001".toList, none⟩,
     ⟨"zimm".toList, some (.nan, .negz, .num (1 / 3)), none, none⟩,
     ⟨"0abi".toList, none, some [], none⟩] = true := by decide +kernel

example : velInRange ["NMA solution 20260930".toList, "30-SEP-26 02:09".toList, "IGb14".toList] false
    [⟨"adac".toList, some (.num (-93 / 5000), .num (47 / 5000), .nan), some "10337M001".toList, some "Eurasian".toList⟩,
     ⟨"zimm".toList, some (.nan, .num 0, .num 0), none, none⟩] = true := by decide +kernel

example : tmsRowsInRange ["YYYY-MM-DD", "YEAR", "X", "EAST"]
    [[("YYYY-MM-DD", .str "2023-05-22".toList), ("YEAR", .num (202338767 / 100000)), ("X", .num (43312968156 / 10000)),
      ("EAST", .num (-99999))]] = true := by decide +kernel

example : ∃ line, csvLine [.s, .f 2, .d] [.str "G01".toList, .num (5 / 2), .int 7] = some line := ⟨_, rfl⟩

/-- a TYPE 002 line within the hypotheses of `sta_002_columns_v52` -/
example : allFit (sta002Row.take 22)
    [.str "ARGI".toList, .str "10117M002".toList, .str "001".toList, .str "2008 09 25 00 00 00".toList,
     .str "2016 11 11 00 00 00".toList, .str "LEICA GRX1200GGPRO".toList, .str "356103".toList, .str "356103".toList,
     .str "LEIAT504GG".toList, .str "LEIS".toList, .str "999999".toList, .str "999999".toList, .num 0, .num 0, .num (27 / 5000),
     .str "Argir, Torshavn, FO".toList, .str "6.00".toList] = true := by decide +kernel

example : WriterCsv.csvParse "date,sat,amp\n2015-10-05 18:07:24,G01,0.12\n2015-10-06 18:07:24,E11,nan\n".toList =
    [("date", .strs ["2015-10-05 18:07:24".toList, "2015-10-06 18:07:24".toList]), ("sat", .strs ["G01".toList, "E11".toList]),
     ("amp", .floats [some (3 / 25), none])] := by decide +kernel

example : cluInRange ["NMA solution".toList, "30-SEP-26 02:09".toList] ["zimm".toList, "0abi".toList, "ab".toList] = true := by
  decide +kernel

end Midgard.Props.C17

#print axioms Midgard.Props.C17.fields_in_columns
#print axioms Midgard.Props.C17.readback_nominal
#print axioms Midgard.Props.C17.wider_field_reads_cell
#print axioms Midgard.Props.C17.fmtFixed_fits
#print axioms Midgard.Props.C17.coordinate_fits
#print axioms Midgard.Props.C17.fmtFixed_width
#print axioms Midgard.Props.C17.parse_fmtFixed
#print axioms Midgard.Props.C17.cell_reads_back
#print axioms Midgard.Props.C17.readback_values
#print axioms Midgard.Props.C17.numeric_cell_accepts
#print axioms Midgard.Props.C17.numeric_cells_have_room
#print axioms Midgard.Props.C17.table_cells_accept
#print axioms Midgard.Props.C17.coordinate_cells_are_those
#print axioms Midgard.Props.C17.crd_writer_parser_aligned
#print axioms Midgard.Props.C17.clu_writer_parser_aligned
#print axioms Midgard.Props.C17.tms_ref_coordinate_aligned
#print axioms Midgard.Props.C17.sta_writer_parser_aligned_partial
#print axioms Midgard.Props.C17.gft_file_roundtrip
#print axioms Midgard.Props.C17.crd_line_matches_parser
#print axioms Midgard.Props.C17.crd_layout_is
#print axioms Midgard.Props.C17.crd_file_roundtrip
#print axioms Midgard.Props.C17.crd_range_sufficient
#print axioms Midgard.Props.C17.vel_clu_headers_ok
#print axioms Midgard.Props.C17.readback_is_rounding
#print axioms Midgard.Props.C17.vel_layout_is
#print axioms Midgard.Props.C17.vel_file_roundtrip
#print axioms Midgard.Props.C17.clu_layout_is
#print axioms Midgard.Props.C17.clu_file_roundtrip
#print axioms Midgard.Props.C17.parser_column_reads_cell
#print axioms Midgard.Props.C17.sta_002_tables_read
#print axioms Midgard.Props.C17.sta_002_columns_v52
#print axioms Midgard.Props.C17.sta_002_columns_54_partial
#print axioms Midgard.Props.C17.sta_002_remark_v52
#print axioms Midgard.Props.C17.sta_002_map_names
#print axioms Midgard.Props.C17.tms_ref_coordinate_columns
#print axioms Midgard.Props.C17.sta_lookup_sound
#print axioms Midgard.Props.C17.sta_lookup_complete
#print axioms Midgard.Props.C17.sta_records_equipment_installed
#print axioms Midgard.Props.C17.sta_records_complete
#print axioms Midgard.Props.C17.sta_records_nonempty_interval
#print axioms Midgard.Props.C17.sta_records_within_entries
#print axioms Midgard.Props.C17.sta_gap_witness
#print axioms Midgard.Props.C17.tms_data_block_roundtrip
#print axioms Midgard.Props.C17.tms_float_column_rounded
#print axioms Midgard.Props.C17.tms_columns_right_aligned
#print axioms Midgard.Props.C17.csv_line_roundtrip
#print axioms Midgard.Props.C17.tms_field_tables_agree
#print axioms Midgard.Props.C17.csv_rows_of_written_file
#print axioms Midgard.Props.C17.csv_int_column
#print axioms Midgard.Props.C17.csv_float_column
#print axioms Midgard.Props.C17.csv_nan_column_dropped
#print axioms Midgard.Props.C17.csv_text_column
#print axioms Midgard.Props.C17.tms_time_columns_are_utc
#print axioms Midgard.Props.C17.writers_assign_nothing_on_inputs
#print axioms Midgard.Props.C17.writer_effect_roots_cover
#print axioms Midgard.Props.C17.blocks_balanced
#print axioms Midgard.Props.C17.tms_columns_have_types
#print axioms Midgard.Props.C17.data_types_modelled
#print axioms Midgard.Props.C17.estimate_keys_distinct
#print axioms Midgard.Props.C17.tms_data_tokens
#print axioms Midgard.Props.C17.tms_overflow_witness
