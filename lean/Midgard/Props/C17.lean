/-
C17 — Written files are format-conformant and read back to the same values.

Property theorems only (helpers in Proofs/Writers.lean).  The line layouts, `DATA_TYPES` and the
parsers' column tables are regenerated from the source on every run (`Generated/WriterLayouts`).

* `fields_in_columns` — for *every* line layout and *all* values that fit their cells: the line has
  exactly its nominal width and every cell sits in its nominal columns (so the literal separators
  do too); `readback_nominal` — reading those columns back with `line[a:b].strip()` returns the
  text of each value.
* `wider_field_reads_cell` — a parser column that is wider than the writer's cell still reads the
  cell when the rest of the column is blank; with the `decide`d alignment obligations
  (`crd_writer_parser_aligned`, `clu_…`, `tms_ref_coordinate_…`, `sta_…_partial`) this is the
  read-back of the Bernese and SINEX-TMS fixed-column lines on the text level.
* `tms_data_tokens` — the TIMESERIES/DATA line (cells adjacent, reader splits on blanks) yields one
  token per column when every value leaves a blank in its cell.
* `blocks_balanced`, `estimate_keys_distinct`, `data_types_modelled`, `tms_columns_have_types`.

* `fmtFixed_fits`, `coordinate_fits` — how wide a number prints; the property's coordinate domain
  (±9 999 999.9999) fits the coordinate cells (`14.4f` with a blank to spare, `14.5f`, `16.5f`).

Not proved (measured by the correspondence on every run): that the decimal text of a number parses
back to within half a unit of the last printed digit (`float(fmtFixed q w p)`), NumPy's
`genfromtxt`/`savetxt`, pandas' `read_csv`.
-/
import Midgard.Proofs.Writers

namespace Midgard.Props.C17
open Midgard.Text Midgard.FixedCol Midgard.WriterCells Midgard.Writers Midgard.Generated.WriterLayouts

/-- **Every field inside its columns.**  For any line layout and any values that are of the right
kind and no wider than their cells: the line renders, has exactly the nominal width, and the text
found in the nominal columns of each cell is the formatted cell (so every literal separator is in
its own columns as well). -/
theorem fields_in_columns (cells : List Cell) (vals : List Value) (h : allFit cells vals = true) :
    ∃ line, renderCells cells vals = some line ∧ line.length = nominalWidth cells ∧
      (nominal cells).map (fun t => Text.slice t.2.1 t.2.2 line) = cellTexts cells vals :=
  Midgard.Writers.fields_in_columns_aux cells vals h

/-- **Read-back at the nominal columns.**  `line[a:b].strip()` of every cell of a rendered line is
the text of the value, when that text has no outer blanks. -/
theorem readback_nominal (cells : List Cell) (vals : List Value) (h : allFit cells vals = true)
    (hc : allClean cells vals = true) :
    ∃ line, renderCells cells vals = some line ∧
      (nominal cells).map (fun t => strip (Text.slice t.2.1 t.2.2 line)) = valueTexts cells vals :=
  Midgard.Writers.readback_nominal_aux cells vals h hc

/-- **A wider parser column reads the same cell.**  If the columns `[a, s)` and `[e, b)` of a line
are blank, `line[a:b].strip()` equals `line[s:e].strip()`. -/
theorem wider_field_reads_cell (line : Str) (a s e b : Nat) (h1 : a ≤ s) (h2 : s ≤ e) (h3 : e ≤ b)
    (hl : isBlank (Text.slice a s line) = true) (hr : isBlank (Text.slice e b line) = true) :
    strip (Text.slice a b line) = strip (Text.slice s e line) :=
  Midgard.Writers.strip_slice_wider line a s e b h1 h2 h3 hl hr

/-- **How wide a number prints** (`fmtFixed_width`).  If `|q|·10^p ≤ 10^(k+p) − 1`, then
`'{:.pf}'.format(q)` has at most `k` integer digits: sign + `k` + point + `p` characters. -/
theorem fmtFixed_fits (q : Rat) (p k : Nat) (hp : 0 < p) (hk : 0 < k)
    (h : (if q < 0 then -q else q) * Decimal.pow10 p ≤ ((10 ^ (k + p) - 1 : Nat) : Rat)) :
    (Decimal.fmtFixedCore q p).length ≤ (if q < 0 then 1 else 0) + k + 1 + p :=
  Decimal.fmtFixedCore_fits q p k hp hk h

/-- **The property's coordinate domain fits.**  Every coordinate with `|x| ≤ 9 999 999.9999` fits
the `14.4f` cells of SINEX TMS (X, Y, Z) *with a blank to spare* (so adjacent cells stay separated),
and the `14.5f` / `16.5f` cells of the Bernese CRD/VEL lines. -/
theorem coordinate_fits (q : Rat) (hlo : -(99999999999 / 10000 : Rat) ≤ q) (hhi : q ≤ 99999999999 / 10000) :
    fitsCellStrict ⟨none, 14, some 4, .fix⟩ (.num q) = true ∧
    fitsCell ⟨none, 14, some 5, .fix⟩ (.num q) = true ∧
    fitsCell ⟨none, 16, some 5, .fix⟩ (.num q) = true :=
  Decimal.coordinate_fits q hlo hhi

/-- the specs named in `coordinate_fits` are the ones the source has now -/
theorem coordinate_cells_are_those :
    specOf "X" = some ⟨none, 14, some 4, .fix⟩ ∧ specOf "Y" = some ⟨none, 14, some 4, .fix⟩ ∧
    specOf "Z" = some ⟨none, 14, some 4, .fix⟩ ∧
    specOfCell (rowOf "bernese_crd") "x" = some ⟨none, 16, some 5, .fix⟩ ∧
    specOfCell (rowOf "bernese_crd") "y" = some ⟨none, 14, some 5, .fix⟩ ∧
    specOfCell (rowOf "bernese_crd") "z" = some ⟨none, 14, some 5, .fix⟩ := by
  decide +kernel

/-! ### Alignment of writer cells and parser columns (regenerated tables) -/

/-- Bernese CRD: every `np.genfromtxt` column of parsers/bernese_crd.py contains the whole cell the
writer puts there and otherwise only blank separators. -/
theorem crd_writer_parser_aligned :
    let L := layoutOfWidths crdParserNames crdParserWidths
    let row := rowOf "bernese_crd"
    L.length = 7 ∧ crdParserSkipHeader = 6 ∧
    (List.zip [("number", true), ("station", false), ("domes", false), ("x", true), ("y", true), ("z", true),
        ("flag", false)] L).all
      (fun p => fieldReads row p.1.1 p.1.2 1000 p.2.start p.2.stop) = true := by
  decide +kernel

/-- Bernese CLU: station column exact; the cluster number is read as long as it has at most 7
digits (it is right-aligned in 16 columns of which the parser reads the last 7). -/
theorem clu_writer_parser_aligned :
    let L := layoutOfWidths cluParserNames cluParserWidths
    let row := rowOf "bernese_clu"
    cluParserSkipHeader = 5 ∧
    (match L with
     | [st, _, cl] => fieldReads row "station" false 1000 st.start st.stop &&
                      fieldReads row "cluster" true 7 cl.start cl.stop
     | _ => false) = true := by
  decide +kernel

/-- SINEX TMS reference coordinate line: the parser's `SinexField` start columns cut the line so
that station, epoch, X, Y, Z and system each fall into their own field. -/
theorem tms_ref_coordinate_aligned :
    let row := rowWith "sinex_tms" "ref_pos.trs.x"
    let starts := tmsRefCoordFields.map (·.2)
    let col (n : String) : Nat := (tmsRefCoordFields.lookup n).getD 0
    let next (n : String) : Nat := ((starts.filter (fun s => col n < s)).head?).getD 1000
    (fieldReads row "self.station.upper()" false 9 (col "site_code") (next "site_code") &&
     fieldReads row "ref_pos.trs.x" true 1000 (col "ref_x") (next "ref_x") &&
     fieldReads row "ref_pos.trs.y" true 1000 (col "ref_y") (next "ref_y") &&
     fieldReads row "ref_pos.trs.z" true 1000 (col "ref_z") (next "ref_z") &&
     fieldReads row "self.dset.meta['ref_frame']" false 1000 (col "system") (next "system")) = true := by
  decide +kernel

/-
Full statement: every column of parsers/bernese_sta.py reads the cell the writer puts there.  False
for `description`/`remark` on the current tree: the writer produces the Bernese 5.2 layout
(FORMAT VERSION 1.01) while parsers/bernese_sta.py cuts the 5.4 layout with AZIMUTH and LONG NAME
columns; parsers/bernese_sta_v52.py is the parser that matches.
-/
/-- Bernese STA, TYPE 002: station, DOMES, the two epochs, receiver/antenna types, radome, serial
numbers and the three eccentricities are read from the columns the writer fills. -/
theorem sta_writer_parser_aligned_partial :
    let row := rowWith "bernese_sta" "rcv_serial"
    let f (n : String) : Nat × Nat := ((staParserFields.lookup n).getD (0, 0))
    (fieldReads row "station" false 4 (f "station").1 (f "station").2 &&
     fieldReads row "domes" false 9 (f "domes").1 (f "domes").2 &&
     fieldReads row "date_from" false 19 (f "date_from").1 (f "date_from").2 &&
     fieldReads row "date_to" false 19 (f "date_to").1 (f "date_to").2 &&
     fieldReads row "rcv" false 20 (f "receiver_type").1 (f "receiver_type").2 &&
     fieldReads row "rcv_serial" false 21 (f "receiver_serial_number").1 (f "receiver_serial_number").2 &&
     fieldReads row "ant" false 15 (f "antenna_type").1 (f "antenna_type").2 &&
     fieldReads row "radome" false 4 (f "radome_type").1 (f "radome_type").2 &&
     fieldReads row "ant_serial" false 21 (f "antenna_serial_number").1 (f "antenna_serial_number").2 &&
     fieldReads row "north" true 9 (f "eccentricity_north").1 (f "eccentricity_north").2 &&
     fieldReads row "east" true 9 (f "eccentricity_east").1 (f "eccentricity_east").2 &&
     fieldReads row "up" true 9 (f "eccentricity_up").1 (f "eccentricity_up").2) = true := by
  decide +kernel

/-! ### SINEX TMS -/

/-- every combination of optional blocks gives balanced, un-nested `+BLOCK … -BLOCK` markers -/
theorem blocks_balanced (e d r : Bool) : balanced none (tmsMarkers (tmsBlocks e d r)) = true := by
  cases e <;> cases d <;> cases r <;> decide +kernel

/-- every column the writer can emit has a cell format the model covers -/
theorem tms_columns_have_types : (dataFieldTypes.all fun p => (specOf p.1).isSome) = true := by
  decide +kernel

theorem data_types_modelled : dataTypesUnmodelled = [] := by
  decide +kernel

/-- the estimate-parameter table has no key twice (a dict literal would silently drop the first
of two equal keys — the `VEL_Y_SIG`/`VEL_Z_SIG` slip) -/
theorem estimate_keys_distinct : (estimateKeys.map (·.1)).Nodup := by
  decide +kernel

/-- a TIMESERIES/DATA line of `k` columns splits into `k` blank-separated tokens when every value
is non-empty, free of blanks and leaves at least one blank in its (right-aligned) cell -/
theorem tms_data_tokens (parts : List (Nat × Str))
    (h : ∀ p ∈ parts, p.2 ≠ [] ∧ (∀ c ∈ p.2, isSpace c = false) ∧ p.2.length < p.1) :
    Text.split (' ' :: (parts.map fun p => rjust p.1 p.2).flatten) = parts.map (·.2) :=
  Midgard.Writers.split_rjust_cells parts h

/-- The overflow the layout allows (finding `sinex_tms:column-overflow:EAST/NORTH/UP`): an east
component of −100 000 m fills its `12.4f` cell, merges with the value before it, and the line
splits into one token fewer than it has columns. -/
theorem tms_overflow_witness :
    ((tmsLine ["YEAR", "EAST"] [("YEAR", .num (4047 / 2)), ("EAST", .num (-100000))]).map
      fun l => (Text.split l).length) = some 1 ∧
    ((tmsLine ["YEAR", "EAST"] [("YEAR", .num (4047 / 2)), ("EAST", .num (-99999))]).map
      fun l => (Text.split l).length) = some 2 := by
  decide +kernel

/-! ### non-vacuity -/

example : allFit (rowOf "bernese_crd")
    [.int 1, .str "ADAC".toList, .str "10337M001".toList, .num (191624041921 / 100000),
     .num (-999999999999 / 100000), .num 0, .str ['A']] = true := by decide +kernel

end Midgard.Props.C17

#print axioms Midgard.Props.C17.fields_in_columns
#print axioms Midgard.Props.C17.readback_nominal
#print axioms Midgard.Props.C17.wider_field_reads_cell
#print axioms Midgard.Props.C17.fmtFixed_fits
#print axioms Midgard.Props.C17.coordinate_fits
#print axioms Midgard.Props.C17.coordinate_cells_are_those
#print axioms Midgard.Props.C17.crd_writer_parser_aligned
#print axioms Midgard.Props.C17.clu_writer_parser_aligned
#print axioms Midgard.Props.C17.tms_ref_coordinate_aligned
#print axioms Midgard.Props.C17.sta_writer_parser_aligned_partial
#print axioms Midgard.Props.C17.blocks_balanced
#print axioms Midgard.Props.C17.tms_columns_have_types
#print axioms Midgard.Props.C17.data_types_modelled
#print axioms Midgard.Props.C17.estimate_keys_distinct
#print axioms Midgard.Props.C17.tms_data_tokens
#print axioms Midgard.Props.C17.tms_overflow_witness
