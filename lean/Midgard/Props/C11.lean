/-
C11 — RINEX observation files (2.x, 3.x) are parsed into exactly the records they contain.
(property theorems; work in progress)
-/
import Midgard.Model.Rinex3Obs
import Midgard.Model.Rinex2Obs
import Midgard.Spec.Rinex

namespace Midgard.Props.C11
open Midgard.Text Midgard.FixedCol Midgard.ChainParser Midgard.RinexObs

theorem placeholder_true : True := trivial

end Midgard.Props.C11

#print axioms Midgard.Props.C11.placeholder_true
