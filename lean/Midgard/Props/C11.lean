/-
C11 — RINEX observation files (2.x, 3.x) are parsed into exactly the records they contain.

Property theorems about `Model/Rinex3Obs.lean`, `Model/Rinex2Obs.lean` (models of the repaired
parsers), the generated column tables `Generated/Rinex{3,2}ObsCols.lean` and the RINEX 3.04 / 2.11
layouts of `Spec/Rinex.lean`.  Numbers are exact rationals of the printed decimals; double
rounding is measured by the correspondence (harness/c11.py), not proved.
-/
import Midgard.Model.Rinex3Obs
import Midgard.Model.Rinex2Obs
import Midgard.Spec.Rinex
import Midgard.Proofs.ChainParser
import Midgard.Proofs.RinexObs
import Midgard.Proofs.Rinex3ObsRecords
import Midgard.Proofs.Rinex3ObsText
import Midgard.Proofs.Rinex3ObsPost
import Midgard.Proofs.Rinex3ObsHeader
import Midgard.Spec.Rinex2ObsFile
import Midgard.Proofs.Rinex2ObsEpoch
import Midgard.Proofs.Rinex2ObsFx
import Midgard.Proofs.Rinex2ObsEpochFx
import Midgard.Proofs.Rinex2ObsBlocks
import Midgard.Proofs.Rinex2ObsFile
import Midgard.Proofs.Rinex2ObsText
import Midgard.Proofs.Rinex2ObsHeader
import Midgard.Proofs.Rinex2ObsPost

namespace Midgard.Props.C11
open Midgard.Text Midgard.FixedCol Midgard.ChainParser Midgard.RinexObs Midgard.Decimal
open Midgard.Spec.Rinex (RecSpec headerSpecs renderLabelled renderCells findLabel epoch3 epoch2 epoch2c obs3 obs2 obsLayout obsTriple)

/-! ### The code's column tables against the standards' -/

def intersects (f g : Field) : Bool := decide (f.start < g.stop) && decide (g.start < f.stop)
def inside (g f : Field) : Bool := decide (f.start ≤ g.start) && decide (g.stop ≤ f.stop)

/-- a parser field *covers* the standard's layout when the standard's fields it touches are at least
one, lie completely inside it, and — if it is exactly one — carry the same name: the parser reads
that field plus blank (`nX`) columns only -/
def covers (spec : Layout) (f : Field) : Bool :=
  let hit := spec.filter (intersects f)
  !hit.isEmpty && hit.all (inside · f) &&
  (match hit with
   | [g] => g.name == f.name
   | _ => true)

/-- a header label of the code: some record of the standard with that label is covered field by field -/
def headerCovered (d : LabelDef) : Bool :=
  d.openFields.isEmpty && d.strip == .whitespace &&
  (findLabel d.label).any fun sp => d.fields.all (covers sp.layout)

/-- header labels the parser reads that are not RINEX 2.11/3.04 observation-header records are none;
`SYS / SCALE FACTOR` is declared by the code but not implemented (its handler only logs) -/
def knownUnimplemented : List String := ["SYS / SCALE FACTOR"]

theorem header_cols_cover_spec :
    (Midgard.Generated.Rinex3ObsCols.header.filter fun d => !knownUnimplemented.contains d.label).all headerCovered = true ∧
    Midgard.Generated.Rinex2ObsCols.header.all headerCovered = true := by
  decide +kernel

/-- the data records: RINEX 3 epoch line (plus the code's own look at columns 61–80 for comment lines),
RINEX 3 observation record (`sat` then 16-character fields from column 4), RINEX 2 epoch line incl. the
12-satellite list, RINEX 2 observation line of five 16-character fields -/
theorem record_cols_cover_spec :
    (Midgard.Generated.Rinex3ObsCols.records.map fun d => (d.label, d.strip, d.openFields)) =
      [("False", .whitespace, []), ("True", .newline, [("obs", 3)])] ∧
    ((Midgard.Generated.Rinex3ObsCols.records.find? (·.label == "False")).map fun d =>
      (d.fields.filter (·.name != "comment")).all (covers epoch3.layout) &&
      d.fields.any (fun f => f == ⟨"comment", 60, 80⟩)) = some true ∧
    ((Midgard.Generated.Rinex3ObsCols.records.find? (·.label == "True")).map fun d =>
      d.fields == [⟨"sat", 0, 3⟩]) = some true ∧
    (Midgard.Generated.Rinex2ObsCols.records.map fun d => (d.label, d.strip, d.openFields)) =
      [("False", .newline, []), ("True", .newline, [])] ∧
    ((Midgard.Generated.Rinex2ObsCols.records.find? (·.label == "False")).map fun d =>
      d.fields.all (covers epoch2.layout)) = some true ∧
    ((Midgard.Generated.Rinex2ObsCols.records.find? (·.label == "True")).map fun d =>
      d.fields.all (covers (obs2 5).layout) && d.fields.map (fun f => (f.start, f.stop)) ==
        [(0, 16), (16, 32), (32, 48), (48, 64), (64, 80)]) = some true := by
  decide +kernel

/-- the handler registered for each label is the one the models dispatch to -/
theorem handlers_as_modelled :
    (Midgard.Generated.Rinex3ObsCols.header.map fun d => (d.label, d.handler)) =
      [("RINEX VERSION / TYPE", "_parse_string"), ("PGM / RUN BY / DATE", "_parse_string"), ("COMMENT", "_parse_comment"),
       ("MARKER NAME", "_parse_string"), ("MARKER NUMBER", "_parse_string"), ("MARKER TYPE", "_parse_string"),
       ("OBSERVER / AGENCY", "_parse_string"), ("REC # / TYPE / VERS", "_parse_string"), ("ANT # / TYPE", "_parse_string"),
       ("APPROX POSITION XYZ", "_parse_approx_position"), ("ANTENNA: DELTA H/E/N", "_parse_float"),
       ("ANTENNA: DELTA X/Y/Z", "_parse_float"), ("SYS / # / OBS TYPES", "_parse_sys_obs_types"),
       ("SIGNAL STRENGTH UNIT", "_parse_string"), ("INTERVAL", "_parse_float"),
       ("TIME OF FIRST OBS", "_parse_time_of_first_obs"), ("TIME OF LAST OBS", "_parse_time_of_last_obs"),
       ("RCV CLOCK OFFS APPL", "_parse_string"), ("SYS / DCBS APPLIED", "_parse_sys_dcbs_applied"),
       ("SYS / PCVS APPLIED", "_parse_sys_pcvs_applied"), ("SYS / SCALE FACTOR", "_parse_scale_factor"),
       ("SYS / PHASE SHIFT", "_parse_phase_shift"), ("GLONASS SLOT / FRQ #", "_parse_glonass_slot"),
       ("GLONASS COD/PHS/BIS", "_parse_glonass_code_phase_bias"), ("LEAP SECONDS", "_parse_leap_seconds"),
       ("# OF SATELLITES", "_parse_integer")] ∧
    (Midgard.Generated.Rinex2ObsCols.header.map fun d => (d.label, d.handler)) =
      [("RINEX VERSION / TYPE", "_parse_rinex_version_type"), ("PGM / RUN BY / DATE", "_parse_string"),
       ("COMMENT", "_parse_comment"), ("MARKER NAME", "_parse_string"), ("MARKER NUMBER", "_parse_string"),
       ("OBSERVER / AGENCY", "_parse_string"), ("REC # / TYPE / VERS", "_parse_string"), ("ANT # / TYPE", "_parse_string"),
       ("APPROX POSITION XYZ", "_parse_approx_position"), ("ANTENNA: DELTA H/E/N", "_parse_float"),
       ("WAVELENGTH FACT L1/2", "_parse_wavelength_fact"), ("# / TYPES OF OBSERV", "_parse_types_of_observ"),
       ("INTERVAL", "_parse_float"), ("TIME OF FIRST OBS", "_parse_time_of_first_obs"),
       ("TIME OF LAST OBS", "_parse_time_of_last_obs"), ("RCV CLOCK OFFS APPL", "_parse_string"),
       ("LEAP SECONDS", "_parse_leap_seconds"), ("# OF SATELLITES", "_parse_integer")] ∧
    (Midgard.Generated.Rinex3ObsCols.records.map fun d => (d.label, d.handler)) =
      [("False", "_parse_observation_epoch"), ("True", "_parse_observation")] ∧
    (Midgard.Generated.Rinex2ObsCols.records.map fun d => (d.label, d.handler)) =
      [("False", "_parse_observation_epoch"), ("True", "_parse_observation")] := by
  decide +kernel

/-! ### Header records: fixed columns + label (proofs in `Proofs/Rinex3ObsRecords.lean`) -/

theorem specs_ok : headerSpecs.all Records.specOk = true := Records.specs_ok

/-- **Header record round trip.**  Every header record kind of RINEX 3.04 / 2.11 (including the
continuation-line kinds of the observation-type lists with 13 resp. 9 types per line, the phase-shift
satellite list and the GLONASS slot list) whose cells fit their columns is read back cell by cell from
the right-stripped rendered line, and the header label function returns its label. -/
theorem header_record_roundtrip (sp : RecSpec) (hsp : sp ∈ headerSpecs) (cells : List Str)
    (hlen : cells.length = sp.layout.length) (hf : Fits sp.layout (sp.aligns.zip cells) = true) :
    sp.layout.map (fun f => slice f (rstrip (renderLabelled sp cells))) = cells ∧
    asString (strip (sliceFrom 60 (rstrip (renderLabelled sp cells)))) = sp.label :=
  Records.header_record_roundtrip sp hsp cells hlen hf

/-! ### Observation records: value, LLI and SNR of the k-th 16-character column -/

theorem obs3_ok : (List.range 41).all Records.obs3Ok = true := Records.obs3_ok

/-- the three texts the parser cuts out of observation field `k` are the standard's value / LLI / SNR columns -/
theorem triple_slices (line : Str) (n k : Nat) :
    let f := Midgard.Rinex3Obs.obsField (ljust (16 * n) (sliceFrom 3 line)) k
    [strip (Text.slice 0 14 f), strip (Text.slice 14 15 f), strip (Text.slice 15 16 f)] =
      (obsTriple k (3 + 16 * k)).map (fun g => FixedCol.slice g line) :=
  Records.triple_slices line n k

theorem obs_record (n : Nat) (hn : n ≤ 40) (sat : Str) (cells : List Str) (hlen : cells.length = 3 * n)
    (hf : Fits (obs3 n).layout ((obs3 n).aligns.zip (sat :: cells)) = true) :
    (Midgard.Rinex3Obs.obsTriples n (sliceFrom 3 (rstrip (renderCells (obs3 n) (sat :: cells))))).flatMap
        (fun t => [strip t.1, strip t.2.1, strip t.2.2]) = cells ∧
    strip (Text.slice 0 3 (rstrip (renderCells (obs3 n) (sat :: cells)))) = sat :=
  Records.obs_record n hn sat cells hlen hf

/-- with `_float` on top: the parsed (value, LLI, SNR) of every observation type are `_float` of the
printed cells — blank or zero cells are absent, trailing blanks of the line may be stripped, a line
may end after the last non-blank field -/
theorem obs_record_values (n : Nat) (hn : n ≤ 40) (sat : Str) (cells : List Str) (hlen : cells.length = 3 * n)
    (hf : Fits (obs3 n).layout ((obs3 n).aligns.zip (sat :: cells)) = true) :
    (Midgard.Rinex3Obs.obsTriples n (sliceFrom 3 (rstrip (renderCells (obs3 n) (sat :: cells))))).flatMap
        (fun t => [floatOpt t.1, floatOpt t.2.1, floatOpt t.2.2]) = cells.map floatOpt :=
  Records.obs_record_values n hn sat cells hlen hf

/-- RINEX 2: the three texts cut out of the `j`-th 16-character field of an observation line are the
standard's value / LLI / SNR columns of that line -/
theorem triple_slices2 (line : Str) (j : Nat) :
    let w := ljust 16 (Text.slice (16 * j) (16 * j + 16) line)
    [strip (Text.slice 0 14 w), strip (Text.slice 14 15 w), strip (Text.slice 15 16 w)] =
      (obsTriple j (0 + 16 * j)).map (fun g => FixedCol.slice g line) := by
  simp only [obsTriple, List.map_cons, List.map_nil, FixedCol.slice, sliceRaw]
  rw [strip_slice_ljust, strip_slice_ljust, strip_slice_ljust, slice_slice, slice_slice, slice_slice]
  have e1 : min (16 * j + 14) (16 * j + 16) = 0 + 16 * j + 14 := by omega
  have e2 : min (16 * j + 15) (16 * j + 16) = 0 + 16 * j + 15 := by omega
  have e3 : min (16 * j + 16) (16 * j + 16) = 0 + 16 * j + 16 := by omega
  have e4 : 16 * j + 0 = 0 + 16 * j := by omega
  have e5 : 16 * j + 14 = 0 + 16 * j + 14 := by omega
  have e6 : 16 * j + 15 = 0 + 16 * j + 15 := by omega
  rw [e1, e2, e3, e4, e5, e6]

/-- RINEX 2 observation line of five observations (missing ones as blank cells): the fifteen columns
read back as the cells, also from the right-stripped line -/
theorem obs2_line_record (cells : List Str) (hlen : cells.length = 15)
    (hf : Fits (obs2 5).layout ((obs2 5).aligns.zip cells) = true) :
    (obs2 5).layout.map (fun g => FixedCol.slice g (rstrip (renderCells (obs2 5) cells))) = cells := by
  have hs : Sorted (obs2 5).layout = true := by decide +kernel
  have hal : (obs2 5).aligns.length = 15 := by decide +kernel
  have h := slice_renderA_rstrip (obs2 5).layout ((obs2 5).aligns.zip cells) hs hf
  rw [Records.zip_snd _ _ (by omega)] at h
  exact h

/-! ### RINEX 3: all per-record columns keep equal length -/

section Aligned
open Midgard.Rinex3Obs

/-- every column of the three groups, and the row-level columns, have `n` entries -/
def ObsAligned (d : Data) (n : Nat) : Prop :=
  (∀ kn ∈ lensOf d.obs, kn.2 = n) ∧ (∀ kn ∈ lensOf d.lli, kn.2 = n) ∧ (∀ kn ∈ lensOf d.snr, kn.2 = n) ∧
  d.time.length = n ∧ d.epochFlag.length = n ∧ d.clk.length = n ∧ d.station.length = n ∧ d.system.length = n ∧
  d.satellite.length = n ∧ d.satnum.length = n

theorem bind_ok {α β} {x : Except Err α} {f : α → Except Err β} {b : β} (h : (x >>= f) = .ok b) :
    ∃ a, x = .ok a ∧ f a = .ok b := by
  cases x with
  | error e => simp [bind, Except.bind] at h
  | ok a => exact ⟨a, rfl, h⟩

theorem mapM_fst {α β} (f : α → Except Err β) (pa : α → Str) (pb : β → Str)
    (hf : ∀ a b, f a = .ok b → pb b = pa a) :
    ∀ (l : List α) (r : List β), l.mapM f = .ok r → r.map pb = l.map pa := by
  intro l
  induction l with
  | nil => intro r h; simp [List.mapM_nil, pure, Except.pure] at h; subst h; rfl
  | cons a rest ih =>
    intro r h
    rw [List.mapM_cons] at h
    obtain ⟨b, hb, h2⟩ := bind_ok h
    obtain ⟨rs, hrs, h3⟩ := bind_ok h2
    simp [pure, Except.pure] at h3
    subst h3
    simp [hf a b hb, ih rs hrs]

theorem zip_fst_of_length {α β} : ∀ (as : List α) (bs : List β), as.length = bs.length → (as.zip bs).map (·.1) = as
  | [], [], _ => rfl
  | a :: as, b :: bs, h => by simp [zip_fst_of_length as bs (by simpa using h)]
  | [], _ :: _, h => by simp at h
  | _ :: _, [], h => by simp at h

theorem obsTriples_length (n : Nat) (obs : Str) : (obsTriples n obs).length = n := by
  simp [obsTriples]

/-- **Equal column lengths.**  If before an observation record of a kept epoch every column has `n`
entries, the columns are keyed by the file's observation types, and the system's type list is a
duplicate-free part of them, then after the record every column — the system's types *and* the types
not defined for that system, and the row-level columns — has `n + 1` entries. -/
theorem obs_columns_aligned (s s' : State) (v : Values) (e : EpochInfo) (q : Rat) (n : Nat)
    (he : s.cache.epoch = some e) (hq : e.obsSec = some q)
    (hal : ObsAligned s.data n)
    (hkeys : (∀ kn ∈ lensOf s.data.obs, kn.1 ∈ s.obstypesAll) ∧ (∀ kn ∈ lensOf s.data.lli, kn.1 ∈ s.obstypesAll) ∧
             (∀ kn ∈ lensOf s.data.snr, kn.1 ∈ s.obstypesAll))
    (hnd : s.obstypesAll.Nodup)
    (htypes : ∀ sy types, s.metaD.get [key "obstypes", sy] = some (.list types) →
      types.Nodup ∧ ∀ t ∈ types, t ∈ s.obstypesAll)
    (h : parseObservation v s = .ok s') : ObsAligned s'.data (n + 1) := by
  unfold parseObservation at h
  simp only [he, req] at h
  obtain ⟨e', he', h⟩ := bind_ok h
  simp [pure, Except.pure] at he'
  subst he'
  simp only [hq] at h
  obtain ⟨sat, _, h⟩ := bind_ok h
  obtain ⟨obs, _, h⟩ := bind_ok h
  obtain ⟨sy, _, h⟩ := bind_ok h
  split at h
  case h_2 =>
    obtain ⟨_, habs, _⟩ := bind_ok h
    simp [throw, throwThe, MonadExcept.throw, MonadExceptOf.throw] at habs
  rename_i types hget
  obtain ⟨types', htp, h⟩ := bind_ok h
  simp [pure, Except.pure] at htp
  subst htp
  obtain ⟨vals, hvals, h⟩ := bind_ok h
  obtain ⟨d1, hd1, h⟩ := bind_ok h
  obtain ⟨d2, hd2, h⟩ := bind_ok h
  split at h
  case h_2 =>
    obtain ⟨_, habs, _⟩ := bind_ok h
    simp [throw, throwThe, MonadExcept.throw, MonadExceptOf.throw] at habs
  obtain ⟨station, _, h⟩ := bind_ok h
  simp [pure, Except.pure] at h
  subst h
  obtain ⟨hndt, hsub⟩ := htypes sy types hget
  -- names appended to: the system's types, then the rest
  have hnames : vals.map (·.1) = types := by
    have := mapM_fst _ (fun (tf : Str × Str × Str × Str) => tf.1) (fun (x : Str × Option Rat × Option Rat × Option Rat) => x.1)
      (by
        intro a b hab
        obtain ⟨x1, _, hab⟩ := bind_ok hab
        obtain ⟨x2, _, hab⟩ := bind_ok hab
        obtain ⟨x3, _, hab⟩ := bind_ok hab
        simp [pure, Except.pure] at hab
        rw [← hab]) _ _ hvals
    rw [this, zip_fst_of_length _ _ (by rw [obsTriples_length])]
  obtain ⟨g1, g2, g3, g4⟩ := appendAll_lens _ _ _ hd1
  obtain ⟨k1, k2, k3, k4⟩ := appendAll_lens _ _ _ hd2
  obtain ⟨a1, a2, a3, a4, a5, a6, a7, a8, a9, a10⟩ := hal
  have hcount : ∀ a ∈ s.obstypesAll,
      (vals.map (·.1) ++ (List.map (fun t => (t, (none : Option Rat), (none : Option Rat), (none : Option Rat)))
        (s.obstypesAll.filter fun t => !types.contains t)).map (·.1)).count a = 1 := by
    intro a ha
    rw [hnames, List.map_map]
    have : (List.map ((fun (x : Str × Option Rat × Option Rat × Option Rat) => x.1) ∘ fun t => (t, none, none, none))
        (s.obstypesAll.filter fun t => !types.contains t)) = s.obstypesAll.filter fun t => !types.contains t := by
      simp [Function.comp_def]
    rw [this]
    exact count_types_unused hnd hndt hsub a ha
  have final : ∀ (l l1 l2 : List (Str × Nat)), (∀ kn ∈ l, kn.2 = n) → (∀ kn ∈ l, kn.1 ∈ s.obstypesAll) →
      l1 = l.map (grown (vals.map (·.1))) →
      l2 = l1.map (grown ((List.map (fun t => (t, (none : Option Rat), (none : Option Rat), (none : Option Rat)))
        (s.obstypesAll.filter fun t => !types.contains t)).map (·.1))) →
      ∀ kn ∈ l2, kn.2 = n + 1 := by
    intro l l1 l2 hn hk e1 e2
    subst e1; subst e2
    rw [List.map_map]
    have : (grown ((List.map (fun t => (t, (none : Option Rat), (none : Option Rat), (none : Option Rat)))
        (s.obstypesAll.filter fun t => !types.contains t)).map (·.1)) ∘ grown (vals.map (·.1))) =
        grown (vals.map (·.1) ++ (List.map (fun t => (t, (none : Option Rat), (none : Option Rat), (none : Option Rat)))
        (s.obstypesAll.filter fun t => !types.contains t)).map (·.1)) := by
      funext kn; simp [grown_grown]
    rw [this]
    exact grown_all hn (fun kn hkn => hcount kn.1 (hk kn hkn))
  refine ⟨final _ _ _ a1 hkeys.1 g1 k1, final _ _ _ a2 hkeys.2.1 g2 k2, final _ _ _ a3 hkeys.2.2 g3 k3, ?_⟩
  have r1 := appendAll_rows _ _ _ hd1
  have r2 := appendAll_rows _ _ _ hd2
  simp only [rowCols, Prod.mk.injEq] at r1 r2
  obtain ⟨p1, p2, p3, p4, p5, p6, p7⟩ := r1
  obtain ⟨q1, q2, q3, q4, q5, q6, q7⟩ := r2
  simp [Data.appendRow, q1, q2, q3, q4, q5, q6, q7, p1, p2, p3, p4, p5, p6, p7, a4, a5, a6, a7, a8, a9, a10]

end Aligned

/-! ### Sampling rate -/

/-- epochs and rates printed in units of 10⁻⁷ s: the epoch is kept exactly when it is on the grid -/
theorem sampling (a b : Int) (hb : 0 < b) :
    offGrid ((a : Rat) / 10000000) ((b : Rat) / 10000000) = false ↔ b ∣ a :=
  offGrid_units a b hb

/-- a decimated epoch adds no row (RINEX 3) -/
theorem decimated_epoch_adds_nothing3 (v : Values) (s : Midgard.Rinex3Obs.State) (e : EpochInfo)
    (he : s.cache.epoch = some e) (hd : e.obsSec = none) : Midgard.Rinex3Obs.parseObservation v s = .ok s := by
  simp [Midgard.Rinex3Obs.parseObservation, he, hd, req, bind, Except.bind, pure, Except.pure]

/-- … and none in RINEX 2 -/
theorem decimated_epoch_adds_nothing2 (v : Values) (s : Midgard.Rinex2Obs.State) (e : EpochInfo)
    (he : s.cache.epoch = some e) (hd : e.obsSec = none) : Midgard.Rinex2Obs.parseObservation v s = .ok s := by
  simp [Midgard.Rinex2Obs.parseObservation, he, hd, req, bind, Except.bind, pure, Except.pure]

example : offGrid (60780 + 3 / 10) (1 / 10) = false ∧ offGrid (60780 + 3 / 10 + 1 / 10000000) (1 / 10) = true ∧
    offGrid 30 30 = false ∧ offGrid 45 30 = true := by decide +kernel

/-! ### `_float`: blank or zero means absent -/

theorem floatOpt_blank (s : Str) (h : isBlank s = true) : floatOpt s = .ok none := by
  simp [floatOpt, h, pure, Except.pure]

theorem floatOpt_value (s : Str) (q : Rat) (hb : isBlank s = false) (hp : parseFloat s = some q) :
    floatOpt s = .ok (if q = 0 then none else some q) := by
  simp [floatOpt, hb, hp, pure, Except.pure]

example : (floatOpt "         0.000".toList).toOption = some none ∧ (floatOpt "          .000".toList).toOption = some none ∧
    (floatOpt "  23629347.915".toList).toOption = some (some (23629347915 / 1000)) ∧
    (floatOpt "         -.353".toList).toOption = some (some (-353 / 1000)) ∧
    (floatOpt "              ".toList).toOption = some none ∧ (floatOpt []).toOption = some none ∧
    (floatOpt "0".toList).toOption = some none := by
  decide +kernel

/-! ### RINEX 2: an all-blank line inside an epoch is an observation line of five missing values -/

/-- after `read_data`'s `rstrip` such a line is empty; its label is `False` (not an observation line) … -/
theorem blank_line_label : Midgard.Rinex2Obs.obsLabel [] = "False" := by decide +kernel

/-- … so it reaches `_parse_observation_epoch`, which hands it to `_parse_observation` with five blank
fields as long as satellites of the epoch are outstanding, and ignores it otherwise -/
theorem blank_line_is_observation (s : Midgard.Rinex2Obs.State) (d : LabelDef)
    (hd : Midgard.Generated.Rinex2ObsCols.records.find? (·.label == "False") = some d) :
    Midgard.Rinex2Obs.parseObservationEpoch (d.values []) s =
      if (s.cache.satList.getD []) ≠ [] then Midgard.Rinex2Obs.parseObservation Midgard.Rinex2Obs.blankObsValues s
      else .ok s := by
  have hd' : d = (⟨"False", "_parse_observation_epoch", .newline,
      [⟨"year", 0, 3⟩, ⟨"month", 3, 6⟩, ⟨"day", 6, 9⟩, ⟨"hour", 9, 12⟩, ⟨"minute", 12, 15⟩, ⟨"second", 15, 26⟩,
       ⟨"epoch_flag", 26, 29⟩, ⟨"num_sat", 29, 32⟩, ⟨"sat_list", 32, 68⟩, ⟨"rcv_clk_offset", 68, 80⟩], []⟩ : LabelDef) := by
    have : Midgard.Generated.Rinex2ObsCols.records.find? (·.label == "False") = some (⟨"False", "_parse_observation_epoch", .newline,
      [⟨"year", 0, 3⟩, ⟨"month", 3, 6⟩, ⟨"day", 6, 9⟩, ⟨"hour", 9, 12⟩, ⟨"minute", 12, 15⟩, ⟨"second", 15, 26⟩,
       ⟨"epoch_flag", 26, 29⟩, ⟨"num_sat", 29, 32⟩, ⟨"sat_list", 32, 68⟩, ⟨"rcv_clk_offset", 68, 80⟩], []⟩ : LabelDef) := by decide +kernel
    rw [this] at hd
    exact (Option.some.inj hd).symm
  subst hd'
  by_cases h : (s.cache.satList.getD []) ≠ []
  · simp [Midgard.Rinex2Obs.parseObservationEpoch, LabelDef.values, Midgard.Rinex2Obs.getv, Values.get, req, StripOpt.apply,
      stripChars, sliceRaw, Text.slice, strip, lstrip, rstrip, Midgard.Rinex2Obs.isNumeric, isBlank, h, bind, Except.bind, pure, Except.pure]
  · simp [Midgard.Rinex2Obs.parseObservationEpoch, LabelDef.values, Midgard.Rinex2Obs.getv, Values.get, req, StripOpt.apply,
      stripChars, sliceRaw, Text.slice, strip, lstrip, rstrip, Midgard.Rinex2Obs.isNumeric, isBlank, h, bind, Except.bind, pure, Except.pure]

/-- five missing observations: `_parse_observation` on blank fields appends five `NaN` triples -/
example : (Midgard.Rinex2Obs.parseObservation Midgard.Rinex2Obs.blankObsValues
      { metaD := [([key "num_obstypes"], .int 7)],
        cache := { epoch := some ⟨[], 0, some 0, 0, none⟩, satList := some ["G01".toList] } }).toOption.map
      (fun s => (s.cache.obsValues, s.cache.satList)) =
    some (some [none, none, none, none, none], some ["G01".toList]) := by
  decide +kernel

/-! ### RINEX 2: two-digit years take the century of TIME OF FIRST OBS -/

example : zfill 2 "5".toList = "05".toList ∧ parseInt? ("20".toList ++ zfill 2 "5".toList) = some 2005 ∧
    parseInt? ("19".toList ++ zfill 2 "99".toList) = some 1999 := by decide +kernel

/-! ### Worked files (non-vacuity of the state machines)

The file-level statements `parse3 (render3 F) = rows F` and `parse2 (render2 F) = rows F` — one row per
(epoch, satellite) in file order, equal column lengths, types undefined for a system absent, for every
well-formed file model `F` — are *not* proved; they need the induction over epochs and satellites through
`readData` and are what the correspondence measures on every generated file. -/

/-- RINEX 2, seven types (two lines per satellite), the second line of the first satellite all blank:
two rows, `S1` of G07 absent, values of R21 in their own columns -/
def tiny2 : List Str := [
  "     2.11           OBSERVATION DATA    M (MIXED)           RINEX VERSION / TYPE",
  "TRDS                                                        MARKER NAME",
  "     7    C1    P2    L1    L2    D1    S1    S2            # / TYPES OF OBSERV",
  "  2018     2     1     0     0    0.0000000     GPS         TIME OF FIRST OBS",
  "                                                            END OF HEADER",
  " 18  2  1  0  0 30.0000000  0  2G07R21",
  "  24236245.742    24236247.152   127362289.44018  99243378.71651      2293.062",
  "",
  "  21119353.719                   110982860.19619                     -1784.992",
  "        49.300          38.000"].map String.toList

def tiny2Out : Option (List Str × List Str × Option Col × Option Col × Option Col) :=
  match Midgard.Rinex2Obs.parseLines none tiny2 with
  | .ok s => some (s.data.time, s.data.satellite, (s.data.obs.find? (·.1 == "S1".toList)).map (·.2),
      (s.data.obs.find? (·.1 == "P2".toList)).map (·.2), (s.data.lli.find? (·.1 == "L1".toList)).map (·.2))
  | _ => none

example : tiny2Out.map (·.1) = some ["2018-02-01T00:00:30.0000000".toList, "2018-02-01T00:00:30.0000000".toList] ∧
    tiny2Out.map (·.2.1) = some ["G07".toList, "R21".toList] ∧
    tiny2Out.map (·.2.2.1) = some (some [none, some (493 / 10)]) ∧
    tiny2Out.map (·.2.2.2.1) = some (some [some (24236247152 / 1000), none]) ∧
    tiny2Out.map (·.2.2.2.2) = some (some [some 1, some 1]) := by
  decide +kernel

/-- RINEX 3, two systems with different type lists, a decimated epoch in between (sampling rate 30 s) -/
def tiny3 : List Str := [
  "     3.03           OBSERVATION DATA    M                   RINEX VERSION / TYPE",
  "trds                                                        MARKER NAME",
  "G    2 C1C L1C                                              SYS / # / OBS TYPES",
  "E    1 C5X                                                  SYS / # / OBS TYPES",
  "  2018     2     1     0     0    0.0000000     GPS         TIME OF FIRST OBS",
  "                                                            END OF HEADER",
  "> 2018  2  1  0  0  0.0000000  0  2",
  "G07  23494924.453   123466751.004 7",
  "E08  26016567.422",
  "> 2018  2  1  0  0 15.0000000  0  1",
  "G07  23494925.453   123466752.004 7",
  "> 2018  2  1  0  0 30.0000000  0  1",
  "E08          .000 5"].map String.toList

def tiny3Out : Option (List Str × List Str × Option Col × Option Col × Option Col) :=
  match Midgard.Rinex3Obs.parseLines (some 30) tiny3 with
  | .ok s => some (s.data.time, s.data.satellite, (s.data.obs.find? (·.1 == "C1C".toList)).map (·.2),
      (s.data.obs.find? (·.1 == "C5X".toList)).map (·.2), (s.data.snr.find? (·.1 == "L1C".toList)).map (·.2))
  | _ => none

example : tiny3Out.map (·.1.length) = some 3 ∧
    tiny3Out.map (·.2.1) = some ["G07".toList, "E08".toList, "E08".toList] ∧
    tiny3Out.map (·.2.2.1) = some (some [some (23494924453 / 1000), none, none]) ∧
    tiny3Out.map (·.2.2.2.1) = some (some [none, some (26016567422 / 1000), none]) ∧
    tiny3Out.map (·.2.2.2.2) = some (some [some 7, none, none]) := by
  decide +kernel

/-! ### RINEX 3: the file level

`Spec/Rinex3ObsFile.lean`: an abstract file `F` (header records in file order incl. `SYS / # / OBS TYPES` with its
continuation lines, epochs with flag and receiver clock offset — event epochs with their special records included, which the parser
ignores —, one record per satellite with value / LLI / SSI per
type of its system, blank = missing; every line as formatted, right-stripped or filled to 80 columns), its writer
`render`, the decidable `wf`, and `expected rate F`: the header handlers applied to the header's *values*, then one
column per observation type of the file with one entry per (kept epoch, satellite) in file order.
Proof: `Proofs/Rinex3ObsLines|Cols|Data|File|Text.lean` — line effects, the column store in closed form, induction
over satellites and epochs through `ChainParser.readData`. -/

section File3
open Midgard.Spec.Rinex3ObsFile Midgard.Rinex3Obs

/-- **File-level round trip (RINEX 3).**  `read_data` on the lines of a rendered well-formed file ends in exactly
the state `expected rate F`: the header dictionary as the handlers build it from the header's cells, every
observation type of the file as a column with one entry per (epoch on the sampling grid, satellite) in file order —
value, LLI, SSI printed in the satellite's record for the types of its system (blank or zero = absent), absent for
the types the system does not have — and epoch string, flag, receiver clock offset, station, system, satellite,
satellite number per row; all columns of equal length.
The header part is proved at value level (`Proofs/Rinex3ObsMeta|Handlers|Header.lean`): every handler of the plain
record kinds (`SYS / PHASE SHIFT` with its continuation lines and the GLONASS slot / bias records included) writes only `meta`
keys the data section does not read, `MARKER NAME` sets the station, and a
`SYS / # / OBS TYPES` record with its continuation lines declares its types in order for its system. -/
theorem file_roundtrip3 (rate : Option Rat) (F : File) (hwf : F.wf = true) :
    readData headerParser obsParser resetCache (fileLines F) true 0 { rate := rate } = expected rate F :=
  file_roundtrip rate F hwf

/-- what the data section finds in the header state of a well-formed file: the list of all types, the sampling rate,
the marker name, the type list of every declared system, empty columns -/
theorem header_state3 (rate : Option Rat) (F : File) (hwf : F.wf = true) (H : State) (hH : headerState rate F.hdr = .ok H) :
    H.obstypesAll = allTypes F.hdr ∧ H.rate = rate ∧
    (∃ m, markerOf F.hdr = some m ∧ H.metaD.get [key "marker_name"] = some (.text m)) ∧
    (∀ st ∈ sysTypes F.hdr, H.metaD.get [key "obstypes", st.1] = some (.list st.2)) ∧
    H.data = expectedData rate { F with epochs := [] } H.data := by
  have h := hdrFacts rate F hwf H hH
  exact ⟨h.htypes, h.hrate, h.hmarker, h.hsys, h.hdata⟩

/-- the text of a rendered well-formed file splits into the rendered lines (no cell contains a line break) -/
theorem lines_of_render3 (F : File) (hwf : F.wf = true) : ChainParser.fileLines (render F) = fileLines F :=
  lines_render F hwf

/-- **`Rinex3Parser(text of F, sampling_rate).parse()`** is `expected rate F` followed by the post-processors -/
theorem parse_render3 (rate : Option Rat) (F : File) (hwf : F.wf = true) :
    parseText rate (render F) = match expected rate F with
      | .ok s => finish s
      | .error e => .error e := by
  unfold parseText parseLines
  rw [lines_render F hwf, file_roundtrip rate F hwf]
  cases expected rate F <;> rfl

/-- the columns of `expected` all have one entry per row -/
theorem expected_columns_aligned (rate : Option Rat) (F : File) (d0 : Data) :
    let d := expectedData rate F d0
    (∀ kc ∈ d.obs ++ d.lli ++ d.snr, kc.2.length = (rows rate F).length) ∧
    d.time.length = (rows rate F).length ∧ d.epochFlag.length = (rows rate F).length ∧ d.clk.length = (rows rate F).length ∧
    d.station.length = (rows rate F).length ∧ d.system.length = (rows rate F).length ∧
    d.satellite.length = (rows rate F).length ∧ d.satnum.length = (rows rate F).length := by
  refine ⟨?_, by simp [expectedData], by simp [expectedData], by simp [expectedData], by simp [expectedData],
    by simp [expectedData], by simp [expectedData], by simp [expectedData]⟩
  intro kc hkc
  simp only [expectedData, column, List.mem_append, List.mem_map] at hkc
  rcases hkc with (⟨t, _, rfl⟩ | ⟨t, _, rfl⟩) | ⟨t, _, rfl⟩ <;> simp

/-- **The post-processors keep every row.**  After `_remove_empty_systems`, `_remove_empty_obstype_fields` and
`_time_system_correction` the row-level columns (epoch, flag, clock offset, station, system, satellite, number) and
the header position are unchanged, and the observation / LLI / SSI columns are the parsed ones minus the types
whose observation column is empty or absent in every row (`deadTypes`) — no value moves, no row is lost. -/
theorem postprocessors_keep_rows (s s' : State) (h : finish s = .ok s') :
    s'.data.obs = s.data.obs.filter (fun kc => !(deadTypes s.data).contains kc.1) ∧
    s'.data.lli = s.data.lli.filter (fun kc => !(deadTypes s.data).contains kc.1) ∧
    s'.data.snr = s.data.snr.filter (fun kc => !(deadTypes s.data).contains kc.1) ∧
    rowCols s'.data = rowCols s.data ∧ s'.data.timeMicros = s.data.timeMicros ∧ s'.data.pos = s.data.pos :=
  finish_data s s' h

/-- a small file: two systems with different type lists, a blank observation, a zero observation, epoch flag 1, an
event epoch (flag 4) with two special records -/
def tinyF : File :=
  let c (t : String) (v : Option Rat) : Cell := ⟨t.toList, v⟩
  let i (t : String) (v : Int) : IntCell := ⟨t.toList, v⟩
  { hdr := [.plain "VER3" ["3.04".toList, "O".toList, "M".toList], .marker "trds".toList,
            .sysObs "G".toList "2".toList [["C1C".toList, "L1C".toList]], .sysObs "E".toList "1".toList [["C5X".toList]],
            .plain "TFIRST" ["2018".toList, "2".toList, "1".toList, "0".toList, "0".toList, "0.0000000".toList, "GPS".toList]],
    epochs := [
      { year := i "2018" 2018, month := i "2" 2, day := i "1" 1, hour := i "0" 0, minute := i "0" 0, second := ⟨"0.0000000".toList, 0⟩,
        flag := i "0" 0, numSat := "2".toList, clk := c "" none, special := [],
        sats := [⟨"G07".toList, [⟨c "23494924.453" (some (23494924453 / 1000)), c "" none, c "" none⟩, ⟨c "" none, c "" none, c "7" (some 7)⟩]⟩,
                 ⟨"E08".toList, [⟨c ".000" none, c "0" none, c "5" (some 5)⟩]⟩] },
      { year := i "2018" 2018, month := i "2" 2, day := i "1" 1, hour := i "0" 0, minute := i "0" 0, second := ⟨"15.0000000".toList, 15⟩,
        flag := i "1" 1, numSat := "1".toList, clk := c "-.000000123456" (some (-123456 / 1000000000000)), special := [],
        sats := [⟨"E08".toList, [⟨c "26016567.422" (some (26016567422 / 1000)), c "" none, c "" none⟩]⟩] },
      { year := i "2018" 2018, month := i "2" 2, day := i "1" 1, hour := i "0" 0, minute := i "0" 0, second := ⟨"20.0000000".toList, 20⟩,
        flag := i "4" 4, numSat := "2".toList, clk := c "" none,
        special := [("COM", ["2018 antenna moved".toList]), ("MNAME", ["NEW1".toList])], sats := [] }],
    style := .stripped }

example : tinyF.wf = true := by decide +kernel

example : (rows none tinyF).length = 3 ∧ (rows (some 30) tinyF).length = 2 ∧
    ((expected (some 30) tinyF).toOption.map fun s => s.data.satellite) = some ["G07".toList, "E08".toList] ∧
    ((expected (some 30) tinyF).toOption.map fun s => s.data.epochFlag) = some [0, 0] ∧
    ((expected none tinyF).toOption.map fun s => s.data.obs) =
      some [("C1C".toList, [some (23494924453 / 1000), none, none]), ("L1C".toList, [none, none, none]),
        ("C5X".toList, [none, none, some (26016567422 / 1000)])] := by
  decide +kernel

end File3

/-! ### RINEX 2: the file level

`Spec/Rinex2ObsFile.lean` gives the abstract RINEX 2 file (header records incl. `# / TYPES OF OBSERV` continuation,
epochs with flag, satellite-list continuation lines beyond 12 satellites, five observations per line, all-blank
lines), its writer, `wf` and `expected`.  The statement `wf F → readData … (fileLines F) = expected rate F` is
proved (`file_roundtrip2` below, with its parts); the driver evaluates this instance on every generated file (`c11 file2`), the
rendered text is compared byte for byte with the independent writer and `expected` with the real parser.  One instance, evaluated by
the kernel (seven types = two lines per satellite, the second line of the first satellite all blank): -/

section File2
open Midgard.Spec.Rinex2ObsFile Midgard.Rinex2Obs
open Midgard.Spec.Rinex3ObsFile (Cell IntCell NumCell Obs)

/-- **RINEX 2: the lines of one satellite.**  With `n = num_obstypes` observation types, the satellite's observations
come five per line (the last line filled up with blank fields; all-blank lines included): processing the lines of the
satellite in a kept epoch collects the values in the cache as long as fewer than `n` are there, and the line that
completes them appends exactly one row — the first `n` values under the `n` types, the satellite taken from the head
of the epoch's satellite list, its number `int(sat[1:])` — removes the satellite from the list and clears the cache. -/
theorem obs_lines2 (types : List Str) (m : Str) (e : EpochInfo) (obs : List Midgard.Spec.Rinex3ObsFile.Obs)
    (hl : types.length = obs.length) (hpos : obs ≠ []) (s : State) (sat : Str) (rest : List Str)
    (hs : s.cache.satList = some (sat :: rest)) (hne : sat ≠ []) (num : Int) (hnum : pyInt (sat.drop 1) = .ok num)
    (hc : SatCtx types m s) (h0 : Holds [] s) :
    (fivesOf (triples obs)).foldlM (fun st five => lineFx e five st) s =
      match rowData s.data types obs e (lower m) sat num with
      | .ok d => .ok (doneSat s d rest)
      | .error err => .error err :=
  sat_fives types m e obs hl hpos s sat rest hs hne num hnum hc h0

/-- a line of a kept epoch whose five 16-character fields hold the values `five` has the effect `lineFx` -/
theorem obs_line2 (v : Values) (s : State) (e : EpochInfo) (q : Rat) (five : List Triple)
    (he : s.cache.epoch = some e) (hq : e.obsSec = some q)
    (hv : (fieldsWithPrefix v "obs_").mapM (fun f => tripleOf f.2) = .ok five) :
    parseObservation v s = lineFx e five s :=
  parseObservation_five v s e q five he hq hv

/-- **RINEX 2: the satellite list** of an epoch record or of a continuation line: the identifiers printed three
columns each (the last character visible), followed by any number of blanks (trailing blanks stripped or not), are
read back in order, a blank system as `G`, a blank tens digit as `0` -/
theorem sats_list2 (sats : List Str) (ws : Str) (hs : ∀ s ∈ sats, Sat3 s) (hb : isBlank ws = true) :
    satsOf (sats.flatten ++ ws) = .ok (sats.map normSat) :=
  satsOf_sats sats ws hs hb

/-- **RINEX 2: from the text of an observation line to its five values.**  The fields the parser cuts from a rendered
line with `m ≤ 5` observations (as formatted, right-stripped or filled to 80 columns; the last line of a satellite
may be short) `_float` to the observations' value / LLI / signal strength (blank or zero = absent), followed by
`5 - m` absent ones. -/
theorem obs_text2 (st : Midgard.Spec.Rinex3ObsFile.Style) (c : List Midgard.Spec.Rinex3ObsFile.Obs) (hm : c.length ≤ 5)
    (h : c.all Midgard.Spec.Rinex3ObsFile.Obs.wf = true) :
    (fieldsWithPrefix (obsDef.values (rstrip (Midgard.Spec.Rinex3ObsFile.styled st (obsLine c)))) "obs_").mapM
      (fun f => tripleOf f.2) = .ok (pad5 (triples c)) :=
  obs_text_values st c hm h

/-- **RINEX 2: the label heuristic on observation lines.**  A rendered, right-stripped observation line that is not all
blank is labelled an observation line: the decimal point of the first value stands in column 11 or the first 16
columns are blank; no letter in columns 33 and 61; a digit in column 35 is never followed by a blank or the end of the
line (right-aligned numbers). -/
theorem label_of_obs_line2 (c : List Midgard.Spec.Rinex3ObsFile.Obs) (h : c.all Midgard.Spec.Rinex3ObsFile.Obs.wf = true)
    (hs : c.all obsShape = true) (hnb : rstrip (obsLine c) ≠ []) : obsLabel (rstrip (obsLine c)) = "True" :=
  obs_label c h hs hnb

/-- **RINEX 2: all rendered lines of one satellite** of a kept epoch (five observations per line, short last line,
all-blank lines — which are labelled epoch lines and reach `_parse_observation` through `_parse_observation_epoch`)
append exactly one row, remove the satellite from the epoch's list and clear the cache. -/
theorem sat_lines2 (st : Midgard.Spec.Rinex3ObsFile.Style) (types : List Str) (m : Str) (e : EpochInfo) (q : Rat)
    (hq : e.obsSec = some q) (obs : List Midgard.Spec.Rinex3ObsFile.Obs) (hl : types.length = obs.length) (hpos : obs ≠ [])
    (hwf : obs.all Midgard.Spec.Rinex3ObsFile.Obs.wf = true) (hsh : obs.all obsShape = true)
    (s : State) (he : s.cache.epoch = some e) (sat : Str) (rest : List Str) (hs : s.cache.satList = some (sat :: rest))
    (hne : sat ≠ []) (num : Int) (hnum : pyInt (sat.drop 1) = .ok num) (hc : SatCtx types m s) (h0 : Holds [] s) :
    Midgard.Spec.Rinex2ObsFile.runObs ((chunks 5 obs.length obs).map fun c => Midgard.Spec.Rinex3ObsFile.styled st (obsLine c)) s =
      match rowData s.data types obs e (lower m) sat num with
      | .ok d => .ok (doneSat s d rest)
      | .error err => .error err :=
  sat_lines_run st types m e q hq obs hl hpos hwf hsh s he sat rest hs hne num hnum hc h0

/-- **RINEX 2: the epoch record.**  From the rendered record (as formatted, right-stripped or filled to 80 columns) the
parser — which cuts the fields raw, three columns per integer — stores: the epoch string with the four-digit year (century
of `TIME OF FIRST OBS` in front of the two printed digits), seconds of day (absent when the sampling rate decimates the
epoch), flag, receiver clock offset, the printed satellite count, and the satellites printed on the record itself in
order (blank system = `G`, blank tens digit = `0`); the record is labelled a non-observation line. -/
theorem epoch_line2 (st : Midgard.Spec.Rinex3ObsFile.Style) (e : Midgard.Spec.Rinex2ObsFile.Epoch) (n : Nat)
    (hwf : e.wf n = true) (k : Nat) (s : State) (t : Str) (y : Int)
    (hfirst : s.metaD.get [key "time_first_obs"] = some (.text t)) (hyear : pyInt (t.take 2 ++ zfill 2 e.yy.text) = .ok y) :
    parseLine obsParser (rstrip (Midgard.Spec.Rinex3ObsFile.styled st (Midgard.Spec.Rinex2ObsFile.epochLine e))) k s =
      .ok (afterEpoch s (info2 s.rate y e) (digitsVal e.numSat : Int) ((ids12 e).map normSat)) :=
  epoch_line_fx st e (epochOk_of_wf n e hwf) k s t y hfirst hyear

/-- **RINEX 2: a continuation record of the satellite list** (32 blanks, up to 12 satellites) is labelled a
non-observation line and appends its satellites to the epoch's list. -/
theorem cont_line2 (st : Midgard.Spec.Rinex3ObsFile.Style) (c : List Str) (hne : c ≠ []) (hl : c.length ≤ 12)
    (h : ∀ s ∈ c, SatOk s) (hs : SysStyle c) (n : Nat) (s : State) (old : List Str) (hold : s.cache.satList = some old) :
    parseLine obsParser (rstrip (Midgard.Spec.Rinex3ObsFile.styled st (contLine c))) n s = .ok (afterCont s (old ++ c.map normSat)) :=
  cont_line_fx st c hne hl h hs n s old hold

/-- **RINEX 2: the end marker** "the next line is an epoch record" (digit in column 3, blank in column 4), evaluated on
the lines as written: true for an epoch record, false for an observation line (right-aligned numbers: a digit is never
followed by a blank) and for a continuation record. -/
theorem end_marker2 (st : Midgard.Spec.Rinex3ObsFile.Style) :
    (∀ (e : Midgard.Spec.Rinex2ObsFile.Epoch), EpochOk e → isEnd (Midgard.Spec.Rinex3ObsFile.styled st (Midgard.Spec.Rinex2ObsFile.epochLine e) ++ ['\n']) = true) ∧
    (∀ (c : List Midgard.Spec.Rinex3ObsFile.Obs), c.all Midgard.Spec.Rinex3ObsFile.Obs.wf = true →
      isEnd (Midgard.Spec.Rinex3ObsFile.styled st (obsLine c) ++ ['\n']) = false) ∧
    (∀ (c : List Str), c ≠ [] → c.length ≤ 12 → (∀ s ∈ c, SatOk s) →
      isEnd (Midgard.Spec.Rinex3ObsFile.styled st (contLine c) ++ ['\n']) = false) :=
  ⟨fun e h => epochLine_end st e h, fun c h => obsLine_not_end st c h, fun c hne hl h => contLine_not_end st c hne hl h⟩

/-- **RINEX 2: one epoch group** — epoch record, continuation records, five observations per line for every satellite —
adds one row per satellite in order (none when the sampling rate decimates the epoch); `dataOf2` is the closed form of
the columns. -/
theorem block_run2' (st : Midgard.Spec.Rinex3ObsFile.Style) (ts : List Str) (hnd : ts.Nodup) (m t : Str) (H : State)
    (hH : HF ts m t H) (e : Midgard.Spec.Rinex2ObsFile.Epoch) (he : EpochWf ts e) (y : Int)
    (hy : pyInt (t.take 2 ++ zfill 2 e.yy.text) = .ok y) (rows : List Row) :
    ∃ c, Midgard.Spec.Rinex2ObsFile.runObs ((blockLinesR e).map (Midgard.Spec.Rinex3ObsFile.styled st))
        (mk2 H (dataOf2 ts (lower m) rows H.data) {}) =
      .ok (mk2 H (dataOf2 ts (lower m) (rows ++ if Midgard.Spec.Rinex2ObsFile.kept H.rate e then e.sats.map (rowOfSat (info2 H.rate y e)) else []) H.data) c) :=
  block_run2 st ts hnd m t H hH e he y hy rows

/-- **RINEX 2: the data section.**  `read_data` over the rendered epoch groups (group boundaries found by the end
marker) ends with one row per (kept epoch, satellite) in file order and an empty cache. -/
theorem blocks_run2' (st : Midgard.Spec.Rinex3ObsFile.Style) (ts : List Str) (hnd : ts.Nodup) (m t : Str) (H : State)
    (hH : HF ts m t H) (eps : List Midgard.Spec.Rinex2ObsFile.Epoch) (rows : List Row) (hw : ∀ e ∈ eps, EpochWf ts e)
    (hy : ∀ e ∈ eps, ∃ y, pyInt (t.take 2 ++ zfill 2 e.yy.text) = .ok y) :
    readData headerParser obsParser resetCache ((eps.flatMap blockLinesR).map (Midgard.Spec.Rinex3ObsFile.styled st)) false 0
        (mk2 H (dataOf2 ts (lower m) rows H.data) {}) =
      .ok (mk2 H (dataOf2 ts (lower m) (rows ++ rowsOf2 H.rate t eps) H.data) {}) :=
  blocks_run2 st ts hnd m t H hH eps rows hw hy

/-- **File-level round trip (RINEX 2).**  `read_data` on the lines of a rendered well-formed file ends in exactly
`expected rate F`: header records line by line = the registered handler called with the printed cells (the parser's wider
`RINEX VERSION / TYPE` and `# / TYPES OF OBSERV` fields included), `END OF HEADER` ends the header group, every epoch record
starts a group (end marker "digit in column 3, blank in column 4"), satellite-list continuation records extend the list,
five observations per line are collected until `num_obstypes` are there (all-blank lines through `_parse_observation_epoch`),
and the data are one column per observation type with one entry per (epoch on the sampling grid, satellite) in file order,
four-digit years, satellites named with system `G` and tens digit `0` where blank.
The header part is proved at value level (`Proofs/Rinex2ObsHandlers|Types|Header.lean`): every handler of the fifteen plain
record kinds writes only `meta` keys the data section does not read, `MARKER NAME` sets the station, the first
`# / TYPES OF OBSERV` record sets `num_obstypes` and starts the type list, its continuation records append to it, and
`TIME OF FIRST OBS` with a year ≥ 10 stores a time string that starts with two digits, so that the century in front of every
epoch's two printed digits is a readable year. -/
theorem file_roundtrip2 (rate : Option Rat) (F : Midgard.Spec.Rinex2ObsFile.File) (hwf : F.wf = true) :
    readData headerParser obsParser resetCache (Midgard.Spec.Rinex2ObsFile.fileLines F) true 0 { rate := rate } =
      Midgard.Spec.Rinex2ObsFile.expected rate F :=
  file2 rate F hwf

/-- what the data section finds in the header state of a well-formed RINEX 2 file: `num_obstypes` = the number of types, the
type list in file order, a marker name, a `TIME OF FIRST OBS` string whose first two characters in front of every epoch's
two-digit year read as an integer, the sampling rate, and empty columns (one per type) -/
theorem header_state2 (rate : Option Rat) (F : Midgard.Spec.Rinex2ObsFile.File) (hwf : F.wf = true) (H : State)
    (hH : Midgard.Spec.Rinex2ObsFile.headerState rate F.hdr = .ok H) :
    ∃ m t, H.metaD.get [key "num_obstypes"] = some (.int ((types F.hdr).length : Int)) ∧
      H.metaD.get [key "obstypes"] = some (.list (types F.hdr)) ∧
      H.metaD.get [key "marker_name"] = some (.text m) ∧ H.metaD.get [key "time_first_obs"] = some (.text t) ∧
      H.rate = rate ∧ (∀ e ∈ F.epochs, ∃ y, pyInt (t.take 2 ++ zfill 2 e.yy.text) = .ok y) ∧
      H.data = dataOf2 (types F.hdr) (lower m) [] H.data := by
  obtain ⟨m, t, f⟩ := facts2_of_wf rate F hwf H hH
  exact ⟨m, t, f.hf.hnum, f.hf.htyp, f.hf.hmark, f.hf.hfirst, f.hrate, f.hyears, f.hdata⟩

/-- the header test `hdrOk2` (the hypothesis of the earlier partial theorem, still evaluated by the driver on every generated
file) holds for every well-formed file -/
theorem hdr_ok2 (rate : Option Rat) (F : Midgard.Spec.Rinex2ObsFile.File) (hwf : F.wf = true) : hdrOk2 rate F = true :=
  hdrOk2_of_wf rate F hwf

/-- **RINEX 2: the plain header records** (all kinds but `MARKER NAME`, `TIME OF FIRST OBS`, `# / TYPES OF OBSERV`) leave the
`meta` keys the data section reads, the sampling rate and the columns as they are -/
theorem plain_header_record2 (k : String) (hk : plainKinds2.any (·.1 == k) = true) (cells : List Str) (s s' : State)
    (h : handle (handlerOf k) (valuesOf k cells) s = .ok s') : Frame2 s s' :=
  plain_frame2 k hk cells s s' h

/-- the text of a rendered well-formed RINEX 2 file splits into the rendered lines -/
theorem lines_of_render2 (F : Midgard.Spec.Rinex2ObsFile.File) (hwf : F.wf = true) :
    ChainParser.fileLines (Midgard.Spec.Rinex2ObsFile.render F) = Midgard.Spec.Rinex2ObsFile.fileLines F :=
  lines_render2 F hwf

/-- **`Rinex2Parser(text of F, sampling_rate).parse()`** is `expected rate F` followed by the post-processors -/
theorem parse_render2 (rate : Option Rat) (F : Midgard.Spec.Rinex2ObsFile.File) (hwf : F.wf = true) :
    parseText rate (Midgard.Spec.Rinex2ObsFile.render F) = match Midgard.Spec.Rinex2ObsFile.expected rate F with
      | .ok s => finish s
      | .error e => .error e := by
  unfold parseText parseLines
  rw [lines_render2 F hwf, file2 rate F hwf]
  cases Midgard.Spec.Rinex2ObsFile.expected rate F <;> rfl

/-- **The RINEX 2 post-processors** (`_remove_empty_obstype_fields`, `_get_obstypes_dict`, `_time_system_correction`) keep every
row: the row-level columns and the header position are unchanged, the observation / LLI / SSI columns are the parsed ones
minus the types whose observation column is empty or absent in every row (`deadTypes`), and — when a type survives — every
system that has a row finds exactly the surviving types (`liveTypes`: the header's list with the dead ones removed) under
`meta["obstypes"][system]`. -/
theorem postprocessors_keep_rows2 (s s' : State) (h : finish s = .ok s') :
    s'.data.obs = s.data.obs.filter (fun kc => !(Midgard.Spec.Rinex3ObsFile.deadTypes s.data).contains kc.1) ∧
    s'.data.lli = s.data.lli.filter (fun kc => !(Midgard.Spec.Rinex3ObsFile.deadTypes s.data).contains kc.1) ∧
    s'.data.snr = s.data.snr.filter (fun kc => !(Midgard.Spec.Rinex3ObsFile.deadTypes s.data).contains kc.1) ∧
    rowCols s'.data = rowCols s.data ∧ s'.data.timeMicros = s.data.timeMicros ∧ s'.data.pos = s.data.pos ∧
    (liveTypes s ≠ [] → ∀ sy ∈ s.data.system, s'.metaD.get [key "obstypes", sy] = some (.list (liveTypes s))) :=
  finish2 s s' h

/-- **`Rinex2Parser(text of F, sampling_rate).parse()` end to end**: when the header handlers accept the header
(`expected rate F = .ok s`) and the post-processors run through (`finish s = .ok s'`), parsing the rendered text delivers `s'` -/
theorem parse_result2 (rate : Option Rat) (F : Midgard.Spec.Rinex2ObsFile.File) (hwf : F.wf = true) (s s' : State)
    (he : Midgard.Spec.Rinex2ObsFile.expected rate F = .ok s) (hf : finish s = .ok s') :
    parseText rate (Midgard.Spec.Rinex2ObsFile.render F) = .ok s' := by
  rw [parse_render2 rate F hwf, he]
  exact hf

def tiny2F : Midgard.Spec.Rinex2ObsFile.File :=
  let c (t : String) (v : Option Rat) : Cell := ⟨t.toList, v⟩
  let i (t : String) (v : Int) : IntCell := ⟨t.toList, v⟩
  let b : Obs := ⟨c "" none, c "" none, c "" none⟩
  let o (t : String) (v : Rat) : Obs := ⟨c t (some v), c "" none, c "" none⟩
  { hdr := [("VER2", ["2.11".toList, "O".toList, "M".toList]), ("MNAME", ["TRDS".toList]),
            ("TYPES2", ["7", "C1", "P2", "L1", "L2", "D1", "S1", "S2", "", ""].map String.toList),
            ("TFIRST", ["2018", "2", "1", "0", "0", "0.0000000", "GPS"].map String.toList)],
    epochs := [
      { yy := i "18" 18, month := i "2" 2, day := i "1" 1, hour := i "0" 0, minute := i "0" 0, second := ⟨"30.0000000".toList, 30⟩,
        flag := i "0" 0, numSat := "2".toList, clk := c "" none,
        sats := [⟨"G07".toList, [o "24236245.742" (24236245742 / 1000), o "24236247.152" (24236247152 / 1000), b, b, b, b, b]⟩,
                 ⟨"R21".toList, [o "21119353.719" (21119353719 / 1000), b, b, b, o "-1784.992" (-1784992 / 1000), o "49.300" (493 / 10), b]⟩] }],
    style := .stripped }

example : tiny2F.wf = true ∧ hdrOk2 none tiny2F = true ∧
    (readData headerParser obsParser resetCache (Midgard.Spec.Rinex2ObsFile.fileLines tiny2F) true 0 {}).toOption =
      (Midgard.Spec.Rinex2ObsFile.expected none tiny2F).toOption ∧
    ((Midgard.Spec.Rinex2ObsFile.expected none tiny2F).toOption.map fun s => (s.data.satellite, s.data.time)) =
      some (["G07".toList, "R21".toList], ["2018-02-01T00:00:30.0000000".toList, "2018-02-01T00:00:30.0000000".toList]) := by
  decide +kernel

/-- the same file through the post-processors: the types without a value in any row (`L1`, `L2`, `S2`) are gone, both systems
find the surviving types, both rows are kept -/
example : (match Midgard.Spec.Rinex2ObsFile.expected none tiny2F with
    | .ok s => (match finish s with
      | .ok s' => some (s'.data.obs.map (·.1), s'.metaD.get [key "obstypes", "R".toList], s'.data.satellite.length)
      | _ => none)
    | _ => none) =
    some (["C1", "P2", "D1", "S1"].map String.toList, some (.list (["C1", "P2", "D1", "S1"].map String.toList)), 2) := by
  decide +kernel

/-- the conjuncts `typesRecsOk` and `tfirstOk` of `wf` are needed: with a second first `# / TYPES OF OBSERV` record the parser
restarts its type list (the header test fails: the list is not the file's), with a one-digit year in `TIME OF FIRST OBS` the
century in front of an epoch's two digits is unreadable -/
example :
    let two : Midgard.Spec.Rinex2ObsFile.File := { tiny2F with hdr := tiny2F.hdr.take 3 ++
      [("TYPES2", ["2", "C5", "L5", "", "", "", "", "", "", ""].map String.toList)] ++ tiny2F.hdr.drop 3 }
    let y5 : Midgard.Spec.Rinex2ObsFile.File := { tiny2F with hdr := tiny2F.hdr.take 3 ++
      [("TFIRST", ["5", "2", "1", "0", "0", "0.0000000", "GPS"].map String.toList)] }
    two.wf = false ∧ hdrOk2 none two = false ∧ y5.wf = false ∧ hdrOk2 none y5 = false := by
  decide +kernel

end File2

end Midgard.Props.C11

#print axioms Midgard.Props.C11.header_cols_cover_spec
#print axioms Midgard.Props.C11.record_cols_cover_spec
#print axioms Midgard.Props.C11.handlers_as_modelled
#print axioms Midgard.Props.C11.specs_ok
#print axioms Midgard.Props.C11.header_record_roundtrip
#print axioms Midgard.Props.C11.floatOpt_blank
#print axioms Midgard.Props.C11.floatOpt_value
#print axioms Midgard.Props.C11.blank_line_label
#print axioms Midgard.Props.C11.blank_line_is_observation
#print axioms Midgard.Props.C11.obs3_ok
#print axioms Midgard.Props.C11.triple_slices
#print axioms Midgard.Props.C11.obs_record
#print axioms Midgard.Props.C11.obs_record_values
#print axioms Midgard.Props.C11.triple_slices2
#print axioms Midgard.Props.C11.obs2_line_record
#print axioms Midgard.Props.C11.sampling
#print axioms Midgard.Props.C11.decimated_epoch_adds_nothing3
#print axioms Midgard.Props.C11.decimated_epoch_adds_nothing2
#print axioms Midgard.Props.C11.bind_ok
#print axioms Midgard.Props.C11.mapM_fst
#print axioms Midgard.Props.C11.zip_fst_of_length
#print axioms Midgard.Props.C11.obsTriples_length
#print axioms Midgard.Props.C11.obs_columns_aligned
#print axioms Midgard.Props.C11.file_roundtrip3
#print axioms Midgard.Props.C11.header_state3
#print axioms Midgard.Props.C11.lines_of_render3
#print axioms Midgard.Props.C11.parse_render3
#print axioms Midgard.Props.C11.expected_columns_aligned
#print axioms Midgard.Props.C11.postprocessors_keep_rows
#print axioms Midgard.Props.C11.obs_lines2
#print axioms Midgard.Props.C11.obs_line2
#print axioms Midgard.Props.C11.sats_list2
#print axioms Midgard.Props.C11.obs_text2
#print axioms Midgard.Props.C11.label_of_obs_line2
#print axioms Midgard.Props.C11.sat_lines2
#print axioms Midgard.Props.C11.epoch_line2
#print axioms Midgard.Props.C11.cont_line2
#print axioms Midgard.Props.C11.end_marker2
#print axioms Midgard.Props.C11.block_run2'
#print axioms Midgard.Props.C11.blocks_run2'
#print axioms Midgard.Props.C11.file_roundtrip2
#print axioms Midgard.Props.C11.header_state2
#print axioms Midgard.Props.C11.hdr_ok2
#print axioms Midgard.Props.C11.plain_header_record2
#print axioms Midgard.Props.C11.lines_of_render2
#print axioms Midgard.Props.C11.parse_render2
#print axioms Midgard.Props.C11.postprocessors_keep_rows2
#print axioms Midgard.Props.C11.parse_result2
