/-
C09 — A Dataset stays a rectangular, row-aligned table under any operation sequence.

Property theorems only, about the executable model in `Model/Dataset.lean` / `Model/DatasetOps.lean`
(heap of array objects with `other`/`ref_pos` references, field trees, every operation threading
the code's memo).  The model is tied to `/repo` by the correspondence of `harness/c09.py`.

What is proved, for all heaps, datasets, indices and operation sequences (no bound):

* `history_invariant`   after any sequence of successful operations (new / obj / add / add_collection at any
                        depth / del / subset / extend / merge(+sort) / filter-subset / unique / **difference**)
                        every dataset of the world is rectangular: every field, every field nested in
                        collections, every `other` / `ref_pos` object attached (recursively) has exactly
                        `num_obs` rows, and every field's own `num_obs` equals the dataset's.  (Since the
                        `fix:` of `Collection.__len__` no shape of field tree is excluded any more.)
* `subset_refines`      `subset` is, object by object, "keep the selected rows": the new field tree has
                        the same names / kinds / units / levels in the same order, every array — and
                        every array attached to it — is the image of the old one under `pick idx`,
                        the declared count is the number of selected rows.  Row alignment is this
                        statement: one and the same `idx` acts on every column.
* `pick_mask_in_order`, `pick_ints_in_order`   `pick` keeps the selected rows in order.
* `extend_counts`       `extend` of `n` rows by `m` rows gives `n + m` everywhere (missing fields and
                        one-sided attachments are padded); `insert_splices_rows`, `insert_at_end_appends`,
                        `pad_front`, `extend_float_converts_units` say where the rows go and how units
                        are converted, array by array.
* `sort_is_stable_permutation`, `sort_refines`   merge-with-sort permutes every column by one
                        permutation of the row numbers that is sorted by key and stable.
* `subset_count_not_sum` the negation witness for the code as it was (`num_obs = sum(idx)`).
* `subset_keeps_sharing` one function from old to new array objects describes what every time / position /
                        delta field holds after `subset` (and after the sort of `merge_with`): fields
                        that shared an object share the new one — the memo re-creates it exactly once.
* `difference_pairs_by_key`   `difference(index_by=…)`: the result has one row per key tuple common to the two
                        datasets, in strictly ascending key order; EVERY field of the result — at the top level
                        and in collections nested to any depth — is built with one and the same pair of row
                        indices: row `k` is taken from the FIRST row of self / of other that carries the `k`-th
                        common key (`DiffOf`: difference fields, `_self`/`_other` copies, collections; the index
                        fields are copies of self's).  `difference_row` reads the rows off: row `k` of a
                        difference array is (row `i_k` of self) − (row `j_k` of other)·factor.
* `difference_pairs_by_position`, `difference_row_positional`   without `index_by`: the numbers of
                        observations agree and row `k` pairs with row `k`, in every field at every depth.
* `difference_rectangular`    the result of `difference` is a rectangular, well-formed table (whatever the
                        operands were).
* `common_keys_sorted_distinct`, `first_occurrence`   the `intersect1d` model: the common keys ascending and
                        distinct; the paired row is the first one carrying the key.

Not proved (measured by the correspondence and the property oracle only): the content half of the
refinement for `extend` (`abs (extend d e) = abs d ++ pad (abs e)` incl. unit factors — only the row
counts and the array-level splice are theorems), sharing under `extend` and the identity of
*attached* objects with fields (`p.other is q` — the images of the attachments are proved, that the
image is the object field `q` now holds is not).  Outside the modelled fragment of `difference` (the model
answers `unsupported`, the harness has no expectation): fields of different types under one name, NumPy
broadcasting of arrays of different shapes, a NaN or a field of a collection as index field, epochs that
are the empty epoch.
-/
import Midgard.Proofs.DatasetExtendContent
import Midgard.Proofs.DatasetExtendFlat

namespace Midgard.Props.C09
open Midgard.Dataset

/-! ### the history invariant -/

/-- After any history of successful operations, starting from a world of rectangular tables, every
dataset is a rectangular table: all fields, nested fields and attached objects have `num_obs` rows.
(`Run` also records that the arrays handed to `add` are themselves consistent, which the code does
not check.) -/
theorem history_invariant {w w' : W} {ops : List Op} (hr : Run w ops w') (ok : WOK w) : WOK w' :=
  run_ok hr ok

/-- the empty world is fine, so every history from scratch is covered -/
theorem empty_world_ok : WOK {} := by
  intro i x h
  simp [W.getDs] at h

/-- one step, with the heap only growing (old arrays are never modified: datasets that were not
operated on keep their contents) -/
theorem step_invariant (w : W) (op : Op) (w' : W) (out : Out) (hs : step w op = .ok (w', out)) (ok : WOK w)
    (hv : Valid w op) : WOK w' ∧ HeapExt w.heap w'.heap :=
  step_ok w op w' out hs ok hv

/-! ### subset -/

/-- `Dataset.subset` refines "keep the selected rows of every column": -/
theorem subset_refines (idx : Index) (h : Heap) (d : DS) (h' : Heap) (d' : DS)
    (hok : dsSubset idx h d = .ok (h', d')) :
    HeapExt h h' ∧ FieldImg.FieldsImg idx h' d.fields d'.fields ∧ d'.numObs = idx.count ∧ Rect h' d' :=
  dsSubset_spec idx h d h' d' hok

/-- an image has the picked rows, and so has everything attached to it (one unfolding of `Img`) -/
theorem image_rows (idx : Index) (h : Heap) (o o' : Nat) (hi : Img idx h o o') :
    ∃ ob ob', h[o]? = some ob ∧ h[o']? = some ob' ∧ pick idx ob.rows = .ok ob'.rows ∧ ob'.kind = ob.kind ∧
      (ob.kind.hasOther = true → OptRel (Img idx h) ob.other ob'.other) ∧
      (ob.kind.isDelta = true → OptRel (Img idx h) ob.refPos ob'.refPos) := by
  obtain ⟨f, hf⟩ := hi
  cases f with
  | zero => simp [ImgF] at hf
  | succ f =>
    obtain ⟨ob, ob', h1, h2, h3, h4, _, _, h7, h8⟩ := hf
    exact ⟨ob, ob', h1, h2, h3, h4, fun hk => (h7 hk).mono (fun _ _ hh => ⟨f, hh⟩),
      fun hk => (h8 hk).mono (fun _ _ hh => ⟨f, hh⟩)⟩

/-- boolean mask: the result is the sub-list of the rows whose mask entry is true, in order -/
theorem pick_mask_in_order {α} (m : List Bool) (xs r : List α) (h : pick (.mask m) xs = .ok r) :
    r.Sublist xs ∧ r = ((m.zip xs).filter (fun p => p.1)).map (·.2) ∧ r.length = (m.filter id).length := by
  have hl := pick_length (.mask m) xs r h
  simp only [pick] at h
  split at h
  · simp only [Except.ok.injEq] at h; subst h
    exact ⟨pickMask_sublist m xs, pickMask_eq_zip_filter m xs, hl⟩
  · simp at h

/-- integer index: entry `k` of the result is row `is[k]` (negative numbers count from the end) -/
theorem pick_ints_in_order {α} (is : List Int) (xs r : List α) (h : pick (.ints is) xs = .ok r) :
    r.length = is.length ∧ ∀ k (hk : k < is.length), ∃ j, normIdx xs.length is[k] = some j ∧ r[k]? = xs[j]? := by
  have hl := pick_length (.ints is) xs r h
  simp only [pick] at h
  split at h
  · rename_i r' hr
    simp only [Except.ok.injEq] at h; subst h
    exact ⟨hl, pickInts_get xs is r' hr⟩
  · simp at h

/-- the declared count after the `fix:` is the number of selected rows; the code as it was declared
`sum(idx)`: for the integer index `[3, 2, 1, 3]` over four rows that is 9, not 4 -/
theorem subset_count_not_sum :
    (Index.ints [3, 2, 1, 3]).count = 4 ∧ ([3, 2, 1, 3] : List Int).sum = 9 ∧
    pick (.ints [3, 2, 1, 3]) [10, 11, 12, 13] = .ok [13, 12, 11, 13] := by
  refine ⟨rfl, by decide, rfl⟩

/-- **sharing under `subset`**: if the heap objects of the leaves have the kinds of their fields (as
`add` establishes), there is one map `σ` from old to new objects such that every leaf of a
memo-using kind (time, time delta, position, posvel, the deltas) that held `o` holds `σ o` afterwards,
at every nesting depth — two fields that were the same object are the same object again. -/
theorem subset_keeps_sharing (idx : Index) (h : Heap) (d : DS) (h' : Heap) (d' : DS)
    (hok : dsSubset idx h d = .ok (h', d')) (hk : KindsOK.KindsOKs h d.fields) :
    ∃ σ : Nat → Option Nat, LeafMap.LeafMaps σ d.fields d'.fields :=
  dsSubset_sharing idx h d h' d' hok hk

/-- the memo registers what it re-creates and never forgets the registration of an array object of a
memo-using kind (the mechanism behind `subset_keeps_sharing`) -/
theorem memo_registers (idx : Index) (fuel o : Nat) (s : St) (o' : Nat) (s' : St)
    (h : subsetObj idx fuel o s = .ok (o', s')) : s'.find o = some o' ∧ PersistK s s' :=
  ⟨(subsetObj_reg idx fuel o s o' s' h).2.2, (subsetObj_reg idx fuel o s o' s' h).2.1⟩

/-! ### extend -/

/-- `Dataset.extend`: `n` rows extended by `m` rows are `n + m` rows in every field, nested field
and attached object; fields missing on one side are padded. -/
theorem extend_counts (us : Units) (h : Heap) (d e : DS) (h' : Heap) (d' : DS)
    (hok : dsExtend us h d e = .ok (h', d')) (hd : Rect h d) (he : Rect h e) (okd : DSOK d) (oke : DSOK e) :
    HeapExt h h' ∧ Rect h' d' ∧ DSOK d' ∧ d'.numObs = d.numObs + e.numObs :=
  dsExtend_ok us h d e h' d' hok hd he okd oke

/-- at the array level `np.insert` at the end appends (every field inserts at its own `num_obs`,
which the invariant makes the number of rows) and at 0 prepends -/
theorem insert_at_end_appends {α} (a b : List α) : insertAt a a.length b = a ++ b := insertAt_end a b
theorem pad_front {α} (a b : List α) : insertAt a 0 b = b ++ a := insertAt_zero a b

/-- `insert` of two arrays: the result has the rows of both, whatever the memo returned for the
attachments -/
theorem insert_counts (n m : Nat) (fuel a pos b : Nat) (s : St) (r : Nat) (s' : St)
    (h : insertObj fuel a pos b s = .ok (r, s')) (hm : MemoGood (n + m) s) (ga : Good s.heap n a)
    (gb : Good s.heap m b) : Good s'.heap (n + m) r ∧ HeapExt s.heap s'.heap :=
  ⟨(insertObj_spec n m fuel a pos b s r s' h hm ga gb).2, (insertObj_spec n m fuel a pos b s r s' h hm ga gb).1.1⟩

/-- `insert(a, pos, b, memo)` of two arrays the memo has not seen: the rows of `a` with the rows of `b`
spliced in at `pos` (= appended, by `insert_at_end_appends`, for a field of a rectangular table); the rows of a
time `b` of another scale / format are the converted ones (`convRows`, see `insert_converts_each_epoch`); the
result keeps kind, time scale and format of `a` -/
theorem insert_splices_rows (fuel a pos b : Nat) (s : St) (r : Nat) (s' : St)
    (h : insertObj (fuel + 1) a pos b s = .ok (r, s')) (ha : s.find a = none) (hb : s.find b = none) :
    ∃ oa ob orr, s.heap[a]? = some oa ∧ s.heap[b]? = some ob ∧ s'.heap[r]? = some orr ∧
      orr.rows = insertAt oa.rows pos (convRows s.conv oa.tag ob) ∧ orr.kind = oa.kind ∧ orr.tag = oa.tag :=
  insertObj_rows fuel a pos b s r s' h ha hb

/-- same scale and format (or no time at all, or the padding array): the rows of `b` go in unchanged -/
theorem insert_same_format_keeps_rows (cv : Conv) (t : String) (ob : Obj) (h : ob.tag = t ∨ ob.tag = "") :
    convRows cv t ob = ob.rows := by
  unfold convRows needsConv
  rcases h with h | h <;> simp [h]

/-- another scale or format: epoch `k` of the spliced rows is the conversion **of epoch `k` of `b` itself** (the table
is the function of the Time classes, applied row by row) — in particular two arrays `b`, `b'` with different epochs
never receive each other's rows, and the number of epochs is unchanged -/
theorem insert_converts_each_epoch (cv : Conv) (t : String) (ob : Obj) (hn : needsConv t ob = true)
    (hc : convertible cv t ob = true) (k : Nat) (r : Row) (hr : ob.rows[k]? = some r) :
    ∃ r', cv.lookup (ob.tag, t, r) = some r' ∧ (convRows cv t ob)[k]? = some r' ∧
      (convRows cv t ob).length = ob.rows.length := by
  have hall : ∀ x ∈ ob.rows, (cv.lookup (ob.tag, t, x)).isSome = true := by
    have := hc
    simp only [convertible, hn, Bool.not_true, Bool.false_or, Bool.and_eq_true, List.all_eq_true] at this
    exact this.2
  have hmem : r ∈ ob.rows := List.mem_of_getElem? hr
  obtain ⟨r', hr'⟩ := Option.isSome_iff_exists.mp (hall r hmem)
  refine ⟨r', hr', ?_, convRows_length cv t ob⟩
  simp [convRows, hn, hr, hr']

/-- **extending a time / time-delta field** (field level, memo has seen neither array): the extended field holds the
epochs of self followed — at the field's `num_obs` — by the epochs of other, each converted to the scale and shown in
the format of self when those differ; scale and format of self are kept; the field's `num_obs` is the new length -/
theorem extend_time_field_content (us : Units) (nm : String) (k : Kind) (hk : k = .time ∨ k = .timeDelta)
    (o no : Nat) (u : Option (List String)) (l : Nat)
    (nm2 : String) (o2 no2 : Nat) (u2 : Option (List String)) (l2 : Nat) (s : St) (f' : Field) (s' : St)
    (h : extendLeaf us nm k o no u l (.leaf nm2 k o2 no2 u2 l2) s = .ok (f', s'))
    (ha : s.find o = none) (hb : s.find o2 = none) :
    ∃ oa ob o' no' orr, s.heap[o]? = some oa ∧ s.heap[o2]? = some ob ∧
      f' = .leaf nm k o' no' u l ∧ s'.heap[o']? = some orr ∧
      orr.rows = insertAt oa.rows no (convRows s.conv oa.tag ob) ∧ orr.tag = oa.tag ∧ no' = orr.rows.length :=
  extendLeaf_time_rows us nm k hk o no u l nm2 o2 no2 u2 l2 s f' s' h ha hb

/-- **extending a sigma field** (field level): values and sigmas of other, column by column times the unit factor
`Unit(other unit, own unit)`, appended at the field's `num_obs` — when the memo has not seen the array of self and holds
only arrays that exist (true at every point of an `extend`: `MemoGood`) -/
theorem extend_sigma_field_content (us : Units) (nm : String) (o no : Nat) (u : Option (List String)) (l : Nat)
    (nm2 : String) (o2 no2 : Nat) (u2 : Option (List String)) (l2 : Nat) (s : St) (f' : Field) (s' : St)
    (h : extendLeaf us nm .sigma o no u l (.leaf nm2 .sigma o2 no2 u2 l2) s = .ok (f', s'))
    (ha : s.find o = none) (hbnd : ∀ k v, (k, v) ∈ s.memo → k < s.heap.length) :
    ∃ oa ob fs o' no' orr, s.heap[o]? = some oa ∧ s.heap[o2]? = some ob ∧ unitFactors us u u2 = .ok fs ∧
      f' = .leaf nm .sigma o' no' u l ∧ s'.heap[o']? = some orr ∧
      (ob.tag = oa.tag ∨ ob.tag = "" → orr.rows = insertAt oa.rows no (ob.rows.map (scaleRow fs))) :=
  extendLeaf_sigma_rows us nm o no u l nm2 o2 no2 u2 l2 s f' s' h ha hbnd

/-- **the memo contract of `insert`** (the mechanism that keeps shared objects shared under `extend`): an `insert`
that found neither array in the memo registers the new array under the id of `a` AND under the id `b` had when it was
handed in (also when `b` was converted to another scale — fix 3762c2d); from then on every `insert` whose `a` is that
array, and every `insert` of that `b` into an array the memo does not know, hands out the very same new array and
changes nothing.  Full statement (`extend_keeps_sharing`: two paths that reach one array object of a dataset before
`Dataset.extend` reach one array object afterwards) additionally needs that entries of dataset objects survive the
loop over the fields; that part is not proved (measured by the correspondence, which compares object identities). -/
theorem extend_keeps_sharing_partial (fuel a pos b : Nat) (s : St) (r : Nat) (s' : St)
    (h : insertObj (fuel + 1) a pos b s = .ok (r, s')) (ha : s.find a = none) (hb : s.find b = none) :
    (s'.find a = some r ∧ s'.find b = some r) ∧
    (∀ fuel' pos' b', insertObj (fuel' + 1) a pos' b' s' = .ok (r, s')) ∧
    (∀ fuel' a' pos', s'.find a' = none → insertObj (fuel' + 1) a' pos' b s' = .ok (r, s')) := by
  obtain ⟨h1, h2⟩ := insertObj_registers fuel a pos b s r s' h ha hb
  exact ⟨⟨h1, h2⟩, fun f' p' b' => insertObj_hit_a f' a p' b' s' r h1,
    fun f' a' p' ha' => insertObj_hit_b f' a' p' b s' r ha' h2⟩

/-- a second time field holding the same array as a field that was already extended is served from the memo: it gets
the very array made for the first name (two names of one array stay one array when both names are extended) -/
theorem extend_second_name_served_from_memo (us : Units) (nm : String) (k : Kind) (hk : k = .time ∨ k = .timeDelta)
    (o no : Nat) (u : Option (List String)) (l : Nat)
    (nm2 : String) (o2 no2 : Nat) (u2 : Option (List String)) (l2 : Nat) (s : St) (r : Nat) (oa ob : Obj)
    (hoa : s.heap[o]? = some oa) (hob : s.heap[o2]? = some ob) (hka : oa.kind = k) (hkb : ob.kind = k)
    (hnd : oa.ndim = ob.ndim) (hit : s.find o = some r) :
    extendLeaf us nm k o no u l (.leaf nm2 k o2 no2 u2 l2) s = .ok (.leaf nm k r (objLen s.heap r) u l, s) :=
  extendLeaf_served_from_memo us nm k hk o no u l nm2 o2 no2 u2 l2 s r oa ob hoa hob hka hkb hnd hit

/-- **the mechanism of the listed finding** `extend:shared-array-one-name-missing` is a theorem about the model: padding
(`append_empty` / `prepend_empty`) a time field whose array was already extended under another name does not pad — the
memo hands out the array made for the other name, so the name the other dataset lacks holds the other dataset's values.
The dataset-level theorems

  `extend_refines_records` (all kinds):  `splitSharing d.fields e.fields = false` → compatible sharing →
      `abs (extend d e) = aExtendFields (abs d) (abs e)`
  `extend_keeps_sharing`:  `splitSharing d.fields e.fields = false` → two paths of `d` that reach one array object
      before `dsExtend` reach one array object afterwards

have to exclude exactly this situation; `splitSharing` ("an array is held under a name the other dataset lacks and under
a name it has", `Model/DatasetRecords.lean`) is that hypothesis as a decidable predicate, evaluated by the driver for
every `extend` and compared with the same question asked of the real datasets and of the reference.  Both dataset-level
theorems are NOT proved (the invariant "memo entries of dataset objects survive the loop over the fields, and no other
entry has such a key" is missing); proved are the field-level pieces: `extend_time_field_content`,
`extend_sigma_field_content`, `extend_keeps_sharing_partial`, `extend_second_name_served_from_memo` and this one. -/
theorem pad_of_second_name_served_from_memo (front : Bool) (n : Nat) (nm : String) (k : Kind) (hk : k = .time ∨ k = .timeDelta)
    (o no : Nat) (u : Option (List String)) (l : Nat) (s : St) (r : Nat) (ob : Obj)
    (hob : s.heap[o]? = some ob) (hkb : ob.kind = k) (hit : s.find o = some r) :
    ∃ s', padField front n (.leaf nm k o no u l) s = .ok (.leaf nm k r (objLen s'.heap r) u l, s') ∧
      s'.find o = some r :=
  padField_served_from_memo front n nm k hk o no u l s r ob hob hkb hit

/-! ### the memo invariant of `extend` (flat kinds) and the field-level steps under it

`MemoSem us h0 n m W s` (`Proofs/DatasetExtendInv.lean`): `W` is the set of units of work (`Item`: a leaf of self with the
leaf of the same name of other / a leaf only self has / a leaf only other has), `Item.exp` is what the table demands of an
item (rows and scale/format, read off the heap `h0` before the `extend`); the invariant says: memo keys are arrays that
exist, the heap only grew, **every memo entry under an array of an item holds what the table demands of that item**, and
**the arrays of one item are registered to one new array**.  Hypotheses on `W`: `Consistent` (two items registered under
one array demand the same column) and `ObjsAgree` (they are registered under the same arrays) — in object terms:
`splitSharing = false`, common names share arrays alike in both datasets, shared sigma arrays have equal units, no array
belongs to both datasets at different places.  The theorems below are the loop body of the dataset-level theorems
`extend_refines_records` / `extend_keeps_sharing` (the loops over the fields are not lifted yet, see
`Proofs/DatasetExtendNOTES.md`). -/

/-- one `insert` of a flat memo kind under the invariant: right content whatever the memo answers (hit on `a`, hit on `b`,
miss), invariant kept, the result registered under an array of the item, earlier entries untouched -/
theorem insert_under_memo_invariant (us : Units) (h0 : Heap) (n m : Nat) (W : Item → Prop) (hI : Items h0 W)
    (hC : Consistent us h0 n m W) (hO : ObjsAgree W) (it : Item) (hit : W it) (hnp : it.kind.isPlain = false)
    (fuel a pos b : Nat) (s : St) (oa ob : Obj) (ms : MemoSem us h0 n m W s) (hcv : s.conv = us.conv)
    (ha : a ∈ it.objs) (hoa : s.heap[a]? = some oa) (hob : s.heap[b]? = some ob) (hf : oa.kind.flat = true)
    (hb : b ∈ it.objs ∨ (s.find b = none ∧ h0.length ≤ b)) (hsub : ∀ x ∈ it.objs, x = a ∨ x = b)
    (hexp : it.exp us h0 n m = some (insertAt oa.rows pos (convRows us.conv oa.tag ob), oa.tag))
    (r : Nat) (s' : St) (h : insertObj (fuel + 1) a pos b s = .ok (r, s')) :
    IsRes s'.heap r (insertAt oa.rows pos (convRows us.conv oa.tag ob), oa.tag) ∧ HeapExt s.heap s'.heap ∧
      MemoSem us h0 n m W s' ∧ s'.conv = us.conv ∧ (∃ o ∈ it.objs, s'.find o = some r) ∧ PersistW W s s' :=
  insert_step us h0 n m W hI hC hO it hit hnp fuel a pos b s oa ob ms hcv ha hoa hob hf hb hsub hexp r s' h

/-- a time / time-delta leaf of self extended by the leaf of other under the invariant: the new leaf holds the epochs of
self followed by the converted epochs of other (`Item.exp`), in the scale / format of self, `num_obs` = its length, it
is registered in the memo; the invariant is kept -/
theorem extend_time_leaf_under_invariant (us : Units) (h0 : Heap) (n m : Nat) (W : Item → Prop) (hI : Items h0 W)
    (hC : Consistent us h0 n m W) (hO : ObjsAgree W) (nm : String) (k : Kind) (hk : k = .time ∨ k = .timeDelta)
    (o no : Nat) (u : Option (List String)) (l : Nat)
    (nm2 : String) (o2 no2 : Nat) (u2 : Option (List String)) (l2 : Nat) (s : St) (f' : Field) (s' : St)
    (ms : MemoSem us h0 n m W s) (hcv : s.conv = us.conv) (hit : W (.both k o u o2 u2))
    (oa : Obj) (hoa : h0[o]? = some oa) (hno : no = oa.rows.length)
    (h : extendLeaf us nm k o no u l (.leaf nm2 k o2 no2 u2 l2) s = .ok (f', s')) :
    LeafPost us h0 n m s' (.both k o u o2 u2) nm k u l f' ∧ HeapExt s.heap s'.heap ∧
      MemoSem us h0 n m W s' ∧ s'.conv = us.conv ∧ PersistW W s s' :=
  extendLeaf_time_step us h0 n m W hI hC hO nm k hk o no u l nm2 o2 no2 u2 l2 s f' s' ms hcv hit oa hoa hno h

/-- a sigma leaf likewise (values and sigmas of other times the unit factors appended) -/
theorem extend_sigma_leaf_under_invariant (us : Units) (h0 : Heap) (n m : Nat) (W : Item → Prop) (hI : Items h0 W)
    (hC : Consistent us h0 n m W) (hO : ObjsAgree W) (nm : String)
    (o no : Nat) (u : Option (List String)) (l : Nat)
    (nm2 : String) (o2 no2 : Nat) (u2 : Option (List String)) (l2 : Nat) (s : St) (f' : Field) (s' : St)
    (ms : MemoSem us h0 n m W s) (hcv : s.conv = us.conv) (hit : W (.both .sigma o u o2 u2))
    (oa ob0 : Obj) (hoa : h0[o]? = some oa) (hob0 : h0[o2]? = some ob0) (hno : no = oa.rows.length)
    (h : extendLeaf us nm .sigma o no u l (.leaf nm2 .sigma o2 no2 u2 l2) s = .ok (f', s')) :
    LeafPost us h0 n m s' (.both .sigma o u o2 u2) nm .sigma u l f' ∧ HeapExt s.heap s'.heap ∧
      MemoSem us h0 n m W s' ∧ s'.conv = us.conv ∧ PersistW W s s' :=
  extendLeaf_sigma_step us h0 n m W hI hC hO nm o no u l nm2 o2 no2 u2 l2 s f' s' ms hcv hit oa ob0 hoa hob0 hno h

/-- the padding of a time / time-delta / sigma leaf only one dataset has (`front = false`: only self, `m` empty values at
the end; `front = true`: only other, `n` in front) under the invariant -/
theorem pad_leaf_under_invariant (us : Units) (h0 : Heap) (n m : Nat) (W : Item → Prop) (hI : Items h0 W)
    (hC : Consistent us h0 n m W) (hO : ObjsAgree W) (front : Bool) (nm : String) (k : Kind)
    (hk : k = .time ∨ k = .timeDelta ∨ k = .sigma)
    (o no : Nat) (u : Option (List String)) (l : Nat) (s : St) (f' : Field) (s' : St)
    (ms : MemoSem us h0 n m W s) (hcv : s.conv = us.conv)
    (hit : W (if front then .otherOnly k o else .selfOnly k o))
    (oa : Obj) (hoa : h0[o]? = some oa) (hno : front = false → no = oa.rows.length)
    (cnt : Nat) (hcnt : cnt = if front then n else m)
    (h : padField front cnt (.leaf nm k o no u l) s = .ok (f', s')) :
    LeafPost us h0 n m s' (if front then .otherOnly k o else .selfOnly k o) nm k u l f' ∧ HeapExt s.heap s'.heap ∧
      MemoSem us h0 n m W s' ∧ s'.conv = us.conv ∧ PersistW W s s' :=
  padField_memo_step us h0 n m W hI hC hO front nm k hk o no u l s f' s' ms hcv hit oa hoa hno cnt hcnt h

/-- **`extend_refines_records`, datasets of flat leaf fields** (bool, float, text, sigma, time, time delta at the top
level; self not empty): under `Consistent` and `ObjsAgree` of the units of work `itemsOf d.fields e.fields` — in object
terms: no array is held under a name the other dataset lacks and under a name it has (`splitSharing = false`), common
names share arrays alike in both datasets, shared sigma arrays have equal units, no array belongs to both datasets at
different places — **every field of the result holds exactly what the table demands** of its unit of work: rows
(`self ++ converted other`, `self ++ m empty`, `n empty ++ other`) and scale/format of `Item.exp`, `num_obs` = their
number; every name of self is still there; the declared count is `n + m`.
Full statement (open): the same with nested collections (same induction, mutual with `extendField`) and with the
position kinds (attachments: `insert_step` by the fuel induction of `insertObj_spec`); see
`Proofs/DatasetExtendNOTES.md`. -/
theorem extend_refines_records_flat_partial (us : Units) (h : Heap) (d e : DS) (h' : Heap) (d' : DS)
    (hok : dsExtend us h d e = .ok (h', d'))
    (hn : d.numObs ≠ 0)
    (hS : ∀ f ∈ d.fields, FlatLeaf h d.numObs f) (hE : ∀ g ∈ e.fields, FlatLeaf h e.numObs g)
    (hkS : ∀ f ∈ d.fields, KindsOK h f) (hkE : ∀ g ∈ e.fields, KindsOK h g)
    (ndS : (names d.fields).Nodup) (ndE : (names e.fields).Nodup)
    (hC : Consistent us h d.numObs e.numObs (itemsOf d.fields e.fields))
    (hO : ObjsAgree (itemsOf d.fields e.fields)) :
    (∀ x ∈ d'.fields, ∃ it nm k u l r no' ex, itemsOf d.fields e.fields it ∧ x = .leaf nm k r no' u l ∧
        it.exp us h d.numObs e.numObs = some ex ∧ IsRes h' r ex ∧ no' = ex.1.length) ∧
      (∀ x ∈ names d.fields, x ∈ names d'.fields) ∧ d'.numObs = d.numObs + e.numObs := by
  obtain ⟨s', hs', _, hall, hsub, hno, _⟩ := dsExtend_flat us h d e h' d' hok hn hS hE hkS hkE ndS ndE hC hO
  refine ⟨?_, hsub, hno⟩
  intro x hx
  obtain ⟨it, nm, k, u, l, hw, ⟨r, no', ex, h1, h2, h3, h4, _⟩, _⟩ := hall x hx
  exact ⟨it, nm, k, u, l, r, no', ex, hw, h1, h2, hs' ▸ h3, h4⟩

/-- **`extend_keeps_sharing`, datasets of flat leaf fields**: two fields of self that hold ONE array (of a kind whose
`insert` uses the memo: time, time delta, sigma) hold ONE array after `Dataset.extend` (same hypotheses; full statement
open as above) -/
theorem extend_keeps_sharing_flat_partial (us : Units) (h : Heap) (d e : DS) (h' : Heap) (d' : DS)
    (hok : dsExtend us h d e = .ok (h', d'))
    (hn : d.numObs ≠ 0)
    (hS : ∀ f ∈ d.fields, FlatLeaf h d.numObs f) (hE : ∀ g ∈ e.fields, FlatLeaf h e.numObs g)
    (hkS : ∀ f ∈ d.fields, KindsOK h f) (hkE : ∀ g ∈ e.fields, KindsOK h g)
    (ndS : (names d.fields).Nodup) (ndE : (names e.fields).Nodup)
    (hC : Consistent us h d.numObs e.numObs (itemsOf d.fields e.fields))
    (hO : ObjsAgree (itemsOf d.fields e.fields))
    (nm1 nm2 : String) (k1 k2 : Kind) (o no1 no2 : Nat) (u1 u2 : Option (List String)) (l1 l2 : Nat)
    (h1 : Field.leaf nm1 k1 o no1 u1 l1 ∈ d.fields) (h2 : Field.leaf nm2 k2 o no2 u2 l2 ∈ d.fields)
    (hnp : k1.isPlain = false) :
    ∃ x1 x2 r no1' no2' k1' k2' u1' u2' l1' l2', x1 ∈ d'.fields ∧ x2 ∈ d'.fields ∧
      x1 = .leaf nm1 k1' r no1' u1' l1' ∧ x2 = .leaf nm2 k2' r no2' u2' l2' :=
  dsExtend_flat_sharing us h d e h' d' hok hn hS hE hkS hkE ndS ndE hC hO nm1 nm2 k1 k2 o no1 no2 u1 u2 l1 l2 h1 h2 hnp

/-- the sort key of a time field is the VALUE the field holds (third component of a row, after jd1 and jd2), not a
number derived from the Julian date: epochs that are different in the field have different keys -/
theorem sort_key_is_field_value (j1 j2 v : Scalar) (rest : Row) (hv : v ≠ .nan) :
    timeKey (j1 :: j2 :: v :: rest) = v := by
  cases v <;> simp_all [timeKey]

/-- extending a float field: the other field's rows, each column multiplied by the unit factor
`Unit(other unit, own unit)` of that column, spliced in at the field's `num_obs` ("unit conversion for
differing units") -/
theorem extend_float_converts_units (us : Units) (nm : String) (o no : Nat) (u : Option (List String)) (l : Nat)
    (nm2 : String) (o2 no2 : Nat) (u2 : Option (List String)) (l2 : Nat) (s : St) (f' : Field) (s' : St)
    (h : extendLeaf us nm .float o no u l (.leaf nm2 .float o2 no2 u2 l2) s = .ok (f', s')) :
    ∃ oa ob fs o' no' orr, s.heap[o]? = some oa ∧ s.heap[o2]? = some ob ∧ unitFactors us u u2 = .ok fs ∧
      f' = .leaf nm .float o' no' u l ∧ s'.heap[o']? = some orr ∧
      orr.rows = insertAt oa.rows no (ob.rows.map (scaleRow fs)) :=
  extend_float_rows us nm o no u l nm2 o2 no2 u2 l2 s f' s' h

/-! ### merge with sort -/

/-- the sort index of `merge_with(sort_by=…)` (after the `fix:` `kind="stable"`) is a permutation of
the row numbers, sorted by key, and stable -/
theorem sort_is_stable_permutation (keys : List Scalar) :
    (argsortStable keys).Perm (List.range keys.length) ∧
    SortedBy (fun i => keys.getD i .nan) (argsortStable keys) ∧
    StableBy (fun i => keys.getD i .nan) (argsortStable keys) :=
  ⟨argsortStable_perm keys, argsortStable_sorted keys, argsortStable_stable keys⟩

/-- sorting applies that one index to every column (so rows stay aligned) and keeps the table
rectangular with the same number of rows -/
theorem sort_refines (h : Heap) (d : DS) (p : Path) (h' : Heap) (d' : DS)
    (hok : dsSort h d p = .ok (h', d')) (hd : Rect h d) (ok : DSOK d) :
    HeapExt h h' ∧ Rect h' d' ∧ DSOK d' ∧ d'.numObs = d.numObs :=
  dsSort_ok h d p h' d' hok hd ok

/-! ### extend: content refinement (plain columns) -/

/-- **`Dataset.extend` refines the list-of-records `extend`**, for datasets all of whose columns (at any nesting
depth) are plain arrays (bool / float / text): the abstraction (names, kinds, units, levels and the rows, no
heap, no memo, no `num_obs`) of the extended dataset is the pure function `aExtendFields` of the abstractions of
the two operands — a column in both tables has the rows of self followed by the rows of other (float: times the
unit factor), a column only in self gets `m` empty values at the end, a column only in other `n` empty values in
front, collections recurse (see `records_extend_float`, `records_extend_plain`, `records_pad`).
PARTIAL: the full statement is the same equation for datasets with every field type (sigma, time, time delta,
position, posvel and the deltas with their `other` / `ref_pos` attachments); there `insert` consults the memo,
and the equation needs the additional hypothesis that the two datasets share their objects compatibly.  Those
kinds are covered by `extend_counts` (row counts), `insert_splices_rows` (array level) and the correspondence. -/
theorem extend_refines_records_partial (us : Units) (h : Heap) (d e : DS) (h' : Heap) (d' : DS)
    (hok : dsExtend us h d e = .ok (h', d')) (hd : Rect h d) (he : Rect h e) (okd : DSOK d) (oke : DSOK e)
    (hpd : Field.plain.plainL d.fields = true) (hpe : Field.plain.plainL e.fields = true) :
    aExtendFields us d.numObs e.numObs (absField.absFields h d.fields) (absField.absFields h e.fields) =
      some (absField.absFields h' d'.fields) :=
  dsExtend_abs us h d e h' d' hok hd he okd oke hpd hpe

/-- the list-of-records `extend` on a float column present in both tables: the rows of self, then the rows
of other with every column multiplied by `Unit(other unit, own unit)`; name, unit and level are self's -/
theorem records_extend_float (us : Units) (n m : Nat) (nm nm2 : String) (nd c : Nat) (u u2 : Option (List String))
    (l l2 : Nat) (rows rows2 : List Row) (fs : List Rat) (hu : unitFactors us u u2 = .ok fs) :
    aExtend us n m (.leaf nm .float nd c u l rows) (.leaf nm2 .float nd c u2 l2 rows2) =
      some (.leaf nm .float nd c u l (rows ++ rows2.map (scaleRow fs))) := by
  simp [aExtend, aExtendLeaf, hu]

/-- … on a bool / text column: the rows of self, then the rows of other -/
theorem records_extend_plain (us : Units) (n m : Nat) (nm nm2 : String) (k : Kind) (nd c : Nat)
    (u u2 : Option (List String)) (l l2 : Nat) (rows rows2 : List Row) (hk : k = .bool ∨ k = .text) :
    aExtend us n m (.leaf nm k nd c u l rows) (.leaf nm2 k nd c u2 l2 rows2) =
      some (.leaf nm k nd c u l (rows ++ rows2)) := by
  rcases hk with rfl | rfl <;> simp [aExtend, aExtendLeaf, Kind.isPlain]

/-- a column missing on one side: `k` empty values of its type (NaN / False / "") after, or in front of, its rows -/
theorem records_pad (front : Bool) (k : Nat) (nm : String) (kd : Kind) (nd c : Nat) (u : Option (List String)) (l : Nat)
    (rows : List Row) :
    aPad front k (.leaf nm kd nd c u l rows) =
      .leaf nm kd nd c u l (if front then List.replicate k (emptyRow kd c) ++ rows else rows ++ List.replicate k (emptyRow kd c)) := by
  simp [aPad]

/-! ### difference -/

/-- `Dataset.difference` returns a rectangular, well-formed table with at least one row: every field, nested
field and attached object has `num_obs` rows (no assumption on the operands: both selections have the
number of paired rows, or the operation fails) -/
theorem difference_rectangular (us : Units) (h : Heap) (d e : DS) (ib : Option (List String)) (cs co : Bool)
    (h' : Heap) (r : DS) (hok : dsDifference us h d e ib cs co = .ok (h', r)) :
    HeapExt h h' ∧ Rect h' r ∧ DSOK r ∧ r.numObs ≠ 0 := by
  obtain ⟨a, b, c⟩ := dsDifference_ok us h d e ib cs co h' r hok
  obtain ⟨_, _, _, _, hc, hn, _⟩ := dsDifference_spec us h d e ib cs co h' r hok
  exact ⟨a, b, c, by rw [hn]; exact hc⟩

/-- the common keys are strictly ascending (hence distinct) and are exactly the keys both lists carry -/
theorem common_keys_sorted_distinct (A B : List Key) :
    (commonKeys A B).Pairwise KeyLt ∧ (commonKeys A B).Nodup ∧ ∀ k, k ∈ commonKeys A B ↔ k ∈ A ∧ k ∈ B :=
  ⟨commonKeys_sorted A B, (commonKeys_sorted A B).imp (fun hlt => hlt.2), mem_commonKeys A B⟩

/-- the row paired with a key is the first row that carries it -/
theorem first_occurrence (A : List Key) (k : Key) (hk : k ∈ A) :
    A[A.idxOf k]? = some k ∧ ∀ j, j < A.idxOf k → A[j]? ≠ some k :=
  ⟨getElem?_idxOf hk, fun j hj => idxOf_first A k j hj⟩

/-- **difference pairs rows by the index fields.**  With `A`, `B` the key tuples of the rows of self and of
other: the result has one row per common key, in strictly ascending key order; with `i_k` / `j_k` the first
row of self / other carrying the `k`-th common key, every field `x` of the result is
`DiffAny … (ints i) (ints j) …` — the difference (or `_self` / `_other` copy, or collection of such, to any depth)
of a pair of fields of the same name built with exactly these two index arrays — or one of the index fields,
copied from self with the index array `i`. -/
theorem difference_pairs_by_key (us : Units) (h : Heap) (d e : DS) (nms : List String) (cs co : Bool)
    (h' : Heap) (r : DS) (hok : dsDifference us h d e (some nms) cs co = .ok (h', r)) :
    ∃ ca cb A B, nms.mapM (indexColumn h d) = .ok ca ∧ nms.mapM (indexColumn h e) = .ok cb ∧
      keyRows ca = .ok A ∧ keyRows cb = .ok B ∧
      (commonKeys A B).Pairwise KeyLt ∧ (∀ k, k ∈ commonKeys A B ↔ k ∈ A ∧ k ∈ B) ∧
      (∀ k ∈ commonKeys A B, (A[A.idxOf k]? = some k ∧ ∀ j, j < A.idxOf k → A[j]? ≠ some k) ∧
                              (B[B.idxOf k]? = some k ∧ ∀ j, j < B.idxOf k → B[j]? ≠ some k)) ∧
      r.numObs = (commonKeys A B).length ∧ r.numObs ≠ 0 ∧
      ∀ x ∈ r.fields,
        DiffOf.DiffAny us (.ints ((commonKeys A B).map (fun k => Int.ofNat (A.idxOf k))))
          (.ints ((commonKeys A B).map (fun k => Int.ofNat (B.idxOf k)))) (commonKeys A B).length h'
          d.fields e.fields x ∨
        (IndexCopy (.ints ((commonKeys A B).map (fun k => Int.ofNat (A.idxOf k)))) (commonKeys A B).length h' d.fields x ∧
          x.name ∈ nms) := by
  obtain ⟨si, oi, cnt, hidx, hc, hn, _, _, hall⟩ := dsDifference_spec us h d e (some nms) cs co h' r hok
  obtain ⟨ca, cb, A, B, h1, h2, h3, h4, rfl, rfl, rfl⟩ := diffIndex_keyed hidx
  refine ⟨ca, cb, A, B, h1, h2, h3, h4, commonKeys_sorted A B, mem_commonKeys A B, ?_, hn, by rw [hn]; exact hc, ?_⟩
  · intro k hk
    obtain ⟨ka, kb⟩ := (mem_commonKeys A B k).mp hk
    exact ⟨first_occurrence A k ka, first_occurrence B k kb⟩
  · intro x hx
    simpa using hall x hx

/-- reading a difference array with row-number indices: row `n` of the result is row `is[n]` of self minus
row `js[n]` of other times the unit factors (column by column; NaN propagates) -/
theorem difference_row (us : Units) (h : Heap) (k : Kind) (u u2 : Option (List String)) (o o2 r : Nat)
    (is js : List Nat) (hl : is.length = js.length)
    (hd : DiffObj us (.ints (is.map Int.ofNat)) (.ints (js.map Int.ofNat)) h k u u2 o o2 r) :
    ∃ oa ob orr fs, h[o]? = some oa ∧ h[o2]? = some ob ∧ h[r]? = some orr ∧ diffFactors us u u2 = .ok fs ∧
      orr.rows.length = is.length ∧
      ∀ n (hn : n < is.length), ∃ ra rb, oa.rows[is[n]]? = some ra ∧ ob.rows[js[n]'(hl ▸ hn)]? = some rb ∧
        orr.rows[n]? = some (subRow ra (scaleRow fs rb)) := by
  obtain ⟨oa, ob, orr, ra, rb, fs, h1, h2, h3, h4, h5, h6, h7, _⟩ := hd
  obtain ⟨la, ga⟩ := pick_nats is oa.rows ra h4
  obtain ⟨lb, gb⟩ := pick_nats js ob.rows rb h5
  refine ⟨oa, ob, orr, fs, h1, h2, h3, h6, by rw [h7]; simp [la, lb, hl], ?_⟩
  intro n hn
  have hn' : n < js.length := hl ▸ hn
  obtain ⟨ea, ia⟩ := ga n hn
  obtain ⟨eb, ib⟩ := gb n hn'
  refine ⟨oa.rows[is[n]], ob.rows[js[n]], List.getElem?_eq_getElem ia, List.getElem?_eq_getElem ib, ?_⟩
  have xa : ra[n]? = some oa.rows[is[n]] := by rw [ea, List.getElem?_eq_getElem ia]
  have xb : rb[n]? = some ob.rows[js[n]] := by rw [eb, List.getElem?_eq_getElem ib]
  rw [h7, List.getElem?_zipWith, xa, List.getElem?_map, xb]
  rfl

/-- **without `index_by` rows pair by position**: the numbers of observations must agree, and every field of
the result (at any depth) is built with the all-true masks, i.e. row `k` with row `k` -/
theorem difference_pairs_by_position (us : Units) (h : Heap) (d e : DS) (cs co : Bool)
    (h' : Heap) (r : DS) (hok : dsDifference us h d e none cs co = .ok (h', r)) :
    d.numObs = e.numObs ∧ r.numObs = d.numObs ∧ r.numObs ≠ 0 ∧
      ∀ x ∈ r.fields, DiffOf.DiffAny us (.mask (List.replicate d.numObs true)) (.mask (List.replicate d.numObs true))
        d.numObs h' d.fields e.fields x := by
  obtain ⟨si, oi, cnt, hidx, hc, hn, _, _, hall⟩ := dsDifference_spec us h d e none cs co h' r hok
  obtain ⟨heq, rfl, rfl, rfl⟩ := diffIndex_positional hidx
  refine ⟨heq, hn, by rw [hn]; exact hc, fun x hx => ?_⟩
  rcases hall x hx with h0 | h0
  · exact h0
  · simp at h0

/-- reading a difference array built with the all-true masks: the arrays have `n` rows each and row `k` of
the result is row `k` of self minus row `k` of other times the unit factors -/
theorem difference_row_positional (us : Units) (h : Heap) (k : Kind) (u u2 : Option (List String)) (o o2 r n : Nat)
    (hd : DiffObj us (.mask (List.replicate n true)) (.mask (List.replicate n true)) h k u u2 o o2 r) :
    ∃ oa ob orr fs, h[o]? = some oa ∧ h[o2]? = some ob ∧ h[r]? = some orr ∧ diffFactors us u u2 = .ok fs ∧
      oa.rows.length = n ∧ ob.rows.length = n ∧
      orr.rows = List.zipWith subRow oa.rows (ob.rows.map (scaleRow fs)) := by
  obtain ⟨oa, ob, orr, ra, rb, fs, h1, h2, h3, h4, h5, h6, h7, _⟩ := hd
  obtain ⟨rfl, la⟩ := pick_mask_all n oa.rows ra h4
  obtain ⟨rfl, lb⟩ := pick_mask_all n ob.rows rb h5
  exact ⟨oa, ob, orr, fs, h1, h2, h3, h6, la, lb, h7⟩

/-- unequal numbers of observations without `index_by`: `ValueError`, whatever the fields -/
theorem difference_unequal_lengths (us : Units) (h : Heap) (d e : DS) (cs co : Bool) (hne : d.numObs ≠ e.numObs) :
    dsDifference us h d e none cs co = .error .value := by
  have : (d.numObs != e.numObs) = true := by simpa using hne
  simp [dsDifference, diffIndex, this]

/-- no pair of rows (with `index_by`: no key tuple in common): `ValueError`, whatever the fields -/
theorem difference_nothing_in_common (us : Units) (h : Heap) (d e : DS) (ib : Option (List String)) (cs co : Bool)
    (si oi : Index) (hidx : diffIndex h d e ib = .ok (si, oi, 0)) :
    dsDifference us h d e ib cs co = .error .value := by
  simp [dsDifference, hidx]

/-! ### non-vacuity -/

example : pick (.mask [true, false, true]) [1, 2, 3] = .ok [1, 3] := rfl
example : pick (.ints [-1, 0]) [1, 2, 3] = .ok [3, 1] := rfl
example : pick (.ints [3]) [1, 2, 3] = (.error .index : M (List Nat)) := rfl
example : argsortStable [.num 2, .num 1, .num 2, .num 1] = [1, 3, 0, 2] := by decide +kernel

/-- self: keys `a b a` (a duplicate), `g.x = 1 2 3`; other: keys `b a`, `g.x = 10 20` -/
def exHeap : Heap := [
  { kind := .text, ndim := 1, cols := 1, rows := [[.txt "a"], [.txt "b"], [.txt "a"]] },
  { kind := .float, ndim := 1, cols := 1, rows := [[.num 1], [.num 2], [.num 3]] },
  { kind := .text, ndim := 1, cols := 1, rows := [[.txt "b"], [.txt "a"]] },
  { kind := .float, ndim := 1, cols := 1, rows := [[.num 10], [.num 20]] } ]
def exD : DS := { numObs := 3, fields := [.leaf "k" .text 0 3 none 3, .coll "g" 3 3 [.leaf "x" .float 1 3 none 3]] }
def exE : DS := { numObs := 2, fields := [.leaf "k" .text 2 2 none 3, .coll "g" 2 3 [.leaf "x" .float 3 2 none 3]] }

/-- the hypotheses of `difference_pairs_by_key` / `difference_rectangular` are satisfiable: keys `a`, `b` in
ascending order, paired with the first rows carrying them (0, 1 of self; 1, 0 of other); the nested field
`g.x` (heap object 8) is `1 − 20, 2 − 10` -/
example : (dsDifference {} exHeap exD exE (some ["k"]) false false).toOption.map
      (fun p => (p.2.numObs, names p.2.fields, (p.1.getD 8 default).rows, (p.1.getD 9 default).rows))
    = some (2, ["g", "k"], [[.num (-19)], [.num (-8)]], [[.txt "a"], [.txt "b"]]) := by decide +kernel
/-- by position: unequal lengths fail, equal lengths pair row `k` with row `k` -/
example : dsDifference {} exHeap exD exE none false false = .error .value :=
  difference_unequal_lengths _ _ _ _ _ _ (by decide)
example : (dsDifference {} exHeap exD exD none true false).toOption.map
      (fun p => (p.2.numObs, names p.2.fields, (p.1.getD 8 default).rows))
    = some (3, ["k_self", "g"], [[.num 0], [.num 0], [.num 0]]) := by decide +kernel
example : intersectKeys [[.num 1], [.num 1], [.num 2]] [[.num 2], [.num 3], [.num 1]] = [(0, 2), (2, 0)] := by
  decide +kernel
example : intersectKeys [[.txt "a"]] [[.txt "b"]] = [] := by decide +kernel
/-- the list-of-records `extend`: `x` (bit) gets other's `x` (byte, factor 8) appended, `y` only in other gets two
NaN in front, `z` only in self one NaN at the end -/
example : (aExtendFields { table := [("byte", "bit", 8)] } 2 1
    [.leaf "x" .float 1 1 (some ["bit"]) 3 [[.num 1], [.num 2]], .leaf "z" .float 1 1 none 3 [[.num 5], [.num 6]]]
    [.leaf "y" .float 1 1 none 2 [[.num 7]], .leaf "x" .float 1 1 (some ["byte"]) 1 [[.num 3]]]).map aLeaves.aLeavesL =
    some [("x", [[.num 1], [.num 2], [.num 24]]), ("z", [[.num 5], [.num 6], [.nan]]),
          ("y", [[.nan], [.nan], [.num 7]])] := by decide +kernel

def exUtc : Obj :=
  { kind := .time, ndim := 1, cols := 1, rows := [[.num 2451544.5, .num 0, .num 51544], [.num 2451545.5, .num 0, .num 51545]],
    tag := "utc/mjd" }
def exConv : Conv :=
  [(("utc/mjd", "gps/jd", [.num 2451544.5, .num 0, .num 51544]), [.num 2451544.5, .num (1/6400), .num 2451544.50015625]),
   (("utc/mjd", "gps/jd", [.num 2451545.5, .num 0, .num 51545]), [.num 2451545.5, .num (1/6400), .num 2451545.50015625])]

/-- the hypotheses of `insert_converts_each_epoch` are satisfiable: a UTC/mjd array spliced into a GPS/jd array (13.5 s
= 1/6400 d later, value shown as a Julian date) -/
example : needsConv "gps/jd" exUtc = true := by decide +kernel
example : convertible exConv "gps/jd" exUtc = true := by
  simp only [convertible, exUtc, exConv, needsConv]
  decide +kernel
example : convRows exConv "gps/jd" exUtc =
      [[.num 2451544.5, .num (1/6400), .num 2451544.50015625], [.num 2451545.5, .num (1/6400), .num 2451545.50015625]] := by
  decide +kernel
/-- same scale and format: nothing is converted -/
example : convRows exConv "utc/mjd" exUtc = exUtc.rows := insert_same_format_keeps_rows _ _ _ (Or.inl rfl)
/-- two epochs some microseconds apart (values in mjd) keep different sort keys although `jd1 + jd2` rounds to one float -/
example : timeKey [.num 2458849.5, .num (1/2), .num 58849.5000000001] = .num 58849.5000000001 :=
  sort_key_is_field_value _ _ _ _ (by decide)

def exGps : Obj :=
  { kind := .time, ndim := 1, cols := 1, rows := [[.num 2451540.5, .num 0, .num 2451540.5]], tag := "gps/jd" }
/-- the hypotheses of `extend_time_field_content` / `extend_keeps_sharing_partial` are satisfiable: a GPS/jd field of one
epoch extended by the UTC/mjd field of two epochs; the result (object 2) holds the three epochs in GPS/jd and is what a
second insert of either array hands out -/
example : (extendLeaf {} "t" .time 0 1 none 3 (.leaf "t" .time 1 2 none 3) { heap := [exGps, exUtc], conv := exConv }).toOption.map
      (fun p => (p.2.heap.getD 2 default).rows.length) = some 3 := by decide +kernel
example : (insertObj 3 0 1 1 { heap := [exGps, exUtc], conv := exConv }).toOption.map (fun p => (p.1, p.2.find 0, p.2.find 1))
    = some (2, some 2, some 2) := by decide +kernel

/-- the hypotheses of `extend_sigma_field_content` are satisfiable (ounce -> pound would need the table; same unit here) -/
example : (extendLeaf {} "s" .sigma 0 2 (some ["bit"]) 3 (.leaf "s" .sigma 1 1 (some ["bit"]) 3)
      { heap := [{ kind := .sigma, ndim := 1, cols := 1, rows := [[.num 1, .num 2], [.num 3, .num 4]] },
                 { kind := .sigma, ndim := 1, cols := 1, rows := [[.num 5, .num 6]] }] }).toOption.map
      (fun p => (p.2.heap.getD 3 default).rows) = some [[.num 1, .num 2], [.num 3, .num 4], [.num 5, .num 6]] := by
  decide +kernel

/-- the situation of the listed finding: `sent` and `received` are one array (object 0), the other dataset has only
`received`; and its absence when the other dataset has both names -/
example : splitSharing [.leaf "sent" .time 0 2 none 3, .leaf "received" .time 0 2 none 3] [.leaf "received" .time 1 1 none 3]
    = true := by decide +kernel
example : splitSharing [.leaf "sent" .time 0 2 none 3, .leaf "received" .time 0 2 none 3]
    [.leaf "received" .time 1 1 none 3, .leaf "sent" .time 1 1 none 3] = false := by decide +kernel
/-- the hypotheses of the two `…served_from_memo` theorems are satisfiable: after the insert of (0, 1) the memo knows 0 -/
example : ((insertObj 3 0 1 1 { heap := [exGps, exUtc], conv := exConv }).toOption.bind (fun p => p.2.find 0)) = some 2 := by
  decide +kernel

/-- the hypotheses of the `…_under_invariant` theorems are satisfiable: one item (GPS/jd array 0 of self, UTC/mjd array 1 of
other), the empty memo at the start of an `extend` -/

def exW : Item → Prop := fun it => it = .both .time 0 none 1 none
example : Items [exGps, exUtc] exW := ⟨by
  intro it hit o ho
  cases hit
  simp only [Item.objs, show (Kind.time == Kind.sigma) = false from rfl, Bool.false_eq_true, if_false,
    List.mem_cons, List.not_mem_nil, or_false] at ho
  rcases ho with rfl | rfl
  · exact ⟨exGps, rfl, rfl⟩
  · exact ⟨exUtc, rfl, rfl⟩⟩
example (us : Units) (n m : Nat) : Consistent us [exGps, exUtc] n m exW := by
  intro i j hi hj _ _ _; cases hi; cases hj; rfl
example : ObjsAgree exW := by
  intro i j hi hj _ _ _ x; cases hi; cases hj; rfl
example (us : Units) (n m : Nat) : MemoSem us [exGps, exUtc] n m exW { heap := [exGps, exUtc], conv := us.conv } :=
  ⟨by intro k v h; simp at h, HeapExt.refl _, by intro it _ _ o _ v h; simp [St.find] at h,
   by intro it _ _ o _ o' _ v v' h; simp [St.find] at h⟩


def exT0 : Obj := { kind := .time, ndim := 1, cols := 1, tag := "utc/mjd", rows := [[.num 2451544.5, .num 0, .num 51544], [.num 2451545.5, .num 0, .num 51545]] }
def exT1 : Obj := { kind := .time, ndim := 1, cols := 1, tag := "utc/mjd", rows := [[.num 2451546.5, .num 0, .num 51546]] }
def exDS : DS := { numObs := 2, fields := [.leaf "sent" .time 0 2 none 3, .leaf "received" .time 0 2 none 3] }
def exES : DS := { numObs := 1, fields := [.leaf "sent" .time 1 1 none 3, .leaf "received" .time 1 1 none 3] }

/-- (for the example below) the only unit of work of `exDS`, `exES` -/
theorem flat_example_items : ∀ it, itemsOf exDS.fields exES.fields it → it = .both .time 0 none 1 none := by
  intro it hit
  rcases hit with ⟨nm, k, a, no, u, l, nm2, b, no2, u2, l2, h1, h2, _, rfl⟩ | ⟨nm, k, a, no, u, l, h1, h2, rfl⟩ |
    ⟨nm, k, b, no, u, l, h1, h2, rfl⟩
  · simp [exDS, exES] at h1 h2
    rcases h1 with ⟨_, rfl, rfl, _, rfl, _⟩ | ⟨_, rfl, rfl, _, rfl, _⟩ <;>
      rcases h2 with ⟨_, _, rfl, _, rfl, _⟩ | ⟨_, _, rfl, _, rfl, _⟩ <;> rfl
  · simp [exDS, exES, names] at h1 h2
    rcases h1 with ⟨rfl, _⟩ | ⟨rfl, _⟩
    · exact absurd rfl h2.1
    · exact absurd rfl h2.2
  · simp [exDS, exES, names] at h1 h2
    rcases h1 with ⟨rfl, _⟩ | ⟨rfl, _⟩
    · exact absurd rfl h2.1
    · exact absurd rfl h2.2

/-- the hypotheses of `extend_refines_records_flat_partial` / `extend_keeps_sharing_flat_partial` are satisfiable, with
sharing: `sent` and `received` are ONE array in self (object 0) and ONE array in other (object 1) -/
example : ∃ h' d', dsExtend {} [exT0, exT1] exDS exES = .ok (h', d') ∧ exDS.numObs ≠ 0 ∧
    (∀ f ∈ exDS.fields, FlatLeaf [exT0, exT1] exDS.numObs f) ∧ (∀ g ∈ exES.fields, FlatLeaf [exT0, exT1] exES.numObs g) ∧
    (∀ f ∈ exDS.fields, KindsOK [exT0, exT1] f) ∧ (∀ g ∈ exES.fields, KindsOK [exT0, exT1] g) ∧
    (names exDS.fields).Nodup ∧ (names exES.fields).Nodup ∧
    Consistent {} [exT0, exT1] exDS.numObs exES.numObs (itemsOf exDS.fields exES.fields) ∧
    ObjsAgree (itemsOf exDS.fields exES.fields) := by
  refine ⟨_, _, rfl, by decide, ?_, ?_, ?_, ?_, by decide, by decide, ?_, ?_⟩
  · intro f hf
    simp [exDS] at hf
    rcases hf with rfl | rfl <;> exact ⟨_, _, _, _, _, _, exT0, rfl, rfl, rfl, rfl, rfl⟩
  · intro f hf
    simp [exES] at hf
    rcases hf with rfl | rfl <;> exact ⟨_, _, _, _, _, _, exT1, rfl, rfl, rfl, rfl, rfl⟩
  · intro f hf
    simp [exDS] at hf
    rcases hf with rfl | rfl <;> exact ⟨exT0, rfl, rfl⟩
  · intro f hf
    simp [exES] at hf
    rcases hf with rfl | rfl <;> exact ⟨exT1, rfl, rfl⟩
  · intro i j hi hj _ _ _
    rw [flat_example_items i hi, flat_example_items j hj]
  · intro i j hi hj _ _ _ x
    rw [flat_example_items i hi, flat_example_items j hj]

/-- does the history run? (executable) -/
def runs : W → List Op → Bool
  | _, [] => true
  | w, op :: ops => match step w op with
    | .ok (w', _) => runs w' ops
    | .error _ => false

theorem run_of_runs : ∀ (ops : List Op) (w : W), (∀ w op, op ∈ ops → Valid w op) → runs w ops = true → ∃ w', Run w ops w'
  | [], w, _, _ => ⟨w, .nil w⟩
  | op :: ops, w, hv, hr => by
    simp only [runs] at hr
    split at hr
    · rename_i w1 out hs
      obtain ⟨w', hrun⟩ := run_of_runs ops w1 (fun w o ho => hv w o (List.mem_cons_of_mem _ ho)) hr
      exact ⟨w', .cons (hv w op (by simp)) hs hrun⟩
    · simp at hr

/-- a history with differences (keyed, then of the result with itself by position) and a subset in between is a
`Run`, so `history_invariant` speaks about it -/
example : ∃ w', Run { heap := exHeap, ds := [some exD, some exE] }
    [.difference 0 1 2 (some ["k"]) true true, .subset 2 (.ints [1, 0, 1]), .difference 2 2 0 none false true] w' :=
  run_of_runs _ _ (fun w op hop => by
    simp only [List.mem_cons, List.not_mem_nil, or_false] at hop
    rcases hop with rfl | rfl | rfl <;> trivial) (by decide +kernel)

end Midgard.Props.C09

#print axioms Midgard.Props.C09.history_invariant
#print axioms Midgard.Props.C09.empty_world_ok
#print axioms Midgard.Props.C09.step_invariant
#print axioms Midgard.Props.C09.subset_refines
#print axioms Midgard.Props.C09.image_rows
#print axioms Midgard.Props.C09.pick_mask_in_order
#print axioms Midgard.Props.C09.pick_ints_in_order
#print axioms Midgard.Props.C09.subset_count_not_sum
#print axioms Midgard.Props.C09.subset_keeps_sharing
#print axioms Midgard.Props.C09.memo_registers
#print axioms Midgard.Props.C09.extend_counts
#print axioms Midgard.Props.C09.insert_at_end_appends
#print axioms Midgard.Props.C09.pad_front
#print axioms Midgard.Props.C09.insert_counts
#print axioms Midgard.Props.C09.insert_splices_rows
#print axioms Midgard.Props.C09.insert_same_format_keeps_rows
#print axioms Midgard.Props.C09.insert_converts_each_epoch
#print axioms Midgard.Props.C09.sort_key_is_field_value
#print axioms Midgard.Props.C09.extend_time_field_content
#print axioms Midgard.Props.C09.extend_keeps_sharing_partial
#print axioms Midgard.Props.C09.extend_sigma_field_content
#print axioms Midgard.Props.C09.extend_second_name_served_from_memo
#print axioms Midgard.Props.C09.pad_of_second_name_served_from_memo
#print axioms Midgard.Props.C09.insert_under_memo_invariant
#print axioms Midgard.Props.C09.extend_time_leaf_under_invariant
#print axioms Midgard.Props.C09.extend_sigma_leaf_under_invariant
#print axioms Midgard.Props.C09.pad_leaf_under_invariant
#print axioms Midgard.Props.C09.extend_refines_records_flat_partial
#print axioms Midgard.Props.C09.extend_keeps_sharing_flat_partial
#print axioms Midgard.Props.C09.flat_example_items
#print axioms Midgard.Props.C09.extend_float_converts_units
#print axioms Midgard.Props.C09.sort_is_stable_permutation
#print axioms Midgard.Props.C09.sort_refines
#print axioms Midgard.Props.C09.difference_rectangular
#print axioms Midgard.Props.C09.common_keys_sorted_distinct
#print axioms Midgard.Props.C09.first_occurrence
#print axioms Midgard.Props.C09.difference_pairs_by_key
#print axioms Midgard.Props.C09.difference_row
#print axioms Midgard.Props.C09.difference_pairs_by_position
#print axioms Midgard.Props.C09.difference_row_positional
#print axioms Midgard.Props.C09.difference_unequal_lengths
#print axioms Midgard.Props.C09.difference_nothing_in_common
#print axioms Midgard.Props.C09.run_of_runs
#print axioms Midgard.Props.C09.extend_refines_records_partial
#print axioms Midgard.Props.C09.records_extend_float
#print axioms Midgard.Props.C09.records_extend_plain
#print axioms Midgard.Props.C09.records_pad
