/-
C09 — A Dataset stays a rectangular, row-aligned table under any operation sequence.
(placeholder while the proofs are being written)
-/
import Midgard.Model.DatasetOps

namespace Midgard.Props.C09
open Midgard.Dataset

theorem pickMask_length_le {α} (m : List Bool) (xs : List α) : (pickMask m xs).length ≤ xs.length := by
  induction m generalizing xs with
  | nil => simp [pickMask]
  | cons b bs ih =>
    cases xs with
    | nil => simp [pickMask]
    | cons x xs =>
      simp only [pickMask]
      split
      · simp; exact ih xs
      · have := ih xs; simp; omega

end Midgard.Props.C09

#print axioms Midgard.Props.C09.pickMask_length_le
