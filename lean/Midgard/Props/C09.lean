/-
C09 — A Dataset stays a rectangular, row-aligned table under any operation sequence.

Property theorems only, about the executable model in `Model/Dataset.lean` / `Model/DatasetOps.lean`
(heap of array objects with `other`/`ref_pos` references, field trees, every operation threading
the code's memo).  The model is tied to `/repo` by the correspondence of `harness/c09.py`.

What is proved, for all heaps, datasets, indices and operation sequences (no bound):

* `history_invariant`   after any sequence of successful operations (new / obj / add / del / subset /
                        extend / merge(+sort) / filter-subset / unique) every dataset of the world is
                        rectangular: every field, every field nested in collections, every `other`
                        / `ref_pos` object attached (recursively) has exactly `num_obs` rows, and every
                        field's own `num_obs` equals the dataset's.
* `subset_refines`      `subset` is, object by object, "keep the selected rows": the new field tree has
                        the same names / kinds / units / levels in the same order, every array — and
                        every array attached to it — is the image of the old one under `pick idx`,
                        the declared count is the number of selected rows.  Row alignment is this
                        statement: one and the same `idx` acts on every column.
* `pick_mask_in_order`, `pick_ints_in_order`   `pick` keeps the selected rows in order.
* `extend_counts`       `extend` of `n` rows by `m` rows gives `n + m` everywhere (missing fields and
                        one-sided attachments are padded); `insert_splices_rows`, `insert_at_end_appends`,
                        `pad_front`, `extend_float_converts_units` say where the rows go and how units
                        are converted, array by array.
* `sort_is_stable_permutation`, `sort_refines`   merge-with-sort permutes every column by one
                        permutation of the row numbers that is sorted by key and stable.
* `subset_count_not_sum` the negation witness for the code as it was (`num_obs = sum(idx)`).

* `subset_keeps_sharing` one function from old to new array objects describes what every time / position /
                        delta field holds after `subset` (and after the sort of `merge_with`): fields
                        that shared an object share the new one — the memo re-creates it exactly once.

Not proved (measured by the correspondence and the property oracle only): the content half of the
refinement for `extend` (`abs (extend d e) = abs d ++ pad (abs e)` incl. unit factors — only the row
counts and the array-level splice are theorems), sharing under `extend` and the identity of
*attached* objects with fields (`p.other is q` — the images of the attachments are proved, that the
image is the object field `q` now holds is not), and `difference`, which is not in the model.
-/
import Midgard.Proofs.DatasetExtendRows

namespace Midgard.Props.C09
open Midgard.Dataset

/-! ### the history invariant -/

/-- After any history of successful operations, starting from a world of rectangular tables, every
dataset is a rectangular table: all fields, nested fields and attached objects have `num_obs` rows.
(`Run` also records that the arrays handed to `add` are themselves consistent, which the code does
not check.) -/
theorem history_invariant {w w' : W} {ops : List Op} (hr : Run w ops w') (ok : WOK w) : WOK w' :=
  run_ok hr ok

/-- the empty world is fine, so every history from scratch is covered -/
theorem empty_world_ok : WOK {} := by
  intro i x h
  simp [W.getDs] at h

/-- one step, with the heap only growing (old arrays are never modified: datasets that were not
operated on keep their contents) -/
theorem step_invariant (w : W) (op : Op) (w' : W) (out : Out) (hs : step w op = .ok (w', out)) (ok : WOK w)
    (hv : Valid w op) : WOK w' ∧ HeapExt w.heap w'.heap :=
  step_ok w op w' out hs ok hv

/-! ### subset -/

/-- `Dataset.subset` refines "keep the selected rows of every column": -/
theorem subset_refines (idx : Index) (h : Heap) (d : DS) (h' : Heap) (d' : DS)
    (hok : dsSubset idx h d = .ok (h', d')) (ok : DSOK d) :
    HeapExt h h' ∧ FieldImg.FieldsImg idx h' d.fields d'.fields ∧ d'.numObs = idx.count ∧ Rect h' d' := by
  obtain ⟨a, b, c, e, _⟩ := dsSubset_spec idx h d h' d' hok ok.dswf
  exact ⟨a, b, c, e⟩

/-- an image has the picked rows, and so has everything attached to it (one unfolding of `Img`) -/
theorem image_rows (idx : Index) (h : Heap) (o o' : Nat) (hi : Img idx h o o') :
    ∃ ob ob', h[o]? = some ob ∧ h[o']? = some ob' ∧ pick idx ob.rows = .ok ob'.rows ∧ ob'.kind = ob.kind ∧
      (ob.kind.hasOther = true → OptRel (Img idx h) ob.other ob'.other) ∧
      (ob.kind.isDelta = true → OptRel (Img idx h) ob.refPos ob'.refPos) := by
  obtain ⟨f, hf⟩ := hi
  cases f with
  | zero => simp [ImgF] at hf
  | succ f =>
    obtain ⟨ob, ob', h1, h2, h3, h4, _, _, h7, h8⟩ := hf
    exact ⟨ob, ob', h1, h2, h3, h4, fun hk => (h7 hk).mono (fun _ _ hh => ⟨f, hh⟩),
      fun hk => (h8 hk).mono (fun _ _ hh => ⟨f, hh⟩)⟩

/-- boolean mask: the result is the sub-list of the rows whose mask entry is true, in order -/
theorem pick_mask_in_order {α} (m : List Bool) (xs r : List α) (h : pick (.mask m) xs = .ok r) :
    r.Sublist xs ∧ r = ((m.zip xs).filter (fun p => p.1)).map (·.2) ∧ r.length = (m.filter id).length := by
  have hl := pick_length (.mask m) xs r h
  simp only [pick] at h
  split at h
  · simp only [Except.ok.injEq] at h; subst h
    exact ⟨pickMask_sublist m xs, pickMask_eq_zip_filter m xs, hl⟩
  · simp at h

/-- integer index: entry `k` of the result is row `is[k]` (negative numbers count from the end) -/
theorem pick_ints_in_order {α} (is : List Int) (xs r : List α) (h : pick (.ints is) xs = .ok r) :
    r.length = is.length ∧ ∀ k (hk : k < is.length), ∃ j, normIdx xs.length is[k] = some j ∧ r[k]? = xs[j]? := by
  have hl := pick_length (.ints is) xs r h
  simp only [pick] at h
  split at h
  · rename_i r' hr
    simp only [Except.ok.injEq] at h; subst h
    exact ⟨hl, pickInts_get xs is r' hr⟩
  · simp at h

/-- the declared count after the `fix:` is the number of selected rows; the code as it was declared
`sum(idx)`: for the integer index `[3, 2, 1, 3]` over four rows that is 9, not 4 -/
theorem subset_count_not_sum :
    (Index.ints [3, 2, 1, 3]).count = 4 ∧ ([3, 2, 1, 3] : List Int).sum = 9 ∧
    pick (.ints [3, 2, 1, 3]) [10, 11, 12, 13] = .ok [13, 12, 11, 13] := by
  refine ⟨rfl, by decide, rfl⟩

/-- **sharing under `subset`**: if the heap objects of the leaves have the kinds of their fields (as
`add` establishes), there is one map `σ` from old to new objects such that every leaf of a
memo-using kind (time, time delta, position, posvel, the deltas) that held `o` holds `σ o` afterwards,
at every nesting depth — two fields that were the same object are the same object again. -/
theorem subset_keeps_sharing (idx : Index) (h : Heap) (d : DS) (h' : Heap) (d' : DS)
    (hok : dsSubset idx h d = .ok (h', d')) (hk : KindsOK.KindsOKs h d.fields) :
    ∃ σ : Nat → Option Nat, LeafMap.LeafMaps σ d.fields d'.fields :=
  dsSubset_sharing idx h d h' d' hok hk

/-- the memo registers what it re-creates and never forgets the registration of an array object of a
memo-using kind (the mechanism behind `subset_keeps_sharing`) -/
theorem memo_registers (idx : Index) (fuel o : Nat) (s : St) (o' : Nat) (s' : St)
    (h : subsetObj idx fuel o s = .ok (o', s')) : s'.find o = some o' ∧ PersistK s s' :=
  ⟨(subsetObj_reg idx fuel o s o' s' h).2.2, (subsetObj_reg idx fuel o s o' s' h).2.1⟩

/-! ### extend -/

/-- `Dataset.extend`: `n` rows extended by `m` rows are `n + m` rows in every field, nested field
and attached object; fields missing on one side are padded. -/
theorem extend_counts (us : Units) (h : Heap) (d e : DS) (h' : Heap) (d' : DS)
    (hok : dsExtend us h d e = .ok (h', d')) (hd : Rect h d) (he : Rect h e) (okd : DSOK d) (oke : DSOK e) :
    HeapExt h h' ∧ Rect h' d' ∧ DSOK d' ∧ d'.numObs = d.numObs + e.numObs :=
  dsExtend_ok us h d e h' d' hok hd he okd oke

/-- at the array level `np.insert` at the end appends (every field inserts at its own `num_obs`,
which the invariant makes the number of rows) and at 0 prepends -/
theorem insert_at_end_appends {α} (a b : List α) : insertAt a a.length b = a ++ b := insertAt_end a b
theorem pad_front {α} (a b : List α) : insertAt a 0 b = b ++ a := insertAt_zero a b

/-- `insert` of two arrays: the result has the rows of both, whatever the memo returned for the
attachments -/
theorem insert_counts (n m : Nat) (fuel a pos b : Nat) (s : St) (r : Nat) (s' : St)
    (h : insertObj fuel a pos b s = .ok (r, s')) (hm : MemoGood (n + m) s) (ga : Good s.heap n a)
    (gb : Good s.heap m b) : Good s'.heap (n + m) r ∧ HeapExt s.heap s'.heap :=
  ⟨(insertObj_spec n m fuel a pos b s r s' h hm ga gb).2, (insertObj_spec n m fuel a pos b s r s' h hm ga gb).1.1⟩

/-- `insert(a, pos, b, memo)` of two arrays the memo has not seen: the rows of `a` with the rows of `b`
spliced in at `pos` (= appended, by `insert_at_end_appends`, for a field of a rectangular table) -/
theorem insert_splices_rows (fuel a pos b : Nat) (s : St) (r : Nat) (s' : St)
    (h : insertObj (fuel + 1) a pos b s = .ok (r, s')) (ha : s.find a = none) (hb : s.find b = none) :
    ∃ oa ob orr, s.heap[a]? = some oa ∧ s.heap[b]? = some ob ∧ s'.heap[r]? = some orr ∧
      orr.rows = insertAt oa.rows pos ob.rows ∧ orr.kind = oa.kind :=
  insertObj_rows fuel a pos b s r s' h ha hb

/-- extending a float field: the other field's rows, each column multiplied by the unit factor
`Unit(other unit, own unit)` of that column, spliced in at the field's `num_obs` ("unit conversion for
differing units") -/
theorem extend_float_converts_units (us : Units) (nm : String) (o no : Nat) (u : Option (List String)) (l : Nat)
    (nm2 : String) (o2 no2 : Nat) (u2 : Option (List String)) (l2 : Nat) (s : St) (f' : Field) (s' : St)
    (h : extendLeaf us nm .float o no u l (.leaf nm2 .float o2 no2 u2 l2) s = .ok (f', s')) :
    ∃ oa ob fs o' no' orr, s.heap[o]? = some oa ∧ s.heap[o2]? = some ob ∧ unitFactors us u u2 = .ok fs ∧
      f' = .leaf nm .float o' no' u l ∧ s'.heap[o']? = some orr ∧
      orr.rows = insertAt oa.rows no (ob.rows.map (scaleRow fs)) :=
  extend_float_rows us nm o no u l nm2 o2 no2 u2 l2 s f' s' h

/-! ### merge with sort -/

/-- the sort index of `merge_with(sort_by=…)` (after the `fix:` `kind="stable"`) is a permutation of
the row numbers, sorted by key, and stable -/
theorem sort_is_stable_permutation (keys : List Scalar) :
    (argsortStable keys).Perm (List.range keys.length) ∧
    SortedBy (fun i => keys.getD i .nan) (argsortStable keys) ∧
    StableBy (fun i => keys.getD i .nan) (argsortStable keys) :=
  ⟨argsortStable_perm keys, argsortStable_sorted keys, argsortStable_stable keys⟩

/-- sorting applies that one index to every column (so rows stay aligned) and keeps the table
rectangular with the same number of rows -/
theorem sort_refines (h : Heap) (d : DS) (p : Path) (h' : Heap) (d' : DS)
    (hok : dsSort h d p = .ok (h', d')) (hd : Rect h d) (ok : DSOK d) :
    HeapExt h h' ∧ Rect h' d' ∧ DSOK d' ∧ d'.numObs = d.numObs :=
  dsSort_ok h d p h' d' hok hd ok

/-! ### non-vacuity -/

example : pick (.mask [true, false, true]) [1, 2, 3] = .ok [1, 3] := rfl
example : pick (.ints [-1, 0]) [1, 2, 3] = .ok [3, 1] := rfl
example : pick (.ints [3]) [1, 2, 3] = (.error .index : M (List Nat)) := rfl
example : argsortStable [.num 2, .num 1, .num 2, .num 1] = [1, 3, 0, 2] := by decide +kernel

end Midgard.Props.C09

#print axioms Midgard.Props.C09.history_invariant
#print axioms Midgard.Props.C09.empty_world_ok
#print axioms Midgard.Props.C09.step_invariant
#print axioms Midgard.Props.C09.subset_refines
#print axioms Midgard.Props.C09.image_rows
#print axioms Midgard.Props.C09.pick_mask_in_order
#print axioms Midgard.Props.C09.pick_ints_in_order
#print axioms Midgard.Props.C09.subset_count_not_sum
#print axioms Midgard.Props.C09.subset_keeps_sharing
#print axioms Midgard.Props.C09.memo_registers
#print axioms Midgard.Props.C09.extend_counts
#print axioms Midgard.Props.C09.insert_at_end_appends
#print axioms Midgard.Props.C09.pad_front
#print axioms Midgard.Props.C09.insert_counts
#print axioms Midgard.Props.C09.insert_splices_rows
#print axioms Midgard.Props.C09.extend_float_converts_units
#print axioms Midgard.Props.C09.sort_is_stable_permutation
#print axioms Midgard.Props.C09.sort_refines
